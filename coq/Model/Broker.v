(* Model of the in-memory metadata broker.
   Mirrors  broker/store.rs   (MetaStore, ClusterStore::limit_migration, MigrationSlotRangeStore::to_slot_range,
                               auto_change_node_number, auto_scale_out_node_number, force_bump_all_epoch, recover_epoch, restore)
            broker/update.rs  (add_failure, get_failures, add_proxy, add_cluster, proxy_resource_to_chunk_store, remove_cluster,
                               auto_scale_up_nodes, auto_add_nodes, auto_delete_free_nodes(_if_exists), remove_proxy,
                               generate_free_chunks, remove_redundant_chunks, allocate_chunk, second_host_cmp, build_link_table,
                               generate_free_chunks_for_ordered_proxy_index, generate_new_free_proxy, replace_failed_proxy,
                               takeover_master, balance_masters, change_config)
            broker/migrate.rs (migrate_slots, remove_slots_from_src, assign_dst_slots, compact_slots, migrate_slots_to_scale_down,
                               remove_slots_from_src_to_scale_down, commit_migration, check_running_tasks)
            broker/query.rs   (get_proxy_by_address, get_cluster_by_name, cluster_store_to_cluster, get_free_proxy_resource,
                               check_metadata)
   Identifiers (proxy addresses, node addresses, hosts, cluster names, reporters) are N; the harness maps them to strings.
   HashMap / HashSet values are association lists kept sorted by key (canonical form).
   Hash-order dependent choices of the allocator are an ORACLE argument of the operation, validated by the model.
   Executable definitions only. *)
From UM Require Import Base.BytesDef Model.Ranges.

(* ---------- association lists sorted by key ---------- *)
Fixpoint alookup {V} (k : N) (l : list (N * V)) : option V :=
  match l with
  | [] => None
  | (k', v) :: l' => if N.eqb k k' then Some v else alookup k l'
  end.

Fixpoint ainsert {V} (k : N) (v : V) (l : list (N * V)) : list (N * V) :=
  match l with
  | [] => [(k, v)]
  | (k', v') :: l' =>
    if N.eqb k k' then (k, v) :: l'
    else if N.ltb k k' then (k, v) :: l
    else (k', v') :: ainsert k v l'
  end.

Fixpoint aremove {V} (k : N) (l : list (N * V)) : list (N * V) :=
  match l with
  | [] => []
  | (k', v') :: l' => if N.eqb k k' then l' else (k', v') :: aremove k l'
  end.

Definition amem {V} (k : N) (l : list (N * V)) : bool :=
  match alookup k l with Some _ => true | None => false end.

Fixpoint sinsert (k : N) (l : list N) : list N :=
  match l with
  | [] => [k]
  | k' :: l' => if N.eqb k k' then l else if N.ltb k k' then k :: l else k' :: sinsert k l'
  end.
Fixpoint sremove (k : N) (l : list N) : list N :=
  match l with
  | [] => []
  | k' :: l' => if N.eqb k k' then l' else k' :: sremove k l'
  end.
Definition smem (k : N) (l : list N) : bool := existsb (N.eqb k) l.

(* ---------- store types ---------- *)
Inductive role_pos := RNormal | RFirst | RSecond.

Definition role_eqb (a b : role_pos) : bool :=
  match a, b with
  | RNormal, RNormal | RFirst, RFirst | RSecond, RSecond => true
  | _, _ => false
  end.

(* chunk part: false = 0, true = 1 *)
Record mig_meta := mkMeta {
  mm_epoch : N; mm_src_idx : nat; mm_src_part : bool; mm_dst_idx : nat; mm_dst_part : bool }.

Record mig_store := mkMig { ms_ranges : rangelist; ms_out : bool; ms_meta : mig_meta }.

Record chunk := mkChunk {
  ck_role : role_pos;
  ck_stable0 : option rangelist; ck_stable1 : option rangelist;
  ck_mig0 : list mig_store; ck_mig1 : list mig_store;
  ck_proxy0 : N; ck_proxy1 : N;
  ck_host0 : N; ck_host1 : N;
  ck_n0 : N; ck_n1 : N; ck_n2 : N; ck_n3 : N }.

Record cluster := mkCluster { cl_epoch : N; cl_chunks : list chunk; cl_config : N }.

Record presource := mkRes { pr_n0 : N; pr_n1 : N; pr_host : N; pr_index : N; pr_cluster : option N }.

Record store := mkStore {
  st_epoch : N;
  st_clusters : list (N * cluster);
  st_proxies : list (N * presource);
  st_failed : list N;
  st_failures : list (N * list (N * Z));
  st_ordered : bool }.

Definition init_store (ordered : bool) : store := mkStore 0 [] [] [] [] ordered.

Definition meta_eqb (a b : mig_meta) : bool :=
  N.eqb (mm_epoch a) (mm_epoch b) && Nat.eqb (mm_src_idx a) (mm_src_idx b) && Bool.eqb (mm_src_part a) (mm_src_part b)
  && Nat.eqb (mm_dst_idx a) (mm_dst_idx b) && Bool.eqb (mm_dst_part a) (mm_dst_part b).

Definition ck_stable (c : chunk) (part : bool) : option rangelist := if part then ck_stable1 c else ck_stable0 c.
Definition ck_mig (c : chunk) (part : bool) : list mig_store := if part then ck_mig1 c else ck_mig0 c.

Definition set_stable (c : chunk) (part : bool) (v : option rangelist) : chunk :=
  if part
  then mkChunk (ck_role c) (ck_stable0 c) v (ck_mig0 c) (ck_mig1 c) (ck_proxy0 c) (ck_proxy1 c) (ck_host0 c) (ck_host1 c) (ck_n0 c) (ck_n1 c) (ck_n2 c) (ck_n3 c)
  else mkChunk (ck_role c) v (ck_stable1 c) (ck_mig0 c) (ck_mig1 c) (ck_proxy0 c) (ck_proxy1 c) (ck_host0 c) (ck_host1 c) (ck_n0 c) (ck_n1 c) (ck_n2 c) (ck_n3 c).

Definition set_mig (c : chunk) (part : bool) (v : list mig_store) : chunk :=
  if part
  then mkChunk (ck_role c) (ck_stable0 c) (ck_stable1 c) (ck_mig0 c) v (ck_proxy0 c) (ck_proxy1 c) (ck_host0 c) (ck_host1 c) (ck_n0 c) (ck_n1 c) (ck_n2 c) (ck_n3 c)
  else mkChunk (ck_role c) (ck_stable0 c) (ck_stable1 c) v (ck_mig1 c) (ck_proxy0 c) (ck_proxy1 c) (ck_host0 c) (ck_host1 c) (ck_n0 c) (ck_n1 c) (ck_n2 c) (ck_n3 c).

Definition set_role (c : chunk) (r : role_pos) : chunk :=
  mkChunk r (ck_stable0 c) (ck_stable1 c) (ck_mig0 c) (ck_mig1 c) (ck_proxy0 c) (ck_proxy1 c) (ck_host0 c) (ck_host1 c) (ck_n0 c) (ck_n1 c) (ck_n2 c) (ck_n3 c).

Fixpoint update_nth {A} (n : nat) (f : A -> A) (l : list A) : list A :=
  match l, n with
  | [], _ => []
  | x :: l', O => f x :: l'
  | x :: l', S n' => x :: update_nth n' f l'
  end.

Definition chunk_is_migrating (c : chunk) : bool :=
  negb (match ck_mig0 c with [] => true | _ => false end) || negb (match ck_mig1 c with [] => true | _ => false end).

Definition cluster_is_migrating (c : cluster) : bool := existsb chunk_is_migrating (cl_chunks c).

Definition set_cl_epoch (c : cluster) (e : N) : cluster := mkCluster e (cl_chunks c) (cl_config c).
Definition set_cl_chunks (c : cluster) (ch : list chunk) : cluster := mkCluster (cl_epoch c) ch (cl_config c).

Definition set_pr_cluster (r : presource) (c : option N) : presource :=
  mkRes (pr_n0 r) (pr_n1 r) (pr_host r) (pr_index r) c.

Definition with_epoch (s : store) (e : N) : store :=
  mkStore e (st_clusters s) (st_proxies s) (st_failed s) (st_failures s) (st_ordered s).
Definition with_clusters (s : store) (c : list (N * cluster)) : store :=
  mkStore (st_epoch s) c (st_proxies s) (st_failed s) (st_failures s) (st_ordered s).
Definition with_proxies (s : store) (p : list (N * presource)) : store :=
  mkStore (st_epoch s) (st_clusters s) p (st_failed s) (st_failures s) (st_ordered s).
Definition with_failed (s : store) (f : list N) : store :=
  mkStore (st_epoch s) (st_clusters s) (st_proxies s) f (st_failures s) (st_ordered s).
Definition with_failures (s : store) (f : list (N * list (N * Z))) : store :=
  mkStore (st_epoch s) (st_clusters s) (st_proxies s) (st_failed s) f (st_ordered s).

Definition bump (s : store) : store := with_epoch s (st_epoch s + 1).

(* set proxy.cluster for the listed addresses that exist *)
Fixpoint tag_proxies (ps : list (N * presource)) (addrs : list N) (c : option N) : list (N * presource) :=
  match addrs with
  | [] => ps
  | a :: rest =>
    let ps' := match alookup a ps with
               | Some r => ainsert a (set_pr_cluster r c) ps
               | None => ps
               end in
    tag_proxies ps' rest c
  end.

Definition chunk_proxies (c : chunk) : list N := [ck_proxy0 c; ck_proxy1 c].
Definition cluster_proxies (c : cluster) : list N := flat_map chunk_proxies (cl_chunks c).

(* ---------- errors / results ---------- *)
Inductive err :=
| E_InUse | E_NoAvailableResource | E_ResourceNotBalance | E_AlreadyExisted | E_ClusterNotFound
| E_FreeNodeNotFound | E_FreeNodeFound | E_ProxyNotFound | E_InvalidNodeNum | E_NodeNumAlreadyEnough
| E_InvalidMigrationTask | E_MigrationTaskNotFound | E_MigrationRunning | E_InvalidConfig | E_SlotsAlreadyEven
| E_SmallEpoch | E_MissingIndex | E_ProxyResourceOutOfOrder | E_OneClusterAlreadyExisted
| E_BadChoice.   (* not an implementation error: the oracle's choice is not one the algorithm could make *)

Inductive outcome (A : Type) :=
| Done (a : A)
| Fail (e : err)
| Panic.
Arguments Done {A} a.
Arguments Fail {A} e.
Arguments Panic {A}.

Definition csub (a b : N) : option N := if N.ltb a b then None else Some (a - b).

(* ---------- failure reports (update.rs add_failure / get_failures / cleanup_failures) ---------- *)
Definition add_failure (s : store) (addr reporter : N) (now : Z) : store * bool :=
  let existing := match alookup addr (st_failures s) with Some m => amem reporter m | None => false end in
  if existing then (s, false)
  else
    let s1 := bump s in
    let m := match alookup addr (st_failures s1) with Some m => m | None => [] end in
    (with_failures s1 (ainsert addr (ainsert reporter now m) (st_failures s1)), true).

Definition fresh (now ttl : Z) (t : Z) : bool := Z.ltb (now - t) ttl.

Definition expire_failures (fs : list (N * list (N * Z))) (now ttl : Z) : list (N * list (N * Z)) :=
  filter (fun e => negb (match snd e with [] => true | _ => false end))
         (map (fun e => (fst e, filter (fun rt => fresh now ttl (snd rt)) (snd e))) fs).

(* returns the store with expired reports dropped and the (sorted) list of failed addresses *)
Definition get_failures (s : store) (now ttl : Z) (quorum : N) : store * list N :=
  let fs := expire_failures (st_failures s) now ttl in
  let s' := with_failures s fs in
  (s', map fst (filter (fun e => N.leb quorum (N.of_nat (length (snd e))) && amem (fst e) (st_proxies s)) fs)).

Definition cleanup_failures (s : store) (now ttl : Z) (quorum : N) : store * bool :=
  let s' := fst (get_failures s now ttl quorum) in
  (s', negb (Nat.eqb (length (st_failures s)) (length (st_failures s')))).

(* ---------- proxies ---------- *)
(* host: Some h explicit; None = derived from the address (the harness uses DERIVED_HOST_BASE + addr) *)
Definition DERIVED_HOST_BASE : N := 1000000.

Definition add_proxy (s : store) (addr : N) (host : option N) (index : option N) : store * outcome unit :=
  let h := match host with Some h => h | None => DERIVED_HOST_BASE + addr end in
  match (if st_ordered s then index else Some 0) with
  | None => (s, Fail E_MissingIndex)
  | Some idx =>
    let exists_ := amem addr (st_proxies s) in
    let ps := if exists_ then st_proxies s
              else ainsert addr (mkRes (2 * addr) (2 * addr + 1) h idx None) (st_proxies s) in
    let cleared := smem addr (st_failed s) || amem addr (st_failures s) in
    let s1 := with_failures (with_failed (with_proxies s ps) (sremove addr (st_failed s))) (aremove addr (st_failures s)) in
    let s2 := if negb exists_ || cleared then bump s1 else s1 in
    (s2, if exists_ then Fail E_AlreadyExisted else Done tt)
  end.

Definition remove_proxy (s : store) (addr : N) : store * outcome unit :=
  match alookup addr (st_proxies s) with
  | None => (s, Fail E_ProxyNotFound)
  | Some r =>
    match pr_cluster r with
    | Some _ => (s, Fail E_InUse)
    | None =>
      let s1 := with_failures (with_failed (with_proxies s (aremove addr (st_proxies s))) (sremove addr (st_failed s)))
                              (aremove addr (st_failures s)) in
      (bump s1, Done tt)
    end
  end.

(* query.rs get_free_proxy_resource *)
Definition is_free (s : store) (e : N * presource) : bool :=
  match pr_cluster (snd e) with
  | Some _ => false
  | None => negb (smem (fst e) (st_failed s)) && negb (amem (fst e) (st_failures s))
  end.
Definition free_proxies (s : store) : list (N * presource) := filter (is_free s) (st_proxies s).

(* host => number of free proxies (only hosts with at least one) *)
Definition count_add (h : N) (l : list (N * N)) : list (N * N) :=
  match alookup h l with
  | Some n => ainsert h (n + 1) l
  | None => ainsert h 1 l
  end.
Definition host_counts (fp : list (N * presource)) : list (N * N) :=
  fold_left (fun acc e => count_add (pr_host (snd e)) acc) fp [].

Definition counts_max (l : list (N * N)) : N := fold_left (fun m e => N.max m (snd e)) l 0.
Definition counts_sum (l : list (N * N)) : N := fold_left (fun m e => m + snd e) l 0.

(* remove_redundant_chunks: the host holding the maximum is cut down while max*2 > total.
   (when max*2 > total the maximal host is unique, so the result does not depend on hash order) *)
Definition trim_counts (l : list (N * N)) : list (N * N) :=
  let m := counts_max l in
  let s := counts_sum l in
  if N.ltb s (2 * m) then map (fun e => if N.eqb (snd e) m then (fst e, s - m) else e) l else l.

(* ---------- link table (update.rs build_link_table) ---------- *)
Definition ltable := list (N * list (N * N)).

Definition lt_get (t : ltable) (h1 h2 : N) : option N :=
  match alookup h1 t with Some m => alookup h2 m | None => None end.

(* entry(h1).or_insert(empty).entry(h2).or_insert(0) += n *)
Definition lt_add (t : ltable) (h1 h2 n : N) : ltable :=
  let m := match alookup h1 t with Some m => m | None => [] end in
  let c := match alookup h2 m with Some c => c | None => 0 end in
  ainsert h1 (ainsert h2 (c + n) m) t.

Definition all_hosts (s : store) : list N := fold_left (fun acc e => sinsert (pr_host (snd e)) acc) (st_proxies s) [].
Definition free_hosts (s : store) : list N :=
  fold_left (fun acc e => match pr_cluster (snd e) with None => sinsert (pr_host (snd e)) acc | Some _ => acc end) (st_proxies s) [].

Definition build_link_table (s : store) : ltable :=
  let hs := all_hosts s in
  let fh := free_hosts s in
  let t0 := fold_left (fun t h1 =>
              fold_left (fun t h2 =>
                if N.eqb h1 h2 then t
                else if negb (smem h1 fh) && negb (smem h2 fh) then t
                else lt_add (lt_add t h1 h2 0) h2 h1 0) hs t) hs [] in
  fold_left (fun t nc =>
    fold_left (fun t ck => lt_add (lt_add t (ck_host0 ck) (ck_host1 ck) 1) (ck_host1 ck) (ck_host0 ck) 1)
              (cl_chunks (snd nc)) t) (st_clusters s) t0.

(* second_host_cmp: fewer links first, then more free proxies; Lt means host1 is preferred *)
Definition second_host_le (c1 f1 c2 f2 : N) : bool :=
  if N.ltb c1 c2 then true else if N.ltb c2 c1 then false else N.leb f2 f1.

Definition cnt_of (cnts : list (N * N)) (h : N) : N := match alookup h cnts with Some n => n | None => 0 end.

(* ---------- allocate_chunk with an oracle ---------- *)
(* one iteration of the while loop, validating the pair (a, b) chosen by the implementation *)
Definition alloc_one (s : store) (cnts : list (N * N)) (links : ltable) (taken : list N) (a b : N)
  : outcome (list (N * N) * ltable) :=
  let mx := counts_max cnts in
  match cnts with
  | [] => Panic                                     (* "cannot find any host" *)
  | _ =>
    if N.eqb mx 0 then Panic                         (* "cannot find free proxy" *)
    else
      match alookup a (st_proxies s), alookup b (st_proxies s) with
      | Some ra, Some rb =>
        let ha := pr_host ra in
        let hb := pr_host rb in
        if negb (is_free s (a, ra)) || negb (is_free s (b, rb)) || smem a taken || smem b taken || N.eqb a b then Fail E_BadChoice
        else if negb (N.eqb (cnt_of cnts ha) mx) then Fail E_BadChoice
        else
          let cnts1 := ainsert ha (mx - 1) cnts in
          match alookup ha links with
          | None => Panic                            (* "cannot get link table entry" *)
          | Some peers =>
            let cands := filter (fun e => negb (N.eqb (fst e) ha) && amem (fst e) cnts1 && negb (N.eqb (cnt_of cnts1 (fst e)) 0)) peers in
            match cands with
            | [] => Panic                            (* "cannot get free proxy" *)
            | _ =>
              match alookup hb cands with
              | None => Fail E_BadChoice
              | Some cb =>
                if forallb (fun e => second_host_le cb (cnt_of cnts1 hb) (snd e) (cnt_of cnts1 (fst e))) cands
                then
                  let cnts2 := ainsert hb (cnt_of cnts1 hb - 1) cnts1 in
                  Done (cnts2, lt_add (lt_add links ha hb 1) hb ha 1)
                else Fail E_BadChoice
              end
            end
          end
      | _, _ => Fail E_BadChoice
      end
  end.

(* when the implementation made no choice (it failed or panicked) the model must predict that from the counts alone *)
Definition alloc_stuck (cnts : list (N * N)) (links : ltable) : bool :=
  match cnts with
  | [] => true
  | _ =>
    let mx := counts_max cnts in
    if N.eqb mx 0 then true
    else
      (* every maximal host leads to a panic *)
      forallb (fun e =>
        if N.eqb (snd e) mx then
          let cnts1 := ainsert (fst e) (mx - 1) cnts in
          match alookup (fst e) links with
          | None => true
          | Some peers =>
            match filter (fun p => negb (N.eqb (fst p) (fst e)) && amem (fst p) cnts1 && negb (N.eqb (cnt_of cnts1 (fst p)) 0)) peers with
            | [] => true
            | _ => false
            end
          end
        else true) cnts
  end.

Fixpoint alloc_loop (s : store) (need : nat) (cnts : list (N * N)) (links : ltable) (taken : list N)
         (choices : list (N * N)) (acc : list (N * N)) : outcome (list (N * N)) :=
  match need with
  | O => match choices with [] => Done (rev acc) | _ => Fail E_BadChoice end
  | S need' =>
    match choices with
    | [] => if alloc_stuck cnts links then Panic else Fail E_BadChoice
    | (a, b) :: rest =>
      match alloc_one s cnts links taken a b with
      | Done (cnts', links') => alloc_loop s need' cnts' links' (a :: b :: taken) rest ((a, b) :: acc)
      | Fail e => Fail e
      | Panic => Panic
      end
    end
  end.

(* generate_free_chunks: proxy_num = number of proxies wanted (even); returns the pairs *)
Definition generate_free_chunks (s : store) (proxy_num : N) (choices : list (N * N)) : outcome (list (N * N)) :=
  let cnts := trim_counts (host_counts (free_proxies s)) in
  if N.ltb (counts_sum cnts) proxy_num then Fail E_NoAvailableResource
  else
    let links := build_link_table s in
    (* allocate_chunk re-checks *)
    if N.ltb (counts_sum cnts) (2 * counts_max cnts) then Fail E_ResourceNotBalance
    else alloc_loop s (N.to_nat ((proxy_num + 1) / 2)) cnts links [] choices [].

(* generate_free_chunks_for_ordered_proxy_index *)
Fixpoint insert_by_index (e : N * presource) (l : list (N * presource)) : list (N * presource) :=
  match l with
  | [] => [e]
  | x :: l' => if N.ltb (pr_index (snd e)) (pr_index (snd x)) then e :: l else x :: insert_by_index e l'
  end.

Fixpoint consecutive_from (first : N) (l : list (N * presource)) : bool :=
  match l with
  | [] => true
  | x :: l' => N.eqb (pr_index (snd x)) first && consecutive_from (first + 1) l'
  end.

Fixpoint pair_up (l : list (N * presource)) : option (list (N * N)) :=
  match l with
  | [] => Some []
  | a :: b :: l' => match pair_up l' with Some r => Some ((fst a, fst b) :: r) | None => None end
  | _ => None
  end.

Definition generate_ordered_chunks (s : store) (proxy_num : N) (first_index : N) : outcome (list (N * N)) :=
  let fp := free_proxies s in
  if N.ltb (N.of_nat (length fp)) proxy_num then Fail E_NoAvailableResource
  else
    let sorted := fold_left (fun acc e => insert_by_index e acc) fp [] in
    let taken := firstn (N.to_nat proxy_num) sorted in
    if negb (consecutive_from first_index taken) then Fail E_ProxyResourceOutOfOrder
    else match pair_up taken with
         | Some ps => Done ps
         | None => Fail E_InvalidNodeNum
         end.

(* ---------- cluster creation / growth (update.rs) ---------- *)
Definition res_or_default (s : store) (a : N) : presource :=
  match alookup a (st_proxies s) with Some r => r | None => mkRes 0 0 0 0 None end.

(* proxy_resource_to_chunk_store *)
Fixpoint chunks_of_pairs (s : store) (pairs : list (N * N)) (with_slots : bool) (average remainder : N)
         (i : N) (curr : N) : list chunk :=
  match pairs with
  | [] => []
  | (a, b) :: rest =>
    let ra := res_or_default s a in
    let rb := res_or_default s b in
    let ia := 2 * i in
    let ib := 2 * i + 1 in
    let e1 := curr + average + (if N.ltb ia remainder then 1 else 0) in
    let e2 := e1 + average + (if N.ltb ib remainder then 1 else 0) in
    let st0 := if with_slots then Some (rl_from_single (curr, e1 - 1)) else None in
    let st1 := if with_slots then Some (rl_from_single (e1, e2 - 1)) else None in
    mkChunk RNormal st0 st1 [] [] a b (pr_host ra) (pr_host rb) (pr_n0 ra) (pr_n1 ra) (pr_n0 rb) (pr_n1 rb)
    :: chunks_of_pairs s rest with_slots average remainder (i + 1) (if with_slots then e2 else curr)
  end.

Definition proxy_resource_to_chunk_store (s : store) (pairs : list (N * N)) (with_slots : bool) : list chunk :=
  let master_num := 2 * N.of_nat (length pairs) in
  let average := SLOT_NUM / master_num in
  let remainder := SLOT_NUM - average * master_num in
  chunks_of_pairs s pairs with_slots average remainder 0 0.

Definition gen_chunks (s : store) (proxy_num first_index : N) (choices : list (N * N)) : outcome (list (N * N)) :=
  if st_ordered s then generate_ordered_chunks s proxy_num first_index
  else generate_free_chunks s proxy_num choices.

Definition add_cluster (s : store) (name node_num cfg : N) (choices : list (N * N)) : store * outcome unit :=
  if st_ordered s && negb (match st_clusters s with [] => true | _ => false end) then (s, Fail E_OneClusterAlreadyExisted)
  else if amem name (st_clusters s) then (s, Fail E_AlreadyExisted)
  else if negb (N.eqb (node_num mod 4) 0) then (s, Fail E_InvalidNodeNum)
  else if N.eqb (node_num / 2) 0 then (s, Fail E_InvalidNodeNum)
  else if N.ltb SLOT_NUM (node_num / 2) then (s, Fail E_InvalidNodeNum)   (* every master needs at least one slot *)
  else
    match gen_chunks s (node_num / 2) 0 choices with
    | Fail e => (s, Fail e)
    | Panic => (s, Panic)
    | Done pairs =>
      let chunks := proxy_resource_to_chunk_store s pairs true in
      let s1 := bump s in
      let cl := mkCluster (st_epoch s1) chunks cfg in
      let ps := tag_proxies (st_proxies s1) (cluster_proxies cl) (Some name) in
      (with_clusters (with_proxies s1 ps) (ainsert name cl (st_clusters s1)), Done tt)
    end.

Definition remove_cluster (s : store) (name : N) : store * outcome unit :=
  match alookup name (st_clusters s) with
  | None => (s, Fail E_ClusterNotFound)
  | Some cl =>
    let ps := tag_proxies (st_proxies s) (cluster_proxies cl) None in
    (bump (with_proxies (with_clusters s (aremove name (st_clusters s))) ps), Done tt)
  end.

(* auto_add_nodes; the result payload (new nodes) is not modelled, only success *)
Definition auto_add_nodes (s : store) (name num : N) (choices : list (N * N)) : store * outcome unit :=
  match alookup name (st_clusters s) with
  | None => (s, Fail E_ClusterNotFound)
  | Some cl =>
    if cluster_is_migrating cl then (s, Fail E_MigrationRunning)
    else if negb (N.eqb (num mod 4) 0) then (s, Fail E_InvalidNodeNum)
    else if N.eqb (num / 2) 0 then (s, Fail E_InvalidNodeNum)
    else if N.ltb SLOT_NUM (2 * N.of_nat (length (cl_chunks cl)) + num / 2) then (s, Fail E_InvalidNodeNum)
    else
      match gen_chunks s (num / 2) (2 * N.of_nat (length (cl_chunks cl))) choices with
      | Fail e => (s, Fail e)
      | Panic => (s, Panic)
      | Done pairs =>
        let chunks := proxy_resource_to_chunk_store s pairs false in
        let s1 := bump s in
        let cl' := mkCluster (st_epoch s1) (cl_chunks cl ++ chunks) (cl_config cl) in
        let ps := tag_proxies (st_proxies s1) (cluster_proxies cl') (Some name) in
        (with_clusters (with_proxies s1 ps) (ainsert name cl' (st_clusters s1)), Done tt)
      end
  end.

Definition auto_scale_up_nodes (s : store) (name expected : N) (choices : list (N * N)) : store * outcome unit :=
  match alookup name (st_clusters s) with
  | None => (s, Fail E_ClusterNotFound)
  | Some cl =>
    let existing := 4 * N.of_nat (length (cl_chunks cl)) in
    if N.leb expected existing then (s, Fail E_NodeNumAlreadyEnough)
    else auto_add_nodes s name (expected - existing) choices
  end.

Definition chunk_is_free (c : chunk) : bool :=
  match ck_stable0 c, ck_stable1 c, ck_mig0 c, ck_mig1 c with
  | None, None, [], [] => true
  | _, _, _, _ => false
  end.

Definition auto_delete_free_nodes (s : store) (name : N) : store * outcome unit :=
  match alookup name (st_clusters s) with
  | None => (s, Fail E_ClusterNotFound)
  | Some cl =>
    if cluster_is_migrating cl then (s, Fail E_MigrationRunning)
    else
      let removed := filter chunk_is_free (cl_chunks cl) in
      match removed with
      | [] => (s, Fail E_FreeNodeNotFound)
      | _ =>
        let new_epoch := st_epoch s + 1 in
        let cl' := mkCluster new_epoch (filter (fun c => negb (chunk_is_free c)) (cl_chunks cl)) (cl_config cl) in
        let ps := tag_proxies (st_proxies s) (flat_map chunk_proxies removed) None in
        (bump (with_proxies (with_clusters s (ainsert name cl' (st_clusters s))) ps), Done tt)
      end
  end.

Definition auto_delete_free_nodes_if_exists (s : store) (name : N) : store * outcome unit :=
  match auto_delete_free_nodes s name with
  | (s', Fail E_MigrationRunning) => (s', Done tt)
  | (s', Fail E_FreeNodeNotFound) => (s', Done tt)
  | r => r
  end.

(* ---------- migration (migrate.rs) ---------- *)
Record macc := mkAcc {
  a_dst : N;                               (* curr_dst_master_index *)
  a_cur : rangelist;                       (* curr_dst_slots, push order *)
  a_num : N;                               (* curr_slots_num *)
  a_migs : list (rangelist * mig_meta) }.  (* migration_slots, reverse push order *)

Definition split_last {A} (l : list A) : option (list A * A) :=
  match rev l with
  | [] => None
  | x :: r => Some (rev r, x)
  end.

Definition b2n (b : bool) : N := if b then 1 else 0.

(* the `while curr_dst_master_index != dst_master_num` loop of remove_slots_from_src for one source master.
   Returns the remaining ranges of the source and the accumulator. fuel exhaustion is reported as Fail E_BadChoice
   (never produced by the implementation); theorems exclude it. *)
Fixpoint scale_out_loop (fuel : nat) (epoch average remainder src_master_num dst_master_num : N) (src_chunk_num : nat)
         (src_idx : nat) (src_part : bool) (rl : rangelist) (acc : macc) : outcome (rangelist * macc) :=
  match fuel with
  | O => Fail E_BadChoice
  | S fuel' =>
    if N.eqb (a_dst acc) dst_master_num then Done (rl, acc)
    else
      let src_master_index := 2 * N.of_nat src_idx + b2n src_part in
      let src_final := average + b2n (N.ltb src_master_index remainder) in
      let dst_final := average + b2n (N.ltb (src_master_num + a_dst acc) remainder) in
      match slots_num rl with
      | None => Panic
      | Some n =>
        if N.leb n src_final then Done (rl, acc)
        else
          match csub dst_final (a_num acc) with
          | None => Panic
          | Some need =>
            let available := n - src_final in
            let remove_num := N.min need available in
            match split_last rl with
            | None => Panic
            | Some (front, r) =>
              match range_len r with
              | None => Panic
              | Some num =>
                let '(rl', cur', num') :=
                  if N.leb num remove_num then (front, a_cur acc ++ [r], a_num acc + num)
                  else (front ++ [(fst r, snd r - remove_num)], a_cur acc ++ [(snd r - remove_num + 1, snd r)], a_num acc + remove_num) in
                match slots_num rl' with
                | None => Panic
                | Some n' =>
                  if N.leb dst_final num' || N.leb n' src_final then
                    let meta := mkMeta epoch src_idx src_part (src_chunk_num + N.to_nat (a_dst acc / 2)) (N.eqb (a_dst acc mod 2) 1) in
                    let migs' := (rl_new cur', meta) :: a_migs acc in
                    let acc' := if N.leb dst_final num' then mkAcc (a_dst acc + 1) [] 0 migs' else mkAcc (a_dst acc) [] num' migs' in
                    if N.leb n' src_final then Done (rl', acc')
                    else scale_out_loop fuel' epoch average remainder src_master_num dst_master_num src_chunk_num src_idx src_part rl' acc'
                  else
                    scale_out_loop fuel' epoch average remainder src_master_num dst_master_num src_chunk_num src_idx src_part rl'
                                   (mkAcc (a_dst acc) cur' num' (a_migs acc))
                end
              end
            end
          end
      end
  end.

Definition loop_fuel (rl : rangelist) (dst_master_num : N) : nat := length rl + N.to_nat dst_master_num + 2.

(* outer loops over chunks and parts *)
Fixpoint scale_out_chunks (epoch average remainder src_master_num dst_master_num : N) (src_chunk_num : nat)
         (idx : nat) (chunks : list chunk) (acc : macc) : outcome (list chunk * macc) :=
  match chunks with
  | [] => Done ([], acc)
  | c :: rest =>
    let do_part (part : bool) (c : chunk) (acc : macc) : outcome (chunk * macc) :=
      match ck_stable c part with
      | None => Done (c, acc)
      | Some rl =>
        match scale_out_loop (loop_fuel rl dst_master_num) epoch average remainder src_master_num dst_master_num src_chunk_num idx part rl acc with
        | Done (rl', acc') => Done (set_stable c part (Some rl'), acc')
        | Fail e => Fail e
        | Panic => Panic
        end
      end in
    match do_part false c acc with
    | Done (c1, acc1) =>
      match do_part true c1 acc1 with
      | Done (c2, acc2) =>
        match scale_out_chunks epoch average remainder src_master_num dst_master_num src_chunk_num (S idx) rest acc2 with
        | Done (rest', acc3) => Done (c2 :: rest', acc3)
        | Fail e => Fail e
        | Panic => Panic
        end
      | Fail e => Fail e
      | Panic => Panic
      end
    | Fail e => Fail e
    | Panic => Panic
    end
  end.

Definition chunk_empty_stable (c : chunk) : bool :=
  match ck_stable0 c, ck_stable1 c with None, None => true | _, _ => false end.

Definition remove_slots_from_src (cl : cluster) (epoch : N) : outcome (list chunk * list (rangelist * mig_meta)) :=
  let dst_chunk_num := length (filter chunk_empty_stable (cl_chunks cl)) in
  let dst_master_num := 2 * N.of_nat dst_chunk_num in
  let master_num := 2 * N.of_nat (length (cl_chunks cl)) in
  let src_chunk_num := (length (cl_chunks cl) - dst_chunk_num)%nat in
  let src_master_num := 2 * N.of_nat src_chunk_num in
  let average := SLOT_NUM / master_num in
  let remainder := SLOT_NUM - average * master_num in
  match scale_out_chunks epoch average remainder src_master_num dst_master_num src_chunk_num 0 (cl_chunks cl) (mkAcc 0 [] 0 []) with
  | Done (chunks, acc) => Done (chunks, rev (a_migs acc))
  | Fail e => Fail e
  | Panic => Panic
  end.

(* assign_dst_slots (out entry pushed at the source, in entry at the destination), then compact_slots.
   A chunk index out of bounds is an `expect` panic. *)
Fixpoint assign_dst_slots (chunks : list chunk) (migs : list (rangelist * mig_meta)) : outcome (list chunk) :=
  match migs with
  | [] => Done chunks
  | (rl, m) :: rest =>
    if Nat.ltb (mm_src_idx m) (length chunks) && Nat.ltb (mm_dst_idx m) (length chunks) then
      let c1 := update_nth (mm_src_idx m) (fun c => set_mig c (mm_src_part m) (ck_mig c (mm_src_part m) ++ [mkMig rl true m])) chunks in
      let c2 := update_nth (mm_dst_idx m) (fun c => set_mig c (mm_dst_part m) (ck_mig c (mm_dst_part m) ++ [mkMig rl false m])) c1 in
      assign_dst_slots c2 rest
    else Panic
  end.

Definition compact_mig (m : mig_store) : mig_store := mkMig (compact (ms_ranges m)) (ms_out m) (ms_meta m).
Definition compact_chunk (c : chunk) : chunk :=
  mkChunk (ck_role c) (option_map compact (ck_stable0 c)) (option_map compact (ck_stable1 c))
          (map compact_mig (ck_mig0 c)) (map compact_mig (ck_mig1 c))
          (ck_proxy0 c) (ck_proxy1 c) (ck_host0 c) (ck_host1 c) (ck_n0 c) (ck_n1 c) (ck_n2 c) (ck_n3 c).
Definition compact_slots (chunks : list chunk) : list chunk := map compact_chunk chunks.

Definition has_empty_stable (c : chunk) : bool :=
  match ck_stable0 c, ck_stable1 c with Some _, Some _ => false | _, _ => true end.

(* NOTE: the global epoch is bumped before any check, so it stays bumped on the error returns *)
Definition migrate_slots (s : store) (name : N) : store * outcome unit :=
  let s1 := bump s in
  let new_epoch := st_epoch s1 in
  match alookup name (st_clusters s1) with
  | None => (s1, Fail E_ClusterNotFound)
  | Some cl =>
    if negb (existsb has_empty_stable (cl_chunks cl)) then (s1, Fail E_SlotsAlreadyEven)
    else if cluster_is_migrating cl then (s1, Fail E_MigrationRunning)
    else
      match remove_slots_from_src cl new_epoch with
      | Fail e => (s1, Fail e)
      | Panic => (s1, Panic)
      | Done (chunks, migs) =>
        match assign_dst_slots chunks migs with
        | Fail e => (s1, Fail e)
        | Panic => (s1, Panic)
        | Done chunks' =>
          let cl' := mkCluster new_epoch (compact_slots chunks') (cl_config cl) in
          (with_clusters s1 (ainsert name cl' (st_clusters s1)), Done tt)
        end
      end
  end.

(* remove_slots_from_src_to_scale_down: inner while loop for one source master *)
Fixpoint scale_down_loop (fuel : nat) (epoch average remainder dst_master_num : N) (dst_existing : list N)
         (src_idx : nat) (src_part : bool) (rl : rangelist) (acc : macc) : outcome (rangelist * macc) :=
  match fuel with
  | O => Fail E_BadChoice
  | S fuel' =>
    if N.eqb (a_dst acc) dst_master_num then Done (rl, acc)
    else
      let dst_final := average + b2n (N.ltb (a_dst acc) remainder) in
      match nth_error dst_existing (N.to_nat (a_dst acc)) with
      | None => Panic
      | Some existing =>
        match csub dst_final (a_num acc) with
        | None => Panic
        | Some d1 =>
          match csub d1 existing with
          | None => Panic
          | Some need =>
            if N.eqb need 0 then   (* this master already owns its final number of slots *)
              scale_down_loop fuel' epoch average remainder dst_master_num dst_existing src_idx src_part rl
                              (mkAcc (a_dst acc + 1) (a_cur acc) (a_num acc) (a_migs acc))
            else
            match slots_num rl with
            | None => Panic
            | Some available =>
              if N.eqb available 0 then Done (rl, acc)
              else
                let remove_num := N.min need available in
                match rl with
                | [] => Panic
                | r :: tail =>
                  match range_len r with
                  | None => Panic
                  | Some num =>
                    let '(rl', cur', num') :=
                      if N.leb num remove_num then (tail, a_cur acc ++ [r], a_num acc + num)
                      else
                        (* end = remove_num + start - 1 *)
                        ((fst r + remove_num, snd r) :: tail, a_cur acc ++ [(fst r, remove_num + fst r - 1)], a_num acc + remove_num) in
                    match slots_num rl' with
                    | None => Panic
                    | Some n' =>
                      if N.leb dst_final (num' + existing) || N.eqb n' 0 then
                        let meta := mkMeta epoch src_idx src_part (N.to_nat (a_dst acc / 2)) (N.eqb (a_dst acc mod 2) 1) in
                        let migs' := (rl_new cur', meta) :: a_migs acc in
                        let acc' := if N.leb dst_final (num' + existing) then mkAcc (a_dst acc + 1) [] 0 migs' else mkAcc (a_dst acc) [] num' migs' in
                        if N.eqb n' 0 then Done (rl', acc')
                        else scale_down_loop fuel' epoch average remainder dst_master_num dst_existing src_idx src_part rl' acc'
                      else
                        scale_down_loop fuel' epoch average remainder dst_master_num dst_existing src_idx src_part rl'
                                        (mkAcc (a_dst acc) cur' num' (a_migs acc))
                    end
                  end
                end
            end
          end
        end
      end
  end.

(* chunks after the first dst_chunk_num are sources; each source's stable slots become None *)
Fixpoint scale_down_chunks (epoch average remainder dst_master_num : N) (dst_existing : list N)
         (idx : nat) (chunks : list chunk) (acc : macc) : outcome (list chunk * macc) :=
  match chunks with
  | [] => Done ([], acc)
  | c :: rest =>
    let do_part (part : bool) (c : chunk) (acc : macc) : outcome (chunk * macc) :=
      match ck_stable c part with
      | None => Done (c, acc)
      | Some rl =>
        match scale_down_loop (loop_fuel rl dst_master_num) epoch average remainder dst_master_num dst_existing idx part rl acc with
        | Done (_, acc') => Done (set_stable c part None, acc')
        | Fail e => Fail e
        | Panic => Panic
        end
      end in
    match do_part false c acc with
    | Done (c1, acc1) =>
      match do_part true c1 acc1 with
      | Done (c2, acc2) =>
        match scale_down_chunks epoch average remainder dst_master_num dst_existing (S idx) rest acc2 with
        | Done (rest', acc3) => Done (c2 :: rest', acc3)
        | Fail e => Fail e
        | Panic => Panic
        end
      | Fail e => Fail e
      | Panic => Panic
      end
    | Fail e => Fail e
    | Panic => Panic
    end
  end.

Fixpoint existing_nums (chunks : list chunk) : option (list N) :=
  match chunks with
  | [] => Some []
  | c :: rest =>
    let num (o : option rangelist) := match o with None => Some 0 | Some rl => slots_num rl end in
    match num (ck_stable0 c), num (ck_stable1 c), existing_nums rest with
    | Some a, Some b, Some r => Some (a :: b :: r)
    | _, _, _ => None
    end
  end.

Definition remove_slots_from_src_to_scale_down (cl : cluster) (epoch : N) (new_chunk_num : nat)
  : outcome (list chunk * list (rangelist * mig_meta)) :=
  let dst_master_num := 2 * N.of_nat new_chunk_num in
  let average := SLOT_NUM / dst_master_num in
  let remainder := SLOT_NUM - average * dst_master_num in
  match existing_nums (firstn new_chunk_num (cl_chunks cl)) with
  | None => Panic
  | Some dst_existing =>
    match scale_down_chunks epoch average remainder dst_master_num dst_existing new_chunk_num (skipn new_chunk_num (cl_chunks cl)) (mkAcc 0 [] 0 []) with
    | Done (chunks, acc) => Done (firstn new_chunk_num (cl_chunks cl) ++ chunks, rev (a_migs acc))
    | Fail e => Fail e
    | Panic => Panic
    end
  end.

Definition migrate_slots_to_scale_down (s : store) (name new_node_num : N) : store * outcome unit :=
  let s1 := bump s in
  let new_epoch := st_epoch s1 in
  match alookup name (st_clusters s1) with
  | None => (s1, Fail E_ClusterNotFound)
  | Some cl =>
    if existsb has_empty_stable (cl_chunks cl) then (s1, Fail E_FreeNodeFound)
    else if cluster_is_migrating cl then (s1, Fail E_MigrationRunning)
    else if N.eqb new_node_num 0 || negb (N.eqb (new_node_num mod 4) 0) || N.leb (4 * N.of_nat (length (cl_chunks cl))) new_node_num
    then (s1, Fail E_InvalidNodeNum)
    else
      match remove_slots_from_src_to_scale_down cl new_epoch (N.to_nat (new_node_num / 4)) with
      | Fail e => (s1, Fail e)
      | Panic => (s1, Panic)
      | Done (chunks, migs) =>
        match assign_dst_slots chunks migs with
        | Fail e => (s1, Fail e)
        | Panic => (s1, Panic)
        | Done chunks' =>
          let cl' := mkCluster new_epoch (compact_slots chunks') (cl_config cl) in
          (with_clusters s1 (ainsert name cl' (st_clusters s1)), Done tt)
        end
      end
  end.

(* ---------- commit_migration ---------- *)
Inductive task_tag := TagNone | TagMigrating | TagImporting.

(* position (chunk index, part) of the first entry matching (ranges, epoch, direction), in chunk / part / list order *)
Fixpoint find_entry_chunks (idx : nat) (chunks : list chunk) (rl : rangelist) (epoch : N) (out : bool) : option (nat * bool) :=
  match chunks with
  | [] => None
  | c :: rest =>
    let m (e : mig_store) := rangelist_eqb (ms_ranges e) rl && N.eqb (mm_epoch (ms_meta e)) epoch && Bool.eqb (ms_out e) out in
    if existsb m (ck_mig0 c) then Some (idx, false)
    else if existsb m (ck_mig1 c) then Some (idx, true)
    else find_entry_chunks (S idx) rest rl epoch out
  end.

Fixpoint remove_first {A} (p : A -> bool) (l : list A) : option (A * list A) :=
  match l with
  | [] => None
  | x :: l' => if p x then Some (x, l')
               else match remove_first p l' with Some (y, r) => Some (y, x :: r) | None => None end
  end.

(* second loop of commit_migration: the first chunk (and within it the first part) holding the in-entry gets it removed
   and merged into that part's stable slots *)
Fixpoint commit_in (chunks : list chunk) (rl : rangelist) (meta : mig_meta) : list chunk :=
  match chunks with
  | [] => []
  | c :: rest =>
    let m (e : mig_store) := negb (ms_out e) && meta_eqb (ms_meta e) meta && rangelist_eqb (ms_ranges e) rl in
    let merge (c : chunk) (part : bool) (r : rangelist) : chunk :=
      match ck_stable c part with
      | Some st => set_stable c part (Some (rl_merge_another st r))
      | None => set_stable c part (Some r)
      end in
    match remove_first m (ck_mig0 c) with
    | Some (e, l') => merge (set_mig c false l') false (ms_ranges e) :: rest
    | None =>
      match remove_first m (ck_mig1 c) with
      | Some (e, l') => merge (set_mig c true l') true (ms_ranges e) :: rest
      | None => c :: commit_in rest rl meta
      end
    end
  end.

Definition commit_migration (s : store) (name : N) (rl : rangelist) (tag : task_tag) (task_epoch : N) : store * outcome unit :=
  match alookup name (st_clusters s) with
  | None => (s, Fail E_ClusterNotFound)
  | Some cl =>
    match tag with
    | TagNone => (s, Fail E_InvalidMigrationTask)
    | _ =>
      match find_entry_chunks 0 (cl_chunks cl) rl task_epoch true with
      | None => (s, Fail E_MigrationTaskNotFound)
      | Some (si, sp) =>
        match find_entry_chunks 0 (cl_chunks cl) rl task_epoch false with
        | None => (s, Fail E_MigrationTaskNotFound)
        | Some (di, dp) =>
          let meta := mkMeta task_epoch si sp di dp in
          let keep (e : mig_store) := negb (ms_out e && rangelist_eqb (ms_ranges e) rl && meta_eqb (ms_meta e) meta) in
          let chunks1 := map (fun c => set_mig (set_mig c false (filter keep (ck_mig0 c))) true (filter keep (ck_mig1 c))) (cl_chunks cl) in
          let chunks2 := commit_in chunks1 rl meta in
          let cl' := mkCluster (st_epoch s + 1) (compact_slots chunks2) (cl_config cl) in
          (bump (with_clusters s (ainsert name cl' (st_clusters s))), Done tt)
        end
      end
    end
  end.

Definition commit_migration_api (s : store) (name : N) (rl : rangelist) (tag : task_tag) (task_epoch : N) (clear_free : bool)
  : store * outcome unit :=
  match commit_migration s name rl tag task_epoch with
  | (s', Done tt) => if clear_free then auto_delete_free_nodes_if_exists s' name else (s', Done tt)
  | r => r
  end.

(* ---------- failover (update.rs takeover_master / generate_new_free_proxy / replace_failed_proxy) ---------- *)
Definition set_mig_epoch (e : N) (m : mig_store) : mig_store :=
  mkMig (ms_ranges m) (ms_out m) (mkMeta e (mm_src_idx (ms_meta m)) (mm_src_part (ms_meta m)) (mm_dst_idx (ms_meta m)) (mm_dst_part (ms_meta m))).

Definition pos_eqb (a b : nat * bool) : bool := Nat.eqb (fst a) (fst b) && Bool.eqb (snd a) (snd b).
Definition pos_mem (p : nat * bool) (l : list (nat * bool)) : bool := existsb (pos_eqb p) l.

Definition mig_positions (l : list mig_store) : list (nat * bool) :=
  flat_map (fun m => [(mm_src_idx (ms_meta m), mm_src_part (ms_meta m)); (mm_dst_idx (ms_meta m), mm_dst_part (ms_meta m))]) l.

(* first loop: Some (chunks', peer positions) or None when the early `return Ok(())` is taken.
   When the chunk already had both masters on the failing proxy (the other proxy failed earlier) both parts move. *)
Fixpoint takeover_first (chunks : list chunk) (failed new_epoch : N) : option (list chunk * list (nat * bool)) :=
  match chunks with
  | [] => Some ([], [])
  | c :: rest =>
    if N.eqb (ck_proxy0 c) failed then
      if role_eqb (ck_role c) RSecond then None
      else
        let both := role_eqb (ck_role c) RFirst in
        let c1 := set_mig (set_role c RSecond) false (map (set_mig_epoch new_epoch) (ck_mig0 c)) in
        let c2 := if both then set_mig c1 true (map (set_mig_epoch new_epoch) (ck_mig1 c)) else c1 in
        Some (c2 :: rest, mig_positions (ck_mig0 c) ++ (if both then mig_positions (ck_mig1 c) else []))
    else if N.eqb (ck_proxy1 c) failed then
      if role_eqb (ck_role c) RFirst then None
      else
        let both := role_eqb (ck_role c) RSecond in
        let c1 := set_mig (set_role c RFirst) true (map (set_mig_epoch new_epoch) (ck_mig1 c)) in
        let c2 := if both then set_mig c1 false (map (set_mig_epoch new_epoch) (ck_mig0 c)) else c1 in
        Some (c2 :: rest, mig_positions (ck_mig1 c) ++ (if both then mig_positions (ck_mig0 c) else []))
    else
      match takeover_first rest failed new_epoch with
      | Some (rest', ps) => Some (c :: rest', ps)
      | None => None
      end
  end.

Definition reepoch_peers (ps : list (nat * bool)) (new_epoch : N) (m : mig_store) : mig_store :=
  if pos_mem (mm_src_idx (ms_meta m), mm_src_part (ms_meta m)) ps || pos_mem (mm_dst_idx (ms_meta m), mm_dst_part (ms_meta m)) ps
  then set_mig_epoch new_epoch m else m.

(* store already bumped; returns the new cluster *)
Definition takeover_master (cl : cluster) (failed new_epoch : N) : cluster :=
  match takeover_first (cl_chunks cl) failed new_epoch with
  | None => cl
  | Some (chunks, ps) =>
    let chunks' := map (fun c => set_mig (set_mig c false (map (reepoch_peers ps new_epoch) (ck_mig0 c))) true
                                         (map (reepoch_peers ps new_epoch) (ck_mig1 c))) chunks in
    mkCluster new_epoch chunks' (cl_config cl)
  end.

(* host of the other proxy of the chunk that holds `failed` (first match over all clusters) *)
Fixpoint partner_host_chunks (chunks : list chunk) (failed : N) : option N :=
  match chunks with
  | [] => None
  | c :: rest =>
    if N.eqb (ck_proxy0 c) failed then Some (ck_host1 c)
    else if N.eqb (ck_proxy1 c) failed then Some (ck_host0 c)
    else partner_host_chunks rest failed
  end.
Fixpoint partner_host (cls : list (N * cluster)) (failed : N) : option N :=
  match cls with
  | [] => None
  | nc :: rest => match partner_host_chunks (cl_chunks (snd nc)) failed with
                  | Some h => Some h
                  | None => partner_host rest failed
                  end
  end.

Definition host_rank (partner : option N) (failed_host h : N) : N :=
  match partner with
  | Some ph => if N.eqb h ph then 2 else if N.eqb h failed_host then 1 else 0
  | None => if N.eqb h failed_host then 1 else 0
  end.

(* generate_new_free_proxy with the oracle's choice r.
   Candidates: hosts with a free proxy that are linked to the failed proxy's host, plus that host itself (link count 0);
   ranked by (other host < own host < partner's host), then by second_host_cmp. *)
Definition generate_new_free_proxy (s : store) (failed : N) (choice : option N) : outcome N :=
  let cnts := host_counts (free_proxies s) in
  let links := build_link_table s in
  match alookup failed (st_proxies s) with
  | None => Fail E_ProxyNotFound
  | Some fr =>
    let fh := pr_host fr in
    match alookup fh links with
    | None => Panic
    | Some peers =>
      let ph := partner_host (st_clusters s) failed in
      let cands := flat_map (fun e => match alookup (fst e) peers with
                                      | Some c => [(fst e, c)]
                                      | None => if N.eqb (fst e) fh then [(fst e, 0)] else []
                                      end) cnts in
      match cands with
      | [] => Fail E_NoAvailableResource
      | _ =>
        match choice with
        | None => Fail E_BadChoice
        | Some r =>
          match alookup r (st_proxies s) with
          | None => Fail E_BadChoice
          | Some rr =>
            if negb (is_free s (r, rr)) then Fail E_BadChoice
            else match alookup (pr_host rr) cands with
                 | None => Fail E_BadChoice
                 | Some c =>
                   let rk := host_rank ph fh (pr_host rr) in
                   if forallb (fun e =>
                        let rk' := host_rank ph fh (fst e) in
                        if N.ltb rk rk' then true else if N.ltb rk' rk then false
                        else second_host_le c (cnt_of cnts (pr_host rr)) (snd e) (cnt_of cnts (fst e))) cands
                   then Done r else Fail E_BadChoice
                 end
          end
        end
      end
    end
  end.

Fixpoint replace_in_chunks (chunks : list chunk) (failed r : N) (rr : presource) : list chunk :=
  match chunks with
  | [] => []
  | c :: rest =>
    if N.eqb (ck_proxy0 c) failed then
      mkChunk (ck_role c) (ck_stable0 c) (ck_stable1 c) (ck_mig0 c) (ck_mig1 c) r (ck_proxy1 c) (pr_host rr) (ck_host1 c)
              (pr_n0 rr) (pr_n1 rr) (ck_n2 c) (ck_n3 c) :: rest
    else if N.eqb (ck_proxy1 c) failed then
      mkChunk (ck_role c) (ck_stable0 c) (ck_stable1 c) (ck_mig0 c) (ck_mig1 c) (ck_proxy0 c) r (ck_host0 c) (pr_host rr)
              (ck_n0 c) (ck_n1 c) (pr_n0 rr) (pr_n1 rr) :: rest
    else c :: replace_in_chunks rest failed r rr
  end.

(* result: Some r = replaced by r; None = no replacement *)
Definition replace_failed_proxy (s : store) (failed : N) (choice : option N) : store * outcome (option N) :=
  match alookup failed (st_proxies s) with
  | None => (s, Fail E_ProxyNotFound)
  | Some fr =>
    match pr_cluster fr with
    | None => (with_failed (with_failures s (aremove failed (st_failures s))) (sinsert failed (st_failed s)), Done None)
    | Some name =>
      let s1 := bump s in
      match alookup name (st_clusters s1) with
      | None => (s1, Fail E_ClusterNotFound)
      | Some cl =>
        let s2 := with_clusters s1 (ainsert name (takeover_master cl failed (st_epoch s1)) (st_clusters s1)) in
        if st_ordered s2 then (bump s2, Done None)
        else
          let s3 := with_failed s2 (sinsert failed (st_failed s2)) in
          match generate_new_free_proxy s3 failed choice with
          | Fail e => (s3, Fail e)
          | Panic => (s3, Panic)
          | Done r =>
            let rr := res_or_default s3 r in
            let s4 := bump s3 in
            match alookup name (st_clusters s4) with
            | None => (s4, Panic)
            | Some cl2 =>
              let cl3 := mkCluster (st_epoch s4) (replace_in_chunks (cl_chunks cl2) failed r rr) (cl_config cl2) in
              let ps := tag_proxies (tag_proxies (st_proxies s4) [failed] None) [r] (Some name) in
              (with_proxies (with_clusters s4 (ainsert name cl3 (st_clusters s4))) ps, Done (Some r))
            end
          end
      end
    end
  end.

Definition balance_masters (s : store) (name : N) : store * outcome unit :=
  match alookup name (st_clusters s) with
  | None => (s, Fail E_ClusterNotFound)
  | Some cl =>
    let bad (a : N) := smem a (st_failed s) || amem a (st_failures s) in
    let chunks := map (fun c => if bad (ck_proxy0 c) || bad (ck_proxy1 c) then c else set_role c RNormal) (cl_chunks cl) in
    (bump (with_clusters s (ainsert name (mkCluster (st_epoch s + 1) chunks (cl_config cl)) (st_clusters s))), Done tt)
  end.

(* config is an opaque value; `valid` says whether every (key, value) of the request is accepted by set_field *)
Definition change_config (s : store) (name : N) (valid : bool) (cfg : N) : store * outcome unit :=
  match alookup name (st_clusters s) with
  | None => (s, Fail E_ClusterNotFound)
  | Some cl =>
    if cluster_is_migrating cl then (s, Fail E_MigrationRunning)
    else if negb valid then (s, Fail E_InvalidConfig)
    else (bump (with_clusters s (ainsert name (mkCluster (st_epoch s + 1) (cl_chunks cl) cfg) (st_clusters s))), Done tt)
  end.

(* ---------- epochs (store.rs) ---------- *)
Definition set_all_cluster_epochs (s : store) (e : N) : store :=
  with_clusters (with_epoch s e) (map (fun nc => (fst nc, set_cl_epoch (snd nc) e)) (st_clusters s)).

Definition force_bump_all_epoch (s : store) (e : N) : store * outcome unit :=
  if N.leb e (st_epoch s) then (s, Fail E_SmallEpoch) else (set_all_cluster_epochs s e, Done tt).

Definition recover_epoch (s : store) (existing_largest : N) : store :=
  set_all_cluster_epochs s (N.max existing_largest (st_epoch s + 1)).

Definition restore (s other : store) : store * outcome unit :=
  if N.ltb (st_epoch other) (st_epoch s) then (s, Fail E_SmallEpoch) else (other, Done tt).

(* ---------- node-number API (store.rs) ---------- *)
Definition node_number_with_slots (cl : cluster) : N :=
  2 * fold_left (fun n c => n + b2n (match ck_stable0 c with Some _ => true | None => false end)
                              + b2n (match ck_stable1 c with Some _ => true | None => false end)) (cl_chunks cl) 0.

Inductive scale_op := NoOp | ScaleOut | ScaleDown.

Definition auto_change_node_number (s : store) (name expected : N) (choices : list (N * N)) : store * outcome scale_op :=
  match alookup name (st_clusters s) with
  | None => (s, Fail E_ClusterNotFound)
  | Some cl =>
    if cluster_is_migrating cl then (s, Fail E_MigrationRunning)
    else
      let '(s1, r1) := auto_delete_free_nodes s name in
      match r1 with
      | Panic => (s1, Panic)
      | Fail e => match e with
                  | E_FreeNodeNotFound =>
                    match alookup name (st_clusters s1) with
                    | None => (s1, Fail E_ClusterNotFound)
                    | Some cl1 =>
                      let existing := 4 * N.of_nat (length (cl_chunks cl1)) in
                      if N.eqb existing expected then (s1, Done NoOp)
                      else if N.ltb existing expected then
                        match auto_scale_up_nodes s1 name expected choices with
                        | (s2, Done _) => (s2, Done ScaleOut)
                        | (s2, Fail e) => (s2, Fail e)
                        | (s2, Panic) => (s2, Panic)
                        end
                      else
                        match migrate_slots_to_scale_down s1 name expected with
                        | (s2, Done _) => (s2, Done ScaleDown)
                        | (s2, Fail e) => (s2, Fail e)
                        | (s2, Panic) => (s2, Panic)
                        end
                    end
                  | _ => (s1, Fail e)
                  end
      | Done _ =>
        match alookup name (st_clusters s1) with
        | None => (s1, Fail E_ClusterNotFound)
        | Some cl1 =>
          let existing := 4 * N.of_nat (length (cl_chunks cl1)) in
          if N.eqb existing expected then (s1, Done NoOp)
          else if N.ltb existing expected then
            match auto_scale_up_nodes s1 name expected choices with
            | (s2, Done _) => (s2, Done ScaleOut)
            | (s2, Fail e) => (s2, Fail e)
            | (s2, Panic) => (s2, Panic)
            end
          else
            match migrate_slots_to_scale_down s1 name expected with
            | (s2, Done _) => (s2, Done ScaleDown)
            | (s2, Fail e) => (s2, Fail e)
            | (s2, Panic) => (s2, Panic)
            end
        end
      end
  end.

Definition auto_scale_out_node_number (s : store) (name expected : N) : store * outcome unit :=
  match alookup name (st_clusters s) with
  | None => (s, Fail E_ClusterNotFound)
  | Some cl =>
    if N.ltb (node_number_with_slots cl) expected then migrate_slots s name else (s, Done tt)
  end.

(* ---------- views (store.rs limit_migration, to_slot_range; query.rs) ---------- *)
Record vmeta := mkVMeta { vm_epoch : N; vm_src_proxy : N; vm_src_node : N; vm_dst_proxy : N; vm_dst_node : N }.
Inductive vtag := VNone | VMigrating (m : vmeta) | VImporting (m : vmeta).
Definition vslot := (rangelist * vtag)%type.

Record vnode := mkVNode {
  vn_addr : N; vn_proxy : N; vn_master : bool; vn_slots : list vslot; vn_peer_node : N; vn_peer_proxy : N }.

Definition part_proxy_index (part : bool) (r : role_pos) : bool :=   (* chunk_part_to_proxy_index: false = proxy 0 *)
  match part, r with
  | false, RSecond => true
  | true, RFirst => false
  | p, _ => p
  end.

Definition part_node_index (part : bool) (r : role_pos) : nat :=     (* chunk_part_to_node_index *)
  match part, r with
  | false, RSecond => 3
  | true, RFirst => 1
  | false, _ => 0
  | true, _ => 2
  end.

Definition ck_node (c : chunk) (i : nat) : N :=
  match i with 0%nat => ck_n0 c | 1%nat => ck_n1 c | 2%nat => ck_n2 c | _ => ck_n3 c end.
Definition ck_proxy (c : chunk) (second : bool) : N := if second then ck_proxy1 c else ck_proxy0 c.

(* to_slot_range: None = `expect("get_cluster")` panic *)
Definition to_slot_range (chunks : list chunk) (m : mig_store) : option vslot :=
  match nth_error chunks (mm_src_idx (ms_meta m)), nth_error chunks (mm_dst_idx (ms_meta m)) with
  | Some sc, Some dc =>
    let meta := mkVMeta (mm_epoch (ms_meta m))
                        (ck_proxy sc (part_proxy_index (mm_src_part (ms_meta m)) (ck_role sc)))
                        (ck_node sc (part_node_index (mm_src_part (ms_meta m)) (ck_role sc)))
                        (ck_proxy dc (part_proxy_index (mm_dst_part (ms_meta m)) (ck_role dc)))
                        (ck_node dc (part_node_index (mm_dst_part (ms_meta m)) (ck_role dc))) in
    Some (ms_ranges m, if ms_out m then VMigrating meta else VImporting meta)
  | _, _ => None
  end.

Fixpoint map_opt {A B} (f : A -> option B) (l : list A) : option (list B) :=
  match l with
  | [] => Some []
  | x :: l' => match f x, map_opt f l' with Some y, Some r => Some (y :: r) | _, _ => None end
  end.

(* limit_migration *)
Definition out_entries (chunks : list chunk) : list mig_store :=
  flat_map (fun c => filter ms_out (ck_mig0 c) ++ filter ms_out (ck_mig1 c)) chunks.

Definition clear_migs (c : chunk) : chunk := set_mig (set_mig c false []) true [].

Fixpoint limit_loop (lim : N) (entries : list mig_store) (chunks : list chunk) (num : N) (outs : list (nat * bool))
  : option (list chunk) :=
  match entries with
  | [] => Some chunks
  | e :: rest =>
    let m := ms_meta e in
    let src := (mm_src_idx m, mm_src_part m) in
    if Nat.ltb (mm_src_idx m) (length chunks) then
      if N.leb lim num || pos_mem src outs then
        let chunks' := update_nth (mm_src_idx m)
                         (fun c => set_stable c (mm_src_part m)
                                     (Some (rl_merge_another (match ck_stable c (mm_src_part m) with Some r => r | None => rl_new [] end) (ms_ranges e))))
                         chunks in
        limit_loop lim rest chunks' num outs
      else
        if Nat.ltb (mm_dst_idx m) (length chunks) then
          let c1 := update_nth (mm_src_idx m) (fun c => set_mig c (mm_src_part m) (ck_mig c (mm_src_part m) ++ [e])) chunks in
          let c2 := update_nth (mm_dst_idx m) (fun c => set_mig c (mm_dst_part m) (ck_mig c (mm_dst_part m) ++ [mkMig (ms_ranges e) false m])) c1 in
          limit_loop lim rest c2 (num + 1) (src :: outs)
        else None
    else None
  end.

Definition limit_migration (lim : N) (cl : cluster) : option cluster :=
  if N.eqb lim 0 then Some cl
  else match limit_loop lim (out_entries (cl_chunks cl)) (map clear_migs (cl_chunks cl)) 0 [] with
       | Some chunks => Some (mkCluster (cl_epoch cl) chunks (cl_config cl))
       | None => None
       end.

(* cluster_store_to_cluster: four nodes per chunk *)
Definition chunk_nodes (chunks : list chunk) (c : chunk) : option (list vnode) :=
  let slots_of (part : bool) : option (list vslot) :=
    match map_opt (to_slot_range chunks) (ck_mig c part) with
    | Some l => Some ((match ck_stable c part with Some r => [(r, VNone)] | None => [] end) ++ l)
    | None => None
    end in
  let first_idx := match ck_role c with RNormal => 0%nat | RFirst => 0%nat | RSecond => 3%nat end in
  let second_idx := match ck_role c with RNormal => 2%nat | RFirst => 1%nat | RSecond => 2%nat end in
  match slots_of false, slots_of true with
  | Some s0, Some s1 =>
    let mk (i : nat) : vnode :=
      let slots := (if Nat.eqb i first_idx then s0 else []) ++ (if Nat.eqb i second_idx then s1 else []) in
      let replica := match ck_role c with
                     | RNormal => Nat.odd i
                     | RFirst => Nat.leb 2 i
                     | RSecond => Nat.ltb i 2
                     end in
      let peer := match i with 0%nat => 3%nat | 1%nat => 2%nat | 2%nat => 1%nat | _ => 0%nat end in
      mkVNode (ck_node c i) (ck_proxy c (Nat.leb 2 i)) (negb replica) slots (ck_node c peer) (ck_proxy c (Nat.leb 2 peer)) in
    Some [mk 0%nat; mk 1%nat; mk 2%nat; mk 3%nat]
  | _, _ => None
  end.

Definition cluster_nodes (cl : cluster) : option (list vnode) :=
  match map_opt (chunk_nodes (cl_chunks cl)) (cl_chunks cl) with
  | Some l => Some (concat l)
  | None => None
  end.

Record vcluster := mkVCluster { vc_epoch : N; vc_nodes : list vnode; vc_config : N }.

(* get_cluster_by_name; outer None = no such cluster, inner None = panic *)
Definition view_cluster (lim : N) (s : store) (name : N) : option (option vcluster) :=
  match alookup name (st_clusters s) with
  | None => None
  | Some cl =>
    Some (match limit_migration lim cl with
          | None => None
          | Some cl' => match cluster_nodes cl' with
                        | Some ns => Some (mkVCluster (cl_epoch cl') ns (cl_config cl'))
                        | None => None
                        end
          end)
  end.

Record vproxy := mkVProxy {
  vp_cluster : option N; vp_epoch : N; vp_nodes : list vnode; vp_peers : list (N * list vslot); vp_config : option N }.

(* group_by on consecutive equal proxy addresses *)
Fixpoint group_peers (ns : list vnode) (acc : list (N * list vslot)) : list (N * list vslot) :=
  match ns with
  | [] => rev acc
  | n :: rest =>
    match acc with
    | (p, sl) :: acc' => if N.eqb p (vn_proxy n) then group_peers rest ((p, sl ++ vn_slots n) :: acc')
                         else group_peers rest ((vn_proxy n, vn_slots n) :: acc)
    | [] => group_peers rest [(vn_proxy n, vn_slots n)]
    end
  end.

(* get_proxy_by_address; outer None = unknown address, inner None = panic *)
Definition view_proxy (lim : N) (s : store) (addr : N) : option (option vproxy) :=
  match alookup addr (st_proxies s) with
  | None => None
  | Some r =>
    let free_view := mkVProxy None (st_epoch s)
                       [mkVNode (pr_n0 r) addr true [] 0 0; mkVNode (pr_n1 r) addr true [] 0 0] [] None in
    match pr_cluster r with
    | None => Some (Some free_view)
    | Some name =>
      match alookup name (st_clusters s) with
      | None => Some (Some free_view)
      | Some cl =>
        Some (match limit_migration lim cl with
              | None => None
              | Some cl' =>
                match cluster_nodes cl' with
                | None => None
                | Some ns =>
                  let mine := filter (fun n => N.eqb (vn_proxy n) addr) ns in
                  let others := filter (fun n => vn_master n && negb (N.eqb (vn_proxy n) addr)) ns in
                  Some (mkVProxy (Some name) (cl_epoch cl') mine (group_peers others []) (Some (cl_config cl')))
                end
              end)
      end
    end
  end.

(* query.rs check_metadata *)
Definition check_metadata (s : store) : bool :=
  forallb (fun nc =>
    let name := fst nc in
    let addrs := cluster_proxies (snd nc) in
    forallb (fun c =>
      let chk (a h n0 n1 : N) :=
        match alookup a (st_proxies s) with
        | None => false
        | Some r => (match pr_cluster r with Some n => N.eqb n name | None => false end)
                    && N.eqb h (pr_host r) && N.eqb n0 (pr_n0 r) && N.eqb n1 (pr_n1 r)
        end in
      chk (ck_proxy0 c) (ck_host0 c) (ck_n0 c) (ck_n1 c) && chk (ck_proxy1 c) (ck_host1 c) (ck_n2 c) (ck_n3 c)) (cl_chunks (snd nc))
    && (fix nodup (l : list N) : bool := match l with [] => true | x :: l' => negb (smem x l') && nodup l' end) addrs)
    (st_clusters s)
  && forallb (fun pe =>
       match pr_cluster (snd pe) with
       | None => true
       | Some name => match alookup name (st_clusters s) with
                      | None => false
                      | Some cl => smem (fst pe) (cluster_proxies cl)
                      end
       end) (st_proxies s).

(* ---------- operations ---------- *)
Inductive op :=
| OAddProxy (addr : N) (host : option N) (index : option N)
| ORemoveProxy (addr : N)
| OAddCluster (name node_num cfg : N) (choices : list (N * N))
| ORemoveCluster (name : N)
| OAutoAddNodes (name num : N) (choices : list (N * N))
| OAutoScaleUp (name expected : N) (choices : list (N * N))
| OAutoDeleteFree (name : N)
| OMigrateSlots (name : N)
| OScaleDown (name new_num : N)
| OCommit (name : N) (rl : rangelist) (tag : task_tag) (epoch : N) (clear_free : bool)
| OCommitNth (name : N) (j : N) (clear_free : bool)       (* the j-th (mod count) pending out entry of the stored cluster *)
| OAutoChange (name expected : N) (choices : list (N * N))
| OAutoScaleOut (name expected : N)
| OReplaceFailed (addr : N) (choice : option N)
| OBalance (name : N)
| OChangeConfig (name : N) (valid : bool) (cfg : N)
| OAddFailure (addr reporter : N) (now : Z)
| OGetFailures (now ttl : Z) (quorum : N)
| OCleanupFailures (now ttl : Z) (quorum : N)
| OForceBump (e : N)
| ORecoverEpoch (e : N)
| ORestore (snapshot : store).

Inductive res :=
| ROk
| RBool (b : bool)
| RList (l : list N)
| RScale (o : scale_op)
| RRepl (r : option N)
| RErr (e : err)
| RPanic.

Definition lift_unit (r : store * outcome unit) : store * res :=
  match r with
  | (s, Done _) => (s, ROk)
  | (s, Fail e) => (s, RErr e)
  | (s, Panic) => (s, RPanic)
  end.

Definition nth_out_entry (s : store) (name j : N) : option mig_store :=
  match alookup name (st_clusters s) with
  | None => None
  | Some cl =>
    let es := out_entries (cl_chunks cl) in
    match es with
    | [] => None
    | _ => nth_error es (N.to_nat (j mod N.of_nat (length es)))
    end
  end.

Definition step (s : store) (o : op) : store * res :=
  match o with
  | OAddProxy a h i => lift_unit (add_proxy s a h i)
  | ORemoveProxy a => lift_unit (remove_proxy s a)
  | OAddCluster n k cfg ch => lift_unit (add_cluster s n k cfg ch)
  | ORemoveCluster n => lift_unit (remove_cluster s n)
  | OAutoAddNodes n k ch => lift_unit (auto_add_nodes s n k ch)
  | OAutoScaleUp n k ch => lift_unit (auto_scale_up_nodes s n k ch)
  | OAutoDeleteFree n => lift_unit (auto_delete_free_nodes s n)
  | OMigrateSlots n => lift_unit (migrate_slots s n)
  | OScaleDown n k => lift_unit (migrate_slots_to_scale_down s n k)
  | OCommit n rl tag e clr => lift_unit (commit_migration_api s n rl tag e clr)
  | OCommitNth n j clr =>
    match nth_out_entry s n j with
    | Some m => lift_unit (commit_migration_api s n (ms_ranges m) TagMigrating (mm_epoch (ms_meta m)) clr)
    | None => lift_unit (commit_migration_api s n [] TagMigrating 0 clr)
    end
  | OAutoChange n k ch =>
    match auto_change_node_number s n k ch with
    | (s', Done o) => (s', RScale o)
    | (s', Fail e) => (s', RErr e)
    | (s', Panic) => (s', RPanic)
    end
  | OAutoScaleOut n k => lift_unit (auto_scale_out_node_number s n k)
  | OReplaceFailed a ch =>
    match replace_failed_proxy s a ch with
    | (s', Done r) => (s', RRepl r)
    | (s', Fail e) => (s', RErr e)
    | (s', Panic) => (s', RPanic)
    end
  | OBalance n => lift_unit (balance_masters s n)
  | OChangeConfig n v c => lift_unit (change_config s n v c)
  | OAddFailure a r now => let '(s', b) := add_failure s a r now in (s', RBool b)
  | OGetFailures now ttl q => let '(s', l) := get_failures s now ttl q in (s', RList l)
  | OCleanupFailures now ttl q => let '(s', b) := cleanup_failures s now ttl q in (s', RBool b)
  | OForceBump e => lift_unit (force_bump_all_epoch s e)
  | ORecoverEpoch e => (recover_epoch s e, ROk)
  | ORestore snap => lift_unit (restore s snap)
  end.

Definition run (s : store) (ops : list op) : store := fold_left (fun s o => fst (step s o)) ops s.
