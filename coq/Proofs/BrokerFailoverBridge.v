(* Bridge (NOT imported by Props/C06.v, so that C06 does not depend on the C01 development): the partition invariant
   part_inv of Proofs/BrokerPartDefs.v (clause pi_twin), which Proofs/BrokerPartMain.v proves for every reachable store
   (reachable_keeps_partition), implies the premise mig_wf of C06_reissue. *)
From UM Require Import Base.BytesDef Model.Ranges Model.Broker Proofs.BrokerBase Proofs.BrokerFailoverStruct
  Proofs.BrokerFailoverTakeover.
From UM Require Proofs.BrokerPartDefs.

Lemma part_inv_mig_wf chunks : BrokerPartDefs.part_inv chunks -> mig_wf chunks.
Proof.
  intros Hinv j cj p m Hj Hm.
  assert (Hin : In m (BrokerPartDefs.entries_at chunks (j, p))).
  { unfold BrokerPartDefs.entries_at. cbn [fst snd]. rewrite Hj. exact Hm. }
  destruct (BrokerPartDefs.pi_twin chunks Hinv (j, p) m Hin) as (Hown & Hlt & Htw).
  unfold BrokerPartDefs.own_pos, BrokerPartDefs.twin_pos, BrokerPartDefs.src_pos, BrokerPartDefs.dst_pos in *.
  unfold src_pos, dst_pos.
  split; [exact Hown|].
  unfold BrokerPartDefs.entries_at in Htw.
  destruct (nth_error chunks (fst (if ms_out m then (mm_dst_idx (ms_meta m), mm_dst_part (ms_meta m))
                                   else (mm_src_idx (ms_meta m), mm_src_part (ms_meta m))))) as [ct|] eqn:Ect.
  - exists ct, (BrokerPartDefs.twin m). split; [reflexivity|]. split; [exact Htw|]. repeat split.
  - destruct Htw.
Qed.

Lemma store_part_inv_mig_wf s :
  BrokerPartDefs.store_part_inv s -> forall n cl, In (n, cl) (st_clusters s) -> mig_wf (cl_chunks cl).
Proof. intros H n cl Hin. apply part_inv_mig_wf. apply (H n cl Hin). Qed.

Print Assumptions store_part_inv_mig_wf.
