(* Proofs about Model/Pipe.v (property C08), part 1: bags, the structural invariant and the accounting invariant
   (every submitted task is either completed or pending, never both, never twice). *)
From Coq Require Import List Arith Lia NArith Bool.
From UM Require Import Base.BytesDef Base.PipeUtil Model.Pipe.
Import ListNotations.
Local Open Scope nat_scope.

(* ---------------------------------------------------------------- bags *)
Lemma tid_eqb_eq : forall a b, tid_eqb a b = true <-> a = b.
Proof. intros; unfold tid_eqb; apply N.eqb_eq. Qed.

Lemma tid_eqb_refl : forall a, tid_eqb a a = true.
Proof. intros; apply tid_eqb_eq; reflexivity. Qed.

Lemma cnt_app : forall t a b, count_tid t (a ++ b) = count_tid t a + count_tid t b.
Proof. induction a; intros; cbn [count_tid app]; [reflexivity | rewrite IHa; lia]. Qed.

Lemma cnt_in : forall t l, In t l <-> 0 < count_tid t l.
Proof.
  induction l; cbn [count_tid In]; [split; [tauto | lia] |].
  destruct (tid_eqb t a) eqn:E.
  - apply tid_eqb_eq in E; subst. split; [lia | auto].
  - split.
    + intros [H | H]; [subst; rewrite tid_eqb_refl in E; discriminate | apply IHl in H; lia].
    + intros H. right. apply IHl. lia.
Qed.

Lemma cnt_notin : forall t l, ~ In t l -> count_tid t l = 0.
Proof. intros t l H. destruct (count_tid t l) eqn:E; [reflexivity |]. exfalso. apply H, cnt_in. lia. Qed.

Lemma nodup_cnt : forall l, NoDup l <-> (forall t, count_tid t l <= 1).
Proof.
  induction l; split; intros H.
  - intros; cbn; lia.
  - constructor.
  - inversion H; subst. intros t. cbn [count_tid].
    destruct (tid_eqb t a) eqn:E.
    + apply tid_eqb_eq in E; subst. rewrite (cnt_notin a l) by assumption. lia.
    + apply IHl with (t := t) in H3. lia.
  - constructor.
    + intros Hin. apply cnt_in in Hin. specialize (H a). cbn [count_tid] in H. rewrite tid_eqb_refl in H. lia.
    + apply IHl. intros t. specialize (H t). cbn [count_tid] in H. lia.
Qed.

Lemma cnt_map_pair : forall (o : outcome) t l, count_tid t (map fst (map (fun x : tid => (x, o)) l)) = count_tid t l.
Proof. induction l; cbn [map fst count_tid]; [reflexivity | rewrite IHl; reflexivity]. Qed.

Lemma in_map_pair : forall (o : outcome) t l, In t l -> In (t, o) (map (fun x : tid => (x, o)) l).
Proof. intros. apply (in_map (fun x : tid => (x, o))) in H. exact H. Qed.

Lemma in_map_pair_inv : forall (o o' : outcome) t l, In (t, o') (map (fun x : tid => (x, o)) l) -> In t l /\ o' = o.
Proof. intros o o' t l H. apply in_map_iff in H. destruct H as [x [E Hx]]. inversion E; subst. auto. Qed.

(* ---------------------------------------------------------------- handle_conn_err / conn_fail *)
Definition rt_val (rt : option nat) : nat := match rt with Some n => n | None => 0 end.

Lemma handle_conn_err_spec : forall rt ts e,
  (MAX_BACKEND_RETRY <= rt_val rt /\ handle_conn_err rt ts e = (None, map (fun t => (t, cmd_err_of e)) ts)) \/
  (rt_val rt < MAX_BACKEND_RETRY /\ handle_conn_err rt ts e = (Some (S (rt_val rt), ts), [])).
Proof.
  intros. unfold handle_conn_err. fold (rt_val rt). rewrite pmap_map.
  destruct (Nat.leb MAX_BACKEND_RETRY (rt_val rt)) eqn:E.
  - left. apply Nat.leb_le in E. auto.
  - right. apply Nat.leb_gt in E. auto.
Qed.

Definition done_ids (s : state) : list tid := map fst (s_done s).

Lemma conn_fail_spec : forall s rt e b,
  let s' := conn_fail s rt e b in
  s_mode s' = MConnecting /\ s_chan s' = s_chan s /\ s_conn_failed s' = s_conn_failed s /\
  s_conn s' = mkConn None None [] [] (c_written (s_conn s)) (c_nread (s_conn s)) /\
  s_ghost s' = mkGhost (g_connno (s_ghost s)) (g_wlog (s_ghost s)) (g_rlog (s_ghost s))
                       (c_tasks (s_conn s) ++ g_fails (s_ghost s)) (g_invalid (s_ghost s) || b) /\
  ((MAX_BACKEND_RETRY <= rt_val rt /\ s_retry s' = None /\
    s_done s' = map (fun t => (t, cmd_err_of e)) (c_tasks (s_conn s)) ++ s_done s) \/
   (rt_val rt < MAX_BACKEND_RETRY /\ s_retry s' = Some (S (rt_val rt), c_tasks (s_conn s)) /\ s_done s' = s_done s)).
Proof.
  intros. subst s'. unfold conn_fail.
  destruct (handle_conn_err_spec rt (c_tasks (s_conn s)) e) as [[H1 H2] | [H1 H2]]; rewrite H2; cbn;
    repeat split; auto.
Qed.

(* ---------------------------------------------------------------- structural invariant *)
Definition struct_inv (s : state) : Prop :=
  (s_mode s = MConnected -> s_retry s = None) /\
  (s_mode s <> MConnected -> c_tasks (s_conn s) = [] /\ c_retry_in (s_conn s) = None) /\
  (c_retry_in (s_conn s) <> None -> c_tasks (s_conn s) = []).

Lemma is_none_true : forall A (o : option A), is_none o = true -> o = None.
Proof. destruct o; cbn; [discriminate | reflexivity]. Qed.

Ltac destr_step H :=
  unfold step in H;
  repeat match type of H with
  | context [match ?x with _ => _ end] => destruct x eqn:?; try discriminate H
  end;
  try (injection H as H); subst.

Ltac bool_hyps :=
  repeat match goal with
  | H : _ && _ = true |- _ => apply andb_prop in H; destruct H
  | H : is_none _ = true |- _ => apply is_none_true in H
  | H : tid_eqb _ _ = true |- _ => apply tid_eqb_eq in H; subst
  end.

Ltac use_inv :=
  repeat match goal with
  | Hm : ?x = ?y, HA : ?x = ?y -> _ |- _ => specialize (HA Hm)
  | H : ?a = ?a -> _ |- _ => specialize (H eq_refl)
  | H : ?a <> ?a -> _ |- _ => clear H
  | H : ?a <> ?b -> _ |- _ => let N := fresh in assert (N : a <> b) by discriminate; specialize (H N); clear N
  | H : _ /\ _ |- _ => destruct H
  end.

Lemma struct_inv_init : struct_inv init.
Proof. unfold struct_inv, init; cbn. repeat split; auto; intros; congruence. Qed.

Lemma struct_inv_conn_fail : forall s rt e b, struct_inv (conn_fail s rt e b).
Proof.
  intros. destruct (conn_fail_spec s rt e b) as (Hm & _ & _ & Hc & _ & _).
  unfold struct_inv. rewrite Hm, Hc. cbn. repeat split; auto; intros; congruence.
Qed.

Lemma struct_inv_step : forall h s e s', step h s e = Some s' -> struct_inv s -> struct_inv s'.
Proof.
  intros h s e s' H [I1 [I2 I3]].
  destruct e; destr_step H; bool_hyps;
    try apply struct_inv_conn_fail;
    unfold struct_inv, set_conn, set_chan, add_done, set_ghost in *; cbn in *;
    repeat match goal with H : s_mode _ = _ |- _ => rewrite H in * end;
    repeat split; intros; try congruence; auto;
    try (destruct I2 as [? ?]; [congruence | auto]; congruence).
Qed.

(* ---------------------------------------------------------------- accounting *)
Definition acct (sub : list tid) (s : state) : Prop :=
  forall t, count_tid t sub = count_tid t (done_ids s) + count_tid t (pending s).

Lemma submitted_app : forall a b, submitted (a ++ b) = submitted a ++ submitted b.
Proof.
  induction a; intros; cbn [app submitted]; [reflexivity |].
  destruct a; rewrite ?IHa; cbn [app]; try reflexivity. rewrite app_assoc. reflexivity.
Qed.

Ltac cnt_simpl :=
  unfold done_ids, pending, retry_tasks, set_conn, set_chan, add_done, set_ghost in *; cbn [s_mode s_conn_failed s_chan s_retry s_conn s_done s_ghost
    c_retry_in c_rt c_tasks c_packets c_written c_nread fst snd map app] in *;
  repeat (rewrite ?map_app, ?cnt_app, ?cnt_map_pair, ?app_nil_r in *; cbn [count_tid map fst app] in *).

Lemma acct_conn_fail : forall sub s rt e b,
  s_retry s = None -> c_retry_in (s_conn s) = None ->
  acct sub s -> acct sub (conn_fail s rt e b).
Proof.
  intros sub s rt e b Hr Hi A t. specialize (A t).
  destruct (conn_fail_spec s rt e b) as (Hm & Hch & _ & Hc & _ & Hd).
  unfold done_ids, pending in *. rewrite Hch, Hc. rewrite Hr, Hi in A. cbn [c_tasks c_retry_in retry_tasks app] in *.
  destruct Hd as [(_ & Hr' & Hd) | (_ & Hr' & Hd)]; rewrite Hr', Hd; cbn [retry_tasks];
    rewrite ?map_app, ?cnt_app, ?cnt_map_pair, ?app_nil_r in *; cbn [count_tid] in *; lia.
Qed.

Ltac rw_fields :=
  repeat match goal with
  | H : c_retry_in _ = _ |- _ => rewrite H in *
  | H : s_chan _ = _ |- _ => rewrite H in *
  | H : c_tasks _ = _ |- _ => rewrite H in *
  | H : s_retry _ = _ |- _ => rewrite H in *
  | H : c_packets _ = _ |- _ => rewrite H in *
  end.

Lemma acct_step : forall h sub s e s',
  step h s e = Some s' -> struct_inv s -> acct sub s -> acct (sub ++ submitted [e]) s'.
Proof.
  intros h sub s e s' H [I1 [I2 I3]] A.
  destruct e; cbn [submitted]; rewrite ?app_nil_r;
    destr_step H; bool_hyps; use_inv;
    try (apply acct_conn_fail; cbn; auto);
    intros x; specialize (A x); rewrite ?pmap_map in *; cnt_simpl; rw_fields; cnt_simpl;
    try lia;
    try (destruct (s_retry s) as [[? ?] |]; cnt_simpl; lia).
Qed.

(* ---------------------------------------------------------------- runs *)
Definition base_inv (sub : list tid) (s : state) : Prop := struct_inv s /\ acct sub s.

Lemma base_inv_init : base_inv [] init.
Proof. split; [apply struct_inv_init | intros t; reflexivity]. Qed.

Lemma base_inv_step : forall h sub s e s',
  step h s e = Some s' -> base_inv sub s -> base_inv (sub ++ submitted [e]) s'.
Proof. intros h sub s e s' H [S A]. split; [eapply struct_inv_step; eauto | eapply acct_step; eauto]. Qed.

Lemma base_inv_run : forall h evs sub s s',
  run h s evs = Some s' -> base_inv sub s -> base_inv (sub ++ submitted evs) s'.
Proof.
  induction evs as [| e evs IH]; intros sub s s' H B; cbn [run] in H.
  - injection H as <-. cbn [submitted]. rewrite app_nil_r. exact B.
  - destruct (step h s e) as [s1 |] eqn:E; [| discriminate].
    change (e :: evs) with ([e] ++ evs). rewrite submitted_app, app_assoc.
    eapply IH; eauto. eapply base_inv_step; eauto.
Qed.

Definition exactly_one_completion (s : state) (t : tid) : Prop :=
  exists o, In (t, o) (s_done s) /\ forall o', In (t, o') (s_done s) -> o' = o.

Lemma nodup_fst_unique : forall (l : list (tid * outcome)) t o o',
  NoDup (map fst l) -> In (t, o) l -> In (t, o') l -> o = o'.
Proof.
  induction l as [| [a b] l IH]; intros t o o' N H1 H2; [destruct H1 |].
  cbn [map fst] in N. inversion N as [| ? ? Hn N']; subst.
  destruct H1 as [H1 | H1]; destruct H2 as [H2 | H2].
  - congruence.
  - inversion H1; subst. exfalso. apply Hn. apply (in_map fst) in H2. exact H2.
  - inversion H2; subst. exfalso. apply Hn. apply (in_map fst) in H1. exact H1.
  - eapply IH; eauto.
Qed.

Theorem exactly_once : forall h evs s,
  run h init evs = Some s -> NoDup (submitted evs) ->
  NoDup (map fst (s_done s)) /\
  (forall t o, In (t, o) (s_done s) -> In t (submitted evs) /\ ~ In t (pending s)) /\
  (forall t, In t (pending s) -> In t (submitted evs)) /\
  (quiescent s = true -> forall t, In t (submitted evs) -> exactly_one_completion s t).
Proof.
  intros h evs s R N.
  destruct (base_inv_run h evs [] init s R base_inv_init) as [_ A]. cbn [app] in A.
  assert (N' := proj1 (nodup_cnt _) N).
  assert (ND : NoDup (map fst (s_done s))).
  { apply nodup_cnt. intros t. specialize (A t). specialize (N' t). unfold done_ids in A. lia. }
  repeat split.
  - exact ND.
  - apply cnt_in. apply (in_map fst) in H. cbn [fst] in H. apply cnt_in in H. specialize (A t). unfold done_ids in A. lia.
  - intros Hp. apply (in_map fst) in H. cbn [fst] in H. apply cnt_in in H. apply cnt_in in Hp.
    specialize (A t). specialize (N' t). unfold done_ids in A. lia.
  - intros t Hp. apply cnt_in. apply cnt_in in Hp. specialize (A t). lia.
  - intros Q t Hin. unfold quiescent in Q. destruct (pending s) eqn:P; [| discriminate].
    apply cnt_in in Hin. specialize (A t). rewrite P in A. cbn [count_tid] in A.
    assert (Hd : In t (done_ids s)) by (apply cnt_in; lia).
    unfold done_ids in Hd. apply in_map_iff in Hd. destruct Hd as [[t' o] [E Hd]]. cbn [fst] in E. subst t'.
    exists o. split; [exact Hd |]. intros o' H'. eapply nodup_fst_unique; eauto.
Qed.

Example exactly_once_example :
  let evs := [Submit 1%N; Submit 2%N; ConnOk; Poll; Arrive 1%N; Arrive 2%N; WriteOk 1%N; WriteOk 2%N; Poll; Reply 11%N; Closed;
              ConnOk; Poll; WriteOk 2%N; Poll; Reply 22%N] in
  exists s, run false init evs = Some s /\ quiescent s = true /\
            s_done s = [(2%N, ORep 22%N); (1%N, ORep 11%N)] /\ NoDup (submitted evs).
Proof. eexists. split; [vm_compute; reflexivity |]. repeat split. repeat constructor; cbn; intuition discriminate. Qed.
