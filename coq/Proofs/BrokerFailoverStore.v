(* C06, parts 4 and 6 at the level of replace_failed_proxy (update.rs). *)
From UM Require Import Base.BytesDef Model.Ranges Model.Broker Proofs.BrokerBase Proofs.BrokerFailoverStruct
  Proofs.BrokerFailoverTakeover.
From Coq Require Import ZifyBool ZifyNat ZifyN.

(* every migration epoch stored anywhere is at most the global epoch *)
Definition store_epochs_le (s : store) : Prop :=
  forall n cl, alookup n (st_clusters s) = Some cl -> epochs_le (cl_chunks cl) (st_epoch s).

(* roles and migration entries (hence migration epochs) of two clusters agree chunk by chunk *)
Definition same_roles_migs (a b : cluster) : Prop :=
  map ck_role (cl_chunks a) = map ck_role (cl_chunks b)
  /\ forall p, map (fun c => ck_mig c p) (cl_chunks a) = map (fun c => ck_mig c p) (cl_chunks b).

Lemma same_roles_migs_refl a : same_roles_migs a a.
Proof. split; reflexivity. Qed.

Lemma same_roles_migs_chunks a b : cl_chunks a = cl_chunks b -> same_roles_migs a b.
Proof. intros H. unfold same_roles_migs. rewrite H. split; reflexivity. Qed.

Lemma same_roles_migs_trans a b c : same_roles_migs a b -> same_roles_migs b c -> same_roles_migs a c.
Proof. intros [H1 H2] [H3 H4]. split; [congruence|]. intros p. rewrite H2. apply H4. Qed.

(* the replacement loop keeps role, stable slots and migration entries of every chunk *)
Lemma replace_in_chunks_roles chunks f r rr : map ck_role (replace_in_chunks chunks f r rr) = map ck_role chunks.
Proof.
  induction chunks as [|c rest IH]; cbn [replace_in_chunks map]; [reflexivity|].
  destruct (N.eqb (ck_proxy0 c) f); [reflexivity|]. destruct (N.eqb (ck_proxy1 c) f); [reflexivity|].
  cbn [map]. rewrite IH. reflexivity.
Qed.

Lemma replace_in_chunks_migs chunks f r rr p :
  map (fun c => ck_mig c p) (replace_in_chunks chunks f r rr) = map (fun c => ck_mig c p) chunks.
Proof.
  induction chunks as [|c rest IH]; cbn [replace_in_chunks map]; [reflexivity|].
  destruct (N.eqb (ck_proxy0 c) f); [destruct p; reflexivity|].
  destruct (N.eqb (ck_proxy1 c) f); [destruct p; reflexivity|].
  cbn [map]. rewrite IH. reflexivity.
Qed.

Lemma gen_new_free_done s f ch r :
  generate_new_free_proxy s f ch = Done r ->
  exists rr, alookup r (st_proxies s) = Some rr /\ is_free s (r, rr) = true.
Proof.
  unfold generate_new_free_proxy.
  destruct (alookup f (st_proxies s)) as [fr|]; [|discriminate].
  destruct (alookup (pr_host fr) (build_link_table s)) as [peers|]; [|discriminate].
  match goal with |- context [match ?x with [] => _ | _ :: _ => _ end] => destruct x; [discriminate|] end.
  destruct ch as [r0|]; [|discriminate].
  destruct (alookup r0 (st_proxies s)) as [rr|] eqn:Er; [|discriminate].
  destruct (is_free s (r0, rr)) eqn:Ef; cbn [negb]; [|discriminate].
  match goal with |- context [match ?x with Some _ => _ | None => _ end] => destruct x; [|discriminate] end.
  match goal with |- context [if ?x then _ else _] => destruct x; [|discriminate] end.
  intros H. inversion H; subst r0. eauto.
Qed.

(* complete description of replace_failed_proxy when the failed proxy belongs to an existing cluster *)
Lemma replace_cluster_case : forall s f ch fr name cl,
  alookup f (st_proxies s) = Some fr -> pr_cluster fr = Some name -> alookup name (st_clusters s) = Some cl ->
  let clt := takeover_master cl f (st_epoch s + 1) in
  let s' := fst (replace_failed_proxy s f ch) in
  st_epoch s + 1 <= st_epoch s'
  /\ (forall n, n <> name -> alookup n (st_clusters s') = alookup n (st_clusters s))
  /\ ((alookup name (st_clusters s') = Some clt /\ st_proxies s' = st_proxies s
       /\ (forall r, snd (replace_failed_proxy s f ch) <> Done (Some r)))
      \/ (exists r rr, snd (replace_failed_proxy s f ch) = Done (Some r)
            /\ r <> f /\ alookup r (st_proxies s) = Some rr /\ is_free s (r, rr) = true
            /\ alookup name (st_clusters s')
               = Some (mkCluster (st_epoch s') (replace_in_chunks (cl_chunks clt) f r rr) (cl_config clt))
            /\ alookup f (st_proxies s') = Some (set_pr_cluster fr None))).
Proof.
  intros s f ch fr name cl Hf Hname Hcl clt s'. subst s'.
  unfold replace_failed_proxy. rewrite Hf, Hname.
  change (st_clusters (bump s)) with (st_clusters s). rewrite Hcl.
  change (st_epoch (bump s)) with (st_epoch s + 1). fold clt.
  cbn [st_ordered with_clusters bump with_epoch].
  destruct (st_ordered s) eqn:Eord.
  - cbn [fst snd st_epoch st_clusters st_proxies bump with_epoch with_clusters].
    split; [lia|]. split; [intros n Hn; apply alookup_ainsert_other; exact Hn|].
    left. split; [apply alookup_ainsert_same|]. split; [reflexivity|]. intros r. discriminate.
  - match goal with |- context [generate_new_free_proxy ?s3 f ch] => set (s3 := s3) end.
    destruct (generate_new_free_proxy s3 f ch) as [r|e|] eqn:Eg.
    + destruct (gen_new_free_done s3 f ch r Eg) as (rr & Hr & Hfree).
      change (st_proxies s3) with (st_proxies s) in Hr.
      assert (Hfree_s : is_free s (r, rr) = true).
      { unfold is_free in *. cbn [fst snd] in *. destruct (pr_cluster rr); [discriminate|].
        subst s3. cbn [st_failed st_failures with_failed with_clusters] in Hfree.
        rewrite smem_sinsert in Hfree.
        destruct (N.eqb r f); cbn [orb negb andb] in Hfree; [discriminate|]. exact Hfree. }
      assert (Hne : r <> f).
      { intros ->. rewrite Hf in Hr. inversion Hr; subst rr. unfold is_free in Hfree_s. cbn [snd] in Hfree_s.
        rewrite Hname in Hfree_s. discriminate. }
      assert (Hres : res_or_default s3 r = rr).
      { unfold res_or_default. change (st_proxies s3) with (st_proxies s). rewrite Hr. reflexivity. }
      rewrite Hres.
      change (st_clusters (bump s3)) with (ainsert name clt (st_clusters s)).
      rewrite alookup_ainsert_same.
      cbn [fst snd st_epoch st_clusters st_proxies bump with_epoch with_clusters with_proxies].
      split; [subst s3; cbn; lia|].
      split; [intros n Hn; rewrite !alookup_ainsert_other by exact Hn; reflexivity|].
      right. exists r, rr. split; [reflexivity|]. split; [exact Hne|]. split; [exact Hr|]. split; [exact Hfree_s|].
      split; [rewrite alookup_ainsert_same; reflexivity|].
      change (st_proxies s3) with (st_proxies s).
      cbn [tag_proxies]. rewrite Hf.
      rewrite (alookup_ainsert_other f r) by exact Hne. rewrite Hr.
      rewrite alookup_ainsert_other by (intros E; apply Hne; symmetry; exact E).
      apply alookup_ainsert_same.
    + cbn [fst snd]. subst s3. cbn [st_epoch st_clusters st_proxies with_failed with_clusters with_epoch].
      split; [lia|]. split; [intros n Hn; apply alookup_ainsert_other; exact Hn|].
      left. split; [apply alookup_ainsert_same|]. split; [reflexivity|]. intros r. discriminate.
    + cbn [fst snd]. subst s3. cbn [st_epoch st_clusters st_proxies with_failed with_clusters with_epoch].
      split; [lia|]. split; [intros n Hn; apply alookup_ainsert_other; exact Hn|].
      left. split; [apply alookup_ainsert_same|]. split; [reflexivity|]. intros r. discriminate.
Qed.
