(* C06, parts 4 and 6 at the level of replace_failed_proxy (update.rs). *)
From UM Require Import Base.BytesDef Model.Ranges Model.Broker Proofs.BrokerBase Proofs.BrokerFailoverStruct
  Proofs.BrokerFailoverTakeover.
From Coq Require Import ZifyBool ZifyNat ZifyN.

(* every migration epoch stored anywhere is at most the global epoch *)
Definition store_epochs_le (s : store) : Prop :=
  forall n cl, alookup n (st_clusters s) = Some cl -> epochs_le (cl_chunks cl) (st_epoch s).

(* roles and migration entries (hence migration epochs) of two clusters agree chunk by chunk *)
Definition same_roles_migs (a b : cluster) : Prop :=
  map ck_role (cl_chunks a) = map ck_role (cl_chunks b)
  /\ forall p, map (fun c => ck_mig c p) (cl_chunks a) = map (fun c => ck_mig c p) (cl_chunks b).

Lemma same_roles_migs_refl a : same_roles_migs a a.
Proof. split; reflexivity. Qed.

Lemma same_roles_migs_chunks a b : cl_chunks a = cl_chunks b -> same_roles_migs a b.
Proof. intros H. unfold same_roles_migs. rewrite H. split; reflexivity. Qed.

Lemma same_roles_migs_trans a b c : same_roles_migs a b -> same_roles_migs b c -> same_roles_migs a c.
Proof. intros [H1 H2] [H3 H4]. split; [congruence|]. intros p. rewrite H2. apply H4. Qed.

(* the replacement loop keeps role, stable slots and migration entries of every chunk *)
Lemma replace_in_chunks_roles chunks f r rr : map ck_role (replace_in_chunks chunks f r rr) = map ck_role chunks.
Proof.
  induction chunks as [|c rest IH]; cbn [replace_in_chunks map]; [reflexivity|].
  destruct (N.eqb (ck_proxy0 c) f); [reflexivity|]. destruct (N.eqb (ck_proxy1 c) f); [reflexivity|].
  cbn [map]. rewrite IH. reflexivity.
Qed.

Lemma replace_in_chunks_migs chunks f r rr p :
  map (fun c => ck_mig c p) (replace_in_chunks chunks f r rr) = map (fun c => ck_mig c p) chunks.
Proof.
  induction chunks as [|c rest IH]; cbn [replace_in_chunks map]; [reflexivity|].
  destruct (N.eqb (ck_proxy0 c) f); [destruct p; reflexivity|].
  destruct (N.eqb (ck_proxy1 c) f); [destruct p; reflexivity|].
  cbn [map]. rewrite IH. reflexivity.
Qed.

Lemma gen_new_free_done s f ch r :
  generate_new_free_proxy s f ch = Done r ->
  exists rr, alookup r (st_proxies s) = Some rr /\ is_free s (r, rr) = true.
Proof.
  unfold generate_new_free_proxy.
  destruct (alookup f (st_proxies s)) as [fr|]; [|discriminate].
  destruct (alookup (pr_host fr) (build_link_table s)) as [peers|]; [|discriminate].
  match goal with |- context [match ?x with [] => _ | _ :: _ => _ end] => destruct x; [discriminate|] end.
  destruct ch as [r0|]; [|discriminate].
  destruct (alookup r0 (st_proxies s)) as [rr|] eqn:Er; [|discriminate].
  destruct (is_free s (r0, rr)) eqn:Ef; cbn [negb]; [|discriminate].
  match goal with |- context [match ?x with Some _ => _ | None => _ end] => destruct x; [|discriminate] end.
  match goal with |- context [if ?x then _ else _] => destruct x; [|discriminate] end.
  intros H. inversion H; subst r0. eauto.
Qed.

(* complete description of replace_failed_proxy when the failed proxy belongs to an existing cluster *)
Lemma replace_cluster_case : forall s f ch fr name cl,
  alookup f (st_proxies s) = Some fr -> pr_cluster fr = Some name -> alookup name (st_clusters s) = Some cl ->
  let clt := takeover_master cl f (st_epoch s + 1) in
  let s' := fst (replace_failed_proxy s f ch) in
  st_epoch s + 1 <= st_epoch s'
  /\ (forall n, n <> name -> alookup n (st_clusters s') = alookup n (st_clusters s))
  /\ ((alookup name (st_clusters s') = Some clt /\ st_proxies s' = st_proxies s
       /\ (forall r, snd (replace_failed_proxy s f ch) <> Done (Some r)))
      \/ (exists r rr, snd (replace_failed_proxy s f ch) = Done (Some r)
            /\ r <> f /\ alookup r (st_proxies s) = Some rr /\ is_free s (r, rr) = true
            /\ alookup name (st_clusters s')
               = Some (mkCluster (st_epoch s') (replace_in_chunks (cl_chunks clt) f r rr) (cl_config clt))
            /\ alookup f (st_proxies s') = Some (set_pr_cluster fr None))).
Proof.
  intros s f ch fr name cl Hf Hname Hcl clt s'. subst s'.
  unfold replace_failed_proxy. rewrite Hf, Hname.
  change (st_clusters (bump s)) with (st_clusters s). rewrite Hcl.
  change (st_epoch (bump s)) with (st_epoch s + 1). fold clt.
  cbn [st_ordered with_clusters bump with_epoch].
  destruct (st_ordered s) eqn:Eord.
  - cbn [fst snd st_epoch st_clusters st_proxies bump with_epoch with_clusters].
    split; [lia|]. split; [intros n Hn; apply alookup_ainsert_other; exact Hn|].
    left. split; [apply alookup_ainsert_same|]. split; [reflexivity|]. intros r. discriminate.
  - match goal with |- context [generate_new_free_proxy ?x f ch] => set (s3 := x) end.
    destruct (generate_new_free_proxy s3 f ch) as [r|e|] eqn:Eg.
    + destruct (gen_new_free_done s3 f ch r Eg) as (rr & Hr & Hfree).
      change (st_proxies s3) with (st_proxies s) in Hr.
      assert (Hfree_s : is_free s (r, rr) = true).
      { unfold is_free in *. cbn [fst snd] in *. destruct (pr_cluster rr); [discriminate|].
        subst s3. cbn [st_failed st_failures with_failed with_clusters] in Hfree.
        rewrite smem_sinsert in Hfree.
        destruct (N.eqb r f); cbn [orb negb andb] in Hfree; [discriminate|]. exact Hfree. }
      assert (Hne : r <> f).
      { intros ->. rewrite Hf in Hr. inversion Hr; subst rr. unfold is_free in Hfree_s. cbn [snd] in Hfree_s.
        rewrite Hname in Hfree_s. discriminate. }
      assert (Hres : res_or_default s3 r = rr).
      { unfold res_or_default. change (st_proxies s3) with (st_proxies s). rewrite Hr. reflexivity. }
      rewrite Hres.
      change (st_clusters (bump s3)) with (ainsert name clt (st_clusters s)).
      rewrite alookup_ainsert_same.
      cbn [fst snd st_epoch st_clusters st_proxies bump with_epoch with_clusters with_proxies].
      split; [subst s3; cbn; lia|].
      split; [intros n Hn; rewrite !alookup_ainsert_other by exact Hn; reflexivity|].
      right. exists r, rr. split; [reflexivity|]. split; [exact Hne|]. split; [exact Hr|]. split; [exact Hfree_s|].
      split; [rewrite alookup_ainsert_same; reflexivity|].
      change (st_proxies s3) with (st_proxies s).
      cbn [tag_proxies]. rewrite Hf.
      rewrite (alookup_ainsert_other f r) by exact Hne. rewrite Hr.
      rewrite alookup_ainsert_other by (intros E; apply Hne; symmetry; exact E).
      apply alookup_ainsert_same.
    + cbn [fst snd]. subst s3. cbn [st_epoch st_clusters st_proxies with_failed with_clusters with_epoch bump].
      split; [lia|]. split; [intros n Hn; apply alookup_ainsert_other; exact Hn|].
      left. split; [apply alookup_ainsert_same|]. split; [reflexivity|]. intros r. discriminate.
    + cbn [fst snd]. subst s3. cbn [st_epoch st_clusters st_proxies with_failed with_clusters with_epoch bump].
      split; [lia|]. split; [intros n Hn; apply alookup_ainsert_other; exact Hn|].
      left. split; [apply alookup_ainsert_same|]. split; [reflexivity|]. intros r. discriminate.
Qed.

(* f is not (consistently) a member of a stored cluster *)
Definition no_cluster_case (s : store) (f : N) : Prop :=
  forall fr name cl, alookup f (st_proxies s) = Some fr -> pr_cluster fr = Some name ->
                     alookup name (st_clusters s) = Some cl -> False.

(* the remaining cases: unknown address, free proxy, dangling cluster name: no cluster changes *)
Lemma replace_cases : forall s f ch,
  (no_cluster_case s f
   /\ st_clusters (fst (replace_failed_proxy s f ch)) = st_clusters s
   /\ st_proxies (fst (replace_failed_proxy s f ch)) = st_proxies s
   /\ st_epoch s <= st_epoch (fst (replace_failed_proxy s f ch))
   /\ (forall r, snd (replace_failed_proxy s f ch) <> Done (Some r)))
  \/ (exists fr name cl, alookup f (st_proxies s) = Some fr /\ pr_cluster fr = Some name
                         /\ alookup name (st_clusters s) = Some cl).
Proof.
  intros s f ch. unfold replace_failed_proxy, no_cluster_case.
  destruct (alookup f (st_proxies s)) as [fr|] eqn:Ef.
  2:{ left. cbn. split; [intros; discriminate|]. repeat split; try lia. intros r; discriminate. }
  destruct (pr_cluster fr) as [name|] eqn:En.
  2:{ left. cbn. split; [intros fr0 name cl H; inversion H; subst; congruence|].
      repeat split; try lia. intros r; discriminate. }
  change (st_clusters (bump s)) with (st_clusters s).
  destruct (alookup name (st_clusters s)) as [cl|] eqn:Ec.
  - right. exists fr, name, cl. auto.
  - left. cbn. split; [intros fr0 name0 cl H H1 H2; inversion H; subst; congruence|].
    repeat split; try lia. intros r; discriminate.
Qed.

Lemma epochs_le_same_migs a b E :
  (forall p, map (fun c => ck_mig c p) a = map (fun c => ck_mig c p) b) -> epochs_le b E -> epochs_le a E.
Proof.
  intros Hm Hb j cj p m Hj Hin.
  assert (H : nth_error (map (fun c => ck_mig c p) b) j = Some (ck_mig cj p)).
  { rewrite <- Hm, nth_error_map, Hj. reflexivity. }
  rewrite nth_error_map in H. destruct (nth_error b j) as [cb|] eqn:Eb; [|discriminate].
  cbn in H. inversion H as [H1]. apply (Hb j cb p m Eb). rewrite H1. exact Hin.
Qed.

Lemma epochs_le_mono chunks E E' : epochs_le chunks E -> E <= E' -> epochs_le chunks E'.
Proof. intros H Hle j cj p m Hj Hm. specialize (H j cj p m Hj Hm). lia. Qed.

(* ---------- 6. the epoch of the re-issued migrations ---------- *)
Lemma replace_reissue_epoch : forall s f ch fr name cl,
  alookup f (st_proxies s) = Some fr -> pr_cluster fr = Some name -> alookup name (st_clusters s) = Some cl ->
  exists cl', alookup name (st_clusters (fst (replace_failed_proxy s f ch))) = Some cl'
    /\ same_roles_migs cl' (takeover_master cl f (st_epoch s + 1))
    /\ st_epoch s + 1 <= st_epoch (fst (replace_failed_proxy s f ch)).
Proof.
  intros s f ch fr name cl Hf Hn Hc.
  destruct (replace_cluster_case s f ch fr name cl Hf Hn Hc) as (He & _ & [(Hl & _)|(r & rr & _ & _ & _ & _ & Hl & _)]).
  - eexists. split; [exact Hl|]. split; [apply same_roles_migs_refl|exact He].
  - eexists. split; [exact Hl|]. split; [|exact He].
    split; cbn [cl_chunks]; [apply replace_in_chunks_roles|intros p; apply replace_in_chunks_migs].
Qed.

Lemma replace_preserves_epochs_le : forall s f ch,
  store_epochs_le s -> store_epochs_le (fst (replace_failed_proxy s f ch)).
Proof.
  intros s f ch Hs.
  destruct (replace_cases s f ch) as [(_ & Hc & _ & He & _)|(fr & name & cl & Hf & Hn & Hcl)].
  - intros n cl Hl. rewrite Hc in Hl. eapply epochs_le_mono; [apply (Hs n cl Hl)|exact He].
  - destruct (replace_cluster_case s f ch fr name cl Hf Hn Hcl) as (He & Hoth & _).
    destruct (replace_reissue_epoch s f ch fr name cl Hf Hn Hcl) as (cl' & Hl' & (_ & Hm) & _).
    intros n cl0 Hl. destruct (N.eq_dec n name) as [->|Hne].
    + rewrite Hl' in Hl. inversion Hl; subst cl0.
      eapply epochs_le_same_migs; [exact Hm|].
      eapply epochs_le_mono; [|exact He].
      apply (takeover_epochs cl f (st_epoch s + 1) (st_epoch s)); [apply (Hs name cl Hcl)|lia].
    + rewrite (Hoth n Hne) in Hl. eapply epochs_le_mono; [apply (Hs n cl0 Hl)|lia].
Qed.

(* ---------- 4. repeated calls ---------- *)
(* after a successful replacement the failed proxy is free: the next call for the same address only marks it failed *)
Lemma replace_again_after_replacement : forall s f ch s' r,
  replace_failed_proxy s f ch = (s', Done (Some r)) ->
  forall ch2, st_clusters (fst (replace_failed_proxy s' f ch2)) = st_clusters s'
              /\ snd (replace_failed_proxy s' f ch2) = Done None.
Proof.
  intros s f ch s' r H ch2.
  destruct (replace_cases s f ch) as [(_ & _ & _ & _ & Hno)|(fr & name & cl & Hf & Hn & Hcl)].
  { exfalso. apply (Hno r). rewrite H. reflexivity. }
  destruct (replace_cluster_case s f ch fr name cl Hf Hn Hcl) as (_ & _ & [(_ & _ & Hno)|(r' & rr & _ & _ & _ & _ & _ & Hfp)]).
  { exfalso. apply (Hno r). rewrite H. reflexivity. }
  rewrite H in Hfp. cbn [fst] in Hfp.
  unfold replace_failed_proxy. rewrite Hfp. cbn. split; reflexivity.
Qed.

(* in general (whatever the first call did; in ordered mode or without a spare proxy the failed proxy stays in the
   cluster): a second call for the same address changes neither roles nor migration entries of any cluster *)
Lemma replace_twice : forall s f ch ch2 n cl',
  alookup n (st_clusters (fst (replace_failed_proxy s f ch))) = Some cl' ->
  exists cl'', alookup n (st_clusters (fst (replace_failed_proxy (fst (replace_failed_proxy s f ch)) f ch2))) = Some cl''
               /\ same_roles_migs cl'' cl'.
Proof.
  intros s f ch ch2 n cl' Hl.
  set (s' := fst (replace_failed_proxy s f ch)) in *.
  destruct (replace_cases s f ch) as [(Hno & Hc & Hp & _)|(fr & name & cl & Hf & Hn & Hcl)].
  - (* the first call changed no cluster and no proxy entry: the second call is in the same case *)
    fold s' in Hc, Hp.
    destruct (replace_cases s' f ch2) as [(_ & Hc2 & _)|(fr2 & name2 & cl2 & Hf2 & Hn2 & Hcl2)].
    + rewrite Hc2. exists cl'. split; [exact Hl|apply same_roles_migs_refl].
    + exfalso. rewrite Hp in Hf2. rewrite Hc in Hcl2. apply (Hno fr2 name2 cl2 Hf2 Hn2 Hcl2).
  - destruct (replace_cluster_case s f ch fr name cl Hf Hn Hcl)
      as (_ & Hoth & [(Hl1 & Hp1 & _)|(r & rr & _ & _ & _ & _ & _ & Hfp)]); fold s' in Hoth.
    + (* the failed proxy is still in the cluster: takeover_master runs again and returns early *)
      fold s' in Hl1, Hp1.
      assert (Hf' : alookup f (st_proxies s') = Some fr) by (rewrite Hp1; exact Hf).
      destruct (replace_cluster_case s' f ch2 fr name _ Hf' Hn Hl1) as (_ & Hoth2 & _).
      destruct (replace_reissue_epoch s' f ch2 fr name _ Hf' Hn Hl1) as (cl'' & Hl'' & Hsame & _).
      destruct (N.eq_dec n name) as [->|Hne].
      * rewrite Hl1 in Hl. inversion Hl; subst cl'. exists cl''. split; [exact Hl''|].
        eapply same_roles_migs_trans; [exact Hsame|]. apply same_roles_migs_chunks.
        apply takeover_idempotent_chunks.
      * exists cl'. split; [rewrite (Hoth2 n Hne); exact Hl|apply same_roles_migs_refl].
    + (* replaced: the failed proxy is free now *)
      fold s' in Hfp. exists cl'. split; [|apply same_roles_migs_refl].
      unfold replace_failed_proxy. rewrite Hfp. cbn. exact Hl.
Qed.
