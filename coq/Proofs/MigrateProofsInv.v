(* The invariant over program counters of the migration model and its preservation (property C03). *)
From UM Require Import Base.BytesDef Base.RespT Model.Ttl Model.Migrate Proofs.TtlProofs Proofs.MigrateProofsBase.

(* the source copy is frozen (only deletions) once the source observed blocking-done *)
Definition frozen (g : glob) : bool := negb (sph_le_blocking (sph g)).
Definition rttl (e : option entry) : option bytes := option_map (fun x => ttl_restore (snd x)) e.
Definition pttl_of (e : option entry) : option bytes := option_map snd e.
Definition sph_ge_final (p : sphase) : bool :=
  match p with SFinalSwitch | SSwitchCommitted => true | _ => false end.

(* ---------- classifiers of an operation's state ---------- *)
Definition is_delete (o : opst) : bool := match ckind (ocmd o) with KDelete => true | _ => false end.
Definition cl_lock (o : opst) : bool := match ocl o with CLock => true | _ => false end.
Definition cl_pending (o : opst) : bool := match ocl o with CLock | CDel => true | _ => false end.
Definition cl_started (o : opst) : bool := match ocl o with CNone => false | _ => true end.
Definition post_pc (p : pc) : bool := match p with PFwd | PDone _ | PReplied _ => true | _ => false end.
Definition pc_klock (p : pc) : bool :=
  match p with
  | PDumpSent | PDumpGot _ | PRestoreSent _ _ | PUmsyncSent | PSyncQueued | PFastLocked | PFastPttl _
  | PFastRestore _ _ | PFastDel | PSlowPttl _ | PSlowRestore _ _ | PSlowDel | PUmsyncReplied => true
  | _ => false
  end.
Definition needs_klock (o : opst) : bool := pc_klock (opc o) || cl_lock o.
Definition needs_slock (o : opst) : bool :=
  match opc o with PFastLocked | PFastPttl _ | PFastRestore _ _ | PFastDel => true | _ => false end.
Definition in_pull (o : opst) : bool :=
  match opc o with PExistsSent | PExistsNo | PDumpSent | PDumpGot _ | PRestoreSent _ _ => true | _ => false end.
Definition in_handler (o : opst) : bool :=
  match opc o with PAtSrc | PSrcQueued | PSrcHanded | PAtDst | PDone _ | PReplied _ => false | _ => true end
  || cl_pending o.
Definition held (o : opst) : option (bytes * bytes) :=
  match opc o with PRestoreSent raw t | PFastRestore raw t | PSlowRestore raw t => Some (raw, t) | _ => None end.
Definition half_dump (o : opst) : option bytes :=
  match opc o with PDumpGot (Bulk raw) => Some raw | _ => None end.
Definition half_pttl (o : opst) : option bytes :=
  match opc o with
  | PFastPttl (Integer t) | PSlowPttl (Integer t) => if bytes_eqb t PTTL_KEY_NOT_FOUND then None else Some t
  | _ => None
  end.
Definition saw_none (o : opst) : bool :=
  match opc o with
  | PDumpGot BulkNil => true
  | PFastPttl (Integer t) | PSlowPttl (Integer t) => bytes_eqb t PTTL_KEY_NOT_FOUND
  | PUmsyncReplied => true
  | PFwd => is_delete o
  | _ => false
  end.
Definition del_pending (o : opst) : bool :=
  cl_pending o || match opc o with PFastDel | PSlowDel => true | _ => false end.
Definition at_fwd (o : opst) : bool := match opc o with PFwd => true | _ => false end.
Definition ready_del (o : opst) : bool :=
  is_delete o && match opc o with PUmsyncReplied | PFwd => true | _ => false end.
Definition scan_holder (s : scanpos) : bool := scan_holding s.

(* ---------- the invariant ---------- *)
Record Wf (o : opst) : Prop := {
  w_class : classified_cmd (ocmd o) = true;
  w_pull : in_pull o = true -> cpush (ocmd o) = false;
  w_cl : cl_started o = true -> post_pc (opc o) = true }.

Record Loc (g : glob) (i : nat) (o : opst) : Prop := {
  l_klock : needs_klock o = true -> klock g = Some i;
  l_slock : needs_slock o = true -> slock g = Some (HOp i);
  l_slow : in_slow (opc o) = true -> visiting (scan g) = false;
  l_frozen : in_handler o = true -> frozen g = true;
  l_held : forall raw t, held o = Some (raw, t) ->
           committed g = false /\ (dst g = None -> val (src g) = Some raw /\ rttl (src g) = Some t);
  l_hdump : forall raw, half_dump o = Some raw -> is_none (src g) = false -> dst g = None -> val (src g) = Some raw;
  l_hpttl : forall t, half_pttl o = Some t -> is_none (src g) = false -> dst g = None -> pttl_of (src g) = Some t;
  l_none : saw_none o = true -> src g = None;
  l_delp : del_pending o = true -> is_none (src g) = false -> is_none (dst g) = false;
  l_fwd : at_fwd o = true -> dst g = None -> src g = None }.

Record Glob (g : glob) : Prop := {
  g_wf : forall raw t, src g = Some (raw, t) -> bytes_eqb t PTTL_KEY_NOT_FOUND = false;
  g_serving : dph_serving (dph g) = true -> frozen g = true;
  g_dst0 : frozen g = false -> dst g = None;
  g_scanph : is_before (scan g) = false -> sph_lt_scanning (sph g) = false;
  g_visit : visiting (scan g) = true -> slock g = Some HScan /\ sph g = SScanning;
  g_final : sph_ge_final (sph g) = true -> scan g = SPassed;
  g_commit : committed g = true -> sph g = SSwitchCommitted;
  g_spttl : forall t, scan g = SPttl (Integer t) ->
            if bytes_eqb t PTTL_KEY_NOT_FOUND then src g = None
            else (is_none (src g) = false -> dst g = None -> pttl_of (src g) = Some t);
  g_srestore : forall raw t, scan g = SRestore raw t -> dst g = None -> val (src g) = Some raw /\ rttl (src g) = Some t;
  g_sdel : scan g = SDel -> is_none (src g) = false -> is_none (dst g) = false;
  g_spassed : scan g = SPassed -> src g = None }.

Record Inv (s : state) : Prop := {
  i_glob : Glob (gl s);
  i_wf : forall i o, nth_error (ops s) i = Some o -> Wf o;
  i_loc : forall i o, nth_error (ops s) i = Some o -> Loc (gl s) i o;
  i_pair : forall i j oi oj, nth_error (ops s) i = Some oi -> nth_error (ops s) j = Some oj ->
           ready_del oi = true -> holder (opc oj) = false;
  i_pscan : forall i oi, nth_error (ops s) i = Some oi -> ready_del oi = true -> scan_holder (scan (gl s)) = false }.

(* ---------- classifier facts ---------- *)
Lemma held_handler : forall o x, held o = Some x -> in_handler o = true.
Proof. intros o x. unfold held, in_handler. destruct (opc o); cbn; congruence. Qed.
Lemma held_holder : forall o, holder (opc o) = true <-> held o <> None.
Proof. intros o. unfold held. destruct (opc o); cbn; split; congruence. Qed.
Lemma holder_klock : forall o, holder (opc o) = true -> needs_klock o = true.
Proof. intros o. unfold needs_klock. destruct (opc o); cbn; congruence. Qed.
Lemma hdump_handler : forall o x, half_dump o = Some x -> in_handler o = true.
Proof. intros o x. unfold half_dump, in_handler. destruct (opc o); cbn; congruence. Qed.
Lemma hpttl_handler : forall o x, half_pttl o = Some x -> in_handler o = true.
Proof. intros o x. unfold half_pttl, in_handler. destruct (opc o); cbn; congruence. Qed.
Lemma none_handler : forall o, saw_none o = true -> in_handler o = true.
Proof. intros o. unfold saw_none, in_handler. destruct (opc o); cbn; congruence. Qed.
Lemma delp_handler : forall o, Wf o -> del_pending o = true -> in_handler o = true.
Proof.
  intros o W. unfold del_pending, in_handler. destruct (cl_pending o); destruct (opc o); cbn; congruence.
Qed.
Lemma fwd_handler : forall o, at_fwd o = true -> in_handler o = true.
Proof. intros o. unfold at_fwd, in_handler. destruct (opc o); cbn; congruence. Qed.
Lemma ready_none : forall o, ready_del o = true -> saw_none o = true.
Proof.
  intros o. unfold ready_del, saw_none. destruct (is_delete o); cbn; [|congruence]. destruct (opc o); cbn; congruence.
Qed.
Lemma ready_not_holder : forall o, ready_del o = true -> holder (opc o) = false.
Proof. intros o. unfold ready_del. destruct (opc o); cbn; auto; rewrite andb_false_r; congruence. Qed.

Lemma no_slow_nth : forall l i o, no_slow l = true -> nth_error l i = Some o -> in_slow (opc o) = false.
Proof.
  intros l i o H Hn. unfold no_slow in H. eapply forallb_nth in H; eauto. cbn in H. apply negb_true_iff in H. exact H.
Qed.
Lemma no_holder_nth : forall l i o, no_holder l = true -> nth_error l i = Some o -> holder (opc o) = false.
Proof.
  intros l i o H Hn. unfold no_holder in H. eapply forallb_nth in H; eauto. cbn in H. apply negb_true_iff in H. exact H.
Qed.

Lemma is_none_false : forall A (x : option A), is_none x = false <-> x <> None.
Proof. intros A [a|]; cbn; split; congruence. Qed.
Lemma is_none_true : forall A (x : option A), is_none x = true <-> x = None.
Proof. intros A [a|]; cbn; split; congruence. Qed.

Ltac simp_g :=
  unfold frozen in *;
  cbn [src dst sph dph committed klock slock scan
       set_src set_dst set_sph set_dph set_committed set_klock set_slock set_scan] in *.

(* ---------- initial state ---------- *)
Lemma inv_init : forall s0, (forall raw t, s0 = Some (raw, t) -> bytes_eqb t PTTL_KEY_NOT_FOUND = false) -> Inv (init s0).
Proof.
  intros s0 H. constructor; cbn.
  - constructor; cbn; auto; try congruence; try discriminate; try (intros; split; congruence).
  - intros [|i] o; cbn; discriminate.
  - intros [|i] o; cbn; discriminate.
  - intros [|i] j oi oj; cbn; discriminate.
  - intros [|i] oi; cbn; discriminate.
Qed.

(* ---------- generic update lemmas ---------- *)
(* an operation step: op i moves from o to o', the globals from (gl s) to g' *)
Lemma inv_upd : forall s i o g' o',
  Inv s -> nth_error (ops s) i = Some o ->
  Glob g' -> Wf o' -> Loc g' i o' ->
  (forall j oj, j <> i -> nth_error (ops s) j = Some oj -> Wf oj -> Loc (gl s) j oj -> Loc g' j oj) ->
  (ready_del o' = true -> ready_del o = false ->
     (forall j oj, j <> i -> nth_error (ops s) j = Some oj -> holder (opc oj) = false) /\ scan_holder (scan g') = false) ->
  (holder (opc o') = true -> holder (opc o) = false ->
     forall j oj, j <> i -> nth_error (ops s) j = Some oj -> ready_del oj = false) ->
  (scan_holder (scan g') = true -> scan_holder (scan (gl s)) = true) ->
  Inv (mkState g' (upd i o' (ops s))).
Proof.
  intros s i o g' o' I Hn G W Lo Fr Rd Hd Sc. destruct I as [IG IW IL IP IS].
  constructor; cbn [gl ops].
  - exact G.
  - intros j oj Hj. apply nth_error_upd_inv in Hj. destruct Hj as [(-> & -> & _)|(N & Hj)]; eauto.
  - intros j oj Hj. apply nth_error_upd_inv in Hj. destruct Hj as [(-> & -> & _)|(N & Hj)]; eauto.
  - intros a b oa ob Ha Hb Hr.
    apply nth_error_upd_inv in Ha. apply nth_error_upd_inv in Hb.
    destruct Ha as [(-> & -> & _)|(Na & Ha)]; destruct Hb as [(-> & -> & _)|(Nb & Hb)].
    + apply ready_not_holder; auto.
    + destruct (ready_del o) eqn:E.
      * exact (IP _ _ _ _ Hn Hb E).
      * exact (proj1 (Rd Hr eq_refl) _ _ Nb Hb).
    + destruct (holder (opc o')) eqn:E; auto. destruct (holder (opc o)) eqn:E2.
      * rewrite <- E2. exact (IP _ _ _ _ Ha Hn Hr).
      * rewrite (Hd eq_refl eq_refl _ _ Na Ha) in Hr. discriminate.
    + exact (IP _ _ _ _ Ha Hb Hr).
  - intros a oa Ha Hr. apply nth_error_upd_inv in Ha. destruct Ha as [(-> & -> & _)|(Na & Ha)].
    + destruct (ready_del o) eqn:E.
      * destruct (scan_holder (scan g')) eqn:E2; auto. pose proof (Sc eq_refl) as E3. rewrite (IS _ _ Hn E) in E3. discriminate.
      * apply (proj2 (Rd Hr eq_refl)).
    + destruct (scan_holder (scan g')) eqn:E2; auto. pose proof (Sc eq_refl) as E3. rewrite (IS _ _ Ha Hr) in E3. discriminate.
Qed.

(* a scanner / handshake step: only the globals change *)
Lemma inv_glob : forall s g',
  Inv s -> Glob g' ->
  (forall j oj, nth_error (ops s) j = Some oj -> Wf oj -> Loc (gl s) j oj -> Loc g' j oj) ->
  (scan_holder (scan g') = true -> scan_holder (scan (gl s)) = false ->
     forall j oj, nth_error (ops s) j = Some oj -> ready_del oj = false) ->
  Inv (mkState g' (ops s)).
Proof.
  intros s g' I G Fr Sc. destruct I as [IG IW IL IP IS]. constructor; cbn [gl ops]; eauto.
  intros a oa Ha Hr. destruct (scan_holder (scan g')) eqn:E; auto.
  pose proof (IS _ _ Ha Hr) as E2.
  rewrite (Sc eq_refl E2 _ _ Ha) in Hr. discriminate.
Qed.
