(* C12: a failed proxy is replaced by one on a host different from its surviving partner whenever some other host has a free
   healthy proxy. *)
From UM Require Import Base.BytesDef Model.Ranges Model.Broker Proofs.BrokerBase Proofs.BrokerAcctBase Proofs.BrokerAcctAlloc
     Proofs.BrokerAcctInv Proofs.BrokerAcctOps Proofs.BrokerAcctLink.
From Coq Require Import ZifyBool ZifyNat ZifyN.

(* ---------- the rank comparison inside generate_new_free_proxy ---------- *)
(* h is a candidate host of generate_new_free_proxy s f: it has a free healthy proxy and is linked to f's host or is f's host *)
Definition repl_candidate (s : store) (fh h : N) : Prop :=
  amem h (host_counts (free_proxies s)) = true /\ (has (build_link_table s) fh h \/ h = fh).

Lemma host_rank_other ph fh h : h <> ph -> host_rank (Some ph) fh h <= 1.
Proof. intros H. unfold host_rank. apply N.eqb_neq in H. rewrite H. destruct (N.eqb h fh); lia. Qed.

Lemma gnfp_host s f choice r fr ph h :
  generate_new_free_proxy s f choice = Done r ->
  alookup f (st_proxies s) = Some fr ->
  partner_host (st_clusters s) f = Some ph ->
  h <> ph -> repl_candidate s (pr_host fr) h ->
  exists rr, alookup r (st_proxies s) = Some rr /\ is_free s (r, rr) = true /\ pr_host rr <> ph.
Proof.
  unfold generate_new_free_proxy. intros H Lf Hph Hne [Hc Hl]. rewrite Lf, Hph in H.
  destruct (alookup (pr_host fr) (build_link_table s)) as [peers|] eqn:Lp; [|discriminate].
  set (cnts := host_counts (free_proxies s)) in *.
  set (F := fun e : N * N => match alookup (fst e) peers with
                             | Some c => [(fst e, c)]
                             | None => if N.eqb (fst e) (pr_host fr) then [(fst e, 0)] else []
                             end) in *.
  assert (Hcand : exists c, In (h, c) (flat_map F cnts)).
  { apply amem_alookup in Hc. destruct Hc as (n & Ln). apply alookup_In in Ln.
    assert (G : exists c, In (h, c) (F (h, n))).
    { unfold F. cbn [fst]. destruct (alookup h peers) as [c|] eqn:E; [exists c; left; reflexivity|].
      destruct Hl as [Hl| ->]; [|rewrite N.eqb_refl; exists 0; left; reflexivity].
      exfalso. unfold has, lt_get in Hl. rewrite Lp in Hl. contradiction. }
    destruct G as (c & G). exists c. apply in_flat_map. eauto. }
  destruct (flat_map F cnts) as [|c0 cr] eqn:Ef; [destruct Hcand as (? & [])|]. rewrite <- Ef in *.
  destruct choice as [r0|]; [|discriminate].
  destruct (alookup r0 (st_proxies s)) as [rr|] eqn:Lr; [|discriminate].
  destruct (negb (is_free s (r0, rr))) eqn:Fr; [discriminate|].
  destruct (alookup (pr_host rr) (flat_map F cnts)) as [c|]; [|discriminate].
  match type of H with (if forallb ?P _ then _ else _) = _ => destruct (forallb P (flat_map F cnts)) eqn:Hall; [|discriminate] end.
  inversion H; subst r0. exists rr. split; [exact Lr|]. split; [apply negb_false_iff in Fr; exact Fr|].
  destruct Hcand as (c' & Hin). rewrite forallb_forall in Hall. specialize (Hall _ Hin). cbn [fst snd] in Hall.
  pose proof (host_rank_other ph (pr_host fr) h Hne) as Hr.
  intros Eh. assert (Hrk : host_rank (Some ph) (pr_host fr) (pr_host rr) = 2).
  { unfold host_rank. rewrite Eh, N.eqb_refl. reflexivity. }
  rewrite Hrk in Hall.
  destruct (N.ltb 2 (host_rank (Some ph) (pr_host fr) h)) eqn:E1; [lia|].
  destruct (N.ltb (host_rank (Some ph) (pr_host fr) h) 2) eqn:E2; [discriminate|lia].
Qed.

(* ---------- the store on which replace_failed_proxy runs generate_new_free_proxy ---------- *)
Definition all_skels (cs : list (N * cluster)) : list skel := flat_map (fun nc => cl_skel (snd nc)) cs.

Lemma all_skels_ainsert cs name cl cl' :
  keys_sorted cs -> alookup name cs = Some cl -> cl_skel cl' = cl_skel cl -> all_skels (ainsert name cl' cs) = all_skels cs.
Proof.
  unfold all_skels. induction cs as [|[k v] l IH]; cbn [alookup ainsert keys_sorted]; [discriminate|].
  intros [Hlt Hs]. destruct (N.eqb name k) eqn:E.
  - intros H Hsk. inversion H; subst v. cbn [flat_map snd]. rewrite Hsk. reflexivity.
  - intros H Hsk. destruct (N.ltb name k) eqn:E2.
    + exfalso. apply alookup_In in H. specialize (Hlt _ _ H). lia.
    + cbn [flat_map snd]. rewrite (IH Hs H Hsk). reflexivity.
Qed.

Definition link_sk (t : ltable) (k : skel) : ltable :=
  let '(_, _, h0, h1, _, _, _, _) := k in lt_add (lt_add t h0 h1 1) h1 h0 1.

Lemma link_fold_skel cs : forall t,
  fold_left (fun t (nc : N * cluster) =>
    fold_left (fun t ck => lt_add (lt_add t (ck_host0 ck) (ck_host1 ck) 1) (ck_host1 ck) (ck_host0 ck) 1)
              (cl_chunks (snd nc)) t) cs t
  = fold_left link_sk (all_skels cs) t.
Proof.
  unfold all_skels. induction cs as [|nc l IH]; intros t; cbn [fold_left flat_map]; [reflexivity|].
  rewrite fold_left_app, IH. f_equal. unfold cl_skel. generalize t. clear.
  induction (cl_chunks (snd nc)) as [|c l IH]; intros t; cbn [fold_left map]; [reflexivity|]. rewrite IH. reflexivity.
Qed.

Fixpoint partner_sk (l : list skel) (f : N) : option N :=
  match l with
  | [] => None
  | (p0, p1, h0, h1, _, _, _, _) :: rest => if N.eqb p0 f then Some h1 else if N.eqb p1 f then Some h0 else partner_sk rest f
  end.

Lemma partner_sk_app l1 l2 f : partner_sk (l1 ++ l2) f = match partner_sk l1 f with Some h => Some h | None => partner_sk l2 f end.
Proof.
  induction l1 as [|[[[[[[[p0 p1] h0] h1] ?] ?] ?] ?] l IH]; cbn [app partner_sk]; [reflexivity|].
  destruct (N.eqb p0 f); [reflexivity|]. destruct (N.eqb p1 f); [reflexivity|]. exact IH.
Qed.

Lemma partner_host_chunks_sk chunks f : partner_host_chunks chunks f = partner_sk (map ck_skel chunks) f.
Proof.
  induction chunks as [|c l IH]; cbn [partner_host_chunks map partner_sk ck_skel]; [reflexivity|].
  destruct (N.eqb (ck_proxy0 c) f); [reflexivity|]. destruct (N.eqb (ck_proxy1 c) f); [reflexivity|]. exact IH.
Qed.

Lemma partner_host_sk cs f : partner_host cs f = partner_sk (all_skels cs) f.
Proof.
  unfold all_skels. induction cs as [|nc l IH]; cbn [partner_host flat_map]; [reflexivity|].
  rewrite partner_sk_app, <- IH. unfold cl_skel. rewrite <- partner_host_chunks_sk. reflexivity.
Qed.

(* what partner_host returns: the recorded host of the other half of a stored chunk that holds f *)
Lemma partner_host_sound cs f ph :
  partner_host cs f = Some ph ->
  exists n cl c, In (n, cl) cs /\ In c (cl_chunks cl) /\
                 ((ck_proxy0 c = f /\ ph = ck_host1 c) \/ (ck_proxy1 c = f /\ ph = ck_host0 c)).
Proof.
  induction cs as [|[n cl] l IH]; cbn [partner_host snd]; [discriminate|].
  destruct (partner_host_chunks (cl_chunks cl) f) as [h|] eqn:E.
  - intros H. inversion H; subst h. clear H. exists n, cl.
    assert (G : exists c, In c (cl_chunks cl) /\ ((ck_proxy0 c = f /\ ph = ck_host1 c) \/ (ck_proxy1 c = f /\ ph = ck_host0 c))).
    { revert E. induction (cl_chunks cl) as [|c l' IH']; cbn [partner_host_chunks]; [discriminate|].
      destruct (N.eqb (ck_proxy0 c) f) eqn:E0.
      - intros H. inversion H. apply N.eqb_eq in E0. exists c. split; [left; reflexivity|left; auto].
      - destruct (N.eqb (ck_proxy1 c) f) eqn:E1.
        + intros H. inversion H. apply N.eqb_eq in E1. exists c. split; [left; reflexivity|right; auto].
        + intros H. destruct (IH' H) as (c' & Hc & Hp). exists c'. split; [right; exact Hc|exact Hp]. }
    destruct G as (c & Hc & Hp). exists c. split; [left; reflexivity|]. split; assumption.
  - intros H. destruct (IH H) as (n' & cl' & c & H1 & H2 & H3). exists n', cl', c. split; [right; exact H1|]. split; assumption.
Qed.

Lemma build_link_table_same s s' :
  st_proxies s' = st_proxies s -> all_skels (st_clusters s') = all_skels (st_clusters s) ->
  build_link_table s' = build_link_table s.
Proof.
  intros Hp Hc. rewrite !build_link_table_unfold, !link_fold_skel, Hc.
  unfold all_hosts, free_hosts. rewrite Hp. reflexivity.
Qed.

Lemma free_proxies_mark_failed s s' f fr name :
  keys_sorted (st_proxies s) -> alookup f (st_proxies s) = Some fr -> pr_cluster fr = Some name ->
  st_proxies s' = st_proxies s -> st_failures s' = st_failures s ->
  (forall a, smem a (st_failed s') = N.eqb a f || smem a (st_failed s)) ->
  free_proxies s' = free_proxies s /\ (forall a r, a <> f -> is_free s' (a, r) = is_free s (a, r)).
Proof.
  intros Hs Lf Cf Hp Hfl Hfd.
  assert (G : forall a r, a <> f -> is_free s' (a, r) = is_free s (a, r)).
  { intros a r Hne. unfold is_free. cbn [fst snd]. rewrite Hfl, Hfd. apply N.eqb_neq in Hne. rewrite Hne. reflexivity. }
  split; [|exact G]. unfold free_proxies. rewrite Hp. apply filter_ext_in. intros [a r] Hin.
  destruct (N.eq_dec a f) as [->|Hne]; [|apply G; exact Hne].
  apply In_alookup_sorted in Hin; [|exact Hs]. rewrite Lf in Hin. inversion Hin; subst r.
  unfold is_free. cbn [snd]. rewrite Cf. reflexivity.
Qed.

(* ---------- the theorem on the pre-state of replace_failed_proxy ---------- *)
Lemma replacement_host s f ch s' r :
  acct_inv s ->
  replace_failed_proxy s f ch = (s', Done (Some r)) ->
  exists fr name rr,
    alookup f (st_proxies s) = Some fr /\ pr_cluster fr = Some name /\ st_ordered s = false /\
    alookup r (st_proxies s) = Some rr /\ is_free s (r, rr) = true /\ r <> f /\
    forall ph, partner_host (st_clusters s) f = Some ph ->
               (exists h, h <> ph /\ 0 < cnt_of (host_counts (free_proxies s)) h) ->
               pr_host rr <> ph.
Proof.
  intros Hinv. unfold replace_failed_proxy.
  destruct (alookup f (st_proxies s)) as [fr|] eqn:Lf; [|discriminate].
  destruct (pr_cluster fr) as [name|] eqn:Cf; [|intros H; inversion H].
  set (s1 := bump s).
  destruct (alookup name (st_clusters s1)) as [cl|] eqn:L; [|discriminate].
  set (s2 := with_clusters s1 _).
  destruct (st_ordered s2) eqn:Ho; [intros H; inversion H|].
  set (s3 := with_failed s2 _).
  destruct (generate_new_free_proxy s3 f ch) as [r0|?|] eqn:G; [|discriminate|discriminate].
  destruct (alookup name (st_clusters (bump s3))) as [cl2|]; [|discriminate].
  intros H. inversion H; subst r0. clear H.
  destruct Hinv as (Hps & Hcs & Hok & Hback).
  (* s3 and s agree on everything generate_new_free_proxy reads *)
  assert (Hsk : all_skels (st_clusters s3) = all_skels (st_clusters s)).
  { unfold s3, s2. cbn [with_failed with_clusters st_clusters]. eapply all_skels_ainsert; [exact Hcs|exact L|apply takeover_master_skel]. }
  assert (Hlt : build_link_table s3 = build_link_table s) by (apply build_link_table_same; [reflexivity|exact Hsk]).
  assert (Hph : partner_host (st_clusters s3) f = partner_host (st_clusters s) f) by (rewrite !partner_host_sk, Hsk; reflexivity).
  destruct (free_proxies_mark_failed s s3 f fr name Hps Lf Cf eq_refl eq_refl) as [Hfp Hfree].
  { intros a. unfold s3. cbn [with_failed st_failed]. apply smem_sinsert. }
  exists fr, name.
  destruct (generate_new_free_proxy_done _ _ _ _ G) as (rr & Lr & Fr).
  assert (Hrf : r <> f).
  { intros ->. change (st_proxies s3) with (st_proxies s) in Lr. rewrite Lf in Lr. inversion Lr; subst rr.
    apply is_free_untagged in Fr. congruence. }
  exists rr. split; [reflexivity|]. split; [exact Cf|]. split; [exact Ho|]. split; [exact Lr|].
  split; [rewrite <- (Hfree r rr Hrf); exact Fr|]. split; [exact Hrf|].
  intros ph Hp (h & Hne & Hpos).
  assert (Hcand : repl_candidate s3 (pr_host fr) h).
  { unfold repl_candidate. rewrite Hfp, Hlt. split; [apply cnt_pos_amem; exact Hpos|].
    destruct (N.eq_dec h (pr_host fr)) as [->|Hhf]; [right; reflexivity|left].
    destruct (host_counts_key _ _ (cnt_pos_amem _ _ Hpos)) as ([a x] & Hin & Hh). cbn [snd] in Hh.
    unfold free_proxies in Hin. apply filter_In in Hin. destruct Hin as [Hin Hf]. apply is_free_untagged in Hf.
    apply link_entry.
    - apply (all_hosts_In s f fr). apply alookup_In. exact Lf.
    - rewrite <- Hh. apply (all_hosts_In s a x Hin).
    - congruence.
    - right. rewrite <- Hh. apply (free_hosts_In s a x Hin Hf). }
  destruct (gnfp_host s3 f ch r fr ph h G Lf) as (rr' & Lr' & _ & Hres); [rewrite Hph; exact Hp|exact Hne|exact Hcand|].
  rewrite Lr in Lr'. inversion Lr'; subst rr'. exact Hres.
Qed.

(* ---------- replace_failed_proxy never panics on a store satisfying the invariant ---------- *)
Lemma gnfp_panic s f ch fr :
  alookup f (st_proxies s) = Some fr -> generate_new_free_proxy s f ch = Panic ->
  alookup (pr_host fr) (build_link_table s) = None.
Proof.
  unfold generate_new_free_proxy. intros Lf. rewrite Lf.
  destruct (alookup (pr_host fr) (build_link_table s)) as [peers|]; [|reflexivity].
  destruct (flat_map _ _) as [|c0 cr]; [discriminate|].
  destruct ch as [r|]; [|discriminate].
  destruct (alookup r (st_proxies s)) as [rr|]; [|discriminate].
  destruct (negb _); [discriminate|]. destruct (alookup (pr_host rr) (c0 :: cr)); [|discriminate].
  destruct (forallb _ _); discriminate.
Qed.

Lemma replace_failed_proxy_no_panic s f ch : acct_inv s -> snd (replace_failed_proxy s f ch) <> Panic.
Proof.
  intros Hinv. unfold replace_failed_proxy.
  destruct (alookup f (st_proxies s)) as [fr|] eqn:Lf; [|discriminate].
  destruct (pr_cluster fr) as [name|] eqn:Cf; [|discriminate].
  set (s1 := bump s).
  destruct (alookup name (st_clusters s1)) as [cl|] eqn:L; [|discriminate].
  set (s2 := with_clusters s1 _).
  destruct (st_ordered s2) eqn:Ho; [discriminate|].
  set (s3 := with_failed s2 _).
  destruct (generate_new_free_proxy s3 f ch) as [r0|?|] eqn:G; [|discriminate|].
  - assert (Hl : alookup name (st_clusters (bump s3)) = Some (takeover_master cl f (st_epoch s1))) by apply alookup_ainsert_same.
    rewrite Hl. discriminate.
  - exfalso. destruct Hinv as (Hps & Hcs & Hok & Hback).
    assert (Hsk : all_skels (st_clusters s3) = all_skels (st_clusters s)).
    { unfold s3, s2. cbn [with_failed with_clusters st_clusters]. eapply all_skels_ainsert; [exact Hcs|exact L|apply takeover_master_skel]. }
    assert (Hlt : build_link_table s3 = build_link_table s) by (apply build_link_table_same; [reflexivity|exact Hsk]).
    apply (gnfp_panic s3 f ch fr Lf) in G. rewrite Hlt in G.
    destruct (Hback _ _ _ Lf Cf) as (cl0 & L0 & Hin). unfold cluster_proxies in Hin. apply in_flat_map in Hin.
    destruct Hin as (c & Hc & Hfc).
    destruct (Hok _ _ L0) as [HF _]. rewrite Forall_forall in HF. destruct (HF _ Hc) as [(r0 & A0 & _ & B0 & _) (r1 & A1 & _ & B1 & _)].
    destruct (link_entry_chunk s name cl0 c (alookup_In _ _ _ L0) Hc) as [K0 K1].
    cbn [chunk_proxies In] in Hfc. destruct Hfc as [E|[E|[]]]; rewrite E in *.
    + rewrite Lf in A0. inversion A0; subst r0. rewrite B0 in G. apply has_lookup in K0. destruct K0 as (? & ? & K0 & _). congruence.
    + rewrite Lf in A1. inversion A1; subst r1. rewrite B1 in G. apply has_lookup in K1. destruct K1 as (? & ? & K1 & _). congruence.
Qed.

(* ---------- partner_host finds THE chunk that holds f (positions are unique under the invariant) ---------- *)
Lemma partner_host_chunks_none chunks f :
  ~ In f (flat_map chunk_proxies chunks) -> partner_host_chunks chunks f = None.
Proof.
  induction chunks as [|c l IH]; cbn [partner_host_chunks flat_map chunk_proxies app In]; [reflexivity|].
  intros H. destruct (N.eqb (ck_proxy0 c) f) eqn:E0; [apply N.eqb_eq in E0; tauto|].
  destruct (N.eqb (ck_proxy1 c) f) eqn:E1; [apply N.eqb_eq in E1; tauto|]. apply IH. tauto.
Qed.

Lemma partner_host_chunks_complete chunks f c ph :
  NoDup (flat_map chunk_proxies chunks) -> In c chunks ->
  ((ck_proxy0 c = f /\ ph = ck_host1 c) \/ (ck_proxy1 c = f /\ ph = ck_host0 c)) ->
  partner_host_chunks chunks f = Some ph.
Proof.
  induction chunks as [|c0 l IH]; cbn [partner_host_chunks flat_map chunk_proxies app In]; [tauto|].
  intros Hnd Hin Hp.
  apply NoDup_cons_iff in Hnd. destruct Hnd as [Hn0 Hnd]. apply NoDup_cons_iff in Hnd. destruct Hnd as [Hn1 Hnd].
  cbn [In] in Hn0.
  assert (Hfc : In c l -> In f (flat_map chunk_proxies l)).
  { intros Hc. apply in_flat_map. exists c. split; [exact Hc|]. cbn. destruct Hp as [[<- _]|[<- _]]; auto. }
  destruct Hin as [->|Hin].
  - destruct Hp as [[E0 ->]|[E1 ->]].
    + rewrite E0, N.eqb_refl. reflexivity.
    + assert (N.eqb (ck_proxy0 c) f = false) by (apply N.eqb_neq; intros E; apply Hn0; left; congruence).
      rewrite H, E1, N.eqb_refl. reflexivity.
  - specialize (Hfc Hin).
    destruct (N.eqb (ck_proxy0 c0) f) eqn:E0; [apply N.eqb_eq in E0; exfalso; apply Hn0; right; congruence|].
    destruct (N.eqb (ck_proxy1 c0) f) eqn:E1; [apply N.eqb_eq in E1; exfalso; apply Hn1; congruence|].
    apply IH; assumption.
Qed.

Lemma partner_host_complete ps cs f n cl c ph :
  acct ps cs -> alookup n cs = Some cl -> In c (cl_chunks cl) ->
  ((ck_proxy0 c = f /\ ph = ck_host1 c) \/ (ck_proxy1 c = f /\ ph = ck_host0 c)) ->
  partner_host cs f = Some ph.
Proof.
  intros (Hps & Hcs & Hok & Hback) L Hc Hp.
  assert (Hf : In f (cluster_proxies cl)).
  { unfold cluster_proxies. apply in_flat_map. exists c. split; [exact Hc|]. cbn. destruct Hp as [[<- _]|[<- _]]; auto. }
  destruct (in_cluster_tagged ps n cl f (Hok _ _ L) Hf) as (fr & Lf & Cf).
  assert (Hsub : forall k v, In (k, v) cs -> alookup k cs = Some v) by (intros; apply In_alookup_sorted; auto).
  apply alookup_In in L. revert L Hsub. generalize cs at 1 2 4 as l.
  induction l as [|[k v] l IH]; intros L Hsub; [destruct L|]. cbn [partner_host snd].
  destruct (N.eq_dec k n) as [->|Hkn].
  - assert (v = cl).
    { pose proof (Hsub n v (or_introl eq_refl)) as A. pose proof (Hsub n cl L) as B. congruence. }
    subst v. destruct (Hok _ _ (Hsub _ _ L)) as [_ Hnd].
    rewrite (partner_host_chunks_complete _ f c ph Hnd Hc Hp). reflexivity.
  - rewrite partner_host_chunks_none.
    + apply IH; [|intros; apply Hsub; right; assumption]. destruct L as [E|L]; [inversion E; congruence|exact L].
    + intros Hin. destruct (in_cluster_tagged ps k v f (Hok _ _ (Hsub _ _ (or_introl eq_refl))) Hin) as (fr' & Lf' & Cf'). congruence.
Qed.

(* the replacement theorem phrased with the chunk itself *)
Lemma replacement_host_chunk s f ch s' r n cl c ph :
  acct_inv s -> replace_failed_proxy s f ch = (s', Done (Some r)) ->
  alookup n (st_clusters s) = Some cl -> In c (cl_chunks cl) ->
  ((ck_proxy0 c = f /\ ph = ck_host1 c) \/ (ck_proxy1 c = f /\ ph = ck_host0 c)) ->
  (exists h, h <> ph /\ 0 < cnt_of (host_counts (free_proxies s)) h) ->
  exists rr, alookup r (st_proxies s) = Some rr /\ is_free s (r, rr) = true /\ pr_host rr <> ph.
Proof.
  intros Hinv H L Hc Hp Hfree.
  destruct (replacement_host s f ch s' r Hinv H) as (fr & name & rr & _ & _ & _ & Lr & Fr & _ & Hhost).
  exists rr. split; [exact Lr|]. split; [exact Fr|]. apply Hhost; [|exact Hfree].
  eapply partner_host_complete; eauto.
Qed.
