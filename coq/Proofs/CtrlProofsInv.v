(* Control-plane model: basic lemmas and the invariant of the event system (Model/Ctrl.v). *)
From UM Require Import Base.BytesDef Model.Ctrl.
From Coq Require Import ZifyBool ZifyNat ZifyN.

Lemma run_app served : forall e1 e2 st, run served (e1 ++ e2) st = run served e2 (run served e1 st).
Proof. intros. unfold run. apply fold_left_app. Qed.

Lemma run_cons served : forall ev evs st, run served (ev :: evs) st = run served evs (step served st ev).
Proof. reflexivity. Qed.

Lemma run_nil served : forall st, run served [] st = st.
Proof. reflexivity. Qed.

(* ---------- the accept rule ---------- *)

Lemma accept_epoch_mono : forall s e c, k_epoch s <= k_epoch (fst (accept s e c)).
Proof.
  intros. unfold accept. destruct (N.leb e (k_epoch s)) eqn:E; cbn [fst k_epoch]; lia.
Qed.

Lemma accept_epoch_ge : forall s e c, e <= k_epoch (fst (accept s e c)).
Proof.
  intros. unfold accept. destruct (N.leb e (k_epoch s)) eqn:E; cbn [fst k_epoch]; lia.
Qed.

Lemma accept_cases : forall s e c,
  (e <= k_epoch s /\ accept s e c = (s, OLD_EPOCH)) \/
  (k_epoch s < e /\ accept s e c = ({| k_epoch := e; k_content := c |}, OK)).
Proof.
  intros. unfold accept. destruct (N.leb e (k_epoch s)) eqn:E; [left | right]; split; auto; lia.
Qed.

Lemma pget_pset_same : forall p k s, pget (pset p k s) k = s.
Proof. intros. destruct k; reflexivity. Qed.

Lemma pget_pset_other : forall p k k' s, k <> k' -> pget (pset p k s) k' = pget p k'.
Proof. intros. destruct k, k'; try congruence; reflexivity. Qed.

Lemma kind_eq_dec : forall a b : kind, {a = b} + {a <> b}.
Proof. decide equality. Qed.

Lemma lookup_head_same : forall a p ps, lookup ((a, p) :: ps) a = p.
Proof. intros. cbn [lookup]. rewrite N.eqb_refl. reflexivity. Qed.

Lemma lookup_head_other : forall a b p ps, a <> b -> lookup ((b, p) :: ps) a = lookup ps a.
Proof. intros. cbn [lookup]. destruct (N.eqb a b) eqn:E; auto. apply N.eqb_eq in E. congruence. Qed.

(* what one delivery does to the installed state of (a, k) *)
Lemma deliver_installed : forall ps c a k,
  pget (lookup ((c_to c, fst (deliver_to (lookup ps (c_to c)) c)) :: ps) a) k =
  if N.eqb a (c_to c) then
    (if kind_eq_dec (c_kind c) k then fst (accept (pget (lookup ps a) k) (c_epoch c) (c_content c))
     else pget (lookup ps a) k)
  else pget (lookup ps a) k.
Proof.
  intros. destruct (N.eqb a (c_to c)) eqn:E.
  - apply N.eqb_eq in E. subst a. rewrite lookup_head_same. unfold deliver_to.
    destruct (accept (pget (lookup ps (c_to c)) (c_kind c)) (c_epoch c) (c_content c)) as [s r] eqn:A.
    cbn [fst]. destruct (kind_eq_dec (c_kind c) k) as [<- | Hne].
    + rewrite pget_pset_same. rewrite A. reflexivity.
    + rewrite pget_pset_other by assumption. reflexivity.
  - apply N.eqb_neq in E. rewrite lookup_head_other by assumption. reflexivity.
Qed.

Lemma deliver_to_split : forall p c, deliver_to p c = (fst (deliver_to p c), snd (deliver_to p c)).
Proof. intros. destruct (deliver_to p c). reflexivity. Qed.

(* ---------- list helpers ---------- *)

Lemma remove_nth_incl {A} : forall i (l : list A) x, In x (remove_nth i l) -> In x l.
Proof.
  induction i; intros [|y l] x H; cbn [remove_nth] in H; cbn [In]; auto.
  destruct H; auto.
Qed.

Lemma Forall_remove_nth {A} (P : A -> Prop) : forall i l, Forall P l -> Forall P (remove_nth i l).
Proof.
  intros. rewrite Forall_forall in *. intros x Hx. apply H. eapply remove_nth_incl; eauto.
Qed.

Lemma take_first_spec : forall k q c q',
  take_first k q = Some (c, q') -> In (k, c) q /\ (forall x, In x q' -> In x q).
Proof.
  induction q as [|[k' c'] q IH]; intros c q' H; cbn [take_first] in H; [discriminate|].
  destruct (N.eqb k k') eqn:E.
  - apply N.eqb_eq in E. subst k'. inversion H; subst. split; [left; reflexivity | intros; right; assumption].
  - destruct (take_first k q) as [[c1 q1]|] eqn:T; [|discriminate]. inversion H; subst.
    destruct (IH _ _ eq_refl) as [H1 H2]. split; [right; assumption|].
    intros x [Hx | Hx]; [left; assumption | right; auto].
Qed.

Lemma mem_In : forall x l, mem x l = true <-> In x l.
Proof.
  intros. unfold mem. rewrite existsb_exists. split.
  - intros [y [Hy E]]. apply N.eqb_eq in E. subst. assumption.
  - intros H. exists x. split; auto. apply N.eqb_refl.
Qed.

Lemma mem_false_In : forall x l, mem x l = false <-> ~ In x l.
Proof.
  intros. rewrite <- mem_In. destruct (mem x l); split; intros H; try congruence; try tauto.
Qed.

Lemma remove_key_In : forall x y l, In y (remove_key x l) <-> In y l /\ y <> x.
Proof.
  intros. unfold remove_key. rewrite filter_In. split; intros [H1 H2]; split; auto.
  - intros ->. rewrite N.eqb_refl in H2. discriminate.
  - destruct (N.eqb x y) eqn:E; auto. apply N.eqb_eq in E. congruence.
Qed.

Lemma remove_key_NoDup : forall x l, NoDup l -> NoDup (remove_key x l).
Proof. intros. unfold remove_key. apply NoDup_filter. assumption. Qed.

Lemma NoDup_app_intro {A} : forall (l1 l2 : list A),
  NoDup l1 -> NoDup l2 -> (forall x, In x l1 -> In x l2 -> False) -> NoDup (l1 ++ l2).
Proof.
  induction l1 as [|a l1 IH]; intros l2 H1 H2 H; cbn [app]; auto.
  inversion H1; subst. constructor.
  - intros Hi. apply in_app_or in Hi. destruct Hi as [Hi | Hi]; [auto|]. apply (H a); [left; reflexivity | assumption].
  - apply IH; auto. intros x Hx1 Hx2. apply (H x); [right; assumption | assumption].
Qed.

Lemma fresh_keys_spec : forall ms seen,
  NoDup (fresh_keys seen ms) /\ (forall x, In x (fresh_keys seen ms) -> ~ In x seen /\ In x ms).
Proof.
  induction ms as [|m r IH]; intros seen; cbn [fresh_keys].
  - split; [constructor | intros x []].
  - destruct (mem m seen) eqn:E.
    + destruct (IH seen) as [H1 H2]. split; auto. intros x Hx. destruct (H2 x Hx). split; auto. right; auto.
    + apply mem_false_In in E. destruct (IH (m :: seen)) as [H1 H2]. split.
      * constructor; auto. intros Hm. destruct (H2 m Hm) as [Hn _]. apply Hn. left; reflexivity.
      * intros x [<- | Hx]; [split; auto; left; reflexivity|].
        destruct (H2 x Hx) as [Hn Hi]. split; [|right; assumption]. intros Hs. apply Hn. right; assumption.
Qed.

(* ---------- monotone quantities ---------- *)

Section WithBroker.
Variable served : nat -> addr -> option (N * N).
Notation step := (step served).
Notation run := (run served).

Lemma now_step_mono : forall st ev, (now st <= now (step st ev))%nat.
Proof.
  intros st ev. destruct ev; cbn [Ctrl.step].
  - destruct (served (now st) a) as [[e c]|]; cbn [now]; lia.
  - destruct (take_first k (queue st)) as [[c q]|]; cbn [now]; lia.
  - destruct (nth_error (net st) i); [rewrite deliver_to_split|]; cbn [now]; lia.
  - cbn [now]; lia.
  - destruct (nth_error (net st) i); cbn [now]; lia.
  - cbn [now]; lia.
  - cbn [now]; lia.
  - cbn [now]; lia.
  - cbn [now]; lia.
  - destruct (mem id (pending st)); cbn [now]; lia.
  - cbn [now]; lia.
Qed.

Lemma now_run_mono : forall evs st, (now st <= now (run evs st))%nat.
Proof.
  induction evs as [|ev evs IH]; intros st; [cbn; lia|].
  rewrite run_cons. specialize (IH (step st ev)). pose proof (now_step_mono st ev). lia.
Qed.

Definition is_restart (a : addr) (ev : event) : bool :=
  match ev with ProxyRestart b => N.eqb a b | _ => false end.

Definition no_restart (a : addr) (evs : list event) : bool := forallb (fun ev => negb (is_restart a ev)) evs.

Lemma installed_step : forall st ev a k,
  installed (step st ev) a k =
  match ev with
  | Deliver i =>
    match nth_error (net st) i with
    | Some c => if N.eqb a (c_to c) then
                  (if kind_eq_dec (c_kind c) k then fst (accept (installed st a k) (c_epoch c) (c_content c))
                   else installed st a k)
                else installed st a k
    | None => installed st a k
    end
  | ProxyRestart b => if N.eqb a b then ks_init else installed st a k
  | _ => installed st a k
  end.
Proof.
  intros st ev a k. unfold installed. destruct ev; cbn [Ctrl.step].
  - destruct (served (now st) a0) as [[e c]|]; reflexivity.
  - destruct (take_first k0 (queue st)) as [[c q]|]; reflexivity.
  - destruct (nth_error (net st) i) as [c|]; [|reflexivity].
    rewrite deliver_to_split. cbn [proxies]. apply deliver_installed.
  - reflexivity.
  - destruct (nth_error (net st) i); reflexivity.
  - reflexivity.
  - cbn [proxies]. destruct (N.eqb a a0) eqn:E.
    + apply N.eqb_eq in E. subst. rewrite lookup_head_same. destruct k; reflexivity.
    + apply N.eqb_neq in E. rewrite lookup_head_other by assumption. reflexivity.
  - reflexivity.
  - reflexivity.
  - destruct (mem id (pending st)); reflexivity.
  - reflexivity.
Qed.

Lemma epoch_step_mono : forall st ev a k,
  is_restart a ev = false -> k_epoch (installed st a k) <= k_epoch (installed (step st ev) a k).
Proof.
  intros st ev a k Hr. rewrite installed_step. destruct ev; try lia.
  - destruct (nth_error (net st) i) as [c|]; [|lia].
    destruct (N.eqb a (c_to c)); [|lia]. destruct (kind_eq_dec (c_kind c) k); [|lia]. apply accept_epoch_mono.
  - cbn [is_restart] in Hr. rewrite Hr. lia.
Qed.

Lemma epoch_run_mono : forall evs st a k,
  no_restart a evs = true -> k_epoch (installed st a k) <= k_epoch (installed (run evs st) a k).
Proof.
  induction evs as [|ev evs IH]; intros st a k H; [cbn; lia|].
  cbn [no_restart forallb] in H. apply andb_true_iff in H. destruct H as [H1 H2].
  rewrite run_cons. specialize (IH (step st ev) a k H2).
  pose proof (epoch_step_mono st ev a k). destruct (is_restart a ev); [discriminate|]. specialize (H eq_refl). lia.
Qed.

(* ---------- the invariant ---------- *)

Definition call_ok (n : nat) (c : call) : Prop :=
  (c_time c <= n)%nat /\ served (c_time c) (c_to c) = Some (c_epoch c, c_content c).

Definition ks_ok (n : nat) (a : addr) (s : kstate) : Prop :=
  k_epoch s = 0 \/ exists t, (t <= n)%nat /\ served t a = Some (k_epoch s, k_content s).

Record Inv (st : state) : Prop := {
  inv_net : Forall (call_ok (now st)) (net st);
  inv_queue : Forall (fun kc => call_ok (now st) (snd kc)) (queue st);
  inv_prox : forall a k, ks_ok (now st) a (installed st a k);
  inv_pend_nodup : NoDup (pending st);
  inv_commits_nodup : NoDup (commits st);
  inv_disj : forall x, In x (pending st) -> ~ In x (commits st);
  inv_pend_started : forall x, In x (pending st) -> In x (started st);
  inv_commits_started : forall x, In x (commits st) -> In x (started st)
}.

Lemma call_ok_weaken : forall n m c, (n <= m)%nat -> call_ok n c -> call_ok m c.
Proof. intros n m c H [H1 H2]. split; auto. lia. Qed.

Lemma ks_ok_weaken : forall n m a s, (n <= m)%nat -> ks_ok n a s -> ks_ok m a s.
Proof. intros n m a s H [H1 | [t [H1 H2]]]; [left; auto | right; exists t; split; auto; lia]. Qed.

Lemma Inv_init : Inv init.
Proof.
  constructor; cbn [init now net queue pending commits started]; try constructor; try (intros; contradiction).
  destruct k; reflexivity.
Qed.

Lemma Forall_weaken_calls : forall n m l, (n <= m)%nat -> Forall (call_ok n) l -> Forall (call_ok m) l.
Proof. intros. eapply Forall_impl; [|eassumption]. intros. eapply call_ok_weaken; eauto. Qed.

Lemma Forall_weaken_queue : forall n m (l : list (coord * call)), (n <= m)%nat ->
  Forall (fun kc => call_ok n (snd kc)) l -> Forall (fun kc => call_ok m (snd kc)) l.
Proof. intros. eapply Forall_impl; [|eassumption]. intros. eapply call_ok_weaken; eauto. Qed.

Lemma Inv_step : forall st ev, Inv st -> Inv (step st ev).
Proof.
  intros st ev I.
  assert (P : forall a k, ks_ok (now (step st ev)) a (installed (step st ev) a k)).
  { intros a k. rewrite installed_step.
    pose proof (now_step_mono st ev) as Hn.
    pose proof (inv_prox st I a k) as Hk.
    destruct ev; try (eapply ks_ok_weaken; eassumption).
    - destruct (nth_error (net st) i) as [c|] eqn:Hc; [|eapply ks_ok_weaken; eassumption].
      destruct (N.eqb a (c_to c)) eqn:Ea; [|eapply ks_ok_weaken; eassumption].
      destruct (kind_eq_dec (c_kind c) k); [|eapply ks_ok_weaken; eassumption].
      destruct (accept_cases (installed st a k) (c_epoch c) (c_content c)) as [[_ ->] | [_ ->]]; cbn [fst].
      + eapply ks_ok_weaken; eassumption.
      + right. apply nth_error_In in Hc. pose proof (inv_net st I) as Hf. rewrite Forall_forall in Hf.
        destruct (Hf c Hc) as [Ht Hs]. apply N.eqb_eq in Ea. subst a.
        exists (c_time c). cbn [k_epoch k_content]. split; auto. lia.
    - destruct (N.eqb a a0); [left; reflexivity | eapply ks_ok_weaken; eassumption]. }
  destruct ev; cbn [Ctrl.step] in *.
  - (* Fetch *)
    destruct (served (now st) a) as [[e c]|] eqn:S; [|assumption].
    constructor; cbn [now net queue pending commits started]; try apply I; auto.
    apply Forall_app. split; [apply I|].
    repeat constructor; cbn [snd c_time c_to c_epoch c_content]; auto.
  - (* Issue *)
    destruct (take_first k (queue st)) as [[c q]|] eqn:T; [|assumption].
    destruct (take_first_spec _ _ _ _ T) as [H1 H2].
    pose proof (inv_queue st I) as Hq. rewrite Forall_forall in Hq.
    constructor; cbn [now net queue pending commits started]; try apply I; auto.
    + apply Forall_app. split; [apply I|]. constructor; [|constructor]. apply (Hq _ H1).
    + rewrite Forall_forall. intros x Hx. apply Hq. auto.
  - (* Deliver *)
    destruct (nth_error (net st) i) as [c|] eqn:Hc; [|assumption].
    rewrite deliver_to_split in *.
    constructor; cbn [now net queue pending commits started]; try apply I; auto.
    apply Forall_remove_nth. apply I.
  - (* Drop *)
    constructor; cbn [now net queue pending commits started]; try apply I; auto.
    apply Forall_remove_nth. apply I.
  - (* Duplicate *)
    destruct (nth_error (net st) i) as [c|] eqn:Hc; [|assumption].
    constructor; cbn [now net queue pending commits started]; try apply I; auto.
    apply Forall_app. split; [apply I|]. constructor; [|constructor].
    pose proof (inv_net st I) as Hf. rewrite Forall_forall in Hf. apply Hf. eapply nth_error_In; eauto.
  - (* CoordinatorCrash *)
    constructor; cbn [now net queue pending commits started]; try apply I; auto.
    pose proof (inv_queue st I) as Hq. rewrite Forall_forall in *. intros x Hx. apply filter_In in Hx. apply Hq. tauto.
  - (* ProxyRestart *)
    constructor; cbn [now net queue pending commits started]; try apply I; auto.
  - (* BrokerAdvance *)
    destruct (fresh_keys_spec ms (started st)) as [F1 F2].
    constructor; cbn [now net queue pending commits started]; auto.
    + eapply Forall_weaken_calls; [|apply I]. lia.
    + eapply Forall_weaken_queue; [|apply I]. lia.
    + apply NoDup_app_intro; auto; [apply I|].
      intros x Hx Hf. destruct (F2 x Hf) as [Hn _]. apply Hn. apply (inv_pend_started st I). assumption.
    + apply I.
    + intros x Hx Hc. apply in_app_or in Hx. destruct Hx as [Hx | Hx].
      * eapply (inv_disj st I); eauto.
      * destruct (F2 x Hx) as [Hn _]. apply Hn. apply (inv_commits_started st I). assumption.
    + intros x Hx. apply in_or_app. apply in_app_or in Hx. destruct Hx; [right; apply (inv_pend_started st I); auto | left; auto].
    + intros x Hx. apply in_or_app. right. apply (inv_commits_started st I). auto.
  - (* Report *)
    constructor; cbn [now net queue pending commits started]; try apply I; auto.
  - (* Commit *)
    destruct (mem id (pending st)) eqn:M; [|assumption].
    apply mem_In in M.
    constructor; cbn [now net queue pending commits started]; auto.
    + eapply Forall_weaken_calls; [|apply I]. lia.
    + eapply Forall_weaken_queue; [|apply I]. lia.
    + apply remove_key_NoDup. apply I.
    + constructor; [|apply I]. apply (inv_disj st I). assumption.
    + intros x Hx [Hc | Hc].
      * subst x. apply remove_key_In in Hx. destruct Hx as [_ Hx]. congruence.
      * apply remove_key_In in Hx. destruct Hx as [Hx _]. eapply (inv_disj st I); eauto.
    + intros x Hx. apply remove_key_In in Hx. apply (inv_pend_started st I). tauto.
    + intros x [<- | Hx]; [apply (inv_pend_started st I); assumption | apply (inv_commits_started st I); assumption].
  - (* BrokerCancel *)
    constructor; cbn [now net queue pending commits started]; try apply I; auto.
    + apply NoDup_filter. apply I.
    + intros x Hx. apply filter_In in Hx. apply (inv_disj st I). tauto.
    + intros x Hx. apply filter_In in Hx. apply (inv_pend_started st I). tauto.
Qed.

Lemma Inv_run : forall evs st, Inv st -> Inv (run evs st).
Proof.
  induction evs as [|ev evs IH]; intros st I; [assumption|].
  rewrite run_cons. apply IH. apply Inv_step. assumption.
Qed.

End WithBroker.
