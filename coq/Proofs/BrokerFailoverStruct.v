(* C06, part 1: the role / slot / peer index tables of cluster_store_to_cluster (chunk_nodes) and of
   MigrationSlotRangeStore::to_slot_range (part_proxy_index / part_node_index) agree, for every chunk in every role
   position.  Finite case analysis over role x node index, lifted to all chunks of a cluster. *)
From UM Require Import Base.BytesDef Model.Ranges Model.Broker Proofs.BrokerBase.

(* the replication peer table of cluster_store_to_cluster: 0<->3, 1<->2 *)
Definition peer_idx (i : nat) : nat :=
  match i with 0%nat => 3%nat | 1%nat => 2%nat | 2%nat => 1%nat | _ => 0%nat end.

Definition part_slots (chunks : list chunk) (c : chunk) (part : bool) : option (list vslot) :=
  match map_opt (to_slot_range chunks) (ck_mig c part) with
  | Some l => Some ((match ck_stable c part with Some r => [(r, VNone)] | None => [] end) ++ l)
  | None => None
  end.

Definition role_first_idx (r : role_pos) : nat := match r with RNormal => 0 | RFirst => 0 | RSecond => 3 end%nat.
Definition role_second_idx (r : role_pos) : nat := match r with RNormal => 2 | RFirst => 1 | RSecond => 2 end%nat.
Definition role_replica (r : role_pos) (i : nat) : bool :=
  match r with RNormal => Nat.odd i | RFirst => Nat.leb 2 i | RSecond => Nat.ltb i 2 end.

Definition mk_node (c : chunk) (s0 s1 : list vslot) (i : nat) : vnode :=
  mkVNode (ck_node c i) (ck_proxy c (Nat.leb 2 i)) (negb (role_replica (ck_role c) i))
          ((if Nat.eqb i (role_first_idx (ck_role c)) then s0 else []) ++
           (if Nat.eqb i (role_second_idx (ck_role c)) then s1 else []))
          (ck_node c (peer_idx i)) (ck_proxy c (Nat.leb 2 (peer_idx i))).

Lemma chunk_nodes_eq chunks c :
  chunk_nodes chunks c =
  match part_slots chunks c false, part_slots chunks c true with
  | Some s0, Some s1 => Some (map (mk_node c s0 s1) [0; 1; 2; 3]%nat)
  | _, _ => None
  end.
Proof.
  unfold chunk_nodes, part_slots.
  destruct (map_opt (to_slot_range chunks) (ck_mig c false)); [|reflexivity].
  destruct (map_opt (to_slot_range chunks) (ck_mig c true)); reflexivity.
Qed.

Lemma part_slots_inv chunks c part s :
  part_slots chunks c part = Some s ->
  exists sl, map_opt (to_slot_range chunks) (ck_mig c part) = Some sl
             /\ s = (match ck_stable c part with Some r => [(r, VNone)] | None => [] end) ++ sl.
Proof.
  unfold part_slots. destruct (map_opt (to_slot_range chunks) (ck_mig c part)) as [l|]; [|discriminate].
  intros H. inversion H. eauto.
Qed.

(* the index tables agree: node index i lives on proxy i / 2 *)
Lemma part_index_agree part r : Nat.leb 2 (part_node_index part r) = part_proxy_index part r.
Proof. destruct part, r; reflexivity. Qed.

Lemma part_index_first r : part_node_index false r = role_first_idx r.
Proof. destruct r; reflexivity. Qed.
Lemma part_index_second r : part_node_index true r = role_second_idx r.
Proof. destruct r; reflexivity. Qed.

Lemma part_owner_is_master part r : role_replica r (part_node_index part r) = false.
Proof. destruct part, r; reflexivity. Qed.

Lemma peer_idx_invol i : (i < 4)%nat -> peer_idx (peer_idx i) = i.
Proof. destruct i as [|[|[|[|i]]]]; intros H; first [reflexivity | lia]. Qed.

Lemma peer_idx_other_proxy i : (i < 4)%nat -> Nat.leb 2 (peer_idx i) = negb (Nat.leb 2 i).
Proof. destruct i as [|[|[|[|i]]]]; intros H; first [reflexivity | lia]. Qed.

Lemma peer_role_flips r i : (i < 4)%nat -> role_replica r (peer_idx i) = negb (role_replica r i).
Proof. destruct r; destruct i as [|[|[|[|i]]]]; intros H; first [reflexivity | lia]. Qed.

(* the full structural statement about the four nodes of one chunk *)
Definition chunk_structure (chunks : list chunk) (c : chunk) (ns : list vnode) : Prop :=
  length ns = 4%nat
  /\ length (filter vn_master ns) = 2%nat
  /\ length (filter (fun n => negb (vn_master n)) ns) = 2%nat
  /\ (forall i n, nth_error ns i = Some n ->
        vn_addr n = ck_node c i /\ vn_proxy n = ck_proxy c (Nat.leb 2 i)
        /\ (vn_master n = false -> vn_slots n = [])
        /\ exists p, nth_error ns (peer_idx i) = Some p
             /\ Nat.leb 2 (peer_idx i) = negb (Nat.leb 2 i)
             /\ vn_master p = negb (vn_master n)
             /\ vn_peer_node n = vn_addr p /\ vn_peer_proxy n = vn_proxy p
             /\ vn_peer_node p = vn_addr n /\ vn_peer_proxy p = vn_proxy n)
  /\ (forall part, exists n sl,
        nth_error ns (part_node_index part (ck_role c)) = Some n
        /\ Nat.leb 2 (part_node_index part (ck_role c)) = part_proxy_index part (ck_role c)
        /\ vn_master n = true
        /\ vn_addr n = ck_node c (part_node_index part (ck_role c))
        /\ vn_proxy n = ck_proxy c (part_proxy_index part (ck_role c))
        /\ map_opt (to_slot_range chunks) (ck_mig c part) = Some sl
        /\ vn_slots n = (match ck_stable c part with Some r => [(r, VNone)] | None => [] end) ++ sl).

Lemma structure_of_chunk : forall chunks c ns, chunk_nodes chunks c = Some ns -> chunk_structure chunks c ns.
Proof.
  intros chunks c ns H. rewrite chunk_nodes_eq in H.
  destruct (part_slots chunks c false) as [s0|] eqn:E0; [|discriminate].
  destruct (part_slots chunks c true) as [s1|] eqn:E1; [|discriminate].
  inversion H; subst ns; clear H.
  apply part_slots_inv in E0. destruct E0 as (sl0 & M0 & ->).
  apply part_slots_inv in E1. destruct E1 as (sl1 & M1 & ->).
  set (S0 := match ck_stable c false with Some r => [(r, VNone)] | None => [] end ++ sl0).
  set (S1 := match ck_stable c true with Some r => [(r, VNone)] | None => [] end ++ sl1).
  unfold chunk_structure.
  split; [reflexivity|].
  split; [destruct (ck_role c) eqn:R; cbn; rewrite R; reflexivity|].
  split; [destruct (ck_role c) eqn:R; cbn; rewrite R; reflexivity|].
  assert (Hnth : forall i, (i < 4)%nat -> nth_error (map (mk_node c S0 S1) [0; 1; 2; 3]%nat) i = Some (mk_node c S0 S1 i)).
  { intros i Hi. destruct i as [|[|[|[|i]]]]; try reflexivity. lia. }
  split.
  - intros i n Hn.
    assert (Hi : (i < 4)%nat).
    { destruct i as [|[|[|[|i]]]]; try lia. cbn [nth_error map] in Hn. destruct i; discriminate. }
    change (nth_error (map (mk_node c S0 S1) [0; 1; 2; 3]%nat) i = Some n) in Hn.
    rewrite (Hnth i Hi) in Hn. inversion Hn; subst n; clear Hn.
    cbn [vn_addr vn_proxy vn_master vn_slots vn_peer_node vn_peer_proxy mk_node].
    split; [reflexivity|]. split; [reflexivity|].
    split.
    + destruct (ck_role c); destruct i as [|[|[|[|i]]]]; cbn; intros Hm; try discriminate; try reflexivity; lia.
    + assert (Hp : (peer_idx i < 4)%nat) by (destruct i as [|[|[|[|i]]]]; cbn; lia).
      exists (mk_node c S0 S1 (peer_idx i)). split; [apply Hnth; exact Hp|].
      cbn [vn_addr vn_proxy vn_master vn_slots vn_peer_node vn_peer_proxy mk_node].
      rewrite (peer_idx_invol i Hi), (peer_role_flips _ i Hi), (peer_idx_other_proxy i Hi).
      repeat split; reflexivity.
  - intros part.
    exists (mk_node c S0 S1 (part_node_index part (ck_role c))).
    exists (if part then sl1 else sl0).
    split; [apply Hnth; destruct part, (ck_role c); cbn; lia|].
    split; [apply part_index_agree|].
    cbn [vn_addr vn_proxy vn_master vn_slots vn_peer_node vn_peer_proxy mk_node].
    rewrite part_owner_is_master, part_index_agree.
    split; [reflexivity|]. split; [reflexivity|]. split; [reflexivity|].
    split; [destruct part; assumption|].
    subst S0 S1. destruct part, (ck_role c); cbn; rewrite ?app_nil_r; reflexivity.
Qed.

(* ---- lifting to all chunks of a cluster ---- *)
Lemma map_opt_Forall2 {A B} (f : A -> option B) l r :
  map_opt f l = Some r -> Forall2 (fun x y => f x = Some y) l r.
Proof.
  revert r. induction l as [|x l IH]; cbn [map_opt]; intros r H.
  - inversion H. constructor.
  - destruct (f x) as [y|] eqn:E; [|discriminate].
    destruct (map_opt f l) as [r'|]; [|discriminate].
    inversion H. constructor; auto.
Qed.

Lemma Forall2_map_opt {A B} (f : A -> option B) l r :
  Forall2 (fun x y => f x = Some y) l r -> map_opt f l = Some r.
Proof.
  induction 1 as [|x y l r Hxy _ IH]; cbn [map_opt]; [reflexivity|]. rewrite Hxy, IH. reflexivity.
Qed.

Lemma Forall2_imp {A B} (P Q : A -> B -> Prop) l r :
  (forall x y, P x y -> Q x y) -> Forall2 P l r -> Forall2 Q l r.
Proof. intros HPQ H. induction H; constructor; auto. Qed.

Lemma structure_of_cluster : forall cl ns, cluster_nodes cl = Some ns ->
  exists per_chunk, ns = concat per_chunk
    /\ Forall2 (fun c cn => chunk_nodes (cl_chunks cl) c = Some cn /\ chunk_structure (cl_chunks cl) c cn)
               (cl_chunks cl) per_chunk.
Proof.
  intros cl ns H. unfold cluster_nodes in H.
  destruct (map_opt (chunk_nodes (cl_chunks cl)) (cl_chunks cl)) as [l|] eqn:E; [|discriminate].
  inversion H; subst ns. exists l. split; [reflexivity|].
  apply map_opt_Forall2 in E.
  eapply Forall2_imp; [|exact E]. cbn. intros c cn Hc. split; [exact Hc|]. apply structure_of_chunk. exact Hc.
Qed.

(* the addresses a migration tag carries are those of the master nodes that own the source / destination part *)
Lemma tag_names_owner : forall chunks m rl tag,
  to_slot_range chunks m = Some (rl, tag) ->
  exists sc dc meta,
    nth_error chunks (mm_src_idx (ms_meta m)) = Some sc
    /\ nth_error chunks (mm_dst_idx (ms_meta m)) = Some dc
    /\ rl = ms_ranges m
    /\ tag = (if ms_out m then VMigrating meta else VImporting meta)
    /\ vm_epoch meta = mm_epoch (ms_meta m)
    /\ (forall ns, chunk_nodes chunks sc = Some ns ->
          exists n, nth_error ns (part_node_index (mm_src_part (ms_meta m)) (ck_role sc)) = Some n
                    /\ vn_master n = true /\ vn_addr n = vm_src_node meta /\ vn_proxy n = vm_src_proxy meta)
    /\ (forall ns, chunk_nodes chunks dc = Some ns ->
          exists n, nth_error ns (part_node_index (mm_dst_part (ms_meta m)) (ck_role dc)) = Some n
                    /\ vn_master n = true /\ vn_addr n = vm_dst_node meta /\ vn_proxy n = vm_dst_proxy meta).
Proof.
  intros chunks m rl tag H. unfold to_slot_range in H.
  destruct (nth_error chunks (mm_src_idx (ms_meta m))) as [sc|] eqn:Es; [|discriminate].
  destruct (nth_error chunks (mm_dst_idx (ms_meta m))) as [dc|] eqn:Ed; [|discriminate].
  inversion H; subst rl tag; clear H.
  eexists sc, dc, _. split; [reflexivity|]. split; [reflexivity|]. split; [reflexivity|].
  split; [reflexivity|]. split; [reflexivity|].
  split; intros ns Hns; apply structure_of_chunk in Hns; destruct Hns as (_ & _ & _ & _ & Hown).
  - destruct (Hown (mm_src_part (ms_meta m))) as (n & sl & Hn & _ & Hm & Ha & Hp & _).
    exists n. cbn [vm_src_node vm_src_proxy]. auto.
  - destruct (Hown (mm_dst_part (ms_meta m))) as (n & sl & Hn & _ & Hm & Ha & Hp & _).
    exists n. cbn [vm_dst_node vm_dst_proxy]. auto.
Qed.
