(* Basic facts for the routing model (C02): HashMap-as-association-list, nodupb, group_peers, RangeMap. *)
From UM Require Import Base.BytesDef Model.Ranges Model.Broker Model.Route.
From Coq Require Import ZifyBool ZifyNat ZifyN.

(* ---------- small list facts ---------- *)
Lemma existsb_eqb_In x l : existsb (N.eqb x) l = true <-> In x l.
Proof.
  rewrite existsb_exists. split.
  - intros [y [Hy E]]. apply N.eqb_eq in E. subst. exact Hy.
  - intros H. exists x. split; [exact H|apply N.eqb_refl].
Qed.

Lemma nodupb_NoDup l : nodupb l = true -> NoDup l.
Proof.
  induction l as [|x l IH]; cbn [nodupb]; intros H; [constructor|].
  apply andb_true_iff in H. destruct H as [H1 H2]. constructor; [|auto].
  intros Hin. apply existsb_eqb_In in Hin. rewrite Hin in H1. discriminate.
Qed.

Lemma NoDup_map_filter {A B} (f : A -> B) (g : A -> bool) l : NoDup (map f l) -> NoDup (map f (filter g l)).
Proof.
  induction l as [|x l IH]; cbn [map filter]; intros H; [constructor|].
  inversion H as [|? ? Hnin Hnd]; subst.
  destruct (g x); cbn [map]; [|auto].
  constructor; [|auto]. intros Hin. apply Hnin.
  apply in_map_iff in Hin. destruct Hin as [y [Hy Hin]]. apply filter_In in Hin.
  apply in_map_iff. exists y. tauto.
Qed.

Lemma filter_filter_comm {A} (f g : A -> bool) l : filter f (filter g l) = filter g (filter f l).
Proof.
  induction l as [|x l IH]; cbn [filter]; [reflexivity|].
  destruct (f x) eqn:Ef, (g x) eqn:Eg; cbn [filter]; rewrite ?Ef, ?Eg, IH; reflexivity.
Qed.

(* ---------- HashMap built by inserts ---------- *)
Lemma ainsert_In_sub {V} k0 (v0 : V) l k v : In (k, v) (ainsert k0 v0 l) -> (k = k0 /\ v = v0) \/ In (k, v) l.
Proof.
  induction l as [|[k' v'] l IH]; cbn [ainsert].
  - intros [H|[]]. inversion H. auto.
  - destruct (N.eqb k0 k') eqn:E.
    + intros [H|H]; [inversion H; auto|right; right; exact H].
    + destruct (N.ltb k0 k').
      * intros [H|H]; [inversion H; auto|right; exact H].
      * intros [H|H]; [right; left; exact H|]. destruct (IH H) as [?|?]; [auto|right; right; assumption].
Qed.

Lemma ainsert_In_new {V} k0 (v0 : V) l : In (k0, v0) (ainsert k0 v0 l).
Proof.
  induction l as [|[k' v'] l IH]; cbn [ainsert]; [left; reflexivity|].
  destruct (N.eqb k0 k'); [left; reflexivity|]. destruct (N.ltb k0 k'); [left; reflexivity|right; exact IH].
Qed.

Lemma ainsert_In_keep {V} k0 (v0 : V) l k v : k <> k0 -> In (k, v) l -> In (k, v) (ainsert k0 v0 l).
Proof.
  intros Hne. induction l as [|[k' v'] l IH]; cbn [ainsert]; [intros []|].
  intros [H|H].
  - inversion H; subst k' v'. destruct (N.eqb k0 k) eqn:E; [apply N.eqb_eq in E; congruence|].
    destruct (N.ltb k0 k); [right; left; reflexivity|left; reflexivity].
  - destruct (N.eqb k0 k') eqn:E; [right; exact H|].
    destruct (N.ltb k0 k'); [right; right; exact H|right; auto].
Qed.

Lemma hm_fold_In_sub {V} (l : list (N * V)) : forall acc k v,
  In (k, v) (fold_left (fun acc kv => ainsert (fst kv) (snd kv) acc) l acc) -> In (k, v) l \/ In (k, v) acc.
Proof.
  induction l as [|[k0 v0] l IH]; intros acc k v; cbn [fold_left fst snd]; [auto|].
  intros H. destruct (IH _ _ _ H) as [H1|H1]; [left; right; exact H1|].
  destruct (ainsert_In_sub _ _ _ _ _ H1) as [[-> ->]|H2]; [left; left; reflexivity|right; exact H2].
Qed.

Lemma hm_fold_In_keep {V} (l : list (N * V)) : forall acc k v,
  ~ In k (map fst l) -> In (k, v) acc -> In (k, v) (fold_left (fun acc kv => ainsert (fst kv) (snd kv) acc) l acc).
Proof.
  induction l as [|[k0 v0] l IH]; intros acc k v Hnin Hin; cbn [fold_left fst snd]; [exact Hin|].
  apply IH; [intros Hx; apply Hnin; right; exact Hx|]. apply ainsert_In_keep; [|exact Hin]. intros ->. apply Hnin. left. reflexivity.
Qed.

Lemma hm_of_In {V} (l : list (N * V)) k v : NoDup (map fst l) -> (In (k, v) (hm_of l) <-> In (k, v) l).
Proof.
  intros Hnd. unfold hm_of. split.
  - intros H. destruct (hm_fold_In_sub _ _ _ _ H) as [?|[]]. assumption.
  - generalize (@nil (N * V)). induction l as [|[k0 v0] l IH]; intros acc; [intros []|].
    inversion Hnd as [|? ? Hnin Hnd']; subst. cbn [fold_left fst snd]. intros [H|H].
    + inversion H; subst k0 v0. apply hm_fold_In_keep; [exact Hnin|apply ainsert_In_new].
    + apply IH; assumption.
Qed.

(* ---------- group_peers ---------- *)
Lemma group_peers_sound (l : list vnode) : forall acc q sls sl,
  In (q, sls) (group_peers l acc) -> In sl sls ->
  (exists n, In n l /\ vn_proxy n = q /\ In sl (vn_slots n)) \/ (exists sls0, In (q, sls0) acc /\ In sl sls0).
Proof.
  induction l as [|n l IH]; intros acc q sls sl; cbn [group_peers].
  - intros H Hsl. right. exists sls. split; [apply in_rev; exact H|exact Hsl].
  - destruct acc as [|[p psl] acc'].
    + intros H Hsl. destruct (IH _ _ _ _ H Hsl) as [[n' [? ?]]|[sls0 [[E|[]] Hs0]]].
      * left. exists n'. split; [right; assumption|assumption].
      * inversion E; subst. left. exists n. split; [left; reflexivity|split; [reflexivity|exact Hs0]].
    + destruct (N.eqb p (vn_proxy n)) eqn:E.
      * apply N.eqb_eq in E. intros H Hsl.
        destruct (IH _ _ _ _ H Hsl) as [[n' [? ?]]|[sls0 [[E2|Hin] Hs0]]].
        -- left. exists n'. split; [right; assumption|assumption].
        -- inversion E2; subst. apply in_app_or in Hs0. destruct Hs0 as [Hs0|Hs0].
           ++ right. exists psl. split; [left; reflexivity|exact Hs0].
           ++ left. exists n. split; [left; reflexivity|split; [first [reflexivity|congruence]|exact Hs0]].
        -- right. exists sls0. split; [right; exact Hin|exact Hs0].
      * intros H Hsl.
        destruct (IH _ _ _ _ H Hsl) as [[n' [? ?]]|[sls0 [[E2|Hin] Hs0]]].
        -- left. exists n'. split; [right; assumption|assumption].
        -- inversion E2; subst. left. exists n. split; [left; reflexivity|split; [reflexivity|exact Hs0]].
        -- right. exists sls0. split; [exact Hin|exact Hs0].
Qed.

Lemma group_peers_complete (l : list vnode) : forall acc q sl,
  (exists n, In n l /\ vn_proxy n = q /\ In sl (vn_slots n)) \/ (exists sls0, In (q, sls0) acc /\ In sl sls0) ->
  exists sls, In (q, sls) (group_peers l acc) /\ In sl sls.
Proof.
  induction l as [|n l IH]; intros acc q sl; cbn [group_peers].
  - intros [[n [[] _]]|[sls0 [H Hs]]]. exists sls0. split; [apply (proj1 (in_rev _ _)); exact H|exact Hs].
  - intros H. destruct acc as [|[p psl] acc'].
    + apply IH. destruct H as [[n' [[->|Hin] [Hq Hs]]]|[sls0 [[] _]]].
      * right. exists (vn_slots n'). split; [left; rewrite Hq; reflexivity|exact Hs].
      * left. exists n'. tauto.
    + destruct (N.eqb p (vn_proxy n)) eqn:E.
      * apply N.eqb_eq in E. apply IH.
        destruct H as [[n' [[->|Hin] [Hq Hs]]]|[sls0 [[E2|Hin] Hs]]].
        -- right. exists (psl ++ vn_slots n'). split; [left; rewrite E, Hq; reflexivity|apply in_or_app; right; exact Hs].
        -- left. exists n'. tauto.
        -- inversion E2; subst. right. exists (sls0 ++ vn_slots n). split; [left; reflexivity|apply in_or_app; left; exact Hs].
        -- right. exists sls0. split; [right; exact Hin|exact Hs].
      * apply IH.
        destruct H as [[n' [[->|Hin] [Hq Hs]]]|[sls0 [Hin Hs]]].
        -- right. exists (vn_slots n'). split; [left; rewrite Hq; reflexivity|exact Hs].
        -- left. exists n'. tauto.
        -- right. exists sls0. split; [right; exact Hin|exact Hs].
Qed.

(* ---------- RangeMap on normalised range lists ---------- *)
Lemma rl_okb_cons r rest : rl_okb (r :: rest) = true ->
  fst r <= snd r /\ snd r < SLOT_NUM /\ rl_okb rest = true /\ (forall x, In x rest -> snd r < fst x /\ fst x <= snd x /\ snd x < SLOT_NUM).
Proof.
  revert r. induction rest as [|r' rest IH]; intros r H; cbn [rl_okb] in H.
  - repeat (apply andb_true_iff in H; destruct H as [H ?]). split; [lia|split; [lia|split; [reflexivity|intros y []]]].
  - apply andb_true_iff in H. destruct H as [H Hrest]. apply andb_true_iff in H. destruct H as [H Hlt].
    apply andb_true_iff in H. destruct H as [H1 H2].
    destruct (IH r' Hrest) as [Ha [Hb [Hc Hd]]].
    split; [lia|split; [lia|split; [exact Hrest|]]]. intros x [<-|Hx]; [lia|]. destruct (Hd x Hx). lia.
Qed.

Lemma last_in_or_default {A} (l : list A) d : l <> [] -> In (last l d) l.
Proof.
  induction l as [|x l IH]; [congruence|]. intros _. destruct l as [|y l]; [left; reflexivity|].
  right. apply IH. discriminate.
Qed.

Lemma last_default_irrel {A} (l : list A) d d' : l <> [] -> last l d = last l d'.
Proof.
  induction l as [|x l IH]; [congruence|]. intros _. destruct l as [|y l]; [reflexivity|].
  change (last (y :: l) d = last (y :: l) d'). apply IH. discriminate.
Qed.

Lemma rl_okb_last r rest : rl_okb (r :: rest) = true ->
  fst r <= snd (last (r :: rest) r) /\ snd (last (r :: rest) r) < SLOT_NUM /\ (forall x, In x (r :: rest) -> snd x <= snd (last (r :: rest) r)).
Proof.
  revert r. induction rest as [|r' rest IH]; intros r H.
  - destruct (rl_okb_cons _ _ H) as [Ha [Hb _]]. cbn [last]. split; [lia|split; [lia|]]. intros x [<-|[]]. lia.
  - destruct (rl_okb_cons _ _ H) as [Ha [Hb [Hc Hd]]].
    destruct (IH r' Hc) as [He [Hf Hg]].
    assert (Hl : last (r :: r' :: rest) r = last (r' :: rest) r').
    { change (last (r :: r' :: rest) r) with (last (r' :: rest) r). apply last_default_irrel. discriminate. }
    rewrite Hl. destruct (Hd r' (or_introl eq_refl)) as [Hr1 _].
    split; [lia|split; [lia|]]. intros x [<-|Hx]; [|auto]. lia.
Qed.

Lemma rm_ok_of_okb rl : rl_okb rl = true -> rm_ok rl = true.
Proof.
  intros H. unfold rm_ok, rm_bounds. destruct rl as [|r rest]; [reflexivity|].
  destruct (rl_okb_last _ _ H) as [Ha [Hb _]].
  destruct (N.leb SLOT_NUM (fst r) || N.leb SLOT_NUM (snd (last (r :: rest) r))); [reflexivity|]. lia.
Qed.

Lemma rm_contains_of_okb rl s : rl_okb rl = true -> s < SLOT_NUM -> rm_contains rl s = in_rangelist s rl.
Proof.
  intros H Hs. unfold rm_contains, rm_bounds, in_rangelist. destruct rl as [|r rest]; [reflexivity|].
  destruct (rl_okb_last _ _ H) as [Ha [Hb Hc]].
  destruct (rl_okb_cons _ _ H) as [Hd [He [Hf Hg]]].
  assert (E1 : N.leb SLOT_NUM (fst r) || N.leb SLOT_NUM (snd (last (r :: rest) r)) = false) by lia.
  rewrite E1.
  assert (Hex : existsb (fun r0 => N.leb (fst r0) s && N.leb s (N.min (snd r0) (SLOT_NUM - 1))) (r :: rest)
                = existsb (in_range s) (r :: rest)).
  { apply eq_true_iff_eq. rewrite !existsb_exists. unfold in_range. split; intros [x [Hx Hb']]; exists x; (split; [exact Hx|]); unfold SLOT_NUM in *; lia. }
  rewrite Hex.
  destruct (existsb (in_range s) (r :: rest)) eqn:Ee; [|apply andb_false_r].
  rewrite andb_true_r. apply existsb_exists in Ee. destruct Ee as [x [Hx Hin]]. unfold in_range in Hin.
  specialize (Hc x Hx).
  assert (fst r <= fst x). { destruct Hx as [<-|Hx]; [lia|]. destruct (Hg x Hx). lia. }
  lia.
Qed.
