(* Balance half of C10: commit_migration.
   GOAL A: a commit keeps the projected size (stable + incoming) of every master: stage 1 (`filter keep`) removes only an
   out entry, stage 2 (`commit_in`) moves the ranges of one in entry into the stable slots of the same master, and the
   final compact_slots keeps every number (BrokerBalanceCompact).
   GOAL B: the progress measure `pending` (number of out entries) drops by exactly one on a successful commit, is zero
   exactly when the cluster is not migrating, and is not changed by takeover_master. *)
From UM Require Import Base.BytesDef Model.Ranges Model.Broker Proofs.BrokerBase Proofs.BrokerPartRanges Proofs.BrokerPartDefs
  Proofs.BrokerPartMigrateBase Proofs.BrokerPartOpsFrame Proofs.BrokerPartOpsCompact Proofs.BrokerPartOpsCommit Proofs.BrokerScale
  Proofs.BrokerBalanceDefs Proofs.BrokerBalanceCompact.
From Coq Require Import ZifyBool ZifyNat ZifyN.
From UM Require Import Proofs.BrokerPartOpsFail.

(* ---------- a per-chunk relation that transports balanced_at ---------- *)
Definition cm_rel (c c' : chunk) : Prop := forall p,
  projected c' p = projected c p /\
  (ck_stable c p = None -> (forall e, In e (ck_mig c p) -> ms_out e = true) ->
   ck_stable c' p = None /\ forall e, In e (ck_mig c' p) -> ms_out e = true).

Lemma cm_rel_refl c : cm_rel c c.
Proof. intros p. split; [reflexivity|]. intros H1 H2. split; assumption. Qed.

Lemma cm_rel_balanced k l l' : Forall2 cm_rel l l' -> balanced_at k l -> balanced_at k l'.
Proof.
  intros HR (Hk0 & Hkl & Hh & Ht). pose proof (Forall2_length_eq _ _ _ HR) as Hlen.
  split; [exact Hk0|]. split; [rewrite Hlen; exact Hkl|]. split.
  - intros i c' p Hn Hi. pose proof (Forall2_nth _ _ _ HR i) as Hr. rewrite Hn in Hr.
    destruct (nth_error l i) as [c|] eqn:E; [|contradiction]. destruct (Hr p) as [Hp _]. rewrite Hp. eapply Hh; eassumption.
  - intros i c' p Hn Hi. pose proof (Forall2_nth _ _ _ HR i) as Hr. rewrite Hn in Hr.
    destruct (nth_error l i) as [c|] eqn:E; [|contradiction]. destruct (Hr p) as [_ Hp].
    destruct (Ht i c p E Hi) as [Hs Ho]. apply Hp; assumption.
Qed.

(* ---------- stage 1 ---------- *)
Lemma cm_ck_stable_Fk rl meta c p : ck_stable (Fk rl meta c) p = ck_stable c p.
Proof. destruct p; reflexivity. Qed.

Lemma cm_ck_mig_Fk rl meta c p : ck_mig (Fk rl meta c) p = filter (keepf rl meta) (ck_mig c p).
Proof. destruct p; reflexivity. Qed.

Lemma cm_rel_Fk rl meta c : cm_rel c (Fk rl meta c).
Proof.
  intros p. split.
  - unfold projected, stable_num, incoming_num. rewrite cm_ck_stable_Fk, cm_ck_mig_Fk, in_ranges_keep. reflexivity.
  - intros Hs Ho. rewrite cm_ck_stable_Fk, cm_ck_mig_Fk. split; [exact Hs|].
    intros e He. apply filter_In in He. apply Ho. tauto.
Qed.

(* ---------- stage 2 ---------- *)
Lemma cm_remove_first_all_false {A} (p : A -> bool) : forall l, (forall e, In e l -> p e = false) -> remove_first p l = None.
Proof.
  induction l as [|x l IH]; intros H; cbn [remove_first]; [reflexivity|].
  rewrite (H x (or_introl eq_refl)). rewrite IH; [reflexivity|]. intros e He. apply H. right. exact He.
Qed.

Lemma cm_commit_in_none rl meta : forall l,
  (forall c, In c l -> forall p e, In e (ck_mig c p) -> inm rl meta e = false) -> commit_in l rl meta = l.
Proof.
  induction l as [|c rest IH]; intros H; [reflexivity|]. cbn [commit_in]. fold (inm rl meta).
  change (fun e : mig_store => negb (ms_out e) && meta_eqb (ms_meta e) meta && rangelist_eqb (ms_ranges e) rl) with (inm rl meta).
  rewrite (cm_remove_first_all_false (inm rl meta) (ck_mig0 c)) by (intros e He; apply (H c (or_introl eq_refl) false e He)).
  rewrite (cm_remove_first_all_false (inm rl meta) (ck_mig1 c)) by (intros e He; apply (H c (or_introl eq_refl) true e He)).
  rewrite IH; [reflexivity|]. intros c2 Hc2. apply H. right. exact Hc2.
Qed.

Lemma cm_slots_total_nil : slots_total [] = 0.
Proof. reflexivity. Qed.

Lemma cm_rel_Rc rl meta c c' :
  Rc rl meta c c' -> (forall p st, ck_stable c p = Some st -> ok_rl (st ++ rl)) -> cm_rel c c'.
Proof.
  intros (part & l1 & l2 & Ec & Ec') Hok p.
  assert (M1 : ck_mig c' part = l1 ++ l2) by (rewrite Ec', ck_mig_merge_into, ck_mig_set_same; reflexivity).
  assert (M2 : ck_mig c' (negb part) = ck_mig c (negb part)) by (rewrite Ec', ck_mig_merge_into, ck_mig_set_other; reflexivity).
  assert (S2 : ck_stable c' (negb part) = ck_stable c (negb part)) by (rewrite Ec', ck_stable_merge_other, ck_stable_set_mig; reflexivity).
  assert (S1 : ck_stable c' part = Some (match ck_stable c part with Some st => rl_merge_another st rl | None => rl end)).
  { rewrite Ec', ck_stable_merge_same, ck_stable_set_mig. reflexivity. }
  destruct (Bool.bool_dec p part) as [->|Hp].
  - split.
    + unfold projected, stable_num, incoming_num. rewrite S1, M1, Ec.
      rewrite !in_ranges_app, in_ranges_cons, !slots_total_app. cbn [ms_out ms_ranges opt_ranges].
      destruct (ck_stable c part) as [st|] eqn:Est; cbn [opt_ranges].
      * unfold rl_merge_another. rewrite compact_ok_total by (apply (Hok part); exact Est). rewrite slots_total_app. lia.
      * rewrite cm_slots_total_nil. lia.
    + intros _ Ho. exfalso. assert (Hy : ms_out (mkMig rl false meta) = true) by (apply Ho; rewrite Ec; apply in_elt).
      cbn [ms_out] in Hy. discriminate.
  - assert (p = negb part) by (destruct p, part; cbn [negb]; congruence). subst p. split.
    + unfold projected, stable_num, incoming_num. rewrite S2, M2. reflexivity.
    + rewrite S2, M2. intros Hs Ho. split; assumption.
Qed.

(* a stable list and the ranges of an out entry of the same chunk list never share a slot *)
Lemma cm_stable_out_disjoint l c p st e s :
  part_inv l -> In c l -> ck_stable c p = Some st -> In e (all_entries l) -> ms_out e = true ->
  (cnt s st + cnt s (ms_ranges e) <= 1)%nat.
Proof.
  intros H Hc Hst He Ho.
  pose proof (cnt_chunk_stab c p s) as H1. rewrite Hst in H1. cbn [opt_ranges] in H1.
  pose proof (cnt_flat_map_In chunk_stab l c s Hc) as H2. fold (stabs l) in H2.
  pose proof (cnt_out_In e _ s He Ho) as H3. rewrite <- all_out_entries in H3.
  pose proof (owned_split l s) as H4. pose proof (covers_once_le _ s (pi_cover l H)) as H5. lia.
Qed.

Lemma cm_Forall2_refl l : Forall2 cm_rel l l.
Proof. apply Forall2_refl_all. apply cm_rel_refl. Qed.

Theorem commit_chunks_balanced k chunks rl ep si sp di dp :
  part_inv chunks -> balanced_at k chunks ->
  find_entry_chunks 0 chunks rl ep true = Some (si, sp) ->
  find_entry_chunks 0 chunks rl ep false = Some (di, dp) ->
  balanced_at k (commit_in (map (Fk rl (mkMeta ep si sp di dp)) chunks) rl (mkMeta ep si sp di dp)).
Proof.
  intros H Hbal _ _. set (meta := mkMeta ep si sp di dp). set (y := mkMig rl false meta).
  set (chunks1 := map (Fk rl meta) chunks).
  assert (B1 : balanced_at k chunks1).
  { eapply cm_rel_balanced; [|exact Hbal]. apply Forall2_map_self. intros c. apply cm_rel_Fk. }
  destruct (commit_in_spec rl meta chunks1) as [Hno|(pre & c & c' & post & E1 & E2 & HR)].
  { rewrite cm_commit_in_none by exact Hno. exact B1. }
  rewrite E2. eapply cm_rel_balanced; [|exact B1]. rewrite E1.
  apply Forall2_app; [apply cm_Forall2_refl|]. constructor; [|apply cm_Forall2_refl].
  apply (cm_rel_Rc rl meta); [exact HR|]. intros p st Est.
  assert (Hc1 : In c chunks1) by (rewrite E1; apply in_elt).
  unfold chunks1 in Hc1. apply in_map_iff in Hc1. destruct Hc1 as (c0 & Ec0 & Hc0).
  rewrite <- Ec0, cm_ck_stable_Fk in Est.
  destruct HR as (part & l1 & l2 & Ec & _). fold y in Ec.
  assert (Hy : In y (ck_mig c0 part)).
  { assert (Hy1 : In y (ck_mig c part)) by (rewrite Ec; apply in_elt).
    rewrite <- Ec0, cm_ck_mig_Fk in Hy1. apply filter_In in Hy1. tauto. }
  destruct (In_entries_at chunks c0 Hc0) as [i Hi]. rewrite <- (Hi part) in Hy.
  destruct (pi_twin chunks H _ _ Hy) as (_ & _ & Htw).
  split.
  - apply Forall_app. split.
    + destruct (stable_ok chunks c0 p st H Hc0 Est) as [Hw _]. exact Hw.
    + apply (entry_wf chunks (i, part) y H Hy).
  - intros s. rewrite cnt_app.
    apply (cm_stable_out_disjoint chunks c0 p st (twin y) s H Hc0 Est); [|reflexivity].
    eapply entries_at_all. exact Htw.
Qed.

(* ---------- store level ---------- *)
Lemma cm_store_lookup s name cl : store_balance_inv s -> alookup name (st_clusters s) = Some cl -> balance_inv (cl_chunks cl).
Proof. intros H E. apply alookup_In in E. eapply H. exact E. Qed.

Lemma cm_store_insert s s' name cl :
  store_balance_inv s -> balance_inv (cl_chunks cl) -> st_clusters s' = ainsert name cl (st_clusters s) -> store_balance_inv s'.
Proof.
  unfold store_balance_inv. intros H Hcl E n c Hin. rewrite E in Hin.
  apply ainsert_In in Hin. destruct Hin as [[-> ->]|Hin]; eauto.
Qed.

Theorem commit_migration_balance s name rl tag ep :
  store_part_inv s -> store_balance_inv s -> store_balance_inv (fst (commit_migration s name rl tag ep)).
Proof.
  intros H Hb. unfold commit_migration.
  destruct (alookup name (st_clusters s)) as [cl|] eqn:E; cbn [fst]; [|exact Hb].
  assert (Hcl : part_inv (cl_chunks cl)) by (eapply store_inv_lookup; eassumption).
  assert (Hbcl : balance_inv (cl_chunks cl)) by (eapply cm_store_lookup; eassumption).
  assert (Hmain : store_balance_inv (fst
    match find_entry_chunks 0 (cl_chunks cl) rl ep true with
    | Some (si, sp) =>
        match find_entry_chunks 0 (cl_chunks cl) rl ep false with
        | Some (di, dp) =>
            (bump (with_clusters s (ainsert name
               {| cl_epoch := st_epoch s + 1;
                  cl_chunks := compact_slots (commit_in (map (Fk rl (mkMeta ep si sp di dp)) (cl_chunks cl)) rl (mkMeta ep si sp di dp));
                  cl_config := cl_config cl |} (st_clusters s))), Done tt)
        | None => (s, Fail E_MigrationTaskNotFound)
        end
    | None => (s, Fail E_MigrationTaskNotFound)
    end)).
  { destruct (find_entry_chunks 0 (cl_chunks cl) rl ep true) as [[si sp]|] eqn:Eo; cbn [fst]; [|exact Hb].
    destruct (find_entry_chunks 0 (cl_chunks cl) rl ep false) as [[di dp]|] eqn:Ei; cbn [fst]; [|exact Hb].
    eapply cm_store_insert; [exact Hb| |reflexivity].
    cbn [cl_chunks]. destruct Hbcl as [k Hk]. exists k. apply balanced_at_compact.
    - apply commit_chunks_part_inv; assumption.
    - apply commit_chunks_balanced; assumption. }
  destruct tag; cbn [fst]; [exact Hb|exact Hmain|exact Hmain].
Qed.

(* ====================================================================================================== *)
(* GOAL B: the progress measure                                                                            *)
(* ====================================================================================================== *)

Lemma cm_out_entries_all l : out_entries l = filter ms_out (all_entries l).
Proof.
  unfold out_entries, all_entries. induction l as [|c l IH]; cbn [flat_map]; [reflexivity|].
  rewrite !filter_app, IH. reflexivity.
Qed.

Lemma cm_filter_split {A} (p q : A -> bool) l :
  length (filter p l) = (length (filter p (filter q l)) + length (filter p (filter (fun e => negb (q e)) l)))%nat.
Proof.
  induction l as [|e l IH]; [reflexivity|]. cbn [filter].
  destruct (q e); cbn [negb filter]; destruct (p e); cbn [length]; lia.
Qed.

Lemma cm_nout_map (g : mig_store -> mig_store) l : (forall e, ms_out (g e) = ms_out e) ->
  length (filter ms_out (map g l)) = length (filter ms_out l).
Proof.
  intros Hg. induction l as [|e l IH]; [reflexivity|]. cbn [map filter]. rewrite Hg.
  destruct (ms_out e); cbn [length]; lia.
Qed.

Definition cm_chunk_nout (c : chunk) : nat := (length (filter ms_out (ck_mig0 c)) + length (filter ms_out (ck_mig1 c)))%nat.

Lemma cm_out_entries_cons c l : length (out_entries (c :: l)) = (cm_chunk_nout c + length (out_entries l))%nat.
Proof. unfold out_entries, cm_chunk_nout. cbn [flat_map]. rewrite !app_length. lia. Qed.

Lemma cm_out_entries_app a b : length (out_entries (a ++ b)) = (length (out_entries a) + length (out_entries b))%nat.
Proof. unfold out_entries. rewrite flat_map_app, app_length. reflexivity. Qed.

Lemma cm_nout_Forall2 (R : chunk -> chunk -> Prop) l l' :
  (forall c c', R c c' -> cm_chunk_nout c' = cm_chunk_nout c) -> Forall2 R l l' ->
  length (out_entries l') = length (out_entries l).
Proof.
  intros HR H. induction H as [|c c' l l' Hc _ IH]; [reflexivity|].
  rewrite !cm_out_entries_cons, IH, (HR _ _ Hc). reflexivity.
Qed.

(* the out entry found is the one and only entry removed by `filter keep` *)
Lemma cm_commit_found chunks rl ep si sp di dp :
  part_inv chunks ->
  find_entry_chunks 0 chunks rl ep true = Some (si, sp) ->
  find_entry_chunks 0 chunks rl ep false = Some (di, dp) ->
  filter (fun e => negb (keepf rl (mkMeta ep si sp di dp) e)) (all_entries chunks) = [mkMig rl true (mkMeta ep si sp di dp)].
Proof.
  intros H Hfo Hfi. pose proof H as [Sz W Nn C B T].
  set (meta := mkMeta ep si sp di dp).
  set (x := mkMig rl true meta).
  apply find_entry_spec in Hfo. destruct Hfo as (_ & x0 & Hx0 & Hxr & Hxe & Hxo). rewrite Nat.sub_0_r in Hx0.
  apply find_entry_spec in Hfi. destruct Hfi as (_ & y0 & Hy0 & Hyr & Hye & Hyo). rewrite Nat.sub_0_r in Hy0.
  destruct (T _ _ Hx0) as (Tx1 & _ & _). destruct (T _ _ Hy0) as (Ty1 & _ & Ty3).
  unfold own_pos in Tx1, Ty1. rewrite Hxo in Tx1. rewrite Hyo in Ty1.
  unfold twin_pos in Ty3. rewrite Hyo in Ty3.
  assert (Hxy : x0 = twin y0).
  { eapply out_unique; [exact H|exact Hx0|exact Ty3|exact Hxo| |].
    - cbn [twin ms_out]. rewrite Hyo. reflexivity.
    - cbn [twin ms_ranges]. congruence. }
  assert (Ex : x0 = x).
  { destruct x0 as [xr xo [xe xa xb xc xd]]. destruct y0 as [yr yo [ye ya yb yc yd]].
    unfold src_pos, dst_pos, twin in *. cbn [ms_ranges ms_out ms_meta mm_epoch mm_src_idx mm_src_part mm_dst_idx mm_dst_part] in *.
    inversion Hxy; subst. inversion Tx1; inversion Ty1; subst. reflexivity. }
  clear Hxy Hxr Hxe Hxo Hyr Hye Hyo Tx1 Ty1 Ty3 Hy0 y0. subst x0.
  assert (Hne : rl <> []) by (apply (Nn _ _ Hx0)).
  assert (Hwrl : Forall wf_range rl) by (apply (entry_wf _ _ _ H Hx0)).
  destruct (hit_slot rl Hne Hwrl) as [s0 Hs0].
  assert (Hown1 : (cnt s0 (all_out chunks) <= 1)%nat).
  { pose proof (owned_split chunks s0). pose proof (covers_once_le _ s0 C). lia. }
  assert (Hall : forall e, In e (filter (fun e => negb (keepf rl meta e)) (all_entries chunks)) -> e = x).
  { intros e He. apply filter_In in He. destruct He as [_ He]. apply negb_true_iff in He. apply keepf_false in He. exact He. }
  assert (Hin : In x (filter (fun e => negb (keepf rl meta e)) (all_entries chunks))).
  { apply filter_In. split; [eapply entries_at_all; exact Hx0|]. apply negb_true_iff. apply keepf_false. reflexivity. }
  pose proof (out_ranges_partition (keepf rl meta) (all_entries chunks) s0) as Hp.
  rewrite <- all_out_entries in Hp.
  destruct (filter (fun e => negb (keepf rl meta e)) (all_entries chunks)) as [|a [|b r]].
  - destruct Hin.
  - rewrite (Hall a (or_introl eq_refl)). reflexivity.
  - exfalso. rewrite (Hall a (or_introl eq_refl)), (Hall b (or_intror (or_introl eq_refl))) in Hp.
    rewrite !out_ranges_cons, !cnt_app in Hp. cbn [x ms_out ms_ranges] in Hp. lia.
Qed.

(* stage 1 removes exactly one out entry *)
Lemma cm_stage1_pending chunks rl ep si sp di dp :
  part_inv chunks ->
  find_entry_chunks 0 chunks rl ep true = Some (si, sp) ->
  find_entry_chunks 0 chunks rl ep false = Some (di, dp) ->
  S (length (out_entries (map (Fk rl (mkMeta ep si sp di dp)) chunks))) = length (out_entries chunks).
Proof.
  intros H Hfo Hfi. rewrite !cm_out_entries_all, all_entries_Fk.
  rewrite (cm_filter_split ms_out (keepf rl (mkMeta ep si sp di dp)) (all_entries chunks)).
  rewrite (cm_commit_found chunks rl ep si sp di dp H Hfo Hfi). cbn [filter ms_out length]. lia.
Qed.

(* stage 2 touches only an in entry *)
Lemma cm_Rc_nout rl meta c c' : Rc rl meta c c' -> cm_chunk_nout c' = cm_chunk_nout c.
Proof.
  intros (part & l1 & l2 & Ec & Ec').
  assert (M1 : ck_mig c' part = l1 ++ l2) by (rewrite Ec', ck_mig_merge_into, ck_mig_set_same; reflexivity).
  assert (M2 : ck_mig c' (negb part) = ck_mig c (negb part)) by (rewrite Ec', ck_mig_merge_into, ck_mig_set_other; reflexivity).
  assert (Hp : length (filter ms_out (ck_mig c' part)) = length (filter ms_out (ck_mig c part))).
  { rewrite M1, Ec, !filter_app. cbn [filter ms_out]. reflexivity. }
  unfold cm_chunk_nout. destruct part; cbn [ck_mig negb] in *; rewrite Hp, M2; reflexivity.
Qed.

Lemma cm_commit_in_pending rl meta l : length (out_entries (commit_in l rl meta)) = length (out_entries l).
Proof.
  destruct (commit_in_spec rl meta l) as [Hno|(pre & c & c' & post & E1 & E2 & HR)].
  - rewrite cm_commit_in_none by exact Hno. reflexivity.
  - rewrite E2, E1, !cm_out_entries_app, !cm_out_entries_cons, (cm_Rc_nout _ _ _ _ HR). reflexivity.
Qed.

(* stage 3: compaction keeps directions *)
Lemma cm_compact_pending l : length (out_entries (compact_slots l)) = length (out_entries l).
Proof.
  unfold compact_slots. apply (cm_nout_Forall2 (fun c c' => c' = compact_chunk c)).
  - intros c c' ->. unfold cm_chunk_nout. cbn [compact_chunk ck_mig0 ck_mig1].
    rewrite !cm_nout_map by reflexivity. reflexivity.
  - apply Forall2_map_self. reflexivity.
Qed.

Theorem commit_decreases_pending s name rl tag ep cl :
  store_part_inv s -> alookup name (st_clusters s) = Some cl ->
  snd (commit_migration s name rl tag ep) = Done tt ->
  exists cl', alookup name (st_clusters (fst (commit_migration s name rl tag ep))) = Some cl' /\ S (pending cl') = pending cl.
Proof.
  intros H Hl. assert (Hcl : part_inv (cl_chunks cl)) by (eapply store_inv_lookup; eassumption).
  unfold commit_migration. rewrite Hl.
  assert (Hmain :
    snd match find_entry_chunks 0 (cl_chunks cl) rl ep true with
    | Some (si, sp) =>
        match find_entry_chunks 0 (cl_chunks cl) rl ep false with
        | Some (di, dp) =>
            (bump (with_clusters s (ainsert name
               {| cl_epoch := st_epoch s + 1;
                  cl_chunks := compact_slots (commit_in (map (Fk rl (mkMeta ep si sp di dp)) (cl_chunks cl)) rl (mkMeta ep si sp di dp));
                  cl_config := cl_config cl |} (st_clusters s))), Done tt)
        | None => (s, Fail E_MigrationTaskNotFound)
        end
    | None => (s, Fail E_MigrationTaskNotFound)
    end = Done tt ->
    exists cl', alookup name (st_clusters (fst
    match find_entry_chunks 0 (cl_chunks cl) rl ep true with
    | Some (si, sp) =>
        match find_entry_chunks 0 (cl_chunks cl) rl ep false with
        | Some (di, dp) =>
            (bump (with_clusters s (ainsert name
               {| cl_epoch := st_epoch s + 1;
                  cl_chunks := compact_slots (commit_in (map (Fk rl (mkMeta ep si sp di dp)) (cl_chunks cl)) rl (mkMeta ep si sp di dp));
                  cl_config := cl_config cl |} (st_clusters s))), Done tt)
        | None => (s, Fail E_MigrationTaskNotFound)
        end
    | None => (s, Fail E_MigrationTaskNotFound)
    end)) = Some cl' /\ S (pending cl') = pending cl).
  { destruct (find_entry_chunks 0 (cl_chunks cl) rl ep true) as [[si sp]|] eqn:Eo; cbn [fst snd]; [|discriminate].
    destruct (find_entry_chunks 0 (cl_chunks cl) rl ep false) as [[di dp]|] eqn:Ei; cbn [fst snd]; [|discriminate].
    intros _. eexists. split.
    - unfold bump, with_clusters, with_epoch. cbn [st_clusters]. apply alookup_ainsert_same.
    - unfold pending. cbn [cl_chunks]. rewrite cm_compact_pending, cm_commit_in_pending.
      apply cm_stage1_pending; assumption. }
  destruct tag; cbn [fst snd]; [discriminate|exact Hmain|exact Hmain].
Qed.

(* ---------- pending = 0 iff not migrating ---------- *)
Lemma cm_entry_in_out_entries l pos e : In e (entries_at l pos) -> ms_out e = true -> In e (out_entries l).
Proof. intros He Ho. rewrite cm_out_entries_all. apply filter_In. split; [eapply entries_at_all; exact He|exact Ho]. Qed.

Lemma pending_zero_iff cl : part_inv (cl_chunks cl) -> (pending cl = 0%nat <-> cluster_is_migrating cl = false).
Proof.
  intros H. split; [|apply not_migrating_no_pending].
  intros Hp. destruct (cluster_is_migrating cl) eqn:E; [exfalso|reflexivity].
  unfold cluster_is_migrating in E. apply existsb_exists in E. destruct E as (c & Hc & Hm).
  assert (He : exists p e, In e (ck_mig c p)).
  { unfold chunk_is_migrating in Hm. destruct (ck_mig0 c) as [|e0 r0] eqn:E0.
    - destruct (ck_mig1 c) as [|e1 r1] eqn:E1; [discriminate|]. exists true, e1. cbn [ck_mig]. rewrite E1. left. reflexivity.
    - exists false, e0. cbn [ck_mig]. rewrite E0. left. reflexivity. }
  destruct He as (p & e & He). destruct (In_entries_at _ c Hc) as [i Hi]. rewrite <- (Hi p) in He.
  assert (Hex : exists e', In e' (out_entries (cl_chunks cl))).
  { destruct (ms_out e) eqn:Ho.
    - exists e. eapply cm_entry_in_out_entries; eassumption.
    - destruct (pi_twin _ H _ _ He) as (_ & _ & Ht). exists (twin e). eapply cm_entry_in_out_entries; [exact Ht|].
      cbn [twin ms_out]. rewrite Ho. reflexivity. }
  destruct Hex as [e' He']. unfold pending in Hp. destruct (out_entries (cl_chunks cl)); [destruct He'|discriminate].
Qed.

(* ---------- takeover_master keeps the measure ---------- *)
Lemma cm_ms_out_set_epoch ne e : ms_out (set_mig_epoch ne e) = ms_out e.
Proof. reflexivity. Qed.

Lemma cm_ms_out_reepoch ps ne e : ms_out (reepoch_peers ps ne e) = ms_out e.
Proof. destruct (keeps_shape_reepoch ps ne e) as (_ & Ho & _). exact Ho. Qed.

Lemma cm_touched_nout ne ps l l1 : part_touched ne ps l l1 -> length (filter ms_out l1) = length (filter ms_out l).
Proof. intros [->|[-> _]]; [reflexivity|]. apply cm_nout_map. apply cm_ms_out_set_epoch. Qed.

Lemma takeover_master_pending cl failed ne : pending (takeover_master cl failed ne) = pending cl.
Proof.
  unfold takeover_master, pending.
  destruct (takeover_first (cl_chunks cl) failed ne) as [[chunks1 ps]|] eqn:E; [|reflexivity].
  cbn [cl_chunks]. apply takeover_first_spec in E.
  apply (cm_nout_Forall2 (fun c c' => cm_chunk_nout c' = cm_chunk_nout c)); [auto|].
  eapply Forall2_map_right; [|exact E].
  intros c c1 (_ & _ & T0 & T1). unfold cm_chunk_nout. cbn [set_mig ck_mig0 ck_mig1].
  rewrite !cm_nout_map by (apply cm_ms_out_reepoch).
  rewrite (cm_touched_nout _ _ _ _ T0), (cm_touched_nout _ _ _ _ T1). reflexivity.
Qed.
