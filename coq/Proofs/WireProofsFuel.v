(* The fuel given to the loops always suffices: the out-of-fuel error is unreachable. *)
From UM Require Import Base.BytesDef Base.Dec Model.Wire Proofs.WireProofsBase Proofs.WireProofsLeaf Proofs.WireProofsCluster Proofs.WireProofsRepl Proofs.WireProofsSound.
From Coq Require Import ZifyBool ZifyNat ZifyN.

Lemma PN_no_fuel : forall n toks acc, (length toks <= n)%nat -> PN toks acc <> Err EFuel.
Proof.
  induction n as [|n IH]; intros toks acc Hn.
  - destruct toks; [|cbn in Hn; lia]. rewrite PN_nil. discriminate.
  - destruct toks as [|a t]; [rewrite PN_nil; discriminate|].
    destruct (is_section_kw a) eqn:Ea; [rewrite (PN_kw a t acc Ea); discriminate|].
    rewrite (PN_step a t acc Ea). destruct (parse_sr t) as [[sr r']|e|] eqn:E; try discriminate.
    apply parse_sr_len in E. apply IH. cbn [length] in Hn. lia.
Qed.

Lemma parse_nodemap_no_fuel : forall toks, parse_nodemap toks <> Err EFuel.
Proof. intros toks. rewrite parse_nodemap_PN. apply (PN_no_fuel (length toks)). lia. Qed.

Lemma PL_no_fuel : forall n toks local p c e, (length toks <= n)%nat -> PL toks local p c e <> Err EFuel.
Proof.
  induction n as [|n IH]; intros toks local p c e Hn.
  - destruct toks; [|cbn in Hn; lia]. rewrite PL_nil. discriminate.
  - destruct toks as [|t r]; [rewrite PL_nil; discriminate|]. rewrite PL_cons. cbn [length] in Hn.
    destruct (bytes_eqb (to_upper t) kw_PEER).
    + destruct (parse_nodemap r) as [[nm r']|x|] eqn:E; try discriminate.
      * apply parse_nodemap_len in E. apply IH. lia.
      * intros F. inversion F; subst. exact (parse_nodemap_no_fuel r E).
    + destruct (bytes_eqb (to_upper t) kw_CONFIG); [|discriminate].
      destruct (parse_config r default_config) as [[c1|] r'] eqn:E; apply parse_config_len in E.
      * apply IH. lia.
      * destruct (is_nil local || is_nil p); [discriminate|]. apply IH. lia.
Qed.

Theorem parse_pcm_no_fuel : forall unpack toks, parse_pcm unpack toks <> Err EFuel.
Proof.
  intros unpack toks. unfold parse_pcm. destruct toks as [|v r0]; [discriminate|].
  destruct (negb (bytes_eqb v kw_v2)); [discriminate|]. destruct r0 as [|et r1]; [discriminate|].
  destruct (parse_u64 et); [|discriminate]. destruct r1 as [|ft r2]; [discriminate|].
  destruct (f_compress (flags_from_arg ft)).
  - destruct r2 as [|d ign]; [discriminate|]. destruct (unpack d) as [[[[a b] c] e]|]; discriminate.
  - destruct r2 as [|name r3]; [discriminate|]. destruct (negb (valid_cluster_name name)); [discriminate|].
    destruct (parse_nodemap r3) as [[local r4]|x|] eqn:E; try discriminate.
    + fold (PL r4 local [] default_config true).
      destruct (PL r4 local [] default_config true) as [[[p c] e]|x|] eqn:El; try discriminate.
      intros F. inversion F; subst. exact (PL_no_fuel (length r4) r4 local [] default_config true ltac:(lia) El).
    + intros F. inversion F; subst. exact (parse_nodemap_no_fuel r3 E).
Qed.

Lemma RL_no_fuel : forall n toks ms rs, (length toks <= n)%nat -> RL toks ms rs <> Err EFuel.
Proof.
  induction n as [|n IH]; intros toks ms rs Hn.
  - destruct toks; [|cbn in Hn; lia]. rewrite RL_nil. discriminate.
  - destruct toks as [|role r1]; [rewrite RL_nil; discriminate|]. unfold RL. rewrite repl_loop_S.
    destruct r1 as [|name r2]; [discriminate|]. destruct (negb (valid_cluster_name name)); [discriminate|].
    destruct r2 as [|addr r3]; [discriminate|]. destruct r3 as [|ct r4]; [discriminate|].
    destruct (parse_u64 ct) as [cnt|]; [|discriminate].
    destruct (parse_peers r4 cnt) as [[peers r5]|] eqn:Ep; [|discriminate].
    apply parse_peers_len in Ep. cbn [length] in Hn |- *.
    destruct (bytes_eqb (to_upper role) kw_MASTER).
    + rewrite (repl_loop_fuel _ r5 _ _ (S (length r5))) by lia. apply IH. lia.
    + destruct (bytes_eqb (to_upper role) kw_REPLICA); [|discriminate].
      rewrite (repl_loop_fuel _ r5 _ _ (S (length r5))) by lia. apply IH. lia.
Qed.

Theorem parse_repl_no_fuel : forall toks, parse_repl toks <> Err EFuel.
Proof.
  intros toks. unfold parse_repl. destruct toks as [|et r1]; [discriminate|].
  destruct (parse_u64 et); [|discriminate]. destruct r1 as [|ft r2]; [discriminate|].
  fold (RL r2 [] []). destruct (RL r2 [] []) as [[ms rs]|x|] eqn:E; try discriminate.
  intros F. inversion F; subst. exact (RL_no_fuel (length r2) r2 [] [] ltac:(lia) E).
Qed.
