(* Content of a served broker view (everything but its epoch) flattened to nested tuples / lists / options of N and bool,
   injectively.  Used to give every content an identifier (CtrlProofsBrokerEnc.v). *)
From UM Require Import Base.BytesDef Model.Ranges Model.Broker Proofs.BrokerEpochInv.

Definition fmeta := (N * N * N * N * N)%type.
Definition fslot := (list (N * N) * option (bool * fmeta))%type.
Definition fnode := (N * N * bool * list fslot * N * N)%type.
Definition fcontent := (option N * list fnode * list (N * list fslot) * option N)%type.

Definition flat_meta (m : vmeta) : fmeta :=
  (vm_epoch m, vm_src_proxy m, vm_src_node m, vm_dst_proxy m, vm_dst_node m).

Definition flat_tag (t : vtag) : option (bool * fmeta) :=
  match t with
  | VNone => None
  | VMigrating m => Some (true, flat_meta m)
  | VImporting m => Some (false, flat_meta m)
  end.

Definition flat_slot (s : vslot) : fslot := (fst s, flat_tag (snd s)).

Definition flat_node (n : vnode) : fnode :=
  (vn_addr n, vn_proxy n, vn_master n, map flat_slot (vn_slots n), vn_peer_node n, vn_peer_proxy n).

Definition flat_peer (p : N * list vslot) : N * list fslot := (fst p, map flat_slot (snd p)).

Definition flat_content (v : vproxy) : fcontent :=
  (vp_cluster v, map flat_node (vp_nodes v), map flat_peer (vp_peers v), vp_config v).

Lemma map_injective {A B} (f : A -> B) : (forall x y, f x = f y -> x = y) -> forall l l', map f l = map f l' -> l = l'.
Proof.
  intros Hf. induction l as [|x l IH]; intros [|y l'] H; cbn [map] in H; try discriminate; [reflexivity|].
  inversion H. f_equal; auto.
Qed.

Lemma flat_meta_inj : forall m m', flat_meta m = flat_meta m' -> m = m'.
Proof. intros [a b c d e] [a' b' c' d' e'] H. unfold flat_meta in H. cbn in H. inversion H. reflexivity. Qed.

Lemma flat_tag_inj : forall t t', flat_tag t = flat_tag t' -> t = t'.
Proof.
  intros [|m|m] [|m'|m'] H; cbn [flat_tag] in H; try discriminate; try reflexivity;
    (assert (H1 : flat_meta m = flat_meta m') by congruence); apply flat_meta_inj in H1; subst; reflexivity.
Qed.

Lemma flat_slot_inj : forall s s', flat_slot s = flat_slot s' -> s = s'.
Proof.
  intros [r t] [r' t'] H. unfold flat_slot in H. cbn [fst snd] in H.
  assert (H1 : r = r') by congruence. assert (H2 : flat_tag t = flat_tag t') by congruence.
  apply flat_tag_inj in H2. subst. reflexivity.
Qed.

Lemma flat_node_inj : forall n n', flat_node n = flat_node n' -> n = n'.
Proof.
  intros [a p m s pn pp] [a' p' m' s' pn' pp'] H. unfold flat_node in H.
  cbn [vn_addr vn_proxy vn_master vn_slots vn_peer_node vn_peer_proxy] in H.
  assert (H4 : map flat_slot s = map flat_slot s') by congruence.
  apply (map_injective flat_slot flat_slot_inj) in H4. subst. f_equal; congruence.
Qed.

Lemma flat_peer_inj : forall p p', flat_peer p = flat_peer p' -> p = p'.
Proof.
  intros [a s] [a' s'] H. unfold flat_peer in H. cbn [fst snd] in H.
  assert (H1 : a = a') by congruence. assert (H2 : map flat_slot s = map flat_slot s') by congruence.
  apply (map_injective flat_slot flat_slot_inj) in H2. subst. reflexivity.
Qed.

Lemma flat_content_inj : forall v v', flat_content v = flat_content v' -> vp_content v = vp_content v'.
Proof.
  intros v v' H. unfold flat_content in H.
  assert (H1 : vp_cluster v = vp_cluster v') by congruence.
  assert (H2 : map flat_node (vp_nodes v) = map flat_node (vp_nodes v')) by congruence.
  assert (H3 : map flat_peer (vp_peers v) = map flat_peer (vp_peers v')) by congruence.
  assert (H4 : vp_config v = vp_config v') by congruence.
  apply (map_injective flat_node flat_node_inj) in H2. apply (map_injective flat_peer flat_peer_inj) in H3.
  unfold vp_content. congruence.
Qed.
