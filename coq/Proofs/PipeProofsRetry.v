(* Proofs about Model/Pipe.v (property C08), part 3: the retry bound of the repaired code (hoisted = true), and the
   witness that the code as found (hoisted = false) has no bound. *)
From Coq Require Import List Arith Lia NArith Bool.
From UM Require Import Base.BytesDef Base.PipeUtil Model.Pipe Proofs.PipeProofs.
Import ListNotations.
Local Open Scope nat_scope.

Definition rt_eff (s : state) : nat :=
  match s_mode s with
  | MConnected => match c_retry_in (s_conn s) with Some (n, _) => n | None => rt_val (c_rt (s_conn s)) end
  | _ => match s_retry s with Some (n, _) => n | None => 0 end
  end.

Definition active (s : state) : list tid :=
  c_tasks (s_conn s) ++ retry_tasks (c_retry_in (s_conn s)) ++ retry_tasks (s_retry s).

Definition fails (s : state) : list tid := g_fails (s_ghost s).

Definition retry_inv (sub : list tid) (s : state) : Prop :=
  (forall t, In t (s_chan s) -> count_tid t (fails s) = 0) /\
  (forall t, In t (active s) -> count_tid t (fails s) <= rt_eff s) /\
  rt_eff s <= MAX_BACKEND_RETRY /\
  (forall t, MAX_BACKEND_RETRY < count_tid t (fails s) -> exists o, In (t, o) (s_done s) /\ is_error o = true) /\
  (forall t, 0 < count_tid t (fails s) -> 0 < count_tid t sub).

Lemma retry_inv_init : retry_inv [] init.
Proof.
  unfold retry_inv, init, rt_eff, active, fails; cbn. repeat split; intros; try contradiction; try lia.
Qed.

Lemma pending_facts : forall sub s, base_inv sub s -> NoDup sub ->
  (forall t, count_tid t (pending s) <= 1) /\ (forall t, In t (pending s) -> 0 < count_tid t sub).
Proof.
  intros sub s [_ A] N. pose proof (proj1 (nodup_cnt _) N) as N'. split; intros t.
  - specialize (A t). specialize (N' t). lia.
  - intros H. apply cnt_in in H. specialize (A t). lia.
Qed.

Lemma cmd_err_is_error : forall e, is_error (cmd_err_of e) = true.
Proof. destruct e; reflexivity. Qed.

(* a connection of state s fails; only the listed fields of s matter *)
Lemma retry_inv_conn_fail : forall sub s rt e b,
  (forall t, count_tid t (s_chan s ++ c_tasks (s_conn s)) <= 1) ->
  (forall t, In t (c_tasks (s_conn s)) -> 0 < count_tid t sub) ->
  s_mode s = MConnected -> c_retry_in (s_conn s) = None -> s_retry s = None ->
  (rt_val rt = rt_val (c_rt (s_conn s)) \/ rt_val rt = MAX_BACKEND_RETRY) ->
  retry_inv sub s -> retry_inv sub (conn_fail s rt e b).
Proof.
  intros sub s rt e b P1 P2 M Ri Rs Hrt (F0 & F1 & F2 & F3 & F4).
  destruct (conn_fail_spec s rt e b) as (Hm & Hch & _ & Hc & Hg & Hd).
  unfold retry_inv, rt_eff, active, fails in *. rewrite Hm, Hch, Hc, Hg. rewrite M, Ri, Rs in *.
  cbn [c_tasks c_retry_in retry_tasks g_fails app] in *. rewrite app_nil_r in *.
  assert (Q : forall t, In t (c_tasks (s_conn s)) -> count_tid t (c_tasks (s_conn s)) = 1 /\ ~ In t (s_chan s)).
  { intros t Hin. specialize (P1 t). rewrite cnt_app in P1. apply cnt_in in Hin. split; [lia |].
    intros Hc'. apply cnt_in in Hc'. lia. }
  destruct Hd as [(Hge & Hr & Hdn) | (Hlt & Hr & Hdn)]; rewrite Hr, Hdn; cbn [retry_tasks].
  - (* retries exhausted: every failed task is answered with an error *)
    split; [| split; [| split; [| split]]].
    + intros t Hin. rewrite cnt_app. rewrite (F0 t Hin).
      assert (count_tid t (c_tasks (s_conn s)) = 0); [| lia].
      destruct (count_tid t (c_tasks (s_conn s))) eqn:Ec; [reflexivity |].
      exfalso. assert (Hin' : In t (c_tasks (s_conn s))) by (apply cnt_in; lia). apply Q in Hin'. tauto.
    + intros t [].
    + lia.
    + intros t Hgt. rewrite cnt_app in Hgt.
      destruct (count_tid t (c_tasks (s_conn s))) eqn:Ec.
      * destruct (F3 t ltac:(lia)) as [o [Ho He]]. exists o. split; [apply in_or_app; right; exact Ho | exact He].
      * assert (Hin' : In t (c_tasks (s_conn s))) by (apply cnt_in; lia).
        exists (cmd_err_of e). split; [| apply cmd_err_is_error].
        apply in_or_app. left. apply (in_map (fun x : tid => (x, cmd_err_of e))) in Hin'. exact Hin'.
    + intros t Hgt. rewrite cnt_app in Hgt.
      destruct (count_tid t (c_tasks (s_conn s))) eqn:Ec; [apply F4; lia |].
      apply P2. apply cnt_in. lia.
  - (* one more retry *)
    assert (Hv : rt_val rt = rt_val (c_rt (s_conn s))) by (destruct Hrt; [assumption | lia]).
    split; [| split; [| split; [| split]]].
    + intros t Hin. rewrite cnt_app. rewrite (F0 t Hin).
      assert (count_tid t (c_tasks (s_conn s)) = 0); [| lia].
      destruct (count_tid t (c_tasks (s_conn s))) eqn:Ec; [reflexivity |].
      exfalso. assert (Hin' : In t (c_tasks (s_conn s))) by (apply cnt_in; lia). apply Q in Hin'. tauto.
    + intros t Hin. rewrite cnt_app. destruct (Q t Hin) as [Q1 _]. specialize (F1 t Hin). lia.
    + lia.
    + intros t Hgt. rewrite cnt_app in Hgt.
      destruct (count_tid t (c_tasks (s_conn s))) eqn:Ec; [apply F3; lia |].
      assert (Hin' : In t (c_tasks (s_conn s))) by (apply cnt_in; lia).
      destruct (Q t Hin') as [Q1 _]. specialize (F1 t Hin'). lia.
    + intros t Hgt. rewrite cnt_app in Hgt.
      destruct (count_tid t (c_tasks (s_conn s))) eqn:Ec; [apply F4; lia |].
      apply P2. apply cnt_in. lia.
Qed.

Lemma nodup_app_left : forall (A : Type) (a b : list A), NoDup (a ++ b) -> NoDup a.
Proof.
  induction a as [| x a IH]; intros b H; [constructor |].
  cbn in H. inversion H; subst. constructor; [| eapply IH; eauto].
  intros Hin. apply H2. apply in_or_app. auto.
Qed.

Lemma nodup_app_notin : forall (a b : list tid) t, NoDup (a ++ b) -> In t b -> count_tid t a = 0.
Proof.
  intros a b t N Hin. pose proof (proj1 (nodup_cnt _) N t) as C. rewrite cnt_app in C.
  apply cnt_in in Hin. lia.
Qed.

Ltac retry_unfold :=
  unfold retry_inv, rt_eff, active, fails, set_conn, set_chan, add_done, set_ghost in *;
  cbn [s_mode s_conn_failed s_chan s_retry s_conn s_done s_ghost c_retry_in c_rt c_tasks c_packets c_written c_nread
       g_connno g_wlog g_rlog g_fails g_invalid retry_tasks] in *;
  try match goal with Hm : s_mode _ = _ |- _ => rewrite Hm in * end.

Ltac split5r := split; [| split; [| split; [| split]]].

Lemma f4_mono : forall (sub extra fl : list tid),
  (forall t, 0 < count_tid t fl -> 0 < count_tid t sub) ->
  (forall t, 0 < count_tid t fl -> 0 < count_tid t (sub ++ extra)).
Proof. intros sub extra fl H t Ht. rewrite cnt_app. specialize (H t Ht). lia. Qed.

Lemma f3_grow : forall (fl : list tid) (d extra : list (tid * outcome)),
  (forall t, MAX_BACKEND_RETRY < count_tid t fl -> exists o, In (t, o) d /\ is_error o = true) ->
  (forall t, MAX_BACKEND_RETRY < count_tid t fl -> exists o, In (t, o) (extra ++ d) /\ is_error o = true).
Proof. intros fl d extra H t Ht. destruct (H t Ht) as [o [Ho He]]. exists o. split; [apply in_or_app; auto | auto]. Qed.

Lemma retry_inv_step : forall sub s e s',
  step true s e = Some s' -> base_inv sub s -> NoDup (sub ++ submitted [e]) ->
  retry_inv sub s -> retry_inv (sub ++ submitted [e]) s'.
Proof.
  intros sub s e s' H B N R.
  assert (Ns : NoDup sub) by (eapply nodup_app_left; eauto).
  destruct (pending_facts sub s B Ns) as [PF1 PF2].
  destruct B as [[I1 [I2 I3]] A].
  destruct R as (F0 & F1 & F2 & F3 & F4).
  assert (CF : forall rt e0 b s1,
             s_mode s1 = MConnected -> c_retry_in (s_conn s1) = None -> s_retry s1 = None ->
             s_chan s1 = s_chan s -> c_tasks (s_conn s1) = c_tasks (s_conn s) ->
             (rt_val rt = rt_val (c_rt (s_conn s1)) \/ rt_val rt = MAX_BACKEND_RETRY) ->
             retry_inv sub s1 -> retry_inv sub (conn_fail s1 rt e0 b)).
  { intros rt e0 b s1 M1 R1 R2 C1 C2 Hrt RI. apply retry_inv_conn_fail; auto.
    - intros t. rewrite C1, C2. specialize (PF1 t). unfold pending in PF1. rewrite !cnt_app in *. lia.
    - intros t Hin. rewrite C2 in Hin. apply PF2. unfold pending. apply in_or_app. right. apply in_or_app. auto. }
  destruct e; cbn [submitted] in *; rewrite ?app_nil_r in *.
  - (* Submit *)
    destr_step H; retry_unfold; split5r; auto; try (apply f4_mono; assumption).
    + apply (f3_grow _ _ [(t, ORefused)]); auto.
    + intros x Hin. apply in_app_or in Hin. destruct Hin as [Hin | [Hx | []]]; [auto |]. subst x.
      destruct (count_tid t (g_fails (s_ghost s))) eqn:Ec; [reflexivity |].
      specialize (F4 t ltac:(lia)). rewrite (nodup_app_notin sub [t] t N) in F4; [lia | left; reflexivity].
  - (* SubmitMulti *)
    destr_step H; retry_unfold; rewrite ?pmap_map; try (split5r; auto; try (apply f4_mono; assumption); fail).
    + split5r; auto; try (apply f4_mono; assumption).
      apply (f3_grow _ _ ((t, ORefused) :: map (fun x : tid => (x, OMultiPartial)) l)); auto.
    + split5r; auto; try (apply f4_mono; assumption).
      intros x Hin. apply in_app_or in Hin. destruct Hin as [Hin | Hin]; [auto |].
      destruct (count_tid x (g_fails (s_ghost s))) eqn:Ec; [reflexivity |].
      specialize (F4 x ltac:(lia)). rewrite (nodup_app_notin sub ts x N) in F4; [lia | exact Hin].
  - (* ConnOk *)
    destr_step H; retry_unfold; use_inv. rw_fields. cbn [app retry_tasks] in *.
    split5r; auto. intros x Hin. rewrite app_nil_r in Hin. apply F1. exact Hin.
  - (* ConnFail *)
    destr_step H; retry_unfold; use_inv. rw_fields. rewrite ?pmap_map. cbn [app retry_tasks] in *.
    split5r; auto; try lia.
    + intros x [].
    + apply f3_grow; auto.
  - (* WaitDone *)
    destr_step H; retry_unfold. split5r; auto.
  - (* Poll *)
    destr_step H; retry_unfold; use_inv.
    + rw_fields. cbn [app retry_tasks rt_val] in *. rewrite app_nil_r in *. split5r; auto.
    + rw_fields. split5r; auto.
  - (* Arrive *)
    destr_step H; bool_hyps; retry_unfold; use_inv.
    + rw_fields. cbn [app retry_tasks] in *. split5r; auto.
      * intros x Hin. apply F0. right. exact Hin.
      * intros x Hin. rewrite !app_nil_r in Hin. apply in_app_or in Hin. destruct Hin as [Hin | [Hx | []]].
        -- apply F1. rewrite ?app_nil_r. exact Hin.
        -- subst x. rewrite F0; [lia | left; reflexivity].
    + rw_fields. split5r; auto.
      * intros x Hin. apply F0. right. exact Hin.
      * apply (f3_grow _ _ [(t0, OConnectFailed)]); auto.
  - (* WriteOk *)
    destr_step H; bool_hyps.
    + retry_unfold. rw_fields. split5r; auto.
    + apply CF; cbn; auto. retry_unfold. rw_fields. split5r; auto.
  - (* WriteErr *)
    destr_step H; bool_hyps. use_inv. apply CF; auto. unfold retry_inv; auto.
  - (* Reply *)
    destr_step H; bool_hyps; use_inv.
    + apply CF; cbn; auto. retry_unfold. rw_fields. split5r; auto.
    + retry_unfold. rw_fields. cbn [app retry_tasks rt_val] in *. split5r; auto; try lia.
      * intros x [].
      * apply (f3_grow _ _ [(t, ORep r)]); auto.
    + retry_unfold. rw_fields. cbn [app retry_tasks] in *. split5r; auto.
      * intros x Hin. apply F1. right. exact Hin.
      * apply (f3_grow _ _ [(t, ORep r)]); auto.
  - (* ReadErr *)
    destr_step H; bool_hyps; use_inv.
    + apply CF; cbn; auto. retry_unfold. rw_fields. split5r; auto.
    + retry_unfold. rw_fields. cbn [app retry_tasks rt_val] in *. split5r; auto; try lia.
      * intros x [].
      * apply (f3_grow _ _ [(t, OTaskErr e)]); auto.
    + retry_unfold. rw_fields. cbn [app retry_tasks] in *. split5r; auto.
      * intros x Hin. apply F1. right. exact Hin.
      * apply (f3_grow _ _ [(t, OTaskErr e)]); auto.
  - (* Closed *)
    destr_step H; bool_hyps. use_inv. apply CF; auto. unfold retry_inv; auto.
  - (* Timeout *)
    destr_step H; bool_hyps. use_inv. apply CF; auto. unfold retry_inv; auto.
  - (* SenderClosed *)
    destr_step H; bool_hyps; retry_unfold; use_inv; rewrite ?pmap_map.
    + rw_fields. cbn [app retry_tasks] in *. split5r; auto; try lia; try (apply f3_grow; auto; fail);
        intros x Hin; destruct Hin.
    + rw_fields. split5r; auto; intros x Hin; destruct Hin.
Qed.

Lemma retry_inv_run : forall evs sub s s',
  run true s evs = Some s' -> base_inv sub s -> NoDup (sub ++ submitted evs) ->
  retry_inv sub s -> retry_inv (sub ++ submitted evs) s'.
Proof.
  induction evs as [| e evs IH]; intros sub s s' R B N I; cbn [run] in R.
  - injection R as <-. cbn [submitted]. rewrite app_nil_r. exact I.
  - destruct (step true s e) as [s1 |] eqn:E; [| discriminate].
    change (e :: evs) with ([e] ++ evs) in *. rewrite submitted_app, app_assoc in *.
    eapply (IH (sub ++ submitted [e])); eauto.
    + eapply base_inv_step; eauto.
    + eapply retry_inv_step; eauto. eapply nodup_app_left; eauto.
Qed.

(* The repaired code: a pending task has been part of at most MAX_BACKEND_RETRY failed connections, and a task that was
   part of more (i.e. MAX_BACKEND_RETRY + 1) failed connections has been answered with an error. *)
Theorem failure_is_error_hoisted : forall evs s,
  run true init evs = Some s -> NoDup (submitted evs) ->
  (forall t, In t (pending s) -> count_tid t (g_fails (s_ghost s)) <= MAX_BACKEND_RETRY) /\
  (forall t, MAX_BACKEND_RETRY < count_tid t (g_fails (s_ghost s)) ->
     exists o, In (t, o) (s_done s) /\ is_error o = true /\ ~ In t (pending s)).
Proof.
  intros evs s R N.
  pose proof (retry_inv_run evs [] init s R base_inv_init N retry_inv_init) as (F0 & F1 & F2 & F3 & F4).
  assert (P : forall t, In t (pending s) -> count_tid t (g_fails (s_ghost s)) <= MAX_BACKEND_RETRY).
  { intros t Hin. unfold pending in Hin. apply in_app_or in Hin. destruct Hin as [Hin | Hin].
    - specialize (F0 t Hin). unfold fails in F0. lia.
    - specialize (F1 t Hin). unfold fails in F1. lia. }
  split; [exact P |].
  intros t Hgt. destruct (F3 t Hgt) as [o [Ho He]]. exists o. repeat split; auto.
  intros Hin. specialize (P t Hin). lia.
Qed.

(* connect failure: the tasks of the retry state are cancelled, a task received during the failed window and a task
   handed to a node whose connection is marked failed are answered with an error reply *)
Theorem connect_failure_is_error : forall h s s',
  (step h s ConnFail = Some s' ->
     s_retry s' = None /\ forall t, In t (retry_tasks (s_retry s)) -> In (t, OCanceled) (s_done s')) /\
  (forall t, s_mode s = MFailedWait -> step h s (Arrive t) = Some s' -> In (t, OConnectFailed) (s_done s')) /\
  (forall t, s_conn_failed s = true -> step h s (Submit t) = Some s' -> In (t, ORefused) (s_done s')).
Proof.
  intros h s s'. split; [| split].
  - intros H. destr_step H. cbn. split; [reflexivity |]. intros t Hin. rewrite pmap_map.
    apply in_or_app. left. apply (in_map (fun x : tid => (x, OCanceled))) in Hin. exact Hin.
  - intros t M H. unfold step in H. rewrite M in H. destruct (s_chan s) as [| t' ch]; [discriminate |].
    destruct (tid_eqb t t') eqn:E; [| discriminate]. injection H as <-. cbn. left. reflexivity.
  - intros t F H. unfold step, refusing in H. rewrite F in H. cbn in H. injection H as <-. cbn. left. reflexivity.
Qed.

(* ---------------------------------------------------------------- the code as found has no bound *)
(* one connection that lets the first poll pass (request written) and breaks in a later poll *)
Definition break_after_first_poll (t : tid) : list event := [ConnOk; Poll; WriteOk t; Poll; Closed].

Fixpoint repeat_events (n : nat) (l : list event) : list event :=
  match n with O => [] | S k => l ++ repeat_events k l end.

Definition defect12_trace (n : nat) : list event :=
  [Submit 1%N; ConnOk; Poll; Arrive 1%N; WriteOk 1%N; Poll; Closed] ++ repeat_events n (break_after_first_poll 1%N).

Lemma run_app : forall h a b s, run h s (a ++ b) = match run h s a with Some s' => run h s' b | None => None end.
Proof. induction a; intros; cbn [app run]; [reflexivity |]. destruct (step h s a); auto. Qed.

Definition stuck_state (k : nat) (cn : nat) (wl : list (nat * nat * tid)) (fl : list tid) (w : list tid) (nr : nat) : state :=
  mkState MConnecting false [] (Some (1, [1%N])) (mkConn None None [] [] w nr) [] (mkGhost cn wl [] fl false).

Lemma stuck_cycle : forall cn wl fl w nr,
  exists wl' w', run false (stuck_state 0 cn wl fl w nr) (break_after_first_poll 1%N)
                 = Some (stuck_state 0 (S cn) wl' (1%N :: fl) w' 0).
Proof. intros. eexists. eexists. vm_compute. reflexivity. Qed.

Lemma stuck_repeat : forall n cn wl fl w nr,
  exists cn' wl' w' nr', run false (stuck_state 0 cn wl fl w nr) (repeat_events n (break_after_first_poll 1%N))
                 = Some (stuck_state 0 cn' wl' (repeat 1%N n ++ fl) w' nr').
Proof.
  induction n; intros; cbn [repeat_events repeat app].
  - do 4 eexists. reflexivity.
  - rewrite run_app. destruct (stuck_cycle cn wl fl w nr) as [wl1 [w1 E]]. rewrite E.
    destruct (IHn (S cn) wl1 (1%N :: fl) w1 0) as [cn' [wl' [w' [nr' E']]]]. rewrite E'.
    exists cn', wl', w', nr'. f_equal. unfold stuck_state. f_equal. f_equal.
    clear. induction n; cbn; [reflexivity | rewrite <- IHn; reflexivity].
Qed.

Lemma count_repeat : forall n l, count_tid 1%N (repeat 1%N n ++ l) = n + count_tid 1%N l.
Proof. induction n; intros; cbn [repeat app count_tid]; [reflexivity | rewrite IHn, tid_eqb_refl; lia]. Qed.

(* candidate defect 12: for every n there is a run of the code as found in which one task has been part of n + 1 failed
   connections, is still pending and has received nothing *)
Theorem failure_is_error_refuted_unhoisted : forall n,
  exists s, run false init (defect12_trace n) = Some s /\ NoDup (submitted (defect12_trace n)) /\
            In 1%N (pending s) /\ count_tid 1%N (g_fails (s_ghost s)) = S n /\ s_done s = [].
Proof.
  intros n. unfold defect12_trace. rewrite run_app.
  assert (E0 : run false init [Submit 1%N; ConnOk; Poll; Arrive 1%N; WriteOk 1%N; Poll; Closed]
               = Some (stuck_state 0 1 [(1, 0, 1%N)] [1%N] [1%N] 0)) by (vm_compute; reflexivity).
  rewrite E0. destruct (stuck_repeat n 1 [(1, 0, 1%N)] [1%N] [1%N] 0) as [cn' [wl' [w' [nr' E]]]].
  rewrite E. eexists. split; [reflexivity |]. split; [| split; [| split]].
  - rewrite submitted_app. cbn [submitted app].
    assert (S0 : forall k, submitted (repeat_events k (break_after_first_poll 1%N)) = []).
    { induction k; cbn [repeat_events]; [reflexivity | rewrite submitted_app, IHk; reflexivity]. }
    rewrite S0. repeat constructor. intros [].
  - unfold pending, stuck_state. cbn. left. reflexivity.
  - unfold stuck_state. cbn [s_ghost g_fails]. rewrite count_repeat. cbn [count_tid]. rewrite tid_eqb_refl. lia.
  - reflexivity.
Qed.

Example failure_is_error_example :
  (* the repaired code on the same schedule: the fourth failed connection answers the task with an error *)
  exists s, run true init (defect12_trace 3) = Some s /\ s_done s = [(1%N, OCmdBackend)] /\ pending s = [] /\
            count_tid 1%N (g_fails (s_ghost s)) = 4.
Proof. eexists. split; [vm_compute; reflexivity |]. repeat split. Qed.
