(* C06, part 2 in the node view (cluster_store_to_cluster): the owners of every part before and after takeover_master. *)
From UM Require Import Base.BytesDef Model.Ranges Model.Broker Proofs.BrokerBase Proofs.BrokerFailoverStruct
  Proofs.BrokerFailoverTakeover.

(* same slot ranges and same kind of tag (stable / migrating / importing); the addresses and epoch inside may differ *)
Definition same_slot (a b : vslot) : Prop :=
  fst b = fst a
  /\ match snd a, snd b with
     | VNone, VNone => True
     | VMigrating _, VMigrating _ => True
     | VImporting _, VImporting _ => True
     | _, _ => False
     end.

Lemma to_slot_range_same chunks chunks' m m' sl :
  length chunks' = length chunks -> same_but_epoch m m' -> to_slot_range chunks m = Some sl ->
  exists sl', to_slot_range chunks' m' = Some sl' /\ same_slot sl sl'.
Proof.
  intros Hlen (Hr & Ho & Hsi & Hsp & Hdi & Hdp). unfold to_slot_range. rewrite Hsi, Hdi, Hr, Ho.
  destruct (nth_error chunks (mm_src_idx (ms_meta m))) as [sc|] eqn:Es; [|discriminate].
  destruct (nth_error chunks (mm_dst_idx (ms_meta m))) as [dc|] eqn:Ed; [|discriminate].
  intros H. inversion H; subst sl; clear H.
  destruct (nth_error chunks' (mm_src_idx (ms_meta m))) as [sc'|] eqn:Es'.
  2:{ apply nth_error_None in Es'. assert (nth_error chunks (mm_src_idx (ms_meta m)) <> None) by congruence.
      apply nth_error_Some in H. lia. }
  destruct (nth_error chunks' (mm_dst_idx (ms_meta m))) as [dc'|] eqn:Ed'.
  2:{ apply nth_error_None in Ed'. assert (nth_error chunks (mm_dst_idx (ms_meta m)) <> None) by congruence.
      apply nth_error_Some in H. lia. }
  eexists. split; [reflexivity|]. unfold same_slot. cbn [fst snd]. split; [reflexivity|].
  destruct (ms_out m); exact I.
Qed.

Lemma map_opt_slots_same chunks chunks' l l' sls :
  length chunks' = length chunks -> Forall2 same_but_epoch l l' ->
  map_opt (to_slot_range chunks) l = Some sls ->
  exists sls', map_opt (to_slot_range chunks') l' = Some sls' /\ Forall2 same_slot sls sls'.
Proof.
  intros Hlen HF. revert sls. induction HF as [|m m' l l' Hm _ IH]; intros sls H; cbn [map_opt] in *.
  - inversion H. exists []. split; [reflexivity|constructor].
  - destruct (to_slot_range chunks m) as [sl|] eqn:E; [|discriminate].
    destruct (map_opt (to_slot_range chunks) l) as [r|]; [|discriminate].
    inversion H; subst sls; clear H.
    destruct (to_slot_range_same chunks chunks' m m' sl Hlen Hm E) as (sl' & -> & Hs).
    destruct (IH r eq_refl) as (r' & -> & Hr).
    exists (sl' :: r'). split; [reflexivity|constructor; assumption].
Qed.

Lemma part_slots_same chunks chunks' cj cj' p s :
  length chunks' = length chunks -> ck_stable cj' p = ck_stable cj p ->
  Forall2 same_but_epoch (ck_mig cj p) (ck_mig cj' p) ->
  part_slots chunks cj p = Some s ->
  exists s', part_slots chunks' cj' p = Some s' /\ Forall2 same_slot s s'.
Proof.
  intros Hlen Hst HF H. apply part_slots_inv in H. destruct H as (sl & Hm & ->).
  destruct (map_opt_slots_same chunks chunks' _ _ sl Hlen HF Hm) as (sl' & Hm' & Hs).
  unfold part_slots. rewrite Hm', Hst. eexists. split; [reflexivity|].
  apply Forall2_app; [|exact Hs].
  destruct (ck_stable cj p); constructor; [|constructor]. split; [reflexivity|exact I].
Qed.

Lemma nth_mk_nodes c s0 s1 i :
  (i < 4)%nat -> nth_error (map (mk_node c s0 s1) [0; 1; 2; 3]%nat) i = Some (mk_node c s0 s1 i).
Proof. intros Hi. destruct i as [|[|[|[|i]]]]; try reflexivity. lia. Qed.

Lemma nth_mk_nodes_inv c s0 s1 i n :
  nth_error (map (mk_node c s0 s1) [0; 1; 2; 3]%nat) i = Some n -> n = mk_node c s0 s1 i.
Proof.
  intros H. destruct i as [|[|[|[|i]]]]; cbn [map nth_error] in H; try (inversion H; reflexivity).
  destruct i; discriminate.
Qed.

Lemma part_node_index_lt p r : (part_node_index p r < 4)%nat.
Proof. destruct p, r; cbn; lia. Qed.

Lemma mk_node_owner_slots c s0 s1 p :
  vn_slots (mk_node c s0 s1 (part_node_index p (ck_role c))) = if p then s1 else s0.
Proof. unfold mk_node. cbn [vn_slots]. destruct p, (ck_role c); cbn; rewrite ?app_nil_r; reflexivity. Qed.

(* The node view of chunk j before (ns) and after (ns') the takeover of proxy f = proxy `pos` of chunk i:
   the view still exists; for every part the owner node is a master before and after and carries the same slot ranges
   with the same kind of tags; the owner of a part of chunk i that was on the failed proxy becomes that owner's
   replication peer (on the partner proxy), every other part keeps owner node and proxy; afterwards no node on the failed
   proxy position of chunk i is master. *)
Lemma takeover_view : forall cl f e i c pos j cj ns,
  first_at (cl_chunks cl) f i c pos ->
  nth_error (cl_chunks cl) j = Some cj ->
  chunk_nodes (cl_chunks cl) cj = Some ns ->
  exists cj' ns',
    nth_error (cl_chunks (takeover_master cl f e)) j = Some cj'
    /\ chunk_nodes (cl_chunks (takeover_master cl f e)) cj' = Some ns'
    /\ (forall p, exists old new,
          nth_error ns (part_node_index p (ck_role cj)) = Some old /\ vn_master old = true
          /\ nth_error ns' (part_node_index p (ck_role cj')) = Some new /\ vn_master new = true
          /\ Forall2 same_slot (vn_slots old) (vn_slots new)
          /\ (if Nat.eqb j i && Bool.eqb (part_proxy_index p (ck_role cj)) pos
              then vn_proxy old = f /\ vn_addr new = vn_peer_node old /\ vn_proxy new = vn_peer_proxy old
              else vn_addr new = vn_addr old /\ vn_proxy new = vn_proxy old))
    /\ (j = i -> forall k n, nth_error ns' k = Some n -> Nat.leb 2 k = pos -> vn_proxy n = f /\ vn_master n = false).
Proof.
  intros cl f e i c pos j cj ns Hf Hj Hns.
  destruct (takeover_ownership cl f e i c pos Hf) as (Hlen & Hch & Ht1 & Ht2 & Ht3 & Ht4).
  destruct (Hch j cj Hj) as (cj' & Hj' & Hst & Hmig & Hnode & Hprox & Hrole).
  rewrite chunk_nodes_eq in Hns.
  destruct (part_slots (cl_chunks cl) cj false) as [s0|] eqn:E0; [|discriminate].
  destruct (part_slots (cl_chunks cl) cj true) as [s1|] eqn:E1; [|discriminate].
  inversion Hns; subst ns; clear Hns.
  destruct (part_slots_same _ (cl_chunks (takeover_master cl f e)) cj cj' false s0 Hlen (Hst false) (Hmig false) E0)
    as (s0' & E0' & HS0).
  destruct (part_slots_same _ (cl_chunks (takeover_master cl f e)) cj cj' true s1 Hlen (Hst true) (Hmig true) E1)
    as (s1' & E1' & HS1).
  exists cj', (map (mk_node cj' s0' s1') [0; 1; 2; 3]%nat).
  split; [exact Hj'|]. split; [rewrite chunk_nodes_eq, E0', E1'; reflexivity|].
  split.
  - intros p.
    exists (mk_node cj s0 s1 (part_node_index p (ck_role cj))), (mk_node cj' s0' s1' (part_node_index p (ck_role cj'))).
    split; [apply nth_mk_nodes, part_node_index_lt|].
    split; [cbn [mk_node vn_master]; rewrite part_owner_is_master; reflexivity|].
    split; [apply nth_mk_nodes, part_node_index_lt|].
    split; [cbn [mk_node vn_master]; rewrite part_owner_is_master; reflexivity|].
    split; [rewrite !mk_node_owner_slots; destruct p; assumption|].
    cbn [mk_node vn_addr vn_proxy vn_peer_node vn_peer_proxy].
    rewrite Hnode, Hprox, Hrole.
    destruct (Nat.eqb j i) eqn:Eji; cbn [andb].
    + apply Nat.eqb_eq in Eji. subst j.
      assert (cj = c) by (destruct Hf as (Hn & _); congruence). subst cj.
      destruct (Bool.eqb (part_proxy_index p (ck_role c)) pos) eqn:Ep.
      * apply Bool.eqb_prop in Ep. rewrite (Ht2 p Ep).
        split; [rewrite part_index_agree, Ep; destruct Hf as (_ & Hp & _); exact Hp|]. split; [reflexivity|].
        rewrite ?peer_idx_other_proxy by apply part_node_index_lt.
        rewrite ?part_index_agree, ?Ht1, ?Ep. reflexivity.
      * assert (Ep' : part_proxy_index p (ck_role c) = negb pos)
          by (destruct (part_proxy_index p (ck_role c)), pos; cbn in Ep |- *; congruence).
        rewrite (Ht3 p Ep'). split; [reflexivity|]. rewrite ?part_index_agree, ?Ht1, ?Ep'. reflexivity.
    + split; reflexivity.
  - intros -> k n Hk Hpos. apply nth_mk_nodes_inv in Hk. subst n.
    cbn [mk_node vn_proxy vn_master]. rewrite Hprox, Hrole, Nat.eqb_refl, Hpos, (Ht4 k Hpos).
    assert (cj = c) by (destruct Hf as (Hn & _); congruence). subst cj.
    split; [destruct Hf as (_ & Hp & _); exact Hp|reflexivity].
Qed.
