(* Definitions for the balance half of property C10: every master of a cluster is heading for its fair share of the
   16384 slots.  `projected` is the size a master will have once every pending migration is committed; `balance_inv`
   says that the first k chunks (the ones that keep slots) have projected sizes SLOT_NUM/(2k) (+1 for the first
   SLOT_NUM mod 2k masters) and that the chunks after them hold nothing but out entries. *)
From UM Require Import Base.BytesDef Model.Ranges Model.Broker Proofs.BrokerBase Proofs.BrokerPartRanges Proofs.BrokerPartDefs
  Proofs.BrokerPartMigrateBase.
From Coq Require Import ZifyBool ZifyNat ZifyN Permutation.

(* final size of master i among m masters *)
Definition share (m i : N) : N := SLOT_NUM / m + (if N.ltb i (SLOT_NUM mod m) then 1 else 0).

(* master index of (chunk index, part) *)
Definition mindex (i : nat) (p : bool) : N := 2 * N.of_nat i + b2n p.

Definition stable_num (c : chunk) (p : bool) : N := slots_total (opt_ranges (ck_stable c p)).
Definition incoming_num (c : chunk) (p : bool) : N := slots_total (in_ranges (ck_mig c p)).
(* size of the master once every pending migration is committed *)
Definition projected (c : chunk) (p : bool) : N := stable_num c p + incoming_num c p.

(* k = number of leading chunks that keep slots *)
Definition balanced_at (k : nat) (chunks : list chunk) : Prop :=
  (0 < k)%nat /\ (k <= length chunks)%nat /\
  (forall i c p, nth_error chunks i = Some c -> (i < k)%nat -> projected c p = share (2 * N.of_nat k) (mindex i p)) /\
  (forall i c p, nth_error chunks i = Some c -> (k <= i)%nat ->
     ck_stable c p = None /\ forall e, In e (ck_mig c p) -> ms_out e = true).

Definition balance_inv (chunks : list chunk) : Prop := exists k, balanced_at k chunks.

Definition store_balance_inv (s : store) : Prop := forall name cl, In (name, cl) (st_clusters s) -> balance_inv (cl_chunks cl).

(* ---------- arithmetic of shares ---------- *)
(* sum of the shares of the first k masters (k <= m) *)
Definition share_prefix (m k : N) : N := SLOT_NUM / m * k + N.min k (SLOT_NUM mod m).

Lemma share_prefix_0 m : share_prefix m 0 = 0.
Proof. unfold share_prefix. lia. Qed.

Lemma share_prefix_succ m k : share_prefix m (k + 1) = share_prefix m k + share m k.
Proof. unfold share_prefix, share. destruct (N.ltb k (SLOT_NUM mod m)) eqn:E; lia. Qed.

Lemma share_prefix_all m : 0 < m -> share_prefix m m = SLOT_NUM.
Proof.
  intros Hm. unfold share_prefix. pose proof (N.mod_lt SLOT_NUM m ltac:(lia)) as Hlt.
  pose proof (N.div_mod SLOT_NUM m ltac:(lia)) as Hdm. lia.
Qed.

Lemma share_pos m i : 0 < m -> m <= SLOT_NUM -> 1 <= share m i.
Proof.
  intros H0 H1. unfold share. assert (1 <= SLOT_NUM / m) by (apply N.div_le_lower_bound; lia).
  destruct (N.ltb i (SLOT_NUM mod m)); lia.
Qed.

Lemma share_close m i j : share m i <= share m j + 1.
Proof. unfold share. destruct (N.ltb i (SLOT_NUM mod m)), (N.ltb j (SLOT_NUM mod m)); lia. Qed.

(* more masters: no master's share grows *)
Lemma share_mono m m' i : 0 < m -> m <= m' -> share m' i <= share m i.
Proof.
  intros H0 Hle. unfold share.
  pose proof (N.div_mod SLOT_NUM m ltac:(lia)) as D1. pose proof (N.div_mod SLOT_NUM m' ltac:(lia)) as D2.
  pose proof (N.mod_lt SLOT_NUM m ltac:(lia)) as L1. pose proof (N.mod_lt SLOT_NUM m' ltac:(lia)) as L2.
  assert (Hq : SLOT_NUM / m' <= SLOT_NUM / m) by (apply N.div_le_compat_l; lia).
  remember (SLOT_NUM / m) as q eqn:Eq. remember (SLOT_NUM / m') as q' eqn:Eq'.
  remember (SLOT_NUM mod m) as r eqn:Er. remember (SLOT_NUM mod m') as r' eqn:Er'.
  clear Eq Eq' Er Er'. revert D1 D2. generalize SLOT_NUM. intros S D1 D2.
  destruct (N.ltb i r') eqn:E1; destruct (N.ltb i r) eqn:E2; try lia.
  (* i < r' but r <= i: then the quotients differ *)
  assert (q' <> q); [|lia]. intros ->. assert (m * q <= m' * q) by (apply N.mul_le_mono_r; lia). lia.
Qed.

(* ---------- compaction keeps the number of slots ---------- *)
Lemma slots_total_perm a b : Permutation a b -> slots_total a = slots_total b.
Proof.
  induction 1 as [|x l l' H IH|x y l|l l' l'' H1 IH1 H2 IH2]; rewrite ?slots_total_cons; try lia; congruence.
Qed.

Lemma merge_sorted_total : forall rest cur,
  sorted_starts (cur :: rest) -> Forall wf_range (cur :: rest) -> (forall s, (cnt s (cur :: rest) <= 1)%nat) ->
  slots_total (merge_sorted cur rest) = slots_total (cur :: rest).
Proof.
  induction rest as [|e rest IH]; intros cur Hs Hw Hc; cbn [merge_sorted]; [reflexivity|].
  destruct Hs as [Hcur [He Hrest]].
  inversion Hw as [|? ? Hwc Hw']; subst. inversion Hw' as [|? ? Hwe Hwr]; subst.
  unfold wf_range in Hwc, Hwe.
  assert (Hce : fst cur <= fst e) by (apply Hcur; left; reflexivity).
  destruct (N.leb (fst e) (snd cur + 1)) eqn:E.
  - assert (Hadj : fst e = snd cur + 1).
    { destruct (N.leb (fst e) (snd cur)) eqn:E2; [|lia].
      specialize (Hc (fst e)). rewrite !cnt_cons in Hc.
      assert (A : in_range (fst e) cur = true) by (apply in_range_spec; lia).
      assert (B : in_range (fst e) e = true) by (apply in_range_spec; lia).
      unfold ind in Hc. rewrite A, B in Hc. lia. }
    assert (Hmax : N.max (snd cur) (snd e) = snd e) by lia. rewrite Hmax.
    assert (Hin : forall s, ind s (fst cur, snd e) = (ind s cur + ind s e)%nat).
    { intros s. unfold ind, in_range. cbn [fst snd].
      destruct (N.leb (fst cur) s && N.leb s (snd e)) eqn:A; destruct (N.leb (fst cur) s && N.leb s (snd cur)) eqn:B;
        destruct (N.leb (fst e) s && N.leb s (snd e)) eqn:C; lia. }
    rewrite IH.
    + rewrite !slots_total_cons. cbn [fst snd]. lia.
    + cbn [sorted_starts]. split; [|assumption]. intros x Hx. cbn [fst]. apply Hcur. right. assumption.
    + constructor; [unfold wf_range; cbn [fst snd]; lia|assumption].
    + intros s. specialize (Hc s). rewrite !cnt_cons in *. rewrite Hin. lia.
  - rewrite slots_total_cons, IH.
    + rewrite !slots_total_cons. reflexivity.
    + cbn [sorted_starts]. split; assumption.
    + assumption.
    + intros s. specialize (Hc s). rewrite cnt_cons in Hc. lia.
Qed.

Theorem compact_total l : Forall wf_range l -> (forall s, (cnt s l <= 1)%nat) -> slots_total (compact l) = slots_total l.
Proof.
  intros Hw Hc. unfold compact. rewrite (map_norm_wf l Hw).
  pose proof (sort_acc_perm l []) as Hp. cbn [app] in Hp.
  pose proof (sort_acc_sorted l [] I) as Hs.
  destruct (sort_ranges_stable_acc [] l) as [|c r] eqn:E.
  - apply Permutation_sym, Permutation_nil in Hp. subst. reflexivity.
  - rewrite merge_sorted_total.
    + symmetry. apply slots_total_perm. exact Hp.
    + exact Hs.
    + eapply Permutation_Forall; [exact Hp|exact Hw].
    + intros s. rewrite <- (cnt_perm s _ _ Hp). apply Hc.
Qed.

(* ---------- simple facts ---------- *)
Lemma stable_num_none c p : ck_stable c p = None -> stable_num c p = 0.
Proof. unfold stable_num. intros ->. reflexivity. Qed.

Lemma in_ranges_all_out l : (forall e, In e l -> ms_out e = true) -> in_ranges l = [].
Proof.
  unfold in_ranges. induction l as [|e l IH]; intros H; [reflexivity|]. cbn [filter].
  rewrite (H e (or_introl eq_refl)). cbn [negb]. apply IH. intros e' He'. apply H. right. exact He'.
Qed.

Lemma incoming_num_all_out c p : (forall e, In e (ck_mig c p) -> ms_out e = true) -> incoming_num c p = 0.
Proof. unfold incoming_num. intros H. rewrite (in_ranges_all_out _ H). reflexivity. Qed.

Lemma balanced_tail_projected k chunks i c p :
  balanced_at k chunks -> nth_error chunks i = Some c -> (k <= i)%nat -> projected c p = 0.
Proof.
  intros (_ & _ & _ & Ht) Hn Hi. destruct (Ht i c p Hn Hi) as [Hs Ho].
  unfold projected. rewrite (stable_num_none _ _ Hs), (incoming_num_all_out _ _ Ho). reflexivity.
Qed.

Lemma balanced_head_pos k chunks i c p :
  balanced_at k chunks -> 2 * N.of_nat (length chunks) <= SLOT_NUM -> nth_error chunks i = Some c -> (i < k)%nat ->
  1 <= projected c p.
Proof.
  intros (Hk0 & Hkl & Hh & _) Hsz Hn Hi. rewrite (Hh i c p Hn Hi). apply share_pos; lia.
Qed.
