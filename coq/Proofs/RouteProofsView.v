(* What the routing tables of a proxy contain, in terms of the cluster node list ns; and what partition_ok says per slot. *)
From UM Require Import Base.BytesDef Model.Ranges Model.Broker Model.Route
     Proofs.BrokerPartRanges Proofs.BrokerPartDefs Proofs.RouteProofsBase.
From Coq Require Import ZifyBool ZifyNat ZifyN.

(* ---------- decidable equalities used by same_mig ---------- *)
Lemma rt_rangelist_eqb_eq a : forall b, rangelist_eqb a b = true -> a = b.
Proof.
  unfold rangelist_eqb. induction a as [|x a IH]; intros [|y b]; cbn [list_eqb]; try discriminate; [reflexivity|].
  intros H. apply andb_true_iff in H. destruct H as [H1 H2]. unfold range_eqb in H1.
  apply andb_true_iff in H1. destruct H1 as [Ha Hb]. apply N.eqb_eq in Ha, Hb.
  destruct x, y. cbn [fst snd] in *. subst. f_equal. apply IH. exact H2.
Qed.

Lemma rt_rangelist_eqb_refl a : rangelist_eqb a a = true.
Proof.
  unfold rangelist_eqb. induction a as [|x a IH]; cbn [list_eqb]; [reflexivity|].
  rewrite IH. unfold range_eqb. rewrite !N.eqb_refl. reflexivity.
Qed.

Lemma rt_vmeta_eqb_eq a b : vmeta_eqb a b = true -> a = b.
Proof.
  unfold vmeta_eqb. intros H. repeat (apply andb_true_iff in H; destruct H as [H ?]).
  repeat match goal with E : N.eqb _ _ = true |- _ => apply N.eqb_eq in E end.
  destruct a, b. cbn in *. subst. reflexivity.
Qed.

Lemma rt_vmeta_eqb_refl a : vmeta_eqb a a = true.
Proof. unfold vmeta_eqb. rewrite !N.eqb_refl. reflexivity. Qed.

(* ---------- membership in `tagged` ---------- *)
Lemma tagged_out_In ns a p rl m :
  In (a, p, rl, m) (tagged false ns) <-> exists n, In n ns /\ In (rl, VMigrating m) (vn_slots n) /\ a = vn_addr n /\ p = vn_proxy n.
Proof.
  unfold tagged. rewrite in_flat_map. split.
  - intros [n [Hn H]]. apply in_flat_map in H. destruct H as [[rl' t] [Hsl H]]. cbn [snd fst] in H.
    destruct t as [|m'|m']; cbn in H; try contradiction.
    destruct H as [H|[]]. inversion H; subst. exists n. auto.
  - intros [n [Hn [Hsl [-> ->]]]]. exists n. split; [exact Hn|]. apply in_flat_map. exists (rl, VMigrating m).
    split; [exact Hsl|]. left. reflexivity.
Qed.

Lemma tagged_in_In ns a p rl m :
  In (a, p, rl, m) (tagged true ns) <-> exists n, In n ns /\ In (rl, VImporting m) (vn_slots n) /\ a = vn_addr n /\ p = vn_proxy n.
Proof.
  unfold tagged. rewrite in_flat_map. split.
  - intros [n [Hn H]]. apply in_flat_map in H. destruct H as [[rl' t] [Hsl H]]. cbn [snd fst] in H.
    destruct t as [|m'|m']; cbn in H; try contradiction.
    destruct H as [H|[]]. inversion H; subst. exists n. auto.
  - intros [n [Hn [Hsl [-> ->]]]]. exists n. split; [exact Hn|]. apply in_flat_map. exists (rl, VImporting m).
    split; [exact Hsl|]. left. reflexivity.
Qed.

(* ---------- counting: one owner entry per slot ---------- *)
Lemma in_rangelist_cnt s rl : in_rangelist s rl = true <-> (1 <= cnt s rl)%nat.
Proof.
  unfold in_rangelist, cnt. induction rl as [|r rl IH]; cbn [existsb filter length]; [split; [discriminate|intros H; inversion H]|].
  destruct (in_range s r); cbn [orb length]; [split; [lia|reflexivity]|exact IH].
Qed.

Definition is_imp (sl : vslot) : bool := match snd sl with VImporting _ => true | _ => false end.

Definition node_entries (s : N) (n : vnode) : list (vnode * vslot) :=
  if vn_master n then map (pair n) (filter (fun sl => negb (is_imp sl) && slot_in s sl) (vn_slots n)) else [].

Lemma owner_entries_eq ns s : owner_entries ns s = flat_map (node_entries s) ns.
Proof. reflexivity. Qed.

Lemma slots_count s (sls : list vslot) :
  (length (filter (fun sl => negb (is_imp sl) && slot_in s sl) sls)
   <= cnt s (flat_map (fun sl => if is_importing (snd sl) then [] else fst sl) sls))%nat
  /\ (cnt s (flat_map (fun sl => if is_importing (snd sl) then [] else fst sl) sls) = 0%nat
      \/ filter (fun sl => negb (is_imp sl) && slot_in s sl) sls <> []).
Proof.
  induction sls as [|[rl t] sls [IH1 IH2]]; [cbn; split; [lia|left; reflexivity]|].
  cbn [filter flat_map]. rewrite cnt_app.
  set (F := filter _ sls) in *.
  set (C := cnt s (flat_map (fun sl : list range * vtag => if is_importing (snd sl) then [] else fst sl) sls)) in *.
  assert (Hz : in_rangelist s rl = false -> cnt s rl = 0%nat).
  { intros Ei. destruct (cnt s rl) eqn:Ec; [reflexivity|].
    assert (in_rangelist s rl = true) by (apply in_rangelist_cnt; lia). congruence. }
  destruct t as [|m|m]; unfold is_imp, is_importing, slot_in; cbn [fst snd negb andb].
  - destruct (in_rangelist s rl) eqn:Ei; cbn [length].
    + apply in_rangelist_cnt in Ei. split; [lia|right; discriminate].
    + specialize (Hz eq_refl). split; [lia|]. destruct IH2 as [IH2|IH2]; [left; lia|right; exact IH2].
  - destruct (in_rangelist s rl) eqn:Ei; cbn [length].
    + apply in_rangelist_cnt in Ei. split; [lia|right; discriminate].
    + specialize (Hz eq_refl). split; [lia|]. destruct IH2 as [IH2|IH2]; [left; lia|right; exact IH2].
  - rewrite cnt_nil. split; [lia|]. destruct IH2 as [IH2|IH2]; [left; lia|right; exact IH2].
Qed.

Lemma owner_count ns s :
  (length (owner_entries ns s) <= cnt s (view_owned ns))%nat
  /\ (cnt s (view_owned ns) = 0%nat \/ owner_entries ns s <> []).
Proof.
  rewrite owner_entries_eq. unfold view_owned.
  induction ns as [|n ns [IH1 IH2]]; cbn [flat_map length]; [split; [lia|left; reflexivity]|].
  rewrite app_length, cnt_app. unfold node_entries at 1 3, node_owned at 1 3.
  destruct (vn_master n).
  - rewrite map_length. destruct (slots_count s (vn_slots n)) as [H1 H2]. split; [lia|].
    destruct H2 as [H2|H2].
    + destruct IH2 as [IH2|IH2]; [left; lia|]. right. intros E. apply app_eq_nil in E. tauto.
    + right. intros E. apply app_eq_nil in E. destruct E as [E _]. apply map_eq_nil in E. tauto.
  - cbn [length app]. rewrite cnt_nil. split; [lia|]. destruct IH2 as [IH2|IH2]; [left; lia|right; exact IH2].
Qed.

Lemma owner_unique ns s : partition_ok ns -> s < SLOT_NUM -> exists e, owner_entries ns s = [e].
Proof.
  intros Hpo Hs. pose proof (po_cover _ Hpo s) as Hc.
  assert (E : N.ltb s SLOT_NUM = true) by lia. rewrite E in Hc.
  destruct (owner_count ns s) as [H1 H2]. rewrite Hc in H1, H2.
  destruct H2 as [H2|H2]; [discriminate|].
  destruct (owner_entries ns s) as [|e [|e' l]]; [congruence|exists e; reflexivity|cbn [length] in H1; lia].
Qed.

Lemma owner_entries_In ns s n sl :
  In (n, sl) (owner_entries ns s) <-> In n ns /\ vn_master n = true /\ In sl (vn_slots n) /\ is_imp sl = false /\ slot_in s sl = true.
Proof.
  rewrite owner_entries_eq, in_flat_map. unfold node_entries. split.
  - intros [n' [Hn H]]. destruct (vn_master n') eqn:Em; [|destruct H].
    apply in_map_iff in H. destruct H as [sl' [E H]]. inversion E; subst. apply filter_In in H.
    destruct H as [Hsl Hb]. apply andb_true_iff in Hb. destruct Hb as [Hb1 Hb2].
    apply negb_true_iff in Hb1. auto.
  - intros [Hn [Hm [Hsl [Hi Hs]]]]. exists n. split; [exact Hn|]. rewrite Hm. apply in_map. apply filter_In.
    split; [exact Hsl|]. rewrite Hi, Hs. reflexivity.
Qed.

(* ---------- the situation of one slot ---------- *)
Section Slot.
Variable ns : list vnode.
Hypothesis Hpo : partition_ok ns.
Variable s : N.
Hypothesis Hs : s < SLOT_NUM.

(* the owner entry *)
Variable n0 : vnode.
Variable sl0 : vslot.
Hypothesis Hown : owner_entries ns s = [(n0, sl0)].

Lemma own_facts : In n0 ns /\ vn_master n0 = true /\ In sl0 (vn_slots n0) /\ is_imp sl0 = false /\ slot_in s sl0 = true.
Proof. apply owner_entries_In. rewrite Hown. left. reflexivity. Qed.

(* any master entry that covers s and is not importing is the owner entry *)
Lemma nonimp_is_owner n sl :
  In n ns -> In sl (vn_slots n) -> is_imp sl = false -> slot_in s sl = true -> n = n0 /\ sl = sl0.
Proof.
  intros Hn Hsl Hi Hin.
  assert (Hm : vn_master n = true).
  { destruct (vn_master n) eqn:Em; [reflexivity|]. rewrite (po_replicas _ Hpo n Hn Em) in Hsl. destruct Hsl. }
  assert (H : In (n, sl) (owner_entries ns s)) by (apply owner_entries_In; auto).
  rewrite Hown in H. destruct H as [H|[]]. inversion H. auto.
Qed.

(* an importing entry that covers s: the owner entry is its migrating twin, and it sits on the destination *)
Lemma imp_entry n rl m :
  In n ns -> In (rl, VImporting m) (vn_slots n) -> in_rangelist s rl = true ->
  sl0 = (rl, VMigrating m) /\ vn_addr n = vm_dst_node m /\ vn_proxy n = vm_dst_proxy m
  /\ vn_addr n0 = vm_src_node m /\ vn_proxy n0 = vm_src_proxy m.
Proof.
  intros Hn Hsl Hin.
  assert (Hy : In (vn_addr n, vn_proxy n, rl, m) (tagged true ns)) by (apply tagged_in_In; exists n; auto).
  destruct (po_in_twin _ Hpo _ Hy) as [[[[xa xp] xrl] xm] [Hx Hsame]].
  unfold same_mig in Hsame. cbn [fst snd] in Hsame. apply andb_true_iff in Hsame. destruct Hsame as [E1 E2].
  apply rt_rangelist_eqb_eq in E1. apply rt_vmeta_eqb_eq in E2. subst xrl xm.
  pose proof Hx as Hx'. apply tagged_out_In in Hx'. destruct Hx' as [nx [Hnx [Hslx [-> ->]]]].
  destruct (nonimp_is_owner nx (rl, VMigrating m) Hnx Hslx eq_refl Hin) as [-> <-].
  destruct (po_out_twin _ Hpo _ Hx) as [y' [Hf [Hd1 [Hd2 [Hs1 Hs2]]]]]. cbn [fst snd] in *.
  assert (Hyf : In (vn_addr n, vn_proxy n, rl, m) (filter (same_mig (vn_addr n0, vn_proxy n0, rl, m)) (tagged true ns))).
  { apply filter_In. split; [exact Hy|]. unfold same_mig. cbn [fst snd]. rewrite rt_rangelist_eqb_refl, rt_vmeta_eqb_refl. reflexivity. }
  rewrite Hf in Hyf. destruct Hyf as [E|[]]. subst y'. cbn [fst snd] in *. auto.
Qed.

(* when the owner entry is a migrating one *)
Lemma mig_owner rl m : sl0 = (rl, VMigrating m) ->
  vn_addr n0 = vm_src_node m /\ vn_proxy n0 = vm_src_proxy m /\
  exists n1, In n1 ns /\ vn_master n1 = true /\ In (rl, VImporting m) (vn_slots n1)
             /\ vn_addr n1 = vm_dst_node m /\ vn_proxy n1 = vm_dst_proxy m.
Proof.
  intros E0. destruct own_facts as [Hn0 [Hm0 [Hsl0 [_ Hin0]]]]. rewrite E0 in Hsl0, Hin0.
  assert (Hx : In (vn_addr n0, vn_proxy n0, rl, m) (tagged false ns)) by (apply tagged_out_In; exists n0; auto).
  destruct (po_out_twin _ Hpo _ Hx) as [[[[ya yp] yrl] ym] [Hf [Hd1 [Hd2 [Hs1 Hs2]]]]]. cbn [fst snd] in *.
  assert (Hy : In (ya, yp, yrl, ym) (filter (same_mig (vn_addr n0, vn_proxy n0, rl, m)) (tagged true ns))) by (rewrite Hf; left; reflexivity).
  apply filter_In in Hy. destruct Hy as [Hy Hsame].
  unfold same_mig in Hsame. cbn [fst snd] in Hsame. apply andb_true_iff in Hsame. destruct Hsame as [E1 E2].
  apply rt_rangelist_eqb_eq in E1. apply rt_vmeta_eqb_eq in E2. subst yrl ym.
  apply tagged_in_In in Hy. destruct Hy as [n1 [Hn1 [Hsl1 [-> ->]]]].
  split; [exact Hs1|split; [exact Hs2|]]. exists n1.
  assert (Hm1 : vn_master n1 = true).
  { destruct (vn_master n1) eqn:Em; [reflexivity|]. rewrite (po_replicas _ Hpo n1 Hn1 Em) in Hsl1. destruct Hsl1. }
  auto.
Qed.

(* classification of every entry that covers s *)
Lemma entry_cases n sl : In n ns -> In sl (vn_slots n) -> slot_in s sl = true ->
  (n = n0 /\ sl = sl0) \/
  (exists rl m, sl = (rl, VImporting m) /\ sl0 = (rl, VMigrating m) /\ vn_addr n = vm_dst_node m /\ vn_proxy n = vm_dst_proxy m
                /\ vn_addr n0 = vm_src_node m /\ vn_proxy n0 = vm_src_proxy m).
Proof.
  intros Hn Hsl Hin. destruct (is_imp sl) eqn:Ei.
  - right. destruct sl as [rl t]. unfold is_imp in Ei. cbn [snd] in Ei. destruct t as [|m|m]; try discriminate.
    exists rl, m. split; [reflexivity|]. apply (imp_entry n rl m Hn Hsl Hin).
  - left. apply nonimp_is_owner; assumption.
Qed.

End Slot.
