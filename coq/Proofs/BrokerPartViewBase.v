(* C01, view side: general lemmas (boolean equalities, map_opt, update_nth, counting over flat_map) and the total
   forms of to_slot_range / chunk_nodes / cluster_nodes under in-bounds chunk indices. *)
From UM Require Import Base.BytesDef Model.Ranges Model.Broker Proofs.BrokerBase Proofs.BrokerPartRanges Proofs.BrokerPartDefs.
From Coq Require Import ZifyBool ZifyNat ZifyN Permutation.

(* ---------- boolean equalities ---------- *)
Lemma range_eqb_eq a b : range_eqb a b = true <-> a = b.
Proof.
  unfold range_eqb. destruct a as [a1 a2], b as [b1 b2]. cbn [fst snd].
  rewrite andb_true_iff, !N.eqb_eq. split; [intros [-> ->]; reflexivity|intros H; inversion H; auto].
Qed.

Lemma rangelist_eqb_eq a b : rangelist_eqb a b = true <-> a = b.
Proof.
  unfold rangelist_eqb. revert b. induction a as [|x a IH]; intros [|y b]; cbn [list_eqb].
  - tauto.
  - split; discriminate.
  - split; discriminate.
  - rewrite andb_true_iff, range_eqb_eq, IH. split; [intros [-> ->]; reflexivity|intros H; inversion H; auto].
Qed.

Lemma rangelist_eqb_refl a : rangelist_eqb a a = true.
Proof. apply rangelist_eqb_eq. reflexivity. Qed.

Lemma vmeta_eqb_eq a b : vmeta_eqb a b = true <-> a = b.
Proof.
  unfold vmeta_eqb. destruct a as [a1 a2 a3 a4 a5], b as [b1 b2 b3 b4 b5]. cbn [vm_epoch vm_src_proxy vm_src_node vm_dst_proxy vm_dst_node].
  rewrite !andb_true_iff, !N.eqb_eq. split.
  - intros [[[[-> ->] ->] ->] ->]. reflexivity.
  - intros H. inversion H. auto.
Qed.

Lemma vmeta_eqb_refl a : vmeta_eqb a a = true.
Proof. apply vmeta_eqb_eq. reflexivity. Qed.

(* ---------- lists ---------- *)
Lemma map_opt_total {A B} (f : A -> option B) (g : A -> B) l :
  (forall x, In x l -> f x = Some (g x)) -> map_opt f l = Some (map g l).
Proof.
  induction l as [|x l IH]; intros H; cbn [map_opt map]; [reflexivity|].
  rewrite (H x (or_introl eq_refl)), IH; [reflexivity|]. intros y Hy. apply H. right. exact Hy.
Qed.

Lemma length_update_nth {A} i (f : A -> A) l : length (update_nth i f l) = length l.
Proof.
  revert i. induction l as [|x l IH]; intros [|i]; cbn [update_nth length]; auto.
Qed.

Lemma nth_error_update_nth_same {A} i (f : A -> A) l c :
  nth_error l i = Some c -> nth_error (update_nth i f l) i = Some (f c).
Proof.
  revert i. induction l as [|x l IH]; intros [|i]; cbn [update_nth nth_error]; try discriminate.
  - intros H. inversion H. reflexivity.
  - apply IH.
Qed.

Lemma nth_error_update_nth_other {A} i j (f : A -> A) l :
  i <> j -> nth_error (update_nth i f l) j = nth_error l j.
Proof.
  revert i j. induction l as [|x l IH]; intros [|i] [|j] H; cbn [update_nth nth_error]; try reflexivity; try congruence.
  apply IH. congruence.
Qed.

Lemma update_nth_split {A} i (f : A -> A) l c :
  nth_error l i = Some c -> exists l1 l2, l = l1 ++ c :: l2 /\ update_nth i f l = l1 ++ f c :: l2 /\ length l1 = i.
Proof.
  revert i. induction l as [|x l IH]; intros [|i]; cbn [update_nth nth_error]; try discriminate.
  - intros H. inversion H. subst. exists [], l. auto.
  - intros H. destruct (IH _ H) as (l1 & l2 & -> & E & Hl). exists (x :: l1), l2. cbn [app length]. rewrite E. auto.
Qed.

Lemma in_nth_error_iff {A} (x : A) l : In x l <-> exists i, nth_error l i = Some x.
Proof. split; [apply In_nth_error|intros [i H]; eapply nth_error_In; eauto]. Qed.

Lemma nth_error_lt_some {A} (l : list A) i : (i < length l)%nat -> exists c, nth_error l i = Some c.
Proof.
  intros H. destruct (nth_error l i) eqn:E; [eauto|]. apply nth_error_None in E. lia.
Qed.

Lemma single_of_in_short {A} (y : A) l : In y l -> (length l <= 1)%nat -> l = [y].
Proof.
  destruct l as [|a [|b l]]; cbn [In length]; intros H Hl; [tauto| |lia].
  destruct H as [->|[]]. reflexivity.
Qed.

Lemma flat_map_perm_pointwise {A B} (f g : A -> list B) l :
  (forall x, In x l -> Permutation (f x) (g x)) -> Permutation (flat_map f l) (flat_map g l).
Proof.
  induction l as [|x l IH]; intros H; cbn [flat_map]; [constructor|].
  apply Permutation_app; [apply H; left; reflexivity|apply IH; intros y Hy; apply H; right; exact Hy].
Qed.

Lemma flat_map_ext_in {A B} (f g : A -> list B) l :
  (forall x, In x l -> f x = g x) -> flat_map f l = flat_map g l.
Proof.
  induction l as [|x l IH]; intros H; cbn [flat_map]; [reflexivity|].
  rewrite (H x (or_introl eq_refl)), IH; [reflexivity|]. intros y Hy. apply H. right. exact Hy.
Qed.

Lemma flat_map_flat_map {A B C} (f : A -> list B) (g : B -> list C) l :
  flat_map g (flat_map f l) = flat_map (fun x => flat_map g (f x)) l.
Proof.
  induction l as [|x l IH]; cbn [flat_map]; [reflexivity|]. rewrite flat_map_app, IH. reflexivity.
Qed.

Lemma flat_map_map {A B C} (f : A -> B) (g : B -> list C) l :
  flat_map g (map f l) = flat_map (fun x => g (f x)) l.
Proof. induction l as [|x l IH]; cbn [flat_map map]; [reflexivity|]. rewrite IH. reflexivity. Qed.

(* ---------- counting ---------- *)
Lemma cnt_flat_map_eq {A} s (f g : A -> rangelist) l :
  (forall x, In x l -> cnt s (f x) = cnt s (g x)) -> cnt s (flat_map f l) = cnt s (flat_map g l).
Proof.
  induction l as [|x l IH]; intros H; cbn [flat_map]; [reflexivity|].
  rewrite !cnt_app, (H x (or_introl eq_refl)), IH; [reflexivity|]. intros y Hy. apply H. right. exact Hy.
Qed.

Lemma cnt_flat_map_add {A} s (f g h : A -> rangelist) l :
  (forall x, In x l -> cnt s (f x) = (cnt s (g x) + cnt s (h x))%nat) ->
  cnt s (flat_map f l) = (cnt s (flat_map g l) + cnt s (flat_map h l))%nat.
Proof.
  induction l as [|x l IH]; intros H; cbn [flat_map]; [reflexivity|].
  rewrite !cnt_app, (H x (or_introl eq_refl)), IH; [lia|]. intros y Hy. apply H. right. exact Hy.
Qed.

Lemma cnt_flat_map_update_nth {A} s (f : A -> rangelist) i g l c :
  nth_error l i = Some c ->
  (cnt s (flat_map f (update_nth i g l)) + cnt s (f c) = cnt s (flat_map f l) + cnt s (f (g c)))%nat.
Proof.
  intros H. destruct (update_nth_split i g l c H) as (l1 & l2 & -> & -> & _).
  rewrite !flat_map_app. cbn [flat_map]. rewrite !cnt_app. lia.
Qed.

Lemma Forall_flat_map_update_nth {A B} (P : B -> Prop) (f : A -> list B) i g l c :
  nth_error l i = Some c -> Forall P (flat_map f l) -> Forall P (f (g c)) -> Forall P (flat_map f (update_nth i g l)).
Proof.
  intros H. destruct (update_nth_split i g l c H) as (l1 & l2 & -> & -> & _).
  rewrite !flat_map_app. cbn [flat_map]. rewrite !Forall_app. tauto.
Qed.

Lemma Forall_flat_map_in {A B} (P : B -> Prop) (f : A -> list B) l x :
  Forall P (flat_map f l) -> In x l -> Forall P (f x).
Proof.
  intros H Hx. apply Forall_forall. intros y Hy. rewrite Forall_forall in H. apply H. apply in_flat_map. eauto.
Qed.

(* a well-formed non-empty range list contains a slot *)
Lemma wf_nonempty_slot (l : rangelist) : Forall wf_range l -> l <> [] -> exists s, (1 <= cnt s l)%nat.
Proof.
  intros Hw Hne. destruct l as [|r l]; [congruence|]. inversion Hw as [|? ? Hr _]; subst.
  exists (fst r). rewrite cnt_cons. unfold ind. unfold wf_range in Hr.
  assert (in_range (fst r) r = true) as -> by (apply in_range_spec; lia). lia.
Qed.

(* ---------- out / in ranges ---------- *)
Lemma out_ranges_app a b : out_ranges (a ++ b) = out_ranges a ++ out_ranges b.
Proof. unfold out_ranges. rewrite filter_app, flat_map_app. reflexivity. Qed.

Lemma in_ranges_app a b : in_ranges (a ++ b) = in_ranges a ++ in_ranges b.
Proof. unfold in_ranges. rewrite filter_app, flat_map_app. reflexivity. Qed.

Lemma out_ranges_single e : out_ranges [e] = if ms_out e then ms_ranges e else [].
Proof. unfold out_ranges. cbn [filter]. destruct (ms_out e); cbn [flat_map]; rewrite ?app_nil_r; reflexivity. Qed.

Lemma in_ranges_single e : in_ranges [e] = if ms_out e then [] else ms_ranges e.
Proof. unfold in_ranges. cbn [filter]. destruct (ms_out e); cbn [flat_map negb]; rewrite ?app_nil_r; reflexivity. Qed.

(* ---------- entries_at ---------- *)
Lemma entries_at_some chunks i p c : nth_error chunks i = Some c -> entries_at chunks (i, p) = ck_mig c p.
Proof. unfold entries_at. cbn [fst snd]. intros ->. reflexivity. Qed.

Lemma entries_at_in chunks pos e : In e (entries_at chunks pos) ->
  exists c, nth_error chunks (fst pos) = Some c /\ In e (ck_mig c (snd pos)).
Proof. unfold entries_at. destruct (nth_error chunks (fst pos)); [eauto|intros []]. Qed.

Lemma entries_at_bound chunks pos e : In e (entries_at chunks pos) -> (fst pos < length chunks)%nat.
Proof.
  intros H. destruct (entries_at_in _ _ _ H) as (c & Hc & _). apply nth_error_Some. congruence.
Qed.

Lemma chunk_all_ranges_mig c p e : In e (ck_mig c p) -> Forall wf_range (chunk_all_ranges c) -> Forall wf_range (ms_ranges e).
Proof.
  unfold chunk_all_ranges. rewrite !Forall_app. intros He (_ & _ & H0 & H1).
  destruct p; cbn [ck_mig] in He; [apply (Forall_flat_map_in wf_range ms_ranges _ e H1 He)|apply (Forall_flat_map_in wf_range ms_ranges _ e H0 He)].
Qed.

Lemma part_inv_entry_wf chunks pos e : part_inv chunks -> In e (entries_at chunks pos) -> Forall wf_range (ms_ranges e).
Proof.
  intros HI He. destruct (entries_at_in _ _ _ He) as (c & Hc & Hin).
  eapply chunk_all_ranges_mig; [exact Hin|]. apply (Forall_flat_map_in wf_range chunk_all_ranges chunks c (pi_wf _ HI)). eapply nth_error_In; eauto.
Qed.

(* ---------- total form of to_slot_range ---------- *)
Definition dchunk : chunk := mkChunk RNormal None None [] [] 0 0 0 0 0 0 0 0.
Definition part_addr (c : chunk) (part : bool) : N := ck_node c (part_node_index part (ck_role c)).
Definition part_proxy (c : chunk) (part : bool) : N := ck_proxy c (part_proxy_index part (ck_role c)).

Definition vmeta_of (chunks : list chunk) (m : mig_meta) : vmeta :=
  mkVMeta (mm_epoch m)
          (part_proxy (nth (mm_src_idx m) chunks dchunk) (mm_src_part m))
          (part_addr (nth (mm_src_idx m) chunks dchunk) (mm_src_part m))
          (part_proxy (nth (mm_dst_idx m) chunks dchunk) (mm_dst_part m))
          (part_addr (nth (mm_dst_idx m) chunks dchunk) (mm_dst_part m)).

Definition vslot_of (chunks : list chunk) (e : mig_store) : vslot :=
  (ms_ranges e, if ms_out e then VMigrating (vmeta_of chunks (ms_meta e)) else VImporting (vmeta_of chunks (ms_meta e))).

Lemma to_slot_range_total chunks e :
  (mm_src_idx (ms_meta e) < length chunks)%nat -> (mm_dst_idx (ms_meta e) < length chunks)%nat ->
  to_slot_range chunks e = Some (vslot_of chunks e).
Proof.
  intros Hs Hd. unfold to_slot_range, vslot_of, vmeta_of, part_addr, part_proxy.
  destruct (nth_error_lt_some _ _ Hs) as (sc & Es). destruct (nth_error_lt_some _ _ Hd) as (dc & Ed).
  rewrite Es, Ed. rewrite (nth_error_nth _ _ dchunk Es), (nth_error_nth _ _ dchunk Ed). reflexivity.
Qed.

(* entries of a chunk list under the invariant have both indices in bounds *)
Lemma part_inv_entry_bounds chunks pos e : part_inv chunks -> In e (entries_at chunks pos) ->
  (mm_src_idx (ms_meta e) < length chunks)%nat /\ (mm_dst_idx (ms_meta e) < length chunks)%nat.
Proof.
  intros HI He. destruct (pi_twin _ HI _ _ He) as (Hown & Htw & _).
  pose proof (entries_at_bound _ _ _ He) as Hb. rewrite <- Hown in Hb.
  unfold own_pos, twin_pos, src_pos, dst_pos in *. destruct (ms_out e); cbn [fst] in *; auto.
Qed.

(* ---------- total form of chunk_nodes ---------- *)
Definition part_slots (chunks : list chunk) (c : chunk) (part : bool) : list vslot :=
  (match ck_stable c part with Some r => [(r, VNone)] | None => [] end) ++ map (vslot_of chunks) (ck_mig c part).

Definition nodes_of (chunks : list chunk) (c : chunk) : list vnode :=
  let s0 := part_slots chunks c false in
  let s1 := part_slots chunks c true in
  let first_idx := match ck_role c with RNormal => 0%nat | RFirst => 0%nat | RSecond => 3%nat end in
  let second_idx := match ck_role c with RNormal => 2%nat | RFirst => 1%nat | RSecond => 2%nat end in
  let mk (i : nat) : vnode :=
      let slots := (if Nat.eqb i first_idx then s0 else []) ++ (if Nat.eqb i second_idx then s1 else []) in
      let replica := match ck_role c with
                     | RNormal => Nat.odd i
                     | RFirst => Nat.leb 2 i
                     | RSecond => Nat.ltb i 2
                     end in
      let peer := match i with 0%nat => 3%nat | 1%nat => 2%nat | 2%nat => 1%nat | _ => 0%nat end in
      mkVNode (ck_node c i) (ck_proxy c (Nat.leb 2 i)) (negb replica) slots (ck_node c peer) (ck_proxy c (Nat.leb 2 peer)) in
  [mk 0%nat; mk 1%nat; mk 2%nat; mk 3%nat].

Definition mig_in_bounds (chunks : list chunk) (c : chunk) : Prop :=
  forall p e, In e (ck_mig c p) ->
    (mm_src_idx (ms_meta e) < length chunks)%nat /\ (mm_dst_idx (ms_meta e) < length chunks)%nat.

Lemma chunk_nodes_total chunks c : mig_in_bounds chunks c -> chunk_nodes chunks c = Some (nodes_of chunks c).
Proof.
  intros Hb. unfold chunk_nodes, nodes_of, part_slots.
  rewrite (map_opt_total (to_slot_range chunks) (vslot_of chunks) (ck_mig c false)).
  2:{ intros e He. destruct (Hb _ _ He). apply to_slot_range_total; assumption. }
  rewrite (map_opt_total (to_slot_range chunks) (vslot_of chunks) (ck_mig c true)).
  2:{ intros e He. destruct (Hb _ _ He). apply to_slot_range_total; assumption. }
  reflexivity.
Qed.

Lemma part_inv_mig_in_bounds chunks c : part_inv chunks -> In c chunks -> mig_in_bounds chunks c.
Proof.
  intros HI Hc p e He. apply In_nth_error in Hc. destruct Hc as (i & Hi).
  apply (part_inv_entry_bounds chunks (i, p) e HI). rewrite (entries_at_some _ _ _ _ Hi). exact He.
Qed.

Lemma concat_map_flat_map {A B} (f : A -> list B) l : concat (map f l) = flat_map f l.
Proof. symmetry. apply flat_map_concat_map. Qed.

Lemma cluster_nodes_total cl : cluster_inv cl ->
  cluster_nodes cl = Some (flat_map (nodes_of (cl_chunks cl)) (cl_chunks cl)).
Proof.
  intros HI. unfold cluster_nodes.
  rewrite (map_opt_total (chunk_nodes (cl_chunks cl)) (nodes_of (cl_chunks cl))).
  - rewrite concat_map_flat_map. reflexivity.
  - intros c Hc. apply chunk_nodes_total. apply part_inv_mig_in_bounds; assumption.
Qed.
