(* Numeric effect of the assign phase of the slot-migration planners (assign_dst_slots of broker/migrate.rs):
   stable lists are untouched and master (i,p) receives in entries worth `msum (mindex i p) migs` slots.
   A plan (chunks without entries + pending migrations) whose numbers add up therefore yields a balanced chunk list. *)
From UM Require Import Base.BytesDef Model.Ranges Model.Broker Proofs.BrokerBase Proofs.BrokerPartRanges Proofs.BrokerPartDefs
  Proofs.BrokerPartMigrateBase Proofs.BrokerPartMigrateAssign Proofs.BrokerBalanceDefs Proofs.BrokerBalancePlanDefs.
From Coq Require Import ZifyBool ZifyNat ZifyN.

(* ================= pushing one entry into one chunk ================= *)
Definition out_only (c : chunk) (p : bool) : Prop := forall e, In e (ck_mig c p) -> ms_out e = true.

Lemma push_stable q e c p : ck_stable (push_mig q e c) p = ck_stable c p.
Proof. destruct q, p; reflexivity. Qed.

Lemma slots_total_nil : slots_total [] = 0.
Proof. reflexivity. Qed.

Lemma push_incoming_same q e c :
  incoming_num (push_mig q e c) q = incoming_num c q + (if ms_out e then 0 else slots_total (ms_ranges e)).
Proof.
  unfold incoming_num. rewrite ck_mig_push_same, in_ranges_snoc, slots_total_app.
  destruct (ms_out e); cbn [negb]; rewrite ?slots_total_nil; reflexivity.
Qed.

Lemma push_incoming_other q e c p : q <> p -> incoming_num (push_mig q e c) p = incoming_num c p.
Proof. intros Hne. unfold incoming_num. rewrite (ck_mig_push_other q p e c Hne). reflexivity. Qed.

Lemma push_out_only q e c p : out_only c p -> (ms_out e = true \/ q <> p) -> out_only (push_mig q e c) p.
Proof.
  intros Ho Hc x Hx. destruct (Bool.bool_dec q p) as [->|Hne].
  - rewrite ck_mig_push_same in Hx. apply in_app_or in Hx. destruct Hx as [Hx|[<-|[]]]; [apply Ho; exact Hx|].
    destruct Hc as [Hc|Hc]; [exact Hc|congruence].
  - rewrite (ck_mig_push_other q p e c Hne) in Hx. apply Ho. exact Hx.
Qed.

(* ================= pushing one entry into the chunk list ================= *)
(* number of incoming slots that entry e pushed at pos adds to master (i,p) *)
Definition delta (pos : nat * bool) (e : mig_store) (i : nat) (p : bool) : N :=
  if ms_out e then 0 else if Nat.eqb (fst pos) i && Bool.eqb (snd pos) p then slots_total (ms_ranges e) else 0.

Lemma add_entry_numeric pos e chunks : (fst pos < length chunks)%nat ->
  forall i c, nth_error chunks i = Some c -> exists c', nth_error (add_entry pos e chunks) i = Some c' /\
    (forall p, ck_stable c' p = ck_stable c p) /\
    (forall p, incoming_num c' p = incoming_num c p + delta pos e i p) /\
    (forall p, out_only c p -> (ms_out e = true \/ pos <> (i, p)) -> out_only c' p).
Proof.
  intros Hlt i c Hn. rewrite add_entry_push. destruct (Nat.eq_dec (fst pos) i) as [Ei|Ei].
  - subst i. rewrite nth_error_update_nth_eq, Hn. cbn [option_map]. eexists. split; [reflexivity|].
    split; [intros p; apply push_stable|]. split.
    + intros p. unfold delta. rewrite Nat.eqb_refl. cbn [andb].
      destruct (Bool.bool_dec (snd pos) p) as [Ep|Ep].
      * subst p. rewrite push_incoming_same, Bool.eqb_reflx. destruct (ms_out e); reflexivity.
      * rewrite (push_incoming_other _ e c p Ep).
        assert (Eb : Bool.eqb (snd pos) p = false) by (destruct (snd pos), p; try reflexivity; congruence).
        rewrite Eb. destruct (ms_out e); lia.
    + intros p Ho Hc. apply push_out_only; [exact Ho|]. destruct Hc as [Hc|Hc]; [left; exact Hc|].
      right. intros Es. apply Hc. destruct pos as [a b]. cbn [fst snd] in *. subst. reflexivity.
  - rewrite (nth_error_update_nth_neq _ _ _ _ Ei). exists c. split; [exact Hn|].
    split; [reflexivity|]. split.
    + intros p. unfold delta. assert (Eb : Nat.eqb (fst pos) i = false) by (apply Nat.eqb_neq; exact Ei).
      rewrite Eb. cbn [andb]. destruct (ms_out e); lia.
    + intros p Ho _. exact Ho.
Qed.

(* ================= one step of assign_dst_slots ================= *)
Lemma dst_master_eqb m i p :
  N.eqb (dst_master m) (mindex i p) = Nat.eqb (mm_dst_idx m) i && Bool.eqb (mm_dst_part m) p.
Proof.
  unfold dst_master, mindex, b2n. destruct (mm_dst_part m), p; cbn [Bool.eqb]; lia.
Qed.

Lemma dst_master_pos m i p : dst_master m <> mindex i p -> (mm_dst_idx m, mm_dst_part m) <> (i, p).
Proof. intros Hne E. inversion E; subst. apply Hne. reflexivity. Qed.

Lemma step_numeric chunks rl m :
  (mm_src_idx m < length chunks)%nat -> (mm_dst_idx m < length chunks)%nat ->
  forall i c, nth_error chunks i = Some c -> exists c',
    nth_error (add_entry (mm_dst_idx m, mm_dst_part m) (mkMig rl false m)
                 (add_entry (mm_src_idx m, mm_src_part m) (mkMig rl true m) chunks)) i = Some c' /\
    (forall p, ck_stable c' p = ck_stable c p) /\
    (forall p, incoming_num c' p = incoming_num c p + (if N.eqb (dst_master m) (mindex i p) then slots_total rl else 0)) /\
    (forall p, out_only c p -> dst_master m <> mindex i p -> out_only c' p).
Proof.
  intros Hs Hd i c Hn.
  set (src := (mm_src_idx m, mm_src_part m)). set (dst := (mm_dst_idx m, mm_dst_part m)).
  set (eo := mkMig rl true m). set (ei := mkMig rl false m).
  assert (Hs0 : (fst src < length chunks)%nat) by exact Hs.
  destruct (add_entry_numeric src eo chunks Hs0 i c Hn) as (c1 & Hn1 & Hst1 & Hin1 & Hout1).
  assert (Hd1 : (fst dst < length (add_entry src eo chunks))%nat) by (rewrite add_entry_length; exact Hd).
  destruct (add_entry_numeric dst ei _ Hd1 i c1 Hn1) as (c2 & Hn2 & Hst2 & Hin2 & Hout2).
  exists c2. split; [exact Hn2|]. split; [intros p; rewrite Hst2; apply Hst1|]. split.
  - intros p. rewrite Hin2, Hin1, dst_master_eqb. unfold delta, eo, ei, dst. cbn [ms_out ms_ranges fst snd]. lia.
  - intros p Ho Hne. apply Hout2.
    + apply Hout1; [exact Ho|]. left. reflexivity.
    + right. apply dst_master_pos. exact Hne.
Qed.

(* ================= the whole loop ================= *)
(* what assign_dst_slots does to the numbers: stable lists untouched; master (i,p) receives in entries worth msum (mindex i p) migs *)
Theorem assign_numeric : forall migs chunks chunks', assign_dst_slots chunks migs = Done chunks' ->
  length chunks' = length chunks /\
  forall i c, nth_error chunks i = Some c -> exists c', nth_error chunks' i = Some c' /\
    (forall p, ck_stable c' p = ck_stable c p) /\
    (forall p, incoming_num c' p = incoming_num c p + msum (mindex i p) migs) /\
    (forall p, (forall e, In e (ck_mig c p) -> ms_out e = true) ->
               (forall rl m, In (rl, m) migs -> dst_master m <> mindex i p) ->
               forall e, In e (ck_mig c' p) -> ms_out e = true).
Proof.
  induction migs as [|[rl m] rest IH]; intros chunks chunks' Ha.
  - cbn [assign_dst_slots] in Ha. inversion Ha; subst. split; [reflexivity|].
    intros i c Hn. exists c. split; [exact Hn|]. split; [reflexivity|]. split.
    + intros p. cbn [msum]. lia.
    + intros p Ho _. exact Ho.
  - cbn [assign_dst_slots] in Ha.
    destruct (Nat.ltb (mm_src_idx m) (length chunks) && Nat.ltb (mm_dst_idx m) (length chunks)) eqn:E; [|discriminate].
    assert (Hs : (mm_src_idx m < length chunks)%nat) by lia.
    assert (Hd : (mm_dst_idx m < length chunks)%nat) by lia.
    change (assign_dst_slots
              (add_entry (mm_dst_idx m, mm_dst_part m) (mkMig rl false m)
                 (add_entry (mm_src_idx m, mm_src_part m) (mkMig rl true m) chunks)) rest = Done chunks') in Ha.
    destruct (IH _ _ Ha) as [HL Hall]. split; [rewrite HL, !add_entry_length; reflexivity|].
    intros i c Hn.
    destruct (step_numeric chunks rl m Hs Hd i c Hn) as (c1 & Hn1 & Hst1 & Hin1 & Hout1).
    destruct (Hall i c1 Hn1) as (c' & Hn' & Hst' & Hin' & Hout').
    exists c'. split; [exact Hn'|]. split; [intros p; rewrite Hst'; apply Hst1|]. split.
    + intros p. rewrite Hin', Hin1, msum_cons. lia.
    + intros p Ho Hne. apply Hout'.
      * apply Hout1; [exact Ho|]. apply (Hne rl m). left. reflexivity.
      * intros rl' m' Hin. apply (Hne rl' m'). right. exact Hin.
Qed.

(* ================= from a plan to a balanced chunk list ================= *)
Lemma no_migs_nth chunks i c p : no_migs chunks -> nth_error chunks i = Some c -> ck_mig c p = [].
Proof. intros Hnm Hn. apply nth_error_In in Hn. destruct (Hnm c Hn) as [H0 H1]. destruct p; assumption. Qed.

Lemma nth_error_lt_some {A} (l : list A) i : (i < length l)%nat -> exists x, nth_error l i = Some x.
Proof.
  intros Hlt. destruct (nth_error l i) as [x|] eqn:E; [exists x; reflexivity|].
  apply nth_error_None in E. lia.
Qed.

(* a plan (chunks without entries + pending migrations) whose numbers add up gives a balanced chunk list *)
Theorem plan_balanced : forall k chunks migs chunks',
  (0 < k)%nat -> (k <= length chunks)%nat -> no_migs chunks ->
  assign_dst_slots chunks migs = Done chunks' ->
  (forall i c p, nth_error chunks i = Some c -> (i < k)%nat ->
      stable_num c p + msum (mindex i p) migs = share (2 * N.of_nat k) (mindex i p)) ->
  (forall i c p, nth_error chunks i = Some c -> (k <= i)%nat -> ck_stable c p = None) ->
  (forall rl m, In (rl, m) migs -> dst_master m < 2 * N.of_nat k) ->
  balanced_at k chunks'.
Proof.
  intros k chunks migs chunks' Hk0 Hkl Hnm Ha Hhead Htail Hdst.
  destruct (assign_numeric migs chunks chunks' Ha) as [HL Hall].
  unfold balanced_at. split; [exact Hk0|]. split; [rewrite HL; exact Hkl|]. split.
  - intros i c' p Hn' Hi.
    destruct (nth_error_lt_some chunks i ltac:(lia)) as [c Hn].
    destruct (Hall i c Hn) as (c'' & Hn'' & Hst & Hin & _).
    rewrite Hn' in Hn''. inversion Hn''; subst c''.
    unfold projected. rewrite Hin.
    assert (Hz : incoming_num c p = 0).
    { apply incoming_num_all_out. rewrite (no_migs_nth chunks i c p Hnm Hn). intros e []. }
    assert (Hs : stable_num c' p = stable_num c p) by (unfold stable_num; rewrite Hst; reflexivity).
    rewrite Hz, Hs, <- (Hhead i c p Hn Hi). lia.
  - intros i c' p Hn' Hi.
    assert (Hlt : (i < length chunks)%nat).
    { rewrite <- HL. apply nth_error_Some. rewrite Hn'. discriminate. }
    destruct (nth_error_lt_some chunks i Hlt) as [c Hn].
    destruct (Hall i c Hn) as (c'' & Hn'' & Hst & _ & Hout).
    rewrite Hn' in Hn''. inversion Hn''; subst c''.
    split; [rewrite Hst; apply (Htail i c p Hn Hi)|].
    apply Hout.
    + rewrite (no_migs_nth chunks i c p Hnm Hn). intros e [].
    + intros rl m Hin. pose proof (Hdst rl m Hin) as H1. pose proof (mindex_ge i p k Hi) as H2. lia.
Qed.

(* ---------- the hypotheses are satisfiable: one chunk, the upper half of the slots moving from part 0 to part 1 ---------- *)
Example ex_plan_balanced : exists chunks',
  assign_dst_slots [ex_assign_chunk] ex_assign_migs = Done chunks' /\ balanced_at 1 chunks'.
Proof.
  eexists. split; [reflexivity|].
  eapply (plan_balanced 1 [ex_assign_chunk] ex_assign_migs); [lia|cbn [length]; lia| |reflexivity| | |].
  - intros c [<-|[]]. split; reflexivity.
  - intros [|i] c p Hn Hi; [|lia]. inversion Hn; subst c. destruct p; vm_compute; reflexivity.
  - intros [|i] c p Hn Hi; [lia|]. destruct i; discriminate.
  - intros rl m [H|[]]. inversion H; subst. vm_compute. reflexivity.
Qed.

Print Assumptions assign_numeric.
Print Assumptions plan_balanced.
