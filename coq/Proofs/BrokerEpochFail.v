(* C18: failure reports (add_failure / get_failures / add_proxy clearing) and the reachable-store invariant failures_wf. *)
From UM Require Import Base.BytesDef Model.Ranges Model.Broker Proofs.BrokerBase Proofs.BrokerEpochReach.
From Coq Require Import ZifyBool ZifyNat ZifyN Lia.

(* ---------- sorted sets (st_failed) ---------- *)
Fixpoint sset_sorted (l : list N) : Prop :=
  match l with
  | [] => True
  | k :: l' => (forall k', In k' l' -> k < k') /\ sset_sorted l'
  end.

Lemma sinsert_In k l k0 : In k0 (sinsert k l) -> k0 = k \/ In k0 l.
Proof.
  induction l as [|k' l IH]; cbn [sinsert In].
  - intros [H|[]]; auto.
  - destruct (N.eqb k k') eqn:E; [intros H; right; exact H|].
    destruct (N.ltb k k'); cbn [In].
    + intros [H|H]; auto.
    + intros [H|H]; [auto|]. destruct (IH H); auto.
Qed.

Lemma sinsert_sorted k l : sset_sorted l -> sset_sorted (sinsert k l).
Proof.
  induction l as [|k' l IH]; cbn [sinsert sset_sorted].
  - intros _. split; [intros ? []|exact I].
  - intros [Hlt Hs]. destruct (N.eqb k k') eqn:E; [cbn [sset_sorted]; auto|].
    destruct (N.ltb k k') eqn:E2; cbn [sset_sorted].
    + split; [|auto]. intros k2 [H|H]; [subst; lia|]. specialize (Hlt _ H). lia.
    + split; [|auto]. intros k2 H. destruct (sinsert_In _ _ _ H) as [->|H2]; [|auto].
      assert (k <> k') by (intros ->; rewrite N.eqb_refl in E; discriminate). lia.
Qed.

Lemma sremove_In k l k0 : In k0 (sremove k l) -> In k0 l.
Proof.
  induction l as [|k' l IH]; cbn [sremove In]; auto.
  destruct (N.eqb k k'); cbn [In]; intros H; [auto|]. destruct H; auto.
Qed.

Lemma sremove_sorted k l : sset_sorted l -> sset_sorted (sremove k l).
Proof.
  induction l as [|k' l IH]; cbn [sremove sset_sorted]; auto.
  intros [Hlt Hs]. destruct (N.eqb k k'); cbn [sset_sorted]; auto.
  split; auto. intros k2 H. apply sremove_In in H. auto.
Qed.

Lemma smem_In k l : smem k l = true <-> In k l.
Proof.
  unfold smem. rewrite existsb_exists. split.
  - intros [x [Hin Hx]]. apply N.eqb_eq in Hx. subst. exact Hin.
  - intros H. exists k. split; [exact H|apply N.eqb_refl].
Qed.

Lemma smem_sremove_same k l : sset_sorted l -> smem k (sremove k l) = false.
Proof.
  induction l as [|k' l IH]; cbn [sremove sset_sorted]; [reflexivity|].
  intros [Hlt Hs]. destruct (N.eqb k k') eqn:E.
  - apply N.eqb_eq in E. subst. destruct (smem k' l) eqn:Em; [|reflexivity].
    apply smem_In in Em. specialize (Hlt _ Em). lia.
  - unfold smem in *. cbn [existsb]. rewrite E. cbn [orb]. auto.
Qed.

(* ---------- keys_sorted under filter / map ---------- *)
Lemma keys_sorted_filter {V} (f : N * V -> bool) l : keys_sorted l -> keys_sorted (filter f l).
Proof.
  induction l as [|[k v] l IH]; cbn [filter keys_sorted]; auto.
  intros [Hlt Hs]. destruct (f (k, v)); cbn [keys_sorted]; auto.
  split; auto. intros k' v' H. apply filter_In in H. destruct H. eauto.
Qed.

Lemma keys_sorted_map_snd {V W} (g : N * V -> W) l :
  keys_sorted l -> keys_sorted (map (fun e => (fst e, g e)) l).
Proof.
  induction l as [|[k v] l IH]; cbn [map keys_sorted fst]; auto.
  intros [Hlt Hs]. split; auto. intros k' v' H. apply in_map_iff in H.
  destruct H as [[k2 v2] [Heq Hin]]. cbn [fst] in Heq. inversion Heq; subst. eauto.
Qed.

Lemma keys_sorted_NoDup {V} (l : list (N * V)) : keys_sorted l -> NoDup (map fst l).
Proof.
  induction l as [|[k v] l IH]; cbn [map keys_sorted fst]; [constructor|].
  intros [Hlt Hs]. constructor; auto. intros Hin. apply in_map_iff in Hin.
  destruct Hin as [[k2 v2] [Heq Hin]]. cbn [fst] in Heq. subst. specialize (Hlt _ _ Hin). lia.
Qed.

(* ---------- the invariant ---------- *)
Definition failures_wf (s : store) : Prop :=
  keys_sorted (st_failures s)
  /\ (forall a m, In (a, m) (st_failures s) -> keys_sorted m)
  /\ sset_sorted (st_failed s).

Lemma failures_wf_init b : failures_wf (init_store b).
Proof. repeat split; cbn; auto. intros ? ? []. Qed.

(* operations that do not touch the failure bookkeeping *)
Definition same_fail (s s' : store) : Prop := st_failures s' = st_failures s /\ st_failed s' = st_failed s.

Lemma same_fail_refl s : same_fail s s.
Proof. split; reflexivity. Qed.

Lemma same_fail_trans s1 s2 s3 : same_fail s1 s2 -> same_fail s2 s3 -> same_fail s1 s3.
Proof. intros [A B] [C D]. split; congruence. Qed.

Lemma same_fail_wf s s' : same_fail s s' -> failures_wf s -> failures_wf s'.
Proof. intros [A B] (H1 & H2 & H3). unfold failures_wf. rewrite A, B. auto. Qed.

Ltac dmatch :=
  repeat match goal with
         | |- context [match ?x with _ => _ end] => destruct x eqn:?
         end.

Ltac sf_tac := dmatch; cbn; split; reflexivity.

Lemma sf_add_cluster s n k cfg ch : same_fail s (fst (add_cluster s n k cfg ch)).
Proof. unfold add_cluster. sf_tac. Qed.

Lemma sf_remove_cluster s n : same_fail s (fst (remove_cluster s n)).
Proof. unfold remove_cluster. sf_tac. Qed.

Lemma sf_auto_add_nodes s n k ch : same_fail s (fst (auto_add_nodes s n k ch)).
Proof. unfold auto_add_nodes. sf_tac. Qed.

Lemma sf_auto_scale_up s n k ch : same_fail s (fst (auto_scale_up_nodes s n k ch)).
Proof. unfold auto_scale_up_nodes. dmatch; try (cbn; split; reflexivity). apply sf_auto_add_nodes. Qed.

Lemma sf_auto_delete s n : same_fail s (fst (auto_delete_free_nodes s n)).
Proof. unfold auto_delete_free_nodes. sf_tac. Qed.

Lemma sf_auto_delete_if s n : same_fail s (fst (auto_delete_free_nodes_if_exists s n)).
Proof.
  unfold auto_delete_free_nodes_if_exists. pose proof (sf_auto_delete s n) as H.
  destruct (auto_delete_free_nodes s n) as [s1 r1]. cbn [fst] in H.
  dmatch; cbn [fst]; exact H.
Qed.

Lemma sf_migrate_slots s n : same_fail s (fst (migrate_slots s n)).
Proof. unfold migrate_slots. sf_tac. Qed.

Lemma sf_scale_down s n k : same_fail s (fst (migrate_slots_to_scale_down s n k)).
Proof. unfold migrate_slots_to_scale_down. sf_tac. Qed.

Lemma sf_commit s n rl tag e : same_fail s (fst (commit_migration s n rl tag e)).
Proof. unfold commit_migration. sf_tac. Qed.

Lemma sf_commit_api s n rl tag e clr : same_fail s (fst (commit_migration_api s n rl tag e clr)).
Proof.
  unfold commit_migration_api. pose proof (sf_commit s n rl tag e) as H.
  destruct (commit_migration s n rl tag e) as [s1 r1]. cbn [fst] in H.
  dmatch; cbn [fst]; try exact H.
  eapply same_fail_trans; [exact H|]. apply sf_auto_delete_if.
Qed.

Lemma sf_auto_change s n k ch : same_fail s (fst (auto_change_node_number s n k ch)).
Proof.
  unfold auto_change_node_number.
  destruct (alookup n (st_clusters s)); [|apply same_fail_refl].
  destruct (cluster_is_migrating c); [apply same_fail_refl|].
  pose proof (sf_auto_delete s n) as H.
  destruct (auto_delete_free_nodes s n) as [s1 r1]. cbn [fst] in H.
  assert (Hup : forall k ch, same_fail s (fst (auto_scale_up_nodes s1 n k ch)))
    by (intros; eapply same_fail_trans; [exact H|apply sf_auto_scale_up]).
  assert (Hdn : forall k, same_fail s (fst (migrate_slots_to_scale_down s1 n k)))
    by (intros; eapply same_fail_trans; [exact H|apply sf_scale_down]).
  specialize (Hup k ch). specialize (Hdn k).
  destruct (auto_scale_up_nodes s1 n k ch) as [s2 r2].
  destruct (migrate_slots_to_scale_down s1 n k) as [s3 r3].
  cbn [fst] in *.
  dmatch; cbn [fst]; assumption.
Qed.

Lemma sf_auto_scale_out s n k : same_fail s (fst (auto_scale_out_node_number s n k)).
Proof. unfold auto_scale_out_node_number. dmatch; try apply same_fail_refl. apply sf_migrate_slots. Qed.

Lemma sf_balance s n : same_fail s (fst (balance_masters s n)).
Proof. unfold balance_masters. sf_tac. Qed.

Lemma sf_change_config s n v c : same_fail s (fst (change_config s n v c)).
Proof. unfold change_config. sf_tac. Qed.

Lemma sf_force_bump s e : same_fail s (fst (force_bump_all_epoch s e)).
Proof. unfold force_bump_all_epoch. sf_tac. Qed.

Lemma sf_recover s e : same_fail s (recover_epoch s e).
Proof. split; reflexivity. Qed.

(* ---------- operations that do touch it ---------- *)
Lemma wf_add_failure s a r now : failures_wf s -> failures_wf (fst (add_failure s a r now)).
Proof.
  intros (H1 & H2 & H3). unfold add_failure.
  destruct (match alookup a (st_failures s) with Some m => amem r m | None => false end); [repeat split; auto|].
  cbn [fst st_failures st_failed with_failures bump with_epoch].
  repeat split; auto.
  - apply ainsert_sorted; exact H1.
  - intros a0 m0 Hin. apply ainsert_In in Hin. destruct Hin as [[-> ->]|Hin]; [|eauto].
    apply ainsert_sorted. destruct (alookup a (st_failures s)) eqn:E; [|exact I].
    apply alookup_In in E. eauto.
Qed.

Lemma expire_In a m fs now ttl :
  In (a, m) (expire_failures fs now ttl) <->
  m <> [] /\ exists m0, In (a, m0) fs /\ m = filter (fun rt => fresh now ttl (snd rt)) m0.
Proof.
  unfold expire_failures. rewrite filter_In, in_map_iff. cbn [snd]. split.
  - intros [[[a0 m0] [Heq Hin]] Hne]. cbn [fst snd] in Heq. inversion Heq; subst. split.
    + intros E. rewrite E in Hne. discriminate.
    + eauto.
  - intros [Hne [m0 [Hin ->]]]. split.
    + exists (a, m0). split; [reflexivity|exact Hin].
    + destruct (filter _ m0); [congruence|reflexivity].
Qed.

Lemma wf_expire fs now ttl :
  keys_sorted fs -> (forall a m, In (a, m) fs -> keys_sorted m) ->
  keys_sorted (expire_failures fs now ttl) /\ (forall a m, In (a, m) (expire_failures fs now ttl) -> keys_sorted m).
Proof.
  intros H1 H2. split.
  - unfold expire_failures. apply keys_sorted_filter.
    apply (keys_sorted_map_snd (fun e => filter (fun rt => fresh now ttl (snd rt)) (snd e))). exact H1.
  - intros a m Hin. apply expire_In in Hin. destruct Hin as [_ [m0 [Hin ->]]].
    apply keys_sorted_filter. eauto.
Qed.

Lemma wf_get_failures s now ttl q : failures_wf s -> failures_wf (fst (get_failures s now ttl q)).
Proof.
  intros (H1 & H2 & H3). unfold get_failures. cbn [fst]. unfold failures_wf.
  cbn [st_failures st_failed with_failures].
  destruct (wf_expire _ now ttl H1 H2). auto.
Qed.

Lemma wf_cleanup_failures s now ttl q : failures_wf s -> failures_wf (fst (cleanup_failures s now ttl q)).
Proof. unfold cleanup_failures. cbn [fst]. apply wf_get_failures. Qed.

Lemma wf_clear s a ps :
  failures_wf s ->
  failures_wf (with_failures (with_failed (with_proxies s ps) (sremove a (st_failed s))) (aremove a (st_failures s))).
Proof.
  intros (H1 & H2 & H3). unfold failures_wf. cbn [st_failures st_failed with_failures with_failed with_proxies].
  repeat split.
  - apply aremove_sorted; exact H1.
  - intros a0 m Hin. apply aremove_In in Hin. eauto.
  - apply sremove_sorted; exact H3.
Qed.

Lemma failures_wf_bump s : failures_wf s -> failures_wf (bump s).
Proof. exact (fun H => H). Qed.

Lemma wf_add_proxy s a h i : failures_wf s -> failures_wf (fst (add_proxy s a h i)).
Proof.
  intros Hwf. unfold add_proxy.
  destruct (if st_ordered s then i else Some 0); [|exact Hwf].
  cbn [fst]. match goal with |- failures_wf (if ?c then bump ?x else ?x) => destruct c end;
    [apply failures_wf_bump|]; apply wf_clear; exact Hwf.
Qed.

Lemma wf_remove_proxy s a : failures_wf s -> failures_wf (fst (remove_proxy s a)).
Proof.
  intros Hwf. unfold remove_proxy.
  destruct (alookup a (st_proxies s)); [|exact Hwf].
  destruct (pr_cluster p); [exact Hwf|].
  cbn [fst]. apply failures_wf_bump. apply wf_clear. exact Hwf.
Qed.

Lemma wf_replace s a ch : failures_wf s -> failures_wf (fst (replace_failed_proxy s a ch)).
Proof.
  intros (H1 & H2 & H3). unfold replace_failed_proxy.
  assert (Hins : sset_sorted (sinsert a (st_failed s))) by (apply sinsert_sorted; exact H3).
  dmatch; cbn [fst]; unfold failures_wf;
    cbn [st_failures st_failed with_failures with_failed with_clusters with_proxies bump with_epoch];
    repeat split; auto.
  - apply aremove_sorted; exact H1.
  - intros a0 m Hin. apply aremove_In in Hin. eauto.
Qed.

Lemma failures_wf_step s o : failures_wf s -> op_wf failures_wf o -> failures_wf (fst (step s o)).
Proof.
  intros Hwf Ho. destruct o; cbn [step op_wf] in *.
  - pose proof (wf_add_proxy s addr host index Hwf) as H.
    destruct (add_proxy s addr host index) as [s' []]; exact H.
  - pose proof (wf_remove_proxy s addr Hwf) as H.
    destruct (remove_proxy s addr) as [s' []]; exact H.
  - pose proof (sf_add_cluster s name node_num cfg choices) as H.
    destruct (add_cluster s name node_num cfg choices) as [s' []]; exact (same_fail_wf _ _ H Hwf).
  - pose proof (sf_remove_cluster s name) as H.
    destruct (remove_cluster s name) as [s' []]; exact (same_fail_wf _ _ H Hwf).
  - pose proof (sf_auto_add_nodes s name num choices) as H.
    destruct (auto_add_nodes s name num choices) as [s' []]; exact (same_fail_wf _ _ H Hwf).
  - pose proof (sf_auto_scale_up s name expected choices) as H.
    destruct (auto_scale_up_nodes s name expected choices) as [s' []]; exact (same_fail_wf _ _ H Hwf).
  - pose proof (sf_auto_delete s name) as H.
    destruct (auto_delete_free_nodes s name) as [s' []]; exact (same_fail_wf _ _ H Hwf).
  - pose proof (sf_migrate_slots s name) as H.
    destruct (migrate_slots s name) as [s' []]; exact (same_fail_wf _ _ H Hwf).
  - pose proof (sf_scale_down s name new_num) as H.
    destruct (migrate_slots_to_scale_down s name new_num) as [s' []]; exact (same_fail_wf _ _ H Hwf).
  - pose proof (sf_commit_api s name rl tag epoch clear_free) as H.
    destruct (commit_migration_api s name rl tag epoch clear_free) as [s' []]; exact (same_fail_wf _ _ H Hwf).
  - destruct (nth_out_entry s name j).
    + pose proof (sf_commit_api s name (ms_ranges m) TagMigrating (mm_epoch (ms_meta m)) clear_free) as H.
      destruct (commit_migration_api s name (ms_ranges m) TagMigrating (mm_epoch (ms_meta m)) clear_free) as [s' []];
        exact (same_fail_wf _ _ H Hwf).
    + pose proof (sf_commit_api s name [] TagMigrating 0 clear_free) as H.
      destruct (commit_migration_api s name [] TagMigrating 0 clear_free) as [s' []]; exact (same_fail_wf _ _ H Hwf).
  - pose proof (sf_auto_change s name expected choices) as H.
    destruct (auto_change_node_number s name expected choices) as [s' []]; exact (same_fail_wf _ _ H Hwf).
  - pose proof (sf_auto_scale_out s name expected) as H.
    destruct (auto_scale_out_node_number s name expected) as [s' []]; exact (same_fail_wf _ _ H Hwf).
  - pose proof (wf_replace s addr choice Hwf) as H.
    destruct (replace_failed_proxy s addr choice) as [s' []]; exact H.
  - pose proof (sf_balance s name) as H.
    destruct (balance_masters s name) as [s' []]; exact (same_fail_wf _ _ H Hwf).
  - pose proof (sf_change_config s name valid cfg) as H.
    destruct (change_config s name valid cfg) as [s' []]; exact (same_fail_wf _ _ H Hwf).
  - pose proof (wf_add_failure s addr reporter now Hwf) as H.
    destruct (add_failure s addr reporter now) as [s' b]; exact H.
  - pose proof (wf_get_failures s now ttl quorum Hwf) as H.
    destruct (get_failures s now ttl quorum) as [s' l]; exact H.
  - pose proof (wf_cleanup_failures s now ttl quorum Hwf) as H.
    destruct (cleanup_failures s now ttl quorum) as [s' b]; exact H.
  - pose proof (sf_force_bump s e) as H.
    destruct (force_bump_all_epoch s e) as [s' []]; exact (same_fail_wf _ _ H Hwf).
  - exact (same_fail_wf _ _ (sf_recover s e) Hwf).
  - unfold restore. destruct (N.ltb (st_epoch snapshot) (st_epoch s)); cbn [lift_unit fst]; assumption.
Qed.

Lemma failures_wf_reachable s : reachable s -> failures_wf s.
Proof. apply inv_reachable; [exact failures_wf_step|exact failures_wf_init]. Qed.

Lemma failures_wf_run b ops : Forall (op_wf failures_wf) ops -> failures_wf (run (init_store b) ops).
Proof. intros H. apply inv_run; [exact failures_wf_step|apply failures_wf_init|exact H]. Qed.

Lemma failures_wf_run_from s ops : failures_wf s -> Forall (op_wf failures_wf) ops -> failures_wf (run s ops).
Proof. intros Hs H. apply inv_run; [exact failures_wf_step|exact Hs|exact H]. Qed.

(* ---------- C18 statements ---------- *)
Definition fresh_reports (now ttl : Z) (m : list (N * Z)) : list (N * Z) := filter (fun rt => fresh now ttl (snd rt)) m.

Lemma fresh_spec now ttl t : fresh now ttl t = true <-> (now - t < ttl)%Z.
Proof. unfold fresh. apply Z.ltb_lt. Qed.

Lemma quorum_lemma s now ttl q a :
  In a (snd (get_failures s now ttl q)) ->
  amem a (st_proxies s) = true /\
  exists m, In (a, m) (st_failures s) /\
            q <= N.of_nat (length (filter (fun rt => fresh now ttl (snd rt)) m)).
Proof.
  unfold get_failures. cbn [snd]. intros Hin. apply in_map_iff in Hin.
  destruct Hin as [[a0 m] [Heq Hin]]. cbn [fst] in Heq. subst a0.
  apply filter_In in Hin. destruct Hin as [Hin Hc]. cbn [fst snd] in Hc.
  apply andb_true_iff in Hc. destruct Hc as [Hq Hreg]. split; [exact Hreg|].
  apply expire_In in Hin. destruct Hin as [_ [m0 [Hin0 ->]]].
  exists m0. split; [exact Hin0|]. apply N.leb_le in Hq. exact Hq.
Qed.

(* with the reachable-store invariant: the report list is THE stored one and its reporters are pairwise distinct *)
Lemma quorum_distinct_lemma s now ttl q a :
  failures_wf s ->
  In a (snd (get_failures s now ttl q)) ->
  amem a (st_proxies s) = true /\
  exists m, alookup a (st_failures s) = Some m /\ NoDup (map fst m) /\
            q <= N.of_nat (length (filter (fun rt => fresh now ttl (snd rt)) m)).
Proof.
  intros (H1 & H2 & _) Hin. destruct (quorum_lemma _ _ _ _ _ Hin) as [Hreg [m [Hm Hq]]].
  split; [exact Hreg|]. exists m. repeat split; auto.
  - apply In_alookup_sorted; auto.
  - apply keys_sorted_NoDup. eauto.
Qed.

Lemma add_failure_twice s a r t1 t2 :
  add_failure (fst (add_failure s a r t1)) a r t2 = (fst (add_failure s a r t1), false).
Proof.
  unfold add_failure at 2 3.
  destruct (match alookup a (st_failures s) with Some m => amem r m | None => false end) eqn:E.
  - cbn [fst]. unfold add_failure. rewrite E. reflexivity.
  - cbn [fst]. unfold add_failure. cbn [st_failures with_failures bump with_epoch].
    rewrite alookup_ainsert_same. unfold amem at 1. rewrite alookup_ainsert_same. reflexivity.
Qed.

Lemma add_failure_known s a r t m t0 :
  alookup a (st_failures s) = Some m -> alookup r m = Some t0 -> add_failure s a r t = (s, false).
Proof. intros Ha Hr. unfold add_failure. rewrite Ha. unfold amem. rewrite Hr. reflexivity. Qed.

Lemma add_failure_first_kept s a r t1 t2 :
  snd (add_failure s a r t1) = true ->
  exists m, alookup a (st_failures (fst (add_failure (fst (add_failure s a r t1)) a r t2))) = Some m /\
            alookup r m = Some t1.
Proof.
  rewrite add_failure_twice. cbn [fst]. unfold add_failure.
  destruct (match alookup a (st_failures s) with Some m => amem r m | None => false end) eqn:E; cbn [snd fst]; [discriminate|].
  intros _. cbn [st_failures with_failures bump with_epoch]. rewrite alookup_ainsert_same.
  eexists. split; [reflexivity|]. apply alookup_ainsert_same.
Qed.

(* a report by a new reporter is stored with the given time and leaves every other stored report as it was *)
Lemma add_failure_others s a r t a0 r0 :
  (a0, r0) <> (a, r) ->
  (match alookup a0 (st_failures (fst (add_failure s a r t))) with Some m => alookup r0 m | None => None end)
  = (match alookup a0 (st_failures s) with Some m => alookup r0 m | None => None end).
Proof.
  intros Hne. unfold add_failure.
  destruct (match alookup a (st_failures s) with Some m => amem r m | None => false end); [reflexivity|].
  cbn [fst st_failures with_failures bump with_epoch]. rewrite alookup_ainsert.
  destruct (N.eqb a0 a) eqn:E; [|reflexivity].
  apply N.eqb_eq in E. subst a0. rewrite alookup_ainsert.
  destruct (N.eqb r0 r) eqn:E2; [apply N.eqb_eq in E2; subst; congruence|].
  destruct (alookup a (st_failures s)); reflexivity.
Qed.

Lemma expired_discarded_lemma s now ttl q :
  let s' := fst (get_failures s now ttl q) in
  (forall a m, In (a, m) (st_failures s') ->
     m <> [] /\ forall r t, In (r, t) m -> (now - t < ttl)%Z)
  /\ (forall a m r t, In (a, m) (st_failures s) -> In (r, t) m -> (now - t < ttl)%Z ->
        exists m', In (a, m') (st_failures s') /\ In (r, t) m')
  /\ (forall a m' r t, In (a, m') (st_failures s') -> In (r, t) m' ->
        exists m, In (a, m) (st_failures s) /\ In (r, t) m).
Proof.
  unfold get_failures. cbn [fst st_failures with_failures]. split; [|split].
  - intros a m Hin. apply expire_In in Hin. destruct Hin as [Hne [m0 [_ ->]]]. split; [exact Hne|].
    intros r t Hr. apply filter_In in Hr.
    destruct Hr as [_ Hf]. cbn [snd] in Hf. apply fresh_spec. exact Hf.
  - intros a m r t Hin Hr Hf.
    exists (filter (fun rt => fresh now ttl (snd rt)) m).
    assert (Hr' : In (r, t) (filter (fun rt => fresh now ttl (snd rt)) m)).
    { apply filter_In. split; [exact Hr|]. cbn [snd]. apply fresh_spec. exact Hf. }
    split; [|exact Hr']. apply expire_In. split; [|eauto].
    intros E. rewrite E in Hr'. destruct Hr'.
  - intros a m' r t Hin Hr. apply expire_In in Hin. destruct Hin as [_ [m0 [Hin ->]]].
    apply filter_In in Hr. destruct Hr as [Hr _]. eauto.
Qed.

Lemma reregister_clears_lemma s a h i :
  failures_wf s ->
  snd (add_proxy s a h i) <> Fail E_MissingIndex ->
  let s' := fst (add_proxy s a h i) in
  alookup a (st_failures s') = None /\ smem a (st_failed s') = false /\ amem a (st_proxies s') = true.
Proof.
  intros (H1 & H2 & H3). unfold add_proxy.
  destruct (if st_ordered s then i else Some 0); cbn [snd fst]; [intros _|congruence].
  assert (Hreg : amem a (if amem a (st_proxies s) then st_proxies s
                         else ainsert a (mkRes (2 * a) (2 * a + 1)
                                (match h with Some h0 => h0 | None => DERIVED_HOST_BASE + a end) n None) (st_proxies s)) = true).
  { destruct (amem a (st_proxies s)) eqn:E; [exact E|]. unfold amem. rewrite alookup_ainsert_same. reflexivity. }
  match goal with |- context [if ?c then bump ?x else ?x] => destruct c end;
    cbn [st_failures st_failed st_proxies with_failures with_failed with_proxies bump with_epoch];
    (split; [apply alookup_aremove_same; exact H1|split; [apply smem_sremove_same; exact H3|exact Hreg]]).
Qed.

(* the only outcome that leaves the marks in place is the MissingIndex rejection, which changes nothing at all *)
Lemma add_proxy_missing_index s a h i :
  snd (add_proxy s a h i) = Fail E_MissingIndex -> fst (add_proxy s a h i) = s /\ st_ordered s = true /\ i = None.
Proof.
  unfold add_proxy. destruct (st_ordered s) eqn:Eo.
  - destruct i; cbn [snd fst]; [|auto]. destruct (amem a (st_proxies s)); cbn; discriminate.
  - cbn [snd fst]. destruct (amem a (st_proxies s)); cbn; discriminate.
Qed.
