From UM Require Import Base.BytesDef Model.Ranges Model.Broker Proofs.BrokerBase Proofs.BrokerPartRanges Proofs.BrokerPartDefs Proofs.BrokerPartMigrateBase.
From Coq Require Import ZifyBool ZifyNat ZifyN Permutation.

(* A list of well-formed ranges that covers exactly the slots below SLOT_NUM, each once, has total length SLOT_NUM. *)

(* a slot with positive count lies in some range of the list *)
Lemma cnt_pos_split s : forall l, (1 <= cnt s l)%nat ->
  exists l1 r l2, l = l1 ++ r :: l2 /\ in_range s r = true.
Proof.
  induction l as [|x l IH]; intros H.
  - rewrite cnt_nil in H. lia.
  - destruct (in_range s x) eqn:E.
    + exists [], x, l. split; [reflexivity|exact E].
    + rewrite cnt_cons in H. unfold ind in H. rewrite E in H.
      assert (H' : (1 <= cnt s l)%nat) by lia.
      destruct (IH H') as (l1 & r & l2 & Hl & Hr). subst l.
      exists (x :: l1), r, l2. split; [reflexivity|exact Hr].
Qed.

(* the bound generalised: covering exactly [0, M) once means total length M *)
Lemma covers_bound : forall n l M, length l = n -> Forall wf_range l ->
  (forall s, cnt s l = if N.ltb s M then 1%nat else 0%nat) -> slots_total l = M.
Proof.
  induction n as [|n IH]; intros l M Hlen Hw Hc.
  - destruct l as [|x l]; [|discriminate]. specialize (Hc 0). rewrite cnt_nil in Hc.
    destruct (N.ltb 0 M) eqn:E; [discriminate|]. unfold slots_total. cbn [fold_right]. lia.
  - destruct (N.eqb M 0) eqn:EM.
    + assert (Hnil : l = []).
      { apply cnt_zero_nil; [exact Hw|]. intros s. rewrite Hc. destruct (N.ltb s M) eqn:E; [lia|reflexivity]. }
      subst l. discriminate.
    + destruct (cnt_pos_split (M - 1) l) as (l1 & r & l2 & Hl & Hr).
      { rewrite Hc. destruct (N.ltb (M - 1) M) eqn:E; lia. }
      subst l. destruct r as [a b]. apply in_range_spec in Hr. cbn [fst snd] in Hr.
      apply Forall_app in Hw. destruct Hw as [Hw1 Hw2].
      inversion Hw2 as [|? ? Hwr Hw2']; subst.
      unfold wf_range in Hwr. cbn [fst snd] in Hwr.
      assert (Hb : b = M - 1).
      { destruct (N.ltb b M) eqn:E; [lia|]. exfalso.
        pose proof (Hc b) as Hcb. rewrite E in Hcb. rewrite cnt_app, cnt_cons in Hcb.
        assert (Hi : in_range b (a, b) = true) by (apply in_range_spec; cbn [fst snd]; lia).
        unfold ind in Hcb. rewrite Hi in Hcb. lia. }
      subst b.
      assert (Hrec : slots_total (l1 ++ l2) = a).
      { apply IH.
        - rewrite app_length in *. cbn [length] in Hlen. lia.
        - apply Forall_app. split; assumption.
        - intros s. pose proof (Hc s) as Hcs. rewrite cnt_app, cnt_cons in Hcs. rewrite cnt_app.
          unfold ind, in_range in Hcs. cbn [fst snd] in Hcs.
          destruct (N.ltb s M) eqn:E1; destruct (N.ltb s a) eqn:E2;
            destruct (N.leb a s && N.leb s (M - 1)) eqn:E3; lia. }
      rewrite slots_total_app in Hrec. rewrite slots_total_app, slots_total_cons. cbn [fst snd]. lia.
Qed.

Lemma covers_total : forall l, Forall wf_range l -> (forall s, cnt s l = slot_ind s) -> slots_total l = SLOT_NUM.
Proof.
  intros l Hw Hc. apply (covers_bound (length l) l SLOT_NUM eq_refl Hw).
  intros s. rewrite Hc. reflexivity.
Qed.

Print Assumptions covers_total.
