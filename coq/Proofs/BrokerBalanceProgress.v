(* Progress half of C10: termination of a scaling operation.
   `pending cl` (BrokerScale) is the number of out entries of a cluster = the number of migrations still to be committed.
   While a cluster is being rescaled the broker only sees commits for it (in any order, possibly failing or duplicated),
   failovers and master re-balancing.  Every such operation keeps the cluster and changes `pending` by exactly
   -1 (successful commit) or 0 (anything else); so a script with n successful commits ends with `pending - n` migrations,
   and after `pending` successful commits the cluster is no longer migrating. *)
From UM Require Import Base.BytesDef Model.Ranges Model.Broker Proofs.BrokerBase Proofs.BrokerPartRanges Proofs.BrokerPartDefs
  Proofs.BrokerPartOpsFrame Proofs.BrokerPartOpsFail Proofs.BrokerPartOpsNodes Proofs.BrokerPartOpsCommit Proofs.BrokerPartOps
  Proofs.BrokerPartMigrate Proofs.BrokerPartMain Proofs.BrokerScale Proofs.BrokerBalanceDefs Proofs.BrokerBalanceCommit.
From Coq Require Import ZifyBool ZifyNat ZifyN.

(* operations allowed while cluster `name` is being rescaled *)
Definition drain_op (name : N) (o : op) : Prop :=
  match o with
  | OCommit n _ _ _ _ | OCommitNth n _ _ => n = name
  | OReplaceFailed _ _ | OBalance _ => True
  | _ => False
  end.
Definition is_commit (o : op) : bool := match o with OCommit _ _ _ _ _ | OCommitNth _ _ _ => true | _ => false end.
Definition is_ok (r : res) : bool := match r with ROk => true | _ => false end.
(* number of commits of the script that succeed when it is run from s *)
Fixpoint successes (s : store) (ops : list op) : nat :=
  match ops with
  | [] => 0
  | o :: rest => ((if is_commit o && is_ok (snd (step s o)) then 1 else 0) + successes (fst (step s o)) rest)%nat
  end.

(* ---------- the measure on chunk lists ---------- *)
Lemma bp_out_entries_filter_nonfree l : out_entries (filter (fun c => negb (chunk_is_free c)) l) = out_entries l.
Proof.
  unfold out_entries. induction l as [|c l IH]; [reflexivity|]. cbn [filter].
  destruct (chunk_is_free c) eqn:E; cbn [negb flat_map].
  - apply chunk_is_free_spec in E. destruct E as (_ & _ & E0 & E1). rewrite E0, E1. cbn [filter app]. exact IH.
  - rewrite IH. reflexivity.
Qed.

Lemma same_slots_pending l l' : Forall2 same_slots l l' -> length (out_entries l') = length (out_entries l).
Proof.
  apply cm_nout_Forall2. intros c c' (_ & _ & E0 & E1). unfold cm_chunk_nout. rewrite E0, E1. reflexivity.
Qed.

(* ---------- every cluster of s is still there in s' with the same measure ---------- *)
Definition pend_le (s s' : store) : Prop := forall name cl,
  alookup name (st_clusters s) = Some cl -> exists cl', alookup name (st_clusters s') = Some cl' /\ pending cl' = pending cl.

Lemma pend_le_refl s : pend_le s s.
Proof. intros name cl E. exists cl. split; [exact E|reflexivity]. Qed.

Lemma pend_le_trans s1 s2 s3 : pend_le s1 s2 -> pend_le s2 s3 -> pend_le s1 s3.
Proof.
  intros H12 H23 name cl E. destruct (H12 name cl E) as (cl2 & E2 & P2). destruct (H23 name cl2 E2) as (cl3 & E3 & P3).
  exists cl3. split; [exact E3|congruence].
Qed.

Lemma pend_le_clusters s s' : st_clusters s' = st_clusters s -> pend_le s s'.
Proof. intros Ec name cl E. exists cl. rewrite Ec. split; [exact E|reflexivity]. Qed.

Lemma pend_le_insert s s' n c c' :
  alookup n (st_clusters s) = Some c -> pending c' = pending c -> st_clusters s' = ainsert n c' (st_clusters s) -> pend_le s s'.
Proof.
  intros En Hp Ec name cl E. rewrite Ec, alookup_ainsert. destruct (N.eqb name n) eqn:Q.
  - apply N.eqb_eq in Q. subst name. exists c'. split; [reflexivity|]. congruence.
  - exists cl. split; [exact E|reflexivity].
Qed.

(* ---------- operations that keep the measure of every cluster ---------- *)
Lemma balance_masters_pend s n : pend_le s (fst (balance_masters s n)).
Proof.
  unfold balance_masters. destruct (alookup n (st_clusters s)) as [cl|] eqn:E; cbn [fst]; [|apply pend_le_refl].
  eapply pend_le_insert; [exact E| |reflexivity].
  unfold pending. cbn [cl_chunks]. apply same_slots_pending.
  apply Forall2_map_self. intros c. destruct (_ || _); [apply same_slots_refl|apply same_slots_set_role].
Qed.

Lemma auto_delete_free_nodes_pend s name : pend_le s (fst (auto_delete_free_nodes s name)).
Proof.
  unfold auto_delete_free_nodes.
  destruct (alookup name (st_clusters s)) as [cl|] eqn:E; cbn [fst]; [|apply pend_le_refl].
  destruct (cluster_is_migrating cl); cbn [fst]; [apply pend_le_refl|].
  destruct (filter chunk_is_free (cl_chunks cl)) as [|c0 removed]; cbn [fst]; [apply pend_le_refl|].
  eapply pend_le_insert; [exact E| |reflexivity].
  unfold pending. cbn [cl_chunks]. rewrite bp_out_entries_filter_nonfree. reflexivity.
Qed.

Lemma auto_delete_if_exists_snd s name cl :
  alookup name (st_clusters s) = Some cl -> snd (auto_delete_free_nodes_if_exists s name) = Done tt.
Proof.
  intros E. unfold auto_delete_free_nodes_if_exists, auto_delete_free_nodes. rewrite E.
  destruct (cluster_is_migrating cl); [reflexivity|].
  destruct (filter chunk_is_free (cl_chunks cl)); reflexivity.
Qed.

Lemma replace_failed_proxy_pend s failed choice : pend_le s (fst (replace_failed_proxy s failed choice)).
Proof.
  unfold replace_failed_proxy.
  destruct (alookup failed (st_proxies s)) as [fr|]; cbn [fst]; [|apply pend_le_refl].
  destruct (pr_cluster fr) as [name|]; cbn [fst]; [|apply pend_le_clusters; reflexivity].
  assert (H1 : pend_le s (bump s)) by (apply pend_le_clusters; reflexivity).
  destruct (alookup name (st_clusters (bump s))) as [cl|] eqn:E; cbn [fst]; [|exact H1].
  set (s2 := with_clusters (bump s) (ainsert name (takeover_master cl failed (st_epoch (bump s))) (st_clusters (bump s)))).
  assert (H2 : pend_le s s2).
  { eapply pend_le_trans; [exact H1|]. eapply pend_le_insert; [exact E|apply takeover_master_pending|reflexivity]. }
  destruct (st_ordered s2); cbn [fst]; [eapply pend_le_trans; [exact H2|apply pend_le_clusters; reflexivity]|].
  set (s3 := with_failed s2 (sinsert failed (st_failed s2))).
  assert (H3 : pend_le s s3) by (eapply pend_le_trans; [exact H2|apply pend_le_clusters; reflexivity]).
  destruct (generate_new_free_proxy s3 failed choice) as [r| |]; cbn [fst]; try exact H3.
  assert (H4 : pend_le s (bump s3)) by (eapply pend_le_trans; [exact H3|apply pend_le_clusters; reflexivity]).
  destruct (alookup name (st_clusters (bump s3))) as [cl2|] eqn:E2; cbn [fst]; [|exact H4].
  eapply pend_le_trans; [exact H4|]. eapply pend_le_insert; [exact E2| |reflexivity].
  unfold pending. cbn [cl_chunks]. apply same_slots_pending. apply replace_in_chunks_same.
Qed.

(* ---------- commits ---------- *)
Lemma commit_migration_fail_fst s name rl tag e :
  snd (commit_migration s name rl tag e) <> Done tt -> fst (commit_migration s name rl tag e) = s.
Proof.
  unfold commit_migration.
  destruct (alookup name (st_clusters s)) as [cl|]; [|reflexivity].
  destruct tag; [reflexivity| |];
    (destruct (find_entry_chunks 0 (cl_chunks cl) rl e true) as [[si sp]|]; [|reflexivity];
     destruct (find_entry_chunks 0 (cl_chunks cl) rl e false) as [[di dp]|]; [|reflexivity];
     cbn [fst snd]; intros Hn; exfalso; apply Hn; reflexivity).
Qed.

Lemma commit_api_drain s name cl rl tag e clr :
  store_part_inv s -> alookup name (st_clusters s) = Some cl ->
  exists cl', alookup name (st_clusters (fst (lift_unit (commit_migration_api s name rl tag e clr)))) = Some cl' /\
              (pending cl' + (if is_ok (snd (lift_unit (commit_migration_api s name rl tag e clr))) then 1 else 0))%nat = pending cl.
Proof.
  intros H Hl. rewrite lift_unit_fst.
  pose proof (commit_decreases_pending s name rl tag e cl H Hl) as Hdec.
  pose proof (commit_migration_fail_fst s name rl tag e) as Hfail.
  unfold commit_migration_api.
  destruct (commit_migration s name rl tag e) as [s' [[]|err|]]; cbn [fst snd] in Hdec, Hfail.
  - destruct (Hdec eq_refl) as (cl1 & Hl1 & Hp1). destruct clr.
    + rewrite auto_delete_if_exists_fst.
      destruct (auto_delete_free_nodes_pend s' name name cl1 Hl1) as (cl2 & Hl2 & Hp2).
      exists cl2. split; [exact Hl2|].
      pose proof (auto_delete_if_exists_snd s' name cl1 Hl1) as Hs.
      destruct (auto_delete_free_nodes_if_exists s' name) as [s'' r'']. cbn [snd] in Hs. subst r''.
      cbn [lift_unit snd is_ok]. lia.
    + exists cl1. cbn [fst lift_unit snd is_ok]. split; [exact Hl1|lia].
  - rewrite Hfail by discriminate. exists cl. cbn [fst lift_unit snd is_ok]. split; [exact Hl|lia].
  - rewrite Hfail by discriminate. exists cl. cbn [fst lift_unit snd is_ok]. split; [exact Hl|lia].
Qed.

(* ---------- one step ---------- *)
Lemma bp_replace_step_fst s a ch :
  fst (step s (OReplaceFailed a ch)) = fst (replace_failed_proxy s a ch).
Proof. cbn [step]. destruct (replace_failed_proxy s a ch) as [s' [r|e|]]; reflexivity. Qed.

Theorem step_drain : forall s name cl o,
  store_part_inv s -> alookup name (st_clusters s) = Some cl -> drain_op name o ->
  exists cl', alookup name (st_clusters (fst (step s o))) = Some cl' /\
              (pending cl' + (if is_commit o && is_ok (snd (step s o)) then 1 else 0))%nat = pending cl.
Proof.
  intros s name cl o H Hl Hop.
  destruct o; cbn [drain_op] in Hop; try contradiction.
  - (* OCommit *) subst name0. cbn [step is_commit andb]. apply commit_api_drain; assumption.
  - (* OCommitNth *) subst name0. cbn [step is_commit andb].
    destruct (nth_out_entry s name j); apply commit_api_drain; assumption.
  - (* OReplaceFailed *) cbn [is_commit andb]. rewrite bp_replace_step_fst.
    destruct (replace_failed_proxy_pend s addr choice name cl Hl) as (cl' & Hl' & Hp').
    exists cl'. split; [exact Hl'|lia].
  - (* OBalance *) cbn [is_commit andb step]. rewrite lift_unit_fst.
    destruct (balance_masters_pend s name0 name cl Hl) as (cl' & Hl' & Hp').
    exists cl'. split; [exact Hl'|lia].
Qed.

Lemma step_drain_inv s name o : store_part_inv s -> drain_op name o -> store_part_inv (fst (step s o)).
Proof.
  intros H Hop. destruct o; cbn [drain_op] in Hop; try contradiction.
  - cbn [step]. rewrite lift_unit_fst. apply commit_migration_api_part_inv. exact H.
  - cbn [step]. destruct (nth_out_entry s name0 j); rewrite lift_unit_fst; apply commit_migration_api_part_inv; exact H.
  - rewrite bp_replace_step_fst. apply replace_failed_proxy_part_inv. exact H.
  - cbn [step]. rewrite lift_unit_fst. apply balance_masters_part_inv. exact H.
Qed.

(* ---------- scripts ---------- *)
Lemma run_cons s o ops : run s (o :: ops) = run (fst (step s o)) ops.
Proof. reflexivity. Qed.

Lemma run_drain_inv name : forall ops s, store_part_inv s -> Forall (drain_op name) ops -> store_part_inv (run s ops).
Proof.
  induction ops as [|o ops IH]; intros s H Hall; [exact H|].
  inversion Hall as [|o' ops' Ho Hrest]; subst. rewrite run_cons. apply IH; [|exact Hrest].
  eapply step_drain_inv; eassumption.
Qed.

Theorem run_drain : forall ops s name cl,
  store_part_inv s -> alookup name (st_clusters s) = Some cl -> Forall (drain_op name) ops ->
  exists cl', alookup name (st_clusters (run s ops)) = Some cl' /\ (pending cl' + successes s ops)%nat = pending cl.
Proof.
  induction ops as [|o ops IH]; intros s name cl H Hl Hall.
  - exists cl. cbn [run fold_left successes]. split; [exact Hl|lia].
  - inversion Hall as [|o' ops' Ho Hrest]; subst.
    destruct (step_drain s name cl o H Hl Ho) as (cl1 & Hl1 & Hp1).
    assert (H1 : store_part_inv (fst (step s o))) by (eapply step_drain_inv; eassumption).
    destruct (IH (fst (step s o)) name cl1 H1 Hl1 Hrest) as (cl' & Hl' & Hp').
    exists cl'. rewrite run_cons. split; [exact Hl'|]. cbn [successes]. lia.
Qed.

Corollary drained_not_migrating : forall ops s name cl,
  store_part_inv s -> alookup name (st_clusters s) = Some cl -> Forall (drain_op name) ops ->
  successes s ops = pending cl ->
  exists cl', alookup name (st_clusters (run s ops)) = Some cl' /\ cluster_is_migrating cl' = false.
Proof.
  intros ops s name cl H Hl Hall Hs.
  destruct (run_drain ops s name cl H Hl Hall) as (cl' & Hl' & Hp').
  exists cl'. split; [exact Hl'|].
  apply pending_zero_iff; [|lia].
  eapply store_inv_lookup; [|exact Hl']. eapply run_drain_inv; eassumption.
Qed.

(* ---------- the hypotheses are satisfiable by a non-trivial value ---------- *)
From UM Require Import Proofs.BrokerPartMigrateEx.

(* the scale-out of BrokerPartMigrateEx just planned: two pending migrations in cluster 1 *)
Definition ex_drain_store : store := fst (migrate_slots ex_out_store 1).
Definition ex_drain_script : list op :=
  [OCommit 1 [] TagNone 0 false;                          (* refused: invalid task *)
   OCommit 1 [(12288, 16383)] TagImporting 6 false;       (* commits the second migration *)
   OBalance 1; OReplaceFailed 99 None;
   OCommit 1 [(12288, 16383)] TagMigrating 6 false;       (* duplicate of the commit above: refused *)
   OCommit 1 [(4096, 8191)] TagMigrating 5 true;          (* wrong epoch: refused *)
   OCommitNth 1 7 true].                                  (* commits the remaining migration *)

(* cluster 1 of that store (computed once) *)
Definition ex_drain_cl : option cluster := Eval vm_compute in alookup 1 (st_clusters ex_drain_store).

Example ex_drain_lookup : alookup 1 (st_clusters ex_drain_store) = ex_drain_cl.
Proof. vm_compute. reflexivity. Qed.

Example ex_drain_hyps :
  store_part_inv ex_drain_store /\ Forall (drain_op 1) ex_drain_script /\
  exists cl, alookup 1 (st_clusters ex_drain_store) = Some cl /\ cluster_is_migrating cl = true /\ pending cl = 2%nat /\
             successes ex_drain_store ex_drain_script = pending cl.
Proof.
  split; [exact (proj1 ex_out_result)|]. split; [repeat constructor|].
  rewrite ex_drain_lookup. unfold ex_drain_cl. eexists. split; [reflexivity|].
  split; [vm_compute; reflexivity|]. split; vm_compute; reflexivity.
Qed.

Example ex_drain_step : exists cl cl',
  alookup 1 (st_clusters ex_drain_store) = Some cl /\
  alookup 1 (st_clusters (fst (step ex_drain_store (OCommitNth 1 0 false)))) = Some cl' /\
  snd (step ex_drain_store (OCommitNth 1 0 false)) = ROk /\ pending cl = 2%nat /\ pending cl' = 1%nat.
Proof.
  rewrite ex_drain_lookup. unfold ex_drain_cl. eexists. eexists. split; [reflexivity|].
  split; [vm_compute; reflexivity|]. split; [vm_compute; reflexivity|]. split; vm_compute; reflexivity.
Qed.

Example ex_drain_done : exists cl',
  alookup 1 (st_clusters (run ex_drain_store ex_drain_script)) = Some cl' /\ cluster_is_migrating cl' = false.
Proof.
  destruct ex_drain_hyps as (H & Hall & cl & Hl & _ & _ & Hs).
  exact (drained_not_migrating ex_drain_script ex_drain_store 1 cl H Hl Hall Hs).
Qed.

Print Assumptions step_drain.
Print Assumptions run_drain.
Print Assumptions drained_not_migrating.
