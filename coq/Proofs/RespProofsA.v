(* C15, part A: list / find_lf / slice facts; inversion and completeness of the leaf parsers
   (parse_line, parse_len, parse_bulk_str); induction principles for the nested value types. *)
From UM Require Import Base.BytesDef Base.Dec Base.RespT Model.Resp.
From Coq Require Import ZifyBool ZifyNat ZifyN.

(* ---------- induction principles (nested list resp / list iresp) ---------- *)

Definition resp_ind' (P : resp -> Prop)
  (HS : forall b, P (Simple b)) (HE : forall b, P (Error b)) (HI : forall b, P (Integer b))
  (HB : forall b, P (Bulk b)) (HBN : P BulkNil)
  (HA : forall l, Forall P l -> P (Arr l)) (HAN : P ArrNil) : forall r, P r :=
  fix F (r : resp) : P r :=
    match r with
    | Simple b => HS b
    | Error b => HE b
    | Integer b => HI b
    | Bulk b => HB b
    | BulkNil => HBN
    | Arr l => HA l ((fix G (l : list resp) : Forall P l :=
                        match l with
                        | [] => Forall_nil P
                        | x :: t => Forall_cons x (F x) (G t)
                        end) l)
    | ArrNil => HAN
    end.

Definition iresp_ind' (P : iresp -> Prop)
  (HS : forall d, P (ISimple d)) (HE : forall d, P (IError d)) (HI : forall d, P (IInteger d))
  (HB : forall d, P (IBulk d)) (HBN : P IBulkNil)
  (HA : forall l, Forall P l -> P (IArr l)) (HAN : P IArrNil) : forall r, P r :=
  fix F (r : iresp) : P r :=
    match r with
    | ISimple d => HS d
    | IError d => HE d
    | IInteger d => HI d
    | IBulk d => HB d
    | IBulkNil => HBN
    | IArr l => HA l ((fix G (l : list iresp) : Forall P l :=
                         match l with
                         | [] => Forall_nil P
                         | x :: t => Forall_cons x (F x) (G t)
                         end) l)
    | IArrNil => HAN
    end.

(* ---------- bytes_eqb ---------- *)

Lemma bytes_eqb_iff : forall a b, bytes_eqb a b = true <-> a = b.
Proof.
  induction a as [|x a IH]; intros [|y b]; cbn [bytes_eqb]; split; intros H; try discriminate; auto.
  - apply andb_true_iff in H. destruct H as [H1 H2]. apply N.eqb_eq in H1. apply IH in H2. congruence.
  - inversion H; subst. rewrite N.eqb_refl. cbn. apply IH. reflexivity.
Qed.

(* ---------- lists ---------- *)

Lemma skipn_app_len : forall (A : Type) (a r : list A) k, skipn (length a + k) (a ++ r) = skipn k r.
Proof.
  induction a as [|x a IH]; intros r k; cbn [length app plus skipn]; auto.
Qed.

Lemma skipn_app_len0 : forall (A : Type) (a r : list A), skipn (length a) (a ++ r) = r.
Proof.
  intros A a r. rewrite <- (Nat.add_0_r (length a)). rewrite skipn_app_len. reflexivity.
Qed.

Lemma firstn_app_len : forall (A : Type) (a r : list A), firstn (length a) (a ++ r) = a.
Proof.
  induction a as [|x a IH]; intros r; cbn [length app firstn]; [reflexivity|]. rewrite IH. reflexivity.
Qed.

Lemma firstn_app_len_plus : forall (A : Type) (a r : list A) k, firstn (length a + k) (a ++ r) = a ++ firstn k r.
Proof.
  induction a as [|x a IH]; intros r k; cbn [length app plus firstn]; [reflexivity|]. rewrite IH. reflexivity.
Qed.

Lemma skipn_app_le : forall (A : Type) (b m : list A) c, (c <= length b)%nat -> skipn c (b ++ m) = skipn c b ++ m.
Proof.
  intros A b m c Hc. rewrite skipn_app. replace (c - length b)%nat with O by lia. reflexivity.
Qed.

Lemma firstn_app_le : forall (A : Type) (b m : list A) c, (c <= length b)%nat -> firstn c (b ++ m) = firstn c b.
Proof.
  intros A b m c Hc. rewrite firstn_app. replace (c - length b)%nat with O by lia.
  cbn [firstn]. apply app_nil_r.
Qed.

Lemma nth_error_app_len : forall (A : Type) (a r : list A) x, nth_error (a ++ x :: r) (length a) = Some x.
Proof.
  induction a as [|y a IH]; intros r x; cbn [length app nth_error]; auto.
Qed.

Lemma skipn_skipn : forall (A : Type) (x y : nat) (l : list A), skipn x (skipn y l) = skipn (x + y) l.
Proof.
  intros A x y. induction y as [|y IH]; intros l.
  - rewrite Nat.add_0_r. reflexivity.
  - replace (x + S y)%nat with (S (x + y)) by lia. destruct l as [|a l]; cbn [skipn].
    + apply skipn_nil.
    + apply IH.
Qed.

Lemma split_at : forall (A : Type) (l : list A) n, (n <= length l)%nat ->
  exists a r, l = a ++ r /\ length a = n.
Proof.
  intros A l n Hn. exists (firstn n l), (skipn n l). split.
  - symmetry. apply firstn_skipn.
  - apply firstn_length_le. exact Hn.
Qed.

(* ---------- find_lf / no_lf ---------- *)

Lemma find_lf_complete : forall s r, no_lf s = true -> find_lf (s ++ c_LF :: r) = Some (length s).
Proof.
  induction s as [|c s IH]; intros r H; cbn [app find_lf length no_lf] in *.
  - rewrite N.eqb_refl. reflexivity.
  - apply andb_true_iff in H. destruct H as [Hc Hs]. apply negb_true_iff in Hc. rewrite Hc.
    rewrite (IH r Hs). reflexivity.
Qed.

Lemma find_lf_inv : forall b i, find_lf b = Some i ->
  exists s r, b = s ++ c_LF :: r /\ no_lf s = true /\ length s = i.
Proof.
  induction b as [|c b IH]; intros i H; cbn [find_lf] in H; [discriminate|].
  destruct (N.eqb c c_LF) eqn:E.
  - inversion H; subst. apply N.eqb_eq in E. subst c. exists [], b. repeat split.
  - destruct (find_lf b) as [j|] eqn:Ej; [|discriminate]. cbn [option_map] in H. inversion H; subst.
    destruct (IH j eq_refl) as (s & r & -> & Hs & Hl). exists (c :: s), r. cbn [app no_lf length].
    rewrite E. cbn [negb andb]. repeat split; auto.
Qed.

Lemma find_lf_none_app : forall b, find_lf b = None -> no_lf b = true.
Proof.
  induction b as [|c b IH]; intros H; cbn [find_lf no_lf] in *; [reflexivity|].
  destruct (N.eqb c c_LF); [discriminate|]. destruct (find_lf b); [discriminate|]. cbn. auto.
Qed.

Lemma no_lf_app : forall a b, no_lf (a ++ b) = no_lf a && no_lf b.
Proof.
  induction a as [|c a IH]; intros b; cbn [app no_lf]; [reflexivity|]. rewrite IH. apply andb_assoc.
Qed.

(* a line: payload s without LF, then CR LF *)
Lemma last_split_cr : forall s c, (length s = S c)%nat -> nth_error s c = Some c_CR ->
  exists s', s = s' ++ [c_CR] /\ length s' = c.
Proof.
  intros s c Hl Hn. destruct (split_at _ s c ltac:(lia)) as (a & r & -> & Ha).
  rewrite app_length in Hl. destruct r as [|x r]; cbn [length] in Hl; [lia|].
  destruct r; cbn [length] in Hl; [|lia].
  subst c. rewrite nth_error_app_len in Hn. inversion Hn; subst. exists a. auto.
Qed.

(* ---------- slice ---------- *)

Lemma slice_prefix : forall s r, slice (s ++ r) O (length s) = Some s.
Proof.
  intros s r. unfold slice. cbn [Nat.leb]. rewrite app_length.
  destruct (length s <=? length s + length r)%nat eqn:E; [|lia]. cbn [andb skipn].
  rewrite Nat.sub_0_r. rewrite firstn_app_len. reflexivity.
Qed.

Lemma slice_mid : forall a s r, slice (a ++ s ++ r) (length a) (length a + length s) = Some s.
Proof.
  intros a s r. unfold slice. rewrite !app_length.
  destruct ((length a <=? length a + length s)%nat && (length a + length s <=? length a + (length s + length r))%nat) eqn:E; [|lia].
  rewrite skipn_app_len0. replace (length a + length s - length a)%nat with (length s) by lia.
  rewrite firstn_app_len. reflexivity.
Qed.

Lemma slice_app_stable : forall b m s e t, slice b s e = Some t -> slice (b ++ m) s e = Some t.
Proof.
  intros b m s e t H. unfold slice in *. rewrite app_length.
  destruct ((s <=? e)%nat && (e <=? length b)%nat) eqn:E; [|discriminate].
  destruct ((s <=? e)%nat && (e <=? length b + length m)%nat) eqn:E2; [|lia].
  inversion H; subst. f_equal. rewrite skipn_app_le by lia. rewrite firstn_app_le; [reflexivity|].
  rewrite skipn_length. lia.
Qed.

(* ---------- btoi accepts no LF ---------- *)

Lemma digits_no_lf : forall l, forallb is_digit l = true -> no_lf l = true.
Proof.
  induction l as [|c l IH]; intros H; cbn [forallb no_lf] in *; [reflexivity|].
  apply andb_true_iff in H. destruct H as [Hc Hl]. rewrite (IH Hl).
  unfold is_digit in Hc. unfold c_LF. destruct (N.eqb c 10) eqn:E; [lia|]. reflexivity.
Qed.

Lemma btou_no_lf : forall maxv l v, btou maxv l = Some v -> no_lf l = true.
Proof.
  intros maxv l v H. unfold btou in H. destruct l as [|c l]; [discriminate|].
  destruct (btou_acc_sound _ _ _ _ H) as [(Hd & _)|(Hnil & _)]; [|discriminate].
  apply digits_no_lf. exact Hd.
Qed.

Lemma btoi_no_lf : forall l z, btoi_i64 l = Some z -> no_lf l = true.
Proof.
  intros l z H. unfold btoi_i64 in H. destruct l as [|c r]; [discriminate|].
  destruct (N.eqb c 43) eqn:E1.
  - destruct (btou i64_max r) eqn:E; [|discriminate]. cbn [no_lf].
    rewrite (btou_no_lf _ _ _ E). unfold c_LF. destruct (N.eqb c 10) eqn:E0; [lia|]. reflexivity.
  - destruct (N.eqb c 45) eqn:E2.
    + destruct r as [|c2 r2]; [discriminate|].
      destruct (bton_acc i64_minmag 0 (c2 :: r2)) eqn:E; [|discriminate].
      rewrite bton_acc_eq_btou_acc in E.
      destruct (btou_acc_sound _ _ _ _ E) as [(Hd & _)|(Hnil & _)]; [|discriminate].
      cbn [no_lf]. change (no_lf (c2 :: r2)) with (no_lf (c2 :: r2)).
      pose proof (digits_no_lf _ Hd) as Hn. cbn [no_lf] in Hn. rewrite Hn.
      unfold c_LF. destruct (N.eqb c 10) eqn:E0; [lia|]. reflexivity.
    + destruct (btou i64_max (c :: r)) eqn:E; [|discriminate]. apply (btou_no_lf _ _ _ E).
Qed.

Lemma btoi_to_dec : forall n, n < 9223372036854775808 -> btoi_i64 (to_dec n) = Some (Z.of_N n).
Proof.
  intros n Hn. pose proof (btoi_i64_Z_to_dec (Z.of_N n) ltac:(lia)) as H.
  unfold Z_to_dec in H. destruct (Z.ltb (Z.of_N n) 0) eqn:E; [lia|].
  rewrite N2Z.id in H. exact H.
Qed.

(* ---------- parse_line ---------- *)

Lemma parse_line_complete : forall s rest, no_lf s = true ->
  parse_line (s ++ c_CR :: c_LF :: rest) = POk (O, length s) (length s + 2)%nat.
Proof.
  intros s rest Hs. unfold parse_line.
  replace (s ++ c_CR :: c_LF :: rest) with ((s ++ [c_CR]) ++ c_LF :: rest) by (rewrite <- app_assoc; reflexivity).
  rewrite find_lf_complete.
  2:{ rewrite no_lf_app, Hs. reflexivity. }
  rewrite app_length. cbn [length]. replace (length s + 1)%nat with (S (length s)) by lia.
  rewrite <- app_assoc. cbn [app]. rewrite nth_error_app_len. rewrite N.eqb_refl.
  f_equal. lia.
Qed.

Lemma parse_line_inv : forall b d c, parse_line b = POk d c ->
  exists s rest, b = s ++ c_CR :: c_LF :: rest /\ no_lf s = true /\ d = (O, length s) /\ c = (length s + 2)%nat.
Proof.
  intros b d c H. unfold parse_line in H.
  destruct (find_lf b) as [[|i]|] eqn:E; try discriminate.
  destruct (find_lf_inv _ _ E) as (s & r & -> & Hs & Hl).
  destruct (nth_error (s ++ c_LF :: r) i) as [x|] eqn:En; [|discriminate].
  destruct (N.eqb x c_CR) eqn:Ex; [|discriminate]. apply N.eqb_eq in Ex. subst x.
  inversion H; subst.
  rewrite nth_error_app1 in En by lia.
  destruct (last_split_cr s i Hl En) as (s' & -> & Hl').
  rewrite no_lf_app in Hs. apply andb_true_iff in Hs. destruct Hs as [Hs' _].
  exists s', r. rewrite <- app_assoc. cbn [app]. subst i. repeat split; auto. lia.
Qed.

Lemma parse_line_not_bad : forall b, parse_line b <> PUnexpected /\ parse_line b <> PFuel.
Proof.
  intros b. unfold parse_line. destruct (find_lf b) as [[|i]|]; try (split; discriminate).
  destruct (nth_error b i); [|split; discriminate]. destruct (N.eqb n c_CR); split; discriminate.
Qed.

(* every result but NotEnoughData is stable under extension of the buffer *)
Lemma parse_line_stable : forall b m r, parse_line b = r -> r <> PNeed -> parse_line (b ++ m) = r.
Proof.
  intros b m r H Hr. destruct r as [d c| | | |]; try congruence.
  - destruct (parse_line_inv _ _ _ H) as (s & rest & -> & Hs & -> & ->).
    rewrite <- app_assoc. cbn [app]. apply parse_line_complete. exact Hs.
  - unfold parse_line in *. destruct (find_lf b) as [[|i]|] eqn:E; try discriminate.
    + destruct (find_lf_inv _ _ E) as (s & r & -> & Hs & Hl). destruct s; [|discriminate].
      cbn [app find_lf]. rewrite N.eqb_refl. reflexivity.
    + destruct (find_lf_inv _ _ E) as (s & r & -> & Hs & Hl).
      rewrite <- app_assoc. cbn [app]. rewrite find_lf_complete by exact Hs. rewrite Hl.
      rewrite nth_error_app1 in H by lia. rewrite nth_error_app1 by lia. exact H.
  - exfalso. apply (proj1 (parse_line_not_bad b)). exact H.
  - exfalso. apply (proj2 (parse_line_not_bad b)). exact H.
Qed.

(* ---------- parse_len ---------- *)

Lemma parse_len_complete : forall num z rest, btoi_i64 num = Some z ->
  parse_len (num ++ c_CR :: c_LF :: rest) = POk z (length num + 2)%nat.
Proof.
  intros num z rest H. unfold parse_len. rewrite parse_line_complete by (eapply btoi_no_lf; eauto).
  cbn [pbind fst snd]. rewrite slice_prefix. rewrite H. reflexivity.
Qed.

Lemma parse_len_inv : forall b z c, parse_len b = POk z c ->
  exists num rest, b = num ++ c_CR :: c_LF :: rest /\ btoi_i64 num = Some z /\ c = (length num + 2)%nat.
Proof.
  intros b z c H. unfold parse_len in H. destruct (parse_line b) as [d c0| | | |] eqn:E; try discriminate.
  cbn [pbind] in H. destruct (parse_line_inv _ _ _ E) as (s & rest & -> & Hs & -> & ->).
  cbn [fst snd] in H. rewrite slice_prefix in H. destruct (btoi_i64 s) eqn:Eb; [|discriminate].
  inversion H; subst. exists s, rest. auto.
Qed.

Lemma parse_len_not_bad : forall b, parse_len b <> PUnexpected /\ parse_len b <> PFuel.
Proof.
  intros b. unfold parse_len. destruct (parse_line b) as [d c0| | | |] eqn:E; cbn [pbind]; try (split; discriminate).
  - destruct (parse_line_inv _ _ _ E) as (s & rest & -> & Hs & -> & ->). cbn [fst snd]. rewrite slice_prefix.
    destruct (btoi_i64 s); split; discriminate.
  - exfalso. apply (proj1 (parse_line_not_bad b)). exact E.
  - exfalso. apply (proj2 (parse_line_not_bad b)). exact E.
Qed.

Lemma parse_len_stable : forall b m r, parse_len b = r -> r <> PNeed -> parse_len (b ++ m) = r.
Proof.
  intros b m r H Hr. destruct r as [z c| | | |]; try congruence.
  - destruct (parse_len_inv _ _ _ H) as (num & rest & -> & Hb & ->).
    rewrite <- app_assoc. cbn [app]. apply parse_len_complete. exact Hb.
  - unfold parse_len in *. destruct (parse_line b) as [d c0| | | |] eqn:E; cbn [pbind] in H; try discriminate.
    + rewrite (parse_line_stable b m _ E) by discriminate. cbn [pbind].
      destruct (slice b (fst d) (snd d)) eqn:Es; [|discriminate].
      rewrite (slice_app_stable _ m _ _ _ Es). exact H.
    + rewrite (parse_line_stable b m _ E) by discriminate. reflexivity.
  - exfalso. apply (proj1 (parse_len_not_bad b)). exact H.
  - exfalso. apply (proj2 (parse_len_not_bad b)). exact H.
Qed.

(* ---------- parse_bulk_str ---------- *)

Lemma parse_bulk_complete_nil : forall num z rest, btoi_i64 num = Some z -> (z < 0)%Z ->
  parse_bulk_str (num ++ c_CR :: c_LF :: rest) = POk IBulkNil (length num + 2)%nat.
Proof.
  intros num z rest H Hz. unfold parse_bulk_str. rewrite (parse_len_complete _ _ _ H). cbn [pbind].
  destruct (Z.ltb z 0) eqn:E; [reflexivity|lia].
Qed.

Lemma parse_bulk_complete : forall num s rest, btoi_i64 num = Some (Z.of_nat (length s)) ->
  parse_bulk_str (num ++ c_CR :: c_LF :: s ++ c_CR :: c_LF :: rest)
  = POk (IBulk (length num + 2, length num + 2 + length s)%nat) (length num + 2 + length s + 2)%nat.
Proof.
  intros num s rest H. unfold parse_bulk_str. rewrite (parse_len_complete _ _ _ H). cbn [pbind].
  destruct (Z.ltb (Z.of_nat (length s)) 0) eqn:E; [lia|].
  rewrite !app_length. cbn [length]. rewrite !app_length. cbn [length].
  destruct (N.ltb _ _) eqn:E2; [lia|].
  replace (N.to_nat (Z.to_N (Z.of_nat (length s)))) with (length s) by lia.
  replace (num ++ c_CR :: c_LF :: s ++ c_CR :: c_LF :: rest)
    with ((num ++ [c_CR; c_LF] ++ s) ++ [c_CR; c_LF] ++ rest).
  2:{ rewrite <- !app_assoc. reflexivity. }
  replace (length num + 2 + length s)%nat with (length (num ++ [c_CR; c_LF] ++ s)).
  2:{ rewrite !app_length. cbn [length]. lia. }
  replace (length (num ++ [c_CR; c_LF] ++ s) + 2)%nat
    with (length (num ++ [c_CR; c_LF] ++ s) + length [c_CR; c_LF])%nat by reflexivity.
  rewrite slice_mid. unfold CRLF. replace (bytes_eqb [c_CR; c_LF] [c_CR; c_LF]) with true by reflexivity.
  reflexivity.
Qed.

Lemma parse_bulk_inv : forall b v c, parse_bulk_str b = POk v c ->
  (exists num z rest, b = num ++ c_CR :: c_LF :: rest /\ btoi_i64 num = Some z /\ (z < 0)%Z /\
                      v = IBulkNil /\ c = (length num + 2)%nat) \/
  (exists num s rest, b = num ++ c_CR :: c_LF :: s ++ c_CR :: c_LF :: rest /\
                      btoi_i64 num = Some (Z.of_nat (length s)) /\
                      v = IBulk (length num + 2, length num + 2 + length s)%nat /\
                      c = (length num + 2 + length s + 2)%nat).
Proof.
  intros b v c H. unfold parse_bulk_str in H.
  destruct (parse_len b) as [z c0| | | |] eqn:E; cbn [pbind] in H; try discriminate.
  destruct (parse_len_inv _ _ _ E) as (num & r1 & -> & Hb & ->).
  destruct (Z.ltb z 0) eqn:Ez.
  - inversion H; subst. left. exists num, z, r1. repeat split; auto. lia.
  - right. destruct (N.ltb _ _) eqn:E2; [discriminate|].
    rewrite app_length in E2. cbn [length] in E2.
    set (sz := N.to_nat (Z.to_N z)) in *.
    assert (Hsz : (sz + 2 <= length r1)%nat) by lia.
    destruct (split_at _ r1 sz ltac:(lia)) as (s & r2 & -> & Hs).
    rewrite app_length in Hsz.
    destruct r2 as [|x r2]; cbn [length] in Hsz; [lia|].
    destruct r2 as [|y r2]; cbn [length] in Hsz; [lia|].
    replace (num ++ c_CR :: c_LF :: s ++ x :: y :: r2)
      with ((num ++ [c_CR; c_LF] ++ s) ++ [x; y] ++ r2) in H by (rewrite <- !app_assoc; reflexivity).
    replace (length num + 2 + sz)%nat with (length (num ++ [c_CR; c_LF] ++ s)) in H
      by (rewrite !app_length; cbn [length]; lia).
    replace (length (num ++ [c_CR; c_LF] ++ s) + 2)%nat
      with (length (num ++ [c_CR; c_LF] ++ s) + length [x; y])%nat in H by reflexivity.
    rewrite slice_mid in H.
    destruct (bytes_eqb [x; y] CRLF) eqn:Ec; [|discriminate].
    apply bytes_eqb_iff in Ec. unfold CRLF in Ec. inversion Ec; subst x y.
    inversion H; subst. exists num, s, r2. repeat split.
    + rewrite Hb. f_equal. lia.
    + rewrite !app_length. cbn [length]. f_equal. f_equal. lia.
    + rewrite !app_length. cbn [length]. lia.
Qed.

Lemma parse_bulk_not_bad : forall b, parse_bulk_str b <> PUnexpected /\ parse_bulk_str b <> PFuel.
Proof.
  intros b. unfold parse_bulk_str. destruct (parse_len b) as [z c0| | | |] eqn:E; cbn [pbind]; try (split; discriminate).
  - destruct (Z.ltb z 0); [split; discriminate|]. destruct (N.ltb _ _); [split; discriminate|].
    destruct (slice _ _ _); [|split; discriminate]. destruct (bytes_eqb _ _); split; discriminate.
  - exfalso. apply (proj1 (parse_len_not_bad b)). exact E.
  - exfalso. apply (proj2 (parse_len_not_bad b)). exact E.
Qed.

Lemma parse_bulk_stable : forall b m r, parse_bulk_str b = r -> r <> PNeed -> parse_bulk_str (b ++ m) = r.
Proof.
  intros b m r H Hr. destruct r as [v c| | | |]; try congruence.
  - destruct (parse_bulk_inv _ _ _ H) as [(num & z & rest & -> & Hb & Hz & -> & ->)|(num & s & rest & -> & Hb & -> & ->)].
    + rewrite <- app_assoc. cbn [app]. eapply parse_bulk_complete_nil; eauto.
    + rewrite <- app_assoc. cbn [app]. rewrite <- app_assoc. cbn [app]. apply parse_bulk_complete. exact Hb.
  - unfold parse_bulk_str in *. destruct (parse_len b) as [z c0| | | |] eqn:E; cbn [pbind] in H; try discriminate.
    + rewrite (parse_len_stable b m _ E) by discriminate. cbn [pbind].
      destruct (Z.ltb z 0); [discriminate|].
      destruct (N.ltb (N.of_nat (length b)) _) eqn:E2; [discriminate|].
      rewrite app_length. destruct (N.ltb (N.of_nat (length b + length m)) _) eqn:E3; [lia|].
      destruct (slice b _ _) as [t|] eqn:Es.
      * rewrite (slice_app_stable _ m _ _ _ Es). exact H.
      * exfalso. unfold slice in Es.
        destruct (_ && _) eqn:E4; [discriminate|]. lia.
    + rewrite (parse_len_stable b m _ E) by discriminate. reflexivity.
  - exfalso. apply (proj1 (parse_bulk_not_bad b)). exact H.
  - exfalso. apply (proj2 (parse_bulk_not_bad b)). exact H.
Qed.
