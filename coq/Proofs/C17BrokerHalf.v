(* The broker half of C17: the descriptor a proxy reports for a finished migration - i.e. (cluster name, range list, tag, epoch) of a
   Migrating or Importing slot entry it was served under any migration limit - is accepted by commit_migration as naming exactly
   that migration; duplicates and stale descriptors change nothing.  The statements are packaged as named propositions because
   Props/C17.v imports the Wire model, whose names (compact, range, ...) clash with the Broker model's. *)
From UM Require Import Base.BytesDef Model.Ranges Model.Broker Proofs.BrokerPartRanges Proofs.BrokerPartDefs Proofs.BrokerPartMain
  Proofs.BrokerTotal Proofs.BrokerCommitAccepts.

Definition commit_accepts_visible_stmt : Prop :=
  forall s lim name v n rl t m tag,
  reachable_any s -> view_cluster lim s name = Some (Some v) -> In n (vc_nodes v) -> In (rl, t) (vn_slots n) ->
  t = VMigrating m \/ t = VImporting m -> tag <> TagNone ->
  exists cl e, alookup name (st_clusters s) = Some cl /\ In e (out_entries (cl_chunks cl))
    /\ ms_ranges e = rl /\ mm_epoch (ms_meta e) = vm_epoch m
    /\ snd (commit_migration s name rl tag (vm_epoch m)) = Done tt
    /\ commit_effect s name cl e (fst (commit_migration s name rl tag (vm_epoch m))).

Lemma commit_accepts_visible_holds : commit_accepts_visible_stmt.
Proof.
  intros s lim name v n rl t m tag Hr. apply commit_accepts_visible.
  apply reachable_keeps_partition, reachable_any_reachable. exact Hr.
Qed.

Definition commit_twice_rejected_stmt : Prop :=
  forall s name cl e tag tag2,
  reachable_any s -> alookup name (st_clusters s) = Some cl -> In e (out_entries (cl_chunks cl)) ->
  tag <> TagNone -> tag2 <> TagNone ->
  let s' := fst (commit_migration s name (ms_ranges e) tag (mm_epoch (ms_meta e))) in
  commit_migration s' name (ms_ranges e) tag2 (mm_epoch (ms_meta e)) = (s', Fail E_MigrationTaskNotFound).

Lemma commit_twice_rejected_holds : commit_twice_rejected_stmt.
Proof.
  intros s name cl e tag tag2 Hr. apply commit_twice_rejected.
  apply reachable_keeps_partition, reachable_any_reachable. exact Hr.
Qed.

Definition commit_stale_rejected_stmt : Prop :=
  forall s name rl tag ep,
  match alookup name (st_clusters s) with
  | None => commit_migration s name rl tag ep = (s, Fail E_ClusterNotFound)
  | Some cl =>
      (tag = TagNone -> commit_migration s name rl tag ep = (s, Fail E_InvalidMigrationTask))
      /\ (tag <> TagNone ->
          (forall e, In e (out_entries (cl_chunks cl)) -> ~ (ms_ranges e = rl /\ mm_epoch (ms_meta e) = ep)) ->
          commit_migration s name rl tag ep = (s, Fail E_MigrationTaskNotFound))
  end.

Lemma commit_stale_rejected_holds : commit_stale_rejected_stmt.
Proof. exact commit_stale_rejected. Qed.
