(* C15, part C: the decode call, the framed read loop (split invariance, forwarded bytes), round trip, strictness. *)
From UM Require Import Base.BytesDef Base.Dec Base.RespT Model.Resp Proofs.RespProofsA Proofs.RespProofsB.
From Coq Require Import ZifyBool ZifyNat ZifyN.

(* ---------- one decode call ---------- *)

Lemma decode_indexed_complete : forall v ix e rest, gramx MAX_ARRAY_NESTING v ix e ->
  decode_indexed (e ++ rest) = DSome {| pk_resp := ix; pk_data := e |} rest.
Proof.
  intros v ix e rest Hg. unfold decode_indexed. rewrite (parse_resp_complete _ _ _ _ rest Hg).
  destruct (length (e ++ rest) <? length e)%nat eqn:El; [rewrite app_length in El; lia|].
  rewrite firstn_app_len, skipn_app_len0. reflexivity.
Qed.

Lemma decode_indexed_some_inv : forall b p rest, decode_indexed b = DSome p rest ->
  b = pk_data p ++ rest /\ exists v, gramx MAX_ARRAY_NESTING v (pk_resp p) (pk_data p).
Proof.
  intros b p rest H. unfold decode_indexed in H.
  destruct (parse_resp MAX_ARRAY_NESTING b) as [ix n| | | |] eqn:E; try discriminate.
  destruct (parse_resp_sound _ _ _ _ E) as (v & e & r & -> & -> & Hg).
  destruct (length (e ++ r) <? length e)%nat; [discriminate|].
  rewrite firstn_app_len, skipn_app_len0 in H. inversion H; subst. cbn [pk_data pk_resp].
  split; [reflexivity|]. exists v. exact Hg.
Qed.

Lemma decode_indexed_no_panic : forall b, decode_indexed b <> DPanic /\ decode_indexed b <> DFuel.
Proof.
  intros b. unfold decode_indexed.
  destruct (parse_resp MAX_ARRAY_NESTING b) as [ix n| | | |] eqn:E; try (split; discriminate).
  - pose proof (parse_resp_bounds _ _ _ _ E). destruct (length b <? n)%nat eqn:El; [lia|]. split; discriminate.
  - exfalso. apply (proj2 (parse_resp_clean MAX_ARRAY_NESTING b)). exact E.
Qed.

Lemma decode_indexed_some_stable : forall b m p rest, decode_indexed b = DSome p rest ->
  decode_indexed (b ++ m) = DSome p (rest ++ m).
Proof.
  intros b m p rest H. destruct (decode_indexed_some_inv _ _ _ H) as (-> & v & Hg).
  rewrite <- app_assoc. destruct p as [ix e]. cbn [pk_data pk_resp] in *.
  apply (decode_indexed_complete v). exact Hg.
Qed.

Lemma decode_indexed_err_stable : forall b m, decode_indexed b = DErr -> decode_indexed (b ++ m) = DErr.
Proof.
  intros b m H. unfold decode_indexed in *.
  destruct (parse_resp MAX_ARRAY_NESTING b) as [ix n| | | |] eqn:E; try discriminate.
  - destruct (length b <? n)%nat; discriminate.
  - rewrite (parse_resp_inv_stable _ _ m E). reflexivity.
  - exfalso. apply (proj1 (parse_resp_clean MAX_ARRAY_NESTING b)). exact E.
Qed.

Lemma packet_value : forall v ix e, gramx MAX_ARRAY_NESTING v ix e ->
  to_resp_vec {| pk_resp := ix; pk_data := e |} = Some v.
Proof.
  intros v ix e Hg. unfold to_resp_vec. cbn [pk_data pk_resp].
  pose proof (proj1 resolve_complete _ _ _ _ Hg []) as H. rewrite app_nil_r in H. exact H.
Qed.

(* value-level decode: accepted iff the buffer starts with grammatical text, which is exactly what is consumed *)
Lemma decode_ok_inv : forall b v n, decode b = VOk v n ->
  exists e rest ix, b = e ++ rest /\ n = length e /\ gramx MAX_ARRAY_NESTING v ix e.
Proof.
  intros b v n H. unfold decode in H. destruct (decode_indexed b) as [p rest| | | |] eqn:E; try discriminate.
  destruct (decode_indexed_some_inv _ _ _ E) as (-> & v' & Hg). destruct p as [ix e]. cbn [pk_data pk_resp] in *.
  rewrite (packet_value _ _ _ Hg) in H. inversion H; subst. exists e, rest, ix. auto.
Qed.

Lemma decode_complete : forall v ix e rest, gramx MAX_ARRAY_NESTING v ix e -> decode (e ++ rest) = VOk v (length e).
Proof.
  intros v ix e rest Hg. unfold decode. rewrite (decode_indexed_complete _ _ _ rest Hg).
  rewrite (packet_value _ _ _ Hg). reflexivity.
Qed.

Lemma decode_no_panic : forall b, decode b <> VPanic /\ decode b <> VFuel.
Proof.
  intros b. unfold decode. destruct (decode_indexed b) as [p rest| | | |] eqn:E; try (split; discriminate).
  - destruct (decode_indexed_some_inv _ _ _ E) as (_ & v & Hg). destruct p as [ix e]. cbn [pk_data pk_resp] in *.
    rewrite (packet_value _ _ _ Hg). split; discriminate.
  - exfalso. apply (proj1 (decode_indexed_no_panic b)). exact E.
  - exfalso. apply (proj2 (decode_indexed_no_panic b)). exact E.
Qed.

(* (1) round trip *)
Lemma roundtrip : forall v rest, wf v = true -> (rdepth v <= MAX_ARRAY_NESTING)%nat ->
  decode (encode v ++ rest) = VOk v (length (encode v)).
Proof.
  intros v rest Hwf Hd. destruct (encode_gramx v _ Hwf Hd) as (ix & Hg). apply (decode_complete _ _ _ _ Hg).
Qed.

Lemma roundtrip_indexed : forall v rest, wf v = true -> (rdepth v <= MAX_ARRAY_NESTING)%nat ->
  exists ix, decode_indexed (encode v ++ rest) = DSome {| pk_resp := ix; pk_data := encode v |} rest.
Proof.
  intros v rest Hwf Hd. destruct (encode_gramx v _ Hwf Hd) as (ix & Hg). exists ix.
  apply (decode_indexed_complete _ _ _ _ Hg).
Qed.

(* prefix monotonicity of the value-level decode *)
Lemma decode_ok_stable : forall b m v n, decode b = VOk v n -> decode (b ++ m) = VOk v n.
Proof.
  intros b m v n H. destruct (decode_ok_inv _ _ _ H) as (e & rest & ix & -> & -> & Hg).
  rewrite <- app_assoc. apply (decode_complete _ _ _ _ Hg).
Qed.

Lemma decode_invalid_stable : forall b m, decode b = VInvalid -> decode (b ++ m) = VInvalid.
Proof.
  intros b m H. unfold decode in *. destruct (decode_indexed b) as [p rest| | | |] eqn:E; try discriminate.
  - destruct (to_resp_vec p); discriminate.
  - rewrite (decode_indexed_err_stable _ m E). reflexivity.
Qed.

(* (5) strictness: whatever is accepted is, on exactly the consumed bytes, RESP text for the returned value *)
Lemma decode_strict : forall b v n, decode b = VOk v n -> (n <= length b)%nat /\ gram v (firstn n b).
Proof.
  intros b v n H. destruct (decode_ok_inv _ _ _ H) as (e & rest & ix & -> & -> & Hg).
  rewrite firstn_app_len, app_length. split; [lia|]. apply (proj1 gramx_gram _ _ _ _ Hg).
Qed.

(* ---------- the framed read loop ---------- *)

Lemma gramx_len : forall p v, gramx MAX_ARRAY_NESTING v (pk_resp p) (pk_data p) -> (1 <= length (pk_data p))%nat.
Proof. intros p v H. apply (gramx_nonempty _ _ _ _ H). Qed.

Lemma drain_fuel_any : forall f1 f2 b, (length b < f1)%nat -> (length b < f2)%nat -> drain f1 b = drain f2 b.
Proof.
  induction f1 as [|f1 IH]; intros f2 b H1 H2; [lia|]. destruct f2 as [|f2]; [lia|]. cbn [drain].
  destruct (decode_indexed b) as [p rest| | | |] eqn:E; try reflexivity.
  destruct (decode_indexed_some_inv _ _ _ E) as (-> & v & Hg). pose proof (gramx_len _ _ Hg).
  rewrite app_length in *. rewrite (IH f2 rest) by lia. reflexivity.
Qed.

Definition drain' (b : bytes) := drain (S (length b)) b.

Lemma drain'_unfold : forall b, drain' b =
  match decode_indexed b with
  | DSome p rest => let '(ps, lft, st) := drain' rest in (p :: ps, lft, st)
  | DNone => ([], b, StOk)
  | DErr => ([], [], StErr)
  | DPanic => ([], [], StPanic)
  | DFuel => ([], [], StFuel)
  end.
Proof.
  intros b. unfold drain' at 1. cbn [drain].
  destruct (decode_indexed b) as [p rest| | | |] eqn:E; try reflexivity.
  destruct (decode_indexed_some_inv _ _ _ E) as (-> & v & Hg). pose proof (gramx_len _ _ Hg).
  unfold drain'. rewrite app_length. rewrite (drain_fuel_any (length (pk_data p) + length rest) (S (length rest)) rest) by lia.
  reflexivity.
Qed.

(* draining a buffer extended by more bytes = draining it, then draining leftover ++ more bytes *)
Lemma drain'_app : forall n b m, (length b <= n)%nat ->
  drain' (b ++ m) =
  match drain' b with
  | (ps, lft, StOk) => let '(ps2, lft2, st2) := drain' (lft ++ m) in (ps ++ ps2, lft2, st2)
  | (ps, _, st) => (ps, [], st)
  end.
Proof.
  induction n as [|n IH]; intros b m Hn.
  - destruct b; [|cbn [length] in Hn; lia]. cbn [app]. rewrite (drain'_unfold []).
    replace (decode_indexed []) with DNone by reflexivity. cbn [app].
    destruct (drain' m) as [[ps2 l2] st2]. reflexivity.
  - rewrite (drain'_unfold (b ++ m)), (drain'_unfold b).
    destruct (decode_indexed b) as [p rest| | | |] eqn:E.
    + rewrite (decode_indexed_some_stable _ m _ _ E).
      destruct (decode_indexed_some_inv _ _ _ E) as (Hb & v & Hg). pose proof (gramx_len _ _ Hg).
      assert (Hr : (length rest <= n)%nat) by (subst b; rewrite app_length in Hn; lia).
      rewrite (IH rest m Hr). destruct (drain' rest) as [[ps l] st]. destruct st; try reflexivity.
      destruct (drain' (l ++ m)) as [[ps2 l2] st2]. reflexivity.
    + cbn [app]. rewrite <- (drain'_unfold (b ++ m)).
      destruct (drain' (b ++ m)) as [[ps2 l2] st2]. reflexivity.
    + rewrite (decode_indexed_err_stable _ m E). reflexivity.
    + exfalso. apply (proj1 (decode_indexed_no_panic b)). exact E.
    + exfalso. apply (proj2 (decode_indexed_no_panic b)). exact E.
Qed.

Definition drained (b : bytes) : Prop := decode_indexed b = DNone.

Definition pkt_ok (p : packet) : Prop := exists v, gramx MAX_ARRAY_NESTING v (pk_resp p) (pk_data p).

(* everything one needs to know about a drain: statuses, leftover, and the bytes of the packets *)
Lemma drain'_spec : forall n b ps l st, (length b <= n)%nat -> drain' b = (ps, l, st) ->
  (st = StOk \/ st = StErr) /\ (st = StErr -> l = []) /\ (st = StOk -> drained l) /\
  Forall pkt_ok ps /\
  exists rest, b = concat (map pk_data ps) ++ rest /\ (st = StOk -> rest = l).
Proof.
  induction n as [|n IH]; intros b ps l st Hn H; rewrite drain'_unfold in H.
  - destruct b; [|cbn [length] in Hn; lia]. replace (decode_indexed []) with DNone in H by reflexivity.
    inversion H; subst. repeat split; auto; try discriminate. exists []. split; auto.
  - destruct (decode_indexed b) as [p rest| | | |] eqn:E.
    + destruct (decode_indexed_some_inv _ _ _ E) as (Hb & v & Hg). pose proof (gramx_len _ _ Hg).
      assert (Hr : (length rest <= n)%nat) by (subst b; rewrite app_length in Hn; lia).
      destruct (drain' rest) as [[ps1 l1] st1] eqn:Ed. inversion H; subst ps l st.
      destruct (IH rest ps1 l1 st1 Hr Ed) as (H1 & H2 & H3 & H4 & rest2 & H5 & H6).
      repeat split; auto.
      * constructor; [exists v; exact Hg|exact H4].
      * exists rest2. cbn [map concat]. rewrite <- app_assoc, <- H5. split; auto.
    + inversion H; subst ps l st. repeat split; auto; try discriminate. exists b. split; auto.
    + inversion H; subst ps l st. repeat split; auto; try discriminate. exists b. split; [reflexivity|discriminate].
    + exfalso. apply (proj1 (decode_indexed_no_panic b)). exact E.
    + exfalso. apply (proj2 (decode_indexed_no_panic b)). exact E.
Qed.

Lemma feed_all_unfold : forall buf c cs, feed_all buf (c :: cs) =
  match drain' (buf ++ c) with
  | (ps, lft, StOk) => let '(ps', left', st') := feed_all lft cs in (ps ++ ps', left', st')
  | r => r
  end.
Proof. reflexivity. Qed.

(* (2) split invariance *)
Lemma feed_all_concat : forall chunks buf, drained buf -> feed_all buf chunks = feed_all buf [concat chunks].
Proof.
  induction chunks as [|c cs IH]; intros buf Hd.
  - cbn [concat]. rewrite feed_all_unfold. rewrite app_nil_r. rewrite drain'_unfold. unfold drained in Hd.
    rewrite Hd. reflexivity.
  - rewrite !feed_all_unfold. cbn [concat]. rewrite app_assoc.
    rewrite (drain'_app (length (buf ++ c)) (buf ++ c) (concat cs) (le_n _)).
    destruct (drain' (buf ++ c)) as [[ps l] st] eqn:Ed.
    destruct (drain'_spec _ _ _ _ _ (le_n _) Ed) as ([-> | ->] & H2 & H3 & _).
    + rewrite (IH l (H3 eq_refl)). rewrite feed_all_unfold.
      destruct (drain' (l ++ concat cs)) as [[ps2 l2] st2]. destruct st2; cbn [feed_all]; rewrite ?app_nil_r; reflexivity.
    + rewrite (H2 eq_refl). reflexivity.
Qed.

Lemma split_invariant : forall chunks, feed_all [] chunks = feed_all [] [concat chunks].
Proof. intros chunks. apply feed_all_concat. reflexivity. Qed.

(* NotEnoughData consumes nothing: the buffer is left as it is and no packet comes out *)
Lemma need_consumes_nothing : forall b, decode b = VNeed -> feed_all [] [b] = ([], b, StOk).
Proof.
  intros b H. rewrite feed_all_unfold. cbn [app]. rewrite drain'_unfold. unfold decode in H.
  destruct (decode_indexed b) as [p rest| | | |] eqn:E; try discriminate; [destruct (to_resp_vec p); discriminate|].
  reflexivity.
Qed.

(* (3) the packets keep exactly the bytes of the stream, in order; forwarding them (encode_packet of an Indexed packet
   emits the kept bytes) reproduces the stream up to the leftover; each packet's value is the value of its own bytes *)
Lemma feed_all_spec : forall chunks buf ps l st, feed_all buf chunks = (ps, l, st) ->
  (st = StOk \/ st = StErr) /\ Forall pkt_ok ps /\
  exists rest, buf ++ concat chunks = concat (map pk_data ps) ++ rest /\ (st = StOk -> rest = l).
Proof.
  induction chunks as [|c cs IH]; intros buf ps l st H.
  - cbn [feed_all] in H. inversion H; subst. repeat split; auto. exists l. cbn [concat map app]. rewrite app_nil_r. auto.
  - rewrite feed_all_unfold in H. destruct (drain' (buf ++ c)) as [[ps1 l1] st1] eqn:Ed.
    destruct (drain'_spec _ _ _ _ _ (le_n _) Ed) as (H1 & H2 & H3 & H4 & rest1 & H5 & H6).
    cbn [concat]. rewrite app_assoc. destruct st1.
    + destruct (feed_all l1 cs) as [[ps2 l2] st2] eqn:Ef. inversion H; subst ps l st.
      destruct (IH _ _ _ _ Ef) as (G1 & G2 & rest2 & G3 & G4).
      repeat split; auto.
      * apply Forall_app. split; assumption.
      * exists rest2. rewrite H5, (H6 eq_refl). rewrite map_app, concat_app, <- !app_assoc. rewrite G3. split; auto.
    + inversion H; subst ps l st. repeat split; auto. exists (rest1 ++ concat cs). rewrite H5, <- app_assoc. split; [reflexivity|discriminate].
    + destruct H1; discriminate.
    + destruct H1; discriminate.
Qed.

Lemma forward_unmodified : forall chunks ps l, feed_all [] chunks = (ps, l, StOk) ->
  concat (map (fun p => encode_packet (RPIndexed p)) ps) ++ l = concat chunks /\
  Forall (fun p => exists v, to_resp_vec p = Some v /\ gram v (pk_data p)) ps.
Proof.
  intros chunks ps l H. destruct (feed_all_spec _ _ _ _ _ H) as (_ & HF & rest & Hc & Hr).
  cbn [app] in Hc. rewrite (Hr eq_refl) in Hc. split.
  - cbn [encode_packet]. symmetry. exact Hc.
  - eapply Forall_impl; [|exact HF]. intros [ix e] (v & Hg). cbn [pk_resp pk_data] in *. exists v. split.
    + apply packet_value. exact Hg.
    + apply (proj1 gramx_gram _ _ _ _ Hg).
Qed.

(* the stream never panics and never runs out of model fuel; a stream that ends in a protocol error still yields
   packets that are a prefix of the stream *)
Lemma feed_all_total : forall chunks ps l st, feed_all [] chunks = (ps, l, st) ->
  (st = StOk \/ st = StErr) /\ exists rest, concat chunks = concat (map pk_data ps) ++ rest.
Proof.
  intros chunks ps l st H. destruct (feed_all_spec _ _ _ _ _ H) as (H1 & _ & rest & Hc & _).
  split; [exact H1|]. exists rest. exact Hc.
Qed.
