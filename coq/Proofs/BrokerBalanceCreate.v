(* Balance half of C10: add_cluster.  A freshly created cluster with k chunks gives master j (= 2 * chunk index + part)
   exactly share (2k) j = SLOT_NUM / 2k (+1 for the first SLOT_NUM mod 2k masters) stable slots and no migration
   entries, so it is balanced at k = number of chunks. *)
From UM Require Import Base.BytesDef Model.Ranges Model.Broker Proofs.BrokerBase Proofs.BrokerPartRanges Proofs.BrokerPartDefs
  Proofs.BrokerPartMigrateBase Proofs.BrokerPartOpsFrame Proofs.BrokerPartOpsNodes Proofs.BrokerPartOpsCreate Proofs.BrokerBalanceDefs.
From Coq Require Import ZifyBool ZifyNat ZifyN.

(* ---------- store level helpers ---------- *)
Lemma cb_store_clusters s s' : st_clusters s' = st_clusters s -> store_balance_inv s -> store_balance_inv s'.
Proof. unfold store_balance_inv. intros E H name cl Hin. rewrite E in Hin. eauto. Qed.

Lemma cb_store_insert s s' name cl :
  store_balance_inv s -> balance_inv (cl_chunks cl) -> st_clusters s' = ainsert name cl (st_clusters s) ->
  store_balance_inv s'.
Proof.
  unfold store_balance_inv. intros H Hcl E n c Hin. rewrite E in Hin.
  apply ainsert_In in Hin. destruct Hin as [[-> ->]|Hin]; eauto.
Qed.

(* ---------- sizes of the created chunks ---------- *)
Lemma slots_total_single a b : a <= b -> slots_total [norm_range (a, b)] = b - a + 1.
Proof.
  intros Hab. rewrite norm_range_wf by exact Hab. rewrite slots_total_cons. cbn [fst snd].
  unfold slots_total. cbn [fold_right]. lia.
Qed.

Lemma chunks_of_pairs_sizes s av rm : 1 <= av -> forall pairs i curr n c,
  nth_error (chunks_of_pairs s pairs true av rm i curr) n = Some c ->
  ck_mig0 c = [] /\ ck_mig1 c = [] /\
  stable_num c false = av + sh rm (2 * (i + N.of_nat n)) /\
  stable_num c true = av + sh rm (2 * (i + N.of_nat n) + 1).
Proof.
  intros Hav. induction pairs as [|[a b] rest IH]; intros i curr n c Hn.
  - cbn [chunks_of_pairs] in Hn. destruct n; discriminate Hn.
  - cbn [chunks_of_pairs] in Hn.
    set (e1 := curr + av + (if N.ltb (2 * i) rm then 1 else 0)) in Hn.
    set (e2 := e1 + av + (if N.ltb (2 * i + 1) rm then 1 else 0)) in Hn.
    destruct n as [|n]; cbn [nth_error] in Hn.
    + inversion Hn as [Hc]. clear Hn Hc.
      assert (H1 : curr <= e1 - 1) by (subst e1; destruct (N.ltb (2 * i) rm); lia).
      assert (H2 : e1 <= e2 - 1) by (subst e2; destruct (N.ltb (2 * i + 1) rm); lia).
      unfold stable_num, ck_stable. cbn [ck_mig0 ck_mig1 ck_stable0 ck_stable1 opt_ranges].
      unfold rl_from_single. rewrite (slots_total_single _ _ H1), (slots_total_single _ _ H2).
      replace (2 * (i + N.of_nat 0)) with (2 * i) by lia. unfold sh.
      split; [reflexivity|]. split; [reflexivity|]. split.
      * subst e1. destruct (N.ltb (2 * i) rm); lia.
      * subst e2. destruct (N.ltb (2 * i + 1) rm); lia.
    + specialize (IH (i + 1) e2 n c Hn).
      replace (i + N.of_nat (S n)) with (i + 1 + N.of_nat n) by lia. exact IH.
Qed.

Lemma incoming_num_nil c p : ck_mig c p = [] -> incoming_num c p = 0.
Proof. unfold incoming_num. intros ->. reflexivity. Qed.

(* the model's remainder is SLOT_NUM mod master_num *)
Lemma remainder_is_mod M : M <> 0 -> SLOT_NUM - SLOT_NUM / M * M = SLOT_NUM mod M.
Proof. intros HM. pose proof (N.div_mod SLOT_NUM M HM) as Hdm. rewrite (N.mul_comm (SLOT_NUM / M) M). lia. Qed.

Theorem chunk_store_balanced s pairs :
  1 <= N.of_nat (length pairs) -> 2 * N.of_nat (length pairs) <= SLOT_NUM ->
  balanced_at (length pairs) (proxy_resource_to_chunk_store s pairs true).
Proof.
  intros Hk1 Hk2. unfold proxy_resource_to_chunk_store.
  set (M := 2 * N.of_nat (length pairs)).
  assert (HM : M <> 0) by (subst M; lia).
  rewrite (remainder_is_mod M HM).
  set (av := SLOT_NUM / M). set (rm := SLOT_NUM mod M).
  assert (Hav : 1 <= av).
  { subst av. apply N.div_le_lower_bound; [exact HM|]. subst M. lia. }
  unfold balanced_at. rewrite chunks_of_pairs_length.
  split; [lia|]. split; [lia|]. split.
  - intros i c p Hn Hi.
    destruct (chunks_of_pairs_sizes s av rm Hav pairs 0 0 i c Hn) as (Hm0 & Hm1 & Hs0 & Hs1).
    unfold projected, share, mindex. fold M. fold av. fold rm. unfold sh in Hs0, Hs1.
    replace (2 * (0 + N.of_nat i)) with (2 * N.of_nat i) in Hs0, Hs1 by lia.
    destruct p; cbn [b2n].
    + rewrite (incoming_num_nil c true Hm1), Hs1. lia.
    + rewrite (incoming_num_nil c false Hm0), Hs0.
      replace (2 * N.of_nat i + 0) with (2 * N.of_nat i) by lia. lia.
  - intros i c p Hn Hi. exfalso.
    assert (Hlt : (i < length (chunks_of_pairs s pairs true av rm 0 0))%nat).
    { apply nth_error_Some. rewrite Hn. discriminate. }
    rewrite chunks_of_pairs_length in Hlt. lia.
Qed.

Example chunk_store_balanced_ex :
  balanced_at 2 (proxy_resource_to_chunk_store (init_store false) [(1, 2); (3, 4)] true).
Proof. apply (chunk_store_balanced (init_store false) [(1, 2); (3, 4)]); cbn [length]; unfold SLOT_NUM; lia. Qed.

Theorem add_cluster_balance s name node_num cfg choices :
  store_balance_inv s -> store_balance_inv (fst (add_cluster s name node_num cfg choices)).
Proof.
  intros H. unfold add_cluster.
  destruct (st_ordered s && _); cbn [fst]; [exact H|].
  destruct (amem name (st_clusters s)); cbn [fst]; [exact H|].
  destruct (negb (N.eqb (node_num mod 4) 0)) eqn:E4; cbn [fst]; [exact H|].
  destruct (N.eqb (node_num / 2) 0) eqn:E0; cbn [fst]; [exact H|].
  destruct (N.ltb SLOT_NUM (node_num / 2)) eqn:Esz; cbn [fst]; [exact H|].
  destruct (gen_chunks s (node_num / 2) 0 choices) as [pairs| |] eqn:Eg; cbn [fst]; try exact H.
  eapply cb_store_insert; [eapply cb_store_clusters; [|exact H]; reflexivity| |reflexivity].
  cbn [cl_chunks]. exists (length pairs).
  apply gen_chunks_length in Eg; [|lia].
  apply chunk_store_balanced; lia.
Qed.

Print Assumptions chunk_store_balanced.
Print Assumptions add_cluster_balance.
