(* C01, view side: ClusterStore::limit_migration maps clusters satisfying the partition invariant to clusters
   satisfying it (a deferred migration is folded back into the stable slots of its source, its importing twin dropped),
   never hits an `expect`, and keeps the number of chunks. *)
From UM Require Import Base.BytesDef Model.Ranges Model.Broker Proofs.BrokerBase Proofs.BrokerPartRanges Proofs.BrokerPartDefs
  Proofs.BrokerPartViewBase.
From Coq Require Import ZifyBool ZifyNat ZifyN Permutation.

(* ---------- update_nth, pointwise ---------- *)
Lemma nth_error_update_nth {A} i j (f : A -> A) l :
  nth_error (update_nth i f l) j =
  match nth_error l j with Some c => Some (if Nat.eqb i j then f c else c) | None => None end.
Proof.
  destruct (Nat.eqb i j) eqn:E.
  - apply Nat.eqb_eq in E. subst j. destruct (nth_error l i) eqn:En.
    + apply nth_error_update_nth_same. exact En.
    + apply nth_error_None. rewrite length_update_nth. apply nth_error_None. exact En.
  - apply Nat.eqb_neq in E. rewrite nth_error_update_nth_other by exact E. destruct (nth_error l j); reflexivity.
Qed.

Lemma flat_map_update_nth_same {A B} (f : A -> list B) i g l :
  (forall c, f (g c) = f c) -> flat_map f (update_nth i g l) = flat_map f l.
Proof.
  intros H. revert i. induction l as [|x l IH]; intros [|i]; cbn [update_nth flat_map]; try reflexivity.
  - rewrite H. reflexivity.
  - rewrite IH. reflexivity.
Qed.

Lemma cnt_flat_map_in_le {A} s (f : A -> rangelist) l c : In c l -> (cnt s (f c) <= cnt s (flat_map f l))%nat.
Proof.
  induction l as [|x l IH]; cbn [In flat_map]; [tauto|]. rewrite cnt_app. intros [->|H]; [lia|]. specialize (IH H). lia.
Qed.

(* ---------- chunk-level effect of set_stable ---------- *)
Lemma ck_mig_set_stable c p v q : ck_mig (set_stable c p v) q = ck_mig c q.
Proof. destruct p, q; reflexivity. Qed.

Lemma chunk_in_set_stable c p v : chunk_in (set_stable c p v) = chunk_in c.
Proof. destruct p; reflexivity. Qed.

Lemma chunk_out_set_stable c p v : chunk_out (set_stable c p v) = chunk_out c.
Proof. destruct p; reflexivity. Qed.

Lemma chunk_owned_set_stable s c p r :
  (cnt s (chunk_owned (set_stable c p (Some r))) + cnt s (opt_ranges (ck_stable c p)) = cnt s (chunk_owned c) + cnt s r)%nat.
Proof.
  destruct p; unfold chunk_owned, set_stable;
    cbn [ck_stable ck_stable0 ck_stable1 ck_mig0 ck_mig1 opt_ranges]; rewrite !cnt_app; lia.
Qed.

Lemma chunk_all_set_stable c p r :
  Forall wf_range (chunk_all_ranges c) -> Forall wf_range r -> Forall wf_range (chunk_all_ranges (set_stable c p (Some r))).
Proof.
  destruct p; unfold chunk_all_ranges, set_stable;
    cbn [ck_stable ck_stable0 ck_stable1 ck_mig0 ck_mig1 opt_ranges]; rewrite !Forall_app; tauto.
Qed.

Lemma chunk_all_stable_wf c p : Forall wf_range (chunk_all_ranges c) -> Forall wf_range (opt_ranges (ck_stable c p)).
Proof. destruct p; unfold chunk_all_ranges; cbn [ck_stable]; rewrite !Forall_app; tauto. Qed.

Lemma chunk_owned_stable_le s c p : (cnt s (opt_ranges (ck_stable c p)) <= cnt s (chunk_owned c))%nat.
Proof. destruct p; unfold chunk_owned; cbn [ck_stable]; rewrite !cnt_app; lia. Qed.

(* ---------- chunk-level effect of pushing a migration entry ---------- *)
Definition push_mig (p : bool) (x : mig_store) (c : chunk) : chunk := set_mig c p (ck_mig c p ++ [x]).

Lemma ck_mig_push p x c q : ck_mig (push_mig p x c) q = ck_mig c q ++ (if Bool.eqb p q then [x] else []).
Proof. destruct p, q; unfold push_mig, set_mig; cbn [ck_mig ck_mig0 ck_mig1 Bool.eqb]; rewrite ?app_nil_r; reflexivity. Qed.

Lemma chunk_owned_push s p x c :
  cnt s (chunk_owned (push_mig p x c)) = (cnt s (chunk_owned c) + cnt s (out_ranges [x]))%nat.
Proof.
  destruct p; unfold chunk_owned, push_mig, set_mig;
    cbn [ck_stable0 ck_stable1 ck_mig ck_mig0 ck_mig1]; rewrite ?out_ranges_app, !cnt_app; lia.
Qed.

Lemma chunk_out_push s p x c :
  cnt s (chunk_out (push_mig p x c)) = (cnt s (chunk_out c) + cnt s (out_ranges [x]))%nat.
Proof.
  destruct p; unfold chunk_out, push_mig, set_mig;
    cbn [ck_mig ck_mig0 ck_mig1]; rewrite ?out_ranges_app, !cnt_app; lia.
Qed.

Lemma chunk_in_push s p x c :
  cnt s (chunk_in (push_mig p x c)) = (cnt s (chunk_in c) + cnt s (in_ranges [x]))%nat.
Proof.
  destruct p; unfold chunk_in, push_mig, set_mig;
    cbn [ck_mig ck_mig0 ck_mig1]; rewrite ?in_ranges_app, !cnt_app; lia.
Qed.

Lemma chunk_all_push p x c :
  Forall wf_range (chunk_all_ranges c) -> Forall wf_range (ms_ranges x) -> Forall wf_range (chunk_all_ranges (push_mig p x c)).
Proof.
  destruct p; unfold chunk_all_ranges, push_mig, set_mig;
    cbn [ck_stable0 ck_stable1 ck_mig ck_mig0 ck_mig1]; rewrite ?flat_map_app; cbn [flat_map];
    rewrite ?app_nil_r, !Forall_app; tauto.
Qed.

(* ---------- list-level effect of pushing ---------- *)
Definition push_at (C : list chunk) (i : nat) (p : bool) (x : mig_store) : list chunk := update_nth i (push_mig p x) C.

Lemma length_push_at C i p x : length (push_at C i p x) = length C.
Proof. apply length_update_nth. Qed.

Lemma entries_at_push C i p x pos e : (i < length C)%nat ->
  In e (entries_at (push_at C i p x) pos) <-> In e (entries_at C pos) \/ (pos = (i, p) /\ e = x).
Proof.
  intros Hi. destruct pos as [j q]. unfold entries_at, push_at. cbn [fst snd]. rewrite nth_error_update_nth.
  destruct (nth_error C j) as [c|] eqn:Ej.
  - destruct (Nat.eqb i j) eqn:E.
    + apply Nat.eqb_eq in E. subst j. rewrite ck_mig_push, in_app_iff.
      destruct p, q; cbn [Bool.eqb In]; split; intros H; try tauto.
      * destruct H as [H|[H|[]]]; auto.
      * destruct H as [H|[H1 H2]]; auto.
      * destruct H as [H|[H1 H2]]; [auto|inversion H1].
      * destruct H as [H|[H1 H2]]; [auto|inversion H1].
      * destruct H as [H|[H|[]]]; auto.
      * destruct H as [H|[H1 H2]]; auto.
    + apply Nat.eqb_neq in E. split; [auto|]. intros [H|[H _]]; [exact H|]. inversion H. congruence.
  - split; [intros []|]. intros [[]|[H _]]. inversion H. subst j. apply nth_error_None in Ej. lia.
Qed.

Lemma owned_push s C i p x c : nth_error C i = Some c ->
  cnt s (owned (push_at C i p x)) = (cnt s (owned C) + cnt s (out_ranges [x]))%nat.
Proof.
  intros H. pose proof (cnt_flat_map_update_nth s chunk_owned i (push_mig p x) C c H) as E.
  rewrite chunk_owned_push in E. unfold owned, push_at. lia.
Qed.

Lemma all_out_push s C i p x c : nth_error C i = Some c ->
  cnt s (all_out (push_at C i p x)) = (cnt s (all_out C) + cnt s (out_ranges [x]))%nat.
Proof.
  intros H. pose proof (cnt_flat_map_update_nth s chunk_out i (push_mig p x) C c H) as E.
  rewrite chunk_out_push in E. unfold all_out, push_at. lia.
Qed.

Lemma all_in_push s C i p x c : nth_error C i = Some c ->
  cnt s (all_in (push_at C i p x)) = (cnt s (all_in C) + cnt s (in_ranges [x]))%nat.
Proof.
  intros H. pose proof (cnt_flat_map_update_nth s chunk_in i (push_mig p x) C c H) as E.
  rewrite chunk_in_push in E. unfold all_in, push_at. lia.
Qed.

Lemma all_ranges_push C i p x c : nth_error C i = Some c ->
  Forall wf_range (flat_map chunk_all_ranges C) -> Forall wf_range (ms_ranges x) ->
  Forall wf_range (flat_map chunk_all_ranges (push_at C i p x)).
Proof.
  intros H HC Hx. unfold push_at. eapply Forall_flat_map_update_nth; [exact H|exact HC|].
  apply chunk_all_push; [|exact Hx]. apply (Forall_flat_map_in wf_range chunk_all_ranges C c HC). eapply nth_error_In; eauto.
Qed.

(* ---------- loop invariant ---------- *)
Definition rest_ok (n : nat) (e : mig_store) : Prop :=
  ms_out e = true /\ (mm_src_idx (ms_meta e) < n)%nat /\ (mm_dst_idx (ms_meta e) < n)%nat /\
  Forall wf_range (ms_ranges e) /\ ms_ranges e <> [].

Record linv (n : nat) (C : list chunk) (R : list mig_store) : Prop := mkLinv {
  li_len : length C = n;
  li_wf : Forall wf_range (flat_map chunk_all_ranges C);
  li_nonempty : forall pos e, In e (entries_at C pos) -> ms_ranges e <> [];
  li_cover : forall s, (cnt s (owned C) + cnt s (flat_map ms_ranges R))%nat = if N.ltb s SLOT_NUM then 1%nat else 0%nat;
  li_in_out : forall s, cnt s (all_in C) = cnt s (all_out C);
  li_twin : forall pos e, In e (entries_at C pos) ->
            own_pos e = pos /\ (fst (twin_pos e) < length C)%nat /\ In (twin e) (entries_at C (twin_pos e));
  li_rest : Forall (rest_ok n) R
}.

Definition defer_fun (e : mig_store) (c : chunk) : chunk :=
  set_stable c (mm_src_part (ms_meta e))
    (Some (rl_merge_another (match ck_stable c (mm_src_part (ms_meta e)) with Some r => r | None => rl_new [] end) (ms_ranges e))).

Lemma defer_fun_eq e c :
  defer_fun e c = set_stable c (mm_src_part (ms_meta e))
                    (Some (compact (opt_ranges (ck_stable c (mm_src_part (ms_meta e))) ++ ms_ranges e))).
Proof.
  unfold defer_fun, rl_merge_another, rl_new. destruct (ck_stable c (mm_src_part (ms_meta e))); reflexivity.
Qed.

Lemma entries_at_defer e i C pos : entries_at (update_nth i (defer_fun e) C) pos = entries_at C pos.
Proof.
  unfold entries_at. rewrite nth_error_update_nth. destruct (nth_error C (fst pos)); [|reflexivity].
  destruct (Nat.eqb i (fst pos)); [|reflexivity]. unfold defer_fun. apply ck_mig_set_stable.
Qed.

Lemma linv_defer n C e R : linv n C (e :: R) -> linv n (update_nth (mm_src_idx (ms_meta e)) (defer_fun e) C) R.
Proof.
  intros HI. pose proof (li_rest _ _ _ HI) as Hr. inversion Hr as [|? ? (Ho & Hs & Hd & Hw & Hne) HR]; subst.
  pose proof (li_len _ _ _ HI) as Hlen. rewrite <- Hlen in Hs.
  destruct (nth_error_lt_some _ _ Hs) as (c & Hc).
  pose proof (nth_error_In _ _ Hc) as Hin.
  set (p := mm_src_part (ms_meta e)).
  set (old := opt_ranges (ck_stable c p)).
  assert (HwC : Forall wf_range (chunk_all_ranges c)) by (apply (Forall_flat_map_in wf_range chunk_all_ranges C c (li_wf _ _ _ HI) Hin)).
  assert (Hwold : Forall wf_range (old ++ ms_ranges e)).
  { apply Forall_app. split; [apply chunk_all_stable_wf; exact HwC|exact Hw]. }
  assert (Hle : forall s, (cnt s (old ++ ms_ranges e) <= 1)%nat).
  { intros s. pose proof (li_cover _ _ _ HI s) as Hcv. cbn [flat_map] in Hcv. rewrite !cnt_app in *.
    pose proof (chunk_owned_stable_le s c p). pose proof (cnt_flat_map_in_le s chunk_owned C c Hin).
    unfold owned in Hcv. fold old in H. destruct (N.ltb s SLOT_NUM); lia. }
  destruct (compact_cnt _ Hwold Hle) as (Hcnt & Hwnew).
  constructor.
  - rewrite length_update_nth. exact Hlen.
  - eapply Forall_flat_map_update_nth; [exact Hc|apply (li_wf _ _ _ HI)|].
    rewrite defer_fun_eq. apply chunk_all_set_stable; assumption.
  - intros pos e'. rewrite entries_at_defer. apply (li_nonempty _ _ _ HI).
  - intros s. pose proof (li_cover _ _ _ HI s) as Hcv. cbn [flat_map] in Hcv. rewrite cnt_app in Hcv.
    pose proof (cnt_flat_map_update_nth s chunk_owned _ (defer_fun e) C c Hc) as E.
    rewrite defer_fun_eq in E. pose proof (chunk_owned_set_stable s c p (compact (old ++ ms_ranges e))) as E2.
    fold p in E. fold old in E. rewrite Hcnt, cnt_app in E2. fold old in E2.
    pose proof (chunk_owned_stable_le s c p) as E3. fold old in E3.
    rewrite <- Hcv. unfold owned in *. lia.
  - intros s. unfold all_in, all_out.
    rewrite !flat_map_update_nth_same; [apply (li_in_out _ _ _ HI)| |];
      intros c0; unfold defer_fun; [apply chunk_out_set_stable|apply chunk_in_set_stable].
  - intros pos e'. rewrite !entries_at_defer, length_update_nth. apply (li_twin _ _ _ HI).
  - exact HR.
Qed.

Lemma twin_of_out e : ms_out e = true -> mkMig (ms_ranges e) false (ms_meta e) = twin e.
Proof. intros H. unfold twin. rewrite H. reflexivity. Qed.

Lemma twin_twin e : twin (twin e) = e.
Proof. destruct e as [r o m]. unfold twin. cbn [ms_ranges ms_out ms_meta]. rewrite negb_involutive. reflexivity. Qed.

Lemma linv_keep n C e R : linv n C (e :: R) ->
  linv n (push_at (push_at C (mm_src_idx (ms_meta e)) (mm_src_part (ms_meta e)) e)
                  (mm_dst_idx (ms_meta e)) (mm_dst_part (ms_meta e)) (twin e)) R.
Proof.
  intros HI. pose proof (li_rest _ _ _ HI) as Hr. inversion Hr as [|? ? (Ho & Hs & Hd & Hw & Hne) HR]; subst.
  pose proof (li_len _ _ _ HI) as Hlen. rewrite <- Hlen in Hs, Hd.
  set (i := mm_src_idx (ms_meta e)) in *. set (p := mm_src_part (ms_meta e)).
  set (j := mm_dst_idx (ms_meta e)) in *. set (q := mm_dst_part (ms_meta e)).
  set (C1 := push_at C i p e).
  assert (Hlen1 : length C1 = length C) by apply length_push_at.
  assert (Hd1 : (j < length C1)%nat) by lia.
  destruct (nth_error_lt_some _ _ Hs) as (c & Hc). destruct (nth_error_lt_some _ _ Hd1) as (d & Hdc).
  assert (Hin : forall pos e', In e' (entries_at (push_at C1 j q (twin e)) pos) <->
                               In e' (entries_at C pos) \/ (pos = (i, p) /\ e' = e) \/ (pos = (j, q) /\ e' = twin e)).
  { intros pos e'. rewrite (entries_at_push C1 j q (twin e) pos e' Hd1). unfold C1.
    rewrite (entries_at_push C i p e pos e' Hs). tauto. }
  assert (Hout_e : out_ranges [e] = ms_ranges e) by (rewrite out_ranges_single, Ho; reflexivity).
  assert (Hin_e : in_ranges [e] = []) by (rewrite in_ranges_single, Ho; reflexivity).
  assert (Hout_t : out_ranges [twin e] = []) by (rewrite out_ranges_single; cbn [twin ms_out]; rewrite Ho; reflexivity).
  assert (Hin_t : in_ranges [twin e] = ms_ranges e) by (rewrite in_ranges_single; cbn [twin ms_out ms_ranges]; rewrite Ho; reflexivity).
  constructor.
  - rewrite length_push_at. lia.
  - eapply all_ranges_push; [exact Hdc| |exact Hw]. eapply all_ranges_push; [exact Hc|apply (li_wf _ _ _ HI)|exact Hw].
  - intros pos e' H. apply Hin in H. destruct H as [H|[[_ ->]|[_ ->]]]; [eapply (li_nonempty _ _ _ HI); eauto|exact Hne|exact Hne].
  - intros s. pose proof (li_cover _ _ _ HI s) as Hcv. cbn [flat_map] in Hcv. rewrite cnt_app in Hcv.
    rewrite (owned_push s C1 j q (twin e) d Hdc). unfold C1. rewrite (owned_push s C i p e c Hc).
    rewrite Hout_e, Hout_t, cnt_nil. rewrite <- Hcv. lia.
  - intros s. rewrite (all_in_push s C1 j q (twin e) d Hdc), (all_out_push s C1 j q (twin e) d Hdc). unfold C1.
    rewrite (all_in_push s C i p e c Hc), (all_out_push s C i p e c Hc).
    rewrite Hout_e, Hout_t, Hin_e, Hin_t, !cnt_nil, (li_in_out _ _ _ HI s). lia.
  - intros pos e' H. rewrite length_push_at, Hlen1. apply Hin in H. destruct H as [H|[[-> ->]|[-> ->]]].
    + destruct (li_twin _ _ _ HI _ _ H) as (H1 & H2 & H3). split; [exact H1|]. split; [exact H2|]. apply Hin. left. exact H3.
    + unfold own_pos, twin_pos. rewrite Ho. unfold src_pos, dst_pos. fold i p j q. cbn [fst].
      split; [reflexivity|]. split; [exact Hd|]. apply Hin. right. right. auto.
    + unfold own_pos, twin_pos. cbn [twin ms_out ms_meta]. rewrite Ho. cbn [negb]. unfold src_pos, dst_pos.
      cbn [ms_meta]. fold i p j q. cbn [fst]. split; [reflexivity|]. split; [exact Hs|].
      apply Hin. right. left. split; [reflexivity|]. change (twin (twin e) = e). apply twin_twin.
  - exact HR.
Qed.

Lemma limit_loop_inv lim n : forall R C num outs, linv n C R ->
  exists C', limit_loop lim R C num outs = Some C' /\ linv n C' [].
Proof.
  induction R as [|e R IH]; intros C num outs HI; cbn [limit_loop].
  - exists C. auto.
  - pose proof (li_rest _ _ _ HI) as Hr. inversion Hr as [|? ? (Ho & Hs & Hd & Hw & Hne) HR]; subst.
    pose proof (li_len _ _ _ HI) as Hlen. rewrite <- Hlen in Hs, Hd.
    assert (E1 : Nat.ltb (mm_src_idx (ms_meta e)) (length C) = true) by (apply Nat.ltb_lt; exact Hs).
    rewrite E1.
    destruct (N.leb lim num || pos_mem (mm_src_idx (ms_meta e), mm_src_part (ms_meta e)) outs).
    + apply IH. apply linv_defer. exact HI.
    + assert (E2 : Nat.ltb (mm_dst_idx (ms_meta e)) (length C) = true) by (apply Nat.ltb_lt; exact Hd).
      rewrite E2, (twin_of_out e Ho). apply IH. apply (linv_keep n C e R HI).
Qed.

(* ---------- initial state of the loop ---------- *)
Lemma chunk_all_clear c : Forall wf_range (chunk_all_ranges c) -> Forall wf_range (chunk_all_ranges (clear_migs c)).
Proof.
  unfold chunk_all_ranges, clear_migs, set_mig. cbn [ck_stable0 ck_stable1 ck_mig0 ck_mig1 flat_map]. rewrite !Forall_app.
  intros (H1 & H2 & _). repeat split; auto.
Qed.

Lemma chunk_owned_clear s c :
  (cnt s (chunk_owned (clear_migs c)) + cnt s (flat_map ms_ranges (filter ms_out (ck_mig0 c) ++ filter ms_out (ck_mig1 c))))%nat
  = cnt s (chunk_owned c).
Proof.
  unfold chunk_owned, clear_migs, set_mig, out_ranges. cbn [ck_stable0 ck_stable1 ck_mig0 ck_mig1 flat_map filter].
  rewrite flat_map_app, !cnt_app, cnt_nil. lia.
Qed.

Lemma out_entries_cons c l : out_entries (c :: l) = (filter ms_out (ck_mig0 c) ++ filter ms_out (ck_mig1 c)) ++ out_entries l.
Proof. reflexivity. Qed.

Lemma out_entries_in l e : In e (out_entries l) -> exists c p, In c l /\ In e (ck_mig c p) /\ ms_out e = true.
Proof.
  unfold out_entries. rewrite in_flat_map. intros (c & Hc & H). rewrite in_app_iff, !filter_In in H.
  destruct H as [[H1 H2]|[H1 H2]]; [exists c, false|exists c, true]; auto.
Qed.

Lemma linv_init chunks : part_inv chunks -> linv (length chunks) (map clear_migs chunks) (out_entries chunks).
Proof.
  intros HI.
  assert (Hent : forall pos, entries_at (map clear_migs chunks) pos = []).
  { intros pos. unfold entries_at. rewrite nth_error_map. destruct (nth_error chunks (fst pos)); cbn [option_map]; [|reflexivity].
    destruct (snd pos); reflexivity. }
  constructor.
  - apply map_length.
  - pose proof (pi_wf _ HI) as Hw. induction chunks as [|c l IH]; cbn [map flat_map] in *; [constructor|].
    apply Forall_app in Hw. destruct Hw as [Hc Hl]. apply Forall_app. split; [apply chunk_all_clear; exact Hc|].
    clear - Hl. induction l as [|c l IH]; cbn [map flat_map] in *; [constructor|].
    apply Forall_app in Hl. destruct Hl as [Hc Hl]. apply Forall_app. split; [apply chunk_all_clear; exact Hc|auto].
  - intros pos e. rewrite Hent. intros [].
  - intros s. rewrite <- (pi_cover _ HI s). unfold owned. clear. induction chunks as [|c l IH]; [reflexivity|].
    rewrite out_entries_cons. cbn [map flat_map]. rewrite flat_map_app, !cnt_app. rewrite <- (chunk_owned_clear s c). lia.
  - intros s. unfold all_in, all_out. clear. induction chunks as [|c l IH]; [reflexivity|].
    cbn [map flat_map]. rewrite !cnt_app, IH. reflexivity.
  - intros pos e. rewrite Hent. intros [].
  - apply Forall_forall. intros e He. destruct (out_entries_in _ _ He) as (c & p & Hc & Hin & Ho).
    apply In_nth_error in Hc. destruct Hc as (i & Hi).
    assert (Hat : In e (entries_at chunks (i, p))) by (rewrite (entries_at_some _ _ _ _ Hi); exact Hin).
    destruct (part_inv_entry_bounds _ _ _ HI Hat). unfold rest_ok. repeat split; auto.
    + eapply part_inv_entry_wf; eauto.
    + eapply (pi_nonempty _ HI); eauto.
Qed.

Lemma linv_final n C : linv n C [] -> 2 * N.of_nat n <= SLOT_NUM -> part_inv C.
Proof.
  intros HI Hsz. constructor.
  - rewrite (li_len _ _ _ HI). exact Hsz.
  - apply (li_wf _ _ _ HI).
  - apply (li_nonempty _ _ _ HI).
  - intros s. rewrite <- (li_cover _ _ _ HI s). cbn [flat_map]. rewrite cnt_nil. lia.
  - apply (li_in_out _ _ _ HI).
  - apply (li_twin _ _ _ HI).
Qed.

Theorem limit_migration_part_inv_main : forall lim cl, cluster_inv cl ->
  exists cl', limit_migration lim cl = Some cl' /\ cluster_inv cl' /\ length (cl_chunks cl') = length (cl_chunks cl)
              /\ cl_epoch cl' = cl_epoch cl /\ cl_config cl' = cl_config cl.
Proof.
  intros lim cl HI. unfold limit_migration. destruct (N.eqb lim 0).
  - exists cl. auto.
  - destruct (limit_loop_inv lim (length (cl_chunks cl)) _ _ 0 [] (linv_init _ HI)) as (C' & E & HL).
    rewrite E. eexists. split; [reflexivity|]. unfold cluster_inv. cbn [cl_chunks cl_epoch cl_config].
    split; [|split; [apply (li_len _ _ _ HL)|auto]].
    eapply linv_final; [exact HL|]. apply (pi_size _ HI).
Qed.
