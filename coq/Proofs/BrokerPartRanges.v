(* Range-level facts for the slot-partition invariant (C01, C10): counting semantics of range lists,
   splitting a range, and RangeList::compact preserving ownership counts on pairwise-disjoint well-formed lists. *)
From UM Require Import Base.BytesDef Model.Ranges.
From Coq Require Import ZifyBool ZifyNat ZifyN Permutation.

Definition wf_range (r : range) : Prop := fst r <= snd r.

(* how many ranges of l contain slot s *)
Definition cnt (s : N) (l : rangelist) : nat := length (filter (in_range s) l).

Definition ind (s : N) (r : range) : nat := if in_range s r then 1%nat else 0%nat.

Lemma cnt_nil s : cnt s [] = 0%nat.
Proof. reflexivity. Qed.

Lemma cnt_cons s r l : cnt s (r :: l) = (ind s r + cnt s l)%nat.
Proof. unfold cnt, ind. cbn [filter]. destruct (in_range s r); reflexivity. Qed.

Lemma cnt_app s a b : cnt s (a ++ b) = (cnt s a + cnt s b)%nat.
Proof. unfold cnt. rewrite filter_app, app_length. reflexivity. Qed.

Lemma cnt_perm s a b : Permutation a b -> cnt s a = cnt s b.
Proof.
  intros H. induction H as [|x l l' H IH|x y l|l l' l'' H1 IH1 H2 IH2].
  - reflexivity.
  - rewrite !cnt_cons, IH. reflexivity.
  - rewrite !cnt_cons. lia.
  - congruence.
Qed.

Lemma in_range_spec s r : in_range s r = true <-> fst r <= s /\ s <= snd r.
Proof. unfold in_range. lia. Qed.

(* splitting the tail off a range: (a,b) = (a, b-k) + (b-k+1, b) for 1 <= k <= b-a *)
Lemma in_range_split_back s a b k : a <= b -> 1 <= k -> k <= b - a ->
  ind s (a, b) = Nat.add (ind s (a, b - k)) (ind s (b - k + 1, b)).
Proof.
  intros Hab Hk Hk2. unfold ind, in_range. cbn [fst snd].
  destruct (N.leb a s && N.leb s b) eqn:E1; destruct (N.leb a s && N.leb s (b - k)) eqn:E2;
    destruct (N.leb (b - k + 1) s && N.leb s b) eqn:E3; lia.
Qed.

(* splitting the head off a range: (a,b) = (a, k+a-1) + (a+k, b) for 1 <= k <= b-a *)
Lemma in_range_split_front s a b k : a <= b -> 1 <= k -> k <= b - a ->
  ind s (a, b) = Nat.add (ind s (a + k, b)) (ind s (a, k + a - 1)).
Proof.
  intros Hab Hk Hk2. unfold ind, in_range. cbn [fst snd].
  destruct (N.leb a s && N.leb s b) eqn:E1; destruct (N.leb (a + k) s && N.leb s b) eqn:E2;
    destruct (N.leb a s && N.leb s (k + a - 1)) eqn:E3; lia.
Qed.

(* ---------- norm_range ---------- *)
Lemma norm_range_wf r : wf_range r -> norm_range r = r.
Proof. unfold wf_range, norm_range. intros H. destruct (N.ltb (snd r) (fst r)) eqn:E; [lia|reflexivity]. Qed.

Lemma map_norm_wf l : Forall wf_range l -> map norm_range l = l.
Proof. induction 1 as [|r l Hr Hl IH]; cbn [map]; [reflexivity|]. rewrite norm_range_wf, IH; auto. Qed.

Lemma norm_range_is_wf r : wf_range (norm_range r).
Proof. unfold wf_range, norm_range. destruct (N.ltb (snd r) (fst r)) eqn:E; cbn [fst snd]; lia. Qed.

(* ---------- stable insertion sort ---------- *)
Fixpoint sorted_starts (l : rangelist) : Prop :=
  match l with
  | [] => True
  | r :: l' => (forall x, In x l' -> fst r <= fst x) /\ sorted_starts l'
  end.

Lemma insert_range_perm r l : Permutation (r :: l) (insert_range r l).
Proof.
  induction l as [|x l IH]; cbn [insert_range]; [apply Permutation_refl|].
  destruct (N.ltb (fst r) (fst x)); [apply Permutation_refl|].
  eapply Permutation_trans; [apply perm_swap|]. apply perm_skip. exact IH.
Qed.

Lemma insert_range_sorted r l : sorted_starts l -> sorted_starts (insert_range r l).
Proof.
  induction l as [|x l IH]; cbn [insert_range sorted_starts].
  - intros _. split; [intros ? []|exact I].
  - intros [Hx Hs]. destruct (N.ltb (fst r) (fst x)) eqn:E; cbn [sorted_starts].
    + split; [|split; assumption]. intros y [<-|Hy]; [lia|]. specialize (Hx _ Hy). lia.
    + split; [|apply IH; assumption]. intros y Hy.
      apply (Permutation_in _ (Permutation_sym (insert_range_perm r l))) in Hy.
      destruct Hy as [<-|Hy]; [lia|auto].
Qed.

Lemma sort_acc_perm l : forall acc, Permutation (acc ++ l) (sort_ranges_stable_acc acc l).
Proof.
  induction l as [|r l IH]; intros acc; cbn [sort_ranges_stable_acc].
  - rewrite app_nil_r. apply Permutation_refl.
  - eapply Permutation_trans; [|apply IH].
    eapply Permutation_trans; [apply Permutation_sym, Permutation_middle|].
    change (r :: acc ++ l) with ((r :: acc) ++ l).
    apply Permutation_app_tail. apply insert_range_perm.
Qed.

Lemma sort_acc_sorted l : forall acc, sorted_starts acc -> sorted_starts (sort_ranges_stable_acc acc l).
Proof.
  induction l as [|r l IH]; intros acc H; cbn [sort_ranges_stable_acc]; [exact H|].
  apply IH. apply insert_range_sorted. exact H.
Qed.

(* ---------- merge loop ---------- *)
Lemma merge_sorted_cnt : forall rest cur,
  sorted_starts (cur :: rest) -> Forall wf_range (cur :: rest) -> (forall s, (cnt s (cur :: rest) <= 1)%nat) ->
  (forall s, cnt s (merge_sorted cur rest) = cnt s (cur :: rest)) /\ Forall wf_range (merge_sorted cur rest)
  /\ sorted_starts (merge_sorted cur rest).
Proof.
  induction rest as [|e rest IH]; intros cur Hs Hw Hc; cbn [merge_sorted].
  - split; [reflexivity|split; assumption].
  - destruct Hs as [Hcur [He Hrest]].
    inversion Hw as [|? ? Hwc Hw']; subst. inversion Hw' as [|? ? Hwe Hwr]; subst.
    unfold wf_range in Hwc, Hwe.
    assert (Hce : fst cur <= fst e) by (apply Hcur; left; reflexivity).
    destruct (N.leb (fst e) (snd cur + 1)) eqn:E.
    + (* overlapping is impossible, so the two ranges are adjacent *)
      assert (Hadj : fst e = snd cur + 1).
      { destruct (N.leb (fst e) (snd cur)) eqn:E2; [|lia].
        specialize (Hc (fst e)). rewrite !cnt_cons in Hc.
        assert (in_range (fst e) cur = true) by (apply in_range_spec; lia).
        assert (in_range (fst e) e = true) by (apply in_range_spec; lia).
        unfold ind in Hc. rewrite H, H0 in Hc. lia. }
      assert (Hmax : N.max (snd cur) (snd e) = snd e) by lia. rewrite Hmax.
      assert (Hin : forall s, ind s (fst cur, snd e) = (ind s cur + ind s e)%nat).
      { intros s. unfold ind, in_range. cbn [fst snd].
        destruct (N.leb (fst cur) s && N.leb s (snd e)) eqn:A; destruct (N.leb (fst cur) s && N.leb s (snd cur)) eqn:B;
          destruct (N.leb (fst e) s && N.leb s (snd e)) eqn:C; lia. }
      destruct (IH (fst cur, snd e)) as (IH1 & IH2 & IH3).
      * cbn [sorted_starts]. split; [|assumption]. intros x Hx. cbn [fst]. apply Hcur. right. assumption.
      * constructor; [unfold wf_range; cbn [fst snd]; lia|assumption].
      * intros s. specialize (Hc s). rewrite !cnt_cons in *. rewrite Hin. lia.
      * split; [|split; assumption]. intros s. rewrite IH1. rewrite !cnt_cons. rewrite Hin. lia.
    + destruct (IH e) as (IH1 & IH2 & IH3).
      * cbn [sorted_starts]. split; assumption.
      * assumption.
      * intros s. specialize (Hc s). rewrite cnt_cons in Hc. lia.
      * split; [|split].
        -- intros s. rewrite !cnt_cons, IH1, !cnt_cons. reflexivity.
        -- constructor; assumption.
        -- cbn [sorted_starts]. split; [|assumption]. intros x Hx.
           (* every element of the merged tail starts at or after e *)
           assert (Hall : forall y, In y (merge_sorted e rest) -> fst e <= fst y).
           { clear - IH3. destruct (merge_sorted e rest) as [|m ms] eqn:Em; [intros ? []|].
             assert (fst m = fst e).
             { clear - Em. revert e Em. induction rest as [|e' rest IH]; intros e Em; cbn [merge_sorted] in Em.
               - inversion Em; reflexivity.
               - destruct (N.leb (fst e') (snd e + 1)).
                 + apply IH in Em. cbn [fst] in Em. exact Em.
                 + inversion Em; reflexivity. }
             intros y [<-|Hy]; [lia|]. destruct IH3 as [Hm _]. specialize (Hm _ Hy). lia. }
           specialize (Hall _ Hx). lia.
Qed.

(* ---------- compact ---------- *)
Theorem compact_cnt l : Forall wf_range l -> (forall s, (cnt s l <= 1)%nat) ->
  (forall s, cnt s (compact l) = cnt s l) /\ Forall wf_range (compact l).
Proof.
  intros Hw Hc. unfold compact. rewrite (map_norm_wf l Hw).
  pose proof (sort_acc_perm l []) as Hp. cbn [app] in Hp.
  pose proof (sort_acc_sorted l [] I) as Hs.
  destruct (sort_ranges_stable_acc [] l) as [|c r] eqn:E.
  - apply Permutation_sym, Permutation_nil in Hp. subst. split; [reflexivity|constructor].
  - destruct (merge_sorted_cnt r c) as (H1 & H2 & _).
    + exact Hs.
    + eapply Permutation_Forall; [exact Hp|exact Hw].
    + intros s. rewrite <- (cnt_perm s _ _ Hp). apply Hc.
    + split; [|exact H2]. intros s. rewrite H1. symmetry. apply cnt_perm. exact Hp.
Qed.

Lemma compact_nil : compact [] = [].
Proof. reflexivity. Qed.

Lemma compact_nonempty l : l <> [] -> compact l <> [].
Proof.
  intros Hne. unfold compact.
  pose proof (sort_acc_perm (map norm_range l) []) as Hp. cbn [app] in Hp.
  destruct (sort_ranges_stable_acc [] (map norm_range l)) as [|c r] eqn:E.
  - apply Permutation_sym, Permutation_nil in Hp. destruct l; [congruence|discriminate].
  - destruct r; cbn [merge_sorted]; [discriminate|]. destruct (N.leb _ _); [|discriminate].
    clear. generalize (fst c, N.max (snd c) (snd r)). induction r0 as [|e r0 IH]; intros p; cbn [merge_sorted]; [discriminate|].
    destruct (N.leb _ _); [apply IH|discriminate].
Qed.
