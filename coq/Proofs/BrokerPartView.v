(* C01, view side, final interface: from the stored slot-partition invariant to the property of every SERVED view,
   for every migration limit.  The inner None of view_cluster / view_proxy (a Rust `expect` panic in to_slot_range or
   limit_migration) is unreachable under the invariant.
     BrokerPartViewBase.v   general lemmas, total forms of to_slot_range / chunk_nodes / cluster_nodes
     BrokerPartViewNodes.v  cluster_store_to_cluster: part_inv -> partition_ok
     BrokerPartViewLimit.v  limit_migration preserves part_inv and the number of chunks
     BrokerPartViewProxy.v  proxy_partition_ok and the per-proxy view *)
From UM Require Import Base.BytesDef Model.Ranges Model.Broker Proofs.BrokerBase Proofs.BrokerPartRanges Proofs.BrokerPartDefs.
From UM Require Export Proofs.BrokerPartViewBase Proofs.BrokerPartViewNodes Proofs.BrokerPartViewLimit Proofs.BrokerPartViewProxy.
From Coq Require Import ZifyBool ZifyNat ZifyN Permutation.

Theorem limit_migration_part_inv : forall lim cl, cluster_inv cl ->
  exists cl', limit_migration lim cl = Some cl' /\ cluster_inv cl' /\ length (cl_chunks cl') = length (cl_chunks cl).
Proof.
  intros lim cl HI. destruct (limit_migration_part_inv_main lim cl HI) as (cl' & H1 & H2 & H3 & _).
  exists cl'. auto.
Qed.

Theorem cluster_nodes_partition : forall cl, cluster_inv cl ->
  exists ns, cluster_nodes cl = Some ns /\ partition_ok ns.
Proof.
  intros cl HI. destruct (cluster_nodes_partition_total cl HI) as (H1 & H2). eauto.
Qed.

Theorem view_cluster_partition : forall s lim name ov, store_part_inv s ->
  view_cluster lim s name = Some ov -> exists v, ov = Some v /\ partition_ok (vc_nodes v).
Proof.
  intros s lim name ov HS. unfold view_cluster. destruct (alookup name (st_clusters s)) as [cl|] eqn:E; [|discriminate].
  apply alookup_In in E. pose proof (HS _ _ E) as HI.
  destruct (limit_migration_part_inv lim cl HI) as (cl' & -> & HI' & _).
  destruct (cluster_nodes_partition cl' HI') as (ns & -> & HP).
  intros H. inversion H. eexists. split; [reflexivity|]. exact HP.
Qed.

Theorem view_proxy_partition : forall s lim a ov, store_part_inv s ->
  view_proxy lim s a = Some ov -> exists v, ov = Some v /\ proxy_partition_ok a v.
Proof.
  intros s lim a ov HS. unfold view_proxy. destruct (alookup a (st_proxies s)) as [r|]; [|discriminate].
  destruct (pr_cluster r) as [name|].
  - destruct (alookup name (st_clusters s)) as [cl|] eqn:E.
    + apply alookup_In in E. pose proof (HS _ _ E) as HI.
      destruct (limit_migration_part_inv lim cl HI) as (cl' & -> & HI' & _).
      destruct (cluster_nodes_partition cl' HI') as (ns & -> & HP).
      intros H. inversion H. eexists. split; [reflexivity|].
      apply (proxy_view_partition a name (cl_epoch cl') (cl_config cl') ns HP).
    + intros H. inversion H. eexists. split; [reflexivity|]. apply (free_view_partition a (st_epoch s) (pr_n0 r) (pr_n1 r)).
  - intros H. inversion H. eexists. split; [reflexivity|]. apply (free_view_partition a (st_epoch s) (pr_n0 r) (pr_n1 r)).
Qed.

(* the `expect`s of to_slot_range / limit_migration are unreachable *)
Corollary view_cluster_no_panic : forall s lim name, store_part_inv s -> view_cluster lim s name <> Some None.
Proof. intros s lim name HS H. destruct (view_cluster_partition s lim name None HS H) as (v & Hv & _). discriminate. Qed.

Corollary view_proxy_no_panic : forall s lim a, store_part_inv s -> view_proxy lim s a <> Some None.
Proof. intros s lim a HS H. destruct (view_proxy_partition s lim a None HS H) as (v & Hv & _). discriminate. Qed.

(* the per-proxy view and the whole-cluster view under the same limit show the same cluster: the local nodes are the
   cluster view's nodes on that proxy, and local entries plus peer entries are exactly the entries of its masters *)
Theorem view_proxy_matches_cluster : forall s lim a r name cl, store_part_inv s ->
  alookup a (st_proxies s) = Some r -> pr_cluster r = Some name -> alookup name (st_clusters s) = Some cl ->
  exists cl' ns v,
    limit_migration lim cl = Some cl' /\ cluster_nodes cl' = Some ns /\ partition_ok ns /\
    view_cluster lim s name = Some (Some (mkVCluster (cl_epoch cl') ns (cl_config cl'))) /\
    view_proxy lim s a = Some (Some v) /\ proxy_partition_ok a v /\
    vp_cluster v = Some name /\ vp_epoch v = cl_epoch cl' /\ vp_config v = Some (cl_config cl') /\
    vp_nodes v = filter (fun n => N.eqb (vn_proxy n) a) ns /\
    Permutation (view_pslots v) (pslots (filter vn_master ns)).
Proof.
  intros s lim a r name cl HS Ha Hr Hc. pose proof (HS _ _ (alookup_In _ _ _ Hc)) as HI.
  destruct (limit_migration_part_inv lim cl HI) as (cl' & Hl & HI' & _).
  destruct (cluster_nodes_partition cl' HI') as (ns & Hn & HP).
  exists cl', ns, (proxy_view_of a name (cl_epoch cl') (cl_config cl') ns).
  split; [exact Hl|]. split; [exact Hn|]. split; [exact HP|].
  split; [unfold view_cluster; rewrite Hc, Hl, Hn; reflexivity|].
  split; [unfold view_proxy; rewrite Ha, Hr, Hc, Hl, Hn; reflexivity|].
  split; [apply proxy_view_partition; exact HP|].
  repeat (split; [reflexivity|]).
  pose proof (po_replicas _ HP) as Hrep. change (replicas_empty ns) in Hrep.
  rewrite view_pslots_of, (pslots_filter_master ns Hrep). apply mine_others_perm. exact Hrep.
Qed.

(* ---------- the hypotheses are satisfiable: a two-chunk cluster in the middle of two migrations ---------- *)
Definition ex_m1 : mig_meta := mkMeta 5 0 false 1 false.
Definition ex_m2 : mig_meta := mkMeta 5 0 true 1 true.
Definition ex_e1 : mig_store := mkMig [(8192, 12287)] true ex_m1.
Definition ex_e2 : mig_store := mkMig [(12288, 16383)] true ex_m2.
Definition ex_c0 : chunk := mkChunk RNormal (Some [(0, 8191)]) None [ex_e1] [ex_e2] 100 101 1 2 1000 1001 1010 1011.
Definition ex_c1 : chunk := mkChunk RFirst None None [twin ex_e1] [twin ex_e2] 102 103 3 4 1020 1021 1030 1031.
Definition ex_cl : cluster := mkCluster 5 [ex_c0; ex_c1] 0.
Definition ex_store : store :=
  mkStore 6 [(7, ex_cl)]
          [(100, mkRes 1000 1001 1 0 (Some 7)); (101, mkRes 1010 1011 2 1 (Some 7)); (102, mkRes 1020 1021 3 2 (Some 7));
           (103, mkRes 1030 1031 4 3 (Some 7)); (200, mkRes 2000 2001 5 4 None)] [] [] false.

Example ex_cl_inv : cluster_inv ex_cl.
Proof.
  unfold cluster_inv. cbn [ex_cl cl_chunks]. constructor.
  - cbn [length]. unfold SLOT_NUM. lia.
  - repeat constructor; unfold wf_range; cbn [fst snd]; lia.
  - intros [i p] e. destruct i as [|[|i]]; destruct p; cbn [entries_at nth_error fst snd ck_mig ex_c0 ex_c1 ck_mig0 ck_mig1 In];
      try (intros [<-|[]]; discriminate). all: destruct i; intros [].
  - intros s. replace (owned [ex_c0; ex_c1]) with [(0, 8191); (8192, 12287); (12288, 16383)] by reflexivity.
    rewrite !cnt_cons, cnt_nil. unfold ind, in_range, SLOT_NUM. cbn [fst snd].
    destruct (N.ltb s 16384) eqn:E; destruct (N.leb 0 s && N.leb s 8191) eqn:E1;
      destruct (N.leb 8192 s && N.leb s 12287) eqn:E2; destruct (N.leb 12288 s && N.leb s 16383) eqn:E3; lia.
  - intros s. reflexivity.
  - intros [i p] e. destruct i as [|[|i]]; destruct p; cbn [entries_at nth_error fst snd ck_mig ex_c0 ex_c1 ck_mig0 ck_mig1 In];
      try (intros [<-|[]]; vm_compute; repeat split; auto; lia). all: destruct i; intros [].
Qed.

Example ex_store_inv : store_part_inv ex_store.
Proof. intros name cl [H|[]]. inversion H. subst. apply ex_cl_inv. Qed.

(* with limit 1 the first migration stays, the second is folded back into the stable slots of chunk 0 part 1 *)
Example ex_limit_1 :
  option_map (fun c => map (fun k => (ck_stable1 k, length (ck_mig0 k), length (ck_mig1 k))) (cl_chunks c)) (limit_migration 1 ex_cl)
  = Some [(Some [(12288, 16383)], 1%nat, 0%nat); (None, 1%nat, 0%nat)].
Proof. vm_compute. reflexivity. Qed.

Example ex_view_cluster_some : exists ov, view_cluster 1 ex_store 7 = Some ov.
Proof. eexists. vm_compute. reflexivity. Qed.

Example ex_view_proxy_some : exists ov, view_proxy 1 ex_store 100 = Some ov.
Proof. eexists. vm_compute. reflexivity. Qed.

Example ex_view_proxy_free : exists ov, view_proxy 0 ex_store 200 = Some ov.
Proof. eexists. vm_compute. reflexivity. Qed.

(* the per-proxy view of proxy 100 under limit 1: one local master with a stable and a migrating entry, peers grouped by proxy *)
Example ex_view_proxy_shape :
  match view_proxy 1 ex_store 100 with
  | Some (Some v) => (length (vp_nodes v), map fst (vp_peers v), map (fun p => length (snd p)) (vp_peers v))
  | _ => (0%nat, [], [])
  end = (2%nat, [101; 102], [1%nat; 1%nat]).
Proof. vm_compute. reflexivity. Qed.
