(* Slot-partition invariant (C01, C10): witnesses that the hypotheses of the preservation theorems are satisfiable by
   non-trivial values: a reachable store holding a cluster, and a hand-built cluster in the middle of a migration on
   which commit_migration finds its task. *)
From UM Require Import Base.BytesDef Model.Ranges Model.Broker Proofs.BrokerBase Proofs.BrokerPartRanges Proofs.BrokerPartDefs
  Proofs.BrokerPartOpsFrame Proofs.BrokerPartOpsFail Proofs.BrokerPartOpsNodes Proofs.BrokerPartOpsCreate
  Proofs.BrokerPartOpsCompact Proofs.BrokerPartOpsCommit Proofs.BrokerPartOps.
From Coq Require Import ZifyBool ZifyNat ZifyN.

(* ---------- a store with one cluster, built by operations ---------- *)
Definition ex_ops : list op := [OAddProxy 1 (Some 1) None; OAddProxy 2 (Some 2) None; OAddCluster 7 4 0 [(1, 2)]].
Definition ex_store : store := run (init_store false) ex_ops.

Example ex_store_has_cluster : exists cl, alookup 7 (st_clusters ex_store) = Some cl /\ length (cl_chunks cl) = 1%nat.
Proof. eexists. split; [vm_compute; reflexivity|reflexivity]. Qed.

Lemma init_part_inv o : store_part_inv (init_store o).
Proof. intros name cl []. Qed.

Example ex_store_part_inv : store_part_inv ex_store.
Proof.
  unfold ex_store, ex_ops, run. cbn [fold_left step]. rewrite !lift_unit_fst.
  apply add_cluster_part_inv, add_proxy_part_inv, add_proxy_part_inv, init_part_inv.
Qed.

(* the failover and balance theorems apply to it *)
Example ex_store_failover : store_part_inv (fst (replace_failed_proxy ex_store 1 None)).
Proof. apply replace_failed_proxy_part_inv, ex_store_part_inv. Qed.

(* ---------- a cluster in the middle of a migration ---------- *)
Definition ex_meta : mig_meta := mkMeta 5 0 true 1 false.
Definition ex_rl : rangelist := [(12288, 16383)].
Definition ex_c0 : chunk :=
  mkChunk RNormal (Some [(0, 8191)]) (Some [(8192, 12287)]) [] [mkMig ex_rl true ex_meta] 1 2 1 2 10 11 20 21.
Definition ex_c1 : chunk :=
  mkChunk RNormal None None [mkMig ex_rl false ex_meta] [] 3 4 3 4 30 31 40 41.
Definition ex_chunks : list chunk := [ex_c0; ex_c1].

Example ex_chunks_part_inv : part_inv ex_chunks.
Proof.
  constructor.
  - cbn [ex_chunks length]. unfold SLOT_NUM. lia.
  - cbn. repeat constructor; unfold wf_range; cbn [fst snd]; lia.
  - intros [i p] e He. unfold entries_at in He. cbn [fst snd] in He.
    destruct i as [|[|i]]; [| |destruct i]; destruct p; cbn in He; try contradiction; destruct He as [<-|[]]; discriminate.
  - intros s. change (owned ex_chunks) with [(0, 8191); (8192, 12287); (12288, 16383)].
    rewrite !cnt_cons, cnt_nil. unfold ind, in_range, SLOT_NUM. cbn [fst snd].
    destruct (N.leb 0 s) eqn:A1; destruct (N.leb s 8191) eqn:A2; destruct (N.leb 8192 s) eqn:A3;
      destruct (N.leb s 12287) eqn:A4; destruct (N.leb 12288 s) eqn:A5; destruct (N.leb s 16383) eqn:A6;
      destruct (N.ltb s 16384) eqn:A7; cbn [andb Nat.add]; lia.
  - intros s. reflexivity.
  - intros [i p] e He. unfold entries_at in He. cbn [fst snd] in He.
    destruct i as [|[|i]]; [| |destruct i]; destruct p; cbn in He; try contradiction; destruct He as [<-|[]];
      cbn; (split; [reflexivity|]); (split; [lia|]); left; reflexivity.
Qed.

(* commit_migration finds the task on it (both lookups succeed), so the commit theorem is exercised on its main branch *)
Example ex_find_out : find_entry_chunks 0 ex_chunks ex_rl 5 true = Some (0%nat, true).
Proof. reflexivity. Qed.
Example ex_find_in : find_entry_chunks 0 ex_chunks ex_rl 5 false = Some (1%nat, false).
Proof. reflexivity. Qed.

Definition ex_mig_store : store :=
  mkStore 5 [(7, mkCluster 5 ex_chunks 0)] [] [] [] false.

Example ex_mig_store_part_inv : store_part_inv ex_mig_store.
Proof. intros name cl [E|[]]. inversion E; subst. exact ex_chunks_part_inv. Qed.

Example ex_commit_result :
  snd (commit_migration ex_mig_store 7 ex_rl TagMigrating 5) = Done tt
  /\ option_map (fun cl => map (fun c => (ck_stable0 c, ck_stable1 c, ck_mig0 c, ck_mig1 c)) (cl_chunks cl))
       (alookup 7 (st_clusters (fst (commit_migration ex_mig_store 7 ex_rl TagMigrating 5))))
     = Some [(Some [(0, 8191)], Some [(8192, 12287)], [], []); (Some [(12288, 16383)], None, [], [])].
Proof. split; vm_compute; reflexivity. Qed.

Example ex_commit_part_inv : store_part_inv (fst (commit_migration ex_mig_store 7 ex_rl TagMigrating 5)).
Proof. apply commit_migration_part_inv, ex_mig_store_part_inv. Qed.

(* the size side condition of add_cluster is tight: with 16386 masters (8193 chunks) the chunk builder produces an
   overlapping range - this is what the InvalidNodeNum check `SLOT_NUM < node_num / 2` excludes *)
Example ex_too_many_masters :
  nth_error (proxy_resource_to_chunk_store (init_store false) (repeat (0, 0) (N.to_nat 8193)) true) (N.to_nat 8192)
  = Some (mkChunk RNormal (Some [(16383, 16384)]) (Some [(16383, 16384)]) [] [] 0 0 0 0 0 0 0 0).
Proof. vm_compute. reflexivity. Qed.
