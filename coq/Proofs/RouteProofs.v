(* C02: routing of one slot across the proxies of a cluster, for every consistent phase assignment. *)
From UM Require Import Base.BytesDef Model.Ranges Model.Broker Model.Route
     Proofs.BrokerPartRanges Proofs.BrokerPartDefs Proofs.RouteProofsBase Proofs.RouteProofsView Proofs.RouteProofsTables.
From Coq Require Import ZifyBool ZifyNat ZifyN.

(* ---------- paths: chases that may still be in flight ---------- *)
(* every decision but the last is a MOVED that was followed; the last one is any answer of the last proxy asked *)
Inductive path (ph : phases) (metas : N -> pmeta) (s : N) : N -> list step -> Prop :=
| path_one p o : In o (route_step ph (metas p) s) -> path ph metas s p [(p, o)]
| path_cons p q tr : In (Moved q) (route_step ph (metas p) s) -> path ph metas s q tr -> path ph metas s p ((p, Moved q) :: tr).

Lemma last_step_cons st tr : tr <> [] -> last_step (st :: tr) = last_step tr.
Proof.
  unfold last_step. intros H. cbn [rev]. destruct (rev tr) as [|x r] eqn:E.
  - apply (f_equal (@rev step)) in E. rewrite rev_involutive in E. cbn in E. congruence.
  - reflexivity.
Qed.

Lemma path_nonempty ph metas s p tr : path ph metas s p tr -> tr <> [].
Proof. intros H. destruct H; discriminate. Qed.

(* ---------- helpers ---------- *)
Lemma fallthrough_local ph pm s h : pm_named pm = true -> slot_cands (pm_local pm) s <> [] ->
  fallthrough ph pm s h = map (fun n => queue_send (node_blocked ph pm n) h n) (slot_cands (pm_local pm) s).
Proof. intros Hn Hne. unfold fallthrough. rewrite Hn. cbn [negb]. destruct (slot_cands (pm_local pm) s); [congruence|reflexivity]. Qed.

Lemma fallthrough_peers ph pm s h : pm_named pm = true -> slot_cands (pm_local pm) s = [] -> slot_cands (pm_peers pm) s <> [] ->
  fallthrough ph pm s h = map Moved (slot_cands (pm_peers pm) s).
Proof.
  intros Hn El Hne. unfold fallthrough. rewrite Hn, El. cbn [negb]. destruct (slot_cands (pm_peers pm) s); [congruence|reflexivity].
Qed.

Lemma flat_map_all {A B} (l : list A) (f : A -> list B) x o :
  (forall y, In y l -> y = x) -> In o (flat_map f l) -> In o (f x).
Proof. intros Hall H. apply in_flat_map in H. destruct H as [y [Hy Ho]]. rewrite <- (Hall y Hy). exact Ho. Qed.

Lemma in_not_nil {A} (x : A) l : In x l -> l <> [].
Proof. intros H E. subst. destruct H. Qed.

Definition dpc (p : mphase) : bool := match mp_dst p with DPreCheck => true | _ => false end.
Definition smoved (p : mphase) : bool :=
  match mp_src p with SScanning | SFinalSwitch | SSwitchCommitted => true | _ => false end.

Lemma phase_ok_facts p : phase_ok p = true ->
  (smoved p = true -> dpc p = false) /\
  (dpc p = false -> smoved p = false -> mp_blk p = true).
Proof.
  destruct p as [[] [] []]; unfold phase_ok, dpc, smoved; cbn; intros H; try discriminate; split; intros; try discriminate; reflexivity.
Qed.

Section Main.
Variable ns : list vnode.
Hypothesis Hpo : partition_ok ns.
Hypothesis Hwf : view_wfb ns = true.
Variable ph : phases.
Hypothesis Hph : phases_ok ph ns = true.
Variable s : N.
Hypothesis Hs : s < SLOT_NUM.
Variable n0 : vnode.
Variable sl0 : vslot.
Hypothesis Hown : owner_entries ns s = [(n0, sl0)].

Let pm := install_ns ns.
Let P0 := vn_proxy n0.
Let A0 := vn_addr n0.

Lemma Hn0 : In n0 ns. Proof. exact (proj1 (own_facts ns s n0 sl0 Hown)). Qed.
Lemma Hm0 : vn_master n0 = true. Proof. exact (proj1 (proj2 (own_facts ns s n0 sl0 Hown))). Qed.
Lemma Hsl0 : In sl0 (vn_slots n0). Proof. exact (proj1 (proj2 (proj2 (own_facts ns s n0 sl0 Hown)))). Qed.
Lemma Hi0 : is_imp sl0 = false. Proof. exact (proj1 (proj2 (proj2 (proj2 (own_facts ns s n0 sl0 Hown))))). Qed.
Lemma Hin0 : slot_in s sl0 = true. Proof. exact (proj2 (proj2 (proj2 (proj2 (own_facts ns s n0 sl0 Hown))))). Qed.
Lemma W4 : forall n rl m, In n ns -> In (rl, VMigrating m) (vn_slots n) -> vm_src_proxy m <> vm_dst_proxy m.
Proof. exact (proj2 (proj2 (proj2 (wf_parts ns Hwf)))). Qed.

Lemma P0_in : In P0 (proxies_of ns).
Proof. unfold proxies_of, P0. apply in_map. exact Hn0. Qed.

(* ---------- what covers s at proxy p ---------- *)
Lemma local_cands_cases p a : In a (slot_cands (pm_local (pm p)) s) ->
  (p = P0 /\ a = A0) \/ (exists rl m, sl0 = (rl, VMigrating m) /\ p = vm_dst_proxy m /\ a = vm_dst_node m).
Proof.
  intros H. apply (cands_local ns Hwf s Hs) in H. destruct H as [n [sl [Hn [Hm [Hp [-> [Hsl Hin]]]]]]].
  destruct (entry_cases ns Hpo s n0 sl0 Hown n sl Hn Hsl Hin) as [[-> ->]|[rl [m [-> [E0 [Ha [Hpx _]]]]]]].
  - left. split; [symmetry; exact Hp|reflexivity].
  - right. exists rl, m. split; [exact E0|]. split; congruence.
Qed.

Lemma local_cands_own : In A0 (slot_cands (pm_local (pm P0)) s).
Proof.
  apply (cands_local ns Hwf s Hs). exists n0, sl0.
  split; [exact Hn0|split; [exact Hm0|split; [reflexivity|split; [reflexivity|split; [exact Hsl0|exact Hin0]]]]].
Qed.

Lemma peer_cands_cases p q : In p (proxies_of ns) -> In q (slot_cands (pm_peers (pm p)) s) ->
  q <> p /\ (q = P0 \/ exists rl m, sl0 = (rl, VMigrating m) /\ q = vm_dst_proxy m).
Proof.
  intros Hp H. apply (cands_peers ns Hwf s Hs p q Hp) in H. destruct H as [n [sl [Hn [Hm [Hq [Hne [Hsl Hin]]]]]]].
  split; [exact Hne|].
  destruct (entry_cases ns Hpo s n0 sl0 Hown n sl Hn Hsl Hin) as [[-> ->]|[rl [m [-> [E0 [Ha [Hpx _]]]]]]].
  - left. symmetry. exact Hq.
  - right. exists rl, m. split; [exact E0|congruence].
Qed.

Lemma peer_cands_own p : In p (proxies_of ns) -> p <> P0 -> In P0 (slot_cands (pm_peers (pm p)) s).
Proof.
  intros Hp Hne. apply (cands_peers ns Hwf s Hs p P0 Hp). exists n0, sl0.
  split; [exact Hn0|split; [exact Hm0|split; [reflexivity|split; [intros E; apply Hne; symmetry; exact E|split; [exact Hsl0|exact Hin0]]]]].
Qed.

Lemma task_cases p t : In t (filter (fun t => in_rangelist s (t_ranges t)) (local_tasks (pm p))) ->
  exists rl m, sl0 = (rl, VMigrating m) /\
    ((p = P0 /\ t = mkTask A0 rl true m) \/ (p = vm_dst_proxy m /\ t = mkTask (vm_dst_node m) rl false m)).
Proof.
  intros H. apply filter_In in H. destruct H as [H Hin]. apply (tasks_In ns Hwf) in H.
  destruct H as [n [rl [Hn [Hm [Hp [[m [Hsl ->]]|[m [Hsl ->]]]]]]]]; cbn [t_ranges] in Hin.
  - destruct (entry_cases ns Hpo s n0 sl0 Hown n (rl, VMigrating m) Hn Hsl Hin) as [[-> E]|[rl' [m' [E _]]]]; [|discriminate].
    exists rl, m. split; [symmetry; exact E|]. left. split; [symmetry; exact Hp|reflexivity].
  - destruct (entry_cases ns Hpo s n0 sl0 Hown n (rl, VImporting m) Hn Hsl Hin) as [[-> E]|[rl' [m' [E [E0 [Ha [Hpx _]]]]]]].
    + pose proof Hi0 as Hx. rewrite <- E in Hx. discriminate.
    + inversion E; subst rl' m'. exists rl, m. split; [exact E0|]. right. split; [congruence|]. rewrite Ha. reflexivity.
Qed.

(* ---------- a slot that is not migrating ---------- *)
Section Stable.
Hypothesis Hst : forall rl m, sl0 <> (rl, VMigrating m).

Lemma stable_no_tasks p : filter (fun t => in_rangelist s (t_ranges t)) (local_tasks (pm p)) = [].
Proof.
  destruct (filter (fun t => in_rangelist s (t_ranges t)) (local_tasks (pm p))) as [|t l] eqn:E; [reflexivity|].
  assert (H : In t (filter (fun t => in_rangelist s (t_ranges t)) (local_tasks (pm p)))) by (rewrite E; left; reflexivity).
  destruct (task_cases p t H) as [rl [m [E0 _]]]. destruct (Hst rl m E0).
Qed.

Lemma stable_step_own o : In o (route_step ph (pm P0) s) -> o = queue_send (node_blocked ph (pm P0) A0) HNotBlocking A0.
Proof.
  unfold pm. rewrite (route_step_eq ns Hwf s Hs). fold pm. rewrite stable_no_tasks.
  rewrite fallthrough_local; [|reflexivity|apply (in_not_nil A0); exact local_cands_own].
  intros H. apply in_map_iff in H. destruct H as [a [<- Ha]].
  destruct (local_cands_cases P0 a Ha) as [[_ ->]|[rl [m [E0 _]]]]; [reflexivity|destruct (Hst rl m E0)].
Qed.

Lemma stable_step_other p o : In p (proxies_of ns) -> p <> P0 -> In o (route_step ph (pm p) s) -> o = Moved P0.
Proof.
  intros Hp Hne. unfold pm. rewrite (route_step_eq ns Hwf s Hs). fold pm. rewrite stable_no_tasks.
  assert (El : slot_cands (pm_local (pm p)) s = []).
  { destruct (slot_cands (pm_local (pm p)) s) as [|a l] eqn:E; [reflexivity|].
    destruct (local_cands_cases p a) as [[Hp' _]|[rl [m [E0 _]]]]; [rewrite E; left; reflexivity|congruence|destruct (Hst rl m E0)]. }
  rewrite fallthrough_peers; [|reflexivity|exact El|apply (in_not_nil P0); apply peer_cands_own; assumption].
  intros H. apply in_map_iff in H. destruct H as [q [<- Hq]].
  destruct (peer_cands_cases p q Hp Hq) as [_ [->|[rl [m [E0 _]]]]]; [reflexivity|destruct (Hst rl m E0)].
Qed.

Lemma stable_nonempty p : In p (proxies_of ns) -> route_step ph (pm p) s <> [].
Proof.
  intros Hp. unfold pm. rewrite (route_step_eq ns Hwf s Hs). fold pm. rewrite stable_no_tasks.
  destruct (N.eq_dec p P0) as [->|Hne].
  - rewrite fallthrough_local; [|reflexivity|apply (in_not_nil A0); exact local_cands_own].
    intros E. apply map_eq_nil in E. revert E. apply (in_not_nil A0). exact local_cands_own.
  - destruct (slot_cands (pm_local (pm p)) s) as [|a l] eqn:El.
    + rewrite fallthrough_peers; [|reflexivity|exact El|apply (in_not_nil P0); apply peer_cands_own; assumption].
      intros E. apply map_eq_nil in E. revert E. apply (in_not_nil P0). apply peer_cands_own; assumption.
    + rewrite fallthrough_local; [|reflexivity|rewrite El; discriminate]. rewrite El. discriminate.
Qed.

End Stable.

(* ---------- a migrating slot ---------- *)
Section Migrating.
Variable rl0 : rangelist.
Variable m0 : vmeta.
Hypothesis Hmig : sl0 = (rl0, VMigrating m0).

Let SRC := vm_src_proxy m0.
Let DST := vm_dst_proxy m0.
Let D1 := vm_dst_node m0.
Let phi := ph rl0 m0.

Lemma mig_facts : A0 = vm_src_node m0 /\ P0 = SRC /\ SRC <> DST /\
  exists n1, In n1 ns /\ vn_master n1 = true /\ In (rl0, VImporting m0) (vn_slots n1) /\ vn_addr n1 = D1 /\ vn_proxy n1 = DST.
Proof.
  destruct (mig_owner ns Hpo s n0 sl0 Hown rl0 m0 Hmig) as [Ha [Hp Hex]].
  split; [exact Ha|split; [exact Hp|split; [|exact Hex]]].
  apply (W4 n0 rl0 m0 Hn0). rewrite <- Hmig. exact Hsl0.
Qed.

Lemma phi_ok : phase_ok phi = true.
Proof.
  unfold phases_ok in Hph. rewrite forallb_forall in Hph. apply (Hph (rl0, m0)).
  unfold migrations. apply in_flat_map. exists n0. split; [exact Hn0|]. apply in_flat_map. exists sl0.
  split; [exact Hsl0|]. rewrite Hmig. left. reflexivity.
Qed.

Lemma in_rl0 : in_rangelist s rl0 = true.
Proof. pose proof Hin0 as H. rewrite Hmig in H. exact H. Qed.

Definition T0 := mkTask A0 rl0 true m0.
Definition T1 := mkTask D1 rl0 false m0.

Lemma T0_in : In T0 (local_tasks (pm SRC)).
Proof.
  destruct mig_facts as [_ [Hp _]]. apply (tasks_In ns Hwf). exists n0, rl0. split; [exact Hn0|split; [exact Hm0|split; [exact Hp|]]].
  left. exists m0. split; [rewrite <- Hmig; exact Hsl0|reflexivity].
Qed.

Lemma tasks_src t : In t (filter (fun t => in_rangelist s (t_ranges t)) (local_tasks (pm SRC))) -> t = T0.
Proof.
  intros H. destruct mig_facts as [_ [Hp [Hne _]]].
  destruct (task_cases SRC t H) as [rl [m [E0 [[_ ->]|[Hd _]]]]]; rewrite Hmig in E0; inversion E0; subst rl m; [reflexivity|].
  exfalso. apply Hne. exact Hd.
Qed.

Lemma tasks_dst t : In t (filter (fun t => in_rangelist s (t_ranges t)) (local_tasks (pm DST))) -> t = T1.
Proof.
  intros H. destruct mig_facts as [_ [Hp [Hne _]]].
  destruct (task_cases DST t H) as [rl [m [E0 [[Hd _]|[_ ->]]]]]; rewrite Hmig in E0; inversion E0; subst rl m; [|reflexivity].
  exfalso. apply Hne. rewrite <- Hp. symmetry. exact Hd.
Qed.

Lemma tasks_src_in : In T0 (filter (fun t => in_rangelist s (t_ranges t)) (local_tasks (pm SRC))).
Proof. apply filter_In. split; [exact T0_in|exact in_rl0]. Qed.

Lemma tasks_dst_in : In T1 (filter (fun t => in_rangelist s (t_ranges t)) (local_tasks (pm DST))).
Proof.
  destruct mig_facts as [_ [_ [_ [n1 [Hn1 [Hm1 [Hsl1 [Ha1 Hp1]]]]]]]].
  apply filter_In. split; [|exact in_rl0]. apply (tasks_In ns Hwf). exists n1, rl0.
  split; [exact Hn1|split; [exact Hm1|split; [exact Hp1|]]]. right. exists m0. split; [exact Hsl1|]. unfold T1. rewrite Ha1. reflexivity.
Qed.

Lemma tasks_other p : p <> SRC -> p <> DST -> filter (fun t => in_rangelist s (t_ranges t)) (local_tasks (pm p)) = [].
Proof.
  intros H1 H2. destruct mig_facts as [_ [Hp _]].
  destruct (filter (fun t => in_rangelist s (t_ranges t)) (local_tasks (pm p))) as [|t l] eqn:E; [reflexivity|].
  assert (H : In t (filter (fun t => in_rangelist s (t_ranges t)) (local_tasks (pm p)))) by (rewrite E; left; reflexivity).
  exfalso. destruct (task_cases p t H) as [rl [m [E0 [[Hd _]|[Hd _]]]]]; rewrite Hmig in E0; inversion E0; subst rl m.
  - apply H1. rewrite Hd. exact Hp.
  - apply H2. exact Hd.
Qed.

(* fall-through at the source proxy: only the source node covers the slot locally *)
Lemma src_fallthrough h o : In o (fallthrough ph (pm SRC) s h) -> o = queue_send (node_blocked ph (pm SRC) A0) h A0.
Proof.
  destruct mig_facts as [_ [Hp [Hne _]]].
  rewrite fallthrough_local; [|reflexivity|apply (in_not_nil A0); rewrite <- Hp; exact local_cands_own].
  intros H. apply in_map_iff in H. destruct H as [a [<- Ha]].
  destruct (local_cands_cases SRC a Ha) as [[_ ->]|[rl [m [E0 [Hd _]]]]]; [reflexivity|].
  rewrite Hmig in E0. inversion E0; subst rl m. exfalso. apply Hne. exact Hd.
Qed.

Lemma src_fallthrough_nonempty h : fallthrough ph (pm SRC) s h <> [].
Proof.
  destruct mig_facts as [_ [Hp _]].
  rewrite fallthrough_local; [|reflexivity|apply (in_not_nil A0); rewrite <- Hp; exact local_cands_own].
  intros E. apply map_eq_nil in E. revert E. apply (in_not_nil A0). rewrite <- Hp. exact local_cands_own.
Qed.

Lemma blk_blocks : mp_blk phi = true -> node_blocked ph (pm SRC) A0 = true.
Proof.
  intros Hb. destruct mig_facts as [Ha _]. unfold node_blocked. apply existsb_exists. exists T0. split; [exact T0_in|].
  unfold T0. cbn [t_out t_meta t_ranges]. fold phi. rewrite Hb, <- Ha, N.eqb_refl. reflexivity.
Qed.

(* the answers of the source proxy *)
Lemma src_step o : In o (route_step ph (pm SRC) s) ->
  if smoved phi then o = Moved DST
  else (o = Queued A0 /\ node_blocked ph (pm SRC) A0 = true) \/ (o = Exec A0 /\ dpc phi = true).
Proof.
  destruct mig_facts as [Ha _]. destruct (phase_ok_facts phi phi_ok) as [F1 F2].
  unfold pm. rewrite (route_step_eq ns Hwf s Hs). fold pm.
  intros H.
  assert (H' : In o (task_send ph (pm SRC) s T0)).
  { destruct (filter (fun t => in_rangelist s (t_ranges t)) (local_tasks (pm SRC))) as [|t l] eqn:E.
    - exfalso. pose proof tasks_src_in as Hx. rewrite E in Hx. destruct Hx.
    - apply (flat_map_all (t :: l) _ T0); [|exact H]. intros y Hy. apply tasks_src. rewrite E. exact Hy. }
  clear H. unfold task_send, T0 in H'. cbn [t_out t_ranges t_meta] in H'. fold phi in H'. rewrite <- Ha in H'.
  unfold smoved. destruct (mp_src phi) eqn:Esrc.
  - apply src_fallthrough in H'. subst o. unfold queue_send.
    destruct (node_blocked ph (pm SRC) A0) eqn:Eb; [left; auto|right]. split; [reflexivity|].
    destruct (dpc phi) eqn:Ed; [reflexivity|]. unfold smoved in F2. rewrite Esrc in F2. rewrite (blk_blocks (F2 eq_refl eq_refl)) in Eb. discriminate.
  - apply src_fallthrough in H'. subst o. unfold queue_send.
    destruct (node_blocked ph (pm SRC) A0) eqn:Eb; [left; auto|right]. split; [reflexivity|].
    destruct (dpc phi) eqn:Ed; [reflexivity|]. unfold smoved in F2. rewrite Esrc in F2. rewrite (blk_blocks (F2 eq_refl eq_refl)) in Eb. discriminate.
  - apply src_fallthrough in H'. subst o. unfold queue_send.
    destruct (node_blocked ph (pm SRC) A0) eqn:Eb; [left; auto|right]. split; [reflexivity|].
    destruct (dpc phi) eqn:Ed; [reflexivity|]. unfold smoved in F2. rewrite Esrc in F2. rewrite (blk_blocks (F2 eq_refl eq_refl)) in Eb. discriminate.
  - destruct H' as [<-|[]]. reflexivity.
  - destruct H' as [<-|[]]. reflexivity.
  - destruct H' as [<-|[]]. reflexivity.
Qed.

Lemma dst_step o : In o (route_step ph (pm DST) s) -> if dpc phi then o = Moved SRC else o = Exec D1.
Proof.
  unfold pm. rewrite (route_step_eq ns Hwf s Hs). fold pm.
  intros H.
  assert (H' : In o (task_send ph (pm DST) s T1)).
  { destruct (filter (fun t => in_rangelist s (t_ranges t)) (local_tasks (pm DST))) as [|t l] eqn:E.
    - exfalso. pose proof tasks_dst_in as Hx. rewrite E in Hx. destruct Hx.
    - apply (flat_map_all (t :: l) _ T1); [|exact H]. intros y Hy. apply tasks_dst. rewrite E. exact Hy. }
  clear H. unfold task_send, T1 in H'. cbn [t_out t_ranges t_meta] in H'. fold phi in H'.
  unfold dpc. destruct (mp_dst phi); destruct H' as [<-|[]]; reflexivity.
Qed.

Lemma other_step p o : In p (proxies_of ns) -> p <> SRC -> p <> DST -> In o (route_step ph (pm p) s) -> o = Moved SRC \/ o = Moved DST.
Proof.
  intros Hp H1 H2. destruct mig_facts as [_ [Hp0 _]].
  unfold pm. rewrite (route_step_eq ns Hwf s Hs). fold pm. rewrite (tasks_other p H1 H2).
  assert (Hpne : p <> P0) by (intros E; apply H1; rewrite E; exact Hp0).
  assert (El : slot_cands (pm_local (pm p)) s = []).
  { destruct (slot_cands (pm_local (pm p)) s) as [|a l] eqn:E; [reflexivity|]. exfalso.
    destruct (local_cands_cases p a) as [[Hp' _]|[rl [m [E0 [Hd _]]]]]; [rewrite E; left; reflexivity|exact (Hpne Hp')|].
    rewrite Hmig in E0. inversion E0; subst rl m. exact (H2 Hd). }
  rewrite fallthrough_peers; [|reflexivity|exact El|apply (in_not_nil P0); apply peer_cands_own; assumption].
  intros H. apply in_map_iff in H. destruct H as [q' [<- Hq']].
  destruct (peer_cands_cases p q' Hp Hq') as [_ [->|[rl [m [E0 ->]]]]]; [left; rewrite Hp0; reflexivity|].
  rewrite Hmig in E0. inversion E0; subst rl m. right. reflexivity.
Qed.

Lemma mig_nonempty p : In p (proxies_of ns) -> route_step ph (pm p) s <> [].
Proof.
  intros Hp. destruct mig_facts as [_ [Hp0 _]].
  unfold pm. rewrite (route_step_eq ns Hwf s Hs). fold pm.
  destruct (N.eq_dec p SRC) as [->|H1]; [|destruct (N.eq_dec p DST) as [->|H2]].
  - destruct (filter (fun t => in_rangelist s (t_ranges t)) (local_tasks (pm SRC))) as [|t l] eqn:E.
    + exfalso. pose proof tasks_src_in as Hx. rewrite E in Hx. destruct Hx.
    + assert (Et : t = T0) by (apply tasks_src; rewrite E; left; reflexivity). subst t.
      cbn [flat_map]. intros E2. apply app_eq_nil in E2. destruct E2 as [E2 _].
      unfold task_send, T0 in E2. cbn [t_out t_ranges t_meta] in E2.
      destruct (mp_src (ph rl0 m0)); try discriminate; eapply src_fallthrough_nonempty; exact E2.
  - destruct (filter (fun t => in_rangelist s (t_ranges t)) (local_tasks (pm DST))) as [|t l] eqn:E.
    + exfalso. pose proof tasks_dst_in as Hx. rewrite E in Hx. destruct Hx.
    + assert (Et : t = T1) by (apply tasks_dst; rewrite E; left; reflexivity). subst t.
      cbn [flat_map]. intros E2. apply app_eq_nil in E2. destruct E2 as [E2 _].
      unfold task_send, T1 in E2. cbn [t_out t_ranges t_meta] in E2. destruct (mp_dst (ph rl0 m0)); discriminate.
  - rewrite (tasks_other p H1 H2). assert (Hpne : p <> P0) by (intros E; apply H1; rewrite E; exact Hp0).
    destruct (slot_cands (pm_local (pm p)) s) as [|a l] eqn:El.
    + rewrite fallthrough_peers; [|reflexivity|exact El|apply (in_not_nil P0); apply peer_cands_own; assumption].
      intros E. apply map_eq_nil in E. revert E. apply (in_not_nil P0). apply peer_cands_own; assumption.
    + rewrite fallthrough_local; [|reflexivity|rewrite El; discriminate]. rewrite El. discriminate.
Qed.

End Migrating.

(* ---------- rank: how many MOVED answers can still follow from proxy p ---------- *)
Definition rank (p : N) : nat :=
  match snd sl0 with
  | VMigrating m =>
    let f := ph (fst sl0) m in
    if N.eqb p (vm_src_proxy m) then (if smoved f then 1 else 0)
    else if N.eqb p (vm_dst_proxy m) then (if dpc f then 1 else 0)
    else 2
  | _ => if N.eqb p P0 then 0 else 1
  end%nat.

Definition good (p : N) (o : outcome) : Prop :=
  match o with
  | Moved q => In q (proxies_of ns) /\ (rank q < rank p)%nat
  | Exec n => designated ph ns s = Some n
  | Queued n => node_blocked ph (pm p) n = true /\ In n (allowed_nodes ns s)
  | Err _ => False
  end.

Lemma designated_eq : designated ph ns s = Some (designated_of ph (n0, sl0)).
Proof. unfold designated. rewrite Hown. reflexivity. Qed.

Lemma A0_allowed : In A0 (allowed_nodes ns s).
Proof. unfold allowed_nodes. rewrite Hown. cbn [flat_map snd fst]. destruct (snd sl0); rewrite app_nil_r; left; reflexivity. Qed.

Lemma rank_bound p : (rank p <= if migrating_slot ns s then 2 else 1)%nat.
Proof.
  unfold rank, migrating_slot. rewrite Hown. cbn [existsb snd]. destruct (snd sl0) as [|m|m]; cbn [orb].
  - destruct (N.eqb p P0); lia.
  - destruct (N.eqb p (vm_src_proxy m)); [destruct (smoved _); lia|]. destruct (N.eqb p (vm_dst_proxy m)); [destruct (dpc _); lia|lia].
  - destruct (N.eqb p P0); lia.
Qed.

Lemma step_good p o : In p (proxies_of ns) -> In o (route_step ph (pm p) s) -> good p o.
Proof.
  intros Hp Ho. pose proof (surjective_pairing sl0) as Esl. destruct (snd sl0) as [|m0|m0] eqn:Et.
  - (* stable *)
    assert (Hst : forall rl m, sl0 <> (rl, VMigrating m)) by (intros rl m E; rewrite E in Et; discriminate).
    destruct (N.eq_dec p P0) as [->|Hne].
    + apply (stable_step_own Hst) in Ho. subst o. unfold queue_send.
      destruct (node_blocked ph (pm P0) A0) eqn:Eb; unfold good.
      * split; [exact Eb|exact A0_allowed].
      * rewrite designated_eq. unfold designated_of. cbn [snd fst]. rewrite Et. reflexivity.
    + apply (stable_step_other Hst p o Hp Hne) in Ho. subst o. unfold good. split; [exact P0_in|].
      unfold rank. rewrite Et. rewrite N.eqb_refl. apply N.eqb_neq in Hne. rewrite Hne. lia.
  - (* migrating *)
    set (rl0 := fst sl0) in *.
    assert (Hmig : sl0 = (rl0, VMigrating m0)) by exact Esl.
    destruct (mig_facts rl0 m0 Hmig) as [Ha [Hp0 [Hne [n1 [Hn1 [Hm1 [Hsl1 [Ha1 Hp1]]]]]]]].
    destruct (phase_ok_facts _ (phi_ok rl0 m0 Hmig)) as [F1 F2].
    assert (Hsrc_in : In (vm_src_proxy m0) (proxies_of ns)) by (rewrite <- Hp0; exact P0_in).
    assert (Hdst_in : In (vm_dst_proxy m0) (proxies_of ns)) by (rewrite <- Hp1; unfold proxies_of; apply in_map; exact Hn1).
    assert (Rsrc : rank (vm_src_proxy m0) = if smoved (ph rl0 m0) then 1%nat else 0%nat).
    { unfold rank. rewrite Et. fold rl0. rewrite N.eqb_refl. reflexivity. }
    assert (Rdst : rank (vm_dst_proxy m0) = if dpc (ph rl0 m0) then 1%nat else 0%nat).
    { unfold rank. rewrite Et. fold rl0.
      assert (E : N.eqb (vm_dst_proxy m0) (vm_src_proxy m0) = false) by (apply N.eqb_neq; intros E; apply Hne; symmetry; exact E).
      rewrite E, N.eqb_refl. reflexivity. }
    destruct (N.eq_dec p (vm_src_proxy m0)) as [->|H1]; [|destruct (N.eq_dec p (vm_dst_proxy m0)) as [->|H2]].
    + apply (src_step rl0 m0 Hmig) in Ho. destruct (smoved (ph rl0 m0)) eqn:Esm.
      * subst o. unfold good. split; [exact Hdst_in|]. rewrite Rsrc, Rdst, ?Esm, (F1 eq_refl). lia.
      * destruct Ho as [[-> Hb]|[-> Hd]]; unfold good.
        -- split; [exact Hb|exact A0_allowed].
        -- rewrite designated_eq. unfold designated_of. cbn [snd fst]. rewrite Et. fold rl0. unfold dpc in Hd.
           destruct (mp_dst (ph rl0 m0)); try discriminate. rewrite <- Ha. reflexivity.
    + apply (dst_step rl0 m0 Hmig) in Ho. destruct (dpc (ph rl0 m0)) eqn:Ed.
      * subst o. unfold good. split; [exact Hsrc_in|]. rewrite Rsrc, Rdst, ?Ed.
        destruct (smoved (ph rl0 m0)) eqn:Esm; [specialize (F1 eq_refl); discriminate|lia].
      * subst o. unfold good. rewrite designated_eq. unfold designated_of. cbn [snd fst]. rewrite Et. fold rl0. unfold dpc in Ed.
        destruct (mp_dst (ph rl0 m0)); try discriminate; reflexivity.
    + apply (other_step rl0 m0 Hmig p o Hp H1 H2) in Ho.
      assert (Rp : rank p = 2%nat).
      { unfold rank. rewrite Et. apply N.eqb_neq in H1, H2. rewrite H1, H2. reflexivity. }
      destruct Ho as [->| ->]; unfold good; (split; [assumption|]); rewrite Rp, ?Rsrc, ?Rdst.
      * destruct (smoved _); lia.
      * destruct (dpc _); lia.
  - (* the owner entry is never an importing one *)
    exfalso. pose proof Hi0 as H. unfold is_imp in H. rewrite Et in H. discriminate.
Qed.

Lemma step_nonempty p : In p (proxies_of ns) -> route_step ph (pm p) s <> [].
Proof.
  intros Hp. pose proof (surjective_pairing sl0) as Esl. destruct (snd sl0) as [|m0|m0] eqn:Et.
  - apply stable_nonempty; [|exact Hp]. intros rl m E. rewrite E in Et. discriminate.
  - apply (mig_nonempty (fst sl0) m0 Esl p Hp).
  - apply stable_nonempty; [|exact Hp]. intros rl m E. rewrite E in Et. discriminate.
Qed.

Lemma exec_allowed n : designated ph ns s = Some n -> In n (allowed_nodes ns s).
Proof.
  rewrite designated_eq. intros E. inversion E; subst n. unfold allowed_nodes. rewrite Hown. cbn [flat_map]. rewrite app_nil_r.
  unfold designated_of. cbn [snd fst]. destruct (snd sl0) as [|m|m]; [left; reflexivity| |left; reflexivity].
  destruct (mp_dst (ph (fst sl0) m)); cbn [In]; auto.
Qed.

(* ---------- paths ---------- *)
Lemma path_good start tr : In start (proxies_of ns) -> path ph pm s start tr ->
  (redirections tr <= rank start)%nat
  /\ (forall st, In st tr -> In (fst st) (proxies_of ns) /\ good (fst st) (snd st))
  /\ (exists p o, last_step tr = Some (p, o) /\ In p (proxies_of ns) /\ good p o
                  /\ (is_moved o = true -> redirections tr <= rank start - 0)%nat).
Proof.
  intros Hstart Hpath. induction Hpath as [p o Ho|p q tr Hmv Hpath IH].
  - pose proof (step_good p o Hstart Ho) as Hg. split; [|split].
    + unfold redirections. cbn [filter snd]. destruct o; cbn [is_moved length]; try lia.
      unfold good in Hg. lia.
    + intros st [<-|[]]. cbn [fst snd]. auto.
    + exists p, o. split; [reflexivity|split; [exact Hstart|split; [exact Hg|]]]. intros _.
      unfold redirections. cbn [filter snd]. destruct o; cbn [is_moved length]; try lia. unfold good in Hg. lia.
  - pose proof (step_good p (Moved q) Hstart Hmv) as Hg. unfold good in Hg. destruct Hg as [Hq Hlt].
    destruct (IH Hq) as [IH1 [IH2 [p' [o' [El [Hp' [Hg' Hm']]]]]]].
    split; [|split].
    + unfold redirections in *. cbn [filter snd is_moved length]. lia.
    + intros st [<-|Hst]; [cbn [fst snd]; split; [exact Hstart|unfold good; auto]|apply IH2; exact Hst].
    + exists p', o'. split; [rewrite last_step_cons; [exact El|eapply path_nonempty; exact Hpath]|].
      split; [exact Hp'|split; [exact Hg'|]]. intros _. unfold redirections in *. cbn [filter snd is_moved length]. lia.
Qed.

End Main.

(* ---------- the theorems ---------- *)
Theorem route_progress : forall ns ph s p,
  partition_ok ns -> view_wfb ns = true -> s < SLOT_NUM -> In p (proxies_of ns) ->
  route_step ph (install_ns ns p) s <> [].
Proof.
  intros ns ph s p Hpo Hwf Hs Hp. destruct (owner_unique ns s Hpo Hs) as [[n0 sl0] Hown].
  exact (step_nonempty ns Hpo Hwf ph s Hs n0 sl0 Hown p Hp).
Qed.

Theorem route_correct : forall ns ph s start tr,
  partition_ok ns -> view_wfb ns = true -> phases_ok ph ns = true -> s < SLOT_NUM -> In start (proxies_of ns) ->
  path ph (install_ns ns) s start tr ->
  (redirections tr <= if migrating_slot ns s then 2 else 1)%nat
  /\ exists p o, last_step tr = Some (p, o) /\ In p (proxies_of ns) /\
       match o with
       | Exec n => designated ph ns s = Some n
       | Queued n => node_blocked ph (install_ns ns p) n = true /\ In n (allowed_nodes ns s)
       | Moved q => In q (proxies_of ns) /\ route_step ph (install_ns ns q) s <> []    (* still in flight: it can be continued *)
       | Err _ => False
       end.
Proof.
  intros ns ph s start tr Hpo Hwf Hph Hs Hstart Hpath.
  destruct (owner_unique ns s Hpo Hs) as [[n0 sl0] Hown].
  destruct (path_good ns Hpo Hwf ph Hph s Hs n0 sl0 Hown start tr Hstart Hpath) as [H1 [_ [p [o [El [Hp [Hg _]]]]]]].
  split.
  - pose proof (rank_bound ns Hwf ph Hph s Hs n0 sl0 Hown start). lia.
  - exists p, o. split; [exact El|split; [exact Hp|]]. destruct o; unfold good in Hg; try exact Hg.
    destruct Hg as [Hq _]. split; [exact Hq|]. apply route_progress; assumption.
Qed.

Theorem route_no_stray : forall ns ph s start tr,
  partition_ok ns -> view_wfb ns = true -> phases_ok ph ns = true -> s < SLOT_NUM -> In start (proxies_of ns) ->
  path ph (install_ns ns) s start tr ->
  forall p o, In (p, o) tr ->
    match o with
    | Exec n | Queued n => In n (allowed_nodes ns s)
    | Moved q => In q (proxies_of ns)
    | Err _ => False
    end.
Proof.
  intros ns ph s start tr Hpo Hwf Hph Hs Hstart Hpath p o Hin.
  destruct (owner_unique ns s Hpo Hs) as [[n0 sl0] Hown].
  destruct (path_good ns Hpo Hwf ph Hph s Hs n0 sl0 Hown start tr Hstart Hpath) as [_ [H2 _]].
  destruct (H2 (p, o) Hin) as [_ Hg]. cbn [fst snd] in Hg. destruct o; unfold good in Hg.
  - eapply exec_allowed; eauto.
  - tauto.
  - tauto.
  - exact Hg.
Qed.
