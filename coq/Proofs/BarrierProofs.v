(* C11, part 2: the per-thread model Model/Barrier.v simulates into the counter abstraction
   (counting the program points of a per-thread state commutes with step), so the abstract invariant holds in
   every reachable per-thread state; the log invariants (every enqueued task is in exactly one of: queue, hands
   of a releasing thread, re-dispatch log); the three C11 theorems about runs of the extracted model. *)
From UM Require Import Base.BytesDef Model.Barrier Proofs.BarrierProofsAbs.
From Coq Require Import Permutation ZifyBool.
Local Open Scope Z_scope.

(* ---------- small list facts about the model's own list functions ---------- *)
Lemma pclass_eqb_eq : forall a b, pclass_eqb a b = true <-> a = b.
Proof. intros a b; split; [destruct a, b; cbn; congruence | intros ->; destruct b; reflexivity]. Qed.

Lemma ind_refl : forall x, ind x x = 1.
Proof. intro x. unfold ind. destruct (pclass_eqb x x) eqn:E; [reflexivity|]. assert (x = x) by reflexivity.
  apply pclass_eqb_eq in H. congruence. Qed.

Lemma ind_neq : forall x y, x <> y -> ind x y = 0.
Proof. intros x y H. unfold ind. destruct (pclass_eqb x y) eqn:E; [|reflexivity]. apply pclass_eqb_eq in E. contradiction. Qed.

Lemma ind_range : forall x y, 0 <= ind x y <= 1.
Proof. intros. unfold ind. destruct (pclass_eqb x y); lia. Qed.

Lemma cnt_nonneg : forall x l, 0 <= cnt x l.
Proof. induction l as [|p r IH]; cbn [cnt]; [lia|]. pose proof (ind_range x (cls p)). lia. Qed.

Lemma cnt_app : forall x a b, cnt x (a ++ b) = cnt x a + cnt x b.
Proof. induction a as [|p r IH]; intros b; cbn [cnt app]; [lia|]. rewrite IH. lia. Qed.

Lemma cnt_upd : forall x ths tid p p', nth_opt ths tid = Some p ->
  cnt x (upd ths tid p') = cnt x ths - ind x (cls p) + ind x (cls p').
Proof.
  induction ths as [|y r IH]; intros tid p p' H; destruct tid; cbn [nth_opt] in H; try discriminate.
  - inversion H; subst. cbn [upd cnt]. lia.
  - cbn [upd cnt]. rewrite (IH _ _ _ H). lia.
Qed.

Lemma cnt_ge1 : forall ths tid p, nth_opt ths tid = Some p -> 1 <= cnt (cls p) ths.
Proof.
  induction ths as [|y r IH]; intros tid p H; destruct tid; cbn [nth_opt] in H; try discriminate.
  - inversion H; subst. cbn [cnt]. rewrite ind_refl. pose proof (cnt_nonneg (cls p) r). lia.
  - cbn [cnt]. pose proof (IH _ _ H). pose proof (ind_range (cls p) (cls y)). lia.
Qed.

Lemma cnt_pos_exists : forall x ths, 0 < cnt x ths -> exists tid p, nth_opt ths tid = Some p /\ cls p = x.
Proof.
  induction ths as [|y r IH]; cbn [cnt]; intro H; [lia|].
  unfold ind in H. destruct (pclass_eqb x (cls y)) eqn:E.
  - apply pclass_eqb_eq in E. exists O, y. split; [reflexivity|congruence].
  - destruct IH as (tid & p & Hn & Hc); [lia|]. exists (S tid), p. split; assumption.
Qed.

Lemma upd_same : forall (A : Type) (l : list A) i x, nth_opt l i = Some x -> upd l i x = l.
Proof.
  induction l as [|y r IH]; intros i x H; destruct i; cbn [nth_opt] in H; try discriminate; cbn [upd].
  - congruence.
  - f_equal. apply IH. exact H.
Qed.

Lemma nth_opt_upd_eq : forall (A : Type) (l : list A) i x y, nth_opt l i = Some x -> nth_opt (upd l i y) i = Some y.
Proof.
  induction l as [|z r IH]; intros i x y H; destruct i; cbn [nth_opt] in H; try discriminate; cbn [upd nth_opt].
  - reflexivity.
  - eapply IH; eauto.
Qed.

Lemma nth_opt_upd_neq : forall (A : Type) (l : list A) i j y, i <> j -> nth_opt (upd l i y) j = nth_opt l j.
Proof.
  induction l as [|z r IH]; intros i j y H; destruct i, j; cbn [upd nth_opt]; try reflexivity; try congruence.
  apply IH. congruence.
Qed.

Lemma nth_opt_app_some : forall (A : Type) (l m : list A) i x, nth_opt l i = Some x -> nth_opt (l ++ m) i = Some x.
Proof.
  induction l as [|z r IH]; intros m i x H; destruct i; cbn [nth_opt] in H; try discriminate; cbn [app nth_opt].
  - exact H.
  - apply IH. exact H.
Qed.

Lemma allb_forall : forall (A : Type) (f : A -> bool) l i x, allb f l = true -> nth_opt l i = Some x -> f x = true.
Proof.
  induction l as [|z r IH]; intros i x Ha H; destruct i; cbn [nth_opt] in H; try discriminate; cbn [allb] in Ha;
    apply andb_prop in Ha; destruct Ha as [Hz Hr].
  - congruence.
  - eapply IH; eauto.
Qed.

(* ---------- simulation: one thread action is one abstract rule ---------- *)
Definition alab (e : event) : alabel :=
  match e with
  | EvHandoff _ _ => AL_handoff
  | EvDoneLoad true => AL_done
  | EvPanic PSubOverflow => AL_panic_sub
  | EvEnqueueFailed => AL_enq_failed
  | _ => AL_other
  end.

Lemma arule_eq : forall a c l a' a'' c' b, arule a c l a' c' b -> a' = a'' -> arule a c l a'' c' b.
Proof. intros; subst; assumption. Qed.

Ltac destruct_ifs H :=
  repeat match type of H with
         | context [if ?c then _ else _] => destruct c eqn:?
         end.

Ltac inv_ts H := inversion H; subst; clear H.

Lemma thread_step_arule : forall sh tid p sh' p' sp ev,
  thread_step sh tid p = (sh', p', sp, ev) ->
  is_finished p = false ->
  (cls p = C_bdc -> 1 <= Z.of_N (sh_count sh)) ->
  exists b, arule (abs_sh sh) (cls p) (alab ev) (abs_sh sh') (cls p') b /\
            (forall x, cnt x sp = if b then ind x C_inf else 0).
Proof.
  intros [c t r q rx hd rd en sl] tid p sh' p' sp ev H Hf Hc.
  destruct p; cbn [thread_step sh_count sh_term sh_running sh_queue sh_rx_alive sh_hand sh_redisp sh_enq sh_sealed
                   set_running set_state set_queue push_enq push_hand push_redisp set_sealed] in H;
    cbn [is_finished] in Hf; try discriminate.
  - (* S_ref_inc *) inv_ts H. exists false. split; [apply AR_ref_inc | intro; cbn; lia].
  - (* S_load1 *)
    destruct_ifs H; inv_ts H; exists false; (split; [| intro; cbn; lia]); unfold abs_sh; cbn.
    + apply AR_load1_blocked. lia.
    + apply AR_load1_retry. lia.
    + apply AR_load1_fwd. lia.
  - (* S_task_inc *) inv_ts H. exists false. split; [apply AR_task_inc | intro; cbn; lia].
  - (* S_retry_dec *) inv_ts H. exists false. split; [apply AR_retry_dec | intro; cbn; lia].
  - (* S_handoff *)
    destruct ir; inv_ts H.
    + exists true. split; [apply AR_handoff_ok | intro; cbn; lia].
    + exists false. split; [apply AR_handoff_err | intro; cbn; lia].
    + exists false. split; [apply AR_handoff_err | intro; cbn; lia].
  - (* S_ok_dec *) inv_ts H. exists false. split; [apply AR_ok_dec | intro; cbn; lia].
  - (* S_err_task_dec *) inv_ts H. exists false. split; [apply AR_err_task_dec | intro; cbn; lia].
  - (* S_err_dec *) inv_ts H. exists false. split; [apply AR_err_dec | intro; cbn; lia].
  - (* S_blocked_dec *) inv_ts H. exists false. split; [apply AR_blocked_dec | intro; cbn; lia].
  - (* S_enqueue *)
    destruct rx; inv_ts H; exists false; (split; [| intro; cbn; lia]); unfold abs_sh; cbn.
    + eapply arule_eq; [apply AR_enqueue|]. f_equal; rewrite ?app_length; cbn [length]; lia.
    + apply AR_enqueue_fail.
  - (* S_load2 *)
    destruct_ifs H; inv_ts H; exists false; (split; [| intro; cbn; lia]); unfold abs_sh; cbn.
    + apply AR_load2_blocked. lia.
    + apply AR_load2_release. lia.
  - (* R_recv *)
    destruct q as [|task q]; inv_ts H; exists false; (split; [| intro; cbn; lia]); unfold abs_sh; cbn.
    + apply AR_recv_empty. reflexivity.
    + eapply arule_eq; [apply AR_recv_some; lia|]. f_equal; lia.
  - (* R_redispatch *)
    inv_ts H. exists false. (split; [| intro; cbn; lia]); unfold abs_sh; cbn.
    eapply arule_eq; [apply AR_redispatch|]. f_equal; lia.
  - (* B_start_load *)
    destruct_ifs H; inv_ts H; exists false; (split; [| intro; cbn; lia]); unfold abs_sh; cbn.
    + apply AR_start_panic.
    + apply AR_start_load.
  - (* B_start_cas *)
    destruct_ifs H; inv_ts H; exists false; (split; [| intro; cbn; lia]); unfold abs_sh; cbn.
    + assert (c = c0) by lia. subst c0.
      destruct polls; cbn [after_start cls].
      * eapply arule_eq; [apply AR_start_cas_ok_drop|]. f_equal; lia.
      * eapply arule_eq; [apply AR_start_cas_ok_poll|]. f_equal; lia.
    + apply AR_start_cas_fail.
  - (* B_poll *)
    destruct_ifs H; inv_ts H; exists false; (split; [| intro; cbn; lia]); unfold abs_sh; cbn.
    + apply AR_poll_true. lia.
    + destruct n as [|[|m]]; cbn [after_failed_poll cls].
      * apply AR_poll_false_giveup. lia.
      * apply AR_poll_false_giveup. lia.
      * apply AR_poll_false_again. lia.
  - (* B_drop_load *)
    destruct_ifs H; inv_ts H; exists false; (split; [| intro; cbn; lia]); unfold abs_sh; cbn.
    + apply AR_drop_panic_sub. lia.
    + apply AR_drop_panic_add.
    + apply AR_drop_load.
  - (* B_drop_cas *)
    specialize (Hc eq_refl). cbn [sh_count] in Hc.
    destruct_ifs H; inv_ts H; exists false; (split; [| intro; cbn; lia]); unfold abs_sh; cbn;
      try (assert (c = c0) by lia; subst c0).
    + eapply arule_eq; [apply AR_drop_cas_ok_last; lia|]. f_equal; lia.
    + exfalso; lia.
    + exfalso; lia.
    + eapply arule_eq; [apply AR_drop_cas_ok_more; lia|]. f_equal; lia.
    + apply AR_drop_cas_fail.
  - (* I_run *) inv_ts H. exists false. split; [apply AR_inflight_done | intro; cbn; lia].
Qed.

(* the simulation lemma: counting program points commutes with step *)
Lemma step_sim : forall st tid st' ev,
  AInv (abs st) -> step st tid = (st', ev) ->
  (ev = EvSkip /\ st' = st) \/ astep (abs st) (alab ev) (abs st').
Proof.
  intros [sh ths] tid st' ev HI H. unfold step in H. cbn [st_threads st_sh] in H.
  destruct (nth_opt ths tid) as [p|] eqn:E.
  2:{ inversion H; subst. left; split; reflexivity. }
  destruct (is_finished p) eqn:F.
  - left. destruct p; cbn [is_finished] in F; try discriminate; cbn [thread_step] in H; inversion H; subst;
      (split; [reflexivity|]); rewrite app_nil_r; erewrite upd_same by eassumption; reflexivity.
  - right. destruct (thread_step sh tid p) as [[[sh' p'] sp] ev'] eqn:TS. inversion H; subst; clear H.
    destruct (thread_step_arule _ _ _ _ _ _ _ TS F) as (b & Hr & Hsp).
    + intro Hcl. destruct HI as (Hnn & _ & Hcount & _). cbn [abs a_sh a_cnt abs_sh a_count st_sh st_threads] in *.
      pose proof (cnt_ge1 _ _ _ E) as G. rewrite Hcl in G.
      pose proof (Hnn C_b1). pose proof (Hnn C_bd). pose proof (Hnn C_bp). lia.
    + exists (cls p), (cls p'), b. cbn [abs a_sh a_cnt st_sh st_threads]. split; [eapply cnt_ge1; eauto|]. split; [exact Hr|].
      intro x. rewrite cnt_app, (cnt_upd _ _ _ _ _ E), Hsp. reflexivity.
Qed.

(* ---------- reachable states ---------- *)
Inductive reachable : state -> Prop :=
| reach_init : forall st, initial st -> reachable st
| reach_step : forall st tid, reachable st -> reachable (fst (step st tid)).

Lemma init_cnt : forall ths, allb is_initial_pc ths = true ->
  (forall x, x <> C_s0 -> x <> C_b0 -> x <> C_rr -> x <> C_inf -> cnt x ths = 0) /\
  cnt C_inf ths = Z.of_nat (countb is_inflight ths).
Proof.
  induction ths as [|p r IH]; cbn [allb cnt countb]; intro H; [split; [reflexivity|reflexivity]|].
  apply andb_prop in H. destruct H as [Hp Hr]. destruct (IH Hr) as [IH1 IH2]. clear IH.
  split.
  - intros x H0 H1 H2 H3. rewrite (IH1 x) by assumption.
    destruct p; cbn [is_initial_pc] in Hp; try discriminate; cbn [cls]; rewrite ind_neq by assumption; reflexivity.
  - rewrite IH2. destruct p; cbn [is_initial_pc] in Hp; try discriminate; cbn [cls is_inflight];
      unfold ind; cbn [pclass_eqb]; lia.
Qed.

Lemma init_AInv : forall st, initial st -> AInv (abs st).
Proof.
  intros st (term0 & ths & Hall & ->). destruct (init_cnt _ Hall) as [Hz Hinf].
  unfold AInv, abs, init_state, abs_sh.
  cbn [a_sh a_cnt st_sh st_threads a_running a_count a_sealed a_queue a_enq a_redisp a_rx
       sh_count sh_term sh_running sh_queue sh_rx_alive sh_hand sh_redisp sh_enq sh_sealed length].
  repeat match goal with |- context [cnt ?c ths] => rewrite (Hz c) by discriminate end. rewrite Hinf.
  repeat split; try (intros; try discriminate; lia). intro x; apply cnt_nonneg.
Qed.

Lemma reachable_AInv : forall st, reachable st -> AInv (abs st).
Proof.
  induction 1 as [st Hi | st tid Hr IH].
  - apply init_AInv; assumption.
  - destruct (step st tid) as [st' ev] eqn:E. cbn [fst].
    destruct (step_sim _ _ _ _ IH E) as [[_ ->] | Ha]; [assumption|].
    eapply AInv_preserved; eauto.
Qed.

(* ---------- log invariants on the per-thread model ---------- *)
Definition held1 (p : pc) : list nat := match p with R_redispatch t => [t] | _ => [] end.

Lemma held_cons : forall p r, held (p :: r) = held1 p ++ held r.
Proof. intros p r; destruct p; reflexivity. Qed.

Lemma held_app : forall a b, held (a ++ b) = held a ++ held b.
Proof.
  induction a as [|p r IH]; intro b; [reflexivity|].
  change ((p :: r) ++ b) with (p :: (r ++ b)). rewrite !held_cons, IH, app_assoc. reflexivity.
Qed.

Lemma held_upd : forall ths tid p p', nth_opt ths tid = Some p ->
  Permutation (held1 p ++ held (upd ths tid p')) (held1 p' ++ held ths).
Proof.
  induction ths as [|y r IH]; intros tid p p' H; destruct tid; cbn [nth_opt] in H; try discriminate; cbn [upd].
  - inversion H; subst. rewrite !held_cons. apply Permutation_app_swap_app.
  - rewrite !held_cons.
    eapply Permutation_trans; [apply Permutation_app_swap_app|].
    eapply Permutation_trans; [|apply Permutation_app_swap_app].
    apply Permutation_app_head. eapply IH; eauto.
Qed.

Definition LInv (st : state) : Prop :=
  Permutation (sh_enq (st_sh st)) (sh_queue (st_sh st) ++ held (st_threads st) ++ sh_redisp (st_sh st)) /\
  (forall t, In t (sh_enq (st_sh st)) -> exists p, nth_opt (st_threads st) t = Some p /\ past_enqueue p = true) /\
  NoDup (sh_enq (st_sh st)).

Lemma past_mono : forall ths tid p p' sp,
  nth_opt ths tid = Some p -> (past_enqueue p = true -> past_enqueue p' = true) ->
  forall t p0, nth_opt ths t = Some p0 -> past_enqueue p0 = true ->
  exists p1, nth_opt (upd ths tid p' ++ sp) t = Some p1 /\ past_enqueue p1 = true.
Proof.
  intros ths tid p p' sp E Hm t p0 Ht Hp.
  destruct (Nat.eq_dec tid t) as [->|Hne].
  - exists p'. split; [apply nth_opt_app_some; eapply nth_opt_upd_eq; eauto|]. apply Hm. congruence.
  - exists p0. split; [|assumption]. apply nth_opt_app_some. rewrite nth_opt_upd_neq by assumption. assumption.
Qed.

(* a step that touches neither the enqueue log, the queue nor the re-dispatch log *)
Lemma LInv_boring : forall sh sh' ths tid p p' sp,
  LInv (mkState sh ths) -> nth_opt ths tid = Some p ->
  sh_enq sh' = sh_enq sh -> sh_queue sh' = sh_queue sh -> sh_redisp sh' = sh_redisp sh ->
  held1 p = [] -> held1 p' = [] -> held sp = [] ->
  (past_enqueue p = true -> past_enqueue p' = true) ->
  LInv (mkState sh' (upd ths tid p' ++ sp)).
Proof.
  intros sh sh' ths tid p p' sp (HP & HL & HN) E He Hq Hr H1 H1' Hsp Hm.
  unfold LInv in *. cbn [st_sh st_threads] in *. rewrite He, Hq, Hr.
  pose proof (held_upd _ _ _ p' E) as HH. rewrite H1, H1' in HH. cbn [app] in HH.
  split; [|split].
  - rewrite held_app, Hsp, app_nil_r.
    eapply Permutation_trans; [exact HP|]. apply Permutation_app_head. apply Permutation_app_tail.
    apply Permutation_sym. exact HH.
  - intros t Ht. destruct (HL t Ht) as (p0 & Hp0 & Hpast). eapply past_mono; eauto.
  - exact HN.
Qed.

Lemma LInv_thread_step : forall sh ths tid p sh' p' sp ev,
  LInv (mkState sh ths) -> nth_opt ths tid = Some p ->
  thread_step sh tid p = (sh', p', sp, ev) ->
  LInv (mkState sh' (upd ths tid p' ++ sp)).
Proof.
  intros sh ths tid p sh' p' sp ev HI E H.
  destruct p; cbn [thread_step] in H;
    try (destruct ir);
    try (match type of H with context [match sh_queue sh with _ => _ end] => destruct (sh_queue sh) as [|task q] eqn:Q end);
    destruct_ifs H; inv_ts H;
    try (eapply LInv_boring; eauto; try reflexivity; cbn; intros; try discriminate; auto; fail).
  - (* S_enqueue, receiver alive *)
    destruct HI as (HP & HL & HN). unfold LInv in *. cbn [st_sh st_threads push_enq sh_enq sh_queue sh_redisp] in *.
    pose proof (held_upd _ _ _ S_load2 E) as HH. cbn [held1 app] in HH.
    rewrite app_nil_r.
    split; [|split].
    + rewrite <- app_assoc. cbn [app]. apply Permutation_cons_app.
      eapply Permutation_trans; [exact HP|]. apply Permutation_app_head. apply Permutation_app_tail.
      apply Permutation_sym. exact HH.
    + intros t [<-|Ht].
      * exists S_load2. split; [eapply nth_opt_upd_eq; eauto | reflexivity].
      * destruct (HL t Ht) as (p0 & Hp0 & Hpast).
        destruct (past_mono ths tid S_enqueue S_load2 [] E (fun _ => eq_refl) t p0 Hp0 Hpast) as (p1 & Hp1 & Hpast1).
        rewrite app_nil_r in Hp1. eauto.
    + constructor; [|exact HN]. intro Hin. destruct (HL _ Hin) as (p0 & Hp0 & Hpast).
      rewrite E in Hp0. inversion Hp0; subst. discriminate.
  - (* R_recv, a task received *)
    destruct HI as (HP & HL & HN). unfold LInv in *. cbn [st_sh st_threads set_queue sh_enq sh_queue sh_redisp] in *.
    rewrite Q in HP.
    pose proof (held_upd _ _ _ (R_redispatch task) E) as HH. cbn [held1 app] in HH.
    rewrite app_nil_r.
    split; [|split].
    + eapply Permutation_trans; [exact HP|]. cbn [app].
      eapply Permutation_trans; [apply Permutation_middle|].
      apply Permutation_app_head. change (task :: held ths ++ sh_redisp sh) with ((task :: held ths) ++ sh_redisp sh).
      apply Permutation_app_tail. apply Permutation_sym. exact HH.
    + intros t Ht. destruct (HL t Ht) as (p0 & Hp0 & Hpast).
      destruct (past_mono ths tid R_recv (R_redispatch task) [] E (fun _ => eq_refl) t p0 Hp0 Hpast) as (p1 & Hp1 & Hpast1).
      rewrite app_nil_r in Hp1. eauto.
    + exact HN.
  - (* R_redispatch *)
    destruct HI as (HP & HL & HN). unfold LInv in *. cbn [st_sh st_threads push_redisp sh_enq sh_queue sh_redisp] in *.
    pose proof (held_upd _ _ _ R_recv E) as HH. cbn [held1 app] in HH.
    rewrite app_nil_r.
    split; [|split].
    + eapply Permutation_trans; [exact HP|]. apply Permutation_app_head.
      eapply Permutation_trans; [apply Permutation_app_tail; apply Permutation_sym; exact HH|].
      cbn [app]. apply Permutation_middle.
    + intros t Ht. destruct (HL t Ht) as (p0 & Hp0 & Hpast).
      destruct (past_mono ths tid (R_redispatch task) R_recv [] E (fun _ => eq_refl) t p0 Hp0 Hpast) as (p1 & Hp1 & Hpast1).
      rewrite app_nil_r in Hp1. eauto.
    + exact HN.
  - (* B_start_cas success *)
    destruct polls; eapply LInv_boring; eauto; try reflexivity; cbn; intros; try discriminate; auto.
  - (* B_poll, not done *)
    destruct n as [|[|m]]; eapply LInv_boring; eauto; try reflexivity; cbn; intros; try discriminate; auto.
Qed.

Lemma LInv_step : forall st tid, LInv st -> LInv (fst (step st tid)).
Proof.
  intros [sh ths] tid HI. unfold step. cbn [st_sh st_threads].
  destruct (nth_opt ths tid) as [p|] eqn:E; [|exact HI].
  destruct (thread_step sh tid p) as [[[sh' p'] sp] ev] eqn:TS. cbn [fst].
  eapply LInv_thread_step; eauto.
Qed.

Lemma held_initial : forall ths, allb is_initial_pc ths = true -> held ths = [].
Proof.
  induction ths as [|p r IH]; cbn [allb]; intro H; [reflexivity|].
  apply andb_prop in H. destruct H as [Hp Hr]. rewrite held_cons, (IH Hr).
  destruct p; cbn [is_initial_pc] in Hp; try discriminate; reflexivity.
Qed.

Lemma init_LInv : forall st, initial st -> LInv st.
Proof.
  intros st (term0 & ths & Hall & ->). unfold LInv, init_state. cbn [st_sh st_threads sh_enq sh_queue sh_redisp].
  rewrite (held_initial _ Hall). cbn [app]. split; [constructor|]. split; [intros t []|constructor].
Qed.

Lemma reachable_LInv : forall st, reachable st -> LInv st.
Proof. induction 1; [apply init_LInv; assumption | apply LInv_step; assumption]. Qed.

(* ---------- runs ---------- *)
Inductive chain : state -> list (nat * event * state) -> Prop :=
| chain_nil : forall st, chain st []
| chain_cons : forall st tid ev st' tr, step st tid = (st', ev) -> chain st' tr -> chain st ((tid, ev, st') :: tr).

Lemma exec_chain : forall sched st, chain st (exec st sched).
Proof.
  induction sched as [|tid rest IH]; intro st; cbn [exec]; [constructor|].
  destruct (step st tid) as [st' ev] eqn:E. constructor; [exact E | apply IH].
Qed.

Lemma chain_cons_inv : forall st tid ev st' tr,
  chain st ((tid, ev, st') :: tr) -> step st tid = (st', ev) /\ chain st' tr.
Proof. intros st tid ev st' tr H. inversion H; subst. split; assumption. Qed.

Lemma reach_step' : forall st tid st' ev, reachable st -> step st tid = (st', ev) -> reachable st'.
Proof. intros st tid st' ev Hr H. replace st' with (fst (step st tid)) by (rewrite H; reflexivity). apply reach_step. assumption. Qed.

Fixpoint end_state (st : state) (tr : list (nat * event * state)) : state :=
  match tr with [] => st | x :: r => end_state (snd x) r end.

Lemma chain_app : forall a st b, chain st (a ++ b) -> chain st a /\ chain (end_state st a) b.
Proof.
  induction a as [|[[tid ev] st'] r IH]; intros st b H; cbn [app end_state] in *; [split; [constructor|assumption]|].
  apply chain_cons_inv in H. destruct H as [Hs Hc]. destruct (IH _ _ Hc) as [H1 H2]. cbn [snd].
  split; [econstructor; eauto|assumption].
Qed.

Lemma chain_reachable : forall tr st, reachable st -> chain st tr -> reachable (end_state st tr).
Proof.
  induction tr as [|[[tid ev] st'] r IH]; intros st Hr H; cbn [end_state]; [assumption|].
  apply chain_cons_inv in H. destruct H as [Hs Hc]. cbn [snd]. apply IH; [|assumption].
  eapply reach_step'; eauto.
Qed.

(* ---------- facts about single steps ---------- *)
Ltac step_cases H :=
  match type of H with
  | step ?st ?tid = _ =>
    let sh := fresh "sh" in let ths := fresh "ths" in
    destruct st as [sh ths]; unfold step in H; cbn [st_sh st_threads] in H;
    let p := fresh "p" in let E := fresh "E" in
    destruct (nth_opt ths tid) as [p|] eqn:E;
    [ destruct p; cbn [thread_step] in H;
      try (match goal with ir : inner_res |- _ => destruct ir end);
      try (match type of H with context [match sh_queue sh with _ => _ end] => destruct (sh_queue sh) eqn:? end);
      destruct_ifs H; inv_ts H
    | inv_ts H ]
  end.

Lemma step_handoff_pc : forall st tid st' task ir,
  step st tid = (st', EvHandoff task ir) -> exists ir', nth_opt (st_threads st) tid = Some (S_handoff ir').
Proof. intros st tid st' task ir H. step_cases H; cbn [st_threads]; eauto. Qed.

Lemma step_done_sealed : forall st tid st',
  step st tid = (st', EvDoneLoad true) -> sh_sealed (st_sh st') = true.
Proof. intros st tid st' H. step_cases H; reflexivity. Qed.

Lemma step_sealed_kept : forall st tid st' ev,
  step st tid = (st', ev) -> sh_sealed (st_sh st) = true -> (0 < sh_count (st_sh st'))%N ->
  sh_sealed (st_sh st') = true.
Proof.
  intros st tid st' ev H Hs Hc. step_cases H; cbn [st_sh sh_sealed sh_count set_running set_state set_queue push_enq
    push_hand push_redisp set_sealed] in *; try assumption; try reflexivity; try lia.
Qed.

Lemma sealed_no_handoff : forall st tid st' task ir,
  reachable st -> sh_sealed (st_sh st) = true -> step st tid = (st', EvHandoff task ir) -> False.
Proof.
  intros st tid st' task ir Hr Hs H.
  destruct (step_handoff_pc _ _ _ _ _ H) as (ir' & Hn).
  pose proof (reachable_AInv _ Hr) as (Hnn & _ & _ & Hseal & _).
  cbn [abs a_sh a_cnt abs_sh a_sealed] in *.
  destruct (Hseal Hs) as [Hz _].
  pose proof (cnt_ge1 _ _ _ Hn) as G. cbn [cls] in G. pose proof (Hnn C_s2f). cbn beta in *. lia.
Qed.

Lemma sealed_chain : forall mid st h task ir sth post,
  reachable st -> sh_sealed (st_sh st) = true ->
  chain st (mid ++ (h, EvHandoff task ir, sth) :: post) ->
  (forall x, In x mid -> (0 < sh_count (st_sh (snd x)))%N) -> False.
Proof.
  induction mid as [|[[tid ev] st'] r IH]; intros st h task ir sth post Hr Hs Hc Hpos; cbn [app] in Hc;
    apply chain_cons_inv in Hc; destruct Hc as [Hst Hc].
  - eapply sealed_no_handoff; eauto.
  - eapply (IH st'); eauto.
    + eapply reach_step'; eauto.
    + eapply step_sealed_kept; eauto. apply (Hpos (tid, ev, st')). left; reflexivity.
    + intros y Hy. apply Hpos. right. assumption.
Qed.

(* ---------- the theorems ---------- *)
Theorem barrier_holds : forall st0 sched pre b stb mid h task ir sth post,
  initial st0 ->
  exec st0 sched = pre ++ (b, EvDoneLoad true, stb) :: mid ++ (h, EvHandoff task ir, sth) :: post ->
  (forall x, In x ((b, EvDoneLoad true, stb) :: mid) -> (0 < sh_count (st_sh (snd x)))%N) ->
  False.
Proof.
  intros st0 sched pre b stb mid h task ir sth post Hi He Hpos.
  pose proof (exec_chain sched st0) as Hc. rewrite He in Hc.
  apply chain_app in Hc. destruct Hc as [Hpre Hrest].
  assert (Hrp : reachable (end_state st0 pre)) by (apply chain_reachable; [constructor|]; assumption).
  apply chain_cons_inv in Hrest. destruct Hrest as [Hst Hrest].
  eapply (sealed_chain mid stb); eauto.
  - eapply reach_step'; eauto.
  - eapply step_done_sealed; eauto.
  - intros x Hx. apply Hpos. right. assumption.
Qed.

Lemma exec_reachable : forall st0 sched, initial st0 -> reachable (final st0 sched).
Proof.
  intros st0 sched Hi. assert (Hr : reachable st0) by (constructor; assumption). clear Hi.
  revert st0 Hr. induction sched as [|tid rest IH]; intros st0 Hr; cbn [final]; [assumption|].
  apply IH. apply reach_step. assumption.
Qed.

Lemma quiescent_cnt : forall ths, allb is_finished ths = true ->
  cnt C_s8 ths = 0 /\ cnt C_rr ths = 0 /\ cnt C_rh ths = 0 /\ held ths = [].
Proof.
  induction ths as [|p r IH]; cbn [allb cnt]; intro H; [repeat split; reflexivity|].
  apply andb_prop in H. destruct H as [Hp Hr]. destruct (IH Hr) as (H1 & H2 & H3 & H4).
  rewrite held_cons, H1, H2, H3, H4.
  destruct p; cbn [is_finished] in Hp; try discriminate; try (destruct holding); cbn [cls held1 app];
    unfold ind; cbn [pclass_eqb]; repeat split; reflexivity.
Qed.

Theorem no_stuck_queue_holds : forall st,
  reachable st -> sh_queue (st_sh st) <> [] -> sh_count (st_sh st) = 0%N ->
  exists tid p, nth_opt (st_threads st) tid = Some p /\ will_release p = true.
Proof.
  intros st Hr Hq Hc.
  pose proof (reachable_AInv _ Hr) as (Hnn & _ & _ & _ & Hstuck & _).
  cbn [abs a_sh a_cnt abs_sh a_queue a_count] in *.
  assert (Hpos : 0 < cnt C_s8 (st_threads st) + cnt C_rr (st_threads st) + cnt C_rh (st_threads st)).
  { apply Hstuck; [|lia]. destruct (sh_queue (st_sh st)); [congruence|]. cbn [length]. lia. }
  pose proof (Hnn C_s8). pose proof (Hnn C_rr). pose proof (Hnn C_rh). cbn beta in *.
  assert (Hx : 0 < cnt C_s8 (st_threads st) \/ 0 < cnt C_rr (st_threads st) \/ 0 < cnt C_rh (st_threads st)) by lia.
  destruct Hx as [Hx|[Hx|Hx]]; apply cnt_pos_exists in Hx; destruct Hx as (tid & p & Hn & Hcl);
    exists tid, p; (split; [assumption|]); destruct p; cbn [cls] in Hcl; try discriminate; try reflexivity;
    destruct holding; discriminate.
Qed.

Lemma nodup_app_r : forall (A : Type) (a b : list A), NoDup (a ++ b) -> NoDup b.
Proof. induction a as [|x r IH]; intros b H; cbn [app] in H; [assumption|]. inversion H; subst. apply IH. assumption. Qed.

Theorem exactly_once_holds : forall st,
  reachable st ->
  NoDup (sh_redisp (st_sh st)) /\
  (forall t, In t (sh_redisp (st_sh st)) -> In t (sh_enq (st_sh st))) /\
  (quiescent st = true -> sh_count (st_sh st) = 0%N ->
   sh_queue (st_sh st) = [] /\ Permutation (sh_enq (st_sh st)) (sh_redisp (st_sh st))).
Proof.
  intros st Hr. destruct (reachable_LInv _ Hr) as (HP & _ & HN).
  assert (HN2 : NoDup (sh_queue (st_sh st) ++ held (st_threads st) ++ sh_redisp (st_sh st)))
    by (eapply Permutation_NoDup; eauto).
  split; [|split].
  - apply nodup_app_r in HN2. apply nodup_app_r in HN2. exact HN2.
  - intros t Ht. eapply Permutation_in; [apply Permutation_sym; exact HP|].
    apply in_or_app. right. apply in_or_app. right. exact Ht.
  - intros Hq Hc. unfold quiescent in Hq. destruct (quiescent_cnt _ Hq) as (H1 & H2 & H3 & H4).
    assert (Hqe : sh_queue (st_sh st) = []).
    { destruct (sh_queue (st_sh st)) as [|x q] eqn:Q; [reflexivity|exfalso].
      pose proof (reachable_AInv _ Hr) as (_ & _ & _ & _ & Hstuck & _).
      cbn [abs a_sh a_cnt abs_sh a_queue a_count] in Hstuck. rewrite Q, H1, H2, H3 in Hstuck.
      cbn [length] in Hstuck. lia. }
    split; [exact Hqe|]. rewrite Hqe, H4 in HP. exact HP.
Qed.

(* panics and the failing enqueue *)
Theorem no_underflow_holds : forall st tid,
  reachable st -> snd (step st tid) <> EvPanic PSubOverflow /\ snd (step st tid) <> EvEnqueueFailed.
Proof.
  intros st tid Hr. destruct (step st tid) as [st' ev] eqn:E. cbn [snd].
  pose proof (reachable_AInv _ Hr) as HI.
  destruct (step_sim _ _ _ _ HI E) as [[-> _] | (c & c' & sp & Hc & Hrule & _)]; [split; discriminate|].
  destruct HI as (Hnn & _ & Hcount & _ & _ & _ & Hrx & _).
  pose proof (Hnn C_b1). pose proof (Hnn C_bdc). pose proof (Hnn C_bp). cbn beta in *.
  split; intro; subst ev; cbn [alab] in Hrule; inversion Hrule; subst;
    cbn [abs a_sh a_cnt abs_sh a_count a_rx] in *.
  - lia.
  - congruence.
Qed.

Theorem add_overflow_only_at_max : forall st tid st',
  step st tid = (st', EvPanic PAddOverflow) ->
  sh_count (st_sh st) = U32_MAX \/ sh_term (st_sh st) = U32_MAX.
Proof.
  intros st tid st' H. step_cases H; cbn [st_sh]; lia.
Qed.

Lemma step_done_running : forall st tid st',
  step st tid = (st', EvDoneLoad true) -> sh_running (st_sh st) = 0.
Proof. intros st tid st' H. step_cases H; cbn [st_sh]; lia. Qed.

Theorem done_means_idle : forall st tid st', reachable st -> step st tid = (st', EvDoneLoad true) ->
  forall i p, nth_opt (st_threads st) i = Some p -> holds_ref p = false.
Proof.
  intros st tid st' Hr H i p Hn. apply step_done_running in H.
  pose proof (reachable_AInv _ Hr) as (Hnn & Hrun & _).
  cbn [abs a_sh a_cnt abs_sh a_running] in *. rewrite H in Hrun.
  pose proof (cnt_ge1 _ _ _ Hn) as G.
  pose proof (Hnn C_s1); pose proof (Hnn C_s2f); pose proof (Hnn C_s2r); pose proof (Hnn C_s3); pose proof (Hnn C_s4);
  pose proof (Hnn C_s4e); pose proof (Hnn C_s4f); pose proof (Hnn C_s6); pose proof (Hnn C_inf). cbn beta in *.
  destruct p; cbn [holds_ref]; try reflexivity; cbn [cls] in G; exfalso; lia.
Qed.

(* ---------- the statements used by Props/C11.v, over runs from initial states ---------- *)
Theorem exactly_once_run : forall st0 sched, initial st0 ->
  let st := final st0 sched in
  NoDup (sh_redisp (st_sh st)) /\
  (forall t, In t (sh_redisp (st_sh st)) -> In t (sh_enq (st_sh st))) /\
  (quiescent st = true -> sh_count (st_sh st) = 0%N ->
   sh_queue (st_sh st) = [] /\ Permutation (sh_enq (st_sh st)) (sh_redisp (st_sh st))).
Proof. intros st0 sched Hi. apply exactly_once_holds. apply exec_reachable. assumption. Qed.

Theorem no_stuck_queue_run : forall st0 sched, initial st0 ->
  let st := final st0 sched in
  sh_queue (st_sh st) <> [] -> sh_count (st_sh st) = 0%N ->
  exists tid p, nth_opt (st_threads st) tid = Some p /\ will_release p = true.
Proof. intros st0 sched Hi. apply no_stuck_queue_holds. apply exec_reachable. assumption. Qed.

Theorem no_underflow_run : forall st0 sched tid, initial st0 ->
  let ev := snd (step (final st0 sched) tid) in
  ev <> EvPanic PSubOverflow /\ ev <> EvEnqueueFailed /\
  (ev = EvPanic PAddOverflow ->
   sh_count (st_sh (final st0 sched)) = U32_MAX \/ sh_term (st_sh (final st0 sched)) = U32_MAX).
Proof.
  intros st0 sched tid Hi. cbv zeta.
  destruct (no_underflow_holds (final st0 sched) tid (exec_reachable _ sched Hi)) as [H1 H2].
  split; [assumption|]. split; [assumption|].
  intro He. destruct (step (final st0 sched) tid) as [st' ev] eqn:E. cbn [snd] in He. subst ev.
  eapply add_overflow_only_at_max; eauto.
Qed.

(* the invariant of the counter abstraction, for every state of every run *)
Theorem counting_invariant_run : forall st0 sched, initial st0 -> AInv (abs (final st0 sched)).
Proof. intros. apply reachable_AInv. apply exec_reachable. assumption. Qed.

Theorem done_means_idle_run : forall st0 sched tid, initial st0 ->
  let st := final st0 sched in
  snd (step st tid) = EvDoneLoad true ->
  forall i p, nth_opt (st_threads st) i = Some p -> holds_ref p = false.
Proof.
  intros st0 sched tid Hi. cbv zeta. intros He i p Hn.
  destruct (step (final st0 sched) tid) as [st' ev] eqn:E. cbn [snd] in He. subst ev.
  eapply done_means_idle; eauto. apply exec_reachable. assumption.
Qed.
