(* The assign phase of the slot-migration planners of broker/migrate.rs preserves the slot-partition invariant:
     assign_dst_slots turns every pending migration into an out entry at the source and an in entry at the destination
     (loop invariant `mig_ready`), and compact_slots (RangeList::compact on every range list) keeps `part_inv`. *)
From UM Require Import Base.BytesDef Model.Ranges Model.Broker Proofs.BrokerBase Proofs.BrokerPartRanges Proofs.BrokerPartDefs Proofs.BrokerPartMigrateBase.
From Coq Require Import ZifyBool ZifyNat ZifyN.

(* ================= pushing one entry ================= *)
Definition push_mig (p : bool) (e : mig_store) (c : chunk) : chunk := set_mig c p (ck_mig c p ++ [e]).

Definition add_entry (pos : nat * bool) (e : mig_store) (chunks : list chunk) : list chunk :=
  update_nth (fst pos) (fun c => set_mig c (snd pos) (ck_mig c (snd pos) ++ [e])) chunks.

Lemma add_entry_push pos e chunks : add_entry pos e chunks = update_nth (fst pos) (push_mig (snd pos) e) chunks.
Proof. reflexivity. Qed.

Lemma pos_eq_dec (a b : nat * bool) : {a = b} + {a <> b}.
Proof. decide equality; [apply Bool.bool_dec|apply Nat.eq_dec]. Qed.

Lemma add_entry_length pos e chunks : length (add_entry pos e chunks) = length chunks.
Proof. apply update_nth_length. Qed.

Lemma ck_mig_push_same p e c : ck_mig (push_mig p e c) p = ck_mig c p ++ [e].
Proof. destruct p; reflexivity. Qed.

Lemma ck_mig_push_other p q e c : p <> q -> ck_mig (push_mig p e c) q = ck_mig c q.
Proof. destruct p, q; intros H; try congruence; reflexivity. Qed.

Lemma entries_add_same pos e chunks : (fst pos < length chunks)%nat ->
  entries_at (add_entry pos e chunks) pos = entries_at chunks pos ++ [e].
Proof.
  intros Hlt. unfold entries_at. rewrite add_entry_push, nth_error_update_nth_eq.
  destruct (nth_error chunks (fst pos)) as [c|] eqn:E; cbn [option_map].
  - apply ck_mig_push_same.
  - apply nth_error_None in E. lia.
Qed.

Lemma entries_add_other pos pos' e chunks : pos' <> pos ->
  entries_at (add_entry pos e chunks) pos' = entries_at chunks pos'.
Proof.
  intros Hne. unfold entries_at. rewrite add_entry_push.
  destruct (Nat.eq_dec (fst pos) (fst pos')) as [E|E].
  - rewrite <- E, nth_error_update_nth_eq. destruct (nth_error chunks (fst pos)) as [c|]; cbn [option_map]; [|reflexivity].
    apply ck_mig_push_other. intros Hs. apply Hne. destruct pos, pos'; cbn [fst snd] in *; congruence.
  - rewrite nth_error_update_nth_neq by assumption. reflexivity.
Qed.

Lemma entries_add_mono pos pos' e x chunks : (fst pos < length chunks)%nat ->
  In x (entries_at chunks pos') -> In x (entries_at (add_entry pos e chunks) pos').
Proof.
  intros Hlt Hx. destruct (pos_eq_dec pos' pos) as [->|Hne].
  - rewrite entries_add_same by assumption. apply in_or_app. left. assumption.
  - rewrite entries_add_other by assumption. assumption.
Qed.

Lemma entries_add_new pos e chunks : (fst pos < length chunks)%nat -> In e (entries_at (add_entry pos e chunks) pos).
Proof. intros Hlt. rewrite entries_add_same by assumption. apply in_or_app. right. left. reflexivity. Qed.

Lemma entries_add_inv pos pos' e x chunks : (fst pos < length chunks)%nat ->
  In x (entries_at (add_entry pos e chunks) pos') -> In x (entries_at chunks pos') \/ (x = e /\ pos' = pos).
Proof.
  intros Hlt Hx. destruct (pos_eq_dec pos' pos) as [->|Hne].
  - rewrite entries_add_same in Hx by assumption. apply in_app_or in Hx. destruct Hx as [Hx|[<-|[]]]; auto.
  - rewrite entries_add_other in Hx by assumption. auto.
Qed.

(* ---------- counts ---------- *)
Lemma out_ranges_snoc l e : out_ranges (l ++ [e]) = out_ranges l ++ (if ms_out e then ms_ranges e else []).
Proof.
  unfold out_ranges. rewrite filter_app, flat_map_app. cbn [filter].
  destruct (ms_out e); cbn [flat_map]; rewrite ?app_nil_r; reflexivity.
Qed.

Lemma in_ranges_snoc l e : in_ranges (l ++ [e]) = in_ranges l ++ (if negb (ms_out e) then ms_ranges e else []).
Proof.
  unfold in_ranges. rewrite filter_app, flat_map_app. cbn [filter].
  destruct (negb (ms_out e)); cbn [flat_map]; rewrite ?app_nil_r; reflexivity.
Qed.

Definition gain (b : bool) (s : N) (e : mig_store) : nat := if b then cnt s (ms_ranges e) else 0%nat.

Lemma cnt_gain (b : bool) s (e : mig_store) : cnt s (if b then ms_ranges e else ([] : rangelist)) = gain b s e.
Proof. unfold gain. destruct b; [reflexivity|apply cnt_nil]. Qed.

Lemma push_chunk_owned s p e c :
  cnt s (chunk_owned (push_mig p e c)) = (cnt s (chunk_owned c) + gain (ms_out e) s e)%nat.
Proof.
  destruct p; unfold chunk_owned, push_mig;
    cbn [set_mig ck_mig ck_mig0 ck_mig1 ck_stable0 ck_stable1];
    rewrite out_ranges_snoc, !cnt_app, cnt_gain; lia.
Qed.

Lemma push_chunk_out s p e c :
  cnt s (chunk_out (push_mig p e c)) = (cnt s (chunk_out c) + gain (ms_out e) s e)%nat.
Proof.
  destruct p; unfold chunk_out, push_mig;
    cbn [set_mig ck_mig ck_mig0 ck_mig1 ck_stable0 ck_stable1];
    rewrite out_ranges_snoc, !cnt_app, cnt_gain; lia.
Qed.

Lemma push_chunk_in s p e c :
  cnt s (chunk_in (push_mig p e c)) = (cnt s (chunk_in c) + gain (negb (ms_out e)) s e)%nat.
Proof.
  destruct p; unfold chunk_in, push_mig;
    cbn [set_mig ck_mig ck_mig0 ck_mig1 ck_stable0 ck_stable1];
    rewrite in_ranges_snoc, !cnt_app, cnt_gain; lia.
Qed.

Lemma cnt_flat_map_update s (f : chunk -> rangelist) (g : chunk -> chunk) (k : nat) :
  (forall c, cnt s (f (g c)) = (cnt s (f c) + k)%nat) ->
  forall l n, (n < length l)%nat -> cnt s (flat_map f (update_nth n g l)) = (cnt s (flat_map f l) + k)%nat.
Proof.
  intros Hg. induction l as [|c l IH]; intros n Hn; cbn [length] in Hn; [lia|].
  destruct n as [|n]; cbn [update_nth flat_map]; rewrite !cnt_app.
  - rewrite Hg. lia.
  - rewrite IH by lia. lia.
Qed.

Lemma add_entry_owned s pos e chunks : (fst pos < length chunks)%nat ->
  cnt s (owned (add_entry pos e chunks)) = (cnt s (owned chunks) + gain (ms_out e) s e)%nat.
Proof.
  intros Hlt. unfold owned. rewrite add_entry_push. apply cnt_flat_map_update; [|assumption].
  intros c. apply push_chunk_owned.
Qed.

Lemma add_entry_all_out s pos e chunks : (fst pos < length chunks)%nat ->
  cnt s (all_out (add_entry pos e chunks)) = (cnt s (all_out chunks) + gain (ms_out e) s e)%nat.
Proof.
  intros Hlt. unfold all_out. rewrite add_entry_push. apply cnt_flat_map_update; [|assumption].
  intros c. apply push_chunk_out.
Qed.

Lemma add_entry_all_in s pos e chunks : (fst pos < length chunks)%nat ->
  cnt s (all_in (add_entry pos e chunks)) = (cnt s (all_in chunks) + gain (negb (ms_out e)) s e)%nat.
Proof.
  intros Hlt. unfold all_in. rewrite add_entry_push. apply cnt_flat_map_update; [|assumption].
  intros c. apply push_chunk_in.
Qed.

(* ---------- well-formedness ---------- *)
Lemma push_chunk_wf p e c : Forall wf_range (ms_ranges e) -> Forall wf_range (chunk_all_ranges c) ->
  Forall wf_range (chunk_all_ranges (push_mig p e c)).
Proof.
  intros He Hc. destruct p; unfold chunk_all_ranges, push_mig in *;
    cbn [set_mig ck_mig ck_mig0 ck_mig1 ck_stable0 ck_stable1];
    rewrite flat_map_app; cbn [flat_map]; rewrite app_nil_r; rewrite !Forall_app in *; tauto.
Qed.

Lemma Forall_flat_map_update {A B} (P : B -> Prop) (f : A -> list B) (g : A -> A) :
  (forall c, Forall P (f c) -> Forall P (f (g c))) ->
  forall l n, Forall P (flat_map f l) -> Forall P (flat_map f (update_nth n g l)).
Proof.
  intros Hg. induction l as [|c l IH]; intros n H; [destruct n; exact H|].
  cbn [flat_map] in H. apply Forall_app in H. destruct H as [H1 H2].
  destruct n as [|n]; cbn [update_nth flat_map]; apply Forall_app; split; auto.
Qed.

Lemma add_entry_wf pos e chunks : Forall wf_range (ms_ranges e) ->
  Forall wf_range (flat_map chunk_all_ranges chunks) ->
  Forall wf_range (flat_map chunk_all_ranges (add_entry pos e chunks)).
Proof.
  intros He H. rewrite add_entry_push. apply Forall_flat_map_update; [|assumption].
  intros c. apply push_chunk_wf. assumption.
Qed.

(* ================= one step of assign_dst_slots ================= *)
Lemma mig_ranges_cons rl m rest : mig_ranges ((rl, m) :: rest) = rl ++ mig_ranges rest.
Proof. reflexivity. Qed.

Lemma assign_step chunks rl m rest :
  mig_ready chunks ((rl, m) :: rest) ->
  (mm_src_idx m < length chunks)%nat -> (mm_dst_idx m < length chunks)%nat ->
  mig_ready (add_entry (mm_dst_idx m, mm_dst_part m) (mkMig rl false m)
               (add_entry (mm_src_idx m, mm_src_part m) (mkMig rl true m) chunks)) rest.
Proof.
  intros [Hsz Hw Hwm Hne Hnem Hc Hb Ht] Hs Hd.
  set (src := (mm_src_idx m, mm_src_part m)). set (dst := (mm_dst_idx m, mm_dst_part m)).
  set (eo := mkMig rl true m). set (ei := mkMig rl false m).
  set (C1 := add_entry src eo chunks).
  assert (HL1 : length C1 = length chunks) by apply add_entry_length.
  assert (Hs0 : (fst src < length chunks)%nat) by exact Hs.
  assert (Hd1 : (fst dst < length C1)%nat) by (rewrite HL1; exact Hd).
  rewrite mig_ranges_cons in Hwm. apply Forall_app in Hwm. destruct Hwm as [Hwrl Hwrest].
  assert (Hrl : rl <> []) by (apply (Hnem rl m); left; reflexivity).
  assert (Hinv : forall pos x, In x (entries_at (add_entry dst ei C1) pos) ->
            In x (entries_at chunks pos) \/ (x = eo /\ pos = src) \/ (x = ei /\ pos = dst)).
  { intros pos x Hx. apply entries_add_inv in Hx; [|assumption]. destruct Hx as [Hx|Hx]; [|auto].
    apply entries_add_inv in Hx; [|assumption]. destruct Hx as [Hx|Hx]; auto. }
  assert (Hmono : forall pos x, In x (entries_at chunks pos) -> In x (entries_at (add_entry dst ei C1) pos)).
  { intros pos x Hx. apply entries_add_mono; [assumption|]. apply entries_add_mono; assumption. }
  assert (Heo : In eo (entries_at (add_entry dst ei C1) src)).
  { apply entries_add_mono; [assumption|]. apply entries_add_new. assumption. }
  assert (Hei : In ei (entries_at (add_entry dst ei C1) dst)).
  { apply entries_add_new. assumption. }
  constructor.
  - rewrite add_entry_length, HL1. exact Hsz.
  - apply add_entry_wf; [exact Hwrl|]. apply add_entry_wf; [exact Hwrl|exact Hw].
  - exact Hwrest.
  - intros pos x Hx. destruct (Hinv pos x Hx) as [Hx'|[[-> _]|[-> _]]]; [eapply Hne; eassumption|exact Hrl|exact Hrl].
  - intros rl' m' Hin. apply (Hnem rl' m'). right. assumption.
  - intros s. rewrite add_entry_owned by assumption. unfold C1. rewrite add_entry_owned by assumption.
    specialize (Hc s). rewrite mig_ranges_cons, cnt_app in Hc. unfold gain, ei, eo. cbn [ms_out ms_ranges]. lia.
  - intros s. rewrite add_entry_all_in, add_entry_all_out by assumption. unfold C1.
    rewrite add_entry_all_in, add_entry_all_out by assumption.
    specialize (Hb s). unfold gain, ei, eo. cbn [ms_out ms_ranges negb]. lia.
  - intros pos x Hx. rewrite add_entry_length, HL1.
    destruct (Hinv pos x Hx) as [Hx'|[[-> ->]|[-> ->]]].
    + destruct (Ht pos x Hx') as (T1 & T2 & T3). split; [exact T1|]. split; [exact T2|]. apply Hmono. exact T3.
    + split; [reflexivity|]. split; [exact Hd|]. exact Hei.
    + split; [reflexivity|]. split; [exact Hs|]. exact Heo.
Qed.

Lemma assign_part_inv : forall migs chunks chunks',
  mig_ready chunks migs -> assign_dst_slots chunks migs = Done chunks' -> part_inv chunks'.
Proof.
  induction migs as [|[rl m] rest IH]; intros chunks chunks' Hr Ha.
  - cbn [assign_dst_slots] in Ha. inversion Ha; subst. apply mig_ready_nil. exact Hr.
  - cbn [assign_dst_slots] in Ha.
    destruct (Nat.ltb (mm_src_idx m) (length chunks) && Nat.ltb (mm_dst_idx m) (length chunks)) eqn:E; [|discriminate].
    apply (IH _ _ (assign_step chunks rl m rest Hr ltac:(lia) ltac:(lia))). exact Ha.
Qed.

(* ================= compact_slots ================= *)
Lemma entries_compact chunks pos : entries_at (compact_slots chunks) pos = map compact_mig (entries_at chunks pos).
Proof.
  unfold entries_at, compact_slots. rewrite nth_error_map.
  destruct (nth_error chunks (fst pos)) as [c|]; cbn [option_map]; [|reflexivity].
  destruct (snd pos); reflexivity.
Qed.

(* a range list on which compact is harmless: well formed and pairwise disjoint *)
Definition good (l : rangelist) : Prop := Forall wf_range l /\ forall s, (cnt s l <= 1)%nat.

Definition entry_good (e : mig_store) : Prop := good (ms_ranges e).

Definition chunk_good (c : chunk) : Prop :=
  good (opt_ranges (ck_stable0 c)) /\ good (opt_ranges (ck_stable1 c)) /\
  Forall entry_good (ck_mig0 c) /\ Forall entry_good (ck_mig1 c).

Lemma good_compact_cnt l s : good l -> cnt s (compact l) = cnt s l.
Proof. intros [Hw Hc]. apply (compact_cnt l Hw Hc). Qed.

Lemma good_compact_wf l : good l -> Forall wf_range (compact l).
Proof. intros [Hw Hc]. apply (compact_cnt l Hw Hc). Qed.

Lemma good_sub l l' : Forall wf_range l -> (forall s, (cnt s l <= cnt s l')%nat) -> (forall s, (cnt s l' <= 1)%nat) -> good l.
Proof. intros Hw Hle Hc. split; [exact Hw|]. intros s. specialize (Hle s). specialize (Hc s). lia. Qed.

(* ---------- sub-multisets of owned ---------- *)
Lemma cnt_chunk_le_flat s (f : chunk -> rangelist) c chunks : In c chunks -> (cnt s (f c) <= cnt s (flat_map f chunks))%nat.
Proof.
  intros Hin. apply in_split in Hin. destruct Hin as (l1 & l2 & ->).
  rewrite flat_map_app. cbn [flat_map]. rewrite !cnt_app. lia.
Qed.

Lemma Forall_chunk_of_flat {B} (P : B -> Prop) (f : chunk -> list B) c chunks :
  In c chunks -> Forall P (flat_map f chunks) -> Forall P (f c).
Proof.
  intros Hin H. rewrite Forall_forall in *. intros x Hx. apply H. apply in_flat_map. exists c. split; assumption.
Qed.

Lemma cnt_entry_le_out s e l : In e l -> ms_out e = true -> (cnt s (ms_ranges e) <= cnt s (out_ranges l))%nat.
Proof.
  intros Hin Ho. apply in_split in Hin. destruct Hin as (l1 & l2 & ->).
  unfold out_ranges. rewrite filter_app, flat_map_app. cbn [filter]. rewrite Ho. cbn [flat_map]. rewrite !cnt_app. lia.
Qed.

Lemma wf_entry_of_all e l : In e l -> Forall wf_range (flat_map ms_ranges l) -> Forall wf_range (ms_ranges e).
Proof.
  intros Hin H. rewrite Forall_forall in *. intros x Hx. apply H. apply in_flat_map. exists e. split; assumption.
Qed.

Lemma covers_once_le1 l : covers_once l -> forall s, (cnt s l <= 1)%nat.
Proof. intros H s. rewrite (H s). destruct (N.ltb s SLOT_NUM); lia. Qed.

Lemma chunk_all_mig_wf c p : Forall wf_range (chunk_all_ranges c) -> Forall wf_range (flat_map ms_ranges (ck_mig c p)).
Proof.
  unfold chunk_all_ranges. rewrite !Forall_app. intros (_ & _ & H0 & H1). destruct p; assumption.
Qed.

Lemma chunk_owned_out_le s c p : (cnt s (out_ranges (ck_mig c p)) <= cnt s (chunk_owned c))%nat.
Proof. unfold chunk_owned. rewrite !cnt_app. destruct p; cbn [ck_mig]; lia. Qed.

Lemma out_entry_good chunks pos e : part_inv chunks -> In e (entries_at chunks pos) -> ms_out e = true -> entry_good e.
Proof.
  intros Hp Hin Ho. unfold entries_at in Hin.
  destruct (nth_error chunks (fst pos)) as [c|] eqn:E; [|destruct Hin].
  apply nth_error_In in E.
  pose proof (Forall_chunk_of_flat _ _ c chunks E (pi_wf _ Hp)) as Hwc.
  apply (good_sub _ (owned chunks)).
  - eapply wf_entry_of_all; [exact Hin|]. apply chunk_all_mig_wf. exact Hwc.
  - intros s. pose proof (cnt_entry_le_out s e _ Hin Ho) as H1.
    pose proof (chunk_owned_out_le s c (snd pos)) as H2.
    pose proof (cnt_chunk_le_flat s chunk_owned c chunks E) as H3. unfold owned. lia.
  - apply covers_once_le1. apply (pi_cover _ Hp).
Qed.

Lemma entry_good_all chunks pos e : part_inv chunks -> In e (entries_at chunks pos) -> entry_good e.
Proof.
  intros Hp Hin. destruct (ms_out e) eqn:Ho; [eapply out_entry_good; eassumption|].
  destruct (pi_twin _ Hp pos e Hin) as (_ & _ & Ht).
  assert (Hg : entry_good (twin e)).
  { eapply out_entry_good; [exact Hp|exact Ht|]. unfold twin. cbn [ms_out]. rewrite Ho. reflexivity. }
  exact Hg.
Qed.

Lemma part_inv_chunk_good chunks : part_inv chunks -> Forall chunk_good chunks.
Proof.
  intros Hp. apply Forall_forall. intros c Hc.
  pose proof (Forall_chunk_of_flat _ _ c chunks Hc (pi_wf _ Hp)) as Hwc.
  pose proof (covers_once_le1 _ (pi_cover _ Hp)) as H1.
  assert (Hle : forall s, (cnt s (chunk_owned c) <= cnt s (owned chunks))%nat)
    by (intros s; apply cnt_chunk_le_flat; exact Hc).
  destruct (In_nth_error _ _ Hc) as [i Hi].
  assert (Hwc' := Hwc). unfold chunk_all_ranges in Hwc'. rewrite !Forall_app in Hwc'. destruct Hwc' as (W0 & W1 & _ & _).
  split; [|split; [|split]].
  - apply (good_sub _ (owned chunks)); [exact W0| |exact H1].
    intros s. specialize (Hle s). unfold chunk_owned in Hle. rewrite !cnt_app in Hle. lia.
  - apply (good_sub _ (owned chunks)); [exact W1| |exact H1].
    intros s. specialize (Hle s). unfold chunk_owned in Hle. rewrite !cnt_app in Hle. lia.
  - apply Forall_forall. intros e He. apply (entry_good_all chunks (i, false) e Hp).
    unfold entries_at. cbn [fst snd]. rewrite Hi. exact He.
  - apply Forall_forall. intros e He. apply (entry_good_all chunks (i, true) e Hp).
    unfold entries_at. cbn [fst snd]. rewrite Hi. exact He.
Qed.

(* ---------- per chunk ---------- *)
Lemma opt_compact_cnt s o : good (opt_ranges o) -> cnt s (opt_ranges (option_map compact o)) = cnt s (opt_ranges o).
Proof. destruct o as [l|]; cbn [option_map opt_ranges]; intros H; [apply good_compact_cnt; exact H|reflexivity]. Qed.

Lemma opt_compact_wf o : good (opt_ranges o) -> Forall wf_range (opt_ranges (option_map compact o)).
Proof. destruct o as [l|]; cbn [option_map opt_ranges]; intros H; [apply good_compact_wf; exact H|constructor]. Qed.

Lemma sel_compact_cnt s (f : mig_store -> bool) l : (forall e, f (compact_mig e) = f e) -> Forall entry_good l ->
  cnt s (flat_map ms_ranges (filter f (map compact_mig l))) = cnt s (flat_map ms_ranges (filter f l)).
Proof.
  intros Hf. induction 1 as [|e l He Hl IH]; [reflexivity|].
  cbn [map filter]. rewrite Hf. destruct (f e); [|exact IH].
  cbn [flat_map]. rewrite !cnt_app, IH. cbn [compact_mig ms_ranges]. rewrite (good_compact_cnt _ s He). reflexivity.
Qed.

Lemma out_compact_cnt s l : Forall entry_good l -> cnt s (out_ranges (map compact_mig l)) = cnt s (out_ranges l).
Proof. intros H. unfold out_ranges. apply sel_compact_cnt; [reflexivity|exact H]. Qed.

Lemma in_compact_cnt s l : Forall entry_good l -> cnt s (in_ranges (map compact_mig l)) = cnt s (in_ranges l).
Proof. intros H. unfold in_ranges. apply sel_compact_cnt; [reflexivity|exact H]. Qed.

Lemma all_compact_wf l : Forall entry_good l -> Forall wf_range (flat_map ms_ranges (map compact_mig l)).
Proof.
  induction 1 as [|e l He Hl IH]; [constructor|]. cbn [map flat_map]. apply Forall_app. split; [|exact IH].
  cbn [compact_mig ms_ranges]. apply good_compact_wf. exact He.
Qed.

Lemma compact_chunk_owned s c : chunk_good c -> cnt s (chunk_owned (compact_chunk c)) = cnt s (chunk_owned c).
Proof.
  intros (G0 & G1 & M0 & M1). unfold chunk_owned, compact_chunk. cbn [ck_stable0 ck_stable1 ck_mig0 ck_mig1].
  rewrite !cnt_app, !opt_compact_cnt, !out_compact_cnt by assumption. reflexivity.
Qed.

Lemma compact_chunk_out s c : chunk_good c -> cnt s (chunk_out (compact_chunk c)) = cnt s (chunk_out c).
Proof.
  intros (G0 & G1 & M0 & M1). unfold chunk_out, compact_chunk. cbn [ck_mig0 ck_mig1].
  rewrite !cnt_app, !out_compact_cnt by assumption. reflexivity.
Qed.

Lemma compact_chunk_in s c : chunk_good c -> cnt s (chunk_in (compact_chunk c)) = cnt s (chunk_in c).
Proof.
  intros (G0 & G1 & M0 & M1). unfold chunk_in, compact_chunk. cbn [ck_mig0 ck_mig1].
  rewrite !cnt_app, !in_compact_cnt by assumption. reflexivity.
Qed.

Lemma compact_chunk_wf c : chunk_good c -> Forall wf_range (chunk_all_ranges (compact_chunk c)).
Proof.
  intros (G0 & G1 & M0 & M1). unfold chunk_all_ranges, compact_chunk. cbn [ck_stable0 ck_stable1 ck_mig0 ck_mig1].
  rewrite !Forall_app. repeat split; auto using opt_compact_wf, all_compact_wf.
Qed.

(* ---------- lifted to the chunk list ---------- *)
Lemma compact_slots_cnt s (f : chunk -> rangelist) :
  (forall c, chunk_good c -> cnt s (f (compact_chunk c)) = cnt s (f c)) ->
  forall l, Forall chunk_good l -> cnt s (flat_map f (compact_slots l)) = cnt s (flat_map f l).
Proof.
  intros Hf. induction 1 as [|c l Hc Hl IH]; [reflexivity|].
  unfold compact_slots in *. cbn [map flat_map]. rewrite !cnt_app, IH, Hf by assumption. reflexivity.
Qed.

Lemma compact_slots_wf l : Forall chunk_good l -> Forall wf_range (flat_map chunk_all_ranges (compact_slots l)).
Proof.
  induction 1 as [|c l Hc Hl IH]; [constructor|].
  unfold compact_slots in *. cbn [map flat_map]. apply Forall_app. split; [apply compact_chunk_wf; exact Hc|exact IH].
Qed.

Lemma compact_slots_part_inv : forall chunks, part_inv chunks -> part_inv (compact_slots chunks).
Proof.
  intros chunks Hp. pose proof (part_inv_chunk_good chunks Hp) as Hg.
  assert (HL : length (compact_slots chunks) = length chunks) by apply map_length.
  constructor.
  - rewrite HL. apply (pi_size _ Hp).
  - apply compact_slots_wf. exact Hg.
  - intros pos e' He'. rewrite entries_compact in He'. apply in_map_iff in He'. destruct He' as (e & <- & He).
    cbn [compact_mig ms_ranges]. apply compact_nonempty. apply (pi_nonempty _ Hp pos e He).
  - intros s. unfold owned. rewrite (compact_slots_cnt s chunk_owned (compact_chunk_owned s) chunks Hg).
    apply (pi_cover _ Hp).
  - intros s. unfold all_in, all_out.
    rewrite (compact_slots_cnt s chunk_in (compact_chunk_in s) chunks Hg).
    rewrite (compact_slots_cnt s chunk_out (compact_chunk_out s) chunks Hg).
    apply (pi_in_out _ Hp).
  - intros pos e' He'. rewrite entries_compact in He'. apply in_map_iff in He'. destruct He' as (e & <- & He).
    destruct (pi_twin _ Hp pos e He) as (T1 & T2 & T3). rewrite HL.
    split; [exact T1|]. split; [exact T2|].
    change (twin_pos (compact_mig e)) with (twin_pos e). change (twin (compact_mig e)) with (compact_mig (twin e)).
    rewrite entries_compact. apply in_map. exact T3.
Qed.

(* ---------- the hypotheses are satisfiable: one chunk, the upper half of the slots moving from part 0 to part 1 ---------- *)
Definition ex_assign_chunk : chunk := mkChunk RNormal (Some [(0, 8191)]) None [] [] 1 2 3 4 5 6 7 8.
Definition ex_assign_migs : list (rangelist * mig_meta) := [([(8192, 16383)], mkMeta 7 0 false 0 true)].

Example ex_assign_ready : mig_ready [ex_assign_chunk] ex_assign_migs.
Proof.
  constructor.
  - unfold SLOT_NUM. cbn [length]. lia.
  - repeat constructor; unfold wf_range; cbn [fst snd]; lia.
  - repeat constructor; unfold wf_range; cbn [fst snd]; lia.
  - intros [[|[|i]] [|]] e H; destruct H.
  - intros rl m [H|[]]. inversion H. discriminate.
  - intros s. unfold owned, mig_ranges, ex_assign_migs, ex_assign_chunk, chunk_owned, out_ranges.
    cbn [flat_map ck_stable0 ck_stable1 ck_mig0 ck_mig1 opt_ranges filter app fst].
    rewrite !cnt_single. unfold ind, in_range, slot_ind, SLOT_NUM. cbn [fst snd].
    destruct (N.leb 0 s && N.leb s 8191) eqn:A; destruct (N.leb 8192 s && N.leb s 16383) eqn:B;
      destruct (N.ltb s 16384) eqn:C; lia.
  - intros s. reflexivity.
  - intros [[|[|i]] [|]] e H; destruct H.
Qed.

Example ex_assign_done : exists chunks', assign_dst_slots [ex_assign_chunk] ex_assign_migs = Done chunks'
  /\ part_inv chunks' /\ part_inv (compact_slots chunks').
Proof.
  eexists. split; [reflexivity|]. split.
  - eapply assign_part_inv; [exact ex_assign_ready|reflexivity].
  - apply compact_slots_part_inv. eapply assign_part_inv; [exact ex_assign_ready|reflexivity].
Qed.
