(* C01, view side: the per-proxy view (get_proxy_by_address): local nodes plus grouped peers carry exactly the slot
   entries of the masters of the cluster view, so the partition property transfers. *)
From UM Require Import Base.BytesDef Model.Ranges Model.Broker Proofs.BrokerBase Proofs.BrokerPartRanges Proofs.BrokerPartDefs
  Proofs.BrokerPartViewBase Proofs.BrokerPartViewNodes.
From Coq Require Import ZifyBool ZifyNat ZifyN Permutation.

(* (proxy address, slot entry) pairs: the information a per-proxy view keeps about every slot entry *)
Definition pslot := (N * vslot)%type.
Definition pnode (n : vnode) : list pslot := map (fun sl => (vn_proxy n, sl)) (vn_slots n).
Definition pslots (ns : list vnode) : list pslot := flat_map pnode ns.
Definition peer_pslots (ps : list (N * list vslot)) : list pslot :=
  flat_map (fun p => map (fun sl => (fst p, sl)) (snd p)) ps.

Definition peer_owned (ps : list (N * list vslot)) : rangelist :=
  flat_map (fun p => flat_map (fun sl => if is_importing (snd sl) then [] else fst sl) (snd p)) ps.

Definition powned (pl : list pslot) : rangelist :=
  flat_map (fun q => if is_importing (snd (snd q)) then [] else fst (snd q)) pl.

(* (proxy, ranges, meta) of the importing / migrating entries *)
Definition pentry := (N * rangelist * vmeta)%type.
Definition ptag (imp : bool) (pl : list pslot) : list pentry :=
  flat_map (fun q => match snd (snd q) with
                     | VImporting m => if imp then [(fst q, fst (snd q), m)] else []
                     | VMigrating m => if imp then [] else [(fst q, fst (snd q), m)]
                     | VNone => []
                     end) pl.

Definition same_pmig (a b : pentry) : bool :=
  rangelist_eqb (snd (fst a)) (snd (fst b)) && vmeta_eqb (snd a) (snd b).

Definition view_pslots (v : vproxy) : list pslot := pslots (vp_nodes v) ++ peer_pslots (vp_peers v).
Definition vtagged (imp : bool) (v : vproxy) : list pentry := ptag imp (view_pslots v).

(* The per-proxy form of the partition property, for the view served to proxy [a]. *)
Record proxy_partition_ok (a : N) (v : vproxy) : Prop := mkProxyPartOk {
  (* a proxy outside any cluster: its nodes own nothing, no peers *)
  ppo_free : vp_cluster v = None -> (forall n, In n (vp_nodes v) -> vn_slots n = []) /\ vp_peers v = [];
  (* local nodes and peers partition the slots exactly once *)
  ppo_cover : vp_cluster v <> None -> covers_once (view_owned (vp_nodes v) ++ peer_owned (vp_peers v));
  ppo_replicas : forall n, In n (vp_nodes v) -> vn_master n = false -> vn_slots n = [];
  ppo_local : forall n, In n (vp_nodes v) -> vn_proxy n = a;
  ppo_peers : forall p, In p (vp_peers v) -> fst p <> a;
  (* every migrating entry visible in the view (local or peer) has exactly one importing twin in the view (local or peer)
     with equal ranges and meta, listed under the destination proxy; the migrating entry is listed under the source proxy *)
  ppo_out_twin : forall x, In x (vtagged false v) ->
      exists y, filter (same_pmig x) (vtagged true v) = [y] /\
                fst (fst y) = vm_dst_proxy (snd x) /\ fst (fst x) = vm_src_proxy (snd x);
  ppo_in_twin : forall y, In y (vtagged true v) -> exists x, In x (vtagged false v) /\ same_pmig x y = true;
  (* local entries sit on the node named in the meta *)
  ppo_local_src : forall x, In x (tagged false (vp_nodes v)) -> fst (fst (fst x)) = vm_src_node (snd x);
  ppo_local_dst : forall y, In y (tagged true (vp_nodes v)) -> fst (fst (fst y)) = vm_dst_node (snd y);
  (* the entries of local nodes plus peers are exactly those of the masters of a cluster view satisfying partition_ok,
     and the local nodes are its nodes on proxy a *)
  ppo_cluster_view : vp_cluster v <> None ->
      exists ns, partition_ok ns /\ vp_nodes v = filter (fun n => N.eqb (vn_proxy n) a) ns /\
                 Permutation (view_pslots v) (pslots (filter vn_master ns))
}.

(* ---------- grouping keeps the entries, in order ---------- *)
Lemma peer_pslots_app x y : peer_pslots (x ++ y) = peer_pslots x ++ peer_pslots y.
Proof. unfold peer_pslots. apply flat_map_app. Qed.

Lemma pslots_cons n l : pslots (n :: l) = pnode n ++ pslots l.
Proof. reflexivity. Qed.

Lemma peer_pslots_single p sl : peer_pslots [(p, sl)] = map (fun s => (p, s)) sl.
Proof. unfold peer_pslots. cbn [flat_map fst snd]. apply app_nil_r. Qed.

Lemma group_peers_pslots : forall l acc, peer_pslots (group_peers l acc) = peer_pslots (rev acc) ++ pslots l.
Proof.
  induction l as [|n l IH]; intros acc; cbn [group_peers].
  - cbn [pslots flat_map]. rewrite app_nil_r. reflexivity.
  - rewrite pslots_cons. destruct acc as [|[p sl] acc'].
    + rewrite IH. cbn [rev app]. rewrite peer_pslots_single. reflexivity.
    + destruct (N.eqb p (vn_proxy n)) eqn:E.
      * apply N.eqb_eq in E. rewrite IH. cbn [rev]. rewrite !peer_pslots_app, !peer_pslots_single, map_app.
        unfold pnode. rewrite E, <- !app_assoc. reflexivity.
      * rewrite IH. cbn [rev]. rewrite !peer_pslots_app, !peer_pslots_single. unfold pnode.
        rewrite <- !app_assoc. reflexivity.
Qed.

Lemma group_peers_fst (P : N -> Prop) : forall l acc,
  (forall n, In n l -> P (vn_proxy n)) -> (forall q, In q acc -> P (fst q)) ->
  forall p, In p (group_peers l acc) -> P (fst p).
Proof.
  induction l as [|n l IH]; intros acc Hl Hacc p; cbn [group_peers].
  - intros H. apply Hacc. apply in_rev. exact H.
  - assert (Hn : P (vn_proxy n)) by (apply Hl; left; reflexivity).
    assert (Hl' : forall n0, In n0 l -> P (vn_proxy n0)) by (intros n0 H0; apply Hl; right; exact H0).
    destruct acc as [|[p0 sl] acc'].
    + apply IH; [exact Hl'|]. intros q [<-|[]]. exact Hn.
    + destruct (N.eqb p0 (vn_proxy n)).
      * apply IH; [exact Hl'|]. intros q [<-|Hq]; [apply (Hacc (p0, sl)); left; reflexivity|apply Hacc; right; exact Hq].
      * apply IH; [exact Hl'|]. intros q [<-|Hq]; [exact Hn|apply Hacc; exact Hq].
Qed.

(* ---------- owned ranges through pslots ---------- *)
Lemma powned_app x y : powned (x ++ y) = powned x ++ powned y.
Proof. unfold powned. apply flat_map_app. Qed.

Lemma peer_owned_powned ps : peer_owned ps = powned (peer_pslots ps).
Proof.
  unfold peer_owned, powned, peer_pslots. rewrite flat_map_flat_map. apply flat_map_ext_in. intros p _.
  rewrite flat_map_map. reflexivity.
Qed.

Definition replicas_empty (ns : list vnode) : Prop := forall n, In n ns -> vn_master n = false -> vn_slots n = [].

Lemma view_owned_powned ns : replicas_empty ns -> view_owned ns = powned (pslots ns).
Proof.
  intros H. unfold view_owned, powned, pslots. rewrite flat_map_flat_map. apply flat_map_ext_in. intros n Hn.
  unfold node_owned, pnode. rewrite flat_map_map. cbn [snd]. destruct (vn_master n) eqn:E; [reflexivity|].
  rewrite (H n Hn E). reflexivity.
Qed.

Lemma replicas_empty_filter f ns : replicas_empty ns -> replicas_empty (filter f ns).
Proof. intros H n Hn. apply filter_In in Hn. apply H. tauto. Qed.

Lemma pslots_filter_master ns : replicas_empty ns -> pslots (filter vn_master ns) = pslots ns.
Proof.
  induction ns as [|n l IH]; intros H; cbn [filter]; [reflexivity|].
  assert (Hl : replicas_empty l) by (intros n0 H0; apply H; right; exact H0).
  destruct (vn_master n) eqn:E; rewrite !pslots_cons.
  - rewrite IH by exact Hl. reflexivity.
  - rewrite IH by exact Hl. unfold pnode. rewrite (H n (or_introl eq_refl) E). reflexivity.
Qed.

(* local nodes + other masters = all entries *)
Lemma mine_others_perm a ns : replicas_empty ns ->
  Permutation (pslots (filter (fun n => N.eqb (vn_proxy n) a) ns) ++
               pslots (filter (fun n => vn_master n && negb (N.eqb (vn_proxy n) a)) ns))
              (pslots ns).
Proof.
  induction ns as [|n l IH]; intros H; cbn [filter]; [apply Permutation_refl|].
  assert (Hl : replicas_empty l) by (intros n0 H0; apply H; right; exact H0).
  specialize (IH Hl). rewrite (pslots_cons n l).
  destruct (N.eqb (vn_proxy n) a) eqn:Ea; destruct (vn_master n) eqn:Em; cbn [andb negb].
  - rewrite pslots_cons, <- app_assoc. apply Permutation_app_head. exact IH.
  - rewrite pslots_cons, <- app_assoc. apply Permutation_app_head. exact IH.
  - rewrite pslots_cons. eapply Permutation_trans; [apply Permutation_app_swap_app|]. apply Permutation_app_head. exact IH.
  - unfold pnode at 1. rewrite (H n (or_introl eq_refl) Em). cbn [map app]. exact IH.
Qed.

(* ---------- tagged entries through pslots ---------- *)
Definition tproj (x : tentry) : pentry := (snd (fst (fst x)), snd (fst x), snd x).

Lemma ptag_app imp x y : ptag imp (x ++ y) = ptag imp x ++ ptag imp y.
Proof. unfold ptag. apply flat_map_app. Qed.

Lemma ptag_perm imp x y : Permutation x y -> Permutation (ptag imp x) (ptag imp y).
Proof. unfold ptag. apply Permutation_flat_map. Qed.

Lemma ptag_map_stag imp addr proxy sls :
  ptag imp (map (fun sl => (proxy, sl)) sls) = map tproj (stag imp addr proxy sls).
Proof.
  induction sls as [|sl sls IH]; [reflexivity|].
  change (ptag imp ([(proxy, sl)] ++ map (fun sl0 => (proxy, sl0)) sls) = map tproj (stag imp addr proxy ([sl] ++ sls))).
  rewrite ptag_app, stag_app, map_app, IH. f_equal. unfold ptag, stag. cbn [flat_map fst snd]. rewrite !app_nil_r.
  destruct (snd sl); destruct imp; reflexivity.
Qed.

Lemma ptag_pnode imp n : ptag imp (pnode n) = map tproj (stag imp (vn_addr n) (vn_proxy n) (vn_slots n)).
Proof. apply ptag_map_stag. Qed.

Lemma ptag_pslots imp ns : ptag imp (pslots ns) = map tproj (tagged imp ns).
Proof.
  rewrite tagged_stag. induction ns as [|n l IH]; [reflexivity|].
  rewrite pslots_cons, ptag_app, ptag_pnode, IH. cbn [flat_map]. rewrite map_app. reflexivity.
Qed.

Lemma same_pmig_proj x y : same_pmig (tproj x) (tproj y) = same_mig x y.
Proof. reflexivity. Qed.

Lemma filter_map_tproj x l : filter (same_pmig (tproj x)) (map tproj l) = map tproj (filter (same_mig x) l).
Proof.
  induction l as [|y l IH]; [reflexivity|]. cbn [map filter]. rewrite same_pmig_proj, IH.
  destruct (same_mig x y); reflexivity.
Qed.

Lemma filter_perm {A} (f : A -> bool) l l' : Permutation l l' -> Permutation (filter f l) (filter f l').
Proof.
  induction 1 as [|x l l' H IH|x y l|l l' l'' H1 IH1 H2 IH2]; cbn [filter].
  - constructor.
  - destruct (f x); [apply perm_skip|]; exact IH.
  - destruct (f x), (f y); try apply Permutation_refl. apply perm_swap.
  - eapply Permutation_trans; eauto.
Qed.

(* importing entries of a partition_ok view sit on the destination node *)
Lemma partition_ok_in_addr ns y : partition_ok ns -> In y (tagged true ns) -> fst (fst (fst y)) = vm_dst_node (snd y).
Proof.
  intros HP Hy. destruct (po_in_twin _ HP y Hy) as (x & Hx & Hs).
  destruct (po_out_twin _ HP x Hx) as (y' & Hf & Hd & _).
  assert (Hin : In y (filter (same_mig x) (tagged true ns))) by (apply filter_In; auto).
  rewrite Hf in Hin. destruct Hin as [<-|[]]. rewrite Hd.
  unfold same_mig in Hs. apply andb_true_iff in Hs. destruct Hs as [_ Hs]. apply vmeta_eqb_eq in Hs. rewrite Hs. reflexivity.
Qed.

Lemma tagged_filter_in imp f ns x : In x (tagged imp (filter f ns)) -> In x (tagged imp ns).
Proof.
  unfold tagged. rewrite !in_flat_map. intros (n & Hn & H). apply filter_In in Hn. exists n. tauto.
Qed.

(* twins transfer along a permutation of the (proxy, entry) list *)
Lemma twins_transfer ns V : partition_ok ns -> Permutation V (pslots ns) ->
  (forall x, In x (ptag false V) ->
      exists y, filter (same_pmig x) (ptag true V) = [y] /\
                fst (fst y) = vm_dst_proxy (snd x) /\ fst (fst x) = vm_src_proxy (snd x)) /\
  (forall y, In y (ptag true V) -> exists x, In x (ptag false V) /\ same_pmig x y = true).
Proof.
  intros HP HV. split.
  - intros x' Hx'. apply (Permutation_in _ (ptag_perm false _ _ HV)) in Hx'. rewrite ptag_pslots in Hx'.
    apply in_map_iff in Hx'. destruct Hx' as (x & <- & Hx).
    destruct (po_out_twin _ HP x Hx) as (y & Hf & Hd1 & Hd2 & Hs1 & Hs2).
    exists (tproj y). split; [|split].
    + apply Permutation_length_1_inv. apply Permutation_sym.
      eapply Permutation_trans; [apply filter_perm, (ptag_perm true _ _ HV)|].
      rewrite ptag_pslots, filter_map_tproj, Hf. apply Permutation_refl.
    + unfold tproj. cbn [fst snd]. exact Hd2.
    + unfold tproj. cbn [fst snd]. exact Hs2.
  - intros y' Hy'. apply (Permutation_in _ (ptag_perm true _ _ HV)) in Hy'. rewrite ptag_pslots in Hy'.
    apply in_map_iff in Hy'. destruct Hy' as (y & <- & Hy).
    destruct (po_in_twin _ HP y Hy) as (x & Hx & Hs). exists (tproj x). split; [|rewrite same_pmig_proj; exact Hs].
    apply (Permutation_in _ (Permutation_sym (ptag_perm false _ _ HV))). rewrite ptag_pslots. apply in_map. exact Hx.
Qed.

(* ---------- the view of a proxy that belongs to a cluster ---------- *)
Definition proxy_view_of (a name epoch cfg : N) (ns : list vnode) : vproxy :=
  mkVProxy (Some name) epoch (filter (fun n => N.eqb (vn_proxy n) a) ns)
           (group_peers (filter (fun n => vn_master n && negb (N.eqb (vn_proxy n) a)) ns) []) (Some cfg).

Lemma view_pslots_of a name epoch cfg ns :
  view_pslots (proxy_view_of a name epoch cfg ns) =
  pslots (filter (fun n => N.eqb (vn_proxy n) a) ns) ++
  pslots (filter (fun n => vn_master n && negb (N.eqb (vn_proxy n) a)) ns).
Proof.
  unfold view_pslots, proxy_view_of. cbn [vp_nodes vp_peers]. rewrite group_peers_pslots. reflexivity.
Qed.

Theorem proxy_view_partition a name epoch cfg ns : partition_ok ns ->
  proxy_partition_ok a (proxy_view_of a name epoch cfg ns).
Proof.
  intros HP. pose proof (po_replicas _ HP) as Hrep. change (replicas_empty ns) in Hrep.
  pose proof (mine_others_perm a ns Hrep) as Hperm. rewrite <- (view_pslots_of a name epoch cfg ns) in Hperm.
  destruct (twins_transfer ns _ HP Hperm) as (Hout & Hin).
  constructor.
  - intros H. discriminate.
  - intros _ s. rewrite peer_owned_powned.
    assert (Hre : replicas_empty (vp_nodes (proxy_view_of a name epoch cfg ns))) by apply (replicas_empty_filter _ _ Hrep).
    rewrite (view_owned_powned _ Hre). rewrite <- powned_app.
    change (cnt s (powned (view_pslots (proxy_view_of a name epoch cfg ns))) = if N.ltb s SLOT_NUM then 1%nat else 0%nat).
    rewrite <- (po_cover _ HP s), (view_owned_powned _ Hrep). apply cnt_perm. unfold powned. apply Permutation_flat_map. exact Hperm.
  - apply (replicas_empty_filter _ _ Hrep).
  - intros n Hn. cbn [proxy_view_of vp_nodes] in Hn. apply filter_In in Hn. destruct Hn as [_ Hn]. apply N.eqb_eq. exact Hn.
  - cbn [proxy_view_of vp_peers]. apply (group_peers_fst (fun p => p <> a)).
    + intros n Hn. apply filter_In in Hn. destruct Hn as [_ Hn]. apply andb_true_iff in Hn. destruct Hn as [_ Hn].
      intros Heq. rewrite Heq, N.eqb_refl in Hn. discriminate.
    + intros q [].
  - exact Hout.
  - exact Hin.
  - intros x Hx. cbn [proxy_view_of vp_nodes] in Hx. apply tagged_filter_in in Hx.
    destruct (po_out_twin _ HP x Hx) as (y & _ & _ & _ & Hs & _). exact Hs.
  - intros y Hy. cbn [proxy_view_of vp_nodes] in Hy. apply tagged_filter_in in Hy. apply (partition_ok_in_addr ns y HP Hy).
  - intros _. exists ns. split; [exact HP|]. split; [reflexivity|]. rewrite (pslots_filter_master ns Hrep). exact Hperm.
Qed.

(* ---------- the view of a free proxy ---------- *)
Definition free_view_of (a epoch n0 n1 : N) : vproxy :=
  mkVProxy None epoch [mkVNode n0 a true [] 0 0; mkVNode n1 a true [] 0 0] [] None.

Theorem free_view_partition a epoch n0 n1 : proxy_partition_ok a (free_view_of a epoch n0 n1).
Proof.
  constructor; unfold free_view_of; cbn [vp_cluster vp_nodes vp_peers].
  - intros _. split; [|reflexivity]. intros n [<-|[<-|[]]]; reflexivity.
  - intros H. congruence.
  - intros n [<-|[<-|[]]]; reflexivity.
  - intros n [<-|[<-|[]]]; reflexivity.
  - intros p [].
  - intros x [].
  - intros y [].
  - intros x [].
  - intros y [].
  - intros H. congruence.
Qed.
