(* Balance half of C10: frame lemmas.  balance_inv only looks at the stable fields, the incoming ranges and the direction
   of the migration entries of each chunk, in list order; hence it survives every per-entry map that keeps ranges and
   direction, every rewrite of the other chunk fields, appending free chunks and dropping free chunks.
   Store level: every broker operation that does not start or commit a migration preserves store_balance_inv. *)
From UM Require Import Base.BytesDef Model.Ranges Model.Broker Proofs.BrokerBase Proofs.BrokerPartRanges Proofs.BrokerPartDefs
  Proofs.BrokerPartMigrateBase Proofs.BrokerPartOpsFrame Proofs.BrokerPartOpsFail Proofs.BrokerPartOpsNodes Proofs.BrokerBalanceDefs.
From Coq Require Import ZifyBool ZifyNat ZifyN.

(* ---------- store level helpers ---------- *)
Lemma store_balance_clusters s s' : st_clusters s' = st_clusters s -> store_balance_inv s -> store_balance_inv s'.
Proof. unfold store_balance_inv. intros E H name cl Hin. rewrite E in Hin. eauto. Qed.

Lemma store_balance_lookup s name cl :
  store_balance_inv s -> alookup name (st_clusters s) = Some cl -> balance_inv (cl_chunks cl).
Proof. intros H E. apply alookup_In in E. eapply H. exact E. Qed.

Lemma store_balance_insert s s' name cl :
  store_balance_inv s -> balance_inv (cl_chunks cl) -> st_clusters s' = ainsert name cl (st_clusters s) -> store_balance_inv s'.
Proof.
  unfold store_balance_inv. intros H Hcl E n c Hin. rewrite E in Hin.
  apply ainsert_In in Hin. destruct Hin as [[-> ->]|Hin]; eauto.
Qed.

Lemma store_balance_remove s s' name :
  store_balance_inv s -> st_clusters s' = aremove name (st_clusters s) -> store_balance_inv s'.
Proof. unfold store_balance_inv. intros H E n c Hin. rewrite E in Hin. apply aremove_In in Hin. eauto. Qed.

(* ---------- head / tail decomposition of balanced_at ---------- *)
Definition tailprop (c : chunk) : Prop :=
  forall p, ck_stable c p = None /\ forall e, In e (ck_mig c p) -> ms_out e = true.

Definition headprop (k : nat) (h : list chunk) : Prop :=
  forall i c p, nth_error h i = Some c -> projected c p = share (2 * N.of_nat k) (mindex i p).

Lemma balanced_at_intro h t :
  (0 < length h)%nat -> headprop (length h) h -> (forall c, In c t -> tailprop c) -> balanced_at (length h) (h ++ t).
Proof.
  intros H0 Hh Ht. split; [exact H0|]. split; [rewrite app_length; lia|]. split.
  - intros i c p Hn Hi. rewrite nth_error_app1 in Hn by exact Hi. eapply Hh. exact Hn.
  - intros i c p Hn Hi. rewrite nth_error_app2 in Hn by exact Hi. apply nth_error_In in Hn. apply (Ht c Hn p).
Qed.

Lemma balanced_at_elim k l : balanced_at k l ->
  (0 < k)%nat /\ length (firstn k l) = k /\ headprop k (firstn k l) /\ (forall c, In c (skipn k l) -> tailprop c).
Proof.
  intros (H0 & Hl & Hh & Ht).
  assert (Hfl : length (firstn k l) = k) by (apply firstn_length_le; exact Hl).
  split; [exact H0|]. split; [exact Hfl|]. split.
  - intros i c p Hn.
    assert (Hi : (i < length (firstn k l))%nat) by (apply nth_error_Some; congruence).
    pose proof (nth_error_app1 (firstn k l) (skipn k l) Hi) as Ha. rewrite firstn_skipn in Ha.
    apply Hh; [congruence|lia].
  - intros c Hc p. apply In_nth_error in Hc. destruct Hc as [j Hj].
    assert (Hle : (length (firstn k l) <= k + j)%nat) by lia.
    pose proof (nth_error_app2 (firstn k l) (skipn k l) Hle) as Ha. rewrite firstn_skipn, Hfl in Ha.
    replace (k + j - k)%nat with j in Ha by lia.
    apply (Ht (k + j)%nat c p); [congruence|lia].
Qed.

(* ---------- chunk relations that keep balanced_at ---------- *)
Definition bal_rel (c c' : chunk) : Prop :=
  forall p, ck_stable c' p = ck_stable c p /\ incoming_num c' p = incoming_num c p /\
            ((forall e, In e (ck_mig c p) -> ms_out e = true) -> forall e, In e (ck_mig c' p) -> ms_out e = true).

Lemma balanced_at_rel k l l' : Forall2 bal_rel l l' -> balanced_at k l -> balanced_at k l'.
Proof.
  intros HR (H0 & Hl & Hh & Ht). pose proof (Forall2_length_eq _ _ _ HR) as Hlen.
  split; [exact H0|]. split; [lia|]. split.
  - intros i c' p Hn Hi. pose proof (Forall2_nth _ _ _ HR i) as Hr. rewrite Hn in Hr.
    destruct (nth_error l i) as [c|] eqn:E; [|contradiction].
    destruct (Hr p) as (Es & Ei & _). rewrite <- (Hh i c p E Hi). unfold projected, stable_num. rewrite Es, Ei. reflexivity.
  - intros i c' p Hn Hi. pose proof (Forall2_nth _ _ _ HR i) as Hr. rewrite Hn in Hr.
    destruct (nth_error l i) as [c|] eqn:E; [|contradiction].
    destruct (Hr p) as (Es & _ & Eo). destruct (Ht i c p E Hi) as [Hs Ho].
    split; [rewrite Es; exact Hs|]. apply Eo. exact Ho.
Qed.

Lemma chunk_rel_bal_rel g c c' : keeps_shape g -> chunk_rel g c c' -> bal_rel c c'.
Proof.
  intros Hg (E0 & E1 & M0 & M1) p. unfold incoming_num.
  destruct p; cbn [ck_stable ck_mig].
  - rewrite E1, M1, in_ranges_map by exact Hg. split; [reflexivity|]. split; [reflexivity|].
    intros Ho e He. apply in_map_iff in He. destruct He as (e0 & <- & He0).
    destruct (Hg e0) as (_ & Hout & _). rewrite Hout. apply Ho. exact He0.
  - rewrite E0, M0, in_ranges_map by exact Hg. split; [reflexivity|]. split; [reflexivity|].
    intros Ho e He. apply in_map_iff in He. destruct He as (e0 & <- & He0).
    destruct (Hg e0) as (_ & Hout & _). rewrite Hout. apply Ho. exact He0.
Qed.

Lemma balanced_at_map_entries k g l l' :
  keeps_shape g -> Forall2 (chunk_rel g) l l' -> balanced_at k l -> balanced_at k l'.
Proof.
  intros Hg HR. apply balanced_at_rel. eapply Forall2_weaken; [|exact HR].
  intros a b Hab. eapply chunk_rel_bal_rel; eassumption.
Qed.

Lemma balance_map_entries g l l' : keeps_shape g -> Forall2 (chunk_rel g) l l' -> balance_inv l -> balance_inv l'.
Proof. intros Hg HR [k Hk]. exists k. eapply balanced_at_map_entries; eassumption. Qed.

Lemma balanced_at_same_slots k l l' : Forall2 same_slots l l' -> balanced_at k l -> balanced_at k l'.
Proof.
  intros H. apply (balanced_at_map_entries k (fun e => e)).
  - intros e. repeat split.
  - eapply Forall2_weaken; [|exact H]. intros a b (E0 & E1 & M0 & M1). unfold chunk_rel. rewrite !map_id. auto.
Qed.

Lemma balance_same_slots l l' : Forall2 same_slots l l' -> balance_inv l -> balance_inv l'.
Proof. intros HR [k Hk]. exists k. eapply balanced_at_same_slots; eassumption. Qed.

(* ---------- free chunks ---------- *)
Lemma free_tailprop c : chunk_is_free c = true -> tailprop c.
Proof.
  intros H. apply chunk_is_free_fields in H. destruct H as (E0 & E1 & M0 & M1).
  intros p. destruct p; cbn [ck_stable ck_mig].
  - rewrite E1, M1. split; [reflexivity|]. intros e [].
  - rewrite E0, M0. split; [reflexivity|]. intros e [].
Qed.

Lemma free_projected c p : chunk_is_free c = true -> projected c p = 0.
Proof.
  intros H. destruct (free_tailprop c H p) as [Hs Ho]. unfold projected.
  rewrite (stable_num_none _ _ Hs), (incoming_num_all_out _ _ Ho). reflexivity.
Qed.

Lemma balanced_at_app_free k l l2 :
  (forall c, In c l2 -> chunk_is_free c = true) -> balanced_at k l -> balanced_at k (l ++ l2).
Proof.
  intros Hf Hb. destruct (balanced_at_elim k l Hb) as (H0 & Hfl & Hh & Ht).
  rewrite <- (firstn_skipn k l), <- app_assoc. rewrite <- Hfl at 1. apply balanced_at_intro.
  - lia.
  - rewrite Hfl. exact Hh.
  - intros c Hc. apply in_app_or in Hc. destruct Hc as [Hc|Hc]; [apply Ht; exact Hc|apply free_tailprop, Hf; exact Hc].
Qed.

Lemma balance_app_free l l2 : (forall c, In c l2 -> chunk_is_free c = true) -> balance_inv l -> balance_inv (l ++ l2).
Proof. intros Hf [k Hk]. exists k. apply balanced_at_app_free; assumption. Qed.

Lemma filter_all_true {A} (f : A -> bool) l : (forall a, In a l -> f a = true) -> filter f l = l.
Proof.
  induction l as [|a l IH]; intros H; cbn [filter]; [reflexivity|].
  rewrite (H a (or_introl eq_refl)), IH; [reflexivity|]. intros b Hb. apply H. right. exact Hb.
Qed.

Lemma balanced_at_filter_nonfree k l :
  part_inv l -> balanced_at k l -> balanced_at k (filter (fun c => negb (chunk_is_free c)) l).
Proof.
  intros Hp Hb. destruct (balanced_at_elim k l Hb) as (H0 & Hfl & Hh & Ht).
  assert (Hkeep : forall c, In c (firstn k l) -> negb (chunk_is_free c) = true).
  { intros c Hc. destruct (chunk_is_free c) eqn:Ef; [|reflexivity]. exfalso.
    apply In_nth_error in Hc. destruct Hc as [i Hi].
    assert (Hik : (i < k)%nat) by (rewrite <- Hfl; apply nth_error_Some; congruence).
    assert (Hil : (i < length (firstn k l))%nat) by lia.
    pose proof (nth_error_app1 (firstn k l) (skipn k l) Hil) as Ha. rewrite firstn_skipn, Hi in Ha.
    pose proof (balanced_head_pos k l i c false Hb (pi_size l Hp) Ha Hik) as Hpos.
    rewrite (free_projected c false Ef) in Hpos. lia. }
  rewrite <- (firstn_skipn k l) at 1. rewrite filter_app, (filter_all_true _ _ Hkeep).
  rewrite <- Hfl at 1. apply balanced_at_intro.
  - lia.
  - rewrite Hfl. exact Hh.
  - intros c Hc. apply filter_In in Hc. apply Ht. tauto.
Qed.

Lemma balance_filter_nonfree l : part_inv l -> balance_inv l -> balance_inv (filter (fun c => negb (chunk_is_free c)) l).
Proof. intros Hp [k Hk]. exists k. apply balanced_at_filter_nonfree; assumption. Qed.

(* ---------- operations that keep every chunk list ---------- *)
Lemma add_failure_balance s a r now : store_balance_inv s -> store_balance_inv (fst (add_failure s a r now)).
Proof.
  intros H. unfold add_failure.
  destruct (match alookup a (st_failures s) with Some m => amem r m | None => false end); cbn [fst]; [exact H|].
  eapply store_balance_clusters; [|exact H]. reflexivity.
Qed.

Lemma get_failures_balance s now ttl q : store_balance_inv s -> store_balance_inv (fst (get_failures s now ttl q)).
Proof. intros H. unfold get_failures. cbn [fst]. eapply store_balance_clusters; [|exact H]. reflexivity. Qed.

Lemma cleanup_failures_balance s now ttl q : store_balance_inv s -> store_balance_inv (fst (cleanup_failures s now ttl q)).
Proof. intros H. unfold cleanup_failures. cbn [fst]. apply get_failures_balance. exact H. Qed.

Lemma add_proxy_balance s a h i : store_balance_inv s -> store_balance_inv (fst (add_proxy s a h i)).
Proof.
  intros H. unfold add_proxy. destruct (if st_ordered s then i else Some 0); cbn [fst]; [|exact H].
  eapply store_balance_clusters; [|exact H].
  destruct (negb (amem a (st_proxies s)) || (smem a (st_failed s) || amem a (st_failures s))); reflexivity.
Qed.

Lemma remove_proxy_balance s a : store_balance_inv s -> store_balance_inv (fst (remove_proxy s a)).
Proof.
  intros H. unfold remove_proxy. destruct (alookup a (st_proxies s)) as [r|]; cbn [fst]; [|exact H].
  destruct (pr_cluster r); cbn [fst]; [exact H|]. eapply store_balance_clusters; [|exact H]. reflexivity.
Qed.

Lemma set_all_cluster_epochs_balance s e : store_balance_inv s -> store_balance_inv (set_all_cluster_epochs s e).
Proof.
  unfold store_balance_inv, set_all_cluster_epochs. intros H name cl Hin. cbn [st_clusters with_clusters] in Hin.
  apply in_map_iff in Hin. destruct Hin as ([n c] & E & Hin). cbn [fst snd] in E. inversion E; subst.
  cbn [cl_chunks set_cl_epoch]. eapply H. exact Hin.
Qed.

Lemma force_bump_balance s e : store_balance_inv s -> store_balance_inv (fst (force_bump_all_epoch s e)).
Proof.
  intros H. unfold force_bump_all_epoch. destruct (N.leb e (st_epoch s)); cbn [fst]; [exact H|].
  apply set_all_cluster_epochs_balance. exact H.
Qed.

Lemma recover_epoch_balance s e : store_balance_inv s -> store_balance_inv (recover_epoch s e).
Proof. intros H. unfold recover_epoch. apply set_all_cluster_epochs_balance. exact H. Qed.

Lemma restore_balance s snap : store_balance_inv s -> store_balance_inv snap -> store_balance_inv (fst (restore s snap)).
Proof. intros H Hs. unfold restore. destruct (N.ltb (st_epoch snap) (st_epoch s)); cbn [fst]; assumption. Qed.

Lemma change_config_balance s name valid cfg : store_balance_inv s -> store_balance_inv (fst (change_config s name valid cfg)).
Proof.
  intros H. unfold change_config. destruct (alookup name (st_clusters s)) as [cl|] eqn:E; cbn [fst]; [|exact H].
  destruct (cluster_is_migrating cl); cbn [fst]; [exact H|]. destruct (negb valid); cbn [fst]; [exact H|].
  eapply store_balance_insert; [exact H| |reflexivity].
  cbn [cl_chunks]. eapply store_balance_lookup; eassumption.
Qed.

Lemma remove_cluster_balance s name : store_balance_inv s -> store_balance_inv (fst (remove_cluster s name)).
Proof.
  intros H. unfold remove_cluster. destruct (alookup name (st_clusters s)) as [cl|] eqn:E; cbn [fst]; [|exact H].
  eapply store_balance_remove; [exact H|reflexivity].
Qed.

Lemma balance_masters_balance s name : store_balance_inv s -> store_balance_inv (fst (balance_masters s name)).
Proof.
  intros H. unfold balance_masters. destruct (alookup name (st_clusters s)) as [cl|] eqn:E; cbn [fst]; [|exact H].
  eapply store_balance_insert; [exact H| |reflexivity].
  cbn [cl_chunks].
  eapply balance_same_slots; [|eapply store_balance_lookup; eassumption].
  apply Forall2_map_self. intros c.
  destruct (_ || _); [apply same_slots_refl|apply same_slots_set_role].
Qed.

(* ---------- failover ---------- *)
Lemma takeover_master_balance cl failed ne : balance_inv (cl_chunks cl) -> balance_inv (cl_chunks (takeover_master cl failed ne)).
Proof.
  unfold takeover_master. intros H.
  destruct (takeover_first (cl_chunks cl) failed ne) as [[chunks1 ps]|] eqn:E; [|exact H].
  cbn [cl_chunks]. apply takeover_first_spec in E.
  eapply (balance_map_entries (reepoch_peers ps ne)); [apply keeps_shape_reepoch| |exact H].
  eapply Forall2_map_right; [|exact E].
  intros c c1 (E0 & E1 & T0 & T1). unfold chunk_rel.
  cbn [set_mig ck_stable0 ck_stable1 ck_mig0 ck_mig1].
  split; [exact E0|]. split; [exact E1|]. split.
  - destruct T0 as [->|[-> Hf]]; [reflexivity|apply reepoch_absorbs; exact Hf].
  - destruct T1 as [->|[-> Hf]]; [reflexivity|apply reepoch_absorbs; exact Hf].
Qed.

Lemma replace_in_chunks_balance chunks failed r rr : balance_inv chunks -> balance_inv (replace_in_chunks chunks failed r rr).
Proof. apply balance_same_slots. apply replace_in_chunks_same. Qed.

Lemma replace_failed_proxy_balance s failed choice :
  store_balance_inv s -> store_balance_inv (fst (replace_failed_proxy s failed choice)).
Proof.
  intros H. unfold replace_failed_proxy.
  destruct (alookup failed (st_proxies s)) as [fr|]; cbn [fst]; [|exact H].
  destruct (pr_cluster fr) as [name|]; cbn [fst]; [|eapply store_balance_clusters; [|exact H]; reflexivity].
  assert (H1 : store_balance_inv (bump s)) by (eapply store_balance_clusters; [|exact H]; reflexivity).
  destruct (alookup name (st_clusters (bump s))) as [cl|] eqn:E; cbn [fst]; [|exact H1].
  set (s2 := with_clusters (bump s) (ainsert name (takeover_master cl failed (st_epoch (bump s))) (st_clusters (bump s)))).
  assert (H2 : store_balance_inv s2).
  { eapply store_balance_insert; [exact H1| |reflexivity]. apply takeover_master_balance. eapply store_balance_lookup; eassumption. }
  destruct (st_ordered s2); cbn [fst]; [eapply store_balance_clusters; [|exact H2]; reflexivity|].
  set (s3 := with_failed s2 (sinsert failed (st_failed s2))).
  assert (H3 : store_balance_inv s3) by (eapply store_balance_clusters; [|exact H2]; reflexivity).
  destruct (generate_new_free_proxy s3 failed choice) as [r| |]; cbn [fst]; try exact H3.
  assert (H4 : store_balance_inv (bump s3)) by (eapply store_balance_clusters; [|exact H3]; reflexivity).
  destruct (alookup name (st_clusters (bump s3))) as [cl2|] eqn:E2; cbn [fst]; [|exact H4].
  eapply store_balance_insert; [exact H4| |reflexivity].
  cbn [cl_chunks]. apply replace_in_chunks_balance. eapply store_balance_lookup; eassumption.
Qed.

(* ---------- growing and shrinking by free chunks ---------- *)
Lemma auto_add_nodes_balance s name num choices :
  store_balance_inv s -> store_balance_inv (fst (auto_add_nodes s name num choices)).
Proof.
  intros H. unfold auto_add_nodes.
  destruct (alookup name (st_clusters s)) as [cl|] eqn:E; cbn [fst]; [|exact H].
  destruct (cluster_is_migrating cl); cbn [fst]; [exact H|].
  destruct (negb (N.eqb (num mod 4) 0)) eqn:E4; cbn [fst]; [exact H|].
  destruct (N.eqb (num / 2) 0); cbn [fst]; [exact H|].
  destruct (N.ltb SLOT_NUM _) eqn:Esz; cbn [fst]; [exact H|].
  destruct (gen_chunks s (num / 2) _ choices) as [pairs| |] eqn:Eg; cbn [fst]; try exact H.
  eapply store_balance_insert; [eapply store_balance_clusters; [|exact H]; reflexivity| |reflexivity].
  cbn [cl_chunks].
  apply balance_app_free.
  - unfold proxy_resource_to_chunk_store. intros c Hc. eapply chunks_of_pairs_free. exact Hc.
  - eapply store_balance_lookup; eassumption.
Qed.

Lemma auto_scale_up_nodes_balance s name expected choices :
  store_balance_inv s -> store_balance_inv (fst (auto_scale_up_nodes s name expected choices)).
Proof.
  intros H. unfold auto_scale_up_nodes.
  destruct (alookup name (st_clusters s)) as [cl|]; cbn [fst]; [|exact H].
  destruct (N.leb expected _); cbn [fst]; [exact H|]. apply auto_add_nodes_balance. exact H.
Qed.

Lemma auto_delete_free_nodes_balance s name :
  store_part_inv s -> store_balance_inv s -> store_balance_inv (fst (auto_delete_free_nodes s name)).
Proof.
  intros Hp H. unfold auto_delete_free_nodes.
  destruct (alookup name (st_clusters s)) as [cl|] eqn:E; cbn [fst]; [|exact H].
  destruct (cluster_is_migrating cl) eqn:Em; cbn [fst]; [exact H|].
  destruct (filter chunk_is_free (cl_chunks cl)) as [|c0 removed]; cbn [fst]; [exact H|].
  eapply store_balance_insert; [exact H| |reflexivity].
  cbn [cl_chunks]. apply balance_filter_nonfree.
  - eapply store_inv_lookup; eassumption.
  - eapply store_balance_lookup; eassumption.
Qed.

Lemma auto_delete_free_nodes_if_exists_balance s name :
  store_part_inv s -> store_balance_inv s -> store_balance_inv (fst (auto_delete_free_nodes_if_exists s name)).
Proof. intros Hp H. rewrite auto_delete_if_exists_fst. apply auto_delete_free_nodes_balance; assumption. Qed.
