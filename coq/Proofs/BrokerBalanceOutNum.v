(* Numbers of the scale-out planner (remove_slots_from_src): every source master ends with exactly its share among the
   new number of masters, every destination master is addressed migrations worth exactly its share. *)
From UM Require Import Base.BytesDef Model.Ranges Model.Broker Proofs.BrokerBase Proofs.BrokerPartRanges Proofs.BrokerPartDefs
  Proofs.BrokerPartMigrateBase Proofs.BrokerPartMigrateSum Proofs.BrokerPartMigrateOut
  Proofs.BrokerBalanceDefs Proofs.BrokerBalancePlanDefs Proofs.BrokerBalanceQuiet.
From Coq Require Import ZifyBool ZifyNat ZifyN Permutation.

Ltac msplit := repeat match goal with |- _ /\ _ => split end.
Ltac fin := msplit; auto; try lia; try (let s := fresh "s" in intros s; lia); try (left; lia); try (right; lia).

(* taking remove_num slots from the back range of a source *)
Lemma take_back_spec front r cur anum remove_num num rl1 cur1 num1 :
  wf_range r -> num = snd r - fst r + 1 -> 1 <= remove_num ->
  (if N.leb num remove_num then (front, cur ++ [r], anum + num)
   else (front ++ [(fst r, snd r - remove_num)], cur ++ [(snd r - remove_num + 1, snd r)], anum + remove_num)) = (rl1, cur1, num1) ->
  Forall wf_range front -> Forall wf_range cur ->
  exists t, 1 <= t /\ t <= remove_num /\ (t = remove_num \/ (t = num /\ num <= remove_num)) /\
    num1 = anum + t /\ slots_total (front ++ [r]) = slots_total rl1 + t /\
    slots_total cur1 = slots_total cur + t /\ (length rl1 <= length front + 1)%nat /\
    (t = num -> length rl1 = length front) /\
    Forall wf_range rl1 /\ Forall wf_range cur1 /\ cur1 <> [] /\
    forall s, (cnt s rl1 + cnt s cur1 = cnt s (front ++ [r]) + cnt s cur)%nat.
Proof.
  intros Hr Hnum Hrem Hstep Hf Hc. unfold wf_range in Hr.
  destruct (N.leb num remove_num) eqn:E; inversion Hstep; subst rl1 cur1 num1; clear Hstep.
  - exists num. msplit; try lia.
    + rewrite slots_total_app, slots_total_cons. change (slots_total []) with 0. lia.
    + rewrite slots_total_app, slots_total_cons. change (slots_total []) with 0. lia.
    + assumption.
    + apply Forall_snoc. split; assumption.
    + apply snoc_not_nil.
    + intros s. rewrite !cnt_snoc. lia.
  - exists remove_num. msplit; try lia.
    + rewrite !slots_total_app, !slots_total_cons. change (slots_total []) with 0. cbn [fst snd]. lia.
    + rewrite !slots_total_app, !slots_total_cons. change (slots_total []) with 0. cbn [fst snd]. lia.
    + rewrite app_length. cbn [length]. lia.
    + apply Forall_snoc. split; [assumption|]. unfold wf_range. cbn [fst snd]. lia.
    + apply Forall_snoc. split; [assumption|]. unfold wf_range. cbn [fst snd]. lia.
    + apply snoc_not_nil.
    + intros s. rewrite !cnt_snoc.
      assert (Hs := in_range_split_back s (fst r) (snd r) remove_num).
      replace (fst r, snd r) with r in Hs by (destruct r; reflexivity). rewrite Hs by lia. lia.
Qed.

Section OutNum.
Variables (epoch avg rem smn dmn : N) (scn : nat).
Hypothesis Hsmn : smn = 2 * N.of_nat scn.
Hypothesis Havg : 1 <= avg.

(* share of master j and sum of the shares of the first k masters, in terms of the planner's average / remainder *)
Definition sfo (j : N) : N := avg + b2n (N.ltb j rem).
Definition pfx (k : N) : N := avg * k + N.min k rem.

Lemma pfx_succ k : pfx (k + 1) = pfx k + sfo k.
Proof. unfold pfx, sfo, b2n. destruct (N.ltb k rem) eqn:E; lia. Qed.

Lemma sfo_pos j : 1 <= sfo j.
Proof. unfold sfo, b2n. destruct (N.ltb j rem); lia. Qed.

Lemma pfx_mono a b : a <= b -> pfx a <= pfx b.
Proof. intros H. unfold pfx. assert (avg * a <= avg * b) by (apply N.mul_le_mono_l; exact H). lia. Qed.

(* slots delivered so far to each destination master *)
Definition Go (acc : macc) : Prop := forall d,
  msum d (a_migs acc) + (if N.eqb d (smn + a_dst acc) then slots_total (a_cur acc) else 0) =
  (if N.ltb d smn then 0 else if N.ltb d (smn + a_dst acc) then sfo d else if N.eqb d (smn + a_dst acc) then a_num acc else 0).

Definition dst_ok (migs : list (rangelist * mig_meta)) : Prop := forall l m, In (l, m) migs -> dst_master m < smn + dmn.

Definition opre (idx : nat) (part : bool) (rl : rangelist) (acc : macc) : Prop :=
  a_cur acc = [] \/ (a_dst acc <> dmn /\ sfo (mindex idx part) < slots_total rl).

Lemma scale_out_loop_num : forall fuel idx part rl acc rl' acc',
  scale_out_loop fuel epoch avg rem smn dmn scn idx part rl acc = Done (rl', acc') ->
  Forall wf_range rl -> Forall wf_range (a_cur acc) -> (forall s, (cnt s rl + cnt s (a_cur acc) <= 1)%nat) ->
  a_num acc < sfo (smn + a_dst acc) -> a_dst acc <= dmn -> sfo (mindex idx part) <= slots_total rl ->
  opre idx part rl acc -> Go acc -> dst_ok (a_migs acc) ->
  Forall wf_range rl' /\ (forall s, (cnt s rl' <= cnt s rl + cnt s (a_cur acc))%nat) /\ a_cur acc' = [] /\
  a_num acc' < sfo (smn + a_dst acc') /\ a_dst acc' <= dmn /\
  sfo (mindex idx part) <= slots_total rl' /\ (slots_total rl' = sfo (mindex idx part) \/ a_dst acc' = dmn) /\
  slots_total rl' + a_num acc' + pfx (smn + a_dst acc') = slots_total rl + a_num acc + pfx (smn + a_dst acc) /\
  Go acc' /\ dst_ok (a_migs acc').
Proof.
  induction fuel as [|fuel IH]; intros idx part rl acc rl' acc' H Hwrl Hwcur Hcnt Hnum Hdst Hsf Hpre HG Hok;
    cbn [scale_out_loop] in H; [discriminate|].
  destruct (N.eqb (a_dst acc) dmn) eqn:Ed.
  { inversion H; subst rl' acc'. clear H.
    assert (Hcur : a_cur acc = []) by (destruct Hpre as [Hc|[Hc _]]; [exact Hc|lia]).
    fin. }
  change (2 * N.of_nat idx + b2n part) with (mindex idx part) in H.
  change (avg + b2n (N.ltb (mindex idx part) rem)) with (sfo (mindex idx part)) in H.
  change (avg + b2n (N.ltb (smn + a_dst acc) rem)) with (sfo (smn + a_dst acc)) in H.
  rewrite (slots_num_total rl Hwrl) in H.
  destruct (N.leb (slots_total rl) (sfo (mindex idx part))) eqn:En.
  { inversion H; subst rl' acc'. clear H.
    assert (Hcur : a_cur acc = []) by (destruct Hpre as [Hc|[_ Hc]]; [exact Hc|lia]).
    fin. }
  destruct (csub (sfo (smn + a_dst acc)) (a_num acc)) as [need|] eqn:Ec; [|discriminate].
  apply csub_some in Ec. destruct Ec as [_ Hneed].
  destruct (split_last rl) as [[front r]|] eqn:Esl; [|discriminate].
  apply split_last_spec in Esl. subst rl.
  apply Forall_snoc in Hwrl as Hw'. destruct Hw' as [Hwf Hwr].
  rewrite (range_len_wf r Hwr) in H.
  set (n := slots_total (front ++ [r])) in *.
  set (sf := sfo (mindex idx part)) in *.
  set (df := sfo (smn + a_dst acc)) in *.
  assert (Hrn : 1 <= N.min need (n - sf)) by lia.
  match type of H with context [if N.leb ?a ?b then (?x, ?y, ?z) else ?w] =>
    destruct (if N.leb a b then (x, y, z) else w) as [[rl1 cur1] num1] eqn:Estep end.
  destruct (take_back_spec front r (a_cur acc) (a_num acc) _ _ rl1 cur1 num1 Hwr eq_refl Hrn Estep Hwf Hwcur)
    as (t & Ht1 & Ht2 & _ & Hnum1 & Hst & Hsc & _ & _ & Hwrl1 & Hwcur1 & Hcur1ne & Hcn).
  clear Estep. unfold range in *. fold n in Hst.
  assert (Hcn0 : forall s, (cnt s rl1 + cnt s cur1 <= 1)%nat).
  { intros s. specialize (Hcnt s). specialize (Hcn s). unfold range in *. lia. }
  assert (Hcn' : forall s, (cnt s rl1 <= cnt s (front ++ [r]) + cnt s (a_cur acc))%nat).
  { intros s. specialize (Hcn s). unfold range in *. lia. }
  rewrite (slots_num_total rl1 Hwrl1) in H.
  assert (Hcur1le : forall s, (cnt s cur1 <= 1)%nat).
  { intros s. specialize (Hcn0 s). lia. }
  pose proof (compact_total cur1 Hwcur1 Hcur1le) as Hct.
  assert (Ha1 : a_dst acc < dmn) by lia.
  destruct (N.leb df num1 || N.leb (slots_total rl1) sf) eqn:Efl.
  - (* flush *)
    set (meta := mkMeta epoch idx part (scn + N.to_nat (a_dst acc / 2)) (N.eqb (a_dst acc mod 2) 1)) in *.
    assert (Hdm : dst_master meta = smn + a_dst acc).
    { unfold meta. rewrite dst_master_meta. lia. }
    assert (Hok' : dst_ok ((rl_new cur1, meta) :: a_migs acc)).
    { intros l m [Hlm|Hlm]; [inversion Hlm; subst; rewrite Hdm; lia|eapply Hok; exact Hlm]. }
    (* the destination sums after the push *)
    assert (HG1 : forall d, msum d ((rl_new cur1, meta) :: a_migs acc) =
                  msum d (a_migs acc) + (if N.eqb d (smn + a_dst acc) then slots_total cur1 else 0)).
    { intros d. rewrite msum_cons, Hdm. unfold rl_new. rewrite Hct.
      destruct (N.eqb (smn + a_dst acc) d) eqn:E1; destruct (N.eqb d (smn + a_dst acc)) eqn:E2; lia. }
    destruct (N.leb df num1) eqn:Eadv.
    + (* destination complete *)
      assert (Heq : num1 = df) by lia.
      assert (HG' : Go (mkAcc (a_dst acc + 1) [] 0 ((rl_new cur1, meta) :: a_migs acc))).
      { intros d. cbn [a_dst a_cur a_num a_migs]. rewrite HG1. specialize (HG d).
        change (slots_total []) with 0.
        destruct (N.eqb d (smn + a_dst acc)) eqn:E1; destruct (N.eqb d (smn + (a_dst acc + 1))) eqn:E2;
          destruct (N.ltb d smn) eqn:E3; destruct (N.ltb d (smn + a_dst acc)) eqn:E4;
          destruct (N.ltb d (smn + (a_dst acc + 1))) eqn:E5; try lia.
        assert (d = smn + a_dst acc) by lia. subst d. fold df. lia. }
      assert (Hnum' : 0 < sfo (smn + (a_dst acc + 1))) by (pose proof (sfo_pos (smn + (a_dst acc + 1))); lia).
      assert (Hpf : pfx (smn + (a_dst acc + 1)) = pfx (smn + a_dst acc) + df).
      { replace (smn + (a_dst acc + 1)) with (smn + a_dst acc + 1) by lia. apply pfx_succ. }
      destruct (N.leb (slots_total rl1) sf) eqn:En1.
      * inversion H; subst rl' acc'. clear H. cbn [a_dst a_cur a_num a_migs].
        fin.
      * assert (Hc0 : forall s, (cnt s rl1 + cnt s [] <= 1)%nat).
        { intros s. rewrite cnt_nil. specialize (Hcn0 s). lia. }
        pose proof (IH idx part rl1 _ rl' acc' H Hwrl1 (Forall_nil _) Hc0 Hnum' ltac:(cbn [a_dst]; lia) ltac:(lia)
                       (or_introl eq_refl) HG' Hok') as R.
        destruct R as (H1 & H2 & H3 & H4 & H5 & H6 & H7 & H8 & H9 & H10).
        cbn [a_dst a_cur a_num a_migs] in H2, H8. msplit; auto; try lia.
        intros s. specialize (H2 s). specialize (Hcn' s). rewrite cnt_nil in H2. lia.
    + (* source at its final size before the destination is complete *)
      cbn [orb] in Efl. rewrite Efl in H.
      inversion H; subst rl' acc'. clear H. cbn [a_dst a_cur a_num a_migs].
      assert (HG' : Go (mkAcc (a_dst acc) [] num1 ((rl_new cur1, meta) :: a_migs acc))).
      { intros d. cbn [a_dst a_cur a_num a_migs]. rewrite HG1. specialize (HG d).
        change (slots_total []) with 0.
        destruct (N.eqb d (smn + a_dst acc)) eqn:E1; destruct (N.ltb d smn) eqn:E3;
          destruct (N.ltb d (smn + a_dst acc)) eqn:E4; lia. }
      fin.
  - (* keep collecting *)
    apply orb_false_iff in Efl. destruct Efl as [Eadv En1].
    assert (HGk : Go (mkAcc (a_dst acc) cur1 num1 (a_migs acc))).
    { intros d. cbn [a_dst a_cur a_num a_migs]. specialize (HG d).
      destruct (N.eqb d (smn + a_dst acc)) eqn:E1; destruct (N.ltb d smn) eqn:E3;
        destruct (N.ltb d (smn + a_dst acc)) eqn:E4; lia. }
    assert (Hpk : opre idx part rl1 (mkAcc (a_dst acc) cur1 num1 (a_migs acc))).
    { right. cbn [a_dst]. split; lia. }
    pose proof (IH idx part rl1 _ rl' acc' H Hwrl1 Hwcur1 Hcn0 ltac:(cbn [a_dst a_num]; lia) Hdst ltac:(lia)
                   Hpk HGk Hok) as R.
    destruct R as (H1 & H2 & H3 & H4 & H5 & H6 & H7 & H8 & H9 & H10).
    cbn [a_dst a_cur a_num a_migs] in H2, H8. msplit; auto; try lia.
    intros s. specialize (H2 s). specialize (Hcn s). lia.
Qed.

End OutNum.
