(* Numbers of the scale-out planner (remove_slots_from_src): every source master ends with exactly its share among the
   new number of masters, every destination master is addressed migrations worth exactly its share. *)
From UM Require Import Base.BytesDef Model.Ranges Model.Broker Proofs.BrokerBase Proofs.BrokerPartRanges Proofs.BrokerPartDefs
  Proofs.BrokerPartMigrateBase Proofs.BrokerPartMigrateSum Proofs.BrokerPartMigrateOut
  Proofs.BrokerBalanceDefs Proofs.BrokerBalancePlanDefs Proofs.BrokerBalanceQuiet.
From Coq Require Import ZifyBool ZifyNat ZifyN Permutation.

Ltac msplit := repeat match goal with |- _ /\ _ => split end.
Ltac fin := msplit; auto; try lia; try (let s := fresh "s" in intros s; lia); try (left; lia); try (right; lia).

(* taking remove_num slots from the back range of a source *)
Lemma take_back_spec front r cur anum remove_num num rl1 cur1 num1 :
  wf_range r -> num = snd r - fst r + 1 -> 1 <= remove_num ->
  (if N.leb num remove_num then (front, cur ++ [r], anum + num)
   else (front ++ [(fst r, snd r - remove_num)], cur ++ [(snd r - remove_num + 1, snd r)], anum + remove_num)) = (rl1, cur1, num1) ->
  Forall wf_range front -> Forall wf_range cur ->
  exists t, 1 <= t /\ t <= remove_num /\ (t = remove_num \/ (t = num /\ num <= remove_num)) /\
    num1 = anum + t /\ slots_total (front ++ [r]) = slots_total rl1 + t /\
    slots_total cur1 = slots_total cur + t /\ (length rl1 <= length front + 1)%nat /\
    (t = num -> length rl1 = length front) /\
    Forall wf_range rl1 /\ Forall wf_range cur1 /\ cur1 <> [] /\
    forall s, (cnt s rl1 + cnt s cur1 = cnt s (front ++ [r]) + cnt s cur)%nat.
Proof.
  intros Hr Hnum Hrem Hstep Hf Hc. unfold wf_range in Hr.
  destruct (N.leb num remove_num) eqn:E; inversion Hstep; subst rl1 cur1 num1; clear Hstep.
  - exists num. msplit; try lia.
    + rewrite slots_total_app, slots_total_cons. change (slots_total []) with 0. lia.
    + rewrite slots_total_app, slots_total_cons. change (slots_total []) with 0. lia.
    + assumption.
    + apply Forall_snoc. split; assumption.
    + apply snoc_not_nil.
    + intros s. rewrite !cnt_snoc. lia.
  - exists remove_num. msplit; try lia.
    + rewrite !slots_total_app, !slots_total_cons. change (slots_total []) with 0. cbn [fst snd]. lia.
    + rewrite !slots_total_app, !slots_total_cons. change (slots_total []) with 0. cbn [fst snd]. lia.
    + rewrite app_length. cbn [length]. lia.
    + apply Forall_snoc. split; [assumption|]. unfold wf_range. cbn [fst snd]. lia.
    + apply Forall_snoc. split; [assumption|]. unfold wf_range. cbn [fst snd]. lia.
    + apply snoc_not_nil.
    + intros s. rewrite !cnt_snoc.
      assert (Hs := in_range_split_back s (fst r) (snd r) remove_num).
      replace (fst r, snd r) with r in Hs by (destruct r; reflexivity). rewrite Hs by lia. lia.
Qed.

Section OutNum.
Variables (epoch avg rem smn dmn : N) (scn : nat).
Hypothesis Hsmn : smn = 2 * N.of_nat scn.
Hypothesis Havg : 1 <= avg.

(* share of master j and sum of the shares of the first k masters, in terms of the planner's average / remainder *)
Definition sfo (j : N) : N := avg + b2n (N.ltb j rem).
Definition pfx (k : N) : N := avg * k + N.min k rem.

Lemma pfx_succ k : pfx (k + 1) = pfx k + sfo k.
Proof. unfold pfx, sfo, b2n. destruct (N.ltb k rem) eqn:E; lia. Qed.

Lemma sfo_pos j : 1 <= sfo j.
Proof. unfold sfo, b2n. destruct (N.ltb j rem); lia. Qed.

Lemma pfx_mono a b : a <= b -> pfx a <= pfx b.
Proof. intros H. unfold pfx. assert (avg * a <= avg * b) by (apply N.mul_le_mono_l; exact H). lia. Qed.

(* slots delivered so far to each destination master *)
Definition Go (acc : macc) : Prop := forall d,
  msum d (a_migs acc) + (if N.eqb d (smn + a_dst acc) then slots_total (a_cur acc) else 0) =
  (if N.ltb d smn then 0 else if N.ltb d (smn + a_dst acc) then sfo d else if N.eqb d (smn + a_dst acc) then a_num acc else 0).

Definition dst_ok (migs : list (rangelist * mig_meta)) : Prop := forall l m, In (l, m) migs -> dst_master m < smn + dmn.

Definition opre (idx : nat) (part : bool) (rl : rangelist) (acc : macc) : Prop :=
  a_cur acc = [] \/ (a_dst acc <> dmn /\ sfo (mindex idx part) < slots_total rl).

Lemma scale_out_loop_num : forall fuel idx part rl acc rl' acc',
  scale_out_loop fuel epoch avg rem smn dmn scn idx part rl acc = Done (rl', acc') ->
  Forall wf_range rl -> Forall wf_range (a_cur acc) -> (forall s, (cnt s rl + cnt s (a_cur acc) <= 1)%nat) ->
  a_num acc < sfo (smn + a_dst acc) -> a_dst acc <= dmn -> sfo (mindex idx part) <= slots_total rl ->
  opre idx part rl acc -> Go acc -> dst_ok (a_migs acc) ->
  Forall wf_range rl' /\ (forall s, (cnt s rl' <= cnt s rl + cnt s (a_cur acc))%nat) /\ a_cur acc' = [] /\
  a_num acc' < sfo (smn + a_dst acc') /\ a_dst acc' <= dmn /\
  sfo (mindex idx part) <= slots_total rl' /\ (slots_total rl' = sfo (mindex idx part) \/ a_dst acc' = dmn) /\
  slots_total rl' + a_num acc' + pfx (smn + a_dst acc') = slots_total rl + a_num acc + pfx (smn + a_dst acc) /\
  Go acc' /\ dst_ok (a_migs acc').
Proof.
  induction fuel as [|fuel IH]; intros idx part rl acc rl' acc' H Hwrl Hwcur Hcnt Hnum Hdst Hsf Hpre HG Hok;
    cbn [scale_out_loop] in H; [discriminate|].
  destruct (N.eqb (a_dst acc) dmn) eqn:Ed.
  { inversion H; subst rl' acc'. clear H.
    assert (Hcur : a_cur acc = []) by (destruct Hpre as [Hc|[Hc _]]; [exact Hc|lia]).
    fin. }
  change (2 * N.of_nat idx + b2n part) with (mindex idx part) in H.
  change (avg + b2n (N.ltb (mindex idx part) rem)) with (sfo (mindex idx part)) in H.
  change (avg + b2n (N.ltb (smn + a_dst acc) rem)) with (sfo (smn + a_dst acc)) in H.
  rewrite (slots_num_total rl Hwrl) in H.
  destruct (N.leb (slots_total rl) (sfo (mindex idx part))) eqn:En.
  { inversion H; subst rl' acc'. clear H.
    assert (Hcur : a_cur acc = []) by (destruct Hpre as [Hc|[_ Hc]]; [exact Hc|lia]).
    fin. }
  destruct (csub (sfo (smn + a_dst acc)) (a_num acc)) as [need|] eqn:Ec; [|discriminate].
  apply csub_some in Ec. destruct Ec as [_ Hneed].
  destruct (split_last rl) as [[front r]|] eqn:Esl; [|discriminate].
  apply split_last_spec in Esl. subst rl.
  apply Forall_snoc in Hwrl as Hw'. destruct Hw' as [Hwf Hwr].
  rewrite (range_len_wf r Hwr) in H.
  set (n := slots_total (front ++ [r])) in *.
  set (sf := sfo (mindex idx part)) in *.
  set (df := sfo (smn + a_dst acc)) in *.
  assert (Hrn : 1 <= N.min need (n - sf)) by lia.
  match type of H with context [if N.leb ?a ?b then (?x, ?y, ?z) else ?w] =>
    destruct (if N.leb a b then (x, y, z) else w) as [[rl1 cur1] num1] eqn:Estep end.
  destruct (take_back_spec front r (a_cur acc) (a_num acc) _ _ rl1 cur1 num1 Hwr eq_refl Hrn Estep Hwf Hwcur)
    as (t & Ht1 & Ht2 & _ & Hnum1 & Hst & Hsc & _ & _ & Hwrl1 & Hwcur1 & Hcur1ne & Hcn).
  clear Estep. unfold range in *. fold n in Hst.
  assert (Hcn0 : forall s, (cnt s rl1 + cnt s cur1 <= 1)%nat).
  { intros s. specialize (Hcnt s). specialize (Hcn s). unfold range in *. lia. }
  assert (Hcn' : forall s, (cnt s rl1 <= cnt s (front ++ [r]) + cnt s (a_cur acc))%nat).
  { intros s. specialize (Hcn s). unfold range in *. lia. }
  rewrite (slots_num_total rl1 Hwrl1) in H.
  assert (Hcur1le : forall s, (cnt s cur1 <= 1)%nat).
  { intros s. specialize (Hcn0 s). lia. }
  pose proof (compact_total cur1 Hwcur1 Hcur1le) as Hct.
  assert (Ha1 : a_dst acc < dmn) by lia.
  destruct (N.leb df num1 || N.leb (slots_total rl1) sf) eqn:Efl.
  - (* flush *)
    set (meta := mkMeta epoch idx part (scn + N.to_nat (a_dst acc / 2)) (N.eqb (a_dst acc mod 2) 1)) in *.
    assert (Hdm : dst_master meta = smn + a_dst acc).
    { unfold meta. rewrite dst_master_meta. lia. }
    assert (Hok' : dst_ok ((rl_new cur1, meta) :: a_migs acc)).
    { intros l m [Hlm|Hlm]; [inversion Hlm; subst; rewrite Hdm; lia|eapply Hok; exact Hlm]. }
    (* the destination sums after the push *)
    assert (HG1 : forall d, msum d ((rl_new cur1, meta) :: a_migs acc) =
                  msum d (a_migs acc) + (if N.eqb d (smn + a_dst acc) then slots_total cur1 else 0)).
    { intros d. rewrite msum_cons, Hdm. unfold rl_new. rewrite Hct.
      destruct (N.eqb (smn + a_dst acc) d) eqn:E1; destruct (N.eqb d (smn + a_dst acc)) eqn:E2; lia. }
    destruct (N.leb df num1) eqn:Eadv.
    + (* destination complete *)
      assert (Heq : num1 = df) by lia.
      assert (HG' : Go (mkAcc (a_dst acc + 1) [] 0 ((rl_new cur1, meta) :: a_migs acc))).
      { intros d. cbn [a_dst a_cur a_num a_migs]. rewrite HG1. specialize (HG d).
        change (slots_total []) with 0.
        destruct (N.eqb d (smn + a_dst acc)) eqn:E1; destruct (N.eqb d (smn + (a_dst acc + 1))) eqn:E2;
          destruct (N.ltb d smn) eqn:E3; destruct (N.ltb d (smn + a_dst acc)) eqn:E4;
          destruct (N.ltb d (smn + (a_dst acc + 1))) eqn:E5; try lia.
        assert (d = smn + a_dst acc) by lia. subst d. fold df. lia. }
      assert (Hnum' : 0 < sfo (smn + (a_dst acc + 1))) by (pose proof (sfo_pos (smn + (a_dst acc + 1))); lia).
      assert (Hpf : pfx (smn + (a_dst acc + 1)) = pfx (smn + a_dst acc) + df).
      { replace (smn + (a_dst acc + 1)) with (smn + a_dst acc + 1) by lia. apply pfx_succ. }
      destruct (N.leb (slots_total rl1) sf) eqn:En1.
      * inversion H; subst rl' acc'. clear H. cbn [a_dst a_cur a_num a_migs].
        fin.
      * assert (Hc0 : forall s, (cnt s rl1 + cnt s [] <= 1)%nat).
        { intros s. rewrite cnt_nil. specialize (Hcn0 s). lia. }
        pose proof (IH idx part rl1 _ rl' acc' H Hwrl1 (Forall_nil _) Hc0 Hnum' ltac:(cbn [a_dst]; lia) ltac:(lia)
                       (or_introl eq_refl) HG' Hok') as R.
        destruct R as (H1 & H2 & H3 & H4 & H5 & H6 & H7 & H8 & H9 & H10).
        cbn [a_dst a_cur a_num a_migs] in H2, H8. msplit; auto; try lia.
        intros s. specialize (H2 s). specialize (Hcn' s). rewrite cnt_nil in H2. lia.
    + (* source at its final size before the destination is complete *)
      cbn [orb] in Efl. rewrite Efl in H.
      inversion H; subst rl' acc'. clear H. cbn [a_dst a_cur a_num a_migs].
      assert (HG' : Go (mkAcc (a_dst acc) [] num1 ((rl_new cur1, meta) :: a_migs acc))).
      { intros d. cbn [a_dst a_cur a_num a_migs]. rewrite HG1. specialize (HG d).
        change (slots_total []) with 0.
        destruct (N.eqb d (smn + a_dst acc)) eqn:E1; destruct (N.ltb d smn) eqn:E3;
          destruct (N.ltb d (smn + a_dst acc)) eqn:E4; lia. }
      fin.
  - (* keep collecting *)
    apply orb_false_iff in Efl. destruct Efl as [Eadv En1].
    assert (HGk : Go (mkAcc (a_dst acc) cur1 num1 (a_migs acc))).
    { intros d. cbn [a_dst a_cur a_num a_migs]. specialize (HG d).
      destruct (N.eqb d (smn + a_dst acc)) eqn:E1; destruct (N.ltb d smn) eqn:E3;
        destruct (N.ltb d (smn + a_dst acc)) eqn:E4; lia. }
    assert (Hpk : opre idx part rl1 (mkAcc (a_dst acc) cur1 num1 (a_migs acc))).
    { right. cbn [a_dst]. split; lia. }
    pose proof (IH idx part rl1 _ rl' acc' H Hwrl1 Hwcur1 Hcn0 ltac:(cbn [a_dst a_num]; lia) Hdst ltac:(lia)
                   Hpk HGk Hok) as R.
    destruct R as (H1 & H2 & H3 & H4 & H5 & H6 & H7 & H8 & H9 & H10).
    cbn [a_dst a_cur a_num a_migs] in H2, H8. msplit; auto; try lia.
    intros s. specialize (H2 s). specialize (Hcn s). lia.
Qed.

(* ---------- one source master ---------- *)
Hypothesis HPM : pfx (smn + dmn) = SLOT_NUM.

(* accounting: R = slots still held by the sources with master index >= j *)
Definition Jo (acc : macc) (j R : N) : Prop :=
  R + a_num acc + pfx (smn + a_dst acc) + pfx j = SLOT_NUM + pfx smn.

Lemma out_part_num idx part c acc c' acc' rl (others : N) :
  do_part epoch avg rem smn dmn scn idx part c acc = Done (c', acc') ->
  ck_stable c part = Some rl ->
  Forall wf_range rl -> (forall s, (cnt s rl <= 1)%nat) -> sfo (mindex idx part) <= slots_total rl ->
  a_cur acc = [] -> a_num acc < sfo (smn + a_dst acc) -> a_dst acc <= dmn -> Go acc -> dst_ok (a_migs acc) ->
  Jo acc (mindex idx part) (slots_total rl + others) ->
  pfx smn <= others + pfx (mindex idx part + 1) ->
  exists rl', c' = set_stable c part (Some rl') /\ slots_total rl' = sfo (mindex idx part) /\
    a_cur acc' = [] /\ a_num acc' < sfo (smn + a_dst acc') /\ a_dst acc' <= dmn /\ Go acc' /\ dst_ok (a_migs acc') /\
    Jo acc' (mindex idx part + 1) others.
Proof.
  unfold do_part. intros H Hst Hw Hc Hsf Hcur Hnum Hdst HG Hok HJ HLB. rewrite Hst in H.
  destruct (scale_out_loop (loop_fuel rl dmn) epoch avg rem smn dmn scn idx part rl acc) as [[rl' acc1]|e|] eqn:El;
    try discriminate.
  inversion H; subst c' acc1. clear H.
  apply scale_out_loop_num in El; auto.
  - destruct El as (H1 & H2 & H3 & H4 & H5 & H6 & H7 & H8 & H9 & H10).
    unfold Jo in *. rewrite pfx_succ in *.
    assert (Hfin : slots_total rl' = sfo (mindex idx part)).
    { destruct H7 as [H7|H7]; [exact H7|]. rewrite H7, HPM in H8. lia. }
    exists rl'. msplit; auto. lia.
  - rewrite Hcur. constructor.
  - intros s. rewrite Hcur, cnt_nil. specialize (Hc s). lia.
  - left. exact Hcur.
Qed.

(* ---------- the source chunks ---------- *)
Definition full (idx : nat) (srcs : list chunk) : Prop :=
  forall i c p, nth_error srcs i = Some c -> exists st, ck_stable c p = Some st /\ sfo (mindex (idx + i) p) <= slots_total st.

Lemma full_tail idx c rest : full idx (c :: rest) -> full (S idx) rest.
Proof. intros H i c' p Hn. replace (S idx + i)%nat with (idx + S i)%nat by lia. apply (H (S i) c' p Hn). Qed.

Lemma chunk_stable_some c st0 st1 : ck_stable c false = Some st0 -> ck_stable c true = Some st1 -> chunk_stable c = st0 ++ st1.
Proof. unfold chunk_stable. cbn [ck_stable]. intros -> ->. reflexivity. Qed.

Lemma pfx_mindex_step i : pfx (mindex i true) = pfx (mindex i false) + sfo (mindex i false) /\
                          pfx (mindex (S i) false) = pfx (mindex i true) + sfo (mindex i true).
Proof. destruct (mindex_succ i) as [A B]. split; [rewrite A|rewrite B]; apply pfx_succ. Qed.

Lemma full_lower_bound : forall srcs idx, full idx srcs ->
  pfx (mindex (idx + length srcs) false) <= slots_total (stable_ranges srcs) + pfx (mindex idx false).
Proof.
  induction srcs as [|c rest IH]; intros idx Hf.
  - cbn [length]. rewrite Nat.add_0_r. cbn [stable_ranges flat_map]. change (slots_total []) with 0. lia.
  - destruct (Hf 0%nat c false eq_refl) as (st0 & Hs0 & Hl0). destruct (Hf 0%nat c true eq_refl) as (st1 & Hs1 & Hl1).
    rewrite Nat.add_0_r in Hl0, Hl1.
    change (stable_ranges (c :: rest)) with (chunk_stable c ++ stable_ranges rest).
    rewrite (chunk_stable_some c st0 st1 Hs0 Hs1), !slots_total_app.
    specialize (IH (S idx) (full_tail idx c rest Hf)).
    replace (idx + length (c :: rest))%nat with (S idx + length rest)%nat by (cbn [length]; lia).
    destruct (pfx_mindex_step idx) as [A B]. lia.
Qed.

Lemma out_chunks_num : forall srcs idx acc chunks' acc',
  scale_out_chunks epoch avg rem smn dmn scn idx srcs acc = Done (chunks', acc') ->
  (idx + length srcs = scn)%nat ->
  Forall wf_range (stable_ranges srcs) -> (forall s, (cnt s (stable_ranges srcs) <= 1)%nat) -> full idx srcs ->
  a_cur acc = [] -> a_num acc < sfo (smn + a_dst acc) -> a_dst acc <= dmn -> Go acc -> dst_ok (a_migs acc) ->
  Jo acc (mindex idx false) (slots_total (stable_ranges srcs)) ->
  length chunks' = length srcs /\
  (forall i c p, nth_error chunks' i = Some c -> stable_num c p = sfo (mindex (idx + i) p)) /\
  a_cur acc' = [] /\ a_num acc' < sfo (smn + a_dst acc') /\ a_dst acc' <= dmn /\ Go acc' /\ dst_ok (a_migs acc') /\
  Jo acc' smn 0.
Proof.
  induction srcs as [|c rest IH]; intros idx acc chunks' acc' H Hlen Hw Hc Hf Hcur Hnum Hdst HG Hok HJ.
  - cbn [scale_out_chunks] in H. inversion H; subst chunks' acc'. clear H.
    cbn [length] in Hlen. msplit; auto.
    + intros i c p Hn. destruct i; discriminate.
    + cbn [stable_ranges flat_map] in HJ. change (slots_total []) with 0 in HJ.
      assert (mindex idx false = smn) by (unfold mindex, b2n; lia). congruence.
  - rewrite scale_out_chunks_cons in H.
    destruct (do_part epoch avg rem smn dmn scn idx false c acc) as [[c1 acc1]|e|] eqn:E0; try discriminate.
    destruct (do_part epoch avg rem smn dmn scn idx true c1 acc1) as [[c2 acc2]|e|] eqn:E1; try discriminate.
    destruct (scale_out_chunks epoch avg rem smn dmn scn (S idx) rest acc2) as [[rest' acc3]|e|] eqn:E2; try discriminate.
    inversion H; subst chunks' acc3. clear H.
    destruct (Hf 0%nat c false eq_refl) as (st0 & Hs0 & Hl0). destruct (Hf 0%nat c true eq_refl) as (st1 & Hs1 & Hl1).
    rewrite Nat.add_0_r in Hl0, Hl1.
    change (stable_ranges (c :: rest)) with (chunk_stable c ++ stable_ranges rest) in *.
    rewrite (chunk_stable_some c st0 st1 Hs0 Hs1) in *.
    apply Forall_app in Hw. destruct Hw as [Hw01 Hwr]. apply Forall_app in Hw01. destruct Hw01 as [Hw0 Hw1].
    rewrite !slots_total_app in HJ.
    pose proof (full_lower_bound rest (S idx) (full_tail idx c rest Hf)) as HLB.
    replace (S idx + length rest)%nat with scn in HLB by (cbn [length] in Hlen; lia).
    assert (Hscn : mindex scn false = smn) by (unfold mindex, b2n; lia). rewrite Hscn in HLB.
    destruct (pfx_mindex_step idx) as [PA PB]. destruct (mindex_succ idx) as [MA MB].
    (* part 0 *)
    destruct (out_part_num idx false c acc c1 acc1 st0 (slots_total st1 + slots_total (stable_ranges rest)) E0 Hs0 Hw0)
      as (rl0 & -> & Hfin0 & Hcur1 & Hnum1 & Hdst1 & HG1 & Hok1 & HJ1); auto.
    { intros s. specialize (Hc s). rewrite !cnt_app in Hc. lia. }
    { unfold Jo in *. lia. }
    { rewrite <- MA. lia. }
    (* part 1 *)
    assert (Hs1' : ck_stable (set_stable c false (Some rl0)) true = Some st1) by (rewrite <- Hs1; reflexivity).
    destruct (out_part_num idx true _ acc1 c2 acc2 st1 (slots_total (stable_ranges rest)) E1 Hs1' Hw1)
      as (rl1 & -> & Hfin1 & Hcur2 & Hnum2 & Hdst2 & HG2 & Hok2 & HJ2); auto.
    { intros s. specialize (Hc s). rewrite !cnt_app in Hc. lia. }
    { unfold Jo in *. rewrite <- MA in HJ1. lia. }
    { rewrite <- MB. lia. }
    (* the rest *)
    apply IH in E2; auto.
    + destruct E2 as (C1 & C2 & C3 & C4 & C5 & C6 & C7 & C8). msplit; auto.
      * cbn [length]. lia.
      * intros i c' p Hn. destruct i as [|i].
        -- inversion Hn; subst c'. rewrite Nat.add_0_r. unfold stable_num.
           destruct p; cbn [set_stable ck_stable ck_stable0 ck_stable1 opt_ranges]; assumption.
        -- cbn [nth_error] in Hn. replace (idx + S i)%nat with (S idx + i)%nat by lia. apply (C2 i c' p Hn).
    + cbn [length] in Hlen. lia.
    + intros s. specialize (Hc s). rewrite !cnt_app in Hc. lia.
    + apply (full_tail idx c rest Hf).
    + rewrite MB. exact HJ2.
Qed.

End OutNum.

(* ---------- trailing slot-less chunks are skipped ---------- *)
Lemma scale_out_chunks_free epoch avg rem smn dmn scn : forall b idx acc,
  (forall c, In c b -> ck_stable c false = None /\ ck_stable c true = None) ->
  scale_out_chunks epoch avg rem smn dmn scn idx b acc = Done (b, acc).
Proof.
  induction b as [|c b IH]; intros idx acc H; [reflexivity|].
  rewrite scale_out_chunks_cons. destruct (H c (or_introl eq_refl)) as [H0 H1].
  unfold do_part. rewrite H0, H1, IH; [reflexivity|]. intros c' Hc'. apply H. right. exact Hc'.
Qed.

Lemma scale_out_chunks_app epoch avg rem smn dmn scn : forall a idx acc b,
  scale_out_chunks epoch avg rem smn dmn scn idx (a ++ b) acc =
  match scale_out_chunks epoch avg rem smn dmn scn idx a acc with
  | Done (a', acc1) =>
    match scale_out_chunks epoch avg rem smn dmn scn (idx + length a) b acc1 with
    | Done (b', acc2) => Done (a' ++ b', acc2)
    | Fail e => Fail e
    | Panic => Panic
    end
  | Fail e => Fail e
  | Panic => Panic
  end.
Proof.
  induction a as [|c a IH]; intros idx acc b.
  - cbn [app length scale_out_chunks]. rewrite Nat.add_0_r.
    destruct (scale_out_chunks epoch avg rem smn dmn scn idx b acc) as [[b' acc2]|e|]; reflexivity.
  - cbn [app]. rewrite !scale_out_chunks_cons.
    destruct (do_part epoch avg rem smn dmn scn idx false c acc) as [[c1 acc1]|e|]; try reflexivity.
    destruct (do_part epoch avg rem smn dmn scn idx true c1 acc1) as [[c2 acc2]|e|]; try reflexivity.
    rewrite IH.
    destruct (scale_out_chunks epoch avg rem smn dmn scn (S idx) a acc2) as [[a' acc3]|e|]; try reflexivity.
    replace (idx + length (c :: a))%nat with (S idx + length a)%nat by (cbn [length]; lia).
    destruct (scale_out_chunks epoch avg rem smn dmn scn (S idx + length a) b acc3) as [[b' acc4]|e|]; reflexivity.
Qed.

(* ---------- the whole remove phase ---------- *)
Lemma pfx_all avg rem M : rem < M -> avg * M + rem = SLOT_NUM -> pfx avg rem M = SLOT_NUM.
Proof. intros H1 H2. unfold pfx. lia. Qed.

Lemma stable_ranges_app' a b : stable_ranges (a ++ b) = stable_ranges a ++ stable_ranges b.
Proof. unfold stable_ranges. apply flat_map_app. Qed.

Lemma stable_ranges_none b : (forall c, In c b -> ck_stable c false = None /\ ck_stable c true = None) -> stable_ranges b = [].
Proof.
  induction b as [|c b IH]; intros H; [reflexivity|].
  change (stable_ranges (c :: b)) with (chunk_stable c ++ stable_ranges b).
  destruct (H c (or_introl eq_refl)) as [H0 H1]. unfold chunk_stable. cbn [ck_stable] in H0, H1. rewrite H0, H1.
  cbn [opt_ranges app]. apply IH. intros c' Hc'. apply H. right. exact Hc'.
Qed.

Lemma nth_skipn {A} : forall k (l : list A) i, nth_error (skipn k l) i = nth_error l (k + i).
Proof. induction k as [|k IH]; intros l i; [reflexivity|]. destruct l as [|x l]; [destruct i; reflexivity|]. cbn [skipn Nat.add nth_error]. apply IH. Qed.

Lemma nth_firstn {A} : forall k (l : list A) i, (i < k)%nat -> nth_error (firstn k l) i = nth_error l i.
Proof.
  induction k as [|k IH]; intros l i Hi; [lia|]. destruct l as [|x l]; [reflexivity|].
  destruct i as [|i]; [reflexivity|]. cbn [firstn nth_error]. apply IH. lia.
Qed.

Lemma nth_some_lt {A} (l : list A) i x : nth_error l i = Some x -> (i < length l)%nat.
Proof. intros H. apply nth_error_Some. congruence. Qed.

Theorem scale_out_remove_numbers cl epoch k chunks migs :
  part_inv (cl_chunks cl) -> cluster_is_migrating cl = false -> balanced_at k (cl_chunks cl) ->
  remove_slots_from_src cl epoch = Done (chunks, migs) ->
  (forall i c p, nth_error chunks i = Some c ->
      stable_num c p + msum (mindex i p) migs = share (2 * N.of_nat (length (cl_chunks cl))) (mindex i p)) /\
  (forall rl m, In (rl, m) migs -> dst_master m < 2 * N.of_nat (length (cl_chunks cl))).
Proof.
  intros Hinv Hnm Hb H.
  pose proof (not_migrating_no_migs cl Hnm) as Hno.
  pose proof Hb as (Hk0 & Hkl & _).
  pose proof (quiescent_filter_empty k _ Hinv Hb Hno) as Hdcn.
  pose proof (pi_size _ Hinv) as Hsize.
  destruct (part_inv_stable _ Hinv Hno) as [Hwf Hcov].
  unfold remove_slots_from_src in H. rewrite Hdcn in H.
  set (l := cl_chunks cl) in *. set (L := length l) in *.
  replace (L - (L - k))%nat with k in H by lia.
  set (M := 2 * N.of_nat L) in *.
  set (avg := SLOT_NUM / M) in *. set (rem := SLOT_NUM - avg * M) in *.
  set (smn := 2 * N.of_nat k) in *. set (dmn := 2 * N.of_nat (L - k)) in *.
  assert (HM : 0 < M) by (unfold M; lia).
  assert (HMs : smn + dmn = M) by (unfold smn, dmn, M; lia).
  assert (Havg : 1 <= avg) by (unfold avg, M; apply average_pos; lia).
  assert (Hrem : rem = SLOT_NUM mod M) by (unfold rem, avg; apply rem_is_mod; exact HM).
  assert (Hsfo : forall j, sfo avg rem j = share M j).
  { intros j. unfold sfo, share. rewrite Hrem. unfold b2n. reflexivity. }
  assert (HPM : pfx avg rem (smn + dmn) = SLOT_NUM).
  { rewrite HMs. apply pfx_all.
    - rewrite Hrem. apply N.mod_lt. lia.
    - rewrite Hrem. unfold avg. pose proof (N.div_mod SLOT_NUM M ltac:(lia)) as Hdm. lia. }
  destruct (scale_out_chunks epoch avg rem smn dmn k 0 l (mkAcc 0 [] 0 [])) as [[chunks' acc']|e|] eqn:E; try discriminate.
  inversion H; subst chunks migs. clear H.
  (* split the chunk list into sources and slot-less chunks *)
  assert (Hfree : forall c, In c (skipn k l) -> ck_stable c false = None /\ ck_stable c true = None).
  { intros c Hc. apply In_nth_error in Hc. destruct Hc as [i Hi]. rewrite nth_skipn in Hi.
    split; eapply (quiescent_shape k l Hinv Hb Hno (k + i) c); try exact Hi; lia. }
  assert (Hlf : length (firstn k l) = k) by (apply firstn_length_le; exact Hkl).
  pose proof (scale_out_chunks_app epoch avg rem smn dmn k (firstn k l) 0 (mkAcc 0 [] 0 []) (skipn k l)) as Happ.
  rewrite firstn_skipn, E in Happ.
  destruct (scale_out_chunks epoch avg rem smn dmn k 0 (firstn k l) (mkAcc 0 [] 0 [])) as [[srcs' acc1]|e|] eqn:Es;
    try discriminate.
  rewrite scale_out_chunks_free in Happ by exact Hfree. inversion Happ; subst chunks' acc1. clear Happ.
  pose proof (stable_ranges_none _ Hfree) as Hfr.
  rewrite <- (firstn_skipn k l), stable_ranges_app', Hfr, app_nil_r in Hwf, Hcov.
  (* the sources *)
  assert (Hlen0 : (0 + length (firstn k l) = k)%nat) by (rewrite Hlf; lia).
  assert (Hc0 : forall s, (cnt s (stable_ranges (firstn k l)) <= 1)%nat).
  { intros s. rewrite Hcov. unfold slot_ind. destruct (N.ltb s SLOT_NUM); lia. }
  assert (Hfull : full avg rem 0 (firstn k l)).
  { (* every source holds at least its new share *)
    intros i c p Hn. cbn [Nat.add].
    assert (Hi : (i < k)%nat) by (apply nth_some_lt in Hn; lia).
    rewrite nth_firstn in Hn by exact Hi.
    destruct (quiescent_shape k l Hinv Hb Hno i c p Hn) as [A _]. destruct (A Hi) as (Hs & _ & st & Hst).
    exists st. split; [exact Hst|]. unfold stable_num in Hs. rewrite Hst in Hs. cbn [opt_ranges] in Hs.
    rewrite Hs, Hsfo. apply share_mono; unfold M; lia. }
  assert (Hnum0 : a_num (mkAcc 0 [] 0 []) < sfo avg rem (smn + a_dst (mkAcc 0 [] 0 []))).
  { cbn [a_num a_dst]. pose proof (sfo_pos avg rem smn k eq_refl Havg (smn + 0)). lia. }
  assert (Hdst0 : a_dst (mkAcc 0 [] 0 []) <= dmn) by (cbn [a_dst]; lia).
  assert (HG0 : Go avg rem smn (mkAcc 0 [] 0 [])).
  { intros d. cbn [a_dst a_cur a_num a_migs msum]. change (slots_total []) with 0.
    destruct (N.eqb d (smn + 0)) eqn:E1; destruct (N.ltb d smn) eqn:E2; destruct (N.ltb d (smn + 0)) eqn:E3; lia. }
  assert (Hok0 : dst_ok smn dmn (a_migs (mkAcc 0 [] 0 []))) by (intros l0 m []).
  assert (HJ0 : Jo avg rem smn (mkAcc 0 [] 0 []) (mindex 0 false) (slots_total (stable_ranges (firstn k l)))).
  { unfold Jo. cbn [a_dst a_num]. rewrite (covers_total _ Hwf Hcov).
    assert (Hm0 : mindex 0 false = 0) by reflexivity. rewrite Hm0.
    assert (Hp0 : pfx avg rem 0 = 0) by (unfold pfx; lia). rewrite Hp0, !N.add_0_r. reflexivity. }
  pose proof (out_chunks_num epoch avg rem smn dmn k eq_refl Havg HPM _ _ _ _ _ Es Hlen0 Hwf Hc0 Hfull eq_refl
                Hnum0 Hdst0 HG0 Hok0 HJ0) as R.
  destruct R as (C1 & C2 & C3 & C4 & C5 & C6 & C7 & C8).
  (* all destinations are served *)
  unfold Jo in C8.
  assert (Hend : a_dst acc' = dmn /\ a_num acc' = 0).
  { destruct (N.eq_dec (a_dst acc') dmn) as [Heq|Hne]; [split; [exact Heq|]; rewrite Heq in C8; lia|exfalso].
    pose proof (pfx_mono avg rem smn k eq_refl Havg (smn + a_dst acc' + 1) (smn + dmn) ltac:(lia)) as Hm.
    rewrite (pfx_succ avg rem smn k eq_refl Havg) in Hm. lia. }
  destruct Hend as [Hend1 Hend2].
  assert (Hms : forall d, msum d (rev (a_migs acc')) =
                  if N.ltb d smn then 0 else if N.ltb d (smn + dmn) then share M d else 0).
  { intros d. rewrite msum_rev. specialize (C6 d). rewrite C3, Hend1, Hend2, Hsfo in C6.
    change (slots_total []) with 0 in C6.
    destruct (N.eqb d (smn + dmn)) eqn:E1; destruct (N.ltb d smn) eqn:E2; destruct (N.ltb d (smn + dmn)) eqn:E3; lia. }
  split.
  + intros i c p Hn. rewrite Hms. fold M.
    destruct (Nat.lt_ge_cases i k) as [Hi|Hi].
    * rewrite nth_error_app1 in Hn by lia. rewrite (C2 i c p Hn), Hsfo. cbn [Nat.add].
      pose proof (mindex_lt i p k Hi) as Hlt. fold smn in Hlt.
      destruct (N.ltb (mindex i p) smn) eqn:E1; lia.
    * rewrite nth_error_app2 in Hn by lia. rewrite C1, Hlf in Hn.
      assert (Hc : In c (skipn k l)) by (eapply nth_error_In; exact Hn).
      destruct (Hfree c Hc) as [H0 H1].
      assert (Hz : stable_num c p = 0) by (apply stable_num_none; destruct p; assumption).
      assert (HiL : (i < L)%nat).
      { apply nth_some_lt in Hn. rewrite skipn_length in Hn. fold L in Hn. lia. }
      pose proof (mindex_ge i p k Hi) as Hge. fold smn in Hge.
      pose proof (mindex_lt i p L HiL) as Hlt. fold M in Hlt.
      rewrite Hz. destruct (N.ltb (mindex i p) smn) eqn:E1; destruct (N.ltb (mindex i p) (smn + dmn)) eqn:E2; lia.
  + intros rl m Hin. apply in_rev in Hin. fold M. rewrite <- HMs. eapply C7. exact Hin.
Qed.
