(* C02 on broker histories, part 3: view_wfb holds for the node list of every cluster view served from a store that satisfies
   the partition invariant (C01), the accounting invariant (C12) and rinv (RouteProofsBrokerOps). *)
From UM Require Import Base.BytesDef Model.Ranges Model.Broker Model.Route Proofs.BrokerBase Proofs.BrokerPartRanges
     Proofs.BrokerPartDefs Proofs.BrokerPartMigrateBase Proofs.BrokerPartOpsCompact Proofs.BrokerPartView Proofs.BrokerAcctBase
     Proofs.BrokerCommitAccepts Proofs.RouteProofsBase Proofs.RouteProofsBrokerInv.
From Coq Require Import ZifyBool ZifyNat ZifyN.

(* ---------- small list facts ---------- *)
Lemma NoDup_nodupb l : NoDup l -> nodupb l = true.
Proof.
  induction 1 as [|x l Hx Hnd IH]; cbn [nodupb]; [reflexivity|]. rewrite IH, andb_true_r. apply negb_true_iff.
  destruct (existsb (N.eqb x) l) eqn:E; [|reflexivity]. apply existsb_eqb_In in E. contradiction.
Qed.

Lemma filter_flat_map {A B} (f : B -> bool) (g : A -> list B) l : filter f (flat_map g l) = flat_map (fun a => filter f (g a)) l.
Proof. induction l as [|a l IH]; cbn [flat_map]; [reflexivity|]. rewrite filter_app, IH. reflexivity. Qed.

Lemma map_update_nth_same {A B} (f : A -> B) (g : A -> A) : (forall a, f (g a) = f a) -> forall l i, map f (update_nth i g l) = map f l.
Proof.
  intros H. induction l as [|a l IH]; intros [|i]; cbn [update_nth map]; try reflexivity.
  - rewrite H. reflexivity.
  - rewrite IH. reflexivity.
Qed.

Lemma NoDup_app_inv {A} (a b : list A) : NoDup (a ++ b) -> NoDup a /\ NoDup b /\ (forall x, In x a -> ~ In x b).
Proof.
  induction a as [|x a IH]; cbn [app]; intros H.
  - split; [constructor|split; [exact H|intros x []]].
  - inversion H as [|? ? Hx Hnd]; subst. destruct (IH Hnd) as [Ha [Hb Hd]]. split; [|split; [exact Hb|]].
    + constructor; [|exact Ha]. intros Hin. apply Hx. apply in_or_app. left. exact Hin.
    + intros y [<-|Hy]; [intros Hin; apply Hx; apply in_or_app; right; exact Hin|apply Hd; exact Hy].
Qed.

Lemma NoDup_flat_map_nth {A B} (f : A -> list B) : forall l i j a b x y,
  NoDup (flat_map f l) -> i <> j -> nth_error l i = Some a -> nth_error l j = Some b -> In x (f a) -> In y (f b) -> x <> y.
Proof.
  induction l as [|c l IH]; intros i j a b x y Hnd Hij Hi Hj Hx Hy; [destruct i; discriminate|].
  cbn [flat_map] in Hnd. apply NoDup_app_inv in Hnd. destruct Hnd as [Hc [Hl Hdis]].
  destruct i as [|i], j as [|j]; cbn [nth_error] in Hi, Hj.
  - congruence.
  - inversion Hi; subst c. intros ->. apply (Hdis y Hx). apply in_flat_map. exists b. split; [eapply nth_error_In; eauto|exact Hy].
  - inversion Hj; subst c. intros ->. apply (Hdis y Hy). apply in_flat_map. exists a. split; [eapply nth_error_In; eauto|exact Hx].
  - apply (IH i j a b x y Hl); [intros E; apply Hij; congruence|exact Hi|exact Hj|exact Hx|exact Hy].
Qed.

Lemma NoDup_double l : NoDup l -> NoDup (flat_map (fun p => [2 * p; 2 * p + 1]) l).
Proof.
  induction 1 as [|x l Hx Hnd IH]; cbn [flat_map app]; [constructor|].
  assert (Hin : forall y, In y (flat_map (fun p => [2 * p; 2 * p + 1]) l) -> exists q, In q l /\ (y = 2 * q \/ y = 2 * q + 1)).
  { intros y Hy. apply in_flat_map in Hy. destruct Hy as [q [Hq [<-|[<-|[]]]]]; eauto. }
  constructor; [|constructor; [|exact IH]].
  - intros [E|H]; [lia|]. destruct (Hin _ H) as [q [Hq [E|E]]]; [assert (x = q) by lia; subst; contradiction|lia].
  - intros H. destruct (Hin _ H) as [q [Hq [E|E]]]; [lia|assert (x = q) by lia; subst; contradiction].
Qed.

(* ---------- group_peers with its accumulator un-reversed ---------- *)
Fixpoint gp_acc (ns : list vnode) (acc : list (N * list vslot)) : list (N * list vslot) :=
  match ns with
  | [] => acc
  | n :: rest =>
    match acc with
    | (p, sl) :: acc' => if N.eqb p (vn_proxy n) then gp_acc rest ((p, sl ++ vn_slots n) :: acc')
                         else gp_acc rest ((vn_proxy n, vn_slots n) :: acc)
    | [] => gp_acc rest [(vn_proxy n, vn_slots n)]
    end
  end.

Lemma group_peers_gp ns : forall acc, group_peers ns acc = rev (gp_acc ns acc).
Proof.
  induction ns as [|n rest IH]; intros acc; cbn [group_peers gp_acc]; [reflexivity|].
  destruct acc as [|[p sl] acc']; [apply IH|]. destruct (N.eqb p (vn_proxy n)); apply IH.
Qed.

Lemma gp_acc_app a : forall b acc, gp_acc (a ++ b) acc = gp_acc b (gp_acc a acc).
Proof.
  induction a as [|n a IH]; intros b acc; cbn [app gp_acc]; [reflexivity|].
  destruct acc as [|[p sl] acc']; [apply IH|]. destruct (N.eqb p (vn_proxy n)); apply IH.
Qed.

Lemma gp_same p : forall l sl acc, (forall n, In n l -> vn_proxy n = p) ->
  map fst (gp_acc l ((p, sl) :: acc)) = p :: map fst acc.
Proof.
  induction l as [|n l IH]; intros sl acc H; cbn [gp_acc]; [reflexivity|].
  rewrite (H n (or_introl eq_refl)), N.eqb_refl. apply IH. intros n' Hn'. apply H. right. exact Hn'.
Qed.

Lemma gp_block p l acc : (forall n, In n l -> vn_proxy n = p) -> ~ In p (map fst acc) ->
  map fst (gp_acc l acc) = (match l with [] => [] | _ => [p] end) ++ map fst acc.
Proof.
  intros H Hnin. destruct l as [|n l]; [reflexivity|]. cbn [gp_acc app].
  assert (Hn : vn_proxy n = p) by (apply H; left; reflexivity).
  assert (Hl : forall n', In n' l -> vn_proxy n' = p) by (intros n' Hn'; apply H; right; exact Hn').
  destruct acc as [|[q sl] acc'].
  - rewrite Hn. apply gp_same. exact Hl.
  - destruct (N.eqb q (vn_proxy n)) eqn:E.
    + apply N.eqb_eq in E. exfalso. apply Hnin. left. cbn [fst]. congruence.
    + rewrite Hn. apply (gp_same p l (vn_slots n) ((q, sl) :: acc')). exact Hl.
Qed.

(* ---------- the nodes of one chunk ---------- *)
Definition ck_frame (c : chunk) := (ck_role c, ck_proxy0 c, ck_proxy1 c, ck_n0 c, ck_n1 c, ck_n2 c, ck_n3 c).

Lemma nodes_of_addrs chunks c : map vn_addr (nodes_of chunks c) = [ck_n0 c; ck_n1 c; ck_n2 c; ck_n3 c].
Proof. reflexivity. Qed.

Lemma nodes_of_proxies chunks c : map vn_proxy (nodes_of chunks c) = [ck_proxy0 c; ck_proxy0 c; ck_proxy1 c; ck_proxy1 c].
Proof. reflexivity. Qed.

Lemma nodes_of_split chunks c : exists a0 a1 b0 b1, nodes_of chunks c = [a0; a1; b0; b1] /\
  vn_proxy a0 = ck_proxy0 c /\ vn_proxy a1 = ck_proxy0 c /\ vn_proxy b0 = ck_proxy1 c /\ vn_proxy b1 = ck_proxy1 c.
Proof. unfold nodes_of. do 4 eexists. split; [reflexivity|]. repeat split; reflexivity. Qed.

(* every slot entry of a node of chunk c is a stable one or the image of a stored migration entry of c *)
Lemma node_slot_cases chunks c n sl : In n (nodes_of chunks c) -> In sl (vn_slots n) ->
  (exists r, sl = (r, VNone)) \/ exists p e, In e (ck_mig c p) /\ sl = vslot_of chunks e.
Proof.
  assert (Hps : forall p, In sl (part_slots chunks c p) ->
                (exists r, sl = (r, VNone)) \/ exists p e, In e (ck_mig c p) /\ sl = vslot_of chunks e).
  { intros p H. unfold part_slots in H. apply in_app_or in H. destruct H as [H|H].
    - destruct (ck_stable c p); [destruct H as [<-|[]]; left; eauto|destruct H].
    - apply in_map_iff in H. destruct H as [e [<- He]]. right. eauto. }
  unfold nodes_of. cbn [In]. intros [<-|[<-|[<-|[<-|[]]]]]; cbn [vn_slots]; destruct (ck_role c); cbn [Nat.eqb]; rewrite ?app_nil_r;
    cbn [app]; intros H; try (destruct H; fail); eauto.
Qed.

Lemma addrs_double CH : forall l,
  (forall c, In c l -> ck_n0 c = 2 * ck_proxy0 c /\ ck_n1 c = 2 * ck_proxy0 c + 1 /\ ck_n2 c = 2 * ck_proxy1 c /\ ck_n3 c = 2 * ck_proxy1 c + 1) ->
  map vn_addr (flat_map (nodes_of CH) l) = flat_map (fun p => [2 * p; 2 * p + 1]) (flat_map chunk_proxies l).
Proof.
  induction l as [|c l IH]; intros HA0; [reflexivity|].
  cbn [flat_map]. rewrite map_app, flat_map_app, nodes_of_addrs, IH by (intros c' Hc'; apply HA0; right; exact Hc').
  destruct (HA0 c (or_introl eq_refl)) as [-> [-> [-> ->]]]. reflexivity.
Qed.

Section Chunks.
Variable chunks : list chunk.
Hypothesis HP : part_inv chunks.
Hypothesis HE : chunks_ok ent_ok chunks.
Hypothesis HN : NoDup (flat_map chunk_proxies chunks).
Hypothesis HA : forall c, In c chunks ->
  ck_n0 c = 2 * ck_proxy0 c /\ ck_n1 c = 2 * ck_proxy0 c + 1 /\ ck_n2 c = 2 * ck_proxy1 c /\ ck_n3 c = 2 * ck_proxy1 c + 1.

Let ns := flat_map (nodes_of chunks) chunks.

(* (b) node addresses *)
Lemma view_addrs_nodup : NoDup (map vn_addr (filter vn_master ns)).
Proof.
  apply NoDup_map_filter. unfold ns.
  rewrite (addrs_double chunks chunks HA). apply NoDup_double. exact HN.
Qed.

(* (c) peer keys *)
Lemma gp_chunks (f : vnode -> bool) CH : forall l acc,
  NoDup (flat_map chunk_proxies l) -> NoDup (map fst acc) ->
  (forall p, In p (map fst acc) -> ~ In p (flat_map chunk_proxies l)) ->
  let R := map fst (gp_acc (flat_map (fun c => filter f (nodes_of CH c)) l) acc) in
  NoDup R /\ forall p, In p R -> In p (map fst acc) \/ In p (flat_map chunk_proxies l).
Proof.
  induction l as [|c l IH]; intros acc Hnd Hacc Hdis; cbn [flat_map gp_acc]; [split; [exact Hacc|auto]|].
  cbn [flat_map] in Hnd. change (chunk_proxies c) with [ck_proxy0 c; ck_proxy1 c] in *.
  cbn [app] in Hnd. inversion Hnd as [|? ? Hp0 Hnd1]; subst. inversion Hnd1 as [|? ? Hp1 Hnd2]; subst.
  destruct (nodes_of_split CH c) as [a0 [a1 [b0 [b1 [En [Ha0 [Ha1 [Hb0 Hb1]]]]]]]]. rewrite En.
  change [a0; a1; b0; b1] with ([a0; a1] ++ [b0; b1]). rewrite filter_app, gp_acc_app, gp_acc_app.
  set (l0 := filter f [a0; a1]). set (l1 := filter f [b0; b1]).
  assert (H0 : forall n, In n l0 -> vn_proxy n = ck_proxy0 c).
  { intros n Hn. apply filter_In in Hn. destruct Hn as [[<-|[<-|[]]] _]; assumption. }
  assert (H1 : forall n, In n l1 -> vn_proxy n = ck_proxy1 c).
  { intros n Hn. apply filter_In in Hn. destruct Hn as [[<-|[<-|[]]] _]; assumption. }
  assert (Hn0 : ~ In (ck_proxy0 c) (map fst acc)).
  { intros Hin. apply (Hdis _ Hin). left. reflexivity. }
  pose proof (gp_block (ck_proxy0 c) l0 acc H0 Hn0) as K0.
  set (acc0 := gp_acc l0 acc) in *.
  assert (Hn1 : ~ In (ck_proxy1 c) (map fst acc0)).
  { rewrite K0. intros Hin. apply in_app_or in Hin. destruct Hin as [Hin|Hin].
    - destruct l0; [destruct Hin|]. destruct Hin as [E|[]]. apply Hp0. left. symmetry. exact E.
    - apply (Hdis _ Hin). right. left. reflexivity. }
  pose proof (gp_block (ck_proxy1 c) l1 acc0 H1 Hn1) as K1.
  set (acc1 := gp_acc l1 acc0) in *.
  assert (Hkeys : forall p, In p (map fst acc1) -> p = ck_proxy0 c \/ p = ck_proxy1 c \/ In p (map fst acc)).
  { intros p Hin. rewrite K1 in Hin. apply in_app_or in Hin. destruct Hin as [Hin|Hin].
    - destruct l1; [destruct Hin|]. destruct Hin as [<-|[]]. auto.
    - rewrite K0 in Hin. apply in_app_or in Hin. destruct Hin as [Hin|Hin]; [|auto].
      destruct l0; [destruct Hin|]. destruct Hin as [<-|[]]. auto. }
  assert (Hnd_acc1 : NoDup (map fst acc1)).
  { rewrite K1. assert (Hnd0 : NoDup (map fst acc0)).
    { rewrite K0. destruct l0; [exact Hacc|]. cbn [app]. constructor; [exact Hn0|exact Hacc]. }
    destruct l1; [exact Hnd0|]. cbn [app]. constructor; [exact Hn1|exact Hnd0]. }
  destruct (IH acc1 Hnd2 Hnd_acc1) as [A B].
  { intros p Hin Hl. destruct (Hkeys p Hin) as [->|[->|Hin']].
    - apply Hp0. right. exact Hl.
    - apply Hp1. exact Hl.
    - apply (Hdis p Hin'). right. right. exact Hl. }
  split; [exact A|]. intros p Hin. destruct (B p Hin) as [Hin'|Hin']; [|right; right; right; exact Hin'].
  destruct (Hkeys p Hin') as [->|[->|H]]; [right; left; reflexivity|right; right; left; reflexivity|left; exact H].
Qed.

Lemma view_peers_nodup a : NoDup (map fst (vp_peers (Route.proxy_view_of ns a))).
Proof.
  cbn [vp_peers Route.proxy_view_of]. rewrite group_peers_gp, map_rev. apply NoDup_rev. unfold ns. rewrite filter_flat_map.
  apply (gp_chunks (fun n => vn_master n && negb (N.eqb (vn_proxy n) a)) chunks chunks []); [exact HN|constructor|intros p []].
Qed.

(* (d) and (a): migration entries *)
Lemma view_entry n rl t : In n ns -> In (rl, t) (vn_slots n) -> t <> VNone ->
  exists c p e, In c chunks /\ In e (ck_mig c p) /\ (rl, t) = vslot_of chunks e.
Proof.
  intros Hn Hsl Ht. unfold ns in Hn. apply in_flat_map in Hn. destruct Hn as [c [Hc Hn]].
  destruct (node_slot_cases chunks c n (rl, t) Hn Hsl) as [[r E]|[p [e [He E]]]]; [inversion E; congruence|].
  exists c, p, e. auto.
Qed.

Lemma chunk_entry_at c p e : In c chunks -> In e (ck_mig c p) -> exists i, In e (entries_at chunks (i, p)).
Proof.
  intros Hc He. apply In_nth_error in Hc. destruct Hc as [i Hi]. exists i. rewrite (entries_at_some _ _ _ _ Hi). exact He.
Qed.

Lemma view_src_dst n rl m : In n ns -> In (rl, VMigrating m) (vn_slots n) -> vm_src_proxy m <> vm_dst_proxy m.
Proof.
  intros Hn Hsl. destruct (view_entry n rl (VMigrating m) Hn Hsl) as [c [p [e [Hc [He E]]]]]; [discriminate|].
  unfold vslot_of in E. destruct (ms_out e); inversion E; subst rl m. clear E.
  destruct (chunk_entry_at c p e Hc He) as [i Hat].
  destruct (part_inv_entry_bounds _ _ _ HP Hat) as [Hs Hd].
  destruct (nth_error_lt_some _ _ Hs) as [sc Es]. destruct (nth_error_lt_some _ _ Hd) as [dc Ed].
  assert (Hne : mm_src_idx (ms_meta e) <> mm_dst_idx (ms_meta e)).
  { apply (HE c e Hc). apply ck_ents_In. exists p. exact He. }
  unfold vmeta_of. cbn [vm_src_proxy vm_dst_proxy]. rewrite (nth_error_nth _ _ dchunk Es), (nth_error_nth _ _ dchunk Ed).
  eapply (NoDup_flat_map_nth chunk_proxies); [exact HN|exact Hne|exact Es|exact Ed| |];
    unfold part_proxy, ck_proxy, chunk_proxies; destruct (part_proxy_index _ _); cbn [In]; auto.
Qed.

Lemma entry_ranges_bounded c p e s : In c chunks -> In e (ck_mig c p) -> SLOT_NUM <= s -> cnt s (ms_ranges e) = 0%nat.
Proof.
  intros Hc He Hs. destruct (chunk_entry_at c p e Hc He) as [i Hat].
  assert (Hout : forall c' p' e', In c' chunks -> In e' (ck_mig c' p') -> ms_out e' = true -> cnt s (ms_ranges e') = 0%nat).
  { intros c' p' e' Hc' He' Ho.
    pose proof (cnt_out_In e' (ck_mig c' p') s He' Ho) as A.
    pose proof (cnt_out_part_owned c' p' s) as B.
    pose proof (cnt_flat_map_In chunk_owned chunks c' s Hc') as C. fold (owned chunks) in C.
    pose proof (pi_cover _ HP s) as D. assert (N.ltb s SLOT_NUM = false) by lia. rewrite H in D. lia. }
  destruct (ms_out e) eqn:Ho; [eapply Hout; eauto|].
  destruct (pi_twin _ HP _ _ Hat) as [_ [_ Ht]]. apply entries_at_In in Ht. destruct Ht as [c' [Hc' Ht]].
  change (ms_ranges e) with (ms_ranges (twin e)). eapply Hout; [exact Hc'|exact Ht|]. cbn [twin ms_out]. rewrite Ho. reflexivity.
Qed.

Lemma asc_bounded_okb rl : rl_ascb rl = true -> (forall s, SLOT_NUM <= s -> cnt s rl = 0%nat) -> rl_okb rl = true.
Proof.
  induction rl as [|r rest IH]; intros Ha Hb; [reflexivity|]. cbn [rl_ascb rl_okb] in *.
  apply andb_true_iff in Ha. destruct Ha as [Ha Hrest]. apply andb_true_iff in Ha. destruct Ha as [Hwf Hnext].
  assert (Hlt : N.ltb (snd r) SLOT_NUM = true).
  { destruct (N.ltb (snd r) SLOT_NUM) eqn:E; [reflexivity|]. specialize (Hb (snd r) ltac:(lia)). rewrite cnt_cons in Hb.
    unfold ind, in_range in Hb. assert (N.leb (fst r) (snd r) && N.leb (snd r) (snd r) = true) by lia. rewrite H in Hb. lia. }
  rewrite Hwf, Hlt, Hnext. cbn [andb]. apply IH; [exact Hrest|]. intros s Hs. specialize (Hb s Hs). rewrite cnt_cons in Hb. lia.
Qed.

Lemma view_ranges_ok n rl t : In n ns -> In (rl, t) (vn_slots n) -> t <> VNone -> rl_okb rl = true.
Proof.
  intros Hn Hsl Ht. destruct (view_entry n rl t Hn Hsl Ht) as [c [p [e [Hc [He E]]]]].
  unfold vslot_of in E. assert (rl = ms_ranges e) by (inversion E; reflexivity). subst rl.
  apply asc_bounded_okb.
  - apply (HE c e Hc). apply ck_ents_In. exists p. exact He.
  - intros s Hs. eapply entry_ranges_bounded; eauto.
Qed.

Theorem chunks_view_wf : view_wfb ns = true.
Proof.
  unfold view_wfb. rewrite !andb_true_iff. repeat split.
  - apply forallb_forall. intros rl Hrl. unfold tagged_ranges in Hrl. apply in_flat_map in Hrl. destruct Hrl as [n [Hn Hrl]].
    apply in_flat_map in Hrl. destruct Hrl as [[rl' t] [Hsl Hrl]]. cbn [snd fst] in Hrl.
    destruct t as [|m|m]; [destruct Hrl| |]; destruct Hrl as [<-|[]]; eapply view_ranges_ok; eauto; discriminate.
  - apply NoDup_nodupb. exact view_addrs_nodup.
  - apply forallb_forall. intros a _. apply NoDup_nodupb. apply view_peers_nodup.
  - apply forallb_forall. intros [rl m] Hx. unfold migrations in Hx. apply in_flat_map in Hx. destruct Hx as [n [Hn Hx]].
    apply in_flat_map in Hx. destruct Hx as [[rl' t] [Hsl Hx]]. cbn [snd fst] in Hx.
    destruct t as [|m'|m']; [destruct Hx| |destruct Hx]. destruct Hx as [E|[]]. inversion E; subst rl' m'. cbn [snd].
    apply negb_true_iff. apply N.eqb_neq. eapply view_src_dst; eauto.
Qed.

End Chunks.
