(* An injective identifier (N) for the content of a served broker view: std++'s `encode` (Countable instances of N, bool,
   option, list, prod) applied to the flattened content.  This file is the only place of the control-plane development that
   uses std++; it exports content_id and its injectivity. *)
From UM Require Import Base.BytesDef Model.Ranges Model.Broker Proofs.BrokerEpochInv Proofs.CtrlProofsBrokerFlat.
From stdpp Require Import countable.

Definition content_id (v : vproxy) : N := Npos (encode (flat_content v)).

Lemma content_id_inj : forall v v', content_id v = content_id v' -> vp_content v = vp_content v'.
Proof.
  intros v v' H. unfold content_id in H. inversion H as [H1].
  apply flat_content_inj. exact (encode_inj _ _ H1).
Qed.

Lemma content_id_pos : forall v, content_id v <> 0%N.
Proof. intros v. unfold content_id. discriminate. Qed.
