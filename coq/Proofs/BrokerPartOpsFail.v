(* Slot-partition invariant (C01, C10): failover.  takeover_master only rewrites roles and the epoch of migration entries;
   its net effect on the entries is `map (reepoch_peers ps new_epoch)` on EVERY part list (the entries of the failed part
   have their own positions in ps), and reepoch_peers looks only at the meta positions, which an entry shares with its twin.
   replace_in_chunks only rewrites addresses. *)
From UM Require Import Base.BytesDef Model.Ranges Model.Broker Proofs.BrokerBase Proofs.BrokerPartRanges Proofs.BrokerPartDefs
  Proofs.BrokerPartOpsFrame.
From Coq Require Import ZifyBool ZifyNat ZifyN.

Definition fires (ps : list (nat * bool)) (e : mig_store) : bool := pos_mem (src_pos e) ps || pos_mem (dst_pos e) ps.

Lemma reepoch_peers_eq ps ne e : reepoch_peers ps ne e = if fires ps e then set_mig_epoch ne e else e.
Proof. reflexivity. Qed.

Lemma pos_eqb_refl p : pos_eqb p p = true.
Proof. unfold pos_eqb. rewrite Nat.eqb_refl, Bool.eqb_reflx. reflexivity. Qed.

Lemma pos_mem_In p l : In p l -> pos_mem p l = true.
Proof. intros H. unfold pos_mem. apply existsb_exists. exists p. split; [exact H|apply pos_eqb_refl]. Qed.

Lemma fires_positions l ps : incl (mig_positions l) ps -> forall e, In e l -> fires ps e = true.
Proof.
  intros Hi e H. unfold fires. apply orb_true_iff. left. apply pos_mem_In. apply Hi.
  unfold mig_positions. apply in_flat_map. exists e. split; [exact H|]. left. reflexivity.
Qed.

Lemma keeps_shape_set_epoch ne : keeps_shape (set_mig_epoch ne).
Proof. intros e. repeat split. Qed.

Lemma keeps_shape_reepoch ps ne : keeps_shape (reepoch_peers ps ne).
Proof. intros e. rewrite reepoch_peers_eq. destruct (fires ps e); repeat split. Qed.

Lemma reepoch_twin ps ne e : reepoch_peers ps ne (twin e) = twin (reepoch_peers ps ne e).
Proof. rewrite !reepoch_peers_eq. change (fires ps (twin e)) with (fires ps e). destruct (fires ps e); reflexivity. Qed.

Lemma reepoch_absorbs ps ne l : (forall e, In e l -> fires ps e = true) ->
  map (reepoch_peers ps ne) (map (set_mig_epoch ne) l) = map (reepoch_peers ps ne) l.
Proof.
  intros H. rewrite map_map. apply map_ext_in. intros e He. rewrite !reepoch_peers_eq.
  change (fires ps (set_mig_epoch ne e)) with (fires ps e). rewrite (H e He). reflexivity.
Qed.

(* what the first loop of takeover_master does to one chunk *)
Definition part_touched (ne : N) (ps : list (nat * bool)) (l l1 : list mig_store) : Prop :=
  l1 = l \/ (l1 = map (set_mig_epoch ne) l /\ forall e, In e l -> fires ps e = true).

Definition tf_rel (ne : N) (ps : list (nat * bool)) (c c1 : chunk) : Prop :=
  ck_stable0 c1 = ck_stable0 c /\ ck_stable1 c1 = ck_stable1 c /\
  part_touched ne ps (ck_mig0 c) (ck_mig0 c1) /\ part_touched ne ps (ck_mig1 c) (ck_mig1 c1).

Lemma tf_rel_refl ne ps c : tf_rel ne ps c c.
Proof. repeat split; left; reflexivity. Qed.

Lemma takeover_first_spec : forall chunks failed ne chunks1 ps,
  takeover_first chunks failed ne = Some (chunks1, ps) -> Forall2 (tf_rel ne ps) chunks chunks1.
Proof.
  induction chunks as [|c rest IH]; intros failed ne chunks1 ps H; cbn [takeover_first] in H.
  - inversion H. constructor.
  - destruct (N.eqb (ck_proxy0 c) failed).
    { destruct (role_eqb (ck_role c) RSecond); [discriminate|].
      inversion H; subst chunks1 ps; clear H. constructor; [|apply Forall2_refl_all; intros; apply tf_rel_refl].
      destruct (role_eqb (ck_role c) RFirst); cbn.
      - repeat split.
        + right. split; [reflexivity|]. apply fires_positions; auto using incl_appl, incl_appr, incl_refl.
        + right. split; [reflexivity|]. apply fires_positions; auto using incl_appl, incl_appr, incl_refl.
      - repeat split.
        + right. split; [reflexivity|]. apply fires_positions; auto using incl_appl, incl_appr, incl_refl.
        + left. reflexivity. }
    destruct (N.eqb (ck_proxy1 c) failed).
    { destruct (role_eqb (ck_role c) RFirst); [discriminate|].
      inversion H; subst chunks1 ps; clear H. constructor; [|apply Forall2_refl_all; intros; apply tf_rel_refl].
      destruct (role_eqb (ck_role c) RSecond); cbn.
      - repeat split.
        + right. split; [reflexivity|]. apply fires_positions; auto using incl_appl, incl_appr, incl_refl.
        + right. split; [reflexivity|]. apply fires_positions; auto using incl_appl, incl_appr, incl_refl.
      - repeat split.
        + left. reflexivity.
        + right. split; [reflexivity|]. apply fires_positions; auto using incl_appl, incl_appr, incl_refl. }
    destruct (takeover_first rest failed ne) as [[rest' ps']|] eqn:E; [|discriminate].
    inversion H; subst chunks1 ps; clear H. constructor; [apply tf_rel_refl|]. eapply IH. exact E.
Qed.

Lemma Forall2_map_right {A B C} (R : A -> B -> Prop) (R' : A -> C -> Prop) (f : B -> C) l l1 :
  (forall a b, R a b -> R' a (f b)) -> Forall2 R l l1 -> Forall2 R' l (map f l1).
Proof. intros H H2. induction H2; cbn [map]; constructor; auto. Qed.

Theorem takeover_master_part_inv cl failed ne : cluster_inv cl -> cluster_inv (takeover_master cl failed ne).
Proof.
  unfold cluster_inv, takeover_master. intros H.
  destruct (takeover_first (cl_chunks cl) failed ne) as [[chunks1 ps]|] eqn:E; [|exact H].
  cbn [cl_chunks]. apply takeover_first_spec in E.
  eapply (part_inv_map_entries (reepoch_peers ps ne)); [apply keeps_shape_reepoch|apply reepoch_twin| |exact H].
  eapply Forall2_map_right; [|exact E].
  intros c c1 (E0 & E1 & T0 & T1). unfold chunk_rel.
  cbn [set_mig ck_stable0 ck_stable1 ck_mig0 ck_mig1].
  split; [exact E0|]. split; [exact E1|]. split.
  - destruct T0 as [->|[-> Hf]]; [reflexivity|apply reepoch_absorbs; exact Hf].
  - destruct T1 as [->|[-> Hf]]; [reflexivity|apply reepoch_absorbs; exact Hf].
Qed.

Lemma replace_in_chunks_same chunks failed r rr : Forall2 same_slots chunks (replace_in_chunks chunks failed r rr).
Proof.
  induction chunks as [|c rest IH]; cbn [replace_in_chunks]; [constructor|].
  destruct (N.eqb (ck_proxy0 c) failed).
  { constructor; [repeat split|apply Forall2_refl_all; intros; apply same_slots_refl]. }
  destruct (N.eqb (ck_proxy1 c) failed).
  { constructor; [repeat split|apply Forall2_refl_all; intros; apply same_slots_refl]. }
  constructor; [apply same_slots_refl|exact IH].
Qed.

Lemma replace_in_chunks_part_inv chunks failed r rr : part_inv chunks -> part_inv (replace_in_chunks chunks failed r rr).
Proof. apply part_inv_same_slots. apply replace_in_chunks_same. Qed.

Theorem replace_failed_proxy_part_inv s failed choice :
  store_part_inv s -> store_part_inv (fst (replace_failed_proxy s failed choice)).
Proof.
  intros H. unfold replace_failed_proxy.
  destruct (alookup failed (st_proxies s)) as [fr|]; cbn [fst]; [|exact H].
  destruct (pr_cluster fr) as [name|]; cbn [fst]; [|eapply store_inv_clusters; [|exact H]; reflexivity].
  assert (H1 : store_part_inv (bump s)) by (eapply store_inv_clusters; [|exact H]; reflexivity).
  destruct (alookup name (st_clusters (bump s))) as [cl|] eqn:E; cbn [fst]; [|exact H1].
  set (s2 := with_clusters (bump s) (ainsert name (takeover_master cl failed (st_epoch (bump s))) (st_clusters (bump s)))).
  assert (H2 : store_part_inv s2).
  { eapply store_inv_insert; [exact H1| |reflexivity]. apply takeover_master_part_inv. eapply store_inv_lookup; eassumption. }
  destruct (st_ordered s2); cbn [fst]; [eapply store_inv_clusters; [|exact H2]; reflexivity|].
  set (s3 := with_failed s2 (sinsert failed (st_failed s2))).
  assert (H3 : store_part_inv s3) by (eapply store_inv_clusters; [|exact H2]; reflexivity).
  destruct (generate_new_free_proxy s3 failed choice) as [r| |]; cbn [fst]; try exact H3.
  assert (H4 : store_part_inv (bump s3)) by (eapply store_inv_clusters; [|exact H3]; reflexivity).
  destruct (alookup name (st_clusters (bump s3))) as [cl2|] eqn:E2; cbn [fst]; [|exact H4].
  eapply store_inv_insert; [exact H4| |reflexivity].
  unfold cluster_inv. cbn [cl_chunks]. apply replace_in_chunks_part_inv. eapply store_inv_lookup; eassumption.
Qed.
