(* Service layer of the broker (src/broker/service.rs + persistence.rs + src/bin/mem_broker.rs), on top of Model/Broker.v.

   Mirrors:
     * the HTTP handlers built in `run_server` (service.rs: add_proxy, add_cluster, ..., bump_epoch): each calls the MemBrokerService
       method (= the MetaStore operation, Broker.step) and then `trigger_update()` = `update_meta_file()` = JsonFileStorage::store of the
       whole store (config auto_update_meta_file = true);
     * restart: mem_broker.rs main() with recover_from_meta_file = true loads the meta file and hands it to MemBrokerService::new,
       which does `MetaStore::new(ordered).restore(loaded)` (Broker.restore on init_store: always accepted, result = the loaded store).

   Two models:
     svc_step   the CONTRACT ("the meta file is current after every API call"): file := memory after every call, whatever the result;
     impl_step  the handlers AS WRITTEN: `handler_persists o r` says which handler reaches trigger_update() for which result
                (add_proxy / replace_failed_node: always; `op().await?; trigger_update()` handlers: only when the call succeeded;
                GET /failures, PUT /metadata, PUT /epoch/recovery: never).
   impl_step = svc_step exactly when every call that is not persisted left the store unchanged (impl_step_is_contract); the calls of
   the unchanged tree for which that fails are exhibited (stale_witness).  checks/broker_common.py service_histories compares the real
   server with the extracted `step` on histories with the restarts removed, which is justified by svc_run_strip. *)
From UM Require Import Base.BytesDef Model.Ranges Model.Broker Proofs.BrokerBase Proofs.BrokerEpochReach Proofs.BrokerEpochFail.
From Coq Require Import ZifyBool ZifyNat ZifyN Lia.

(* ---------- service state = (in-memory store, store in the meta file) ---------- *)
Definition svc_state := (store * store)%type.
Definition svc_mem (st : svc_state) : store := fst st.
Definition svc_file (st : svc_state) : store := snd st.
(* no meta file yet: a restart builds MetaStore::new(ordered), so "no file" is the initial store *)
Definition svc_init (ordered : bool) : svc_state := (init_store ordered, init_store ordered).

Definition svc_step (st : svc_state) (o : op) : svc_state * res :=
  let (s', r) := step (svc_mem st) o in ((s', s'), r).

Definition svc_restart (st : svc_state) : svc_state := (svc_file st, svc_file st).

(* the restart as the code performs it: a fresh store restores the loaded file *)
Definition svc_restart_code (ordered : bool) (st : svc_state) : svc_state * res :=
  let (s', r) := step (init_store ordered) (ORestore (svc_file st)) in ((s', svc_file st), r).

Inductive svc_ev := EvOp (o : op) | EvRestart.

Definition svc_do (st : svc_state) (e : svc_ev) : svc_state :=
  match e with EvOp o => fst (svc_step st o) | EvRestart => svc_restart st end.

Definition svc_run (st : svc_state) (evs : list svc_ev) : svc_state := fold_left svc_do evs st.

Fixpoint strip_restarts (evs : list svc_ev) : list op :=
  match evs with
  | [] => []
  | EvOp o :: t => o :: strip_restarts t
  | EvRestart :: t => strip_restarts t
  end.

Definition svc_current (st : svc_state) : Prop := svc_file st = svc_mem st.

(* ---------- (i) the file equals the memory after every call, for every operation and every result ---------- *)
Lemma svc_step_mem st o : svc_mem (fst (svc_step st o)) = fst (step (svc_mem st) o).
Proof. unfold svc_step. destruct (step (svc_mem st) o) as [s' r]. reflexivity. Qed.

Lemma svc_step_res st o : snd (svc_step st o) = snd (step (svc_mem st) o).
Proof. unfold svc_step. destruct (step (svc_mem st) o) as [s' r]. reflexivity. Qed.

Lemma svc_step_current st o : svc_current (fst (svc_step st o)).
Proof. unfold svc_current, svc_step. destruct (step (svc_mem st) o) as [s' r]. reflexivity. Qed.

Lemma svc_step_current_full st o :
  svc_file (fst (svc_step st o)) = svc_mem (fst (svc_step st o))
  /\ svc_mem (fst (svc_step st o)) = fst (step (svc_mem st) o)
  /\ snd (svc_step st o) = snd (step (svc_mem st) o).
Proof. split; [apply svc_step_current|]. split; [apply svc_step_mem | apply svc_step_res]. Qed.

(* ---------- (ii) a restart is the identity on current states; restarts can be removed from any history ---------- *)
Lemma svc_restart_id st : svc_current st -> svc_restart st = st.
Proof. destruct st as [m f]. unfold svc_current, svc_restart, svc_file, svc_mem. cbn. intros ->. reflexivity. Qed.

Lemma svc_init_current b : svc_current (svc_init b).
Proof. reflexivity. Qed.

Lemma svc_do_current st e : svc_current st -> svc_current (svc_do st e).
Proof.
  intros H. destruct e as [o|]; cbn [svc_do].
  - apply svc_step_current.
  - rewrite svc_restart_id by exact H. exact H.
Qed.

Lemma svc_run_strip evs : forall st,
  svc_current st ->
  svc_current (svc_run st evs) /\ svc_mem (svc_run st evs) = run (svc_mem st) (strip_restarts evs).
Proof.
  unfold svc_run, run.
  induction evs as [|e evs IH]; intros st H; cbn [fold_left strip_restarts].
  - split; [exact H | reflexivity].
  - destruct e as [o|].
    + cbn [svc_do fold_left]. destruct (IH (fst (svc_step st o)) (svc_step_current st o)) as [C M].
      split; [exact C|]. rewrite M, svc_step_mem. reflexivity.
    + cbn [svc_do]. rewrite svc_restart_id by exact H. apply IH. exact H.
Qed.

Lemma svc_run_strip_init b evs :
  svc_file (svc_run (svc_init b) evs) = svc_mem (svc_run (svc_init b) evs)
  /\ svc_mem (svc_run (svc_init b) evs) = run (init_store b) (strip_restarts evs).
Proof. exact (svc_run_strip evs (svc_init b) (svc_init_current b)). Qed.

(* the code's restart (fresh store + restore of the loaded file) is svc_restart: always accepted, yields the file *)
Lemma svc_restart_code_is_restart b st : svc_restart_code b st = (svc_restart st, ROk).
Proof.
  unfold svc_restart_code, svc_restart. cbn [step]. unfold restore. cbn [init_store st_epoch].
  destruct (N.ltb (st_epoch (svc_file st)) 0) eqn:E; [apply N.ltb_lt in E; lia|]. reflexivity.
Qed.

(* ---------- (iii) C18: a (re-)registered proxy stays clear of reports across any number of restarts ---------- *)
Lemma lift_unit_fst (p : store * outcome unit) : fst (lift_unit p) = fst p.
Proof. destruct p as [s [u|e|]]; reflexivity. Qed.

Lemma lift_unit_missing (p : store * outcome unit) :
  snd (lift_unit p) <> RErr E_MissingIndex -> snd p <> Fail E_MissingIndex.
Proof. destruct p as [s [u|e|]]; cbn; intros H E; try discriminate. inversion E. subst. apply H. reflexivity. Qed.

Lemma svc_run_restarts st n : svc_current st -> svc_run st (repeat EvRestart n) = st.
Proof.
  intros H. induction n as [|n IH]; [reflexivity|].
  cbn [repeat]. unfold svc_run in *. cbn [fold_left svc_do]. rewrite svc_restart_id by exact H. exact IH.
Qed.

Lemma alookup_none_not_in {V} k (v : V) l : keys_sorted l -> alookup k l = None -> ~ In (k, v) l.
Proof. intros S N I. rewrite (In_alookup_sorted k v l S I) in N. discriminate. Qed.

Lemma svc_reregister_stays_clear st a h i n now ttl q :
  failures_wf (svc_mem st) ->
  snd (svc_step st (OAddProxy a h i)) <> RErr E_MissingIndex ->
  let st' := svc_run (fst (svc_step st (OAddProxy a h i))) (repeat EvRestart n) in
  svc_file st' = svc_mem st'
  /\ alookup a (st_failures (svc_mem st')) = None
  /\ smem a (st_failed (svc_mem st')) = false
  /\ amem a (st_proxies (svc_mem st')) = true
  /\ ~ In a (snd (get_failures (svc_mem st') now ttl q)).
Proof.
  intros W NE st'. subst st'.
  rewrite svc_run_restarts by apply svc_step_current.
  split; [apply svc_step_current|].
  rewrite svc_step_res in NE. rewrite svc_step_mem.
  cbn [step] in *. rewrite lift_unit_fst.
  apply lift_unit_missing in NE.
  destruct (reregister_clears_lemma (svc_mem st) a h i W NE) as (A & B & C).
  repeat split; try assumption.
  intros L. apply quorum_lemma in L. destruct L as (_ & m & I & _).
  assert (W' : failures_wf (fst (add_proxy (svc_mem st) a h i))).
  { pose proof (failures_wf_step (svc_mem st) (OAddProxy a h i) W) as P. cbn [step] in P. rewrite lift_unit_fst in P.
    apply P. exact Logic.I. }
  destruct W' as (S & _ & _).
  exact (alookup_none_not_in a m _ S A I).
Qed.

(* ---------- the handlers as written ---------- *)
Definition res_ok (r : res) : bool := match r with RErr _ | RPanic => false | _ => true end.

(* does the handler of this operation reach trigger_update() when the store call answered r ? (service.rs) *)
Definition handler_persists (o : op) (r : res) : bool :=
  match o with
  | OAddProxy _ _ _ => true          (* add_proxy: "This may still successfully update the store even on error." *)
  | OReplaceFailed _ _ => true       (* replace_failed_node: trigger_update before the result is inspected *)
  | OGetFailures _ _ _ => false      (* GET /failures (prunes expired reports in memory) *)
  | OCleanupFailures _ _ _ => false  (* no API *)
  | ORecoverEpoch _ => false         (* PUT /epoch/recovery: no trigger_update *)
  | ORestore _ => false              (* PUT /metadata: no trigger_update *)
  | OAutoScaleOut _ _ => false       (* second half of POST /clusters/migrations/auto, reached only through the proxy wait *)
  | OAutoChange _ _ _ =>             (* first half: NoOp / ScaleDown return Ok and persist; ScaleOut continues into wait_for_proxy_epoch *)
    match r with RScale NoOp | RScale ScaleDown => true | _ => false end
  | _ => res_ok r                    (* `state.<op>(..).await?; state.trigger_update().await?;` *)
  end.

Definition impl_step (st : svc_state) (o : op) : svc_state * res :=
  let (s', r) := step (svc_mem st) o in
  ((s', if handler_persists o r then s' else svc_file st), r).

(* the handlers meet the contract exactly on the calls that are persisted or left the store as it was *)
Lemma impl_step_is_contract st o :
  svc_current st ->
  (handler_persists o (snd (step (svc_mem st) o)) = false -> fst (step (svc_mem st) o) = svc_mem st) ->
  impl_step st o = svc_step st o /\ svc_current (fst (impl_step st o)).
Proof.
  unfold impl_step, svc_step, svc_current. destruct (step (svc_mem st) o) as [s' r]. cbn [fst snd].
  intros C H. destruct (handler_persists o r).
  - split; reflexivity.
  - specialize (H eq_refl). subst s'. unfold svc_file, svc_mem in *. cbn [fst snd]. rewrite C. split; reflexivity.
Qed.

(* witness on the unchanged tree: a refused migrate_slots (cluster already even) has taken a global epoch, the handler does not
   persist, and a restart takes the global epoch back *)
Definition stale_store : store :=
  run (init_store false)
      [OAddProxy 1 (Some 10) None; OAddProxy 2 (Some 10) None; OAddProxy 3 (Some 11) None; OAddProxy 4 (Some 11) None;
       OAddCluster 1 4 1 [(1, 3)]].

Lemma stale_witness :
  let st := (stale_store, stale_store) in
  let o := OMigrateSlots 1 in
  svc_current st
  /\ snd (impl_step st o) = RErr E_SlotsAlreadyEven
  /\ handler_persists o (snd (step (svc_mem st) o)) = false
  /\ st_epoch (svc_mem (fst (impl_step st o))) = 6
  /\ st_epoch (svc_file (fst (impl_step st o))) = 5
  /\ st_epoch (svc_mem (svc_restart (fst (impl_step st o)))) = 5
  /\ fst (impl_step st o) <> fst (svc_step st o).
Proof.
  vm_compute. repeat split; try reflexivity. intros E. inversion E.
Qed.
