(* The remove phase of the scale-out planner (migrate.rs remove_slots_from_src, model Broker.remove_slots_from_src)
   establishes `remove_ok`: the ranges that left the stable lists of the source masters are exactly the ranges of the
   returned pending migrations, nothing stays behind in the curr_dst_slots accumulator, everything is well formed and
   every pending migration is non-empty. *)
From UM Require Import Base.BytesDef Model.Ranges Model.Broker Proofs.BrokerBase Proofs.BrokerPartRanges Proofs.BrokerPartDefs Proofs.BrokerPartMigrateBase.
From Coq Require Import ZifyBool ZifyNat ZifyN Permutation.

(* ---------- small generic facts ---------- *)
Lemma mig_ranges_cons l m migs : mig_ranges ((l, m) :: migs) = l ++ mig_ranges migs.
Proof. reflexivity. Qed.

Lemma b2n_le1 b : b2n b <= 1.
Proof. destruct b; unfold b2n; lia. Qed.

Lemma csub_some a b d : csub a b = Some d -> b <= a /\ d = a - b.
Proof. unfold csub. destruct (N.ltb a b) eqn:E; [discriminate|]. intros H. inversion H. lia. Qed.

Lemma Forall_snoc {A} (P : A -> Prop) l x : Forall P (l ++ [x]) <-> Forall P l /\ P x.
Proof.
  rewrite Forall_app. split.
  - intros [H1 H2]. inversion H2; subst. auto.
  - intros [H1 H2]. split; [assumption|]. constructor; [assumption|constructor].
Qed.

Lemma snoc_not_nil {A} (l : list A) x : l ++ [x] <> [].
Proof. destruct l; discriminate. Qed.

(* one step of the inner loop, whole last range moves from the source to the accumulator *)
Lemma step_whole front r cur : Forall wf_range (front ++ [r]) -> Forall wf_range cur ->
  Forall wf_range front /\ Forall wf_range (cur ++ [r]) /\
  forall s, (cnt s front + cnt s (cur ++ [r]) = cnt s (front ++ [r]) + cnt s cur)%nat.
Proof.
  intros Hf Hc. apply Forall_snoc in Hf. destruct Hf as [Hf Hr].
  split; [assumption|]. split; [apply Forall_snoc; auto|].
  intros s. rewrite !cnt_snoc. lia.
Qed.

(* one step of the inner loop, the last k slots of the last range move *)
Lemma step_split front r cur k : Forall wf_range (front ++ [r]) -> Forall wf_range cur -> 1 <= k -> k <= snd r - fst r ->
  Forall wf_range (front ++ [(fst r, snd r - k)]) /\ Forall wf_range (cur ++ [(snd r - k + 1, snd r)]) /\
  forall s, Nat.add (cnt s (front ++ [(fst r, snd r - k)])) (cnt s (cur ++ [(snd r - k + 1, snd r)])) = Nat.add (cnt s (front ++ [r])) (cnt s cur).
Proof.
  intros Hf Hc Hk1 Hk2. apply Forall_snoc in Hf. destruct Hf as [Hf Hr]. destruct r as [a b].
  unfold wf_range in Hr. cbn [fst snd] in *.
  split; [apply Forall_snoc; split; [assumption|unfold wf_range; cbn [fst snd]; lia]|].
  split; [apply Forall_snoc; split; [assumption|unfold wf_range; cbn [fst snd]; lia]|].
  intros s. rewrite !cnt_snoc. rewrite (in_range_split_back s a b k Hr Hk1 Hk2). lia.
Qed.

Section ScaleOut.
Variables epoch avg rem smn dmn : N.
Variable scn : nat.
Hypothesis Havg : 1 <= avg.

Definition src_final (idx : nat) (part : bool) : N := avg + b2n (N.ltb (2 * N.of_nat idx + b2n part) rem).
Definition dst_final (k : N) : N := avg + b2n (N.ltb (smn + k) rem).
Definition tot (s : N) (rl : rangelist) (acc : macc) : nat :=
  (cnt s rl + cnt s (a_cur acc) + cnt s (mig_ranges (a_migs acc)))%nat.

Lemma dst_final_pos k : 1 <= dst_final k.
Proof. unfold dst_final. pose proof (b2n_le1 (N.ltb (smn + k) rem)). lia. Qed.

(* ---------- inner loop ---------- *)
Definition loop_pre (idx : nat) (part : bool) (rl : rangelist) (acc : macc) : Prop :=
  Forall wf_range rl /\ Forall wf_range (a_cur acc) /\ Forall wf_range (mig_ranges (a_migs acc)) /\
  (forall l m, In (l, m) (a_migs acc) -> l <> []) /\
  (forall s, (tot s rl acc <= 1)%nat) /\
  a_num acc < dst_final (a_dst acc) /\
  (a_cur acc = [] \/ (a_dst acc <> dmn /\ exists n, slots_num rl = Some n /\ src_final idx part < n)).

Definition loop_post (rl : rangelist) (acc : macc) (rl' : rangelist) (acc' : macc) : Prop :=
  Forall wf_range rl' /\ Forall wf_range (mig_ranges (a_migs acc')) /\ (forall l m, In (l, m) (a_migs acc') -> l <> []) /\
  (forall s, tot s rl' acc' = tot s rl acc) /\ a_cur acc' = [] /\ a_num acc' < dst_final (a_dst acc').

Definition loop_spec (fuel : nat) : Prop := forall idx part rl acc rl' acc',
  scale_out_loop fuel epoch avg rem smn dmn scn idx part rl acc = Done (rl', acc') ->
  loop_pre idx part rl acc -> loop_post rl acc rl' acc'.

Lemma loop_post_refl idx part rl acc : loop_pre idx part rl acc -> a_cur acc = [] -> loop_post rl acc rl acc.
Proof.
  intros (Hwrl & Hwcur & Hwm & Hne & Htot & Hnum & Hlast) Hcur. unfold loop_post. auto 10.
Qed.

Lemma loop_post_trans rl0 acc0 rl acc rl' acc' :
  loop_post rl acc rl' acc' -> (forall s, tot s rl acc = tot s rl0 acc0) -> loop_post rl0 acc0 rl' acc'.
Proof.
  intros (H1 & H2 & H3 & H4 & H5 & H6) Ht. unfold loop_post. repeat split; auto.
  intros s. rewrite H4. apply Ht.
Qed.

(* the part of the loop body after the last range has been (partly) moved to the accumulator *)
Definition loop_tail (fuel' : nat) (idx : nat) (part : bool) (rl2 : rangelist) (dst : N) (cur2 : rangelist) (num2 : N)
           (migs : list (rangelist * mig_meta)) : outcome (rangelist * macc) :=
  match slots_num rl2 with
  | None => Panic
  | Some n' =>
    if N.leb (dst_final dst) num2 || N.leb n' (src_final idx part) then
      let meta := mkMeta epoch idx part (scn + N.to_nat (dst / 2)) (N.eqb (dst mod 2) 1) in
      let migs' := (rl_new cur2, meta) :: migs in
      let acc' := if N.leb (dst_final dst) num2 then mkAcc (dst + 1) [] 0 migs' else mkAcc dst [] num2 migs' in
      if N.leb n' (src_final idx part) then Done (rl2, acc')
      else scale_out_loop fuel' epoch avg rem smn dmn scn idx part rl2 acc'
    else scale_out_loop fuel' epoch avg rem smn dmn scn idx part rl2 (mkAcc dst cur2 num2 migs)
  end.

(* the accumulator after a flush *)
Lemma flush_acc_ok idx part rl2 dst dst' cur2 num2 num3 migs meta :
  Forall wf_range rl2 -> Forall wf_range cur2 -> cur2 <> [] -> Forall wf_range (mig_ranges migs) ->
  (forall l m, In (l, m) migs -> l <> []) ->
  (forall s, (cnt s rl2 + cnt s cur2 + cnt s (mig_ranges migs) <= 1)%nat) ->
  num3 < dst_final dst' ->
  loop_pre idx part rl2 (mkAcc dst' [] num3 ((rl_new cur2, meta) :: migs)) /\
  (forall s, tot s rl2 (mkAcc dst' [] num3 ((rl_new cur2, meta) :: migs)) = tot s rl2 (mkAcc dst cur2 num2 migs)).
Proof.
  intros Hwrl Hwcur Hcne Hwm Hne Htot Hnum.
  destruct (compact_cnt cur2 Hwcur) as [Hcc Hcw].
  { intros s. specialize (Htot s). lia. }
  assert (Heq : forall s, tot s rl2 (mkAcc dst' [] num3 ((rl_new cur2, meta) :: migs)) = tot s rl2 (mkAcc dst cur2 num2 migs)).
  { intros s. unfold tot. cbn [a_cur a_migs]. rewrite mig_ranges_cons, cnt_app, cnt_nil. unfold rl_new. rewrite Hcc. lia. }
  split; [|exact Heq].
  unfold loop_pre. cbn [a_cur a_migs a_num a_dst].
  split; [assumption|]. split; [constructor|].
  split; [rewrite mig_ranges_cons; apply Forall_app; split; assumption|].
  split.
  { intros l m [Hin|Hin]; [|eauto]. inversion Hin; subst. unfold rl_new. apply compact_nonempty. assumption. }
  split.
  { intros s. rewrite Heq. unfold tot. cbn [a_cur a_migs]. apply Htot. }
  split; [assumption|]. left. reflexivity.
Qed.

Lemma loop_tail_ok fuel' idx part rl2 dst cur2 num2 migs rl' acc' :
  loop_spec fuel' ->
  loop_tail fuel' idx part rl2 dst cur2 num2 migs = Done (rl', acc') ->
  Forall wf_range rl2 -> Forall wf_range cur2 -> cur2 <> [] -> Forall wf_range (mig_ranges migs) ->
  (forall l m, In (l, m) migs -> l <> []) ->
  (forall s, (cnt s rl2 + cnt s cur2 + cnt s (mig_ranges migs) <= 1)%nat) ->
  dst <> dmn ->
  loop_post rl2 (mkAcc dst cur2 num2 migs) rl' acc'.
Proof.
  intros IH H Hwrl Hwcur Hcne Hwm Hne Htot Hdst.
  unfold loop_tail in H.
  destruct (slots_num rl2) as [n'|] eqn:En; [|discriminate].
  destruct (N.leb (dst_final dst) num2) eqn:E1; destruct (N.leb n' (src_final idx part)) eqn:E2; cbn [orb] in H; cbv zeta in H.
  - (* flush, advance, source done *)
    destruct (flush_acc_ok idx part rl2 dst (dst + 1) cur2 num2 0 migs
                (mkMeta epoch idx part (scn + N.to_nat (dst / 2)) (N.eqb (dst mod 2) 1)) Hwrl Hwcur Hcne Hwm Hne Htot) as [Hp Ht].
    { pose proof (dst_final_pos (dst + 1)). lia. }
    inversion H; subst. eapply loop_post_trans; [|exact Ht]. eapply loop_post_refl; [exact Hp|reflexivity].
  - (* flush, advance, continue *)
    destruct (flush_acc_ok idx part rl2 dst (dst + 1) cur2 num2 0 migs
                (mkMeta epoch idx part (scn + N.to_nat (dst / 2)) (N.eqb (dst mod 2) 1)) Hwrl Hwcur Hcne Hwm Hne Htot) as [Hp Ht].
    { pose proof (dst_final_pos (dst + 1)). lia. }
    eapply loop_post_trans; [|exact Ht]. eapply IH; [exact H|exact Hp].
  - (* flush without advance, source done *)
    destruct (flush_acc_ok idx part rl2 dst dst cur2 num2 num2 migs
                (mkMeta epoch idx part (scn + N.to_nat (dst / 2)) (N.eqb (dst mod 2) 1)) Hwrl Hwcur Hcne Hwm Hne Htot) as [Hp Ht].
    { lia. }
    inversion H; subst. eapply loop_post_trans; [|exact Ht]. eapply loop_post_refl; [exact Hp|reflexivity].
  - (* no flush *)
    eapply IH; [exact H|]. unfold loop_pre. cbn [a_cur a_migs a_num a_dst].
    split; [assumption|]. split; [assumption|]. split; [assumption|]. split; [assumption|].
    split; [intros s; unfold tot; cbn [a_cur a_migs]; apply Htot|].
    split; [lia|]. right. split; [assumption|]. exists n'. split; [exact En|lia].
Qed.

Lemma loop_spec_all fuel : loop_spec fuel.
Proof.
  induction fuel as [|fuel' IH]; intros idx part rl acc rl' acc' H Hpre.
  - cbn [scale_out_loop] in H. discriminate.
  - cbn [scale_out_loop] in H.
    pose proof Hpre as (Hwrl & Hwcur & Hwm & Hne & Htot & Hnum & Hlast).
    destruct (N.eqb (a_dst acc) dmn) eqn:Edst.
    { inversion H; subst. eapply loop_post_refl; [exact Hpre|]. destruct Hlast as [Hl|[Hl _]]; [assumption|lia]. }
    destruct (slots_num rl) as [n|] eqn:En; [|discriminate].
    fold (src_final idx part) in H. fold (dst_final (a_dst acc)) in H.
    destruct (N.leb n (src_final idx part)) eqn:Esrc.
    { inversion H; subst. eapply loop_post_refl; [exact Hpre|].
      destruct Hlast as [Hl|[_ [n0 [Hn0 Hlt]]]]; [assumption|]. inversion Hn0; subst. lia. }
    destruct (csub (dst_final (a_dst acc)) (a_num acc)) as [need|] eqn:Ecs; [|discriminate].
    apply csub_some in Ecs. destruct Ecs as [_ Eneed].
    destruct (split_last rl) as [[front r]|] eqn:Esl; [|discriminate].
    apply split_last_spec in Esl. subst rl.
    destruct (range_len r) as [num|] eqn:Erl; [|discriminate].
    apply range_len_some in Erl. destruct Erl as [Hwr Enum].
    assert (Hdst : a_dst acc <> dmn) by lia.
    destruct (N.leb num (N.min need (n - src_final idx part))) eqn:Ecase.
    + change (loop_tail fuel' idx part front (a_dst acc) (a_cur acc ++ [r]) (a_num acc + num) (a_migs acc) = Done (rl', acc')) in H.
      destruct (step_whole front r (a_cur acc) Hwrl Hwcur) as (S1 & S2 & S3).
      eapply loop_post_trans.
      * eapply loop_tail_ok; [exact IH|exact H|exact S1|exact S2|apply snoc_not_nil|exact Hwm|exact Hne| |exact Hdst].
        intros s. specialize (Htot s). specialize (S3 s). unfold tot in Htot. lia.
      * intros s. specialize (S3 s). unfold tot. cbn [a_cur a_migs]. lia.
    + change (loop_tail fuel' idx part (front ++ [(fst r, snd r - N.min need (n - src_final idx part))]) (a_dst acc)
                        (a_cur acc ++ [(snd r - N.min need (n - src_final idx part) + 1, snd r)])
                        (a_num acc + N.min need (n - src_final idx part)) (a_migs acc) = Done (rl', acc')) in H.
      destruct (step_split front r (a_cur acc) (N.min need (n - src_final idx part)) Hwrl Hwcur) as (S1 & S2 & S3); [lia|lia|].
      eapply loop_post_trans.
      * eapply loop_tail_ok; [exact IH|exact H|exact S1|exact S2|apply snoc_not_nil|exact Hwm|exact Hne| |exact Hdst].
        intros s. specialize (Htot s). specialize (S3 s). unfold tot in Htot. lia.
      * intros s. specialize (S3 s). unfold tot. cbn [a_cur a_migs]. lia.
Qed.

Lemma scale_out_loop_ok : forall fuel idx part rl acc rl' acc',
  scale_out_loop fuel epoch avg rem smn dmn scn idx part rl acc = Done (rl', acc') ->
  Forall wf_range rl -> Forall wf_range (a_cur acc) -> Forall wf_range (mig_ranges (a_migs acc)) ->
  (forall l m, In (l, m) (a_migs acc) -> l <> []) ->
  (forall s, (tot s rl acc <= 1)%nat) ->
  a_num acc < dst_final (a_dst acc) ->
  (a_cur acc = [] \/ (a_dst acc <> dmn /\ exists n, slots_num rl = Some n /\ src_final idx part < n)) ->
  Forall wf_range rl' /\ Forall wf_range (mig_ranges (a_migs acc')) /\ (forall l m, In (l, m) (a_migs acc') -> l <> []) /\
  (forall s, tot s rl' acc' = tot s rl acc) /\ a_cur acc' = [] /\ a_num acc' < dst_final (a_dst acc').
Proof.
  intros fuel idx part rl acc rl' acc' H H1 H2 H3 H4 H5 H6 H7.
  apply (loop_spec_all fuel idx part rl acc rl' acc' H). unfold loop_pre. auto 10.
Qed.

(* ---------- outer loops ---------- *)
(* the local closure do_part of scale_out_chunks *)
Definition do_part (idx : nat) (part : bool) (c : chunk) (acc : macc) : outcome (chunk * macc) :=
  match ck_stable c part with
  | None => Done (c, acc)
  | Some rl =>
    match scale_out_loop (loop_fuel rl dmn) epoch avg rem smn dmn scn idx part rl acc with
    | Done (rl', acc') => Done (set_stable c part (Some rl'), acc')
    | Fail e => Fail e
    | Panic => Panic
    end
  end.

Lemma scale_out_chunks_cons idx c rest acc :
  scale_out_chunks epoch avg rem smn dmn scn idx (c :: rest) acc =
  match do_part idx false c acc with
  | Done (c1, acc1) =>
    match do_part idx true c1 acc1 with
    | Done (c2, acc2) =>
      match scale_out_chunks epoch avg rem smn dmn scn (S idx) rest acc2 with
      | Done (rest', acc3) => Done (c2 :: rest', acc3)
      | Fail e => Fail e
      | Panic => Panic
      end
    | Fail e => Fail e
    | Panic => Panic
    end
  | Fail e => Fail e
  | Panic => Panic
  end.
Proof. reflexivity. Qed.

(* replacing one stable list of a chunk: the other one is a frame *)
Lemma chunk_stable_set c part rl rl' : ck_stable c part = Some rl ->
  exists other,
    (forall s, cnt s (chunk_stable c) = (cnt s rl + cnt s other)%nat) /\
    (forall s, cnt s (chunk_stable (set_stable c part (Some rl'))) = (cnt s rl' + cnt s other)%nat) /\
    (Forall wf_range (chunk_stable c) -> Forall wf_range rl /\ Forall wf_range other) /\
    (Forall wf_range rl' -> Forall wf_range other -> Forall wf_range (chunk_stable (set_stable c part (Some rl')))).
Proof.
  destruct part; cbn [ck_stable]; intros E.
  - exists (opt_ranges (ck_stable0 c)). unfold chunk_stable. cbn [set_stable ck_stable0 ck_stable1]. rewrite E. cbn [opt_ranges].
    split; [intros s; rewrite cnt_app; lia|]. split; [intros s; rewrite cnt_app; lia|].
    split; [intros H; apply Forall_app in H; tauto|]. intros H1 H2. apply Forall_app. tauto.
  - exists (opt_ranges (ck_stable1 c)). unfold chunk_stable. cbn [set_stable ck_stable0 ck_stable1]. rewrite E. cbn [opt_ranges].
    split; [intros s; rewrite cnt_app; lia|]. split; [intros s; rewrite cnt_app; lia|].
    split; [intros H; apply Forall_app in H; tauto|]. intros H1 H2. apply Forall_app. tauto.
Qed.

Definition part_post (c : chunk) (acc : macc) (c' : chunk) (acc' : macc) : Prop :=
  ck_mig0 c' = ck_mig0 c /\ ck_mig1 c' = ck_mig1 c /\
  Forall wf_range (chunk_stable c') /\ Forall wf_range (mig_ranges (a_migs acc')) /\
  (forall l m, In (l, m) (a_migs acc') -> l <> []) /\ a_cur acc' = [] /\
  (forall s, (cnt s (chunk_stable c') + cnt s (mig_ranges (a_migs acc')))%nat =
             (cnt s (chunk_stable c) + cnt s (mig_ranges (a_migs acc)))%nat) /\
  a_num acc' < dst_final (a_dst acc').

Lemma do_part_ok idx part c acc c' acc' :
  do_part idx part c acc = Done (c', acc') ->
  Forall wf_range (chunk_stable c) -> Forall wf_range (mig_ranges (a_migs acc)) ->
  (forall l m, In (l, m) (a_migs acc) -> l <> []) -> a_cur acc = [] ->
  (forall s, (cnt s (chunk_stable c) + cnt s (mig_ranges (a_migs acc)) <= 1)%nat) ->
  a_num acc < dst_final (a_dst acc) ->
  part_post c acc c' acc'.
Proof.
  intros H Hwc Hwm Hne Hcur Htot Hnum. unfold do_part in H.
  destruct (ck_stable c part) as [rl|] eqn:Est.
  - destruct (scale_out_loop (loop_fuel rl dmn) epoch avg rem smn dmn scn idx part rl acc) as [[rl' acc1]| |] eqn:El;
      try discriminate.
    inversion H; subst c' acc1. clear H.
    destruct (chunk_stable_set c part rl rl' Est) as (other & C1 & C2 & W1 & W2).
    destruct (W1 Hwc) as [Hwrl Hwo].
    destruct (scale_out_loop_ok _ _ _ _ _ _ _ El) as (P1 & P2 & P3 & P4 & P5 & P6); try assumption.
    + rewrite Hcur. constructor.
    + intros s. unfold tot. rewrite Hcur, cnt_nil. specialize (Htot s). rewrite C1 in Htot. lia.
    + left. assumption.
    + unfold part_post. rewrite set_stable_mig0, set_stable_mig1.
      split; [reflexivity|]. split; [reflexivity|]. split; [apply W2; assumption|]. split; [assumption|].
      split; [assumption|]. split; [assumption|]. split; [|assumption].
      intros s. specialize (P4 s). unfold tot in P4. rewrite P5, Hcur, !cnt_nil in P4. rewrite C1, C2. lia.
  - inversion H; subst. unfold part_post. auto 10.
Qed.

Lemma part_post_trans c acc c1 acc1 c2 acc2 :
  part_post c acc c1 acc1 -> part_post c1 acc1 c2 acc2 -> part_post c acc c2 acc2.
Proof.
  intros (A1 & A2 & A3 & A4 & A5 & A6 & A7 & A8) (B1 & B2 & B3 & B4 & B5 & B6 & B7 & B8). unfold part_post.
  split; [congruence|]. split; [congruence|]. repeat (split; [assumption|]). split; [|assumption].
  intros s. rewrite B7. apply A7.
Qed.

Lemma stable_ranges_cons c rest : stable_ranges (c :: rest) = chunk_stable c ++ stable_ranges rest.
Proof. reflexivity. Qed.

Lemma scale_out_chunks_ok : forall chunks idx acc chunks' acc',
  scale_out_chunks epoch avg rem smn dmn scn idx chunks acc = Done (chunks', acc') ->
  no_migs chunks -> Forall wf_range (stable_ranges chunks) -> Forall wf_range (mig_ranges (a_migs acc)) ->
  (forall l m, In (l, m) (a_migs acc) -> l <> []) -> a_cur acc = [] ->
  (forall s, (cnt s (stable_ranges chunks) + cnt s (mig_ranges (a_migs acc)) <= 1)%nat) ->
  a_num acc < dst_final (a_dst acc) ->
  length chunks' = length chunks /\ no_migs chunks' /\ Forall wf_range (stable_ranges chunks') /\
  Forall wf_range (mig_ranges (a_migs acc')) /\ (forall l m, In (l, m) (a_migs acc') -> l <> []) /\ a_cur acc' = [] /\
  (forall s, (cnt s (stable_ranges chunks') + cnt s (mig_ranges (a_migs acc')))%nat = (cnt s (stable_ranges chunks) + cnt s (mig_ranges (a_migs acc)))%nat) /\
  a_num acc' < dst_final (a_dst acc').
Proof.
  induction chunks as [|c rest IH]; intros idx acc chunks' acc' H Hnm Hws Hwm Hne Hcur Htot Hnum.
  - cbn [scale_out_chunks] in H. inversion H; subst. auto 10.
  - rewrite scale_out_chunks_cons in H.
    destruct (do_part idx false c acc) as [[c1 acc1]| |] eqn:E1; try discriminate.
    destruct (do_part idx true c1 acc1) as [[c2 acc2]| |] eqn:E2; try discriminate.
    destruct (scale_out_chunks epoch avg rem smn dmn scn (S idx) rest acc2) as [[rest' acc3]| |] eqn:E3; try discriminate.
    inversion H; subst chunks' acc3. clear H.
    apply no_migs_cons in Hnm. destruct Hnm as [[Hm0 Hm1] Hnr].
    rewrite stable_ranges_cons in Hws. apply Forall_app in Hws. destruct Hws as [Hwc Hwr].
    assert (Htc : forall s, (cnt s (chunk_stable c) + cnt s (mig_ranges (a_migs acc)) <= 1)%nat).
    { intros s. specialize (Htot s). rewrite stable_ranges_cons, cnt_app in Htot. lia. }
    pose proof (do_part_ok idx false c acc c1 acc1 E1 Hwc Hwm Hne Hcur Htc Hnum) as Q1.
    pose proof Q1 as (A1 & A2 & A3 & A4 & A5 & A6 & A7 & A8).
    assert (Htc1 : forall s, (cnt s (chunk_stable c1) + cnt s (mig_ranges (a_migs acc1)) <= 1)%nat).
    { intros s. rewrite A7. apply Htc. }
    pose proof (do_part_ok idx true c1 acc1 c2 acc2 E2 A3 A4 A5 A6 Htc1 A8) as Q2.
    pose proof (part_post_trans _ _ _ _ _ _ Q1 Q2) as (B1 & B2 & B3 & B4 & B5 & B6 & B7 & B8).
    destruct (IH (S idx) acc2 rest' acc' E3 Hnr Hwr B4 B5 B6) as (R1 & R2 & R3 & R4 & R5 & R6 & R7 & R8).
    { intros s. specialize (Htot s). specialize (B7 s). rewrite stable_ranges_cons, cnt_app in Htot. lia. }
    { exact B8. }
    split; [cbn [length]; congruence|].
    split; [apply no_migs_cons; split; [split; congruence|assumption]|].
    split; [rewrite stable_ranges_cons; apply Forall_app; split; assumption|].
    split; [assumption|]. split; [assumption|]. split; [assumption|]. split; [|assumption].
    intros s. specialize (R7 s). specialize (B7 s). rewrite !stable_ranges_cons, !cnt_app. lia.
Qed.

End ScaleOut.

(* ---------- top level ---------- *)
Lemma mig_ranges_rev_perm migs : Permutation (mig_ranges (rev migs)) (mig_ranges migs).
Proof. unfold mig_ranges. apply Permutation_flat_map. apply Permutation_sym, Permutation_rev. Qed.

Lemma average_pos len : (0 < len)%nat -> 2 * N.of_nat len <= SLOT_NUM -> 1 <= SLOT_NUM / (2 * N.of_nat len).
Proof. intros Hl Hs. apply N.div_le_lower_bound; lia. Qed.

Lemma slot_ind_zero : slot_ind 0 = 1%nat.
Proof. reflexivity. Qed.

Lemma slot_ind_le1 s : (slot_ind s <= 1)%nat.
Proof. unfold slot_ind. destruct (N.ltb s SLOT_NUM); lia. Qed.

Lemma remove_src_ok : forall cl epoch chunks migs,
  part_inv (cl_chunks cl) -> cluster_is_migrating cl = false ->
  remove_slots_from_src cl epoch = Done (chunks, migs) -> remove_ok chunks migs.
Proof.
  intros cl epoch chunks migs Hinv Hmig H.
  pose proof (not_migrating_no_migs cl Hmig) as Hnm.
  destruct (part_inv_stable _ Hinv Hnm) as [Hws Hcov].
  pose proof (pi_size _ Hinv) as Hsz.
  assert (Hlen : (0 < length (cl_chunks cl))%nat).
  { destruct (length (cl_chunks cl)) eqn:El; [|lia]. exfalso.
    apply length_zero_iff_nil in El. specialize (Hcov 0). rewrite El, slot_ind_zero in Hcov.
    cbn [stable_ranges flat_map] in Hcov. rewrite cnt_nil in Hcov. discriminate. }
  pose proof (average_pos _ Hlen Hsz) as Havg.
  unfold remove_slots_from_src in H. cbv zeta in H.
  destruct (scale_out_chunks _ _ _ _ _ _ _ _ _) as [[ch acc]| |] eqn:E; try discriminate.
  inversion H; subst chunks migs. clear H.
  destruct (scale_out_chunks_ok _ _ _ _ _ _ Havg _ _ _ _ _ E Hnm Hws) as (R1 & R2 & R3 & R4 & R5 & R6 & R7 & R8).
  - cbn [a_migs mig_ranges flat_map]. constructor.
  - cbn [a_migs]. intros l m [].
  - reflexivity.
  - intros s. cbn [a_migs mig_ranges flat_map]. rewrite cnt_nil, Hcov. pose proof (slot_ind_le1 s). lia.
  - cbn [a_num a_dst]. eapply N.lt_le_trans; [|apply dst_final_pos; exact Havg]. lia.
  - constructor.
    + rewrite R1. exact Hsz.
    + exact R2.
    + exact R3.
    + eapply Permutation_Forall; [apply Permutation_sym, mig_ranges_rev_perm|exact R4].
    + intros rl m Hin. apply in_rev in Hin. eauto.
    + intros s. rewrite (cnt_perm s _ _ (mig_ranges_rev_perm (a_migs acc))), R7.
      cbn [a_migs mig_ranges flat_map]. rewrite cnt_nil, Hcov. lia.
Qed.

(* the Done hypothesis of remove_src_ok is satisfiable with a non-trivial plan: one source chunk holding all slots
   (the second stable list in two uncompacted ranges), two empty destination chunks -> five pending migrations,
   three of them produced by splitting a range *)
Example remove_src_ok_witness :
  let ck a b := mkChunk RNormal a b [] [] 1 2 1 2 1 2 3 4 in
  let cl := mkCluster 1 [ck (Some [(0, 8191)]) (Some [(8192, 9000); (9001, 16383)]); ck None None; ck None None] 0 in
  cluster_is_migrating cl = false /\
  exists chunks migs, remove_slots_from_src cl 7 = Done (chunks, migs) /\ length migs = 5%nat /\
    map fst migs = [[(5461, 8191)]; [(2731, 5460)]; [(16383, 16383)]; [(13653, 16382)]; [(10923, 13652)]].
Proof. cbv zeta. split; [reflexivity|]. eexists. eexists. split; [vm_compute; reflexivity|]. split; reflexivity. Qed.
