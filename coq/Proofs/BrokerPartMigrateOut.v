(* The remove phase of the scale-out planner (migrate.rs remove_slots_from_src, model Broker.remove_slots_from_src)
   establishes `remove_ok`: the ranges that left the stable lists of the source masters are exactly the ranges of the
   returned pending migrations, nothing stays behind in the curr_dst_slots accumulator, everything is well formed and
   every pending migration is non-empty. *)
From UM Require Import Base.BytesDef Model.Ranges Model.Broker Proofs.BrokerBase Proofs.BrokerPartRanges Proofs.BrokerPartDefs Proofs.BrokerPartMigrateBase.
From Coq Require Import ZifyBool ZifyNat ZifyN Permutation.

(* ---------- small generic facts ---------- *)
Lemma mig_ranges_cons l m migs : mig_ranges ((l, m) :: migs) = l ++ mig_ranges migs.
Proof. reflexivity. Qed.

Lemma b2n_le1 b : b2n b <= 1.
Proof. destruct b; unfold b2n; lia. Qed.

Lemma csub_some a b d : csub a b = Some d -> b <= a /\ d = a - b.
Proof. unfold csub. destruct (N.ltb a b) eqn:E; [discriminate|]. intros H. inversion H. lia. Qed.

Lemma Forall_snoc {A} (P : A -> Prop) l x : Forall P (l ++ [x]) <-> Forall P l /\ P x.
Proof.
  rewrite Forall_app. split.
  - intros [H1 H2]. inversion H2; subst. auto.
  - intros [H1 H2]. split; [assumption|]. constructor; [assumption|constructor].
Qed.

Lemma snoc_not_nil {A} (l : list A) x : l ++ [x] <> [].
Proof. destruct l; discriminate. Qed.

(* one step of the inner loop, whole last range moves from the source to the accumulator *)
Lemma step_whole front r cur : Forall wf_range (front ++ [r]) -> Forall wf_range cur ->
  Forall wf_range front /\ Forall wf_range (cur ++ [r]) /\
  forall s, (cnt s front + cnt s (cur ++ [r]) = cnt s (front ++ [r]) + cnt s cur)%nat.
Proof.
  intros Hf Hc. apply Forall_snoc in Hf. destruct Hf as [Hf Hr].
  split; [assumption|]. split; [apply Forall_snoc; auto|].
  intros s. rewrite !cnt_snoc. lia.
Qed.

(* one step of the inner loop, the last k slots of the last range move *)
Lemma step_split front r cur k : Forall wf_range (front ++ [r]) -> Forall wf_range cur -> 1 <= k -> k <= snd r - fst r ->
  Forall wf_range (front ++ [(fst r, snd r - k)]) /\ Forall wf_range (cur ++ [(snd r - k + 1, snd r)]) /\
  forall s, Nat.add (cnt s (front ++ [(fst r, snd r - k)])) (cnt s (cur ++ [(snd r - k + 1, snd r)])) = Nat.add (cnt s (front ++ [r])) (cnt s cur).
Proof.
  intros Hf Hc Hk1 Hk2. apply Forall_snoc in Hf. destruct Hf as [Hf Hr]. destruct r as [a b].
  unfold wf_range in Hr. cbn [fst snd] in *.
  split; [apply Forall_snoc; split; [assumption|unfold wf_range; cbn [fst snd]; lia]|].
  split; [apply Forall_snoc; split; [assumption|unfold wf_range; cbn [fst snd]; lia]|].
  intros s. rewrite !cnt_snoc. rewrite (in_range_split_back s a b k Hr Hk1 Hk2). lia.
Qed.

Section ScaleOut.
Variables epoch avg rem smn dmn : N.
Variable scn : nat.
Hypothesis Havg : 1 <= avg.

Definition src_final (idx : nat) (part : bool) : N := avg + b2n (N.ltb (2 * N.of_nat idx + b2n part) rem).
Definition dst_final (k : N) : N := avg + b2n (N.ltb (smn + k) rem).
Definition tot (s : N) (rl : rangelist) (acc : macc) : nat :=
  (cnt s rl + cnt s (a_cur acc) + cnt s (mig_ranges (a_migs acc)))%nat.

Lemma dst_final_pos k : 1 <= dst_final k.
Proof. unfold dst_final. pose proof (b2n_le1 (N.ltb (smn + k) rem)). lia. Qed.

(* ---------- inner loop ---------- *)
Definition loop_pre (idx : nat) (part : bool) (rl : rangelist) (acc : macc) : Prop :=
  Forall wf_range rl /\ Forall wf_range (a_cur acc) /\ Forall wf_range (mig_ranges (a_migs acc)) /\
  (forall l m, In (l, m) (a_migs acc) -> l <> []) /\
  (forall s, (tot s rl acc <= 1)%nat) /\
  a_num acc < dst_final (a_dst acc) /\
  (a_cur acc = [] \/ (a_dst acc <> dmn /\ exists n, slots_num rl = Some n /\ src_final idx part < n)).

Definition loop_post (rl : rangelist) (acc : macc) (rl' : rangelist) (acc' : macc) : Prop :=
  Forall wf_range rl' /\ Forall wf_range (mig_ranges (a_migs acc')) /\ (forall l m, In (l, m) (a_migs acc') -> l <> []) /\
  (forall s, tot s rl' acc' = tot s rl acc) /\ a_cur acc' = [] /\ a_num acc' < dst_final (a_dst acc').

Definition loop_spec (fuel : nat) : Prop := forall idx part rl acc rl' acc',
  scale_out_loop fuel epoch avg rem smn dmn scn idx part rl acc = Done (rl', acc') ->
  loop_pre idx part rl acc -> loop_post rl acc rl' acc'.

Lemma loop_post_refl idx part rl acc : loop_pre idx part rl acc -> a_cur acc = [] -> loop_post rl acc rl acc.
Proof.
  intros (Hwrl & Hwcur & Hwm & Hne & Htot & Hnum & Hlast) Hcur. unfold loop_post. auto 10.
Qed.

Lemma loop_post_trans rl0 acc0 rl acc rl' acc' :
  loop_post rl acc rl' acc' -> (forall s, tot s rl acc = tot s rl0 acc0) -> loop_post rl0 acc0 rl' acc'.
Proof.
  intros (H1 & H2 & H3 & H4 & H5 & H6) Ht. unfold loop_post. repeat split; auto.
  intros s. rewrite H4. apply Ht.
Qed.

(* the part of the loop body after the last range has been (partly) moved to the accumulator *)
Definition loop_tail (fuel' : nat) (idx : nat) (part : bool) (rl2 : rangelist) (dst : N) (cur2 : rangelist) (num2 : N)
           (migs : list (rangelist * mig_meta)) : outcome (rangelist * macc) :=
  match slots_num rl2 with
  | None => Panic
  | Some n' =>
    if N.leb (dst_final dst) num2 || N.leb n' (src_final idx part) then
      let meta := mkMeta epoch idx part (scn + N.to_nat (dst / 2)) (N.eqb (dst mod 2) 1) in
      let migs' := (rl_new cur2, meta) :: migs in
      let acc' := if N.leb (dst_final dst) num2 then mkAcc (dst + 1) [] 0 migs' else mkAcc dst [] num2 migs' in
      if N.leb n' (src_final idx part) then Done (rl2, acc')
      else scale_out_loop fuel' epoch avg rem smn dmn scn idx part rl2 acc'
    else scale_out_loop fuel' epoch avg rem smn dmn scn idx part rl2 (mkAcc dst cur2 num2 migs)
  end.

(* the accumulator after a flush *)
Lemma flush_acc_ok idx part rl2 dst dst' cur2 num2 num3 migs meta :
  Forall wf_range rl2 -> Forall wf_range cur2 -> cur2 <> [] -> Forall wf_range (mig_ranges migs) ->
  (forall l m, In (l, m) migs -> l <> []) ->
  (forall s, (cnt s rl2 + cnt s cur2 + cnt s (mig_ranges migs) <= 1)%nat) ->
  num3 < dst_final dst' ->
  loop_pre idx part rl2 (mkAcc dst' [] num3 ((rl_new cur2, meta) :: migs)) /\
  (forall s, tot s rl2 (mkAcc dst' [] num3 ((rl_new cur2, meta) :: migs)) = tot s rl2 (mkAcc dst cur2 num2 migs)).
Proof.
  intros Hwrl Hwcur Hcne Hwm Hne Htot Hnum.
  destruct (compact_cnt cur2 Hwcur) as [Hcc Hcw].
  { intros s. specialize (Htot s). lia. }
  assert (Heq : forall s, tot s rl2 (mkAcc dst' [] num3 ((rl_new cur2, meta) :: migs)) = tot s rl2 (mkAcc dst cur2 num2 migs)).
  { intros s. unfold tot. cbn [a_cur a_migs]. rewrite mig_ranges_cons, cnt_app, cnt_nil. unfold rl_new. rewrite Hcc. lia. }
  split; [|exact Heq].
  unfold loop_pre. cbn [a_cur a_migs a_num a_dst].
  split; [assumption|]. split; [constructor|].
  split; [rewrite mig_ranges_cons; apply Forall_app; split; assumption|].
  split.
  { intros l m [Hin|Hin]; [|eauto]. inversion Hin; subst. unfold rl_new. apply compact_nonempty. assumption. }
  split.
  { intros s. rewrite Heq. unfold tot. cbn [a_cur a_migs]. apply Htot. }
  split; [assumption|]. left. reflexivity.
Qed.

Lemma loop_tail_ok fuel' idx part rl2 dst cur2 num2 migs rl' acc' :
  loop_spec fuel' ->
  loop_tail fuel' idx part rl2 dst cur2 num2 migs = Done (rl', acc') ->
  Forall wf_range rl2 -> Forall wf_range cur2 -> cur2 <> [] -> Forall wf_range (mig_ranges migs) ->
  (forall l m, In (l, m) migs -> l <> []) ->
  (forall s, (cnt s rl2 + cnt s cur2 + cnt s (mig_ranges migs) <= 1)%nat) ->
  dst <> dmn ->
  loop_post rl2 (mkAcc dst cur2 num2 migs) rl' acc'.
Proof.
  intros IH H Hwrl Hwcur Hcne Hwm Hne Htot Hdst.
  unfold loop_tail in H.
  destruct (slots_num rl2) as [n'|] eqn:En; [|discriminate].
  destruct (N.leb (dst_final dst) num2) eqn:E1; destruct (N.leb n' (src_final idx part)) eqn:E2; cbn [orb] in H; cbv zeta in H.
  - (* flush, advance, source done *)
    destruct (flush_acc_ok idx part rl2 dst (dst + 1) cur2 num2 0 migs
                (mkMeta epoch idx part (scn + N.to_nat (dst / 2)) (N.eqb (dst mod 2) 1)) Hwrl Hwcur Hcne Hwm Hne Htot) as [Hp Ht].
    { pose proof (dst_final_pos (dst + 1)). lia. }
    inversion H; subst. eapply loop_post_trans; [|exact Ht]. eapply loop_post_refl; [exact Hp|reflexivity].
  - (* flush, advance, continue *)
    destruct (flush_acc_ok idx part rl2 dst (dst + 1) cur2 num2 0 migs
                (mkMeta epoch idx part (scn + N.to_nat (dst / 2)) (N.eqb (dst mod 2) 1)) Hwrl Hwcur Hcne Hwm Hne Htot) as [Hp Ht].
    { pose proof (dst_final_pos (dst + 1)). lia. }
    eapply loop_post_trans; [|exact Ht]. eapply IH; [exact H|exact Hp].
  - (* flush without advance, source done *)
    destruct (flush_acc_ok idx part rl2 dst dst cur2 num2 num2 migs
                (mkMeta epoch idx part (scn + N.to_nat (dst / 2)) (N.eqb (dst mod 2) 1)) Hwrl Hwcur Hcne Hwm Hne Htot) as [Hp Ht].
    { lia. }
    inversion H; subst. eapply loop_post_trans; [|exact Ht]. eapply loop_post_refl; [exact Hp|reflexivity].
  - (* no flush *)
    eapply IH; [exact H|]. unfold loop_pre. cbn [a_cur a_migs a_num a_dst].
    split; [assumption|]. split; [assumption|]. split; [assumption|]. split; [assumption|].
    split; [intros s; unfold tot; cbn [a_cur a_migs]; apply Htot|].
    split; [lia|]. right. split; [assumption|]. exists n'. split; [exact En|lia].
Qed.

Lemma loop_spec_all fuel : loop_spec fuel.
Proof.
  induction fuel as [|fuel' IH]; intros idx part rl acc rl' acc' H Hpre.
  - cbn [scale_out_loop] in H. discriminate.
  - cbn [scale_out_loop] in H.
    pose proof Hpre as (Hwrl & Hwcur & Hwm & Hne & Htot & Hnum & Hlast).
    destruct (N.eqb (a_dst acc) dmn) eqn:Edst.
    { inversion H; subst. eapply loop_post_refl; [exact Hpre|]. destruct Hlast as [Hl|[Hl _]]; [assumption|lia]. }
    destruct (slots_num rl) as [n|] eqn:En; [|discriminate].
    fold (src_final idx part) in H. fold (dst_final (a_dst acc)) in H.
    destruct (N.leb n (src_final idx part)) eqn:Esrc.
    { inversion H; subst. eapply loop_post_refl; [exact Hpre|].
      destruct Hlast as [Hl|[_ [n0 [Hn0 Hlt]]]]; [assumption|]. inversion Hn0; subst. lia. }
    destruct (csub (dst_final (a_dst acc)) (a_num acc)) as [need|] eqn:Ecs; [|discriminate].
    apply csub_some in Ecs. destruct Ecs as [_ Eneed].
    destruct (split_last rl) as [[front r]|] eqn:Esl; [|discriminate].
    apply split_last_spec in Esl. subst rl.
    destruct (range_len r) as [num|] eqn:Erl; [|discriminate].
    apply range_len_some in Erl. destruct Erl as [Hwr Enum].
    assert (Hdst : a_dst acc <> dmn) by lia.
    destruct (N.leb num (N.min need (n - src_final idx part))) eqn:Ecase.
    + change (loop_tail fuel' idx part front (a_dst acc) (a_cur acc ++ [r]) (a_num acc + num) (a_migs acc) = Done (rl', acc')) in H.
      destruct (step_whole front r (a_cur acc) Hwrl Hwcur) as (S1 & S2 & S3).
      eapply loop_post_trans.
      * eapply loop_tail_ok; [exact IH|exact H|exact S1|exact S2|apply snoc_not_nil|exact Hwm|exact Hne| |exact Hdst].
        intros s. specialize (Htot s). specialize (S3 s). unfold tot in Htot. lia.
      * intros s. specialize (S3 s). unfold tot. cbn [a_cur a_migs]. lia.
    + change (loop_tail fuel' idx part (front ++ [(fst r, snd r - N.min need (n - src_final idx part))]) (a_dst acc)
                        (a_cur acc ++ [(snd r - N.min need (n - src_final idx part) + 1, snd r)])
                        (a_num acc + N.min need (n - src_final idx part)) (a_migs acc) = Done (rl', acc')) in H.
      destruct (step_split front r (a_cur acc) (N.min need (n - src_final idx part)) Hwrl Hwcur) as (S1 & S2 & S3); [lia|lia|].
      eapply loop_post_trans.
      * eapply loop_tail_ok; [exact IH|exact H|exact S1|exact S2|apply snoc_not_nil|exact Hwm|exact Hne| |exact Hdst].
        intros s. specialize (Htot s). specialize (S3 s). unfold tot in Htot. lia.
      * intros s. specialize (S3 s). unfold tot. cbn [a_cur a_migs]. lia.
Qed.

End ScaleOut.
