(* C02, chases during which the migration handshake advances: every decision of the chase may see a later phase assignment than the
   previous one.  This is where the third redirection of the property text comes from:
   bystander -> destination (still PreCheck) -> source (meanwhile Scanning) -> destination. *)
From UM Require Import Base.BytesDef Model.Ranges Model.Broker Model.Route
     Proofs.BrokerPartRanges Proofs.BrokerPartDefs Proofs.RouteProofsBase Proofs.RouteProofsView Proofs.RouteProofsTables Proofs.RouteProofs.
From Coq Require Import ZifyBool ZifyNat ZifyN.

(* ph' is ph after the handshakes made some progress: no migration moved backwards in the list of phase pairs *)
Definition advances (ph ph' : phases) : Prop :=
  forall rl m i j, phase_index (ph rl m) = Some i -> phase_index (ph' rl m) = Some j -> (i <= j)%nat.

Fixpoint chain (phs : list phases) : Prop :=
  match phs with
  | ph :: ((ph' :: _) as rest) => advances ph ph' /\ chain rest
  | _ => True
  end.

(* one phase assignment per decision *)
Inductive dpath (metas : N -> pmeta) (s : N) : list phases -> N -> list step -> Prop :=
| dpath_one ph p o : In o (route_step ph (metas p) s) -> dpath metas s [ph] p [(p, o)]
| dpath_cons ph ph' phs p q tr : In (Moved q) (route_step ph (metas p) s) -> dpath metas s (ph' :: phs) q tr ->
                                 dpath metas s (ph :: ph' :: phs) p ((p, Moved q) :: tr).

Definition last_ph (phs : list phases) : option phases := match rev phs with [] => None | x :: _ => Some x end.

Lemma last_ph_cons ph phs : phs <> [] -> last_ph (ph :: phs) = last_ph phs.
Proof.
  unfold last_ph. intros H. cbn [rev]. destruct (rev phs) as [|x r] eqn:E.
  - apply (f_equal (@rev phases)) in E. rewrite rev_involutive in E. cbn in E. congruence.
  - reflexivity.
Qed.

Lemma dpc_index p i : phase_index p = Some i -> (dpc p = true <-> (i <= 2)%nat).
Proof.
  destruct p as [[] b []]; unfold phase_index, dpc; cbn; intros H; inversion H; subst; split; intros; try lia; try discriminate; reflexivity.
Qed.

Lemma phase_ok_index p : phase_ok p = true -> exists i, phase_index p = Some i.
Proof. unfold phase_ok. destruct (phase_index p) as [i|]; [eauto|discriminate]. Qed.

Section Dyn.
Variable ns : list vnode.
Hypothesis Hpo : partition_ok ns.
Hypothesis Hwf : view_wfb ns = true.
Variable s : N.
Hypothesis Hs : s < SLOT_NUM.
Variable n0 : vnode.
Variable sl0 : vslot.
Hypothesis Hown : owner_entries ns s = [(n0, sl0)].

Definition rank2 (ph : phases) (p : N) : nat :=
  match snd sl0 with
  | VMigrating m =>
    let d := dpc (ph (fst sl0) m) in
    if N.eqb p (vm_src_proxy m) then 1
    else if N.eqb p (vm_dst_proxy m) then (if d then 2 else 0)
    else (if d then 3 else 2)
  | _ => if N.eqb p (vn_proxy n0) then 0 else 1
  end%nat.

Lemma rank2_bound ph p : (rank2 ph p <= if migrating_slot ns s then 3 else 1)%nat.
Proof.
  unfold rank2, migrating_slot. rewrite Hown. cbn [existsb snd]. destruct (snd sl0) as [|m|m]; cbn [orb].
  - destruct (N.eqb p (vn_proxy n0)); lia.
  - destruct (N.eqb p (vm_src_proxy m)); [lia|]. destruct (N.eqb p (vm_dst_proxy m)); destruct (dpc _); lia.
  - destruct (N.eqb p (vn_proxy n0)); lia.
Qed.

Lemma rank2_mono ph ph' p : phases_ok ph ns = true -> phases_ok ph' ns = true -> advances ph ph' -> (rank2 ph' p <= rank2 ph p)%nat.
Proof.
  intros Hok Hok' Hadv. pose proof (surjective_pairing sl0) as Esl. unfold rank2. destruct (snd sl0) as [|m|m] eqn:Et; try lia.
  destruct (phase_ok_index _ (phi_ok ns ph Hok s n0 sl0 Hown (fst sl0) m Esl)) as [i Hi].
  destruct (phase_ok_index _ (phi_ok ns ph' Hok' s n0 sl0 Hown (fst sl0) m Esl)) as [j Hj].
  pose proof (Hadv _ _ _ _ Hi Hj) as Hij.
  pose proof (dpc_index _ _ Hi) as Di. pose proof (dpc_index _ _ Hj) as Dj.
  destruct (dpc (ph (fst sl0) m)) eqn:E1; destruct (dpc (ph' (fst sl0) m)) eqn:E2;
    destruct (N.eqb p (vm_src_proxy m)); destruct (N.eqb p (vm_dst_proxy m)); try lia.
  all: exfalso; assert ((j <= 2)%nat) by (apply Dj; reflexivity); assert (~ (i <= 2)%nat) by (intros X; apply Di in X; discriminate); lia.
Qed.

Lemma queue_send_not_moved b h n q : queue_send b h n <> Moved q.
Proof. unfold queue_send. destruct b; [discriminate|]. destruct h; discriminate. Qed.

Lemma dyn_step ph p q : phases_ok ph ns = true -> In p (proxies_of ns) ->
  In (Moved q) (route_step ph (install_ns ns p) s) -> In q (proxies_of ns) /\ (rank2 ph q < rank2 ph p)%nat.
Proof.
  intros Hok Hp Hmv.
  pose proof (step_good ns Hpo Hwf ph Hok s Hs n0 sl0 Hown p (Moved q) Hp Hmv) as Hg. unfold good in Hg. destruct Hg as [Hq _].
  split; [exact Hq|].
  pose proof (surjective_pairing sl0) as Esl. unfold rank2. destruct (snd sl0) as [|m|m] eqn:Et.
  - assert (Hst : forall rl m, sl0 <> (rl, VMigrating m)) by (intros rl m' E; rewrite E in Et; discriminate).
    destruct (N.eq_dec p (vn_proxy n0)) as [->|Hne].
    + apply (stable_step_own ns Hpo Hwf ph s Hs n0 sl0 Hown Hst) in Hmv. symmetry in Hmv. destruct (queue_send_not_moved _ _ _ _ Hmv).
    + apply (stable_step_other ns Hpo Hwf ph s Hs n0 sl0 Hown Hst p _ Hp Hne) in Hmv. inversion Hmv; subst q.
      rewrite N.eqb_refl. apply N.eqb_neq in Hne. rewrite Hne. lia.
  - destruct (mig_facts ns Hpo Hwf s n0 sl0 Hown (fst sl0) m Esl) as [_ [_ [Hne _]]].
    destruct (phase_ok_facts _ (phi_ok ns ph Hok s n0 sl0 Hown (fst sl0) m Esl)) as [F1 _].
    assert (Eds : N.eqb (vm_dst_proxy m) (vm_src_proxy m) = false) by (apply N.eqb_neq; intros E; apply Hne; symmetry; exact E).
    destruct (N.eq_dec p (vm_src_proxy m)) as [->|H1]; [|destruct (N.eq_dec p (vm_dst_proxy m)) as [->|H2]].
    + apply (src_step ns Hpo Hwf ph Hok s Hs n0 sl0 Hown (fst sl0) m Esl) in Hmv.
      destruct (smoved (ph (fst sl0) m)) eqn:Esm.
      * inversion Hmv; subst q. rewrite (F1 eq_refl), N.eqb_refl, Eds, N.eqb_refl. lia.
      * destruct Hmv as [[Hx _]|[Hx _]]; discriminate.
    + apply (dst_step ns Hpo Hwf ph s Hs n0 sl0 Hown (fst sl0) m Esl) in Hmv.
      destruct (dpc (ph (fst sl0) m)) eqn:Ed; [|discriminate].
      inversion Hmv; subst q. rewrite N.eqb_refl, Eds, N.eqb_refl. lia.
    + apply (other_step ns Hpo Hwf ph s Hs n0 sl0 Hown (fst sl0) m Esl p _ Hp H1 H2) in Hmv.
      apply N.eqb_neq in H1, H2. rewrite H1, H2.
      destruct Hmv as [Hx|Hx]; inversion Hx; subst q; rewrite ?N.eqb_refl, ?Eds; destruct (dpc _); lia.
  - exfalso. pose proof (Hi0 ns s n0 sl0 Hown) as H. unfold is_imp in H. rewrite Et in H. discriminate.
Qed.

Lemma dpath_good phs start tr :
  Forall (fun ph => phases_ok ph ns = true) phs -> chain phs -> In start (proxies_of ns) ->
  dpath (install_ns ns) s phs start tr ->
  (exists ph0, hd_error phs = Some ph0 /\ (redirections tr <= rank2 ph0 start)%nat)
  /\ exists ph p o, last_ph phs = Some ph /\ last_step tr = Some (p, o) /\ In p (proxies_of ns) /\ good ns ph s n0 sl0 p o.
Proof.
  intros Hall Hch Hstart Hd. induction Hd as [ph p o Ho|ph ph' phs p q tr Hmv Hd IH].
  - inversion Hall as [|? ? Hok _]; subst.
    pose proof (step_good ns Hpo Hwf ph Hok s Hs n0 sl0 Hown p o Hstart Ho) as Hg.
    split.
    + exists ph. split; [reflexivity|]. unfold redirections. cbn [filter snd]. destruct o; cbn [is_moved length]; try lia.
      destruct (dyn_step ph p proxy Hok Hstart Ho). lia.
    + exists ph, p, o. repeat split; assumption.
  - inversion Hall as [|? ? Hok Hall']; subst. inversion Hall' as [|? ? Hok' _]; subst.
    cbn [chain] in Hch. destruct Hch as [Hadv Hch'].
    destruct (dyn_step ph p q Hok Hstart Hmv) as [Hq Hlt].
    destruct (IH Hall' Hch' Hq) as [[ph0 [E0 Hr]] [phl [p' [o' [El [Els [Hp' Hg']]]]]]].
    cbn [hd_error] in E0. inversion E0; subst ph0.
    pose proof (rank2_mono ph ph' q Hok Hok' Hadv) as Hm.
    split.
    + exists ph. split; [reflexivity|]. unfold redirections in *. cbn [filter snd is_moved length]. lia.
    + exists phl, p', o'. split; [rewrite last_ph_cons; [exact El|discriminate]|].
      split; [|split; assumption]. rewrite last_step_cons; [exact Els|]. intros E. subst tr. inversion Hd.
Qed.

End Dyn.

Theorem route_dynamic : forall ns s start phs tr,
  partition_ok ns -> view_wfb ns = true -> s < SLOT_NUM -> In start (proxies_of ns) ->
  Forall (fun ph => phases_ok ph ns = true) phs -> chain phs ->
  dpath (install_ns ns) s phs start tr ->
  (redirections tr <= if migrating_slot ns s then 3 else 1)%nat
  /\ exists ph p o, last_ph phs = Some ph /\ last_step tr = Some (p, o) /\ In p (proxies_of ns) /\
       match o with
       | Exec n => designated ph ns s = Some n
       | Queued n => node_blocked ph (install_ns ns p) n = true /\ In n (allowed_nodes ns s)
       | Moved q => In q (proxies_of ns)
       | Err _ => False
       end.
Proof.
  intros ns s start phs tr Hpo Hwf Hs Hstart Hall Hch Hd.
  destruct (owner_unique ns s Hpo Hs) as [[n0 sl0] Hown].
  destruct (dpath_good ns Hpo Hwf s Hs n0 sl0 Hown phs start tr Hall Hch Hstart Hd) as [[ph0 [_ Hr]] [ph [p [o [El [Els [Hp Hg]]]]]]].
  split.
  - pose proof (rank2_bound ns Hwf s Hs n0 sl0 Hown ph0 start). lia.
  - exists ph, p, o. split; [exact El|split; [exact Els|split; [exact Hp|]]].
    destruct o; unfold good in Hg; try exact Hg. tauto.
Qed.
