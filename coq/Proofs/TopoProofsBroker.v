(* C14 on broker views, part 2: the metadata a proxy installs from the broker's per-proxy view, and its well-formedness for
   every store reachable by ANY broker operation sequence.
   Mirrors coordinator/sync.rs: filter_proxy_masters (only Role::Master nodes are sent), generate_proxy_meta_cmd_args
   (node_map.insert(node address, slots) / peer_node_map.insert(proxy address, slots): the HashMaps are Route.hm_of, exactly
   what the route group's `install` builds) and ProxyClusterMeta::new(epoch, .., node_map, peer_node_map, ..).
   The Topo / Slot names are used qualified (Ranges / Broker / Route define range, in_range, install, in_ranges, ... too).
   Addresses: the broker model identifies proxies and nodes by N; `render` is the address string of an identifier and only has to
   be injective (to_dec is: render_to_dec_inj). *)
From UM Require Import Base.BytesDef Base.Dec Model.Ranges Model.Broker Model.Route
     Proofs.BrokerPartRanges Proofs.BrokerPartDefs Proofs.BrokerPartViewBase Proofs.BrokerPartViewProxy Proofs.BrokerPartMain
     Proofs.BrokerTotal Proofs.RouteProofsBase Proofs.RouteProofsTables Proofs.RouteProofsGlue Proofs.BrokerAcctBase Proofs.RouteProofsBrokerView Proofs.RouteProofsBroker.
From UM Require Proofs.RouteProofsEx.
From UM Require Model.Slot Model.Topo Proofs.SlotProofs Proofs.SlotProofsRoute Proofs.TopoProofs Proofs.TopoProofsBrokerCore.
From Coq Require Import ZifyBool ZifyNat ZifyN Permutation.

Definition tag_kind (t : vtag) : Topo.tag :=
  match t with VNone => Topo.TNone | VMigrating _ => Topo.TMigrating | VImporting _ => Topo.TImporting end.

Definition conv_slot (sl : vslot) : Topo.tagged_range := Topo.Build_tagged_range (fst sl) (tag_kind (snd sl)).

Definition conv_map (render : N -> bytes) (l : list (N * list vslot)) : Topo.tmap :=
  map (fun e => (render (fst e), map conv_slot (snd e))) l.

(* what the proxy with view v installs (Topo's metadata type); its own service address is render a *)
Definition meta_of_vproxy (render : N -> bytes) (v : vproxy) : Topo.tmeta :=
  Topo.Build_tmeta (vp_epoch v) (conv_map render (pm_local (install v))) (conv_map render (pm_peers (install v))).

Definition conv_claim (render : N -> bytes) (q : pslot) : Slot.addr * Topo.tagged_range :=
  (render (fst q), conv_slot (snd q)).

Definition view_claims (render : N -> bytes) (a : N) (v : vproxy) : list (Slot.addr * Topo.tagged_range) :=
  TopoProofs.claims (render a) (meta_of_vproxy render v).

Lemma render_to_dec_inj : forall a b, to_dec a = to_dec b -> a = b.
Proof.
  intros a b H. destruct (to_dec_spec a) as (_ & Ha & _). destruct (to_dec_spec b) as (_ & Hb & _). congruence.
Qed.

(* ---------- the claims are exactly the (proxy, slot entry) pairs of the view ---------- *)
Lemma claims_in : forall render a v,
  (forall n, In n (vp_nodes v) -> vn_proxy n = a) ->
  (forall n, In n (vp_nodes v) -> vn_master n = false -> vn_slots n = []) ->
  NoDup (map vn_addr (filter vn_master (vp_nodes v))) -> NoDup (map fst (vp_peers v)) ->
  forall c, In c (view_claims render a v) <-> exists q, In q (view_pslots v) /\ c = conv_claim render q.
Proof.
  intros render a v Hloc Hrep Hnd1 Hnd2 [a' sr]. unfold view_claims. rewrite TopoProofs.in_claims.
  unfold meta_of_vproxy, install. cbn [Topo.t_local Topo.t_peer pm_local pm_peers].
  set (L := map (fun n => (vn_addr n, vn_slots n)) (filter vn_master (vp_nodes v))).
  assert (HndL : NoDup (map fst L)).
  { unfold L. rewrite map_map. cbn [fst]. exact Hnd1. }
  unfold view_pslots. split.
  - intros [[-> Hin]|(srs & Hin & Hsr)].
    + apply in_flat_map in Hin. destruct Hin as ([k srs] & He & Hsr). cbn [snd] in Hsr.
      unfold conv_map in He. apply in_map_iff in He. destruct He as ([k0 sls] & E & Hk). cbn [fst snd] in E.
      inversion E; subst. apply (hm_of_In L k0 sls HndL) in Hk. unfold L in Hk. apply in_map_iff in Hk.
      destruct Hk as (n & E2 & Hn). inversion E2; subst. apply filter_In in Hn. destruct Hn as [Hn Hm].
      apply in_map_iff in Hsr. destruct Hsr as (sl & <- & Hsl).
      exists (a, sl). split; [|reflexivity]. apply in_or_app. left. unfold pslots. apply in_flat_map. exists n.
      split; auto. unfold pnode. apply in_map_iff. exists sl. rewrite (Hloc n Hn). auto.
    + unfold conv_map in Hin. apply in_map_iff in Hin. destruct Hin as ([p sls] & E & Hp). cbn [fst snd] in E.
      inversion E; subst. apply (hm_of_In (vp_peers v) p sls Hnd2) in Hp.
      apply in_map_iff in Hsr. destruct Hsr as (sl & <- & Hsl).
      exists (p, sl). split; [|reflexivity]. apply in_or_app. right. unfold peer_pslots. apply in_flat_map.
      exists (p, sls). split; auto. cbn [fst snd]. apply in_map_iff. exists sl. auto.
  - intros ([p sl] & Hq & E). unfold conv_claim in E. cbn [fst snd] in E. inversion E; subst. clear E.
    apply in_app_or in Hq. destruct Hq as [Hq|Hq].
    + left. unfold pslots in Hq. apply in_flat_map in Hq. destruct Hq as (n & Hn & Hq). unfold pnode in Hq.
      apply in_map_iff in Hq. destruct Hq as (sl' & E & Hsl). inversion E; subst. split; [rewrite (Hloc n Hn); reflexivity|].
      assert (Hm : vn_master n = true).
      { destruct (vn_master n) eqn:Em; auto. rewrite (Hrep n Hn Em) in Hsl. destruct Hsl. }
      apply in_flat_map. exists (render (vn_addr n), map conv_slot (vn_slots n)). split.
      * unfold conv_map. apply in_map_iff. exists (vn_addr n, vn_slots n). split; [reflexivity|].
        apply (hm_of_In L _ _ HndL). unfold L. apply in_map_iff. exists n. split; auto. apply filter_In. auto.
      * cbn [snd]. apply in_map. exact Hsl.
    + right. unfold peer_pslots in Hq. apply in_flat_map in Hq. destruct Hq as ([p' sls] & Hp & Hq). cbn [fst snd] in Hq.
      apply in_map_iff in Hq. destruct Hq as (sl' & E & Hsl). inversion E; subst.
      exists (map conv_slot sls). split.
      * unfold conv_map. apply in_map_iff. exists (p, sls). split; [reflexivity|]. apply (hm_of_In (vp_peers v) _ _ Hnd2). exact Hp.
      * apply in_map. exact Hsl.
Qed.

(* ---------- counting ---------- *)
Definition qcovers (q : pslot) (s : N) : Prop := exists r, In r (fst (snd q)) /\ fst r <= s /\ s <= snd r.
Definition qowned (q : pslot) : Prop := is_importing (snd (snd q)) = false.

Lemma cnt_pos : forall s l, (exists r, In r l /\ fst r <= s /\ s <= snd r) -> (1 <= cnt s l)%nat.
Proof.
  intros s l (r & Hin & Hb). induction l as [|x l IH]; [destruct Hin|]. rewrite cnt_cons.
  destruct Hin as [->|Hin].
  - unfold ind. assert (E : in_range s r = true) by (apply in_range_spec; auto). rewrite E. lia.
  - specialize (IH Hin). lia.
Qed.

Lemma powned_single : forall q : pslot, powned [q] = if is_importing (snd (snd q)) then [] else fst (snd q).
Proof. intros q. unfold powned. cbn [flat_map]. apply app_nil_r. Qed.

Lemma powned_member : forall s l q, In q l -> qowned q -> (cnt s (fst (snd q)) <= cnt s (powned l))%nat.
Proof.
  intros s l q Hin Ho. induction l as [|x l IH]; [destruct Hin|].
  change (powned (x :: l)) with (powned ([x] ++ l)). rewrite powned_app, cnt_app.
  destruct Hin as [->|Hin].
  - rewrite powned_single. unfold qowned in Ho. rewrite Ho. lia.
  - specialize (IH Hin). lia.
Qed.

Lemma two_owned : forall s E q1 q2, In q1 E -> In q2 E -> q1 <> q2 -> qowned q1 -> qowned q2 ->
  qcovers q1 s -> qcovers q2 s -> (2 <= cnt s (powned E))%nat.
Proof.
  intros s E q1 q2 H1 H2 Hne O1 O2 C1 C2.
  destruct (in_split _ _ H1) as (l1 & l2 & ->).
  assert (Hq1 : (1 <= cnt s (powned [q1]))%nat).
  { rewrite powned_single. unfold qowned in O1. rewrite O1. apply cnt_pos. exact C1. }
  change (l1 ++ q1 :: l2) with (l1 ++ [q1] ++ l2). rewrite !powned_app, !cnt_app.
  apply in_app_or in H2. destruct H2 as [H2|[H2|H2]]; [|congruence|].
  - pose proof (powned_member s l1 q2 H2 O2) as Hm. pose proof (cnt_pos s _ C2). lia.
  - pose proof (powned_member s l2 q2 H2 O2) as Hm. pose proof (cnt_pos s _ C2). lia.
Qed.

Lemma ptag_in_false : forall E p rl m, In (p, rl, m) (ptag false E) <-> In (p, (rl, VMigrating m)) E.
Proof.
  intros E p rl m. unfold ptag. rewrite in_flat_map. split.
  - intros ([p' [rl' t]] & Hin & H). cbn [fst snd] in H.
    destruct t; cbn in H; [destruct H|destruct H as [H|[]]; inversion H; subst; exact Hin|destruct H].
  - intros H. exists (p, (rl, VMigrating m)). split; auto. cbn. left. reflexivity.
Qed.

Lemma ptag_in_true : forall E p rl m, In (p, rl, m) (ptag true E) <-> In (p, (rl, VImporting m)) E.
Proof.
  intros E p rl m. unfold ptag. rewrite in_flat_map. split.
  - intros ([p' [rl' t]] & Hin & H). cbn [fst snd] in H.
    destruct t; cbn in H; [destruct H|destruct H|destruct H as [H|[]]; inversion H; subst; exact Hin].
  - intros H. exists (p, (rl, VImporting m)). split; auto. cbn. left. reflexivity.
Qed.

Lemma same_pmig_true : forall x y, same_pmig x y = true <-> snd (fst x) = snd (fst y) /\ snd x = snd y.
Proof.
  intros x y. unfold same_pmig. rewrite andb_true_iff, rangelist_eqb_eq, vmeta_eqb_eq. tauto.
Qed.

(* ---------- entry level: what proxy_partition_ok says about two entries covering one slot ---------- *)
Section Entries.
Variable E : list pslot.
Hypothesis HC : covers_once (powned E).
Hypothesis Hout : forall x, In x (ptag false E) ->
  exists y, filter (same_pmig x) (ptag true E) = [y] /\ fst (fst y) = vm_dst_proxy (snd x) /\ fst (fst x) = vm_src_proxy (snd x).
Hypothesis Hin : forall y, In y (ptag true E) -> exists x, In x (ptag false E) /\ same_pmig x y = true.

Lemma owned_unique : forall s q1 q2, In q1 E -> In q2 E -> qowned q1 -> qowned q2 -> qcovers q1 s -> qcovers q2 s -> q1 = q2.
Proof.
  intros s q1 q2 H1 H2 O1 O2 C1 C2.
  assert (Hdec : {q1 = q2} + {q1 <> q2}).
  { repeat decide equality; apply N.eq_dec. }
  destruct Hdec as [|Hne]; auto. exfalso.
  pose proof (two_owned s E q1 q2 H1 H2 Hne O1 O2 C1 C2) as H. rewrite (HC s) in H. destruct (N.ltb s SLOT_NUM); lia.
Qed.

(* the migrating twin of an importing entry: an owned entry with the same ranges and meta *)
Lemma importing_twin : forall p rl m, In (p, (rl, VImporting m)) E -> exists px, In (px, (rl, VMigrating m)) E.
Proof.
  intros p rl m H. apply ptag_in_true in H. destruct (Hin _ H) as ([[px rlx] mx] & Hx & Hs).
  apply same_pmig_true in Hs. cbn [fst snd] in Hs. destruct Hs as [-> ->]. exists px. apply ptag_in_false. exact Hx.
Qed.

Lemma entries_pair : forall s q1 q2, In q1 E -> In q2 E -> q1 <> q2 -> qcovers q1 s -> qcovers q2 s ->
  fst (snd q1) = fst (snd q2) /\
  ((exists m, snd (snd q1) = VMigrating m /\ snd (snd q2) = VImporting m) \/
   (exists m, snd (snd q1) = VImporting m /\ snd (snd q2) = VMigrating m)).
Proof.
  intros s [p1 [rl1 t1]] [p2 [rl2 t2]] H1 H2 Hne C1 C2. cbn [fst snd] in *.
  assert (Cq : forall p rl t, qcovers (p1, (rl1, t1)) s -> rl = rl1 -> qcovers (p, (rl, t)) s).
  { intros p rl t C ->. exact C. }
  destruct (is_importing t1) eqn:I1; destruct (is_importing t2) eqn:I2.
  - (* both importing: their migrating twins coincide, then the twin's unique importing partner is both *)
    destruct t1 as [|m1|m1]; try discriminate. destruct t2 as [|m2|m2]; try discriminate.
    destruct (importing_twin _ _ _ H1) as (px1 & Hx1). destruct (importing_twin _ _ _ H2) as (px2 & Hx2).
    assert (Ex : (px1, (rl1, VMigrating m1)) = (px2, (rl2, VMigrating m2))).
    { apply (owned_unique s); auto; try reflexivity. }
    inversion Ex; subst. exfalso.
    assert (Hx : In (px2, rl2, m2) (ptag false E)) by (apply ptag_in_false; exact Hx1).
    destruct (Hout _ Hx) as (y & Hf & _).
    assert (Y1 : In (p1, rl2, m2) (filter (same_pmig (px2, rl2, m2)) (ptag true E))).
    { apply filter_In. split; [apply ptag_in_true; exact H1|]. apply same_pmig_true. cbn. auto. }
    assert (Y2 : In (p2, rl2, m2) (filter (same_pmig (px2, rl2, m2)) (ptag true E))).
    { apply filter_In. split; [apply ptag_in_true; exact H2|]. apply same_pmig_true. cbn. auto. }
    rewrite Hf in Y1, Y2. destruct Y1 as [Y1|[]]. destruct Y2 as [Y2|[]]. apply Hne. congruence.
  - destruct t1 as [|m1|m1]; try discriminate.
    destruct (importing_twin _ _ _ H1) as (px1 & Hx1).
    assert (Ex : (px1, (rl1, VMigrating m1)) = (p2, (rl2, t2))).
    { apply (owned_unique s); auto; try reflexivity. }
    inversion Ex; subst. split; auto. right. exists m1. auto.
  - destruct t2 as [|m2|m2]; try discriminate.
    destruct (importing_twin _ _ _ H2) as (px2 & Hx2).
    assert (Ex : (px2, (rl2, VMigrating m2)) = (p1, (rl1, t1))).
    { apply (owned_unique s); auto; try reflexivity. }
    inversion Ex; subst. split; auto. left. exists m2. auto.
  - exfalso. apply Hne. apply (owned_unique s); auto.
Qed.

Lemma entries_partner : forall q, In q E -> snd (snd q) <> VNone ->
  exists q2, In q2 E /\ fst (snd q2) = fst (snd q) /\
    ((exists m, snd (snd q) = VMigrating m /\ snd (snd q2) = VImporting m) \/
     (exists m, snd (snd q) = VImporting m /\ snd (snd q2) = VMigrating m)).
Proof.
  intros [p [rl t]] H Ht. cbn [fst snd] in *. destruct t as [|m|m]; [congruence| |].
  - assert (Hx : In (p, rl, m) (ptag false E)) by (apply ptag_in_false; exact H).
    destruct (Hout _ Hx) as ([[py rly] my] & Hf & _).
    assert (Hy : In (py, rly, my) (filter (same_pmig (p, rl, m)) (ptag true E))) by (rewrite Hf; left; reflexivity).
    apply filter_In in Hy. destruct Hy as [Hy Hs]. apply same_pmig_true in Hs. cbn [fst snd] in Hs. destruct Hs as [<- <-].
    exists (py, (rl, VImporting m)). split; [apply ptag_in_true; exact Hy|]. split; auto. left. exists m. auto.
  - destruct (importing_twin _ _ _ H) as (px & Hx). exists (px, (rl, VMigrating m)). split; auto. split; auto.
    right. exists m. auto.
Qed.
End Entries.

(* ---------- wf_view_core of the installed metadata, from proxy_partition_ok + distinct keys ---------- *)
Lemma kind_complementary : forall t1 t2,
  ((exists m, t1 = VMigrating m /\ t2 = VImporting m) \/ (exists m, t1 = VImporting m /\ t2 = VMigrating m)) ->
  TopoProofs.complementary (tag_kind t1) (tag_kind t2).
Proof. intros t1 t2 [(m & -> & ->)|(m & -> & ->)]; [left|right]; split; reflexivity. Qed.

Lemma view_core : forall render a v,
  proxy_partition_ok a v -> vp_cluster v <> None ->
  NoDup (map vn_addr (filter vn_master (vp_nodes v))) -> NoDup (map fst (vp_peers v)) ->
  TopoProofsBrokerCore.wf_view_core (view_claims render a v).
Proof.
  intros render a v HP Hcl Hnd1 Hnd2.
  pose proof (claims_in render a v (ppo_local _ _ HP) (ppo_replicas _ _ HP) Hnd1 Hnd2) as Hmem.
  assert (HC : covers_once (powned (view_pslots v))).
  { intros s. unfold view_pslots. rewrite powned_app, <- peer_owned_powned.
    rewrite <- (view_owned_powned (vp_nodes v) (ppo_replicas _ _ HP)). exact (ppo_cover _ _ HP Hcl s). }
  pose proof (ppo_out_twin _ _ HP) as Hout. pose proof (ppo_in_twin _ _ HP) as Hin.
  change (vtagged false v) with (ptag false (view_pslots v)) in Hout, Hin.
  change (vtagged true v) with (ptag true (view_pslots v)) in Hout, Hin.
  split.
  - intros c1 c2 s H1 H2 Hne C1 C2. apply Hmem in H1. apply Hmem in H2.
    destruct H1 as (q1 & Hq1 & ->). destruct H2 as (q2 & Hq2 & ->).
    assert (Hqne : q1 <> q2) by (intros ->; apply Hne; reflexivity).
    destruct (entries_pair (view_pslots v) HC Hout Hin s q1 q2 Hq1 Hq2 Hqne C1 C2) as [Hr Ht].
    split; [exact Hr|]. apply kind_complementary. exact Ht.
  - intros c1 H1 Ht. apply Hmem in H1. destruct H1 as (q1 & Hq1 & ->).
    assert (Ht' : snd (snd q1) <> VNone).
    { intros E. apply Ht. unfold conv_claim, conv_slot. cbn. rewrite E. reflexivity. }
    destruct (entries_partner (view_pslots v) Hout Hin q1 Hq1 Ht') as (q2 & Hq2 & Hr & Hk).
    exists (conv_claim render q2). split; [apply Hmem; eauto|]. split; [exact Hr|]. apply kind_complementary. exact Hk.
Qed.

(* a proxy outside every cluster installs nothing *)
Lemma view_core_free : forall render a v, proxy_partition_ok a v -> vp_cluster v = None ->
  view_claims render a v = [].
Proof.
  intros render a v HP Hcl. destruct (ppo_free _ _ HP Hcl) as [Hs Hp].
  unfold view_claims, TopoProofs.claims, TopoProofs.local_claims, TopoProofs.peer_claims, meta_of_vproxy, install.
  cbn [Topo.t_local Topo.t_peer pm_local pm_peers]. rewrite Hp. cbn.
  assert (E : forall l : list (N * list vslot), (forall e, In e l -> snd e = []) ->
              flat_map snd (conv_map render l) = []).
  { induction l as [|e l IH]; intros H; [reflexivity|]. cbn [conv_map map flat_map snd].
    rewrite (H e (or_introl eq_refl)). cbn [map app]. apply IH. intros e' He'. apply H. right. exact He'. }
  rewrite E; [reflexivity|].
  intros [k sls] He.
  set (L := map (fun n => (vn_addr n, vn_slots n)) (filter vn_master (vp_nodes v))) in *.
  assert (Hall : forall l acc, (forall e, In e l -> snd e = []) -> (forall e, In e acc -> snd e = []) ->
            forall e, In e (fold_left (fun acc (kv : N * list vslot) => ainsert (fst kv) (snd kv) acc) l acc) -> snd e = []).
  { induction l as [|x l IH]; intros acc Hl Hacc e0 H0; cbn [fold_left] in H0; [auto|].
    apply (IH (ainsert (fst x) (snd x) acc)); auto.
    - intros e1 H1. apply Hl. right. exact H1.
    - clear IH H0. intros e1 H1. revert H1. induction acc as [|[k' v'] acc IHa]; cbn [ainsert]; intros H1.
      + destruct H1 as [<-|[]]. cbn [snd]. apply Hl. left. reflexivity.
      + destruct (N.eqb (fst x) k').
        * destruct H1 as [<-|H1]; [cbn [snd]; apply Hl; left; reflexivity|apply Hacc; right; exact H1].
        * destruct (N.ltb (fst x) k').
          -- destruct H1 as [<-|H1]; [cbn [snd]; apply Hl; left; reflexivity|apply Hacc; exact H1].
          -- destruct H1 as [<-|H1]; [apply Hacc; left; reflexivity|].
             apply IHa; auto. intros e2 H2. apply Hacc. right. exact H2. }
  cbn [snd]. apply (Hall L [] ) with (e := (k, sls)); auto.
  - intros e0 H0. unfold L in H0. apply in_map_iff in H0. destruct H0 as (n & <- & Hn). apply filter_In in Hn.
    cbn [snd]. apply Hs. apply Hn.
  - intros e0 [].
Qed.

(* ---------- from the broker: every served proxy view ---------- *)
(* a served proxy view of a proxy in a cluster is cut out of the served cluster view of that cluster (same limit) *)
Lemma view_proxy_of_cluster : forall lim s a v, view_proxy lim s a = Some (Some v) ->
  vp_cluster v = None \/
  exists name vc, vp_cluster v = Some name /\ view_cluster lim s name = Some (Some vc) /\
    vp_nodes v = filter (fun n => N.eqb (vn_proxy n) a) (vc_nodes vc) /\
    vp_peers v = vp_peers (Route.proxy_view_of (vc_nodes vc) a).
Proof.
  intros lim s a v Hv. unfold view_proxy in Hv.
  destruct (alookup a (st_proxies s)) as [r|]; [|discriminate].
  destruct (pr_cluster r) as [name|]; [|inversion Hv; subst v; left; reflexivity].
  destruct (alookup name (st_clusters s)) as [cl|] eqn:Ecl; [|inversion Hv; subst v; left; reflexivity].
  destruct (limit_migration lim cl) as [cl'|] eqn:El; [|discriminate].
  destruct (cluster_nodes cl') as [ns|] eqn:En; [|discriminate].
  inversion Hv; subst v. right. exists name, (mkVCluster (cl_epoch cl') ns (cl_config cl')).
  split; [reflexivity|]. split; [unfold view_cluster; rewrite Ecl, El, En; reflexivity|]. split; reflexivity.
Qed.

Lemma filter_filter_comm : forall {A} (f g : A -> bool) l, filter f (filter g l) = filter g (filter f l).
Proof.
  induction l as [|x l IH]; [reflexivity|]. cbn [filter].
  destruct (g x) eqn:Eg; destruct (f x) eqn:Ef; cbn [filter]; rewrite ?Eg, ?Ef, IH; reflexivity.
Qed.

Lemma NoDup_map_filter : forall {A B} (h : A -> B) (f : A -> bool) l, NoDup (map h l) -> NoDup (map h (filter f l)).
Proof.
  induction l as [|x l IH]; intros H; [constructor|]. cbn [map] in H. inversion H; subst. cbn [filter].
  destruct (f x); [|auto]. cbn [map]. constructor; auto.
  intros Hin. apply H2. apply in_map_iff in Hin. destruct Hin as (y & E & Hy). apply filter_In in Hy.
  apply in_map_iff. exists y. tauto.
Qed.

(* a proxy whose resource record names a cluster has its nodes in the served view of that cluster (accounting invariant of C12) *)
Lemma tagged_proxy_in_view : forall s lim a v name vc,
  reachable_any s -> view_proxy lim s a = Some (Some v) -> vp_cluster v = Some name ->
  view_cluster lim s name = Some (Some vc) -> In a (proxies_of (vc_nodes vc)).
Proof.
  intros s lim a v name vc Hr Hv Hn Hvc.
  destruct (served_chunks s Hr lim name vc Hvc) as (cl & cl' & El & E1 & Hcl' & En & Ens).
  pose proof (reachable_acct s (reachable_any_reachable s Hr)) as (_ & _ & _ & Hrev).
  unfold view_proxy in Hv. destruct (alookup a (st_proxies s)) as [r|] eqn:Er; [|discriminate].
  destruct (pr_cluster r) as [name'|] eqn:Ec; [|inversion Hv; subst v; discriminate].
  destruct (Hrev a r name' Er Ec) as (cl2 & El2 & Hpos). rewrite El2 in Hv.
  destruct (limit_migration lim cl2) as [cl2'|]; [|discriminate].
  destruct (cluster_nodes cl2') as [ns2|]; [|discriminate].
  inversion Hv; subst v. cbn [vp_cluster] in Hn. inversion Hn; subst name'. clear Hv Hn.
  rewrite El in El2. inversion El2; subst cl2. clear El2.
  unfold cluster_proxies in Hpos. apply in_flat_map in Hpos. destruct Hpos as (c & Hc & Ha).
  destruct (frame_In (cl_chunks cl') (cl_chunks cl) c (eq_sym (limit_migration_frame lim cl cl' E1)) Hc) as (c' & Hc' & Ef).
  unfold proxies_of. rewrite Ens. apply in_map_iff.
  assert (Hp : In a (map vn_proxy (nodes_of (cl_chunks cl') c'))).
  { rewrite nodes_of_proxies. unfold ck_frame in Ef. inversion Ef. unfold chunk_proxies in Ha. cbn [In] in *. intuition congruence. }
  apply in_map_iff in Hp. destruct Hp as (n & Hnp & Hn). exists n. split; auto.
  apply in_flat_map. exists c'. auto.
Qed.

(* THE RESULT: for every store reached by any operation sequence, every limit and address, the metadata installed from the served
   proxy view satisfies the part of wf_view that the C14 theorems use *)
Theorem broker_view_core : forall render s lim a v,
  reachable_any s -> view_proxy lim s a = Some (Some v) ->
  TopoProofsBrokerCore.wf_view_core (view_claims render a v).
Proof.
  intros render s lim a v Hr Hv.
  destruct (proxy_view_partition s (reachable_any_reachable s Hr) lim a _ Hv) as (v' & E & HP). inversion E; subst v'.
  destruct (view_proxy_of_cluster lim s a v Hv) as [Hfree|(name & vc & Hn & Hvc & Hnodes & Hpeers)].
  - rewrite (view_core_free render a v HP Hfree). split; [intros c1 c2 s0 []|intros c1 []].
  - pose proof (served_view_wf s Hr lim name vc Hvc) as Hwf.
    destruct (wf_parts _ Hwf) as (_ & W2 & W3 & _).
    apply view_core; auto.
    + rewrite Hn. discriminate.
    + rewrite Hnodes, filter_filter_comm. apply NoDup_map_filter. exact W2.
    + rewrite Hpeers.
      apply W3. exact (tagged_proxy_in_view s lim a v name vc Hr Hv Hn Hvc).
Qed.

(* ---------- the facts about a served view the compositions below use ---------- *)
Lemma broker_view_facts : forall s lim a v, reachable_any s -> view_proxy lim s a = Some (Some v) ->
  proxy_partition_ok a v /\
  (vp_cluster v = None \/
   (vp_cluster v <> None /\ NoDup (map vn_addr (filter vn_master (vp_nodes v))) /\ NoDup (map fst (vp_peers v)))).
Proof.
  intros s lim a v Hr Hv.
  destruct (proxy_view_partition s (reachable_any_reachable s Hr) lim a _ Hv) as (v' & E & HP). inversion E; subst v'.
  split; [exact HP|].
  destruct (view_proxy_of_cluster lim s a v Hv) as [Hfree|(name & vc & Hn & Hvc & Hnodes & Hpeers)]; [left; exact Hfree|right].
  pose proof (served_view_wf s Hr lim name vc Hvc) as Hwf. destruct (wf_parts _ Hwf) as (_ & W2 & W3 & _).
  split; [rewrite Hn; discriminate|]. split.
  - rewrite Hnodes, filter_filter_comm. apply NoDup_map_filter. exact W2.
  - rewrite Hpeers. apply W3. exact (tagged_proxy_in_view s lim a v name vc Hr Hv Hn Hvc).
Qed.

Lemma view_covers_once : forall a v, proxy_partition_ok a v -> vp_cluster v <> None -> covers_once (powned (view_pslots v)).
Proof.
  intros a v HP Hcl s. unfold view_pslots. rewrite powned_app, <- peer_owned_powned.
  rewrite <- (view_owned_powned (vp_nodes v) (ppo_replicas _ _ HP)). exact (ppo_cover _ _ HP Hcl s).
Qed.

Lemma cnt_powned_witness : forall s E, (1 <= cnt s (powned E))%nat -> exists q, In q E /\ qcovers q s.
Proof.
  intros s E. induction E as [|q E IH]; intros H.
  - unfold powned in H. cbn in H. lia.
  - change (powned (q :: E)) with (powned ([q] ++ E)) in H. rewrite powned_app, cnt_app, powned_single in H.
    destruct (Nat.eq_dec (cnt s (if is_importing (snd (snd q)) then [] else fst (snd q))) 0) as [E0|E0].
    + destruct IH as (q' & Hq' & Hc); [lia|]. exists q'. split; [right|]; auto.
    + exists q. split; [left; reflexivity|]. destruct (is_importing (snd (snd q))); [cbn in E0; lia|].
      unfold cnt in E0. destruct (filter (in_range s) (fst (snd q))) as [|r l] eqn:Ef; [cbn in E0; lia|].
      assert (Hr : In r (filter (in_range s) (fst (snd q)))) by (rewrite Ef; left; reflexivity).
      apply filter_In in Hr. destruct Hr as [Hr Hb]. apply in_range_spec in Hb. exists r. tauto.
Qed.

(* every slot below 16384 is claimed in the view of a proxy that belongs to a cluster *)
Lemma broker_slot_claimed : forall render s lim a v sl, reachable_any s -> view_proxy lim s a = Some (Some v) ->
  vp_cluster v <> None -> sl < SLOT_NUM ->
  exists c, In c (view_claims render a v) /\ TopoProofs.in_ranges (Topo.sr_ranges (snd c)) sl.
Proof.
  intros render s lim a v sl Hr Hv Hcl Hsl.
  destruct (broker_view_facts s lim a v Hr Hv) as (HP & [Hf|(_ & Hnd1 & Hnd2)]); [congruence|].
  pose proof (view_covers_once a v HP Hcl sl) as Hc. apply N.ltb_lt in Hsl. rewrite Hsl in Hc.
  destruct (cnt_powned_witness sl (view_pslots v)) as (q & Hq & Hcov); [lia|].
  exists (conv_claim render q). split; [|exact Hcov].
  apply (claims_in render a v (ppo_local _ _ HP) (ppo_replicas _ _ HP) Hnd1 Hnd2). eauto.
Qed.

(* wf_view proper = the core (proved) + absence of duplicate claims; the only duplicates partition + twins do not exclude are
   slot ranges covering no slot (empty range lists) listed twice under one proxy *)
Lemma broker_view_wf : forall render s lim a v, reachable_any s -> view_proxy lim s a = Some (Some v) ->
  (TopoProofs.wf_view (view_claims render a v) <-> NoDup (view_claims render a v)).
Proof.
  intros render s lim a v Hr Hv. split.
  - intros (H & _). exact H.
  - intros Hnd. apply TopoProofsBrokerCore.wf_view_of_core; [exact Hnd|]. exact (broker_view_core render s lim a v Hr Hv).
Qed.

(* ================= the composed C14 statements, as named propositions (quoted by Props/C14.v) ================= *)

(* C14_unique over broker histories: in the metadata installed from ANY served proxy view, under EVERY migration state map and
   both NODES versions, every claimed slot - in particular every slot below 16384 when the proxy belongs to a cluster - is
   advertised under exactly one address *)
Definition unique_broker_stmt : Prop :=
  forall (render : N -> bytes) s lim a v st ver sl,
  reachable_any s -> view_proxy lim s a = Some (Some v) ->
  ((exists c, In c (view_claims render a v) /\ TopoProofs.in_ranges (Topo.sr_ranges (snd c)) sl) \/
   (vp_cluster v <> None /\ sl < SLOT_NUM)) ->
  exists ad, TopoProofs.adv_nodes (Topo.gen_cluster_nodes (render a) (meta_of_vproxy render v) st ver) ad sl /\
             forall ad', TopoProofs.adv_nodes (Topo.gen_cluster_nodes (render a) (meta_of_vproxy render v) st ver) ad' sl -> ad' = ad.

Lemma unique_broker_holds : unique_broker_stmt.
Proof.
  intros render s lim a v st ver sl Hr Hv Hc.
  apply TopoProofsBrokerCore.unique_adv_core; [exact (broker_view_core render s lim a v Hr Hv)|].
  destruct Hc as [Hc|[Hcl Hsl]]; [exact Hc|]. exact (broker_slot_claimed render s lim a v sl Hr Hv Hcl Hsl).
Qed.

(* C14_migrating over broker histories: a MIGRATING entry (ranges rl, meta m) visible in the served view (among the proxy's own
   nodes or its peers) sits under the meta's source proxy, its IMPORTING twin under the destination proxy, and every slot of rl is
   advertised at the source proxy's address while the proxy's task state for rl is PreCheck, at the destination proxy's address in
   every later phase and when the proxy has no task for rl (bystander) *)
Definition migrating_broker_stmt : Prop :=
  forall (render : N -> bytes) s lim a v st ver p rl m sl,
  reachable_any s -> view_proxy lim s a = Some (Some v) ->
  In (p, (rl, VMigrating m)) (view_pslots v) ->
  (exists r, In r rl /\ fst r <= sl /\ sl <= snd r) ->
  let adv := TopoProofs.adv_nodes (Topo.gen_cluster_nodes (render a) (meta_of_vproxy render v) st ver) in
  p = vm_src_proxy m /\ In (vm_dst_proxy m, (rl, VImporting m)) (view_pslots v) /\
  (Topo.lookup st rl = Some Topo.PreCheck -> forall ad, adv ad sl <-> ad = render (vm_src_proxy m)) /\
  (Topo.lookup st rl <> Some Topo.PreCheck -> forall ad, adv ad sl <-> ad = render (vm_dst_proxy m)) /\
  (Topo.lookup st rl = None -> forall ad, adv ad sl <-> ad = render (vm_dst_proxy m)).

Lemma migrating_broker_holds : migrating_broker_stmt.
Proof.
  intros render s lim a v st ver p rl m sl Hr Hv Hq Hcov adv.
  destruct (broker_view_facts s lim a v Hr Hv) as (HP & Hcases).
  assert (Hcl : vp_cluster v <> None).
  { intros Hf. destruct (ppo_free _ _ HP Hf) as [Hs Hp]. unfold view_pslots in Hq. rewrite Hp in Hq.
    cbn [peer_pslots flat_map] in Hq. rewrite app_nil_r in Hq. unfold pslots in Hq. apply in_flat_map in Hq.
    destruct Hq as (n & Hn & Hq). unfold pnode in Hq. rewrite (Hs n Hn) in Hq. destruct Hq. }
  destruct Hcases as [Hf|(_ & Hnd1 & Hnd2)]; [congruence|].
  pose proof (ppo_out_twin _ _ HP) as Hout. change (vtagged false v) with (ptag false (view_pslots v)) in Hout.
  change (vtagged true v) with (ptag true (view_pslots v)) in Hout.
  assert (Hx : In (p, rl, m) (ptag false (view_pslots v))) by (apply ptag_in_false; exact Hq).
  destruct (Hout _ Hx) as ([[py rly] my] & Hf & Hd & Hs). cbn [fst snd] in Hd, Hs.
  assert (Hy : In (py, rly, my) (filter (same_pmig (p, rl, m)) (ptag true (view_pslots v)))) by (rewrite Hf; left; reflexivity).
  apply filter_In in Hy. destruct Hy as [Hy Hsm]. apply same_pmig_true in Hsm. cbn [fst snd] in Hsm. destruct Hsm as [<- <-].
  apply ptag_in_true in Hy. subst py. subst p.
  split; [reflexivity|]. split; [exact Hy|].
  pose proof (claims_in render a v (ppo_local _ _ HP) (ppo_replicas _ _ HP) Hnd1 Hnd2) as Hmem.
  assert (C1 : In (conv_claim render (vm_src_proxy m, (rl, VMigrating m))) (view_claims render a v)) by (apply Hmem; eauto).
  assert (C2 : In (conv_claim render (vm_dst_proxy m, (rl, VImporting m))) (view_claims render a v)) by (apply Hmem; eauto).
  exact (TopoProofsBrokerCore.migrating_cases_core (render a) (meta_of_vproxy render v) st ver _ _ _ _ sl
           (broker_view_core render s lim a v Hr Hv) C1 eq_refl C2 eq_refl eq_refl Hcov).
Qed.

(* the well-formedness result itself, and what separates it from wf_view *)
Definition view_core_broker_stmt : Prop :=
  forall (render : N -> bytes) s lim a v, reachable_any s -> view_proxy lim s a = Some (Some v) ->
  TopoProofsBrokerCore.wf_view_core (view_claims render a v) /\
  (TopoProofs.wf_view (view_claims render a v) <-> NoDup (view_claims render a v)).

Lemma view_core_broker_holds : view_core_broker_stmt.
Proof.
  intros render s lim a v Hr Hv. split; [exact (broker_view_core render s lim a v Hr Hv)|exact (broker_view_wf render s lim a v Hr Hv)].
Qed.

(* ---------- non-vacuity: a served view of a reachable store with a migration in flight (the run of Proofs/RouteProofsEx.v) ----------
   proxy 2 is the source of the migration of 4096-8191 to proxy 8; proxies rendered by to_dec *)
Definition broker_example_stmt : Prop :=
  let s := run (init_store false) RouteProofsEx.ex_ops in
  reachable_any s /\
  exists v, view_proxy 0 s 2 = Some (Some v) /\ vp_cluster v <> None /\
    In (2, ([(4096, 8191)], VMigrating (mkVMeta 11 2 4 8 16))) (view_pslots v) /\
    (* in PreCheck this proxy ("2") advertises 4096-8191 itself, once scanning it advertises them at proxy "8";
       it has no task for 12288-16383 (4 -> 6) and advertises those at the destination "6" *)
    map (fun l => (Topo.nl_addr l, Topo.nl_ranges l))
        (Topo.gen_cluster_nodes (to_dec 2) (meta_of_vproxy to_dec v) [([(4096, 8191)], Topo.PreCheck)] Topo.V2)
    = [(to_dec 2, [(0, 4095); (4096, 8191)]); (to_dec 4, [(8192, 12287)]); (to_dec 6, [(12288, 16383)]); (to_dec 8, [])] /\
    map (fun l => (Topo.nl_addr l, Topo.nl_ranges l))
        (Topo.gen_cluster_nodes (to_dec 2) (meta_of_vproxy to_dec v) [([(4096, 8191)], Topo.Scanning)] Topo.V2)
    = [(to_dec 2, [(0, 4095)]); (to_dec 4, [(8192, 12287)]); (to_dec 6, [(12288, 16383)]); (to_dec 8, [(4096, 8191)])].

Lemma broker_example_holds : broker_example_stmt.
Proof.
  split.
  - apply run_reachable. intros snap Hin. unfold RouteProofsEx.ex_ops in Hin. cbn [In] in Hin.
    repeat (destruct Hin as [Hin|Hin]; [discriminate|]). destruct Hin.
  - eexists. split; [vm_compute; reflexivity|]. split; [discriminate|]. split; [vm_compute; auto 10|].
    split; vm_compute; reflexivity.
Qed.
