(* Control-plane model: safety (never older), convergence in any broker-quiet restart-free tail once the current view
   has been delivered, commit exactly once. *)
From UM Require Import Base.BytesDef Model.Ctrl Proofs.CtrlProofsInv.
From Coq Require Import ZifyBool ZifyNat ZifyN.

(* the two broker facts (C04) the control plane relies on *)
Definition served_mono_prop (served : nat -> addr -> option (N * N)) : Prop :=
  forall t1 t2 a e1 c1 e2 c2, (t1 <= t2)%nat -> served t1 a = Some (e1, c1) -> served t2 a = Some (e2, c2) -> e1 <= e2.

Definition served_same_prop (served : nat -> addr -> option (N * N)) : Prop :=
  forall t1 t2 a e c1 c2, served t1 a = Some (e, c1) -> served t2 a = Some (e, c2) -> c1 = c2.

Lemma kstate_eq : forall s e c, k_epoch s = e -> k_content s = c -> s = {| k_epoch := e; k_content := c |}.
Proof. intros [e' c'] e c; cbn. intros -> ->. reflexivity. Qed.

Section C07.
Variable served : nat -> addr -> option (N * N).
Hypothesis served_mono : served_mono_prop served.
Hypothesis served_same_epoch_same_content : served_same_prop served.
Notation step := (step served).
Notation run := (run served).
Notation Inv := (Inv served).

(* ---------- never older ---------- *)

Lemma never_older_inv : forall evs st a k,
  Inv st -> no_restart a evs = true ->
  let st' := run evs st in
  k_epoch (installed st a k) <= k_epoch (installed st' a k)
  /\ (k_epoch (installed st' a k) <> 0 ->
      (exists t, (t <= now st')%nat /\ served t a = Some (k_epoch (installed st' a k), k_content (installed st' a k)))
      /\ (forall t c, served t a = Some (k_epoch (installed st' a k), c) -> c = k_content (installed st' a k))).
Proof.
  intros evs st a k I H st'. split; [apply epoch_run_mono; assumption|].
  intros Hne. pose proof (inv_prox served st' (Inv_run served evs st I) a k) as [H0 | [t [Ht Hs]]]; [congruence|].
  split; [exists t; auto|]. intros t' c Hc. eapply served_same_epoch_same_content; eauto.
Qed.

Theorem never_older : forall pre evs a k,
  no_restart a evs = true ->
  let st := run pre init in
  let st' := run evs st in
  k_epoch (installed st a k) <= k_epoch (installed st' a k)
  /\ (k_epoch (installed st' a k) <> 0 ->
      (exists t, (t <= now st')%nat /\ served t a = Some (k_epoch (installed st' a k), k_content (installed st' a k)))
      /\ (forall t c, served t a = Some (k_epoch (installed st' a k), c) -> c = k_content (installed st' a k))).
Proof.
  intros pre evs a k H. apply never_older_inv; auto. apply Inv_run. apply Inv_init.
Qed.

(* an installed epoch never exceeds the epoch the broker serves now *)
Lemma installed_le_current : forall st a k E C,
  Inv st -> served (now st) a = Some (E, C) -> k_epoch (installed st a k) <= E.
Proof.
  intros st a k E C I S. destruct (inv_prox served st I a k) as [H0 | [t [Ht Hs]]]; [lia|].
  eapply served_mono; eauto.
Qed.

(* ---------- convergence in any quiet tail ---------- *)

Lemma deliveries_app : forall e1 e2 st, deliveries served (e1 ++ e2) st = deliveries served e1 st ++ deliveries served e2 (run e1 st).
Proof.
  induction e1 as [|ev e1 IH]; intros e2 st; [reflexivity|].
  cbn [app deliveries]. rewrite IH. rewrite run_cons. rewrite app_assoc. reflexivity.
Qed.

Lemma deliveries_split : forall evs st c, In c (deliveries served evs st) ->
  exists e1 i e2, evs = e1 ++ Deliver i :: e2 /\ nth_error (net (run e1 st)) i = Some c.
Proof.
  induction evs as [|ev evs IH]; intros st c H; [destruct H|].
  cbn [deliveries] in H. apply in_app_or in H. destruct H as [H | H].
  - destruct ev; try destruct H. destruct (nth_error (net st) i) as [c'|] eqn:E; [|destruct H].
    destruct H as [<- | []]. exists [], i, evs. split; auto.
  - destruct (IH _ _ H) as [e1 [i [e2 [-> Hn]]]]. exists (ev :: e1), i, e2. split; auto.
Qed.

Lemma no_restart_app : forall a e1 e2, no_restart a (e1 ++ e2) = no_restart a e1 && no_restart a e2.
Proof. intros. unfold no_restart. apply forallb_app. Qed.

Theorem converge_inv : forall tail st a k E C,
  Inv st ->
  served (now st) a = Some (E, C) -> 0 < E ->
  now (run tail st) = now st ->                    (* the broker does not change during the tail *)
  no_restart a tail = true ->
  (exists c, In c (deliveries served tail st) /\ c_to c = a /\ c_kind c = k /\ c_time c = now st) ->
  installed (run tail st) a k = {| k_epoch := E; k_content := C |}.
Proof.
  intros tail st a k E C I S HE Hnow Hr [c [Hc [Ha [Hk Ht]]]].
  destruct (deliveries_split _ _ _ Hc) as [e1 [i [e2 [-> Hn]]]].
  rewrite no_restart_app in Hr. apply andb_true_iff in Hr. destruct Hr as [_ Hr2].
  cbn [no_restart forallb] in Hr2. apply andb_true_iff in Hr2. destruct Hr2 as [_ Hr2].
  rewrite run_app, run_cons in *.
  set (s1 := run e1 st) in *.
  assert (I1 : Inv s1) by (apply Inv_run; assumption).
  (* the delivered call carries the current view *)
  pose proof (inv_net served s1 I1) as Hf. rewrite Forall_forall in Hf.
  destruct (Hf c (nth_error_In _ _ Hn)) as [_ Hs]. rewrite Ht, Ha, S in Hs. inversion Hs; subst E C. clear Hs.
  (* right after the delivery the installed epoch is at least the call's *)
  assert (G : c_epoch c <= k_epoch (installed (step s1 (Deliver i)) a k)).
  { rewrite installed_step. rewrite Hn. rewrite Ha, N.eqb_refl.
    destruct (kind_eq_dec (c_kind c) k) as [_ | Hne]; [|congruence]. apply accept_epoch_ge. }
  pose proof (epoch_run_mono served e2 (step s1 (Deliver i)) a k Hr2) as M.
  set (sf := run e2 (step s1 (Deliver i))) in *.
  assert (If : Inv sf) by (apply Inv_run; apply Inv_step; assumption).
  destruct (inv_prox served sf If a k) as [H0 | [t [Htl Hst]]]; [lia|].
  assert (U : k_epoch (installed sf a k) <= c_epoch c).
  { eapply served_mono; [| exact Hst | exact S]. lia. }
  assert (Eq : k_epoch (installed sf a k) = c_epoch c) by lia.
  apply kstate_eq; auto.
  rewrite Eq in Hst. eapply served_same_epoch_same_content; eauto.
Qed.

Theorem converge_any : forall pre tail a k E C,
  let st := run pre init in
  served (now st) a = Some (E, C) -> 0 < E ->
  now (run tail st) = now st ->
  no_restart a tail = true ->
  (exists c, In c (deliveries served tail st) /\ c_to c = a /\ c_kind c = k /\ c_time c = now st) ->
  installed (run tail st) a k = {| k_epoch := E; k_content := C |}.
Proof.
  intros. apply converge_inv; auto. apply Inv_run. apply Inv_init.
Qed.

End C07.

(* ---------- commits: at most once always, exactly once when requested (no assumption on `served`) ---------- *)

Section Commits.
Variable served : nat -> addr -> option (N * N).
Notation step := (step served).
Notation run := (run served).
Notation Inv := (Inv served).

Theorem commits_nodup : forall evs, NoDup (commits (run evs init)).
Proof. intros. apply (inv_commits_nodup served). apply Inv_run. apply Inv_init. Qed.

Lemma commits_step_incl : forall st ev x, In x (commits st) -> In x (commits (step st ev)).
Proof.
  intros st ev x H. destruct ev; cbn [Ctrl.step]; auto.
  - destruct (served (now st) a) as [[e c]|]; auto.
  - destruct (take_first k (queue st)) as [[c q]|]; auto.
  - destruct (nth_error (net st) i); [rewrite deliver_to_split|]; auto.
  - destruct (nth_error (net st) i); auto.
  - destruct (mem id (pending st)); cbn [commits]; auto. right; assumption.
Qed.

Lemma commits_run_incl : forall evs st x, In x (commits st) -> In x (commits (run evs st)).
Proof.
  induction evs as [|ev evs IH]; intros st x H; auto. rewrite run_cons. apply IH. apply commits_step_incl. assumption.
Qed.

Definition cancels (x : N) (ev : event) : bool :=
  match ev with BrokerCancel ids => mem x ids | _ => false end.

Definition no_cancel_of (x : N) (evs : list event) : bool := forallb (fun ev => negb (cancels x ev)) evs.

Lemma no_cancel_of_app : forall x e1 e2, no_cancel_of x (e1 ++ e2) = no_cancel_of x e1 && no_cancel_of x e2.
Proof. intros. unfold no_cancel_of. apply forallb_app. Qed.

Lemma pend_or_commit_step : forall st ev x,
  cancels x ev = false ->
  In x (pending st) \/ In x (commits st) -> In x (pending (step st ev)) \/ In x (commits (step st ev)).
Proof.
  intros st ev x Hc H. destruct ev; cbn [Ctrl.step]; auto.
  - destruct (served (now st) a) as [[e c]|]; auto.
  - destruct (take_first k (queue st)) as [[c q]|]; auto.
  - destruct (nth_error (net st) i); [rewrite deliver_to_split|]; auto.
  - destruct (nth_error (net st) i); auto.
  - cbn [pending commits]. destruct H; [left; apply in_or_app; left; assumption | right; assumption].
  - destruct (mem id (pending st)) eqn:M; auto. cbn [pending commits].
    destruct H as [H | H]; [|right; right; assumption].
    destruct (N.eq_dec x id) as [-> | Hne]; [right; left; reflexivity|].
    left. apply remove_key_In. split; auto.
  - cbn [pending commits]. cbn [cancels] in Hc. destruct H as [H | H]; [|right; exact H].
    left. apply filter_In. split; [exact H|]. rewrite Hc. reflexivity.
Qed.

Lemma pend_or_commit_run : forall evs st x,
  no_cancel_of x evs = true ->
  In x (pending st) \/ In x (commits st) -> In x (pending (run evs st)) \/ In x (commits (run evs st)).
Proof.
  induction evs as [|ev evs IH]; intros st x Hn H; auto.
  cbn [no_cancel_of forallb] in Hn. apply andb_true_iff in Hn. destruct Hn as [H1 H2].
  rewrite run_cons. apply IH; [exact H2|]. apply pend_or_commit_step; [|assumption].
  destruct (cancels x ev); [discriminate | reflexivity].
Qed.

Lemma commit_step_done : forall st x,
  Inv st -> In x (pending st) \/ In x (commits st) -> In x (commits (step st (Commit x))).
Proof.
  intros st x I H. cbn [Ctrl.step]. destruct (mem x (pending st)) eqn:M.
  - cbn [commits]. left; reflexivity.
  - apply mem_false_In in M. destruct H; [contradiction | assumption].
Qed.

Lemma commit_exactly_once_inv : forall tail st id,
  Inv st -> In id (pending st) -> In (Commit id) tail -> no_cancel_of id tail = true ->
  count_occ N.eq_dec (commits (run tail st)) id = 1%nat /\ ~ In id (pending (run tail st)).
Proof.
  intros tail st id I Hp Hc Hnc.
  apply in_split in Hc. destruct Hc as [e1 [e2 ->]].
  rewrite no_cancel_of_app in Hnc. apply andb_true_iff in Hnc. destruct Hnc as [Hnc1 _].
  rewrite run_app, run_cons.
  assert (I1 : Inv (run e1 st)) by (apply Inv_run; assumption).
  assert (H1 : In id (commits (step (run e1 st) (Commit id)))).
  { apply commit_step_done; auto. apply pend_or_commit_run; [exact Hnc1|]. left; assumption. }
  assert (H2 : In id (commits (run e2 (step (run e1 st) (Commit id))))) by (apply commits_run_incl; assumption).
  assert (If : Inv (run e2 (step (run e1 st) (Commit id)))) by (apply Inv_run; apply Inv_step; assumption).
  split.
  - apply NoDup_count_occ'; [apply (inv_commits_nodup served _ If) | assumption].
  - intros Hp'. eapply (inv_disj served _ If); eauto.
Qed.

Theorem commit_exactly_once : forall pre tail id,
  let st := run pre init in
  In id (pending st) -> In (Commit id) tail -> no_cancel_of id tail = true ->
  count_occ N.eq_dec (commits (run tail st)) id = 1%nat /\ ~ In id (pending (run tail st)).
Proof. intros. apply commit_exactly_once_inv; auto. apply Inv_run. apply Inv_init. Qed.

(* a commit request for a key that is not pending changes nothing (second commit, stale replay) *)
Theorem commit_not_found_noop : forall st id, ~ In id (pending st) -> step st (Commit id) = st.
Proof.
  intros st id H. cbn [Ctrl.step]. apply mem_false_In in H. rewrite H. reflexivity.
Qed.

End Commits.
