(* Truncation of a plain SETCLUSTER vector: rejected everywhere except at the group boundaries (and, with both node maps
   non-empty, between a config field name and its value, where the parser tolerates the config error). *)
From UM Require Import Base.BytesDef Base.Dec Model.Wire Proofs.WireProofsBase Proofs.WireProofsLeaf Proofs.WireProofsCluster Proofs.WireProofsRepl.
From Coq Require Import ZifyBool ZifyNat ZifyN.

Definition glen (g : tok * slot_range) : nat := length (group_toks g).

Lemma groups_toks_concat : forall gs, groups_toks gs = concat (map group_toks gs).
Proof. intros gs. unfold groups_toks. apply flat_map_concat_map. Qed.

Lemma nm_group_lens_glen : forall nm, nm_group_lens nm = map glen (groups_of nm).
Proof.
  induction nm as [|[a srs] nm IH]; [reflexivity|].
  unfold nm_group_lens, groups_of in *. cbn [flat_map fst snd]. rewrite map_app, IH. f_equal.
  rewrite map_map. apply map_ext. intros sr. reflexivity.
Qed.

Lemma groups_toks_length : forall gs, length (groups_toks gs) = sum_nat (map glen gs).
Proof. intros gs. rewrite groups_toks_concat, length_concat_sum, map_map. reflexivity. Qed.

(* cutting a run of node groups: at a group boundary, or the parse fails *)
Lemma PN_cut : forall gs k acc, forallb wf_group gs = true -> (k <= length (groups_toks gs))%nat ->
  (exists j, (j <= length gs)%nat /\ k = sum_nat (firstn j (map glen gs)) /\ firstn k (groups_toks gs) = groups_toks (firstn j gs))
  \/ is_err (PN (firstn k (groups_toks gs)) acc) = true.
Proof.
  intros gs k acc Hw Hk. rewrite groups_toks_concat in Hk.
  destruct (firstn_units (map group_toks gs) k Hk) as (j & k' & E1 & E2 & E3 & E4).
  rewrite map_length in E4. rewrite firstn_map in E1, E3.
  destruct (Nat.eqb k' 0) eqn:E0.
  - apply Nat.eqb_eq in E0. subst k'. left. exists j. split; [exact E4|]. split.
    + rewrite E3, Nat.add_0_r. rewrite <- groups_toks_concat, groups_toks_length, firstn_map. reflexivity.
    + rewrite groups_toks_concat, E1. cbn [firstn]. rewrite app_nil_r. rewrite <- groups_toks_concat. reflexivity.
  - apply Nat.eqb_neq in E0. right. destruct E2 as [E2|[E2 _]]; [|lia].
    assert (Hin : In (nth j (map group_toks gs) []) (map group_toks gs)).
    { destruct (nth_in_or_default j (map group_toks gs) []) as [Hi|Hd]; [exact Hi|]. rewrite Hd in E2. cbn in E2. lia. }
    apply in_map_iff in Hin. destruct Hin as ([a sr] & Eg & Hg).
    rewrite forallb_forall in Hw. pose proof (Hw _ Hg) as Hwg.
    unfold wf_group in Hwg. cbn [fst snd] in Hwg. apply andb_true_iff in Hwg. destruct Hwg as [Ha Hsr]. apply negb_true_iff in Ha.
    rewrite groups_toks_concat, E1, <- groups_toks_concat.
    rewrite PN_groups by (apply forallb_firstn; apply forallb_forall; exact Hw).
    rewrite <- Eg in *. unfold group_toks in *. cbn [fst snd length] in *.
    destruct k' as [|k']; [lia|]. cbn [firstn]. rewrite PN_step by exact Ha.
    pose proof (sr_truncation sr k' Hsr ltac:(lia)) as T.
    destruct (parse_sr (firstn k' (sr_to_strings sr))) as [[x y]|e|]; try discriminate. reflexivity.
Qed.

Lemma config_args_length : forall ord c, length (config_to_args ord c) = (2 * length ord)%nat.
Proof. intros ord c. induction ord as [|f ord IH]; [reflexivity|]. unfold config_to_args in *. cbn [flat_map length app]. rewrite IH. lia. Qed.

Lemma config_args_nil : forall ord c, is_nil (config_to_args ord c) = is_nil ord.
Proof. intros [|f ord] c; reflexivity. Qed.

(* cutting the config pairs: after a complete pair the section parses, after a field name it is a config error *)
Lemma config_cut : forall ord cfg k c0, wf_config cfg = true -> (k <= length (config_to_args ord cfg))%nat ->
  (exists j, (j <= length ord)%nat /\ k = (2 * j)%nat /\ exists c, parse_config (firstn k (config_to_args ord cfg)) c0 = (Some c, []))
  \/ (exists j, (j < length ord)%nat /\ k = (2 * j + 1)%nat /\ parse_config (firstn k (config_to_args ord cfg)) c0 = (None, [])).
Proof.
  intros ord cfg. induction ord as [|f ord IH]; intros k c0 Hw Hk.
  - cbn in Hk. assert (k = 0%nat) by lia. subst. left. exists 0%nat. cbn. repeat split; auto. eexists. reflexivity.
  - unfold config_to_args in *. cbn [flat_map app length] in *. fold (config_to_args ord cfg) in *.
    destruct k as [|[|k]].
    + left. exists 0%nat. cbn [firstn parse_config]. repeat split; try lia. eexists. reflexivity.
    + right. exists 0%nat. cbn [firstn parse_config]. rewrite field_name_not_kw. repeat split; lia.
    + cbn [firstn parse_config]. rewrite field_name_not_kw. rewrite (set_field_roundtrip cfg c0 f Hw).
      destruct (IH k (copy_field cfg f c0) Hw ltac:(lia)) as [(j & J1 & J2 & c & J3)|(j & J1 & J2 & J3)].
      * left. exists (S j). repeat split; try lia. exists c. exact J3.
      * right. exists (S j). repeat split; try lia. exact J3.
Qed.

(* ---------- membership in the boundary sets ---------- *)
Lemma sum_twos : forall (ord : list cfield) j, (j <= length ord)%nat -> sum_nat (firstn j (map (fun _ => 2%nat) ord)) = (2 * j)%nat.
Proof.
  induction ord as [|f ord IH]; intros j Hj.
  - cbn in Hj. assert (j = 0%nat) by lia. subst. reflexivity.
  - destruct j as [|j]; [reflexivity|]. cbn [map firstn sum_nat fold_right]. cbn [length] in Hj.
    specialize (IH j ltac:(lia)). unfold sum_nat in IH. rewrite IH. lia.
Qed.

Definition l_end (m : pcm) : nat := (4 + sum_nat (nm_group_lens (p_local m)))%nat.

Lemma B_local : forall ord m j, (j <= length (nm_group_lens (p_local m)))%nat ->
  at_group_boundary ord m (4 + sum_nat (firstn j (nm_group_lens (p_local m)))) = true.
Proof.
  intros ord m j Hj. unfold at_group_boundary, pcm_boundaries. rewrite existsb_app. apply orb_true_iff. left.
  apply existsb_eqb_in. apply prefix_sums_in. exact Hj.
Qed.

Lemma B_peer : forall ord m j, is_nil (nm_to_args (p_peer m)) = false -> (j <= length (nm_group_lens (p_peer m)))%nat ->
  at_group_boundary ord m (l_end m + 1 + sum_nat (firstn j (nm_group_lens (p_peer m)))) = true.
Proof.
  intros ord m j Hn Hj. unfold at_group_boundary, pcm_boundaries. rewrite !existsb_app. apply orb_true_iff. right.
  apply orb_true_iff. left. rewrite Hn. apply existsb_eqb_in. apply prefix_sums_in. exact Hj.
Qed.

Lemma B_cfg : forall ord m j, is_nil ord = false -> (j <= length ord)%nat ->
  at_group_boundary ord m (config_pos m + 1 + 2 * j) = true.
Proof.
  intros ord m j Hn Hj. unfold at_group_boundary, pcm_boundaries. rewrite !existsb_app. apply orb_true_iff. right.
  apply orb_true_iff. right. rewrite Hn. apply existsb_eqb_in.
  rewrite <- (sum_twos ord j Hj). apply prefix_sums_in. rewrite map_length. exact Hj.
Qed.

Lemma V_cfg : forall ord m j, is_nil (nm_to_args (p_local m)) = false -> is_nil (nm_to_args (p_peer m)) = false ->
  (j < length ord)%nat -> at_config_value_cut ord m (config_pos m + 2 + 2 * j) = true.
Proof.
  intros ord m j H1 H2 Hj. unfold at_config_value_cut. rewrite H1, H2. cbn [negb andb].
  apply existsb_exists. exists j. split; [apply in_seq; lia|apply Nat.eqb_refl].
Qed.

Lemma stops_firstn : forall Y n, stops Y -> stops (firstn n Y).
Proof.
  intros Y n [->|(a & r & -> & Ha)].
  - rewrite firstn_nil. left. reflexivity.
  - destruct n; [left; reflexivity|]. right. cbn [firstn]. eauto.
Qed.

Lemma drop_nonempty_args : forall nm, is_nil (drop_empty (norm_nm nm)) = false -> is_nil (nm_to_args nm) = false.
Proof.
  intros nm H. destruct (nm_to_args nm) eqn:E; [|reflexivity]. rewrite (nm_args_nil_drop nm E) in H. discriminate.
Qed.

Lemma PL_config_cut : forall ord cfg k5 local' peer' ext, wf_config cfg = true -> (k5 < length (config_to_args ord cfg))%nat ->
  is_err (PL (kw_CONFIG :: firstn k5 (config_to_args ord cfg)) local' peer' default_config ext) = true
  \/ (exists j, (j <= length ord)%nat /\ k5 = (2 * j)%nat)
  \/ (exists j, (j < length ord)%nat /\ k5 = (2 * j + 1)%nat /\ is_nil local' = false /\ is_nil peer' = false).
Proof.
  intros ord cfg k5 local' peer' ext Hw Hk. rewrite PL_config.
  destruct (config_cut ord cfg k5 default_config Hw ltac:(lia)) as [(j & J1 & J2 & c & J3)|(j & J1 & J2 & J3)].
  - right. left. exists j. split; assumption.
  - rewrite J3. destruct (is_nil local') eqn:E1; [left; reflexivity|]. destruct (is_nil peer') eqn:E2; [left; reflexivity|].
    right. right. exists j. repeat split; assumption.
Qed.

Lemma is_err_bind_nodemap : forall (r : res (nodemap * list tok)) (k : nodemap * list tok -> res (pcm * bool)),
  is_err r = true -> is_err (match r with Err e => Err e | Panic => Panic | Ok x => k x end) = true.
Proof. intros [x|e|] k H; try discriminate. reflexivity. Qed.

Lemma pcm_args_length : forall ord m,
  length (pcm_to_args ord m) = (4 + length (nm_to_args (p_local m)) + length (peer_part (p_peer m)) + length (config_part ord (p_config m)))%nat.
Proof. intros ord m. rewrite pcm_to_args_parts. cbn [length app]. rewrite !app_length. lia. Qed.

Theorem pcm_truncation : forall unpack ord m k, wf_pcm m = true -> (k < length (pcm_to_args ord m))%nat ->
  is_err (parse_pcm unpack (firstn k (pcm_to_args ord m))) = true
  \/ at_group_boundary ord m k = true \/ at_config_value_cut ord m k = true.
Proof.
  intros unpack ord m k H Hk. rewrite pcm_args_length in Hk. rewrite pcm_to_args_parts.
  destruct m as [epoch fl name local peer cfg].
  unfold wf_pcm, wf_pcm_common in H. cbn [p_epoch p_flags p_name p_local p_peer p_config] in *.
  apply andb_true_iff in H. destruct H as [H Hfl]. apply negb_true_iff in Hfl.
  apply andb_true_iff in H. destruct H as [H Hcfg]. apply andb_true_iff in H. destruct H as [H Hpeer].
  apply andb_true_iff in H. destruct H as [H Hlocal]. apply andb_true_iff in H. destruct H as [He Hname]. apply N.leb_le in He.
  set (m := MkPcm epoch fl name local peer cfg).
  destruct (wf_nm_groups local Hlocal) as [Hgl _]. destruct (wf_nm_groups peer Hpeer) as [Hgp _].
  assert (LL : length (nm_to_args local) = sum_nat (nm_group_lens local))
    by (rewrite nm_to_args_groups, groups_toks_length, nm_group_lens_glen; reflexivity).
  assert (LP : length (nm_to_args peer) = sum_nat (nm_group_lens peer))
    by (rewrite nm_to_args_groups, groups_toks_length, nm_group_lens_glen; reflexivity).
  destruct k as [|[|[|[|k1]]]].
  - left. reflexivity.
  - left. reflexivity.
  - left. cbn [app firstn]. unfold parse_pcm. replace (negb (bytes_eqb kw_v2 kw_v2)) with false by reflexivity.
    rewrite (parse_u64_to_dec epoch He). reflexivity.
  - left. cbn [app firstn]. unfold parse_pcm. replace (negb (bytes_eqb kw_v2 kw_v2)) with false by reflexivity.
    rewrite (parse_u64_to_dec epoch He). rewrite flags_roundtrip, Hfl. reflexivity.
  - cbn [app firstn]. rewrite (parse_pcm_plain_step unpack epoch fl name _ He Hfl Hname).
    clear He Hfl Hname. rewrite firstn_app.
    destruct (Nat.leb k1 (length (nm_to_args local))) eqn:EL.
    + (* the cut lies in the local section *)
      apply Nat.leb_le in EL. replace (k1 - length (nm_to_args local))%nat with 0%nat by lia. cbn [firstn]. rewrite app_nil_r.
      rewrite nm_to_args_groups in *. rewrite parse_nodemap_PN.
      destruct (PN_cut (groups_of local) k1 [] Hgl EL) as [(j & J1 & J2 & J3)|Herr].
      * right. left. replace (S (S (S (S k1)))) with (4 + k1)%nat by lia. rewrite J2, <- nm_group_lens_glen.
        apply (B_local ord m j). cbn [p_local]. rewrite nm_group_lens_glen, map_length. exact J1.
      * left. apply is_err_bind_nodemap. exact Herr.
    + apply Nat.leb_gt in EL. rewrite firstn_all2 by lia.
      set (k2 := (k1 - length (nm_to_args local))%nat) in *.
      rewrite (nodemap_roundtrip local _ Hlocal (stops_firstn _ k2 (stops_peer_config peer ord cfg))).
      set (local' := drop_empty (norm_nm local)).
      unfold peer_part in *. destruct (is_nil (nm_to_args peer)) eqn:EP.
      * (* no PEER section: the cut lies in the CONFIG section *)
        cbn [app length] in *. unfold config_part in *. rewrite config_args_nil in *.
        destruct (is_nil ord) eqn:EO; [cbn [length] in Hk; lia|].
        destruct k2 as [|k5] eqn:EK; [lia|]. cbn [firstn]. cbn [length] in Hk.
        destruct (PL_config_cut ord cfg k5 local' [] true Hcfg ltac:(lia)) as [Herr|[(j & J1 & J2)|(j & _ & _ & _ & J)]].
        -- left. destruct (PL _ local' [] default_config true) as [[[a b] c]|e|]; try discriminate. reflexivity.
        -- right. left. replace (S (S (S (S k1)))) with (config_pos m + 1 + 2 * j)%nat.
           ++ apply B_cfg; assumption.
           ++ unfold config_pos, m. cbn [p_local p_peer]. rewrite EP. lia.
        -- discriminate.
      * (* PEER section present *)
        destruct k2 as [|k3] eqn:EK; [lia|]. cbn [app firstn]. rewrite PL_peer. rewrite firstn_app.
        cbn [length] in Hk.
        destruct (Nat.leb k3 (length (nm_to_args peer))) eqn:EPL.
        -- apply Nat.leb_le in EPL. replace (k3 - length (nm_to_args peer))%nat with 0%nat by lia. cbn [firstn]. rewrite app_nil_r.
           rewrite (nm_to_args_groups peer) in *. rewrite parse_nodemap_PN.
           destruct (PN_cut (groups_of peer) k3 [] Hgp EPL) as [(j & J1 & J2 & J3)|Herr].
           ++ right. left. replace (S (S (S (S k1)))) with (l_end m + 1 + sum_nat (firstn j (nm_group_lens (p_peer m))))%nat.
              ** apply B_peer; [cbn [p_peer]; rewrite nm_to_args_groups; exact EP|].
                 cbn [p_peer]. rewrite nm_group_lens_glen, map_length. exact J1.
              ** unfold l_end, m. cbn [p_local p_peer]. rewrite (nm_group_lens_glen peer), <- J2. lia.
           ++ left. destruct (PN (firstn k3 (groups_toks (groups_of peer))) []) as [[a b]|e|]; try discriminate. reflexivity.
        -- apply Nat.leb_gt in EPL. rewrite firstn_all2 by lia.
           set (k4 := (k3 - length (nm_to_args peer))%nat) in *.
           rewrite (nodemap_roundtrip peer _ Hpeer (stops_firstn _ k4 (stops_config_part ord cfg))).
           set (peer' := drop_empty (norm_nm peer)).
           unfold config_part in *. rewrite config_args_nil in *.
           destruct (is_nil ord) eqn:EO; [cbn [length] in Hk; lia|].
           destruct k4 as [|k5] eqn:EK4; [lia|]. cbn [firstn]. cbn [length] in Hk.
           destruct (PL_config_cut ord cfg k5 local' peer' true Hcfg ltac:(lia)) as [Herr|[(j & J1 & J2)|(j & J1 & J2 & J3 & J4)]].
           ++ left. destruct (PL _ local' peer' default_config true) as [[[a b] c]|e|]; try discriminate. reflexivity.
           ++ right. left. replace (S (S (S (S k1)))) with (config_pos m + 1 + 2 * j)%nat.
              ** apply B_cfg; assumption.
              ** unfold config_pos, m. cbn [p_local p_peer]. rewrite EP. lia.
           ++ right. right. replace (S (S (S (S k1)))) with (config_pos m + 2 + 2 * j)%nat.
              ** apply V_cfg; [apply drop_nonempty_args; exact J3|exact EP|exact J1].
              ** unfold config_pos, m. cbn [p_local p_peer]. rewrite EP. lia.
Qed.
