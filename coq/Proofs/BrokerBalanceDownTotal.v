From UM Require Import Base.BytesDef Model.Ranges Model.Broker Proofs.BrokerBase Proofs.BrokerPartRanges Proofs.BrokerPartDefs
  Proofs.BrokerPartMigrateBase Proofs.BrokerPartMigrateDown Proofs.BrokerPartMigrateBounds
  Proofs.BrokerBalanceDefs Proofs.BrokerBalancePlanDefs Proofs.BrokerBalanceQuiet.
From Coq Require Import ZifyBool ZifyNat ZifyN.
(* Totality of the scale-down planner (migrate.rs remove_slots_from_src_to_scale_down / migrate_slots_to_scale_down)
   on a balanced cluster: neither of the two checked subtractions underflows, the index into dst_existing is in
   bounds, the slot counts are defined and the while loops terminate within the model's fuel. *)

Lemma csub_ok a b : b <= a -> csub a b = Some (a - b).
Proof. intros H. unfold csub. destruct (N.ltb a b) eqn:E; [lia|reflexivity]. Qed.

Section DownTotal.
Variables (epoch avg rem dmn : N) (ex : list N).
Hypothesis Hlen : length ex = N.to_nat dmn.
Hypothesis Hle : forall i e, nth_error ex i = Some e -> e <= dfin avg rem (N.of_nat i).

Lemma scale_down_loop_total : forall fuel idx part rl acc,
  Forall wf_range rl -> a_dst acc <= dmn -> numinv avg rem ex acc ->
  (length rl + N.to_nat (dmn - a_dst acc) < fuel)%nat ->
  exists rl' acc', scale_down_loop fuel epoch avg rem dmn ex idx part rl acc = Done (rl', acc') /\
    a_dst acc' <= dmn /\ numinv avg rem ex acc'.
Proof.
  induction fuel as [|fuel IH]; intros idx part rl acc Hwrl Hd Hnum Hm; [lia|].
  cbn [scale_down_loop].
  destruct (N.eqb (a_dst acc) dmn) eqn:Ed.
  { exists rl, acc. auto. }
  change (avg + b2n (N.ltb (a_dst acc) rem)) with (dfin avg rem (a_dst acc)).
  assert (Hlt : a_dst acc < dmn) by lia.
  destruct (nth_error ex (N.to_nat (a_dst acc))) as [e|] eqn:Ee.
  2:{ apply nth_error_None in Ee. lia. }
  assert (Hee : e <= dfin avg rem (a_dst acc)).
  { pose proof (Hle _ _ Ee) as H. rewrite N2Nat.id in H. exact H. }
  assert (Hsum : a_num acc + e <= dfin avg rem (a_dst acc)).
  { destruct Hnum as [Hz|[e' [He' Hlt']]]; [lia|]. rewrite Ee in He'. inversion He'; subst e'. lia. }
  rewrite (csub_ok (dfin avg rem (a_dst acc)) (a_num acc)) by lia.
  rewrite (csub_ok (dfin avg rem (a_dst acc) - a_num acc) e) by lia.
  destruct (N.eqb (dfin avg rem (a_dst acc) - a_num acc - e) 0) eqn:En0.
  { (* this destination already owns its final number of slots *)
    assert (Hz : a_num acc = 0).
    { destruct Hnum as [Hz|[e' [He' Hlt']]]; [exact Hz|]. rewrite Ee in He'. inversion He'; subst e'. lia. }
    apply IH; cbn [a_dst a_num]; auto; try lia. left. exact Hz. }
  rewrite (slots_num_total rl Hwrl).
  destruct (N.eqb (slots_total rl) 0) eqn:Eav0.
  { exists rl, acc. auto. }
  destruct rl as [|r tail]; [change (slots_total []) with 0 in Eav0; lia|].
  inversion Hwrl as [|? ? Hwr Hwtail]; subst.
  rewrite (range_len_wf r Hwr).
  rewrite slots_total_cons in *.
  cbn [length] in Hm.
  unfold wf_range in Hwr.
  destruct (N.leb (snd r - fst r + 1)
                  (N.min (dfin avg rem (a_dst acc) - a_num acc - e) (snd r - fst r + 1 + slots_total tail))) eqn:Ewhole.
  - (* the whole front range goes to the current destination *)
    rewrite (slots_num_total tail Hwtail).
    destruct (N.leb (dfin avg rem (a_dst acc)) (a_num acc + (snd r - fst r + 1) + e)) eqn:Eadv; cbn [orb].
    + destruct (N.eqb (slots_total tail) 0) eqn:En10.
      * eexists. eexists. split; [reflexivity|]. cbn [a_dst]. split; [lia|]. left. reflexivity.
      * apply IH; cbn [a_dst a_num]; auto; try lia. left. reflexivity.
    + destruct (N.eqb (slots_total tail) 0) eqn:En10.
      * eexists. eexists. split; [reflexivity|]. cbn [a_dst]. split; [lia|].
        right. exists e. cbn [a_dst a_num]. split; [exact Ee|lia].
      * apply IH; cbn [a_dst a_num]; auto; try lia.
        right. exists e. cbn [a_dst a_num]. split; [exact Ee|lia].
  - (* only a prefix of the front range is needed: the destination becomes complete *)
    assert (Hrn : N.min (dfin avg rem (a_dst acc) - a_num acc - e) (snd r - fst r + 1 + slots_total tail)
                  = dfin avg rem (a_dst acc) - a_num acc - e) by lia.
    rewrite Hrn in *.
    assert (Hwrl1 : Forall wf_range ((fst r + (dfin avg rem (a_dst acc) - a_num acc - e), snd r) :: tail)).
    { constructor; [|exact Hwtail]. unfold wf_range. cbn [fst snd]. lia. }
    rewrite (slots_num_total _ Hwrl1).
    assert (Eadv : N.leb (dfin avg rem (a_dst acc)) (a_num acc + (dfin avg rem (a_dst acc) - a_num acc - e) + e) = true) by lia.
    rewrite Eadv. cbn [orb].
    assert (En10 : N.eqb (slots_total ((fst r + (dfin avg rem (a_dst acc) - a_num acc - e), snd r) :: tail)) 0 = false).
    { rewrite slots_total_cons. cbn [fst snd]. lia. }
    rewrite En10.
    apply IH; cbn [a_dst a_num length]; auto; try lia. left. reflexivity.
Qed.

Lemma down_part_total idx part c acc :
  Forall wf_range (opt_ranges (ck_stable c part)) -> a_dst acc <= dmn -> numinv avg rem ex acc ->
  exists c' acc', down_part epoch avg rem dmn ex idx part c acc = Done (c', acc') /\
    ck_stable c' (negb part) = ck_stable c (negb part) /\ a_dst acc' <= dmn /\ numinv avg rem ex acc'.
Proof.
  intros Hw Hd Hnum. unfold down_part.
  destruct (ck_stable c part) as [rl|] eqn:Es; cbn [opt_ranges] in Hw.
  - destruct (scale_down_loop_total (loop_fuel rl dmn) idx part rl acc Hw Hd Hnum) as (rl' & acc' & El & Hd' & Hnum').
    { unfold loop_fuel. lia. }
    rewrite El. exists (set_stable c part None), acc'. split; [reflexivity|]. split; [apply set_stable_other|]. auto.
  - exists c, acc. auto.
Qed.

Lemma scale_down_chunks_total : forall chunks idx acc,
  Forall wf_range (stable_ranges chunks) -> a_dst acc <= dmn -> numinv avg rem ex acc ->
  exists chunks' acc', scale_down_chunks epoch avg rem dmn ex idx chunks acc = Done (chunks', acc') /\
    a_dst acc' <= dmn /\ numinv avg rem ex acc'.
Proof.
  induction chunks as [|c rest IH]; intros idx acc Hw Hd Hnum.
  - exists [], acc. cbn [scale_down_chunks]. auto.
  - rewrite scale_down_chunks_cons.
    change (stable_ranges (c :: rest)) with (chunk_stable c ++ stable_ranges rest) in Hw.
    rewrite chunk_stable_parts in Hw.
    apply Forall_app in Hw. destruct Hw as [Hwc Hwr]. apply Forall_app in Hwc. destruct Hwc as [Hw0 Hw1].
    destruct (down_part_total idx false c acc Hw0 Hd Hnum) as (c1 & acc1 & E0 & Hs1 & Hd1 & Hnum1).
    rewrite E0. cbn [negb] in Hs1. rewrite <- Hs1 in Hw1.
    destruct (down_part_total idx true c1 acc1 Hw1 Hd1 Hnum1) as (c2 & acc2 & E1 & _ & Hd2 & Hnum2).
    rewrite E1.
    destruct (IH (S idx) acc2 Hwr Hd2 Hnum2) as (rest' & acc3 & E2 & Hd3 & Hnum3).
    rewrite E2. exists (c2 :: rest'), acc3. auto.
Qed.

End DownTotal.

(* ---------- the slot numbers of the destination chunks ---------- *)
Definition sizes (l : list chunk) : list N := flat_map (fun c => [stable_num c false; stable_num c true]) l.

Lemma num_opt (o : option rangelist) : Forall wf_range (opt_ranges o) ->
  match o with Some rl => slots_num rl | None => Some 0 end = Some (slots_total (opt_ranges o)).
Proof. destruct o as [rl|]; cbn [opt_ranges]; intros H; [apply slots_num_total; exact H|reflexivity]. Qed.

Lemma existing_nums_sizes : forall l, Forall wf_range (stable_ranges l) -> existing_nums l = Some (sizes l).
Proof.
  induction l as [|c rest IH]; intros Hw; [reflexivity|].
  change (stable_ranges (c :: rest)) with (chunk_stable c ++ stable_ranges rest) in Hw.
  unfold chunk_stable in Hw.
  apply Forall_app in Hw. destruct Hw as [Hwc Hwr]. apply Forall_app in Hwc. destruct Hwc as [Hw0 Hw1].
  cbn [existing_nums]. rewrite (num_opt _ Hw0), (num_opt _ Hw1), (IH Hwr). reflexivity.
Qed.

Lemma sizes_length l : length (sizes l) = (2 * length l)%nat.
Proof. induction l as [|c rest IH]; [reflexivity|]. unfold sizes in *. cbn [flat_map app length]. rewrite IH. lia. Qed.

Lemma sizes_nth : forall l j e, nth_error (sizes l) j = Some e ->
  exists i c p, nth_error l i = Some c /\ j = N.to_nat (mindex i p) /\ e = stable_num c p.
Proof.
  induction l as [|c rest IH]; intros j e H.
  - destruct j; discriminate.
  - change (sizes (c :: rest)) with (stable_num c false :: stable_num c true :: sizes rest) in H.
    destruct j as [|[|j]]; cbn [nth_error] in H.
    + inversion H. exists 0%nat, c, false. split; [reflexivity|]. split; [|reflexivity]. unfold mindex, b2n. lia.
    + inversion H. exists 0%nat, c, true. split; [reflexivity|]. split; [|reflexivity]. unfold mindex, b2n. lia.
    + destruct (IH j e H) as (i & c' & p & Hn & Hj & He). exists (S i), c', p. split; [exact Hn|]. split; [|exact He].
      unfold mindex, b2n in *. destruct p; lia.
Qed.

Lemma nth_error_firstn_some {A} : forall k (l : list A) i x,
  nth_error (firstn k l) i = Some x -> (i < k)%nat /\ nth_error l i = Some x.
Proof.
  induction k as [|k IH]; intros l i x H.
  - cbn [firstn] in H. destruct i; discriminate.
  - destruct l as [|y l]; [destruct i; discriminate|]. cbn [firstn] in H. destruct i as [|i]; cbn [nth_error] in *.
    + split; [lia|exact H].
    + destruct (IH l i x H). split; [lia|assumption].
Qed.

(* ---------- the whole remove phase ---------- *)
Theorem scale_down_remove_total cl epoch k :
  part_inv (cl_chunks cl) -> cluster_is_migrating cl = false ->
  balanced_at (length (cl_chunks cl)) (cl_chunks cl) ->
  (0 < k)%nat -> (k <= length (cl_chunks cl))%nat ->
  exists chunks migs, remove_slots_from_src_to_scale_down cl epoch k = Done (chunks, migs).
Proof.
  intros Hinv Hnm Hbal Hk0 Hkl.
  unfold remove_slots_from_src_to_scale_down.
  set (dmn := 2 * N.of_nat k).
  set (avg := SLOT_NUM / dmn).
  set (rem := SLOT_NUM - avg * dmn).
  pose proof (not_migrating_no_migs cl Hnm) as Hno.
  destruct (part_inv_stable _ Hinv Hno) as [Hwf _].
  rewrite <- (firstn_skipn k (cl_chunks cl)) in Hwf. rewrite stable_ranges_app in Hwf.
  apply Forall_app in Hwf. destruct Hwf as [Hwf1 Hwf2].
  rewrite (existing_nums_sizes _ Hwf1).
  assert (Hdmn : 0 < dmn) by (unfold dmn; lia).
  assert (Hlen : length (sizes (firstn k (cl_chunks cl))) = N.to_nat dmn).
  { rewrite sizes_length, firstn_length. unfold dmn. lia. }
  assert (Hle : forall j e, nth_error (sizes (firstn k (cl_chunks cl))) j = Some e -> e <= dfin avg rem (N.of_nat j)).
  { intros j e Hj. destruct (sizes_nth _ _ _ Hj) as (i & c & p & Hn & -> & ->).
    apply nth_error_firstn_some in Hn. destruct Hn as [Hik Hn].
    destruct (quiescent_shape _ _ Hinv Hbal Hno i c p Hn) as [Hsh _].
    assert (Hil : (i < length (cl_chunks cl))%nat) by lia.
    destruct (Hsh Hil) as [Heq _]. rewrite Heq, N2Nat.id.
    unfold dfin, rem, avg. rewrite (share_unfold dmn (mindex i p) Hdmn).
    apply share_mono; [exact Hdmn|]. unfold dmn. lia. }
  destruct (scale_down_chunks_total epoch avg rem dmn _ Hlen Hle (skipn k (cl_chunks cl)) k (mkAcc 0 [] 0 []) Hwf2)
    as (chunks' & acc' & E & _ & _).
  { cbn [a_dst]. lia. }
  { left. reflexivity. }
  rewrite E. eauto.
Qed.

Theorem scale_down_total s name n :
  store_part_inv s -> store_balance_inv s ->
  snd (migrate_slots_to_scale_down s name n) <> Panic /\ snd (migrate_slots_to_scale_down s name n) <> Fail E_BadChoice.
Proof.
  intros Hs Hb. unfold migrate_slots_to_scale_down.
  change (st_clusters (bump s)) with (st_clusters s).
  destruct (alookup name (st_clusters s)) as [cl|] eqn:El; [|cbn [snd]; split; discriminate].
  destruct (existsb has_empty_stable (cl_chunks cl)) eqn:E1; [cbn [snd]; split; discriminate|].
  destruct (cluster_is_migrating cl) eqn:E2; [cbn [snd]; split; discriminate|].
  destruct (N.eqb n 0 || negb (N.eqb (n mod 4) 0) || N.leb (4 * N.of_nat (length (cl_chunks cl))) n) eqn:E3;
    [cbn [snd]; split; discriminate|].
  apply alookup_In in El.
  pose proof (Hs _ _ El) as Hinv. unfold cluster_inv in Hinv.
  destruct (Hb _ _ El) as [k0 Hbal].
  pose proof (not_migrating_no_migs cl E2) as Hno.
  pose proof (all_stable_k _ _ Hinv Hbal Hno E1) as Hk0. subst k0.
  apply orb_false_iff in E3. destruct E3 as [E3 E3c]. apply orb_false_iff in E3. destruct E3 as [E3a E3b].
  apply negb_false_iff in E3b.
  assert (Hpos : (0 < N.to_nat (n / 4))%nat).
  { assert (Hn : 4 <= n).
    { assert (n <> 0) by lia. assert (n mod 4 = 0) by lia.
      pose proof (N.div_mod n 4 ltac:(lia)) as Hdm. lia. }
    assert (1 <= n / 4) by (apply N.div_le_lower_bound; lia). lia. }
  assert (Hk : (N.to_nat (n / 4) <= length (cl_chunks cl))%nat).
  { assert (n / 4 <= N.of_nat (length (cl_chunks cl))) by (apply N.div_le_upper_bound; lia). lia. }
  destruct (scale_down_remove_total cl (st_epoch (bump s)) (N.to_nat (n / 4)) Hinv E2 Hbal Hpos Hk) as (chunks & migs & Er).
  rewrite Er.
  destruct (remove_src_down_assign_done _ _ _ _ _ Hk Er) as [chunks' Ea]. rewrite Ea.
  cbn [snd]. split; discriminate.
Qed.

Print Assumptions scale_down_remove_total.
Print Assumptions scale_down_total.
