(* C10 assembled: a successful scale-out / scale-in request on a balanced cluster followed by ANY script of commits (in any
   order, failing ones included), failovers and role balancing that contains as many successful commits as migrations
   were created ends with no pending migration, all 16384 slots stable, the first k chunks holding exactly their fair
   shares (k = all chunks after a scale-out, k = requested number after a scale-in) and all later chunks slot-less. *)
From UM Require Import Base.BytesDef Model.Ranges Model.Broker Proofs.BrokerBase Proofs.BrokerPartRanges Proofs.BrokerPartDefs
  Proofs.BrokerPartMigrateBase Proofs.BrokerPartMigrate Proofs.BrokerPartOpsFrame Proofs.BrokerPartOpsFail Proofs.BrokerPartOps
  Proofs.BrokerPartMain Proofs.BrokerScale
  Proofs.BrokerBalanceDefs Proofs.BrokerBalanceQuiet Proofs.BrokerBalanceCommit Proofs.BrokerBalanceTrack
  Proofs.BrokerBalance Proofs.BrokerBalanceProgress.
From Coq Require Import ZifyBool ZifyNat ZifyN.

(* final state of a completed scaling operation *)
Definition settled (k : nat) (cl : cluster) : Prop :=
  cluster_is_migrating cl = false /\ (0 < k)%nat /\ (k <= length (cl_chunks cl))%nat /\
  (forall i c p, nth_error (cl_chunks cl) i = Some c -> (i < k)%nat ->
      exists st, ck_stable c p = Some st /\ slots_total st = share (2 * N.of_nat k) (mindex i p)) /\
  (forall i c, nth_error (cl_chunks cl) i = Some c -> (k <= i)%nat -> chunk_is_free c = true) /\
  slots_total (stable_ranges (cl_chunks cl)) = SLOT_NUM.

Lemma settled_intro k cl : part_inv (cl_chunks cl) -> balanced_at k (cl_chunks cl) -> cluster_is_migrating cl = false -> settled k cl.
Proof.
  intros Hinv Hk Hm. pose proof (not_migrating_no_migs cl Hm) as Hno. pose proof Hk as (Hk0 & Hkl & _).
  split; [exact Hm|]. split; [exact Hk0|]. split; [exact Hkl|]. split; [|split].
  - intros i c p Hn Hi. destruct (quiescent_shape k _ Hinv Hk Hno i c p Hn) as [A _].
    destruct (A Hi) as (Hs & _ & st & Hst). exists st. split; [exact Hst|].
    unfold stable_num in Hs. rewrite Hst in Hs. exact Hs.
  - intros i c Hn Hi.
    pose proof (proj2 (quiescent_shape k _ Hinv Hk Hno i c false Hn) Hi) as H0.
    pose proof (proj2 (quiescent_shape k _ Hinv Hk Hno i c true Hn) Hi) as H1.
    destruct (Hno c (nth_error_In _ _ Hn)) as [M0 M1]. cbn [ck_stable] in H0, H1.
    unfold chunk_is_free. rewrite H0, H1, M0, M1. reflexivity.
  - destruct (part_inv_stable _ Hinv Hno) as [Hw Hc]. apply BrokerPartMigrateSum.covers_total; assumption.
Qed.

(* drain scripts keep the partition invariant and the number of slot-holding chunks *)
Lemma step_drain_keeps name k s o :
  store_part_inv s -> at_k name k s -> drain_op name o ->
  store_part_inv (fst (step s o)) /\ at_k name k (fst (step s o)).
Proof.
  intros Hp Hk Hd. destruct o; cbn [drain_op] in Hd; try contradiction; cbn [step]; rewrite ?lift_unit_fst.
  - split; [apply commit_migration_api_part_inv|apply commit_migration_api_at_k]; assumption.
  - destruct (nth_out_entry s name0 j); rewrite lift_unit_fst;
      (split; [apply commit_migration_api_part_inv|apply commit_migration_api_at_k]; assumption).
  - pose proof (replace_failed_proxy_part_inv s addr choice Hp) as H1.
    pose proof (replace_failed_proxy_at_k name k s addr choice Hk) as H2.
    destruct (replace_failed_proxy s addr choice) as [s' [u|e|]]; cbn [fst] in *; split; assumption.
  - split; [apply balance_masters_part_inv|apply balance_masters_at_k]; assumption.
Qed.

Lemma run_drain_keeps name k : forall ops s,
  store_part_inv s -> at_k name k s -> Forall (drain_op name) ops ->
  store_part_inv (run s ops) /\ at_k name k (run s ops).
Proof.
  induction ops as [|o rest IH]; intros s Hp Hk Hf; [split; assumption|].
  inversion Hf as [|? ? Ho Hrest]; subst.
  destruct (step_drain_keeps name k s o Hp Hk Ho) as [Hp1 Hk1].
  change (run s (o :: rest)) with (run (fst (step s o)) rest). apply IH; assumption.
Qed.

Theorem drain_completes : forall name k s1 cl1 ops,
  store_part_inv s1 -> at_k name k s1 -> alookup name (st_clusters s1) = Some cl1 ->
  Forall (drain_op name) ops -> successes s1 ops = pending cl1 ->
  exists cl', alookup name (st_clusters (run s1 ops)) = Some cl' /\ settled k cl'.
Proof.
  intros name k s1 cl1 ops Hp Hk Hl Hf Hs.
  destruct (drained_not_migrating ops s1 name cl1 Hp Hl Hf Hs) as (cl' & Hl' & Hm).
  destruct (run_drain_keeps name k ops s1 Hp Hk Hf) as [Hp' Hk'].
  exists cl'. split; [exact Hl'|]. apply settled_intro; [|apply Hk'; exact Hl'|exact Hm].
  apply alookup_In in Hl'. exact (Hp' _ _ Hl').
Qed.

(* ---------- the two requests ---------- *)
Lemma migrate_slots_at s name cl :
  store_part_inv s -> store_balance_inv s -> alookup name (st_clusters s) = Some cl ->
  snd (migrate_slots s name) = Done tt ->
  at_k name (length (cl_chunks cl)) (fst (migrate_slots s name)).
Proof.
  intros Hp Hb Hl Hd. unfold migrate_slots in *.
  change (st_clusters (bump s)) with (st_clusters s) in *. rewrite Hl in *.
  destruct (negb (existsb has_empty_stable (cl_chunks cl))); [discriminate|].
  destruct (cluster_is_migrating cl) eqn:Em; [discriminate|].
  destruct (remove_slots_from_src cl (st_epoch (bump s))) as [[chunks migs]|e|] eqn:Er; try discriminate.
  destruct (assign_dst_slots chunks migs) as [chunks'|e|] eqn:Ea; try discriminate.
  cbn [fst]. intros cl' Hl'. cbn [with_clusters st_clusters] in Hl'. rewrite alookup_ainsert_same in Hl'.
  inversion Hl'; subst cl'. cbn [cl_chunks].
  apply alookup_In in Hl.
  apply (migrate_plan_balanced_at cl _ chunks migs chunks' (Hp _ _ Hl) (Hb _ _ Hl) Em Er Ea).
Qed.

Lemma scale_down_at s name n cl :
  store_part_inv s -> store_balance_inv s -> alookup name (st_clusters s) = Some cl ->
  snd (migrate_slots_to_scale_down s name n) = Done tt ->
  at_k name (N.to_nat (n / 4)) (fst (migrate_slots_to_scale_down s name n)) /\ (N.to_nat (n / 4) < length (cl_chunks cl))%nat.
Proof.
  intros Hp Hb Hl Hd. unfold migrate_slots_to_scale_down in *.
  change (st_clusters (bump s)) with (st_clusters s) in *. rewrite Hl in *.
  destruct (existsb has_empty_stable (cl_chunks cl)) eqn:Ee; [discriminate|].
  destruct (cluster_is_migrating cl) eqn:Em; [discriminate|].
  destruct (N.eqb n 0 || negb (N.eqb (n mod 4) 0) || N.leb (4 * N.of_nat (length (cl_chunks cl))) n) eqn:E3; [discriminate|].
  destruct (remove_slots_from_src_to_scale_down cl (st_epoch (bump s)) (N.to_nat (n / 4))) as [[chunks migs]|e|] eqn:Er;
    try discriminate.
  destruct (assign_dst_slots chunks migs) as [chunks'|e|] eqn:Ea; try discriminate.
  destruct (scale_down_request_k n _ E3) as [Hk1 Hk2]. split; [|exact Hk2].
  cbn [fst]. intros cl' Hl'. cbn [with_clusters st_clusters] in Hl'. rewrite alookup_ainsert_same in Hl'.
  inversion Hl'; subst cl'. cbn [cl_chunks].
  apply alookup_In in Hl.
  apply (scale_down_plan_balanced_at cl _ _ chunks migs chunks' (Hp _ _ Hl) (Hb _ _ Hl) Em Ee Hk1 ltac:(lia) Er Ea).
Qed.

Lemma lookup_after_insert s name cl' l : alookup name (st_clusters (with_clusters s (ainsert name cl' l))) = Some cl'.
Proof. cbn [with_clusters st_clusters]. apply alookup_ainsert_same. Qed.

(* Scale-out: every chunk ends up holding its share among 2 * (number of chunks) masters *)
Theorem scale_out_completes : forall s name cl ops,
  reachable s -> alookup name (st_clusters s) = Some cl ->
  snd (step s (OMigrateSlots name)) = ROk ->
  Forall (drain_op name) ops ->
  let s1 := fst (step s (OMigrateSlots name)) in
  exists cl1, alookup name (st_clusters s1) = Some cl1 /\
    (successes s1 ops = pending cl1 ->
     exists cl', alookup name (st_clusters (run s1 ops)) = Some cl' /\ settled (length (cl_chunks cl)) cl').
Proof.
  intros s name cl ops Hr Hl Hok Hf. cbn [step] in *. rewrite lift_unit_fst.
  pose proof (reachable_keeps_partition s Hr) as Hp. pose proof (reachable_store_balance s Hr) as Hb.
  assert (Hd : snd (migrate_slots s name) = Done tt).
  { destruct (migrate_slots s name) as [s' [[]|e|]]; cbn [lift_unit snd] in Hok; try discriminate. reflexivity. }
  pose proof (migrate_slots_at s name cl Hp Hb Hl Hd) as Hk.
  pose proof (migrate_slots_part_inv_any s name Hp) as Hp1.
  assert (Hex : exists cl1, alookup name (st_clusters (fst (migrate_slots s name))) = Some cl1).
  { unfold migrate_slots in *. change (st_clusters (bump s)) with (st_clusters s) in *. rewrite Hl in *.
    destruct (negb (existsb has_empty_stable (cl_chunks cl))); [discriminate|].
    destruct (cluster_is_migrating cl); [discriminate|].
    destruct (remove_slots_from_src cl (st_epoch (bump s))) as [[chunks migs]|e|]; try discriminate.
    destruct (assign_dst_slots chunks migs) as [chunks'|e|]; try discriminate.
    cbn [fst]. eexists. apply lookup_after_insert. }
  destruct Hex as [cl1 Hl1]. exists cl1. split; [exact Hl1|]. intros Hs.
  eapply drain_completes; eassumption.
Qed.

(* Scale-in to n nodes: the first n/4 chunks end up holding their shares among n/2 masters, the others are free *)
Theorem scale_in_completes : forall s name n cl ops,
  reachable s -> alookup name (st_clusters s) = Some cl ->
  snd (step s (OScaleDown name n)) = ROk ->
  Forall (drain_op name) ops ->
  let s1 := fst (step s (OScaleDown name n)) in
  (N.to_nat (n / 4) < length (cl_chunks cl))%nat /\
  exists cl1, alookup name (st_clusters s1) = Some cl1 /\
    (successes s1 ops = pending cl1 ->
     exists cl', alookup name (st_clusters (run s1 ops)) = Some cl' /\ settled (N.to_nat (n / 4)) cl').
Proof.
  intros s name n cl ops Hr Hl Hok Hf. cbn [step] in *. rewrite lift_unit_fst.
  pose proof (reachable_keeps_partition s Hr) as Hp. pose proof (reachable_store_balance s Hr) as Hb.
  assert (Hd : snd (migrate_slots_to_scale_down s name n) = Done tt).
  { destruct (migrate_slots_to_scale_down s name n) as [s' [[]|e|]]; cbn [lift_unit snd] in Hok; try discriminate. reflexivity. }
  destruct (scale_down_at s name n cl Hp Hb Hl Hd) as [Hk Hlt]. split; [exact Hlt|].
  pose proof (scale_down_part_inv_any s name n Hp) as Hp1.
  assert (Hex : exists cl1, alookup name (st_clusters (fst (migrate_slots_to_scale_down s name n))) = Some cl1).
  { unfold migrate_slots_to_scale_down in *. change (st_clusters (bump s)) with (st_clusters s) in *. rewrite Hl in *.
    destruct (existsb has_empty_stable (cl_chunks cl)); [discriminate|].
    destruct (cluster_is_migrating cl); [discriminate|].
    destruct (N.eqb n 0 || negb (N.eqb (n mod 4) 0) || N.leb (4 * N.of_nat (length (cl_chunks cl))) n); [discriminate|].
    destruct (remove_slots_from_src_to_scale_down cl (st_epoch (bump s)) (N.to_nat (n / 4))) as [[chunks migs]|e|]; try discriminate.
    destruct (assign_dst_slots chunks migs) as [chunks'|e|]; try discriminate.
    cbn [fst]. eexists. apply lookup_after_insert. }
  destruct Hex as [cl1 Hl1]. exists cl1. split; [exact Hl1|]. intros Hs.
  eapply drain_completes; eassumption.
Qed.
