(* C12: every operation function of Model/Broker.v preserves the accounting invariant acct_inv. *)
From UM Require Import Base.BytesDef Model.Ranges Model.Broker Proofs.BrokerBase Proofs.BrokerAcctBase Proofs.BrokerAcctAlloc
     Proofs.BrokerAcctInv.
From Coq Require Import ZifyBool ZifyNat ZifyN Permutation.

(* ---------- migration functions keep the skeleton of the chunk list ---------- *)
Lemma scale_out_chunks_skel epoch av rem smn dmn scn : forall chunks idx acc chunks' acc',
  scale_out_chunks epoch av rem smn dmn scn idx chunks acc = Done (chunks', acc') ->
  map ck_skel chunks' = map ck_skel chunks.
Proof.
  induction chunks as [|c rest IH]; intros idx acc chunks' acc'; cbn [scale_out_chunks].
  - intros H. inversion H. reflexivity.
  - cbv beta zeta.
    destruct (ck_stable c false) as [rl0|].
    + destruct (scale_out_loop _ _ _ _ _ _ _ _ _ rl0 acc) as [[rl0' acc0]|?|]; [|discriminate|discriminate].
      destruct (ck_stable (set_stable c false (Some rl0')) true) as [rl1|].
      * destruct (scale_out_loop _ _ _ _ _ _ _ _ _ rl1 acc0) as [[rl1' acc1]|?|]; [|discriminate|discriminate].
        destruct (scale_out_chunks _ _ _ _ _ _ _ rest acc1) as [[rest' acc3]|?|] eqn:E; [|discriminate|discriminate].
        intros H. inversion H; subst. cbn [map]. rewrite (IH _ _ _ _ E). reflexivity.
      * destruct (scale_out_chunks _ _ _ _ _ _ _ rest acc0) as [[rest' acc3]|?|] eqn:E; [|discriminate|discriminate].
        intros H. inversion H; subst. cbn [map]. rewrite (IH _ _ _ _ E). reflexivity.
    + destruct (ck_stable c true) as [rl1|].
      * destruct (scale_out_loop _ _ _ _ _ _ _ _ _ rl1 acc) as [[rl1' acc1]|?|]; [|discriminate|discriminate].
        destruct (scale_out_chunks _ _ _ _ _ _ _ rest acc1) as [[rest' acc3]|?|] eqn:E; [|discriminate|discriminate].
        intros H. inversion H; subst. cbn [map]. rewrite (IH _ _ _ _ E). reflexivity.
      * destruct (scale_out_chunks _ _ _ _ _ _ _ rest acc) as [[rest' acc3]|?|] eqn:E; [|discriminate|discriminate].
        intros H. inversion H; subst. cbn [map]. rewrite (IH _ _ _ _ E). reflexivity.
Qed.

Lemma remove_slots_from_src_skel cl epoch chunks migs :
  remove_slots_from_src cl epoch = Done (chunks, migs) -> map ck_skel chunks = cl_skel cl.
Proof.
  unfold remove_slots_from_src.
  destruct (scale_out_chunks _ _ _ _ _ _ _ _ _) as [[ch acc]|?|] eqn:E; [|discriminate|discriminate].
  intros H. inversion H; subst. eapply scale_out_chunks_skel; eauto.
Qed.

Lemma scale_down_chunks_skel epoch av rem dmn de : forall chunks idx acc chunks' acc',
  scale_down_chunks epoch av rem dmn de idx chunks acc = Done (chunks', acc') ->
  map ck_skel chunks' = map ck_skel chunks.
Proof.
  induction chunks as [|c rest IH]; intros idx acc chunks' acc'; cbn [scale_down_chunks].
  - intros H. inversion H. reflexivity.
  - cbv beta zeta.
    destruct (ck_stable c false) as [rl0|].
    + destruct (scale_down_loop _ _ _ _ _ _ _ _ rl0 acc) as [[rl0' acc0]|?|]; [|discriminate|discriminate].
      destruct (ck_stable (set_stable c false None) true) as [rl1|].
      * destruct (scale_down_loop _ _ _ _ _ _ _ _ rl1 acc0) as [[rl1' acc1]|?|]; [|discriminate|discriminate].
        destruct (scale_down_chunks _ _ _ _ _ _ rest acc1) as [[rest' acc3]|?|] eqn:E; [|discriminate|discriminate].
        intros H. inversion H; subst. cbn [map]. rewrite (IH _ _ _ _ E). reflexivity.
      * destruct (scale_down_chunks _ _ _ _ _ _ rest acc0) as [[rest' acc3]|?|] eqn:E; [|discriminate|discriminate].
        intros H. inversion H; subst. cbn [map]. rewrite (IH _ _ _ _ E). reflexivity.
    + destruct (ck_stable c true) as [rl1|].
      * destruct (scale_down_loop _ _ _ _ _ _ _ _ rl1 acc) as [[rl1' acc1]|?|]; [|discriminate|discriminate].
        destruct (scale_down_chunks _ _ _ _ _ _ rest acc1) as [[rest' acc3]|?|] eqn:E; [|discriminate|discriminate].
        intros H. inversion H; subst. cbn [map]. rewrite (IH _ _ _ _ E). reflexivity.
      * destruct (scale_down_chunks _ _ _ _ _ _ rest acc) as [[rest' acc3]|?|] eqn:E; [|discriminate|discriminate].
        intros H. inversion H; subst. cbn [map]. rewrite (IH _ _ _ _ E). reflexivity.
Qed.

Lemma remove_slots_scale_down_skel cl epoch k chunks migs :
  remove_slots_from_src_to_scale_down cl epoch k = Done (chunks, migs) -> map ck_skel chunks = cl_skel cl.
Proof.
  unfold remove_slots_from_src_to_scale_down.
  destruct (existing_nums _) as [de|]; [|discriminate].
  destruct (scale_down_chunks _ _ _ _ _ _ _ _) as [[ch acc]|?|] eqn:E; [|discriminate|discriminate].
  intros H. inversion H; subst. rewrite map_app. rewrite (scale_down_chunks_skel _ _ _ _ _ _ _ _ _ _ E).
  rewrite <- map_app, firstn_skipn. reflexivity.
Qed.

Lemma assign_dst_slots_skel : forall migs chunks chunks',
  assign_dst_slots chunks migs = Done chunks' -> map ck_skel chunks' = map ck_skel chunks.
Proof.
  induction migs as [|[rl m] rest IH]; intros chunks chunks'; cbn [assign_dst_slots].
  - intros H. inversion H. reflexivity.
  - destruct (_ && _); [|discriminate]. intros H. apply IH in H. rewrite H.
    rewrite !map_update_nth; [reflexivity| |]; intros x; apply skel_set_mig.
Qed.

Lemma compact_slots_skel chunks : map ck_skel (compact_slots chunks) = map ck_skel chunks.
Proof. unfold compact_slots. apply map_map_same. intros x. reflexivity. Qed.

Lemma commit_in_skel rl meta : forall chunks, map ck_skel (commit_in chunks rl meta) = map ck_skel chunks.
Proof.
  induction chunks as [|c rest IH]; cbn [commit_in]; [reflexivity|]. cbv beta zeta.
  destruct (remove_first _ (ck_mig0 c)) as [[e l']|].
  - cbn [map]. f_equal. destruct (ck_stable _ false); rewrite skel_set_stable, skel_set_mig; reflexivity.
  - destruct (remove_first _ (ck_mig1 c)) as [[e l']|].
    + cbn [map]. f_equal. destruct (ck_stable _ true); rewrite skel_set_stable, skel_set_mig; reflexivity.
    + cbn [map]. rewrite IH. reflexivity.
Qed.

Lemma takeover_first_skel failed ne : forall chunks chunks' ps,
  takeover_first chunks failed ne = Some (chunks', ps) -> map ck_skel chunks' = map ck_skel chunks.
Proof.
  induction chunks as [|c rest IH]; intros chunks' ps; cbn [takeover_first].
  - intros H. inversion H. reflexivity.
  - destruct (N.eqb (ck_proxy0 c) failed).
    + destruct (role_eqb (ck_role c) RSecond); [discriminate|]. intros H. inversion H; subst. cbn [map]. f_equal.
      destruct (role_eqb (ck_role c) RFirst); rewrite ?skel_set_mig, ?skel_set_role; reflexivity.
    + destruct (N.eqb (ck_proxy1 c) failed).
      * destruct (role_eqb (ck_role c) RFirst); [discriminate|]. intros H. inversion H; subst. cbn [map]. f_equal.
        destruct (role_eqb (ck_role c) RSecond); rewrite ?skel_set_mig, ?skel_set_role; reflexivity.
      * destruct (takeover_first rest failed ne) as [[rest' ps']|] eqn:E; [|discriminate].
        intros H. inversion H; subst. cbn [map]. rewrite (IH _ _ eq_refl). reflexivity.
Qed.

Lemma takeover_master_skel cl failed ne : cl_skel (takeover_master cl failed ne) = cl_skel cl.
Proof.
  unfold takeover_master. destruct (takeover_first _ _ _) as [[chunks ps]|] eqn:E; [|reflexivity].
  unfold cl_skel. cbn [cl_chunks]. rewrite map_map_same; [eapply takeover_first_skel; eauto|].
  intros x. rewrite !skel_set_mig. reflexivity.
Qed.

(* ---------- stores that differ only in fields the invariant does not read ---------- *)
Lemma acct_inv_same s s' : st_proxies s' = st_proxies s -> st_clusters s' = st_clusters s -> acct_inv s -> acct_inv s'.
Proof. unfold acct_inv. intros -> ->. auto. Qed.

Lemma acct_inv_bump s : acct_inv s -> acct_inv (bump s).
Proof. apply acct_inv_same; reflexivity. Qed.

Lemma acct_inv_replace_cluster s s' name cl cl' :
  acct_inv s -> alookup name (st_clusters s) = Some cl -> cl_skel cl' = cl_skel cl ->
  st_proxies s' = st_proxies s -> st_clusters s' = ainsert name cl' (st_clusters s) -> acct_inv s'.
Proof. unfold acct_inv. intros H L Hsk -> ->. eapply acct_same_skel; eauto. Qed.

(* guards that return the unchanged store: robust against further guards being added to the model *)
Ltac skip_guards H :=
  repeat match goal with
         | |- acct_inv (fst (if ?b then (_, Fail _) else _)) => destruct b; [exact H|]
         end.

(* ---------- one lemma per operation function ---------- *)
Lemma add_failure_inv s a r now : acct_inv s -> acct_inv (fst (add_failure s a r now)).
Proof. unfold add_failure. destruct (match alookup a (st_failures s) with Some m => amem r m | None => false end); cbn [fst]; auto. Qed.

Lemma get_failures_inv s now ttl q : acct_inv s -> acct_inv (fst (get_failures s now ttl q)).
Proof. unfold get_failures. cbn [fst]. apply acct_inv_same; reflexivity. Qed.

Lemma cleanup_failures_inv s now ttl q : acct_inv s -> acct_inv (fst (cleanup_failures s now ttl q)).
Proof. unfold cleanup_failures. cbn [fst]. apply get_failures_inv. Qed.

Lemma add_proxy_inv s addr host index : acct_inv s -> acct_inv (fst (add_proxy s addr host index)).
Proof.
  intros H. unfold add_proxy. destruct (if st_ordered s then index else Some 0) as [idx|]; [|exact H].
  cbn [fst]. set (ps := if amem addr (st_proxies s) then _ else _).
  assert (G : acct ps (st_clusters s)).
  { unfold ps, amem. destruct (alookup addr (st_proxies s)) eqn:L; [exact H|].
    apply acct_add_proxy; [exact H|exact L|reflexivity]. }
  destruct (negb _ || _); exact G.
Qed.

Lemma remove_proxy_inv s addr : acct_inv s -> acct_inv (fst (remove_proxy s addr)).
Proof.
  intros H. unfold remove_proxy. destruct (alookup addr (st_proxies s)) as [r|] eqn:L; [|exact H].
  destruct (pr_cluster r) eqn:C; [exact H|]. cbn [fst]. apply acct_inv_bump. unfold acct_inv. cbn.
  eapply acct_remove_proxy; eauto.
Qed.

Lemma add_cluster_inv s name k cfg ch : acct_inv s -> acct_inv (fst (add_cluster s name k cfg ch)).
Proof.
  intros H. unfold add_cluster.
  destruct (_ && _); [exact H|]. destruct (amem name (st_clusters s)) eqn:Em; [exact H|].
  skip_guards H.
  destruct (gen_chunks s (k / 2) 0 ch) as [pairs|?|] eqn:G; [|exact H|exact H].
  cbn [fst]. unfold acct_inv. cbn [with_clusters with_proxies st_proxies st_clusters bump with_epoch st_epoch].
  apply (acct_grow s name [] (proxy_resource_to_chunk_store s pairs true) pairs).
  - exact H.
  - unfold amem in Em. destruct (alookup name (st_clusters s)); [discriminate|reflexivity].
  - eapply gen_chunks_ok; [apply H|exact G].
  - apply prtcs_skel.
Qed.

Lemma remove_cluster_inv s name : acct_inv s -> acct_inv (fst (remove_cluster s name)).
Proof.
  intros H. unfold remove_cluster. destruct (alookup name (st_clusters s)) as [cl|] eqn:L; [|exact H].
  cbn [fst]. apply acct_inv_bump. unfold acct_inv. cbn. apply acct_remove_cluster; assumption.
Qed.

Lemma auto_add_nodes_inv s name k ch : acct_inv s -> acct_inv (fst (auto_add_nodes s name k ch)).
Proof.
  intros H. unfold auto_add_nodes. destruct (alookup name (st_clusters s)) as [cl|] eqn:L; [|exact H].
  skip_guards H.
  destruct (gen_chunks s (k / 2) _ ch) as [pairs|?|] eqn:G; [|exact H|exact H].
  cbn [fst]. unfold acct_inv. cbn [with_clusters with_proxies st_proxies st_clusters bump with_epoch st_epoch].
  apply (acct_grow s name (cl_chunks cl) (proxy_resource_to_chunk_store s pairs false) pairs).
  - exact H.
  - rewrite L. reflexivity.
  - eapply gen_chunks_ok; [apply H|exact G].
  - apply prtcs_skel.
Qed.

Lemma auto_scale_up_nodes_inv s name k ch : acct_inv s -> acct_inv (fst (auto_scale_up_nodes s name k ch)).
Proof.
  intros H. unfold auto_scale_up_nodes. destruct (alookup name (st_clusters s)) as [cl|]; [|exact H].
  destruct (N.leb _ _); [exact H|]. apply auto_add_nodes_inv. exact H.
Qed.

Lemma auto_delete_free_nodes_inv s name : acct_inv s -> acct_inv (fst (auto_delete_free_nodes s name)).
Proof.
  intros H. unfold auto_delete_free_nodes. destruct (alookup name (st_clusters s)) as [cl|] eqn:L; [|exact H].
  destruct (cluster_is_migrating cl); [exact H|].
  destruct (filter chunk_is_free (cl_chunks cl)) as [|c0 cr] eqn:Ef; [exact H|].
  cbn [fst]. apply acct_inv_bump. unfold acct_inv. cbn [with_clusters with_proxies st_proxies st_clusters].
  rewrite <- Ef. apply acct_shrink; assumption.
Qed.

Lemma auto_delete_free_nodes_if_exists_inv s name : acct_inv s -> acct_inv (fst (auto_delete_free_nodes_if_exists s name)).
Proof.
  intros H. unfold auto_delete_free_nodes_if_exists. pose proof (auto_delete_free_nodes_inv s name H) as G.
  destruct (auto_delete_free_nodes s name) as [s' [?|e|]]; cbn [fst] in *; [exact G| |exact G].
  destruct e; exact G.
Qed.

Lemma migrate_slots_inv s name : acct_inv s -> acct_inv (fst (migrate_slots s name)).
Proof.
  intros H. apply acct_inv_bump in H. unfold migrate_slots. set (s1 := bump s) in *.
  destruct (alookup name (st_clusters s1)) as [cl|] eqn:L; [|exact H].
  destruct (negb _); [exact H|]. destruct (cluster_is_migrating cl); [exact H|].
  destruct (remove_slots_from_src cl (st_epoch s1)) as [[chunks migs]|?|] eqn:E1; [|exact H|exact H].
  destruct (assign_dst_slots chunks migs) as [chunks'|?|] eqn:E2; [|exact H|exact H].
  cbn [fst]. eapply acct_inv_replace_cluster; [exact H|exact L| |reflexivity|reflexivity].
  unfold cl_skel at 1. cbn [cl_chunks]. rewrite compact_slots_skel, (assign_dst_slots_skel _ _ _ E2).
  eapply remove_slots_from_src_skel; eauto.
Qed.

Lemma migrate_slots_to_scale_down_inv s name k : acct_inv s -> acct_inv (fst (migrate_slots_to_scale_down s name k)).
Proof.
  intros H. apply acct_inv_bump in H. unfold migrate_slots_to_scale_down. set (s1 := bump s) in *.
  destruct (alookup name (st_clusters s1)) as [cl|] eqn:L; [|exact H].
  destruct (existsb _ _); [exact H|]. destruct (cluster_is_migrating cl); [exact H|].
  destruct (_ || _); [exact H|].
  destruct (remove_slots_from_src_to_scale_down cl (st_epoch s1) _) as [[chunks migs]|?|] eqn:E1; [|exact H|exact H].
  destruct (assign_dst_slots chunks migs) as [chunks'|?|] eqn:E2; [|exact H|exact H].
  cbn [fst]. eapply acct_inv_replace_cluster; [exact H|exact L| |reflexivity|reflexivity].
  unfold cl_skel at 1. cbn [cl_chunks]. rewrite compact_slots_skel, (assign_dst_slots_skel _ _ _ E2).
  eapply remove_slots_scale_down_skel; eauto.
Qed.

Lemma commit_migration_inv s name rl tag e : acct_inv s -> acct_inv (fst (commit_migration s name rl tag e)).
Proof.
  intros H. unfold commit_migration. destruct (alookup name (st_clusters s)) as [cl|] eqn:L; [|exact H].
  destruct tag; [exact H| |];
  (destruct (find_entry_chunks 0 (cl_chunks cl) rl e true) as [[si sp]|]; [|exact H];
   destruct (find_entry_chunks 0 (cl_chunks cl) rl e false) as [[di dp]|]; [|exact H];
   cbn [fst]; apply acct_inv_bump;
   eapply acct_inv_replace_cluster; [exact H|exact L| |reflexivity|reflexivity];
   unfold cl_skel at 1; cbn [cl_chunks]; rewrite compact_slots_skel, commit_in_skel;
   apply map_map_same; intros x; rewrite !skel_set_mig; reflexivity).
Qed.

Lemma commit_migration_api_inv s name rl tag e clr : acct_inv s -> acct_inv (fst (commit_migration_api s name rl tag e clr)).
Proof.
  intros H. unfold commit_migration_api. pose proof (commit_migration_inv s name rl tag e H) as G.
  destruct (commit_migration s name rl tag e) as [s' [[]|?|]]; cbn [fst] in *; [|exact G|exact G].
  destruct clr; [apply auto_delete_free_nodes_if_exists_inv|]; exact G.
Qed.

Lemma generate_new_free_proxy_done s failed choice r :
  generate_new_free_proxy s failed choice = Done r ->
  exists rr, alookup r (st_proxies s) = Some rr /\ is_free s (r, rr) = true.
Proof.
  unfold generate_new_free_proxy.
  destruct (alookup failed (st_proxies s)) as [fr|]; [|discriminate].
  destruct (alookup (pr_host fr) (build_link_table s)) as [peers|]; [|discriminate].
  destruct (flat_map _ _) as [|c0 cr]; [discriminate|].
  destruct choice as [r0|]; [|discriminate].
  destruct (alookup r0 (st_proxies s)) as [rr|] eqn:L; [|discriminate].
  destruct (negb (is_free s (r0, rr))) eqn:F; [discriminate|].
  destruct (alookup (pr_host rr) (c0 :: cr)); [|discriminate].
  destruct (forallb _ _); [|discriminate].
  intros H. inversion H; subst r0. exists rr. split; [exact L|]. apply negb_false_iff in F. exact F.
Qed.

Lemma replace_failed_proxy_inv s failed choice : acct_inv s -> acct_inv (fst (replace_failed_proxy s failed choice)).
Proof.
  intros H. unfold replace_failed_proxy.
  destruct (alookup failed (st_proxies s)) as [fr|] eqn:Lf; [|exact H].
  destruct (pr_cluster fr) as [name|] eqn:Cf; [|exact H].
  set (s1 := bump s). assert (H1 : acct_inv s1) by (apply acct_inv_bump; exact H).
  destruct (alookup name (st_clusters s1)) as [cl|] eqn:L; [|exact H1].
  set (s2 := with_clusters s1 _).
  assert (H2 : acct_inv s2).
  { eapply acct_inv_replace_cluster; [exact H1|exact L|apply takeover_master_skel|reflexivity|reflexivity]. }
  destruct (st_ordered s2); [cbn [fst]; apply acct_inv_bump; exact H2|].
  set (s3 := with_failed s2 _). assert (H3 : acct_inv s3) by exact H2.
  destruct (generate_new_free_proxy s3 failed choice) as [r|?|] eqn:G; [|exact H3|exact H3].
  destruct (alookup name (st_clusters (bump s3))) as [cl2|] eqn:L2; [|cbn [fst]; apply acct_inv_bump; exact H3].
  cbn [fst]. apply generate_new_free_proxy_done in G. destruct G as (rr & Lr & Fr).
  rewrite (res_or_default_found s3 r rr Lr).
  unfold acct_inv. cbn [with_clusters with_proxies st_proxies st_clusters].
  eapply acct_replace; [exact H3|exact L2|exact Lf|exact Cf|exact Lr|eapply is_free_untagged; eauto].
Qed.

Lemma balance_masters_inv s name : acct_inv s -> acct_inv (fst (balance_masters s name)).
Proof.
  intros H. unfold balance_masters. destruct (alookup name (st_clusters s)) as [cl|] eqn:L; [|exact H].
  cbn [fst]. apply acct_inv_bump. eapply acct_inv_replace_cluster; [exact H|exact L| |reflexivity|reflexivity].
  unfold cl_skel at 1. cbn [cl_chunks]. apply map_map_same. intros x. destruct (_ || _); reflexivity.
Qed.

Lemma change_config_inv s name v cfg : acct_inv s -> acct_inv (fst (change_config s name v cfg)).
Proof.
  intros H. unfold change_config. destruct (alookup name (st_clusters s)) as [cl|] eqn:L; [|exact H].
  destruct (cluster_is_migrating cl); [exact H|]. destruct (negb v); [exact H|].
  cbn [fst]. apply acct_inv_bump. eapply acct_inv_replace_cluster; [exact H|exact L| |reflexivity|reflexivity]. reflexivity.
Qed.

Lemma set_all_cluster_epochs_inv s e : acct_inv s -> acct_inv (set_all_cluster_epochs s e).
Proof.
  intros H. unfold set_all_cluster_epochs, acct_inv. cbn [with_clusters with_epoch st_proxies st_clusters].
  apply (acct_map_clusters _ _ (fun nc => set_cl_epoch (snd nc) e)); [reflexivity|exact H].
Qed.

Lemma force_bump_all_epoch_inv s e : acct_inv s -> acct_inv (fst (force_bump_all_epoch s e)).
Proof. intros H. unfold force_bump_all_epoch. destruct (N.leb e (st_epoch s)); [exact H|]. apply set_all_cluster_epochs_inv. exact H. Qed.

Lemma recover_epoch_inv s e : acct_inv s -> acct_inv (recover_epoch s e).
Proof. apply set_all_cluster_epochs_inv. Qed.

Lemma restore_inv s other : acct_inv s -> acct_inv other -> acct_inv (fst (restore s other)).
Proof. intros H Ho. unfold restore. destruct (N.ltb _ _); assumption. Qed.

Lemma auto_change_node_number_inv s name k ch : acct_inv s -> acct_inv (fst (auto_change_node_number s name k ch)).
Proof.
  intros H. unfold auto_change_node_number. destruct (alookup name (st_clusters s)) as [cl|]; [|exact H].
  destruct (cluster_is_migrating cl); [exact H|].
  pose proof (auto_delete_free_nodes_inv s name H) as H1.
  destruct (auto_delete_free_nodes s name) as [s1 r1]. cbn [fst] in H1.
  assert (G : forall (cont : store * outcome scale_op),
             cont = match alookup name (st_clusters s1) with
                    | None => (s1, Fail E_ClusterNotFound)
                    | Some cl1 =>
                      if N.eqb (4 * N.of_nat (length (cl_chunks cl1))) k then (s1, Done NoOp)
                      else if N.ltb (4 * N.of_nat (length (cl_chunks cl1))) k then
                        match auto_scale_up_nodes s1 name k ch with
                        | (s2, Done _) => (s2, Done ScaleOut) | (s2, Fail e) => (s2, Fail e) | (s2, Panic) => (s2, Panic) end
                      else
                        match migrate_slots_to_scale_down s1 name k with
                        | (s2, Done _) => (s2, Done ScaleDown) | (s2, Fail e) => (s2, Fail e) | (s2, Panic) => (s2, Panic) end
                    end -> acct_inv (fst cont)).
  { intros cont ->. destruct (alookup name (st_clusters s1)) as [cl1|]; [|exact H1].
    destruct (N.eqb _ k); [exact H1|]. destruct (N.ltb _ k).
    - pose proof (auto_scale_up_nodes_inv s1 name k ch H1) as G. destruct (auto_scale_up_nodes s1 name k ch) as [s2 [?|?|]]; exact G.
    - pose proof (migrate_slots_to_scale_down_inv s1 name k H1) as G. destruct (migrate_slots_to_scale_down s1 name k) as [s2 [?|?|]]; exact G. }
  destruct r1 as [?|e|]; [apply G; reflexivity| |exact H1].
  destruct e; try exact H1. apply G; reflexivity.
Qed.

Lemma auto_scale_out_node_number_inv s name k : acct_inv s -> acct_inv (fst (auto_scale_out_node_number s name k)).
Proof.
  intros H. unfold auto_scale_out_node_number. destruct (alookup name (st_clusters s)) as [cl|]; [|exact H].
  destruct (N.ltb _ _); [apply migrate_slots_inv; exact H|exact H].
Qed.

Lemma lift_unit_fst r : fst (lift_unit r) = fst r.
Proof. destruct r as [s [?|?|]]; reflexivity. Qed.

(* snapshots handed to ORestore must satisfy the invariant themselves *)
Definition restore_ok (o : op) : Prop := match o with ORestore snap => acct_inv snap | _ => True end.

Lemma step_inv s o : acct_inv s -> restore_ok o -> acct_inv (fst (step s o)).
Proof.
  intros H Ho. destruct o; cbn [step]; rewrite ?lift_unit_fst.
  - apply add_proxy_inv; exact H.
  - apply remove_proxy_inv; exact H.
  - apply add_cluster_inv; exact H.
  - apply remove_cluster_inv; exact H.
  - apply auto_add_nodes_inv; exact H.
  - apply auto_scale_up_nodes_inv; exact H.
  - apply auto_delete_free_nodes_inv; exact H.
  - apply migrate_slots_inv; exact H.
  - apply migrate_slots_to_scale_down_inv; exact H.
  - apply commit_migration_api_inv; exact H.
  - destruct (nth_out_entry s name j); rewrite lift_unit_fst; apply commit_migration_api_inv; exact H.
  - pose proof (auto_change_node_number_inv s name expected choices H) as G.
    destruct (auto_change_node_number s name expected choices) as [s' [?|?|]]; exact G.
  - apply auto_scale_out_node_number_inv; exact H.
  - pose proof (replace_failed_proxy_inv s addr choice H) as G.
    destruct (replace_failed_proxy s addr choice) as [s' [?|?|]]; exact G.
  - apply balance_masters_inv; exact H.
  - apply change_config_inv; exact H.
  - pose proof (add_failure_inv s addr reporter now H) as G. destruct (add_failure s addr reporter now); exact G.
  - pose proof (get_failures_inv s now ttl quorum H) as G. destruct (get_failures s now ttl quorum); exact G.
  - pose proof (cleanup_failures_inv s now ttl quorum H) as G. destruct (cleanup_failures s now ttl quorum); exact G.
  - apply force_bump_all_epoch_inv; exact H.
  - cbn [fst]. apply recover_epoch_inv; exact H.
  - apply restore_inv; [exact H|exact Ho].
Qed.

Lemma init_inv b : acct_inv (init_store b).
Proof.
  unfold acct_inv, init_store, acct. cbn. split; [exact I|]. split; [exact I|]. split; intros; discriminate.
Qed.

Lemma run_inv ops : forall s, acct_inv s -> Forall restore_ok ops -> acct_inv (run s ops).
Proof.
  unfold run. induction ops as [|o ops IH]; intros s H Hf; cbn [fold_left]; [exact H|].
  inversion Hf; subst. apply IH; [apply step_inv; assumption|assumption].
Qed.

(* reachable stores: any history from an empty store in which every restored snapshot satisfies the invariant *)
Definition reachable (s : store) : Prop :=
  exists ordered ops, Forall restore_ok ops /\ s = run (init_store ordered) ops.

Lemma reachable_inv s : reachable s -> acct_inv s.
Proof. intros (b & ops & Hf & ->). apply run_inv; [apply init_inv|exact Hf]. Qed.

(* the self-contained variant: restored snapshots are themselves reachable stores *)
Inductive reachable_closed : store -> Prop :=
| rc_init b : reachable_closed (init_store b)
| rc_step s o : reachable_closed s -> (forall snap, o = ORestore snap -> reachable_closed snap) ->
                reachable_closed (fst (step s o)).

Lemma reachable_closed_inv s : reachable_closed s -> acct_inv s.
Proof.
  induction 1 as [b|s o Hs IHs Hsnap IHsnap]; [apply init_inv|].
  apply step_inv; [exact IHs|]. destruct o; cbn [restore_ok]; auto.
Qed.

(* ---------- check_metadata follows from the invariant ---------- *)
Lemma nodup_fix_true (l : list N) : NoDup l ->
  (fix nodup (l : list N) : bool := match l with [] => true | x :: l' => negb (smem x l') && nodup l' end) l = true.
Proof.
  induction 1 as [|x l Hn Hd IH]; [reflexivity|]. apply smem_false_In in Hn. rewrite Hn, IH. reflexivity.
Qed.

Lemma check_metadata_of_inv s : acct_inv s -> check_metadata s = true.
Proof.
  intros (Hps & Hcs & Hok & Hback). unfold check_metadata. apply andb_true_iff. split.
  - apply forallb_forall. intros [name cl] Hin. cbn [fst snd].
    apply In_alookup_sorted in Hin; [|exact Hcs]. destruct (Hok _ _ Hin) as [HF Hnd].
    apply andb_true_iff. split; [|apply nodup_fix_true; exact Hnd].
    apply forallb_forall. intros c Hc. rewrite Forall_forall in HF. destruct (HF _ Hc) as [(r0 & L0 & C0 & E0 & E1 & E2) (r1 & L1 & C1 & F0 & F1 & F2)].
    rewrite L0, L1, C0, C1, E0, E1, E2, F0, F1, F2, !N.eqb_refl. reflexivity.
  - apply forallb_forall. intros [a r] Hin. cbn [fst snd].
    destruct (pr_cluster r) as [name|] eqn:C; [|reflexivity].
    apply In_alookup_sorted in Hin; [|exact Hps]. destruct (Hback _ _ _ Hin C) as (cl & L & Ha).
    rewrite L. apply smem_In. exact Ha.
Qed.

(* ---------- the accounting theorem ---------- *)
Lemma reachable_accounting s : reachable s ->
  acct_inv s /\ NoDup (all_positions (st_clusters s)) /\ check_metadata s = true.
Proof.
  intros H. apply reachable_inv in H. split; [exact H|]. split; [eapply all_positions_NoDup; exact H|apply check_metadata_of_inv; exact H].
Qed.

Lemma reachable_closed_accounting s : reachable_closed s -> acct_inv s /\ check_metadata s = true.
Proof. intros H. apply reachable_closed_inv in H. split; [exact H|apply check_metadata_of_inv; exact H]. Qed.

Lemma accounting_explicit ordered ops : Forall restore_ok ops ->
  let s := run (init_store ordered) ops in
  (forall name cl c, alookup name (st_clusters s) = Some cl -> In c (cl_chunks cl) ->
     (exists r, alookup (ck_proxy0 c) (st_proxies s) = Some r /\ pr_cluster r = Some name /\
                pr_host r = ck_host0 c /\ pr_n0 r = ck_n0 c /\ pr_n1 r = ck_n1 c) /\
     (exists r, alookup (ck_proxy1 c) (st_proxies s) = Some r /\ pr_cluster r = Some name /\
                pr_host r = ck_host1 c /\ pr_n0 r = ck_n2 c /\ pr_n1 r = ck_n3 c)) /\
  (forall a r name, alookup a (st_proxies s) = Some r -> pr_cluster r = Some name ->
     exists cl, alookup name (st_clusters s) = Some cl /\ In a (cluster_proxies cl)) /\
  NoDup (flat_map (fun nc => flat_map (fun c => [ck_proxy0 c; ck_proxy1 c]) (cl_chunks (snd nc))) (st_clusters s)) /\
  check_metadata s = true.
Proof.
  intros Hf s. assert (H : acct_inv s) by (apply run_inv; [apply init_inv|exact Hf]).
  split; [|split; [apply H|split; [exact (all_positions_NoDup _ _ H)|apply check_metadata_of_inv; exact H]]].
  intros name cl c L Hc. destruct H as (_ & _ & Hok & _). destruct (Hok _ _ L) as [HF _].
  rewrite Forall_forall in HF. exact (HF _ Hc).
Qed.

(* membership and the untagged pool are exact complements *)
Lemma free_complement s a r : acct_inv s -> alookup a (st_proxies s) = Some r ->
  (pr_cluster r = None <-> ~ In a (all_positions (st_clusters s))).
Proof.
  intros (Hps & Hcs & Hok & Hback) L. split.
  - intros Hn Hin. unfold all_positions in Hin. apply in_flat_map in Hin. destruct Hin as ([n cl] & Hc & Ha). cbn [snd] in Ha.
    apply In_alookup_sorted in Hc; [|exact Hcs].
    destruct (in_cluster_tagged _ _ _ _ (Hok _ _ Hc) Ha) as (r' & L' & C'). congruence.
  - intros Hn. destruct (pr_cluster r) as [n|] eqn:C; [|reflexivity]. exfalso. apply Hn.
    destruct (Hback _ _ _ L C) as (cl & Lc & Hin). unfold all_positions. apply in_flat_map. exists (n, cl).
    split; [apply alookup_In; exact Lc|exact Hin].
Qed.

Lemma positions_registered s a : acct_inv s -> In a (all_positions (st_clusters s)) -> amem a (st_proxies s) = true.
Proof.
  intros (Hps & Hcs & Hok & Hback) Hin. unfold all_positions in Hin. apply in_flat_map in Hin.
  destruct Hin as ([n cl] & Hc & Ha). cbn [snd] in Ha. apply In_alookup_sorted in Hc; [|exact Hcs].
  destruct (in_cluster_tagged _ _ _ _ (Hok _ _ Hc) Ha) as (r' & L' & C'). apply amem_alookup. eauto.
Qed.

Lemma reachable_complement s : reachable s ->
  (forall a, In a (all_positions (st_clusters s)) -> amem a (st_proxies s) = true) /\
  (forall a r, alookup a (st_proxies s) = Some r -> (pr_cluster r = None <-> ~ In a (all_positions (st_clusters s)))) /\
  (forall e, In e (free_proxies s) -> ~ In (fst e) (all_positions (st_clusters s))).
Proof.
  intros H. apply reachable_inv in H. split; [intros a; apply positions_registered; exact H|].
  split; [intros a r; apply free_complement; exact H|].
  intros [a r] Hin. unfold free_proxies in Hin. apply filter_In in Hin. destruct Hin as [Hin Hf].
  apply is_free_untagged in Hf. cbn [fst]. apply (free_complement s a r H); [|exact Hf].
  apply In_alookup_sorted; [apply H|exact Hin].
Qed.

Lemma reachable_closed_run ops : forall s,
  reachable_closed s -> Forall (fun o => forall snap, o = ORestore snap -> reachable_closed snap) ops ->
  reachable_closed (run s ops).
Proof.
  unfold run. induction ops as [|o ops IH]; intros s H Hf; cbn [fold_left]; [exact H|].
  inversion Hf; subst. apply IH; [apply rc_step; assumption|assumption].
Qed.

Definition not_restore (o : op) : bool := match o with ORestore _ => false | _ => true end.
Lemma no_restore_closed ops :
  forallb not_restore ops = true -> Forall (fun o => forall snap, o = ORestore snap -> reachable_closed snap) ops.
Proof.
  intros H. apply Forall_forall. intros o Hin snap E. rewrite forallb_forall in H. specialize (H _ Hin). subst o. discriminate.
Qed.

Lemma restore_inj a b : ORestore a = ORestore b -> a = b.
Proof. intros H. inversion H. reflexivity. Qed.
