(* C15, part B: the RESP grammar (pure and index-annotated); soundness and completeness of parse_resp with respect
   to it; resolution of the index tree against the kept bytes; the encoder produces grammatical text;
   no UnexpectedErr / out-of-fuel; stability of every result but NotEnoughData under extension of the buffer. *)
From UM Require Import Base.BytesDef Base.Dec Base.RespT Model.Resp Proofs.RespProofsA.
From Coq Require Import ZifyBool ZifyNat ZifyN.

(* ---------- the RESP grammar as the decoder should accept it ----------
   line payloads contain no LF and end with CR LF; a length is whatever btoi::<i64> accepts (optional sign, digits);
   any negative length is nil; a bulk payload of the declared length is followed by CR LF; an array has exactly the
   declared number of elements. *)
Inductive gram : resp -> bytes -> Prop :=
| G_simple s : no_lf s = true -> gram (Simple s) (c_plus :: s ++ [c_CR; c_LF])
| G_error s : no_lf s = true -> gram (Error s) (c_minus :: s ++ [c_CR; c_LF])
| G_integer s : no_lf s = true -> gram (Integer s) (c_colon :: s ++ [c_CR; c_LF])
| G_bulk num s : btoi_i64 num = Some (Z.of_nat (length s)) ->
    gram (Bulk s) (c_dollar :: num ++ [c_CR; c_LF] ++ s ++ [c_CR; c_LF])
| G_bulknil num z : btoi_i64 num = Some z -> (z < 0)%Z -> gram BulkNil (c_dollar :: num ++ [c_CR; c_LF])
| G_arr num vs es : btoi_i64 num = Some (Z.of_nat (length vs)) -> grams vs es ->
    gram (Arr vs) (c_star :: num ++ [c_CR; c_LF] ++ es)
| G_arrnil num z : btoi_i64 num = Some z -> (z < 0)%Z -> gram ArrNil (c_star :: num ++ [c_CR; c_LF])
with grams : list resp -> bytes -> Prop :=
| GS_nil : grams [] []
| GS_cons v e vs es : gram v e -> grams vs es -> grams (v :: vs) (e ++ es).

(* the same grammar annotated with the index tree the parser builds and the nesting budget it needs *)
Inductive gramx : nat -> resp -> iresp -> bytes -> Prop :=
| GX_simple rem s : no_lf s = true ->
    gramx rem (Simple s) (ISimple (dadvance 1 (O, length s))) (c_plus :: s ++ [c_CR; c_LF])
| GX_error rem s : no_lf s = true ->
    gramx rem (Error s) (IError (dadvance 1 (O, length s))) (c_minus :: s ++ [c_CR; c_LF])
| GX_integer rem s : no_lf s = true ->
    gramx rem (Integer s) (IInteger (dadvance 1 (O, length s))) (c_colon :: s ++ [c_CR; c_LF])
| GX_bulk rem num s : btoi_i64 num = Some (Z.of_nat (length s)) ->
    gramx rem (Bulk s) (iadvance 1 (IBulk (length num + 2, length num + 2 + length s)%nat))
          (c_dollar :: num ++ [c_CR; c_LF] ++ s ++ [c_CR; c_LF])
| GX_bulknil rem num z : btoi_i64 num = Some z -> (z < 0)%Z ->
    gramx rem BulkNil (iadvance 1 IBulkNil) (c_dollar :: num ++ [c_CR; c_LF])
| GX_arr rem num vs ixs es : btoi_i64 num = Some (Z.of_nat (length vs)) ->
    gramxs rem vs (length num + 2)%nat ixs es ->
    gramx (S rem) (Arr vs) (iadvance 1 (IArr ixs)) (c_star :: num ++ [c_CR; c_LF] ++ es)
| GX_arrnil rem num z : btoi_i64 num = Some z -> (z < 0)%Z ->
    gramx (S rem) ArrNil (iadvance 1 IArrNil) (c_star :: num ++ [c_CR; c_LF])
with gramxs : nat -> list resp -> nat -> list iresp -> bytes -> Prop :=
| GXS_nil rem off : gramxs rem [] off [] []
| GXS_cons rem v ix e vs off ixs es : gramx rem v ix e -> gramxs rem vs (off + length e)%nat ixs es ->
    gramxs rem (v :: vs) off (iadvance off ix :: ixs) (e ++ es).

Ltac lens := repeat (progress cbn [length] || rewrite app_length); try lia.

Scheme gramx_mut := Minimality for gramx Sort Prop
  with gramxs_mut := Minimality for gramxs Sort Prop.
Combined Scheme gramx_mutind from gramx_mut, gramxs_mut.

Lemma gramx_gram :
  (forall rem v ix e, gramx rem v ix e -> gram v e) /\
  (forall rem vs off ixs es, gramxs rem vs off ixs es -> grams vs es).
Proof.
  apply gramx_mutind; intros; try (econstructor; eauto; fail).
Qed.

Lemma gramx_nonempty : forall rem v ix e, gramx rem v ix e -> (1 <= length e)%nat.
Proof. intros rem v ix e H. destruct H; cbn [length]; lia. Qed.

(* ---------- (A) soundness: what parse_resp accepts is grammatical, and it consumed exactly that text ---------- *)

Definition pr_sound (rem : nat) (pr : bytes -> pres iresp) : Prop :=
  forall b ix n, pr b = POk ix n -> exists v e rest, b = e ++ rest /\ n = length e /\ gramx rem v ix e.

Lemma parse_elems_sound : forall pr rem, pr_sound rem pr ->
  forall k n buf c ixs c', (c <= length buf)%nat -> parse_elems pr k n buf c = POk ixs c' ->
  exists vs es rest, skipn c buf = es ++ rest /\ c' = (c + length es)%nat /\ gramxs rem vs c ixs es /\
                     N.of_nat (length vs) = n.
Proof.
  intros pr rem Hpr. induction k as [|k IH]; intros n buf c ixs c' Hc H; cbn [parse_elems] in H.
  - destruct (N.eqb n 0) eqn:En; [|discriminate]. inversion H; subst.
    exists [], [], (skipn c' buf). repeat split; cbn [length]; try lia; constructor.
  - destruct (N.eqb n 0) eqn:En.
    + inversion H; subst. exists [], [], (skipn c' buf). repeat split; cbn [length]; try lia; constructor.
    + destruct (length buf <? c)%nat eqn:El; [discriminate|].
      destruct (pr (skipn c buf)) as [v ec| | | |] eqn:Ep; cbn [pbind] in H; try discriminate.
      destruct (Hpr _ _ _ Ep) as (val & e & rest & Hsk & -> & Hg).
      destruct (parse_elems pr k (n - 1) buf (c + length e)) as [vs c2| | | |] eqn:Er; cbn [pbind] in H; try discriminate.
      inversion H; subst.
      assert (Hlen : (length buf - c = length e + length rest)%nat).
      { rewrite <- skipn_length, Hsk, app_length. reflexivity. }
      assert (Hc2 : (c + length e <= length buf)%nat) by lia.
      destruct (IH _ _ _ _ _ Hc2 Er) as (vals & es & rest2 & Hsk2 & -> & Hgs & Hn).
      exists (val :: vals), (e ++ es), rest2. repeat split.
      * rewrite Hsk. rewrite <- app_assoc. f_equal.
        rewrite Nat.add_comm in Hsk2. rewrite <- skipn_skipn in Hsk2. rewrite Hsk in Hsk2.
        rewrite skipn_app_len0 in Hsk2. exact Hsk2.
      * rewrite app_length. lia.
      * constructor; assumption.
      * cbn [length]. lia.
Qed.

Lemma parse_array_sound : forall pr rem, pr_sound rem pr ->
  forall nb v c, parse_array pr nb = POk v c ->
  exists val e rest, c_star :: nb = e ++ rest /\ S c = length e /\ gramx (S rem) val (iadvance 1 v) e.
Proof.
  intros pr rem Hpr nb v c H. unfold parse_array in H.
  destruct (parse_len nb) as [z c0| | | |] eqn:E; cbn [pbind] in H; try discriminate.
  destruct (parse_len_inv _ _ _ E) as (num & r1 & -> & Hb & ->).
  destruct (Z.ltb z 0) eqn:Ez.
  - inversion H; subst. exists ArrNil, (c_star :: num ++ [c_CR; c_LF]), r1. repeat split.
    + cbn [app]. rewrite <- app_assoc. reflexivity.
    + lens.
    + econstructor; eauto. lia.
  - destruct (parse_elems _ _ _ _ _) as [vs c2| | | |] eqn:Er; cbn [pbind] in H; try discriminate.
    inversion H; subst.
    assert (Hc : (length num + 2 <= length (num ++ c_CR :: c_LF :: r1))%nat).
    { rewrite app_length. cbn [length]. lia. }
    destruct (parse_elems_sound pr rem Hpr _ _ _ _ _ _ Hc Er) as (vals & es & rest & Hsk & -> & Hgs & Hn).
    replace (num ++ c_CR :: c_LF :: r1) with ((num ++ [c_CR; c_LF]) ++ r1) in Hsk
      by (rewrite <- app_assoc; reflexivity).
    replace (length num + 2)%nat with (length (num ++ [c_CR; c_LF])) in Hsk
      by (rewrite app_length; reflexivity).
    rewrite skipn_app_len0 in Hsk. subst r1.
    exists (Arr vals), (c_star :: num ++ [c_CR; c_LF] ++ es), rest. repeat split.
    + cbn [app]. rewrite <- !app_assoc. reflexivity.
    + lens.
    + constructor; [|exact Hgs]. rewrite Hb. f_equal. lia.
Qed.

Ltac leaf_sound H pfx :=
  match type of H with
  | pbind (parse_line ?nb) _ = _ =>
    let E := fresh "E" in
    destruct (parse_line nb) as [d c0| | | |] eqn:E; cbn [pbind] in H; try discriminate;
    let s := fresh "s" in let rest := fresh "rest" in let Hs := fresh "Hs" in
    destruct (parse_line_inv _ _ _ E) as (s & rest & -> & Hs & -> & ->);
    inversion H; subst;
    eexists; exists (pfx :: s ++ [c_CR; c_LF]), rest; repeat split;
    [ cbn [app]; rewrite <- app_assoc; reflexivity
    | lens
    | constructor; exact Hs ]
  end.

Lemma parse_resp_leaf_bulk : forall rem nb ix n,
  pbind (parse_bulk_str nb) (fun v consumed => POk (iadvance 1 v) (1 + consumed)%nat) = POk ix n ->
  exists v e rest, c_dollar :: nb = e ++ rest /\ n = length e /\ gramx rem v ix e.
Proof.
  intros rem nb ix n H.
  destruct (parse_bulk_str nb) as [v c| | | |] eqn:E; cbn [pbind] in H; try discriminate.
  inversion H; subst.
  destruct (parse_bulk_inv _ _ _ E) as [(num & z & rest & -> & Hb & Hz & -> & ->)|(num & s & rest & -> & Hb & -> & ->)].
  - exists BulkNil, (c_dollar :: num ++ [c_CR; c_LF]), rest. repeat split.
    + cbn [app]. rewrite <- app_assoc. reflexivity.
    + lens.
    + econstructor; eauto.
  - exists (Bulk s), (c_dollar :: num ++ [c_CR; c_LF] ++ s ++ [c_CR; c_LF]), rest. repeat split.
    + cbn [app]. rewrite <- !app_assoc. cbn [app]. rewrite <- !app_assoc. reflexivity.
    + lens.
    + constructor. exact Hb.
Qed.

Lemma parse_resp_sound : forall rem, pr_sound rem (parse_resp rem).
Proof.
  induction rem as [|rem IH]; intros b ix n H; (destruct b as [|p nb]; [discriminate|]); cbn [parse_resp] in H.
  - destruct (N.eqb p c_dollar) eqn:E1.
    { apply N.eqb_eq in E1. subst p. apply parse_resp_leaf_bulk. exact H. }
    destruct (N.eqb p c_plus) eqn:E2. { apply N.eqb_eq in E2. subst p. leaf_sound H c_plus. }
    destruct (N.eqb p c_colon) eqn:E3. { apply N.eqb_eq in E3. subst p. leaf_sound H c_colon. }
    destruct (N.eqb p c_minus) eqn:E4. { apply N.eqb_eq in E4. subst p. leaf_sound H c_minus. }
    destruct (N.eqb p c_star); discriminate.
  - destruct (N.eqb p c_dollar) eqn:E1.
    { apply N.eqb_eq in E1. subst p. apply parse_resp_leaf_bulk. exact H. }
    destruct (N.eqb p c_plus) eqn:E2. { apply N.eqb_eq in E2. subst p. leaf_sound H c_plus. }
    destruct (N.eqb p c_colon) eqn:E3. { apply N.eqb_eq in E3. subst p. leaf_sound H c_colon. }
    destruct (N.eqb p c_minus) eqn:E4. { apply N.eqb_eq in E4. subst p. leaf_sound H c_minus. }
    destruct (N.eqb p c_star) eqn:E5; [|discriminate]. apply N.eqb_eq in E5. subst p.
    destruct (parse_array (parse_resp rem) nb) as [v c| | | |] eqn:E; cbn [pbind] in H; try discriminate.
    inversion H; subst.
    destruct (parse_array_sound _ _ IH _ _ _ E) as (val & e & rest & He & Hl & Hg).
    exists val, e, rest. repeat split; auto.
Qed.

Lemma parse_resp_bounds : forall rem b ix n, parse_resp rem b = POk ix n -> (1 <= n <= length b)%nat.
Proof.
  intros rem b ix n H. destruct (parse_resp_sound rem _ _ _ H) as (v & e & rest & -> & -> & Hg).
  pose proof (gramx_nonempty _ _ _ _ Hg). rewrite app_length. lia.
Qed.

(* ---------- (B) completeness: grammatical text followed by anything parses to exactly that text ---------- *)

Lemma eqb_consts :
  N.eqb c_plus c_dollar = false /\ N.eqb c_colon c_dollar = false /\ N.eqb c_colon c_plus = false /\
  N.eqb c_minus c_dollar = false /\ N.eqb c_minus c_plus = false /\ N.eqb c_minus c_colon = false /\
  N.eqb c_star c_dollar = false /\ N.eqb c_star c_plus = false /\ N.eqb c_star c_colon = false /\
  N.eqb c_star c_minus = false.
Proof. repeat split; reflexivity. Qed.

Ltac prefix_consts :=
  destruct eqb_consts as (K1 & K2 & K3 & K4 & K5 & K6 & K7 & K8 & K9 & K10);
  rewrite ?N.eqb_refl, ?K1, ?K2, ?K3, ?K4, ?K5, ?K6, ?K7, ?K8, ?K9, ?K10.

Lemma parse_complete :
  (forall rem v ix e, gramx rem v ix e ->
     forall rest, parse_resp rem (e ++ rest) = POk ix (length e)) /\
  (forall rem vs off ixs es, gramxs rem vs off ixs es ->
     (length vs <= length es)%nat /\
     forall pre rest k, length pre = off -> (length vs <= k)%nat ->
       parse_elems (parse_resp rem) k (N.of_nat (length vs)) (pre ++ es ++ rest) off = POk ixs (off + length es)%nat).
Proof.
  apply gramx_mutind.
  - (* simple *) intros rem s Hs rest. destruct rem; cbn [app parse_resp]; prefix_consts;
      rewrite <- app_assoc; cbn [app]; rewrite parse_line_complete by exact Hs; cbn [pbind];
      f_equal; lens.
  - (* error *) intros rem s Hs rest. destruct rem; cbn [app parse_resp]; prefix_consts;
      rewrite <- app_assoc; cbn [app]; rewrite parse_line_complete by exact Hs; cbn [pbind];
      f_equal; lens.
  - (* integer *) intros rem s Hs rest. destruct rem; cbn [app parse_resp]; prefix_consts;
      rewrite <- app_assoc; cbn [app]; rewrite parse_line_complete by exact Hs; cbn [pbind];
      f_equal; lens.
  - (* bulk *) intros rem num s Hb rest.
    assert (Hx : (c_dollar :: num ++ [c_CR; c_LF] ++ s ++ [c_CR; c_LF]) ++ rest
                 = c_dollar :: num ++ c_CR :: c_LF :: s ++ c_CR :: c_LF :: rest).
    { cbn [app]. rewrite <- !app_assoc. cbn [app]. rewrite <- !app_assoc. reflexivity. }
    rewrite Hx. destruct rem; cbn [parse_resp]; prefix_consts; rewrite (parse_bulk_complete _ _ _ Hb); cbn [pbind];
      f_equal; lens.
  - (* bulk nil *) intros rem num z Hb Hz rest.
    assert (Hx : (c_dollar :: num ++ [c_CR; c_LF]) ++ rest = c_dollar :: num ++ c_CR :: c_LF :: rest).
    { cbn [app]. rewrite <- !app_assoc. reflexivity. }
    rewrite Hx. destruct rem; cbn [parse_resp]; prefix_consts; rewrite (parse_bulk_complete_nil _ _ _ Hb Hz); cbn [pbind];
      f_equal; lens.
  - (* array *) intros rem num vs ixs es Hb Hgs [Hlen IH] rest.
    assert (Hx : (c_star :: num ++ [c_CR; c_LF] ++ es) ++ rest = c_star :: num ++ c_CR :: c_LF :: es ++ rest).
    { cbn [app]. rewrite <- !app_assoc. reflexivity. }
    rewrite Hx. cbn [parse_resp]. prefix_consts. unfold parse_array.
    rewrite (parse_len_complete _ _ _ Hb). cbn [pbind].
    destruct (Z.ltb (Z.of_nat (length vs)) 0) eqn:Ez; [lia|].
    replace (Z.to_N (Z.of_nat (length vs))) with (N.of_nat (length vs)) by lia.
    replace (num ++ c_CR :: c_LF :: es ++ rest) with ((num ++ [c_CR; c_LF]) ++ es ++ rest)
      by (rewrite <- app_assoc; reflexivity).
    rewrite (IH (num ++ [c_CR; c_LF]) rest).
    + cbn [pbind]. f_equal. lens.
    + rewrite app_length. reflexivity.
    + rewrite !app_length. lia.
  - (* array nil *) intros rem num z Hb Hz rest.
    assert (Hx : (c_star :: num ++ [c_CR; c_LF]) ++ rest = c_star :: num ++ c_CR :: c_LF :: rest).
    { cbn [app]. rewrite <- !app_assoc. reflexivity. }
    rewrite Hx. cbn [parse_resp]. prefix_consts. unfold parse_array.
    rewrite (parse_len_complete _ _ _ Hb). cbn [pbind].
    destruct (Z.ltb z 0) eqn:Ez; [|lia]. cbn [pbind].
    f_equal. lens.
  - (* nil list *) intros rem off. split; [cbn [length]; lia|]. intros pre rest k Hp Hk.
    destruct k; cbn [parse_elems length]; replace (N.eqb (N.of_nat 0) 0) with true by reflexivity;
      f_equal; lia.
  - (* cons *) intros rem v ix e vs off ixs es Hg IHg Hgs [Hlen IHs]. split.
    { pose proof (gramx_nonempty _ _ _ _ Hg). cbn [length]. rewrite app_length. lia. }
    intros pre rest k Hp Hk. cbn [length] in Hk. destruct k as [|k]; [lia|].
    cbn [parse_elems]. destruct (N.eqb (N.of_nat (length (v :: vs))) 0) eqn:En; [cbn [length] in En; lia|].
    destruct (length (pre ++ (e ++ es) ++ rest) <? off)%nat eqn:El.
    { rewrite app_length in El. lia. }
    subst off. rewrite skipn_app_len0. rewrite <- app_assoc. rewrite IHg. cbn [pbind].
    replace (N.of_nat (length (v :: vs)) - 1) with (N.of_nat (length vs)) by (cbn [length]; lia).
    replace (pre ++ e ++ es ++ rest) with ((pre ++ e) ++ es ++ rest) by (rewrite <- app_assoc; reflexivity).
    rewrite (IHs (pre ++ e) rest k); [|rewrite app_length; reflexivity|lia].
    cbn [pbind]. rewrite !app_length. f_equal. lia.
Qed.

Lemma parse_resp_complete : forall rem v ix e rest, gramx rem v ix e ->
  parse_resp rem (e ++ rest) = POk ix (length e).
Proof. intros rem v ix e rest H. apply (proj1 parse_complete rem v ix e H). Qed.

(* ---------- (C) the index tree resolves, against the consumed text (followed by anything), to the value ---------- *)

Lemma slice_advance : forall data k s e, (k <= length data)%nat ->
  slice data (s + k) (e + k) = slice (skipn k data) s e.
Proof.
  intros data k s e Hk. unfold slice. rewrite skipn_length.
  destruct ((s <=? e)%nat && (e <=? length data - k)%nat) eqn:E1;
    destruct ((s + k <=? e + k)%nat && (e + k <=? length data)%nat) eqn:E2; try lia; [|reflexivity].
  rewrite skipn_skipn. replace (e + k - (s + k))%nat with (e - s)%nat by lia. reflexivity.
Qed.

Lemma resolve_advance : forall data k, (k <= length data)%nat ->
  forall ix, resolve data (iadvance k ix) = resolve (skipn k data) ix.
Proof.
  intros data k Hk. induction ix as [d|d|d|d| |l IH| ] using iresp_ind';
    cbn [iadvance resolve dadvance fst snd]; try (rewrite slice_advance by exact Hk; reflexivity); try reflexivity.
  f_equal. f_equal. rewrite map_map. induction IH as [|x t Hx Ht IHt]; cbn [map]; [reflexivity|].
  rewrite Hx, IHt. reflexivity.
Qed.

Lemma resolve_leaf : forall p s rest,
  slice (p :: s ++ [c_CR; c_LF] ++ rest) (fst (dadvance 1 (O, length s))) (snd (dadvance 1 (O, length s))) = Some s.
Proof.
  intros p s rest. cbn [dadvance fst snd]. change (p :: s ++ [c_CR; c_LF] ++ rest) with ([p] ++ s ++ [c_CR; c_LF] ++ rest).
  replace (0 + 1)%nat with (length [p]) by reflexivity.
  replace (length s + 1)%nat with (length [p] + length s)%nat by (cbn [length]; lia).
  apply slice_mid.
Qed.

Lemma resolve_complete :
  (forall rem v ix e, gramx rem v ix e -> forall rest, resolve (e ++ rest) ix = Some v) /\
  (forall rem vs off ixs es, gramxs rem vs off ixs es ->
     forall pre rest, length pre = off -> opt_all (map (resolve (pre ++ es ++ rest)) ixs) = Some vs).
Proof.
  apply gramx_mutind.
  - intros rem s Hs rest. cbn [resolve app]. rewrite <- app_assoc. rewrite resolve_leaf. reflexivity.
  - intros rem s Hs rest. cbn [resolve app]. rewrite <- app_assoc. rewrite resolve_leaf. reflexivity.
  - intros rem s Hs rest. cbn [resolve app]. rewrite <- app_assoc. rewrite resolve_leaf. reflexivity.
  - intros rem num s Hb rest. cbn [iadvance resolve dadvance fst snd].
    replace ((c_dollar :: num ++ [c_CR; c_LF] ++ s ++ [c_CR; c_LF]) ++ rest)
      with ((c_dollar :: num ++ [c_CR; c_LF]) ++ s ++ ([c_CR; c_LF] ++ rest)).
    2:{ cbn [app]. rewrite <- !app_assoc. cbn [app]. rewrite <- !app_assoc. reflexivity. }
    replace (length num + 2 + 1)%nat with (length (c_dollar :: num ++ [c_CR; c_LF]))
      by (lens).
    replace (length num + 2 + length s + 1)%nat with (length (c_dollar :: num ++ [c_CR; c_LF]) + length s)%nat
      by (lens).
    rewrite slice_mid. reflexivity.
  - intros. reflexivity.
  - intros rem num vs ixs es Hb Hgs IH rest.
    rewrite resolve_advance by (cbn [length app]; lia).
    cbn [app skipn resolve].
    replace ((num ++ c_CR :: c_LF :: es) ++ rest) with ((num ++ [c_CR; c_LF]) ++ es ++ rest)
      by (rewrite <- !app_assoc; reflexivity).
    rewrite (IH (num ++ [c_CR; c_LF]) rest) by (rewrite app_length; reflexivity). reflexivity.
  - intros. reflexivity.
  - intros. reflexivity.
  - intros rem v ix e vs off ixs es Hg IHg Hgs IHs pre rest Hp. cbn [map opt_all].
    rewrite resolve_advance by (rewrite app_length; lia).
    subst off. rewrite skipn_app_len0. rewrite <- app_assoc. rewrite IHg.
    replace (pre ++ e ++ es ++ rest) with ((pre ++ e) ++ es ++ rest) by (rewrite <- app_assoc; reflexivity).
    rewrite (IHs (pre ++ e) rest) by (rewrite app_length; reflexivity). reflexivity.
Qed.

(* ---------- (D) the encoder emits grammatical text for well-formed values within the nesting budget ---------- *)

Lemma rdepth_arr_cons : forall x t r, (rdepth (Arr (x :: t)) <= S r)%nat ->
  (rdepth x <= r)%nat /\ (rdepth (Arr t) <= S r)%nat.
Proof. intros x t r H. cbn [rdepth fold_right] in *. lia. Qed.

Lemma encode_elems_gramx : forall rem l, Forall (fun v => wf v = true -> (rdepth v <= rem)%nat ->
                                                  exists ix, gramx rem v ix (encode v)) l ->
  forallb wf l = true -> (rdepth (Arr l) <= S rem)%nat ->
  forall off, exists ixs, gramxs rem l off ixs (flat_map encode l).
Proof.
  intros rem l HF. induction HF as [|x t Hx Ht IH]; intros Hwf Hd off.
  - exists []. constructor.
  - cbn [forallb] in Hwf. apply andb_true_iff in Hwf. destruct Hwf as [Hwx Hwt].
    destruct (rdepth_arr_cons _ _ _ Hd) as [Hdx Hdt].
    destruct (Hx Hwx Hdx) as (ix & Hg).
    destruct (IH Hwt Hdt (off + length (encode x))%nat) as (ixs & Hgs).
    exists (iadvance off ix :: ixs). cbn [flat_map]. constructor; assumption.
Qed.

Lemma encode_gramx : forall v rem, wf v = true -> (rdepth v <= rem)%nat -> exists ix, gramx rem v ix (encode v).
Proof.
  induction v as [s|s|s|s| |l IH| ] using resp_ind'; intros rem Hwf Hd; cbn [wf rdepth encode encode_simple_element] in *.
  - eexists. cbn [app]. unfold CRLF. constructor. exact Hwf.
  - eexists. cbn [app]. unfold CRLF. constructor. exact Hwf.
  - eexists. cbn [app]. unfold CRLF. constructor. exact Hwf.
  - eexists. unfold encode_simple_element, CRLF. cbn [app]. rewrite <- !app_assoc.
    apply (GX_bulk rem (to_dec (N.of_nat (length s))) s).
    rewrite btoi_to_dec by lia. f_equal. lia.
  - eexists. apply (GX_bulknil rem [c_minus; 49] (-1)%Z); [reflexivity|lia].
  - apply andb_true_iff in Hwf. destruct Hwf as [Hlen Hwl].
    destruct rem as [|rem]; [lia|].
    assert (HF : Forall (fun v => wf v = true -> (rdepth v <= rem)%nat -> exists ix, gramx rem v ix (encode v)) l).
    { eapply Forall_impl; [|exact IH]. intros a Ha. apply Ha. }
    destruct (encode_elems_gramx rem l HF Hwl Hd (length (to_dec (N.of_nat (length l))) + 2)%nat) as (ixs & Hgs).
    eexists. unfold encode_simple_element, CRLF. cbn [app]. rewrite <- !app_assoc.
    apply (GX_arr rem (to_dec (N.of_nat (length l))) l ixs); [|exact Hgs].
    rewrite btoi_to_dec by lia. f_equal. lia.
  - destruct rem as [|rem]; [lia|]. eexists. apply (GX_arrnil rem [c_minus; 49] (-1)%Z); [reflexivity|lia].
Qed.

(* ---------- (E) UnexpectedErr and the fuel of the element loop are unreachable ---------- *)

Definition pr_clean (pr : bytes -> pres iresp) : Prop := forall b, pr b <> PUnexpected /\ pr b <> PFuel.
Definition pr_bounded (pr : bytes -> pres iresp) : Prop :=
  forall b ix n, pr b = POk ix n -> (1 <= n <= length b)%nat.

Lemma parse_elems_clean : forall pr, pr_clean pr -> pr_bounded pr ->
  forall k n buf c, (c <= length buf)%nat -> (length buf - c < k)%nat ->
  parse_elems pr k n buf c <> PUnexpected /\ parse_elems pr k n buf c <> PFuel.
Proof.
  intros pr Hc Hb. induction k as [|k IH]; intros n buf c Hle Hk; [lia|]. cbn [parse_elems].
  destruct (N.eqb n 0); [split; discriminate|].
  destruct (length buf <? c)%nat; [split; discriminate|].
  destruct (pr (skipn c buf)) as [v ec| | | |] eqn:Ep; cbn [pbind]; try (split; discriminate).
  - pose proof (Hb _ _ _ Ep) as Hec. rewrite skipn_length in Hec.
    destruct (IH (n - 1) buf (c + ec)%nat ltac:(lia) ltac:(lia)) as [H1 H2].
    destruct (parse_elems pr k (n - 1) buf (c + ec)); cbn [pbind]; split; try discriminate; congruence.
  - exfalso. apply (proj1 (Hc (skipn c buf))). exact Ep.
  - exfalso. apply (proj2 (Hc (skipn c buf))). exact Ep.
Qed.

Lemma parse_array_clean : forall pr, pr_clean pr -> pr_bounded pr ->
  forall b, parse_array pr b <> PUnexpected /\ parse_array pr b <> PFuel.
Proof.
  intros pr Hc Hb b. unfold parse_array.
  destruct (parse_len b) as [z c0| | | |] eqn:E; cbn [pbind]; try (split; discriminate).
  - destruct (Z.ltb z 0); [split; discriminate|].
    destruct (parse_len_inv _ _ _ E) as (num & r1 & -> & _ & ->).
    assert (Hle : (length num + 2 <= length (num ++ c_CR :: c_LF :: r1))%nat)
      by (rewrite app_length; cbn [length]; lia).
    destruct (parse_elems_clean pr Hc Hb (S (length (num ++ c_CR :: c_LF :: r1))) (Z.to_N z) _ _ Hle ltac:(lia)) as [H1 H2].
    destruct (parse_elems _ _ _ _ _); cbn [pbind]; split; try discriminate; congruence.
  - exfalso. apply (proj1 (parse_len_not_bad b)). exact E.
  - exfalso. apply (proj2 (parse_len_not_bad b)). exact E.
Qed.

Lemma parse_resp_clean : forall rem, pr_clean (parse_resp rem).
Proof.
  induction rem as [|rem IH]; intros b; (destruct b as [|p nb]; [split; discriminate|]); cbn [parse_resp].
  - destruct (N.eqb p c_dollar).
    { pose proof (parse_bulk_not_bad nb) as [H1 H2]. destruct (parse_bulk_str nb); cbn [pbind]; split; try discriminate; congruence. }
    destruct (N.eqb p c_plus).
    { pose proof (parse_line_not_bad nb) as [H1 H2]. destruct (parse_line nb); cbn [pbind]; split; try discriminate; congruence. }
    destruct (N.eqb p c_colon).
    { pose proof (parse_line_not_bad nb) as [H1 H2]. destruct (parse_line nb); cbn [pbind]; split; try discriminate; congruence. }
    destruct (N.eqb p c_minus).
    { pose proof (parse_line_not_bad nb) as [H1 H2]. destruct (parse_line nb); cbn [pbind]; split; try discriminate; congruence. }
    destruct (N.eqb p c_star); split; discriminate.
  - destruct (N.eqb p c_dollar).
    { pose proof (parse_bulk_not_bad nb) as [H1 H2]. destruct (parse_bulk_str nb); cbn [pbind]; split; try discriminate; congruence. }
    destruct (N.eqb p c_plus).
    { pose proof (parse_line_not_bad nb) as [H1 H2]. destruct (parse_line nb); cbn [pbind]; split; try discriminate; congruence. }
    destruct (N.eqb p c_colon).
    { pose proof (parse_line_not_bad nb) as [H1 H2]. destruct (parse_line nb); cbn [pbind]; split; try discriminate; congruence. }
    destruct (N.eqb p c_minus).
    { pose proof (parse_line_not_bad nb) as [H1 H2]. destruct (parse_line nb); cbn [pbind]; split; try discriminate; congruence. }
    destruct (N.eqb p c_star); [|split; discriminate].
    pose proof (parse_array_clean (parse_resp rem) IH (parse_resp_bounds rem) nb) as [H1 H2].
    destruct (parse_array (parse_resp rem) nb); cbn [pbind]; split; try discriminate; congruence.
Qed.

(* ---------- stability under extension of the buffer ---------- *)

Lemma parse_resp_ok_stable : forall rem b m ix n, parse_resp rem b = POk ix n -> parse_resp rem (b ++ m) = POk ix n.
Proof.
  intros rem b m ix n H. destruct (parse_resp_sound rem _ _ _ H) as (v & e & rest & -> & -> & Hg).
  rewrite <- app_assoc. apply (parse_resp_complete _ _ _ _ _ Hg).
Qed.

Definition pr_inv_stable (pr : bytes -> pres iresp) : Prop :=
  forall b m, pr b = PInvalid -> pr (b ++ m) = PInvalid.
Definition pr_ok_stable (pr : bytes -> pres iresp) : Prop :=
  forall b m ix n, pr b = POk ix n -> pr (b ++ m) = POk ix n.

Lemma parse_elems_inv_stable : forall pr, pr_inv_stable pr -> pr_ok_stable pr -> pr_bounded pr ->
  forall k k' n b m c, (c <= length b)%nat -> (k <= k')%nat ->
  parse_elems pr k n b c = PInvalid -> parse_elems pr k' n (b ++ m) c = PInvalid.
Proof.
  intros pr Hi Ho Hb. induction k as [|k IH]; intros k' n b m c Hc Hk H; cbn [parse_elems] in H.
  - destruct (N.eqb n 0); discriminate.
  - destruct (N.eqb n 0) eqn:En; [discriminate|]. destruct k' as [|k']; [lia|]. cbn [parse_elems]. rewrite En.
    destruct (length b <? c)%nat eqn:E1; [lia|].
    destruct (length (b ++ m) <? c)%nat eqn:E2; [rewrite app_length in E2; lia|].
    rewrite skipn_app_le by exact Hc.
    destruct (pr (skipn c b)) as [v ec| | | |] eqn:Ep; cbn [pbind] in H; try discriminate.
    + rewrite (Ho _ m _ _ Ep). cbn [pbind].
      pose proof (Hb _ _ _ Ep) as Hec. rewrite skipn_length in Hec.
      destruct (parse_elems pr k (n - 1) b (c + ec)) eqn:Er; cbn [pbind] in H; try discriminate.
      rewrite (IH k' (n - 1) b m (c + ec)%nat ltac:(lia) ltac:(lia) Er). reflexivity.
    + rewrite (Hi _ m Ep). reflexivity.
Qed.

Lemma parse_array_inv_stable : forall pr, pr_inv_stable pr -> pr_ok_stable pr -> pr_bounded pr ->
  forall b m, parse_array pr b = PInvalid -> parse_array pr (b ++ m) = PInvalid.
Proof.
  intros pr Hi Ho Hb b m H. unfold parse_array in *.
  destruct (parse_len b) as [z c0| | | |] eqn:E; cbn [pbind] in H; try discriminate.
  - rewrite (parse_len_stable b m _ E) by discriminate. cbn [pbind].
    destruct (Z.ltb z 0); [discriminate|].
    destruct (parse_len_inv _ _ _ E) as (num & r1 & Hbeq & _ & Hc0).
    assert (Hle : (c0 <= length b)%nat) by (subst b c0; rewrite app_length; cbn [length]; lia).
    destruct (parse_elems pr (S (length b)) (Z.to_N z) b c0) eqn:Er; cbn [pbind] in H; try discriminate.
    assert (Hk : (S (length b) <= S (length (b ++ m)))%nat) by (rewrite app_length; lia).
    rewrite (parse_elems_inv_stable pr Hi Ho Hb _ (S (length (b ++ m))) _ _ m _ Hle Hk Er).
    reflexivity.
  - rewrite (parse_len_stable b m _ E) by discriminate. reflexivity.
Qed.

Lemma parse_resp_inv_stable : forall rem, pr_inv_stable (parse_resp rem).
Proof.
  induction rem as [|rem IH]; intros b m H; (destruct b as [|p nb]; [discriminate|]);
    cbn [app parse_resp] in *.
  - destruct (N.eqb p c_dollar).
    { destruct (parse_bulk_str nb) eqn:E; cbn [pbind] in H; try discriminate.
      rewrite (parse_bulk_stable nb m _ E) by discriminate. reflexivity. }
    destruct (N.eqb p c_plus).
    { destruct (parse_line nb) eqn:E; cbn [pbind] in H; try discriminate.
      rewrite (parse_line_stable nb m _ E) by discriminate. reflexivity. }
    destruct (N.eqb p c_colon).
    { destruct (parse_line nb) eqn:E; cbn [pbind] in H; try discriminate.
      rewrite (parse_line_stable nb m _ E) by discriminate. reflexivity. }
    destruct (N.eqb p c_minus).
    { destruct (parse_line nb) eqn:E; cbn [pbind] in H; try discriminate.
      rewrite (parse_line_stable nb m _ E) by discriminate. reflexivity. }
    destruct (N.eqb p c_star); reflexivity.
  - destruct (N.eqb p c_dollar).
    { destruct (parse_bulk_str nb) eqn:E; cbn [pbind] in H; try discriminate.
      rewrite (parse_bulk_stable nb m _ E) by discriminate. reflexivity. }
    destruct (N.eqb p c_plus).
    { destruct (parse_line nb) eqn:E; cbn [pbind] in H; try discriminate.
      rewrite (parse_line_stable nb m _ E) by discriminate. reflexivity. }
    destruct (N.eqb p c_colon).
    { destruct (parse_line nb) eqn:E; cbn [pbind] in H; try discriminate.
      rewrite (parse_line_stable nb m _ E) by discriminate. reflexivity. }
    destruct (N.eqb p c_minus).
    { destruct (parse_line nb) eqn:E; cbn [pbind] in H; try discriminate.
      rewrite (parse_line_stable nb m _ E) by discriminate. reflexivity. }
    destruct (N.eqb p c_star); [|reflexivity].
    destruct (parse_array (parse_resp rem) nb) eqn:E; cbn [pbind] in H; try discriminate.
    rewrite (parse_array_inv_stable _ IH (parse_resp_ok_stable rem) (parse_resp_bounds rem) nb m E). reflexivity.
Qed.

(* every result but NotEnoughData is final *)
Lemma parse_resp_stable : forall rem b m r, parse_resp rem b = r -> r <> PNeed -> parse_resp rem (b ++ m) = r.
Proof.
  intros rem b m r H Hr. destruct r as [ix n| | | |]; try congruence.
  - apply parse_resp_ok_stable. exact H.
  - apply parse_resp_inv_stable. exact H.
  - exfalso. apply (proj1 (parse_resp_clean rem b)). exact H.
  - exfalso. apply (proj2 (parse_resp_clean rem b)). exact H.
Qed.
