(* The two slot-migration planners of broker/migrate.rs preserve the slot-partition invariant of every cluster
   whenever they do not panic:
     migrate_slots               = remove_slots_from_src               ; assign_dst_slots ; compact_slots   (scale out)
     migrate_slots_to_scale_down = remove_slots_from_src_to_scale_down ; assign_dst_slots ; compact_slots   (scale down)
   Pieces: BrokerPartMigrateOut (remove phase, scale out), BrokerPartMigrateDown (remove phase, scale down; needs the
   counting argument of BrokerPartMigrateSum), BrokerPartMigrateAssign (assign phase and compaction). *)
From UM Require Import Base.BytesDef Model.Ranges Model.Broker Proofs.BrokerBase Proofs.BrokerPartRanges Proofs.BrokerPartDefs
  Proofs.BrokerPartMigrateBase Proofs.BrokerPartMigrateAssign Proofs.BrokerPartMigrateOut Proofs.BrokerPartMigrateDown
  Proofs.BrokerPartMigrateBounds.
From Coq Require Import ZifyBool ZifyNat ZifyN.

(* bumping the global epoch does not touch any cluster *)
Lemma store_part_inv_bump s : store_part_inv s -> store_part_inv (bump s).
Proof. intros H. exact H. Qed.

Lemma store_part_inv_insert s name cl :
  store_part_inv s -> cluster_inv cl -> store_part_inv (with_clusters s (ainsert name cl (st_clusters s))).
Proof.
  intros Hs Hcl n c Hin. cbn [with_clusters st_clusters] in Hin.
  apply ainsert_In in Hin. destruct Hin as [[-> ->]|Hin]; [exact Hcl|]. eapply Hs. exact Hin.
Qed.

(* both planners end with the same two steps *)
Lemma assign_compact_part_inv chunks migs chunks' :
  remove_ok chunks migs -> assign_dst_slots chunks migs = Done chunks' -> part_inv (compact_slots chunks').
Proof.
  intros Hok Has. apply compact_slots_part_inv. eapply assign_part_inv; [|exact Has].
  apply remove_ok_ready. exact Hok.
Qed.

(* the scale-down planner of the Rust code does not call compact_slots; the invariant holds before compaction too *)
Lemma assign_part_inv_of_remove chunks migs chunks' :
  remove_ok chunks migs -> assign_dst_slots chunks migs = Done chunks' -> part_inv chunks'.
Proof. intros Hok Has. eapply assign_part_inv; [|exact Has]. apply remove_ok_ready. exact Hok. Qed.

(* The invariant is in fact preserved whatever the outcome: every error return and the Panic outcome of the model leave the
   clusters untouched (only the global epoch is bumped). *)
Lemma migrate_slots_part_inv_any : forall s name,
  store_part_inv s -> store_part_inv (fst (migrate_slots s name)).
Proof.
  intros s name Hs. unfold migrate_slots in *.
  pose proof (store_part_inv_bump s Hs) as Hs1.
  destruct (alookup name (st_clusters (bump s))) as [cl|] eqn:El; [|exact Hs1].
  destruct (negb (existsb has_empty_stable (cl_chunks cl))) eqn:E1; [exact Hs1|].
  destruct (cluster_is_migrating cl) eqn:E2; [exact Hs1|].
  destruct (remove_slots_from_src cl (st_epoch (bump s))) as [[chunks migs]|err|] eqn:Er; [|exact Hs1|exact Hs1].
  destruct (assign_dst_slots chunks migs) as [chunks'|err|] eqn:Ea; [|exact Hs1|exact Hs1].
  cbn [fst]. apply store_part_inv_insert; [exact Hs1|].
  unfold cluster_inv. cbn [cl_chunks].
  apply (assign_compact_part_inv chunks migs); [|exact Ea].
  apply (remove_src_ok cl (st_epoch (bump s))); [|exact E2|exact Er].
  apply alookup_In in El. exact (Hs1 _ _ El).
Qed.

Lemma migrate_slots_part_inv : forall s name,
  store_part_inv s -> snd (migrate_slots s name) <> Panic -> store_part_inv (fst (migrate_slots s name)).
Proof. intros s name Hs _. apply migrate_slots_part_inv_any. exact Hs. Qed.

Lemma scale_down_part_inv_any : forall s name n,
  store_part_inv s -> store_part_inv (fst (migrate_slots_to_scale_down s name n)).
Proof.
  intros s name n Hs. unfold migrate_slots_to_scale_down in *.
  pose proof (store_part_inv_bump s Hs) as Hs1.
  destruct (alookup name (st_clusters (bump s))) as [cl|] eqn:El; [|exact Hs1].
  destruct (existsb has_empty_stable (cl_chunks cl)) eqn:E1; [exact Hs1|].
  destruct (cluster_is_migrating cl) eqn:E2; [exact Hs1|].
  destruct (N.eqb n 0 || negb (N.eqb (n mod 4) 0) || N.leb (4 * N.of_nat (length (cl_chunks cl))) n) eqn:E3; [exact Hs1|].
  destruct (remove_slots_from_src_to_scale_down cl (st_epoch (bump s)) (N.to_nat (n / 4))) as [[chunks migs]|err|] eqn:Er;
    [|exact Hs1|exact Hs1].
  destruct (assign_dst_slots chunks migs) as [chunks'|err|] eqn:Ea; [|exact Hs1|exact Hs1].
  cbn [fst]. apply store_part_inv_insert; [exact Hs1|].
  unfold cluster_inv. cbn [cl_chunks].
  apply (assign_compact_part_inv chunks migs); [|exact Ea].
  apply (remove_src_down_ok cl (st_epoch (bump s)) (N.to_nat (n / 4))); [|exact E2| |exact Er].
  - apply alookup_In in El. exact (Hs1 _ _ El).
  - apply orb_false_iff in E3. destruct E3 as [E3 _]. apply orb_false_iff in E3. destruct E3 as [E3a E3b].
    apply negb_false_iff in E3b.
    assert (Hn : 4 <= n).
    { assert (n <> 0) by lia. assert (n mod 4 = 0) by lia.
      pose proof (N.div_mod n 4 ltac:(lia)) as Hdm. lia. }
    assert (1 <= n / 4) by (apply N.div_le_lower_bound; lia). lia.
Qed.

Lemma scale_down_part_inv : forall s name n,
  store_part_inv s -> snd (migrate_slots_to_scale_down s name n) <> Panic ->
  store_part_inv (fst (migrate_slots_to_scale_down s name n)).
Proof. intros s name n Hs _. apply scale_down_part_inv_any. exact Hs. Qed.

(* ---------- the only possible panics of the planners are inside the remove phases ----------
   (the chunk-index `expect`s of assign_dst_slots cannot fire: BrokerPartMigrateBounds) *)
Lemma migrate_slots_panic_in_remove : forall s name,
  snd (migrate_slots s name) = Panic ->
  exists cl, alookup name (st_clusters s) = Some cl /\ remove_slots_from_src cl (st_epoch s + 1) = Panic.
Proof.
  intros s name H. unfold migrate_slots in H.
  change (st_clusters (bump s)) with (st_clusters s) in H. change (st_epoch (bump s)) with (st_epoch s + 1) in H.
  destruct (alookup name (st_clusters s)) as [cl|] eqn:El; [|discriminate].
  destruct (negb (existsb has_empty_stable (cl_chunks cl))); [discriminate|].
  destruct (cluster_is_migrating cl); [discriminate|].
  destruct (remove_slots_from_src cl (st_epoch s + 1)) as [[chunks migs]|err|] eqn:Er; [|discriminate|eauto].
  destruct (remove_src_assign_done _ _ _ _ Er) as [chunks' Ea]. rewrite Ea in H. discriminate.
Qed.

Lemma scale_down_panic_in_remove : forall s name n,
  snd (migrate_slots_to_scale_down s name n) = Panic ->
  exists cl, alookup name (st_clusters s) = Some cl /\
             remove_slots_from_src_to_scale_down cl (st_epoch s + 1) (N.to_nat (n / 4)) = Panic.
Proof.
  intros s name n H. unfold migrate_slots_to_scale_down in H.
  change (st_clusters (bump s)) with (st_clusters s) in H. change (st_epoch (bump s)) with (st_epoch s + 1) in H.
  destruct (alookup name (st_clusters s)) as [cl|] eqn:El; [|discriminate].
  destruct (existsb has_empty_stable (cl_chunks cl)); [discriminate|].
  destruct (cluster_is_migrating cl); [discriminate|].
  destruct (N.eqb n 0 || negb (N.eqb (n mod 4) 0) || N.leb (4 * N.of_nat (length (cl_chunks cl))) n) eqn:E3; [discriminate|].
  destruct (remove_slots_from_src_to_scale_down cl (st_epoch s + 1) (N.to_nat (n / 4))) as [[chunks migs]|err|] eqn:Er;
    [|discriminate|eauto].
  assert (Hk : (N.to_nat (n / 4) <= length (cl_chunks cl))%nat).
  { apply orb_false_iff in E3. destruct E3 as [_ E3].
    assert (n / 4 <= N.of_nat (length (cl_chunks cl))) by (apply N.div_le_upper_bound; lia). lia. }
  destruct (remove_src_down_assign_done _ _ _ _ _ Hk Er) as [chunks' Ea]. rewrite Ea in H. discriminate.
Qed.
