(* Slot-partition invariant (C01, C10): commit_migration.
   Under part_inv the range list identifies an out entry (two different out entries with the same non-empty ranges would
   own a slot twice), so the entry found by find_entry_chunks for direction out is x = (rl, out, meta), the one found for
   direction in is its twin y, and meta = (task_epoch, src position found, dst position found).
   `filter keep` removes exactly the single occurrence of x, commit_in removes the single occurrence of y and merges rl
   into the stable slots of the part that held y.  Counts: owned loses rl (out) and gains rl (stable); all_in and all_out
   both lose rl.  Every surviving entry keeps its twin. *)
From UM Require Import Base.BytesDef Model.Ranges Model.Broker Proofs.BrokerBase Proofs.BrokerPartRanges Proofs.BrokerPartDefs
  Proofs.BrokerPartOpsFrame Proofs.BrokerPartOpsCompact.
From Coq Require Import ZifyBool ZifyNat ZifyN.

(* ---------- boolean equalities ---------- *)
Lemma range_eqb_eq a b : range_eqb a b = true -> a = b.
Proof. destruct a, b. unfold range_eqb. cbn [fst snd]. intros H. apply andb_true_iff in H. destruct H as [H1 H2].
  apply N.eqb_eq in H1, H2. congruence. Qed.

Lemma rangelist_eqb_eq : forall a b, rangelist_eqb a b = true -> a = b.
Proof.
  unfold rangelist_eqb. induction a as [|x a IH]; intros [|y b] H; cbn [list_eqb] in H; try discriminate; [reflexivity|].
  apply andb_true_iff in H. destruct H as [H1 H2]. apply range_eqb_eq in H1. apply IH in H2. congruence.
Qed.

Lemma rangelist_eqb_refl : forall a, rangelist_eqb a a = true.
Proof.
  unfold rangelist_eqb. induction a as [|x a IH]; cbn [list_eqb]; [reflexivity|].
  rewrite IH. unfold range_eqb. rewrite !N.eqb_refl. reflexivity.
Qed.

Lemma meta_eqb_eq a b : meta_eqb a b = true -> a = b.
Proof.
  destruct a as [e1 i1 p1 j1 q1], b as [e2 i2 p2 j2 q2]. unfold meta_eqb. cbn [mm_epoch mm_src_idx mm_src_part mm_dst_idx mm_dst_part]. intros H.
  repeat (apply andb_true_iff in H; let H2 := fresh "H" in destruct H as [H H2]).
  apply N.eqb_eq in H. apply Nat.eqb_eq in H3, H1. apply eqb_prop in H2, H0. congruence.
Qed.

Lemma meta_eqb_refl a : meta_eqb a a = true.
Proof. unfold meta_eqb. rewrite N.eqb_refl, !Nat.eqb_refl, !eqb_reflx. reflexivity. Qed.

Lemma mig_eq_dec : forall a b : mig_store, {a = b} + {a <> b}.
Proof. repeat decide equality. Qed.

(* ---------- the two matchers of commit_migration ---------- *)
Definition keepf (rl : rangelist) (meta : mig_meta) (e : mig_store) : bool :=
  negb (ms_out e && rangelist_eqb (ms_ranges e) rl && meta_eqb (ms_meta e) meta).
Definition inm (rl : rangelist) (meta : mig_meta) (e : mig_store) : bool :=
  negb (ms_out e) && meta_eqb (ms_meta e) meta && rangelist_eqb (ms_ranges e) rl.

Lemma keepf_false rl meta e : keepf rl meta e = false <-> e = mkMig rl true meta.
Proof.
  unfold keepf. split.
  - intros H. apply negb_false_iff in H. apply andb_true_iff in H. destruct H as [H H3].
    apply andb_true_iff in H. destruct H as [H1 H2]. apply rangelist_eqb_eq in H2. apply meta_eqb_eq in H3.
    destruct e as [r o m]. cbn [ms_out ms_ranges ms_meta] in *. congruence.
  - intros ->. cbn [ms_out ms_ranges ms_meta]. rewrite rangelist_eqb_refl, meta_eqb_refl. reflexivity.
Qed.

Lemma keepf_in rl meta e : ms_out e = false -> keepf rl meta e = true.
Proof. unfold keepf. intros ->. reflexivity. Qed.

Lemma inm_true rl meta e : inm rl meta e = true <-> e = mkMig rl false meta.
Proof.
  unfold inm. split.
  - intros H. apply andb_true_iff in H. destruct H as [H H3]. apply andb_true_iff in H. destruct H as [H1 H2].
    apply negb_true_iff in H1. apply rangelist_eqb_eq in H3. apply meta_eqb_eq in H2.
    destruct e as [r o m]. cbn [ms_out ms_ranges ms_meta] in *. congruence.
  - intros ->. cbn [ms_out ms_ranges ms_meta]. rewrite rangelist_eqb_refl, meta_eqb_refl. reflexivity.
Qed.

(* ---------- find_entry_chunks ---------- *)
Lemma entries_at_cons_S c l i p : entries_at (c :: l) (S i, p) = entries_at l (i, p).
Proof. reflexivity. Qed.

Lemma find_entry_spec : forall chunks idx rl ep out i p,
  find_entry_chunks idx chunks rl ep out = Some (i, p) ->
  (idx <= i)%nat /\ exists e, In e (entries_at chunks ((i - idx)%nat, p)) /\ ms_ranges e = rl /\ mm_epoch (ms_meta e) = ep /\ ms_out e = out.
Proof.
  induction chunks as [|c rest IH]; intros idx rl ep out i p H; cbn [find_entry_chunks] in H; [discriminate|].
  match type of H with (if existsb ?m _ then _ else _) = _ => set (mf := m) in * end.
  assert (Hm : forall e, mf e = true -> ms_ranges e = rl /\ mm_epoch (ms_meta e) = ep /\ ms_out e = out).
  { intros e He. subst mf. cbv beta in He. apply andb_true_iff in He. destruct He as [He H3].
    apply andb_true_iff in He. destruct He as [H1 H2]. apply rangelist_eqb_eq in H1. apply N.eqb_eq in H2.
    apply eqb_prop in H3. auto. }
  destruct (existsb mf (ck_mig0 c)) eqn:E0.
  { inversion H; subst. split; [lia|]. apply existsb_exists in E0. destruct E0 as (e & He & Hme).
    exists e. rewrite Nat.sub_diag. split; [exact He|]. apply Hm. exact Hme. }
  destruct (existsb mf (ck_mig1 c)) eqn:E1.
  { inversion H; subst. split; [lia|]. apply existsb_exists in E1. destruct E1 as (e & He & Hme).
    exists e. rewrite Nat.sub_diag. split; [exact He|]. apply Hm. exact Hme. }
  apply IH in H. destruct H as (Hle & e & He & Hr). split; [lia|]. exists e. split; [|exact Hr].
  replace (i - idx)%nat with (S (i - S idx)) by lia. rewrite entries_at_cons_S. exact He.
Qed.

(* ---------- all entries of a chunk list ---------- *)
Definition all_entries (chunks : list chunk) : list mig_store := flat_map (fun c => ck_mig0 c ++ ck_mig1 c) chunks.

Lemma all_out_entries chunks : all_out chunks = out_ranges (all_entries chunks).
Proof.
  unfold all_out, all_entries. induction chunks as [|c l IH]; cbn [flat_map]; [reflexivity|].
  rewrite IH, !out_ranges_app. reflexivity.
Qed.

Lemma all_in_entries chunks : all_in chunks = in_ranges (all_entries chunks).
Proof.
  unfold all_in, all_entries. induction chunks as [|c l IH]; cbn [flat_map]; [reflexivity|].
  rewrite IH, !in_ranges_app. reflexivity.
Qed.

Lemma entries_at_all l pos e : In e (entries_at l pos) -> In e (all_entries l).
Proof.
  intros H. apply entries_at_In in H. destruct H as (c & Hc & He). unfold all_entries. apply in_flat_map.
  exists c. split; [exact Hc|]. apply in_or_app. destruct (snd pos); cbn [ck_mig] in He; auto.
Qed.

Lemma two_out l a b s : In a l -> In b l -> a <> b -> ms_out a = true -> ms_out b = true ->
  (cnt s (ms_ranges a) + cnt s (ms_ranges b) <= cnt s (out_ranges l))%nat.
Proof.
  induction l as [|c l IH]; intros Ha Hb Hne Hoa Hob; [destruct Ha|]. rewrite out_ranges_cons, cnt_app.
  destruct Ha as [->|Ha]; destruct Hb as [->|Hb].
  - congruence.
  - rewrite Hoa. pose proof (cnt_out_In b l s Hb Hob). lia.
  - rewrite Hob. pose proof (cnt_out_In a l s Ha Hoa). lia.
  - specialize (IH Ha Hb Hne Hoa Hob). lia.
Qed.

Lemma cnt_in_In e l s : In e l -> ms_out e = false -> (cnt s (ms_ranges e) <= cnt s (in_ranges l))%nat.
Proof.
  induction l as [|b l IH]; intros H Ho; [destruct H|]. rewrite in_ranges_cons, cnt_app.
  destruct H as [->|H]; [rewrite Ho; lia|]. specialize (IH H Ho). lia.
Qed.

Lemma hit_slot rl : rl <> [] -> Forall wf_range rl -> exists s, (1 <= cnt s rl)%nat.
Proof.
  destruct rl as [|r rl]; [congruence|]. intros _ Hw. inversion Hw as [|? ? Hr _]; subst. exists (fst r).
  rewrite cnt_cons. unfold ind. assert (in_range (fst r) r = true) by (apply in_range_spec; unfold wf_range in Hr; lia).
  rewrite H. lia.
Qed.

(* owned = stable slots + out ranges *)
Definition chunk_stab (c : chunk) : rangelist := opt_ranges (ck_stable0 c) ++ opt_ranges (ck_stable1 c).
Definition stabs (chunks : list chunk) : rangelist := flat_map chunk_stab chunks.

Lemma owned_split l s : cnt s (owned l) = (cnt s (stabs l) + cnt s (all_out l))%nat.
Proof.
  unfold owned, stabs, all_out. induction l as [|c l IH]; cbn [flat_map]; [reflexivity|].
  rewrite !cnt_app, IH. unfold chunk_owned, chunk_stab, chunk_out. rewrite !cnt_app. lia.
Qed.

Lemma out_unique l p1 p2 a b : part_inv l -> In a (entries_at l p1) -> In b (entries_at l p2) ->
  ms_out a = true -> ms_out b = true -> ms_ranges a = ms_ranges b -> a = b.
Proof.
  intros H Ha Hb Hoa Hob Hr. destruct (mig_eq_dec a b) as [|Hne]; [assumption|exfalso].
  destruct (hit_slot (ms_ranges a)) as [s0 Hs0]; [eapply pi_nonempty; eassumption|eapply entry_wf; eassumption|].
  pose proof (two_out _ a b s0 (entries_at_all _ _ _ Ha) (entries_at_all _ _ _ Hb) Hne Hoa Hob) as H2.
  rewrite <- all_out_entries in H2. pose proof (owned_split l s0). pose proof (covers_once_le _ s0 (pi_cover l H)).
  rewrite <- Hr in H2. lia.
Qed.

(* ---------- stage 1: filter keep ---------- *)
Definition Fk (rl : rangelist) (meta : mig_meta) (c : chunk) : chunk :=
  set_mig (set_mig c false (filter (keepf rl meta) (ck_mig0 c))) true (filter (keepf rl meta) (ck_mig1 c)).

Lemma entries_at_Fk rl meta l pos : entries_at (map (Fk rl meta) l) pos = filter (keepf rl meta) (entries_at l pos).
Proof.
  unfold entries_at. rewrite nth_error_map. destruct (nth_error l (fst pos)) as [c|]; cbn [option_map]; [|reflexivity].
  destruct (snd pos); reflexivity.
Qed.

Lemma all_entries_Fk rl meta l : all_entries (map (Fk rl meta) l) = filter (keepf rl meta) (all_entries l).
Proof.
  unfold all_entries. induction l as [|c l IH]; cbn [map flat_map]; [reflexivity|].
  rewrite filter_app, IH. f_equal. cbn [Fk set_mig ck_mig0 ck_mig1]. rewrite filter_app. reflexivity.
Qed.

Lemma stabs_Fk rl meta l : stabs (map (Fk rl meta) l) = stabs l.
Proof. unfold stabs. induction l as [|c l IH]; cbn [map flat_map]; [reflexivity|]. rewrite IH. reflexivity. Qed.

Lemma in_ranges_keep rl meta l : in_ranges (filter (keepf rl meta) l) = in_ranges l.
Proof.
  induction l as [|e l IH]; [reflexivity|]. cbn [filter]. destruct (ms_out e) eqn:Ho.
  - destruct (keepf rl meta e); rewrite ?in_ranges_cons, Ho, IH; reflexivity.
  - rewrite (keepf_in rl meta e Ho), !in_ranges_cons, IH. reflexivity.
Qed.

Lemma out_ranges_partition (p : mig_store -> bool) l s :
  cnt s (out_ranges l) = (cnt s (out_ranges (filter p l)) + cnt s (out_ranges (filter (fun e => negb (p e)) l)))%nat.
Proof.
  induction l as [|e l IH]; [reflexivity|]. cbn [filter]. rewrite out_ranges_cons, cnt_app, IH.
  destruct (p e); cbn [negb]; rewrite out_ranges_cons, cnt_app; lia.
Qed.

Lemma all_ranges_Fk_incl rl meta c r : In r (chunk_all_ranges (Fk rl meta c)) -> In r (chunk_all_ranges c).
Proof.
  unfold chunk_all_ranges. cbn [Fk set_mig ck_stable0 ck_stable1 ck_mig0 ck_mig1]. intros H.
  assert (Hf : forall l, In r (flat_map ms_ranges (filter (keepf rl meta) l)) -> In r (flat_map ms_ranges l)).
  { intros l Hl. apply in_flat_map in Hl. destruct Hl as (e & He & Hr). apply filter_In in He. apply in_flat_map. exists e. tauto. }
  rewrite !in_app_iff in *. destruct H as [H|[H|[H|H]]]; auto.
Qed.

(* ---------- stage 2: commit_in ---------- *)
Lemma remove_first_spec {A} (p : A -> bool) : forall l e l', remove_first p l = Some (e, l') ->
  p e = true /\ exists l1 l2, l = l1 ++ e :: l2 /\ l' = l1 ++ l2.
Proof.
  induction l as [|x l IH]; intros e l' H; cbn [remove_first] in H; [discriminate|].
  destruct (p x) eqn:E.
  - inversion H; subst. split; [exact E|]. exists [], l'. split; reflexivity.
  - destruct (remove_first p l) as [[y r]|] eqn:Er; [|discriminate]. inversion H; subst.
    destruct (IH _ _ eq_refl) as (Hp & l1 & l2 & -> & ->). split; [exact Hp|]. exists (x :: l1), l2. split; reflexivity.
Qed.

Lemma remove_first_none {A} (p : A -> bool) : forall l, remove_first p l = None -> forall e, In e l -> p e = false.
Proof.
  induction l as [|x l IH]; intros H e He; [destruct He|]. cbn [remove_first] in H.
  destruct (p x) eqn:E; [discriminate|]. destruct (remove_first p l) as [[y r]|] eqn:Er; [discriminate|].
  destruct He as [<-|He]; [exact E|]. apply IH; [reflexivity|exact He].
Qed.

Definition merge_into (c : chunk) (part : bool) (r : rangelist) : chunk :=
  match ck_stable c part with
  | Some st => set_stable c part (Some (rl_merge_another st r))
  | None => set_stable c part (Some r)
  end.

Definition Rc (rl : rangelist) (meta : mig_meta) (c c' : chunk) : Prop :=
  exists part l1 l2, ck_mig c part = l1 ++ mkMig rl false meta :: l2 /\
                     c' = merge_into (set_mig c part (l1 ++ l2)) part rl.

Lemma commit_in_spec rl meta : forall l,
  (forall c, In c l -> forall p e, In e (ck_mig c p) -> inm rl meta e = false)
  \/ exists pre c c' post, l = pre ++ c :: post /\ commit_in l rl meta = pre ++ c' :: post /\ Rc rl meta c c'.
Proof.
  induction l as [|c rest IH].
  - left. intros c [].
  - cbn [commit_in]. fold (inm rl meta).
    change (fun e : mig_store => negb (ms_out e) && meta_eqb (ms_meta e) meta && rangelist_eqb (ms_ranges e) rl) with (inm rl meta).
    destruct (remove_first (inm rl meta) (ck_mig0 c)) as [[e l']|] eqn:E0.
    { right. apply remove_first_spec in E0. destruct E0 as (Hp & l1 & l2 & E & ->). apply inm_true in Hp. subst e.
      exists [], c, (merge_into (set_mig c false (l1 ++ l2)) false rl), rest. split; [reflexivity|]. split; [reflexivity|].
      exists false, l1, l2. split; [exact E|]. reflexivity. }
    destruct (remove_first (inm rl meta) (ck_mig1 c)) as [[e l']|] eqn:E1.
    { right. apply remove_first_spec in E1. destruct E1 as (Hp & l1 & l2 & E & ->). apply inm_true in Hp. subst e.
      exists [], c, (merge_into (set_mig c true (l1 ++ l2)) true rl), rest. split; [reflexivity|]. split; [reflexivity|].
      exists true, l1, l2. split; [exact E|]. reflexivity. }
    destruct IH as [IH|(pre & c0 & c0' & post & -> & E & HR)].
    + left. intros c2 [<-|Hc2] p e He; [|eapply IH; eassumption].
      destruct p; cbn [ck_mig] in He; [eapply remove_first_none in E1|eapply remove_first_none in E0]; eassumption.
    + right. exists (c :: pre), c0, c0', post. split; [reflexivity|]. split; [|exact HR]. rewrite E. reflexivity.
Qed.

(* accessors of the rewritten chunk *)
Lemma ck_mig_merge_into c part r p : ck_mig (merge_into c part r) p = ck_mig c p.
Proof. unfold merge_into. destruct (ck_stable c part); destruct part, p; reflexivity. Qed.

Lemma ck_mig_set_same c part v : ck_mig (set_mig c part v) part = v.
Proof. destruct part; reflexivity. Qed.

Lemma ck_mig_set_other c part v : ck_mig (set_mig c part v) (negb part) = ck_mig c (negb part).
Proof. destruct part; reflexivity. Qed.

Lemma ck_stable_set_mig c part v p : ck_stable (set_mig c part v) p = ck_stable c p.
Proof. destruct part, p; reflexivity. Qed.

Lemma ck_stable_merge_other c part r : ck_stable (merge_into c part r) (negb part) = ck_stable c (negb part).
Proof. unfold merge_into. destruct (ck_stable c part); destruct part; reflexivity. Qed.

Lemma ck_stable_merge_same c part r :
  ck_stable (merge_into c part r) part = Some (match ck_stable c part with Some st => rl_merge_another st r | None => r end).
Proof. unfold merge_into. destruct (ck_stable c part); destruct part; reflexivity. Qed.

Lemma cnt_chunk_in c part s :
  cnt s (chunk_in c) = (cnt s (in_ranges (ck_mig c part)) + cnt s (in_ranges (ck_mig c (negb part))))%nat.
Proof. unfold chunk_in. rewrite cnt_app. destruct part; cbn [ck_mig negb]; lia. Qed.

Lemma cnt_chunk_out c part s :
  cnt s (chunk_out c) = (cnt s (out_ranges (ck_mig c part)) + cnt s (out_ranges (ck_mig c (negb part))))%nat.
Proof. unfold chunk_out. rewrite cnt_app. destruct part; cbn [ck_mig negb]; lia. Qed.

Lemma cnt_chunk_stab c part s :
  cnt s (chunk_stab c) = (cnt s (opt_ranges (ck_stable c part)) + cnt s (opt_ranges (ck_stable c (negb part))))%nat.
Proof. unfold chunk_stab. rewrite cnt_app. destruct part; cbn [ck_stable negb]; lia. Qed.

Lemma in_all_ranges_parts c r :
  In r (chunk_all_ranges c) <-> exists p, In r (opt_ranges (ck_stable c p)) \/ In r (flat_map ms_ranges (ck_mig c p)).
Proof.
  unfold chunk_all_ranges. rewrite !in_app_iff. split.
  - intros [H|[H|[H|H]]]; [exists false|exists true|exists false|exists true]; cbn [ck_stable ck_mig]; auto.
  - intros [[|] [H|H]]; cbn [ck_stable ck_mig] in H; auto.
Qed.

Lemma twin_twin e : twin (twin e) = e.
Proof. destruct e as [r o m]. unfold twin. cbn [ms_ranges ms_out ms_meta]. rewrite negb_involutive. reflexivity. Qed.

Lemma entries_at_change pre (c c' : chunk) post pos :
  entries_at (pre ++ c' :: post) pos =
  if Nat.eqb (fst pos) (length pre) then ck_mig c' (snd pos) else entries_at (pre ++ c :: post) pos.
Proof.
  unfold entries_at. destruct (Nat.eqb (fst pos) (length pre)) eqn:E.
  - apply Nat.eqb_eq in E. rewrite E, nth_error_app2, Nat.sub_diag by lia. reflexivity.
  - apply Nat.eqb_neq in E. destruct (Nat.ltb (fst pos) (length pre)) eqn:E2.
    + rewrite !nth_error_app1 by lia. reflexivity.
    + rewrite !nth_error_app2 by lia. destruct (fst pos - length pre)%nat as [|k] eqn:Ek; [lia|]. reflexivity.
Qed.

(* ---------- the chunk-level theorem ---------- *)
Theorem commit_chunks_part_inv chunks rl ep si sp di dp :
  part_inv chunks ->
  find_entry_chunks 0 chunks rl ep true = Some (si, sp) ->
  find_entry_chunks 0 chunks rl ep false = Some (di, dp) ->
  part_inv (commit_in (map (Fk rl (mkMeta ep si sp di dp)) chunks) rl (mkMeta ep si sp di dp)).
Proof.
  intros H Hfo Hfi. pose proof H as [Sz W Nn C B T].
  set (meta := mkMeta ep si sp di dp).
  set (x := mkMig rl true meta). set (y := mkMig rl false meta).
  (* A: the entries found are x and its twin y *)
  apply find_entry_spec in Hfo. destruct Hfo as (_ & x0 & Hx0 & Hxr & Hxe & Hxo). rewrite Nat.sub_0_r in Hx0.
  apply find_entry_spec in Hfi. destruct Hfi as (_ & y0 & Hy0 & Hyr & Hye & Hyo). rewrite Nat.sub_0_r in Hy0.
  destruct (T _ _ Hx0) as (Tx1 & _ & _). destruct (T _ _ Hy0) as (Ty1 & _ & Ty3).
  unfold own_pos in Tx1, Ty1. rewrite Hxo in Tx1. rewrite Hyo in Ty1.
  unfold twin_pos in Ty3. rewrite Hyo in Ty3.
  assert (Hxy : x0 = twin y0).
  { eapply out_unique; [exact H|exact Hx0|exact Ty3|exact Hxo| |].
    - cbn [twin ms_out]. rewrite Hyo. reflexivity.
    - cbn [twin ms_ranges]. congruence. }
  assert (Ex : x0 = x).
  { destruct x0 as [xr xo [xe xa xb xc xd]]. destruct y0 as [yr yo [ye ya yb yc yd]].
    unfold src_pos, dst_pos, twin in *. cbn [ms_ranges ms_out ms_meta mm_epoch mm_src_idx mm_src_part mm_dst_idx mm_dst_part] in *.
    inversion Hxy; subst. inversion Tx1; inversion Ty1; subst. reflexivity. }
  assert (Ey : y0 = y).
  { rewrite <- (twin_twin y0), <- Hxy, Ex. reflexivity. }
  clear Hxy Hxr Hxe Hxo Hyr Hye Hyo Tx1 Ty1 Ty3. subst x0 y0.
  (* B: a slot of rl *)
  assert (Hne : rl <> []) by (apply (Nn _ _ Hx0)).
  assert (Hwrl : Forall wf_range rl) by (apply (entry_wf _ _ _ H Hx0)).
  destruct (hit_slot rl Hne Hwrl) as [s0 Hs0].
  assert (Hown1 : forall s, (cnt s (all_out chunks) <= 1)%nat).
  { intros s. pose proof (owned_split chunks s). pose proof (covers_once_le _ s C). lia. }
  (* C: stage 1 *)
  set (chunks1 := map (Fk rl meta) chunks).
  assert (C1 : all_in chunks1 = all_in chunks).
  { unfold chunks1. rewrite !all_in_entries, all_entries_Fk, in_ranges_keep. reflexivity. }
  assert (HR : filter (fun e => negb (keepf rl meta e)) (all_entries chunks) = [x]).
  { assert (Hall : forall e, In e (filter (fun e => negb (keepf rl meta e)) (all_entries chunks)) -> e = x).
    { intros e He. apply filter_In in He. destruct He as [_ He]. apply negb_true_iff in He. apply keepf_false in He. exact He. }
    assert (Hin : In x (filter (fun e => negb (keepf rl meta e)) (all_entries chunks))).
    { apply filter_In. split; [eapply entries_at_all; exact Hx0|]. apply negb_true_iff. apply keepf_false. reflexivity. }
    pose proof (out_ranges_partition (keepf rl meta) (all_entries chunks) s0) as Hp.
    rewrite <- all_out_entries in Hp. specialize (Hown1 s0).
    destruct (filter (fun e => negb (keepf rl meta e)) (all_entries chunks)) as [|a [|b r]].
    - destruct Hin.
    - rewrite (Hall a (or_introl eq_refl)). reflexivity.
    - exfalso. rewrite (Hall a (or_introl eq_refl)), (Hall b (or_intror (or_introl eq_refl))) in Hp.
      rewrite !out_ranges_cons, !cnt_app in Hp. cbn [x ms_out ms_ranges] in Hp. lia. }
  assert (C2 : forall s, cnt s (all_out chunks) = (cnt s (all_out chunks1) + cnt s rl)%nat).
  { intros s. unfold chunks1. rewrite !all_out_entries, all_entries_Fk, (out_ranges_partition (keepf rl meta) (all_entries chunks)), HR.
    rewrite out_ranges_cons, cnt_app. cbn [x ms_out ms_ranges]. unfold out_ranges. cbn [filter flat_map]. rewrite cnt_nil. lia. }
  assert (C3 : forall s, cnt s (owned chunks) = (cnt s (owned chunks1) + cnt s rl)%nat).
  { intros s. rewrite !owned_split. unfold chunks1 at 1. rewrite stabs_Fk, C2. lia. }
  assert (W1 : Forall wf_range (flat_map chunk_all_ranges chunks1)).
  { rewrite Forall_forall in *. intros r Hr. apply W. apply in_flat_map in Hr. destruct Hr as (c1 & Hc1 & Hr).
    apply in_map_iff in Hc1. destruct Hc1 as (c0 & <- & Hc0). apply all_ranges_Fk_incl in Hr.
    apply in_flat_map. exists c0. split; assumption. }
  assert (L1 : forall pos, entries_at chunks1 pos = filter (keepf rl meta) (entries_at chunks pos)) by (intros; apply entries_at_Fk).
  (* D: stage 2 *)
  destruct (commit_in_spec rl meta chunks1) as [Hno|(pre & c & c' & post & E1 & E2 & part & l1 & l2 & Ec & Ec')].
  { exfalso. assert (Hy1 : In y (entries_at chunks1 (di, dp))).
    { rewrite L1. apply filter_In. split; [exact Hy0|]. apply keepf_in. reflexivity. }
    apply entries_at_In in Hy1. destruct Hy1 as (c & Hc & Hy1). specialize (Hno c Hc _ _ Hy1).
    assert (inm rl meta y = true) by (apply inm_true; reflexivity). congruence. }
  fold meta. fold chunks1. rewrite E2. fold y in Ec.
  assert (Hc1 : In c chunks1) by (rewrite E1; apply in_elt).
  assert (W1c : forall r, In r (chunk_all_ranges c) -> wf_range r).
  { intros r Hr. rewrite Forall_forall in W1. apply W1. apply in_flat_map. exists c. split; assumption. }
  assert (Hok : forall st, ck_stable c part = Some st -> ok_rl (st ++ rl)).
  { intros st Est. split.
    - apply Forall_app. split; [|exact Hwrl]. rewrite Forall_forall. intros r Hr. apply W1c.
      apply in_all_ranges_parts. exists part. left. rewrite Est. exact Hr.
    - intros s. rewrite cnt_app.
      pose proof (cnt_chunk_stab c part s) as Hs. rewrite Est in Hs. cbn [opt_ranges] in Hs.
      pose proof (cnt_flat_map_In chunk_stab chunks1 c s Hc1) as Hs2. fold (stabs chunks1) in Hs2.
      pose proof (owned_split chunks1 s). pose proof (C3 s). pose proof (covers_once_le _ s C). lia. }
  assert (M1 : ck_mig c' part = l1 ++ l2) by (rewrite Ec', ck_mig_merge_into, ck_mig_set_same; reflexivity).
  assert (M2 : ck_mig c' (negb part) = ck_mig c (negb part)) by (rewrite Ec', ck_mig_merge_into, ck_mig_set_other; reflexivity).
  assert (S2 : ck_stable c' (negb part) = ck_stable c (negb part)) by (rewrite Ec', ck_stable_merge_other, ck_stable_set_mig; reflexivity).
  assert (S1 : ck_stable c' part = Some (match ck_stable c part with Some st => rl_merge_another st rl | None => rl end)).
  { rewrite Ec', ck_stable_merge_same, ck_stable_set_mig. reflexivity. }
  assert (Hst : forall s, cnt s (opt_ranges (ck_stable c' part)) = (cnt s (opt_ranges (ck_stable c part)) + cnt s rl)%nat).
  { intros s. rewrite S1. destruct (ck_stable c part) as [st|] eqn:Est; cbn [opt_ranges].
    - unfold rl_merge_another. rewrite compact_ok_cnt by (apply Hok; reflexivity). apply cnt_app.
    - rewrite cnt_nil. reflexivity. }
  assert (Hsub : forall p e, In e (ck_mig c' p) -> In e (ck_mig c p)).
  { intros p e He. destruct (Bool.bool_dec p part) as [->|Hp].
    - rewrite M1 in He. rewrite Ec. rewrite in_app_iff in *. cbn [In]. tauto.
    - assert (p = negb part) by (destruct p, part; cbn [negb]; congruence). subst p. rewrite M2 in He. exact He. }
  assert (Hsup : forall p e, In e (ck_mig c p) -> e <> y -> In e (ck_mig c' p)).
  { intros p e He Hney. destruct (Bool.bool_dec p part) as [->|Hp].
    - rewrite M1. rewrite Ec in He. rewrite in_app_iff in *. cbn [In] in He. destruct He as [He|[He|He]]; auto. congruence.
    - assert (p = negb part) by (destruct p, part; cbn [negb]; congruence). subst p. rewrite M2. exact He. }
  assert (D1 : forall s, cnt s (all_out (pre ++ c' :: post)) = cnt s (all_out chunks1)).
  { intros s. rewrite E1. unfold all_out. rewrite !flat_map_app. cbn [flat_map]. rewrite !cnt_app.
    rewrite (cnt_chunk_out c' part), (cnt_chunk_out c part), M1, M2, Ec, !out_ranges_app, out_ranges_cons, !cnt_app.
    cbn [y ms_out]. rewrite cnt_nil. lia. }
  assert (D2 : forall s, (cnt s (all_in (pre ++ c' :: post)) + cnt s rl)%nat = cnt s (all_in chunks1)).
  { intros s. rewrite E1. unfold all_in. rewrite !flat_map_app. cbn [flat_map]. rewrite !cnt_app.
    rewrite (cnt_chunk_in c' part), (cnt_chunk_in c part), M1, M2, Ec, !in_ranges_app, in_ranges_cons, !cnt_app.
    cbn [y ms_out ms_ranges]. lia. }
  assert (D3 : forall s, cnt s (owned (pre ++ c' :: post)) = (cnt s (owned chunks1) + cnt s rl)%nat).
  { intros s. rewrite !owned_split, D1.
    assert (Hs : cnt s (stabs (pre ++ c' :: post)) = (cnt s (stabs chunks1) + cnt s rl)%nat).
    { rewrite E1. unfold stabs. rewrite !flat_map_app. cbn [flat_map]. rewrite !cnt_app.
      rewrite (cnt_chunk_stab c' part), (cnt_chunk_stab c part), Hst, S2. lia. }
    lia. }
  assert (P1 : forall pos e, In e (entries_at (pre ++ c' :: post) pos) -> In e (entries_at chunks1 pos)).
  { intros pos e He. rewrite E1. rewrite (entries_at_change pre c c' post pos) in He.
    rewrite (entries_at_change pre c c post pos). destruct (Nat.eqb (fst pos) (length pre)); [apply Hsub|]; exact He. }
  assert (P2 : forall pos e, In e (entries_at chunks1 pos) -> e <> y -> In e (entries_at (pre ++ c' :: post) pos)).
  { intros pos e He Hney. rewrite E1 in He. rewrite (entries_at_change pre c c' post pos).
    rewrite (entries_at_change pre c c post pos) in He. destruct (Nat.eqb (fst pos) (length pre)); [apply Hsup|]; assumption. }
  assert (Hnoy : forall pos, ~ In y (entries_at (pre ++ c' :: post) pos)).
  { intros pos Hy2. apply entries_at_all in Hy2. pose proof (cnt_in_In y _ s0 Hy2 eq_refl) as Hc.
    rewrite <- all_in_entries in Hc. cbn [y ms_ranges] in Hc.
    pose proof (D2 s0) as Hd. rewrite C1, (B s0) in Hd. specialize (Hown1 s0). lia. }
  assert (Hlen : length (pre ++ c' :: post) = length chunks).
  { transitivity (length chunks1); [rewrite E1, !app_length; reflexivity|]. unfold chunks1. apply map_length. }
  constructor.
  - rewrite Hlen. exact Sz.
  - rewrite flat_map_app. cbn [flat_map]. rewrite E1, flat_map_app in W1. cbn [flat_map] in W1.
    apply Forall_app in W1. destruct W1 as [Wpre W1]. apply Forall_app in W1. destruct W1 as [_ Wpost].
    apply Forall_app. split; [exact Wpre|]. apply Forall_app. split; [|exact Wpost].
    rewrite Forall_forall. intros r Hr. apply in_all_ranges_parts in Hr. destruct Hr as [p [Hr|Hr]].
    + destruct (Bool.bool_dec p part) as [->|Hp].
      * rewrite S1 in Hr. cbn [opt_ranges] in Hr. destruct (ck_stable c part) as [st|] eqn:Est.
        -- pose proof (compact_ok_wf _ (Hok st eq_refl)) as Hwf. rewrite Forall_forall in Hwf. apply Hwf. exact Hr.
        -- rewrite Forall_forall in Hwrl. apply Hwrl. exact Hr.
      * assert (p = negb part) by (destruct p, part; cbn [negb]; congruence). subst p. rewrite S2 in Hr.
        apply W1c. apply in_all_ranges_parts. exists (negb part). left. exact Hr.
    + apply W1c. apply in_all_ranges_parts. exists p. right.
      apply in_flat_map in Hr. destruct Hr as (e & He & Hr). apply in_flat_map. exists e. split; [apply Hsub; exact He|exact Hr].
  - intros pos e He. apply P1 in He. rewrite L1 in He. apply filter_In in He. destruct He as [He _]. eapply Nn. exact He.
  - intros s. rewrite D3, <- C3. apply C.
  - intros s. pose proof (D2 s) as Hd. rewrite C1, (B s), (C2 s), <- (D1 s) in Hd. lia.
  - intros pos e He.
    assert (Hney : e <> y) by (intros ->; exact (Hnoy pos He)).
    apply P1 in He. rewrite L1 in He. apply filter_In in He. destruct He as [He Hk].
    destruct (T pos e He) as (T1 & T2 & T3). split; [exact T1|]. split; [rewrite Hlen; exact T2|].
    apply P2.
    + rewrite L1. apply filter_In. split; [exact T3|].
      destruct (keepf rl meta (twin e)) eqn:Hkt; [reflexivity|exfalso]. apply keepf_false in Hkt.
      apply Hney. rewrite <- (twin_twin e), Hkt. reflexivity.
    + intros Hty. assert (Hex : e = x) by (rewrite <- (twin_twin e), Hty; reflexivity).
      assert (keepf rl meta x = false) by (apply keepf_false; reflexivity). congruence.
Qed.

Theorem commit_migration_part_inv s name rl tag ep :
  store_part_inv s -> store_part_inv (fst (commit_migration s name rl tag ep)).
Proof.
  intros H. unfold commit_migration.
  destruct (alookup name (st_clusters s)) as [cl|] eqn:E; cbn [fst]; [|exact H].
  assert (Hcl : part_inv (cl_chunks cl)) by (eapply store_inv_lookup; eassumption).
  assert (Hmain : store_part_inv (fst
    match find_entry_chunks 0 (cl_chunks cl) rl ep true with
    | Some (si, sp) =>
        match find_entry_chunks 0 (cl_chunks cl) rl ep false with
        | Some (di, dp) =>
            (bump (with_clusters s (ainsert name
               {| cl_epoch := st_epoch s + 1;
                  cl_chunks := compact_slots (commit_in (map (Fk rl (mkMeta ep si sp di dp)) (cl_chunks cl)) rl (mkMeta ep si sp di dp));
                  cl_config := cl_config cl |} (st_clusters s))), Done tt)
        | None => (s, Fail E_MigrationTaskNotFound)
        end
    | None => (s, Fail E_MigrationTaskNotFound)
    end)).
  { destruct (find_entry_chunks 0 (cl_chunks cl) rl ep true) as [[si sp]|] eqn:Eo; cbn [fst]; [|exact H].
    destruct (find_entry_chunks 0 (cl_chunks cl) rl ep false) as [[di dp]|] eqn:Ei; cbn [fst]; [|exact H].
    eapply store_inv_insert; [exact H| |reflexivity].
    unfold cluster_inv. cbn [cl_chunks]. apply part_inv_compact. apply commit_chunks_part_inv; assumption. }
  destruct tag; cbn [fst]; [exact H|exact Hmain|exact Hmain].
Qed.
