(* Tracking the number k of slot-holding chunks of ONE cluster through commits, failovers and role balancing:
   these operations keep `balanced_at k` for the same k. *)
From UM Require Import Base.BytesDef Model.Ranges Model.Broker Proofs.BrokerBase Proofs.BrokerPartRanges Proofs.BrokerPartDefs
  Proofs.BrokerPartOpsFrame Proofs.BrokerPartOpsFail Proofs.BrokerPartOpsNodes Proofs.BrokerPartOpsCommit Proofs.BrokerPartOps
  Proofs.BrokerBalanceDefs Proofs.BrokerBalanceCompact Proofs.BrokerBalanceFrame Proofs.BrokerBalanceCommit.
From Coq Require Import ZifyBool ZifyNat ZifyN.

Section TrackK.
Variables (name : N) (k : nat).

Definition at_k (s : store) : Prop := forall cl, alookup name (st_clusters s) = Some cl -> balanced_at k (cl_chunks cl).

Lemma at_k_clusters s s' : st_clusters s' = st_clusters s -> at_k s -> at_k s'.
Proof. intros E H cl Hl. rewrite E in Hl. exact (H cl Hl). Qed.

Lemma at_k_insert s s' n c :
  at_k s -> (n = name -> balanced_at k (cl_chunks c)) -> st_clusters s' = ainsert n c (st_clusters s) -> at_k s'.
Proof.
  intros H Hc E cl Hl. rewrite E, alookup_ainsert in Hl. destruct (N.eqb name n) eqn:En.
  - inversion Hl; subst cl. apply Hc. apply N.eqb_eq in En. congruence.
  - exact (H cl Hl).
Qed.

Lemma commit_migration_at_k s n rl tag ep :
  store_part_inv s -> at_k s -> at_k (fst (commit_migration s n rl tag ep)).
Proof.
  intros Hp H. unfold commit_migration.
  destruct (alookup n (st_clusters s)) as [cl|] eqn:E; cbn [fst]; [|exact H].
  assert (Hcl : part_inv (cl_chunks cl)) by (eapply store_inv_lookup; eassumption).
  assert (Hmain : at_k (fst
    match find_entry_chunks 0 (cl_chunks cl) rl ep true with
    | Some (si, sp) =>
        match find_entry_chunks 0 (cl_chunks cl) rl ep false with
        | Some (di, dp) =>
            (bump (with_clusters s (ainsert n
               {| cl_epoch := st_epoch s + 1;
                  cl_chunks := compact_slots (commit_in (map (Fk rl (mkMeta ep si sp di dp)) (cl_chunks cl)) rl (mkMeta ep si sp di dp));
                  cl_config := cl_config cl |} (st_clusters s))), Done tt)
        | None => (s, Fail E_MigrationTaskNotFound)
        end
    | None => (s, Fail E_MigrationTaskNotFound)
    end)).
  { destruct (find_entry_chunks 0 (cl_chunks cl) rl ep true) as [[si sp]|] eqn:Eo; cbn [fst]; [|exact H].
    destruct (find_entry_chunks 0 (cl_chunks cl) rl ep false) as [[di dp]|] eqn:Ei; cbn [fst]; [|exact H].
    eapply at_k_insert; [exact H| |reflexivity].
    intros ->. cbn [cl_chunks]. apply balanced_at_compact.
    - apply commit_chunks_part_inv; assumption.
    - apply commit_chunks_balanced; try assumption. apply H. exact E. }
  destruct tag; cbn [fst]; [exact H|exact Hmain|exact Hmain].
Qed.

Lemma auto_delete_free_nodes_at_k s n : store_part_inv s -> at_k s -> at_k (fst (auto_delete_free_nodes s n)).
Proof.
  intros Hp H. unfold auto_delete_free_nodes.
  destruct (alookup n (st_clusters s)) as [cl|] eqn:E; cbn [fst]; [|exact H].
  destruct (cluster_is_migrating cl); cbn [fst]; [exact H|].
  destruct (filter chunk_is_free (cl_chunks cl)) eqn:Ef; cbn [fst]; [exact H|].
  eapply at_k_insert; [exact H| |reflexivity].
  intros ->. cbn [cl_chunks]. apply balanced_at_filter_nonfree; [eapply store_inv_lookup; eassumption|]. apply H. exact E.
Qed.

Lemma auto_delete_free_nodes_if_exists_at_k s n :
  store_part_inv s -> at_k s -> at_k (fst (auto_delete_free_nodes_if_exists s n)).
Proof. intros Hp H. rewrite auto_delete_if_exists_fst. apply auto_delete_free_nodes_at_k; assumption. Qed.

Lemma commit_migration_api_at_k s n rl tag e clr :
  store_part_inv s -> at_k s -> at_k (fst (commit_migration_api s n rl tag e clr)).
Proof.
  intros Hp H. unfold commit_migration_api.
  pose proof (commit_migration_part_inv s n rl tag e Hp) as Hp1.
  pose proof (commit_migration_at_k s n rl tag e Hp H) as H1.
  destruct (commit_migration s n rl tag e) as [s' [[]|err|]]; cbn [fst] in *; try exact H1.
  destruct clr; cbn [fst]; [|exact H1]. apply auto_delete_free_nodes_if_exists_at_k; assumption.
Qed.

Lemma takeover_master_balanced_at cl failed ne :
  balanced_at k (cl_chunks cl) -> balanced_at k (cl_chunks (takeover_master cl failed ne)).
Proof.
  unfold takeover_master. intros H.
  destruct (takeover_first (cl_chunks cl) failed ne) as [[chunks1 ps]|] eqn:E; [|exact H].
  cbn [cl_chunks]. apply takeover_first_spec in E.
  eapply (balanced_at_map_entries k (reepoch_peers ps ne)); [apply keeps_shape_reepoch| |exact H].
  eapply Forall2_map_right; [|exact E].
  intros c c1 (E0 & E1 & T0 & T1). unfold chunk_rel.
  cbn [set_mig ck_stable0 ck_stable1 ck_mig0 ck_mig1].
  split; [exact E0|]. split; [exact E1|]. split.
  - destruct T0 as [->|[-> Hf]]; [reflexivity|apply reepoch_absorbs; exact Hf].
  - destruct T1 as [->|[-> Hf]]; [reflexivity|apply reepoch_absorbs; exact Hf].
Qed.

Lemma replace_failed_proxy_at_k s failed choice : at_k s -> at_k (fst (replace_failed_proxy s failed choice)).
Proof.
  intros H. unfold replace_failed_proxy.
  destruct (alookup failed (st_proxies s)) as [fr|]; cbn [fst]; [|exact H].
  destruct (pr_cluster fr) as [n|]; cbn [fst]; [|eapply at_k_clusters; [|exact H]; reflexivity].
  assert (H1 : at_k (bump s)) by (eapply at_k_clusters; [|exact H]; reflexivity).
  destruct (alookup n (st_clusters (bump s))) as [cl|] eqn:E; cbn [fst]; [|exact H1].
  set (s2 := with_clusters (bump s) (ainsert n (takeover_master cl failed (st_epoch (bump s))) (st_clusters (bump s)))).
  assert (H2 : at_k s2).
  { eapply at_k_insert; [exact H1| |reflexivity]. intros ->. apply takeover_master_balanced_at. apply H1. exact E. }
  destruct (st_ordered s2); cbn [fst]; [eapply at_k_clusters; [|exact H2]; reflexivity|].
  set (s3 := with_failed s2 (sinsert failed (st_failed s2))).
  assert (H3 : at_k s3) by (eapply at_k_clusters; [|exact H2]; reflexivity).
  destruct (generate_new_free_proxy s3 failed choice) as [r| |]; cbn [fst]; try exact H3.
  assert (H4 : at_k (bump s3)) by (eapply at_k_clusters; [|exact H3]; reflexivity).
  destruct (alookup n (st_clusters (bump s3))) as [cl2|] eqn:E2; cbn [fst]; [|exact H4].
  eapply at_k_insert; [exact H4| |reflexivity].
  intros ->. cbn [cl_chunks]. eapply balanced_at_same_slots; [apply replace_in_chunks_same|]. apply H4. exact E2.
Qed.

Lemma balance_masters_at_k s n : at_k s -> at_k (fst (balance_masters s n)).
Proof.
  intros H. unfold balance_masters. destruct (alookup n (st_clusters s)) as [cl|] eqn:E; cbn [fst]; [|exact H].
  eapply at_k_insert; [exact H| |reflexivity].
  intros ->. cbn [cl_chunks].
  eapply balanced_at_same_slots; [|apply H; exact E].
  apply Forall2_map_self. intros c.
  destruct (_ || _); [apply same_slots_refl|apply same_slots_set_role].
Qed.

End TrackK.
