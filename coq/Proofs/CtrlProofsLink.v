(* Link between the control-plane model's accept rule and the proxy model of C05 (Model/Epoch.v): for a message whose
   local addresses belong to the proxy and whose flags do not contain FORCE - the only messages a coordinator sends -
   MetaManager::set_meta as modelled in Epoch.set_cluster is exactly Ctrl.accept on the cluster epoch. *)
From UM Require Import Base.BytesDef Model.Ctrl Model.Epoch.

Lemma accept_is_set_cluster : forall h s m,
  hosts_ok h (cm_locals m) = true -> flag_force (cm_flags m) = false ->
  let ks := {| k_epoch := Epoch.cl_epoch s; k_content := 0 |} in
  Epoch.cl_epoch (fst (set_cluster h s m)) = k_epoch (fst (accept ks (cm_epoch m) (cm_content m)))
  /\ (snd (set_cluster h s m) = Epoch.OK <-> snd (accept ks (cm_epoch m) (cm_content m)) = Ctrl.OK)
  /\ (snd (set_cluster h s m) = Epoch.OLD_EPOCH <-> snd (accept ks (cm_epoch m) (cm_content m)) = Ctrl.OLD_EPOCH)
  /\ (snd (set_cluster h s m) = Epoch.OK -> cl_meta (fst (set_cluster h s m)) = Some (cm_content m, cm_route m)).
Proof.
  intros h s m Hh Hf ks. unfold set_cluster, accept. rewrite Hh, Hf. cbn [negb andb k_epoch ks].
  rewrite Bool.andb_true_r.
  destruct (N.leb (cm_epoch m) (Epoch.cl_epoch s)); cbn [fst snd Epoch.cl_epoch k_epoch cl_meta];
    repeat split; intros; try reflexivity; try discriminate.
Qed.
