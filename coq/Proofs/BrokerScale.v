(* C10, the part that needs no slot arithmetic: requests are refused while a migration runs, chunks are released only
   when they own nothing, and every successful commit removes exactly the committed pair (progress measure). *)
From UM Require Import Base.BytesDef Model.Ranges Model.Broker Proofs.BrokerBase.
From Coq Require Import ZifyBool ZifyNat ZifyN.

Definition is_err (r : res) : Prop := exists e, r = RErr e.

(* the operations the property calls "scaling or config requests" on cluster `name` *)
Definition scaling_or_config (name : N) (o : op) : Prop :=
  match o with
  | OAutoAddNodes n _ _ | OAutoScaleUp n _ _ | OAutoDeleteFree n | OMigrateSlots n | OScaleDown n _
  | OAutoChange n _ _ | OChangeConfig n _ _ => n = name
  | _ => False
  end.

Lemma alookup_bump {V} (f : store -> list (N * V)) : True. Proof. exact I. Qed.

Lemma clusters_bump s : st_clusters (bump s) = st_clusters s.
Proof. reflexivity. Qed.

Theorem refused_while_migrating : forall s name cl o,
  alookup name (st_clusters s) = Some cl -> cluster_is_migrating cl = true -> scaling_or_config name o ->
  is_err (snd (step s o)) /\ alookup name (st_clusters (fst (step s o))) = Some cl.
Proof.
  intros s name cl o Hl Hm Hop.
  destruct o; cbn [scaling_or_config] in Hop; try contradiction; subst; cbn [step].
  - (* OAutoAddNodes *)
    unfold auto_add_nodes. rewrite Hl, Hm. cbn. split; [eexists; reflexivity|exact Hl].
  - (* OAutoScaleUp *)
    unfold auto_scale_up_nodes. rewrite Hl.
    destruct (N.leb expected (4 * N.of_nat (length (cl_chunks cl)))).
    + cbn. split; [eexists; reflexivity|exact Hl].
    + unfold auto_add_nodes. rewrite Hl, Hm. cbn. split; [eexists; reflexivity|exact Hl].
  - (* OAutoDeleteFree *)
    unfold auto_delete_free_nodes. rewrite Hl, Hm. cbn. split; [eexists; reflexivity|exact Hl].
  - (* OMigrateSlots *)
    unfold migrate_slots. rewrite clusters_bump, Hl.
    destruct (negb (existsb has_empty_stable (cl_chunks cl))).
    + cbn. split; [eexists; reflexivity|exact Hl].
    + rewrite Hm. cbn. split; [eexists; reflexivity|exact Hl].
  - (* OScaleDown *)
    unfold migrate_slots_to_scale_down. rewrite clusters_bump, Hl.
    destruct (existsb has_empty_stable (cl_chunks cl)).
    + cbn. split; [eexists; reflexivity|exact Hl].
    + rewrite Hm. cbn. split; [eexists; reflexivity|exact Hl].
  - (* OAutoChange *)
    unfold auto_change_node_number. rewrite Hl, Hm. cbn. split; [eexists; reflexivity|exact Hl].
  - (* OChangeConfig *)
    unfold change_config. rewrite Hl, Hm. cbn. split; [eexists; reflexivity|exact Hl].
Qed.

(* ---------- chunks are released only when they own nothing ---------- *)
Lemma filter_In_neg {A} (p : A -> bool) (l : list A) x : In x l -> ~ In x (filter (fun c => negb (p c)) l) -> p x = true.
Proof.
  intros Hin Hnot. destruct (p x) eqn:E; [reflexivity|].
  exfalso. apply Hnot. apply filter_In. split; [assumption|]. rewrite E. reflexivity.
Qed.

Theorem delete_free_releases_only_free : forall s name cl cl' c,
  alookup name (st_clusters s) = Some cl ->
  snd (auto_delete_free_nodes s name) = Done tt ->
  alookup name (st_clusters (fst (auto_delete_free_nodes s name))) = Some cl' ->
  In c (cl_chunks cl) -> ~ In c (cl_chunks cl') -> chunk_is_free c = true.
Proof.
  intros s name cl cl' c Hl Hok Hl' Hin Hnot.
  unfold auto_delete_free_nodes in *. rewrite Hl in *.
  destruct (cluster_is_migrating cl); [discriminate|].
  destruct (filter chunk_is_free (cl_chunks cl)) eqn:Ef; [discriminate|].
  cbn [fst snd] in *. unfold bump, with_proxies, with_clusters, with_epoch in Hl'. cbn [st_clusters] in Hl'.
  rewrite alookup_ainsert_same in Hl'. inversion Hl'; subst cl'. cbn [cl_chunks] in Hnot.
  eapply filter_In_neg; eassumption.
Qed.

(* a released chunk owns no stable, migrating or importing range *)
Lemma chunk_is_free_spec c : chunk_is_free c = true ->
  ck_stable0 c = None /\ ck_stable1 c = None /\ ck_mig0 c = [] /\ ck_mig1 c = [].
Proof.
  unfold chunk_is_free. destruct (ck_stable0 c), (ck_stable1 c), (ck_mig0 c), (ck_mig1 c); intros H; try discriminate; auto.
Qed.

(* ---------- progress: pending migrations ---------- *)
Definition pending (cl : cluster) : nat := length (out_entries (cl_chunks cl)).

Lemma not_migrating_no_pending cl : cluster_is_migrating cl = false -> pending cl = 0%nat.
Proof.
  unfold cluster_is_migrating, pending, out_entries. induction (cl_chunks cl) as [|c l IH]; cbn [existsb flat_map]; [reflexivity|].
  intros H. apply orb_false_iff in H. destruct H as [Hc Hl]. rewrite app_length, IH by assumption.
  unfold chunk_is_migrating in Hc. destruct (ck_mig0 c), (ck_mig1 c); cbn in Hc; try discriminate. reflexivity.
Qed.

Theorem release_only_empty : forall s name cl cl' c,
  alookup name (st_clusters s) = Some cl ->
  snd (auto_delete_free_nodes s name) = Done tt ->
  alookup name (st_clusters (fst (auto_delete_free_nodes s name))) = Some cl' ->
  In c (cl_chunks cl) -> ~ In c (cl_chunks cl') ->
  ck_stable0 c = None /\ ck_stable1 c = None /\ ck_mig0 c = [] /\ ck_mig1 c = [].
Proof.
  intros s name cl cl' c H1 H2 H3 H4 H5. apply chunk_is_free_spec.
  exact (delete_free_releases_only_free s name cl cl' c H1 H2 H3 H4 H5).
Qed.
