(* C16, part A: the cost-annotated parser computes the same results as Model/Resp.v (so every C15 theorem applies to it)
   and never panics on buffers below 2^58 bytes; bounds on consumed bytes, allocation, recursion depth and tree size. *)
From UM Require Import Base.BytesDef Base.Dec Base.RespT Model.Resp Model.Cost
  Proofs.RespProofsA Proofs.RespProofsB Proofs.RespProofsC.
From Coq Require Import ZifyBool ZifyNat ZifyN.

Definition small (b : bytes) : Prop := N.of_nat (length b) < 288230376151711744.   (* 2^58 *)

Definition cres_bind {A B} (r : cres A) (k : A -> nat -> cres B) : cres B :=
  match r with
  | COk v n => k v n
  | CNeed => CNeed
  | CInvalid => CInvalid
  | CUnexpected => CUnexpected
  | CFuel => CFuel
  | CPanic => CPanic
  end.

Lemma fst_cbind : forall A B (rc : cres A * cost) (k : A -> nat -> cres B * cost),
  fst (cbind rc k) = cres_bind (fst rc) (fun v n => fst (k v n)).
Proof.
  intros A B [r c] k. destruct r; cbn [cbind fst cres_bind]; try reflexivity. destruct (k v consumed). reflexivity.
Qed.

Lemma of_pres_pbind : forall A B (r : pres A) (k : A -> nat -> pres B),
  of_pres (pbind r k) = cres_bind (of_pres r) (fun v n => of_pres (k v n)).
Proof. intros A B r k. destruct r; reflexivity. Qed.

Lemma cres_bind_ext : forall A B (r : cres A) (k1 k2 : A -> nat -> cres B),
  (forall v n, r = COk v n -> k1 v n = k2 v n) -> cres_bind r k1 = cres_bind r k2.
Proof. intros A B r k1 k2 H. destruct r; cbn [cres_bind]; auto. Qed.

Lemma btou_bound : forall maxv l v, btou maxv l = Some v -> v <= maxv.
Proof.
  intros maxv l v H. unfold btou in H. destruct l as [|c l]; [discriminate|].
  destruct (btou_acc_sound _ _ _ _ H) as [(_ & _ & Hm)|(Hnil & _)]; [exact Hm|discriminate].
Qed.

Lemma btoi_upper : forall l z, btoi_i64 l = Some z -> (z <= 9223372036854775807)%Z.
Proof.
  intros l z H. unfold btoi_i64 in H. destruct l as [|c0 r0]; [discriminate|].
  destruct (N.eqb c0 43).
  - destruct (btou i64_max r0) as [m|] eqn:E; [|discriminate]. pose proof (btou_bound _ _ _ E) as Hm.
    cbn [option_map] in H. inversion H. unfold i64_max in Hm. lia.
  - destruct (N.eqb c0 45).
    + destruct r0 as [|c1 r1]; [discriminate|]. destruct (bton_acc i64_minmag 0 (c1 :: r1)) as [m|]; [|discriminate].
      cbn [option_map] in H. inversion H. lia.
    + destruct (btou i64_max (c0 :: r0)) as [m|] eqn:E; [|discriminate]. pose proof (btou_bound _ _ _ E) as Hm.
      cbn [option_map] in H. inversion H. unfold i64_max in Hm. lia.
Qed.

(* ---------- erasure: results agree with Model/Resp.v ---------- *)

Lemma parse_len_c_fst : forall b, fst (parse_len_c b) = of_pres (parse_len b).
Proof.
  intros b. unfold parse_len_c, parse_len. rewrite fst_cbind, of_pres_pbind. cbn [parse_line_c fst].
  apply cres_bind_ext. intros d n _. cbn [fst]. destruct (slice b (fst d) (snd d)) as [l|]; [|reflexivity].
  destruct (btoi_i64 l); reflexivity.
Qed.

Lemma parse_bulk_c_fst : forall b, small b -> fst (parse_bulk_str_c b) = of_pres (parse_bulk_str b).
Proof.
  intros b Hs. unfold parse_bulk_str_c, parse_bulk_str. rewrite fst_cbind, of_pres_pbind, parse_len_c_fst.
  apply cres_bind_ext. intros len n Hn.
  assert (Hb : (n <= length b)%nat).
  { destruct (parse_len b) as [z c| | | |] eqn:E; try discriminate. cbn [of_pres] in Hn. inversion Hn; subst.
    destruct (parse_len_inv _ _ _ E) as (num & r & -> & _ & ->). rewrite app_length. cbn [length]. lia. }
  destruct (Z.ltb len 0) eqn:Ez; [reflexivity|].
  assert (Hl : (len < 9223372036854775808)%Z).
  { destruct (parse_len b) as [z c| | | |] eqn:E; try discriminate. cbn [of_pres] in Hn. inversion Hn; subst.
    destruct (parse_len_inv _ _ _ E) as (num & r & _ & Hbt & _). pose proof (btoi_upper _ _ Hbt). lia. }
  unfold small in Hs. unfold USIZE_MOD.
  destruct (N.leb 18446744073709551616 (N.of_nat n + Z.to_N len + 2)) eqn:E1; [lia|].
  cbn [fst]. destruct (N.ltb _ _); [reflexivity|].
  destruct (slice _ _ _); [|reflexivity]. destruct (bytes_eqb _ _); reflexivity.
Qed.

Definition prc_erases (prc : bytes -> cres iresp * cost) (pr : bytes -> pres iresp) : Prop :=
  forall x, small x -> fst (prc x) = of_pres (pr x).

Lemma small_skipn : forall b c, small b -> small (skipn c b).
Proof. intros b c H. unfold small in *. rewrite skipn_length. lia. Qed.

Lemma parse_elems_c_fst : forall prc pr, prc_erases prc pr ->
  forall k n b c, small b -> fst (parse_elems_c prc k n b c) = of_pres (parse_elems pr k n b c).
Proof.
  intros prc pr He. induction k as [|k IH]; intros n b c Hs; cbn [parse_elems_c parse_elems].
  - destruct (N.eqb n 0); reflexivity.
  - destruct (N.eqb n 0); [reflexivity|]. destruct (length b <? c)%nat; [reflexivity|].
    rewrite fst_cbind, of_pres_pbind. rewrite (He _ (small_skipn b c Hs)).
    apply cres_bind_ext. intros v ec _. rewrite fst_cbind, of_pres_pbind. rewrite (IH _ _ _ Hs).
    apply cres_bind_ext. intros vs c' _. reflexivity.
Qed.

Lemma parse_array_c_fst : forall prc pr, prc_erases prc pr ->
  forall b, small b -> fst (parse_array_c prc b) = of_pres (parse_array pr b).
Proof.
  intros prc pr He b Hs. unfold parse_array_c, parse_array. rewrite fst_cbind, of_pres_pbind, parse_len_c_fst.
  apply cres_bind_ext. intros len n _. destruct (Z.ltb len 0); [reflexivity|].
  unfold small in Hs. unfold ISIZE_MAX, ELEM_SIZE.
  destruct (N.ltb 9223372036854775807 (N.min (Z.to_N len) (N.of_nat (length b)) * 32)) eqn:E; [lia|].
  rewrite fst_cbind. cbn [fst cres_bind]. rewrite fst_cbind, of_pres_pbind.
  rewrite (parse_elems_c_fst prc pr He _ _ _ _ Hs). apply cres_bind_ext. intros vs c' _. reflexivity.
Qed.

Lemma small_tail : forall p nb, small (p :: nb) -> small nb.
Proof. intros p nb H. unfold small in *. cbn [length] in H. lia. Qed.

Lemma parse_resp_c_fst : forall rem, prc_erases (parse_resp_c rem) (parse_resp rem).
Proof.
  induction rem as [|rem IH]; intros b Hs; (destruct b as [|p nb]; [reflexivity|]);
    pose proof (small_tail _ _ Hs) as Hn; cbn [parse_resp_c parse_resp].
  - destruct (N.eqb p c_dollar).
    { destruct (cbind (parse_bulk_str_c nb) _) as [r c] eqn:E. cbn [fst].
      change r with (fst (r, c)). rewrite <- E. rewrite fst_cbind, of_pres_pbind, (parse_bulk_c_fst _ Hn).
      apply cres_bind_ext. reflexivity. }
    destruct (N.eqb p c_plus).
    { destruct (cbind (parse_line_c nb) _) as [r c] eqn:E. cbn [fst].
      change r with (fst (r, c)). rewrite <- E. rewrite fst_cbind, of_pres_pbind. reflexivity. }
    destruct (N.eqb p c_colon).
    { destruct (cbind (parse_line_c nb) _) as [r c] eqn:E. cbn [fst].
      change r with (fst (r, c)). rewrite <- E. rewrite fst_cbind, of_pres_pbind. reflexivity. }
    destruct (N.eqb p c_minus).
    { destruct (cbind (parse_line_c nb) _) as [r c] eqn:E. cbn [fst].
      change r with (fst (r, c)). rewrite <- E. rewrite fst_cbind, of_pres_pbind. reflexivity. }
    destruct (N.eqb p c_star); reflexivity.
  - destruct (N.eqb p c_dollar).
    { destruct (cbind (parse_bulk_str_c nb) _) as [r c] eqn:E. cbn [fst].
      change r with (fst (r, c)). rewrite <- E. rewrite fst_cbind, of_pres_pbind, (parse_bulk_c_fst _ Hn).
      apply cres_bind_ext. reflexivity. }
    destruct (N.eqb p c_plus).
    { destruct (cbind (parse_line_c nb) _) as [r c] eqn:E. cbn [fst].
      change r with (fst (r, c)). rewrite <- E. rewrite fst_cbind, of_pres_pbind. reflexivity. }
    destruct (N.eqb p c_colon).
    { destruct (cbind (parse_line_c nb) _) as [r c] eqn:E. cbn [fst].
      change r with (fst (r, c)). rewrite <- E. rewrite fst_cbind, of_pres_pbind. reflexivity. }
    destruct (N.eqb p c_minus).
    { destruct (cbind (parse_line_c nb) _) as [r c] eqn:E. cbn [fst].
      change r with (fst (r, c)). rewrite <- E. rewrite fst_cbind, of_pres_pbind. reflexivity. }
    destruct (N.eqb p c_star); [|reflexivity].
    destruct (cbind (parse_array_c (parse_resp_c rem) nb) _) as [r c] eqn:E. cbn [fst].
    change r with (fst (r, c)). rewrite <- E. rewrite fst_cbind, of_pres_pbind.
    rewrite (parse_array_c_fst _ _ IH _ Hn). apply cres_bind_ext. reflexivity.
Qed.

(* the decode call: same result as the C15 model; in particular no panic, no UnexpectedErr, no exhausted fuel *)
Lemma decode_cost_result : forall b, small b ->
  fst (decode_cost b) = of_pres (parse_resp MAX_ARRAY_NESTING b).
Proof.
  intros b Hs. unfold decode_cost. rewrite fst_cbind, (parse_resp_c_fst _ _ Hs).
  destruct (parse_resp MAX_ARRAY_NESTING b) as [ix n| | | |] eqn:E; try reflexivity. cbn [of_pres cres_bind].
  pose proof (parse_resp_bounds _ _ _ _ E). destruct (length b <? n)%nat eqn:El; [lia|]. reflexivity.
Qed.

Lemma decode_cost_no_panic : forall b, small b ->
  fst (decode_cost b) <> CPanic /\ fst (decode_cost b) <> CFuel /\ fst (decode_cost b) <> CUnexpected.
Proof.
  intros b Hs. rewrite (decode_cost_result b Hs). pose proof (parse_resp_clean MAX_ARRAY_NESTING b) as [H1 H2].
  destruct (parse_resp MAX_ARRAY_NESTING b); cbn [of_pres]; repeat split; try discriminate; congruence.
Qed.
