(* Frame lemmas: how the per-operation invariant Loc and the global invariant Glob survive each kind of change of the
   shared state made by ANOTHER agent (property C03). *)
From UM Require Import Base.BytesDef Base.RespT Model.Ttl Model.Migrate Proofs.TtlProofs Proofs.MigrateProofsBase
  Proofs.MigrateProofsInv.

Ltac loc_start L :=
  destruct L as [Lk Ls Lw Lf Lh Ld Lp Ln Lq Lx]; constructor; simp_g; auto.

(* ---------- locks ---------- *)
Lemma fr_klock_release : forall g i j oj, klock g = Some i -> j <> i -> Loc g j oj -> Loc (set_klock g None) j oj.
Proof. intros g i j oj Hk N L. loc_start L. intros H. apply Lk in H. congruence. Qed.

Lemma fr_klock_acquire : forall g i j oj, klock g = None -> Loc g j oj -> Loc (set_klock g (Some i)) j oj.
Proof. intros g i j oj Hk L. loc_start L. intros H. apply Lk in H. congruence. Qed.

Lemma fr_slock_release : forall g i j oj, slock g = Some (HOp i) -> j <> i -> Loc g j oj -> Loc (set_slock g None) j oj.
Proof. intros g i j oj Hk N L. loc_start L. intros H. apply Ls in H. congruence. Qed.

Lemma fr_slock_release_scan : forall g j oj, slock g = Some HScan -> Loc g j oj -> Loc (set_slock g None) j oj.
Proof. intros g j oj Hk L. loc_start L. intros H. apply Ls in H. congruence. Qed.

Lemma fr_slock_acquire : forall g h j oj, slock g = None -> Loc g j oj -> Loc (set_slock g (Some h)) j oj.
Proof. intros g h j oj Hk L. loc_start L. intros H. apply Ls in H. congruence. Qed.

(* ---------- data ---------- *)
Lemma restore_not_none : forall e raw t, redis_restore e raw t <> None.
Proof. intros [x|] raw t; cbn; congruence. Qed.
Lemma restore_is_none : forall e raw t, is_none (redis_restore e raw t) = false.
Proof. intros [x|] raw t; cbn; congruence. Qed.

Lemma fr_restore : forall g raw t j oj, Loc g j oj -> Loc (set_dst g (redis_restore (dst g) raw t)) j oj.
Proof.
  intros g raw t j oj L. loc_start L.
  - intros r t' H. destruct (Lh _ _ H) as [H1 H2]. split; auto. intros E. exfalso. eapply restore_not_none; eauto.
  - intros r H _ E. exfalso. eapply restore_not_none; eauto.
  - intros r H _ E. exfalso. eapply restore_not_none; eauto.
  - intros _ _. apply restore_is_none.
  - intros _ E. exfalso. eapply restore_not_none; eauto.
Qed.

Lemma fr_dst_some : forall g x j oj, Loc g j oj -> Loc (set_dst g (Some x)) j oj.
Proof.
  intros g x j oj L. loc_start L; try (intros; discriminate).
  intros r t' H. destruct (Lh _ _ H) as [H1 H2]. split; auto. intros; discriminate.
Qed.

(* the source copy is deleted by an agent whose RESTORE has been answered *)
Lemma fr_src_del : forall g j oj,
  (is_none (src g) = false -> is_none (dst g) = false) -> Loc g j oj -> Loc (set_src g None) j oj.
Proof.
  intros g j oj D L. loc_start L; try (intros; discriminate).
  intros r t H. destruct (Lh _ _ H) as [H1 H2]. split; auto. intros E.
  destruct (src g) eqn:Es.
  - specialize (D eq_refl). rewrite E in D. discriminate.
  - apply H2 in E. cbn in E. destruct E; discriminate.
Qed.

(* a delete executes on the destination: the source copy is gone and no transfer holds a dumped value *)
Lemma fr_dst_del : forall g j oj, src g = None -> holder (opc oj) = false -> Loc g j oj -> Loc (set_dst g None) j oj.
Proof.
  intros g j oj S Hh L. loc_start L.
  - intros r t H. exfalso. assert (X : held oj <> None) by congruence. apply held_holder in X. congruence.
  - intros r H E. rewrite S in E. discriminate.
  - intros t H E. rewrite S in E. discriminate.
  - intros _ E. rewrite S in E. discriminate.
Qed.

(* a client command executes on the source Redis before the source observed blocking-done *)
Lemma fr_src_exec : forall g x j oj, frozen g = false -> Wf oj -> Loc g j oj -> Loc (set_src g x) j oj.
Proof.
  intros g x j oj F W L. loc_start L.
  - intros r t H. apply held_handler in H. apply Lf in H. congruence.
  - intros r H. apply hdump_handler in H. apply Lf in H. congruence.
  - intros t H. apply hpttl_handler in H. apply Lf in H. congruence.
  - intros H. apply none_handler in H. apply Lf in H. congruence.
  - intros H. apply delp_handler in H; auto. apply Lf in H. congruence.
  - intros H. apply fwd_handler in H. apply Lf in H. congruence.
Qed.

(* ---------- phases, scanner position ---------- *)
Lemma fr_sph : forall g p j oj, (frozen g = true -> frozen (set_sph g p) = true) -> Loc g j oj -> Loc (set_sph g p) j oj.
Proof. intros g p j oj M L. loc_start L. Qed.

Lemma fr_dph : forall g p j oj, Loc g j oj -> Loc (set_dph g p) j oj.
Proof. intros g p j oj L. loc_start L. Qed.

Lemma fr_commit : forall g j oj, holder (opc oj) = false -> Loc g j oj -> Loc (set_committed g true) j oj.
Proof.
  intros g j oj Hh L. loc_start L.
  intros r t H. exfalso. assert (X : held oj <> None) by congruence. apply held_holder in X. congruence.
Qed.

Lemma fr_scan : forall g p j oj, (in_slow (opc oj) = true -> visiting p = false) -> Loc g j oj -> Loc (set_scan g p) j oj.
Proof. intros g p j oj M L. loc_start L. Qed.

(* ---------- the same for the global invariant ---------- *)
Ltac glob_start G :=
  destruct G as [Gw Gs Gd Gp Gv Gf Gc Gt Gr Gl Ga]; constructor; simp_g; auto.

Lemma gf_klock : forall g x, Glob g -> Glob (set_klock g x).
Proof. intros g x G. glob_start G. Qed.

Lemma gf_slock_op_release : forall g i, slock g = Some (HOp i) -> Glob g -> Glob (set_slock g None).
Proof. intros g i S G. glob_start G. intros H. apply Gv in H. destruct H; congruence. Qed.

Lemma gf_slock_op_acquire : forall g i, slock g = None -> Glob g -> Glob (set_slock g (Some (HOp i))).
Proof. intros g i S G. glob_start G. intros H. apply Gv in H. destruct H; congruence. Qed.

Lemma gf_restore : forall g raw t, frozen g = true -> Glob g -> Glob (set_dst g (redis_restore (dst g) raw t)).
Proof.
  intros g raw t F G. glob_start G.
  - intros H. congruence.
  - intros t' H. specialize (Gt _ H). destruct (bytes_eqb t' PTTL_KEY_NOT_FOUND); auto.
    intros _ E. exfalso. eapply restore_not_none; eauto.
  - intros r t' _ E. exfalso. eapply restore_not_none; eauto.
  - intros _ _. apply restore_is_none.
Qed.

Lemma gf_dst_some : forall g x, frozen g = true -> Glob g -> Glob (set_dst g (Some x)).
Proof.
  intros g x F G. glob_start G; try (intros; discriminate).
  - intros H. congruence.
  - intros t' H. specialize (Gt _ H). destruct (bytes_eqb t' PTTL_KEY_NOT_FOUND); auto. intros; discriminate.
Qed.

Lemma gf_src_del : forall g, (is_none (src g) = false -> is_none (dst g) = false) -> Glob g -> Glob (set_src g None).
Proof.
  intros g D G. glob_start G; try (intros; discriminate).
  - intros t' H. specialize (Gt _ H). destruct (bytes_eqb t' PTTL_KEY_NOT_FOUND); auto. intros; discriminate.
  - intros r t H E. destruct (src g) eqn:Es.
    + specialize (D eq_refl). rewrite E in D. discriminate.
    + destruct (Gr _ _ H E); discriminate.
Qed.

Lemma gf_dst_del : forall g, src g = None -> scan_holder (scan g) = false -> Glob g -> Glob (set_dst g None).
Proof.
  intros g S Hh G. glob_start G.
  - intros t' H. specialize (Gt _ H). destruct (bytes_eqb t' PTTL_KEY_NOT_FOUND); auto. intros E. rewrite S in E. discriminate.
  - intros r t H. rewrite H in Hh. discriminate.
  - intros _ E. rewrite S in E. discriminate.
Qed.

Lemma unfrozen_before : forall g, Glob g -> frozen g = false -> scan g = SBefore.
Proof.
  intros g G F. destruct G as [_ _ _ Gp _ _ _ _ _ _ _]. unfold frozen in F. apply negb_false_iff in F.
  destruct (scan g) eqn:E; auto; cbn in Gp; specialize (Gp eq_refl); destruct (sph g); cbn in *; discriminate.
Qed.

Lemma gf_src_exec : forall g x, frozen g = false ->
  (forall raw t, x = Some (raw, t) -> bytes_eqb t PTTL_KEY_NOT_FOUND = false) -> Glob g -> Glob (set_src g x).
Proof.
  intros g x F Wx G. pose proof (unfrozen_before _ G F) as B. glob_start G; rewrite B; try (intros; discriminate).
Qed.
