(* C04 / C13: assembly over step and run. *)
From UM Require Import Base.BytesDef Model.Ranges Model.Broker Proofs.BrokerBase Proofs.BrokerEpochReach
     Proofs.BrokerEpochInv Proofs.BrokerEpochOps.
From Coq Require Import ZifyBool ZifyNat ZifyN Lia.

(* ---------- epoch_inv on every reachable store ---------- *)
Lemma epoch_inv_step s o : epoch_inv s -> op_wf epoch_inv o -> epoch_inv (fst (step s o)).
Proof.
  intros Hinv Ho. destruct (is_restore o) eqn:E.
  - destruct o; try discriminate. cbn [step op_wf] in *. rewrite fst_lift_unit. apply restore_inv; assumption.
  - assert (Hno : ~ restore_ok s o) by (intros [snap [-> _]]; discriminate).
    exact (proj2 (proj2 (good_step s o Hno) Hinv)).
Qed.

Lemma epoch_inv_reachable s : reachable s -> epoch_inv s.
Proof. apply inv_reachable; [exact epoch_inv_step|exact epoch_inv_init]. Qed.

Lemma epoch_inv_run b ops : Forall (op_wf epoch_inv) ops -> epoch_inv (run (init_store b) ops).
Proof. intros H. apply inv_run; [exact epoch_inv_step|apply epoch_inv_init|exact H]. Qed.

(* ---------- one step ---------- *)
Lemma proxy_epoch_lemma s o lim a v v' :
  epoch_inv s -> ~ restore_ok s o ->
  view_proxy lim s a = Some (Some v) -> view_proxy lim (fst (step s o)) a = Some (Some v') ->
  vp_epoch v <= vp_epoch v' /\ (vp_content v' <> vp_content v -> vp_epoch v < vp_epoch v').
Proof.
  intros Hinv Hno. eapply step_rel_views; [exact Hinv|]. exact (proj1 (proj2 (good_step s o Hno) Hinv)).
Qed.

(* ---------- histories without a successful Restore ---------- *)
Fixpoint ok_ops (s : store) (ops : list op) : Prop :=
  match ops with
  | [] => True
  | o :: rest => ~ restore_ok s o /\ ok_ops (fst (step s o)) rest
  end.

Lemma restore_free_ok ops : forall s, restore_free ops -> ok_ops s ops.
Proof.
  induction ops as [|o ops IH]; intros s H; cbn [ok_ops]; [exact I|].
  inversion H; subst. split; [|apply IH; assumption].
  intros [snap [-> _]]. discriminate.
Qed.

Lemma run_good ops : forall s, ok_ops s ops -> good s (run s ops).
Proof.
  induction ops as [|o ops IH]; intros s H; [apply good_refl|].
  destruct H as [Hno Hrest]. rewrite run_cons. eapply good_trans; [apply good_step; exact Hno|apply IH; exact Hrest].
Qed.

Lemma ok_ops_app ops1 : forall s ops2, ok_ops s (ops1 ++ ops2) <-> ok_ops s ops1 /\ ok_ops (run s ops1) ops2.
Proof.
  induction ops1 as [|o ops1 IH]; intros s ops2; cbn [app ok_ops].
  - rewrite run_nil. tauto.
  - rewrite run_cons, IH. tauto.
Qed.

Lemma history_views s ops lim a v v' :
  epoch_inv s -> ok_ops s ops ->
  view_proxy lim s a = Some (Some v) -> view_proxy lim (run s ops) a = Some (Some v') ->
  vp_epoch v <= vp_epoch v' /\ (vp_content v' <> vp_content v -> vp_epoch v < vp_epoch v').
Proof.
  intros Hinv Hok. eapply step_rel_views; [exact Hinv|]. exact (proj1 (proj2 (run_good ops s Hok) Hinv)).
Qed.

Lemma same_epoch_same_content_lemma s ops lim a v v' :
  epoch_inv s -> ok_ops s ops ->
  view_proxy lim s a = Some (Some v) -> view_proxy lim (run s ops) a = Some (Some v') ->
  vp_epoch v = vp_epoch v' -> v = v'.
Proof.
  intros Hinv Hok Hv Hv' He.
  pose proof (proj1 (proj2 (run_good ops s Hok) Hinv)) as Hrel.
  destruct (step_rel_views_strong _ _ _ _ _ _ Hinv Hrel Hv Hv') as [H|[_ H]]; [lia|].
  apply vproxy_eq; [exact He|symmetry; exact H].
Qed.

Lemma same_epoch_same_content_free s ops lim a v v' :
  epoch_inv s -> restore_free ops ->
  view_proxy lim s a = Some (Some v) -> view_proxy lim (run s ops) a = Some (Some v') ->
  vp_epoch v = vp_epoch v' -> v = v'.
Proof. intros Hinv Hf. apply same_epoch_same_content_lemma; [exact Hinv|apply restore_free_ok; exact Hf]. Qed.

(* two points of one history from the initial store *)
Lemma same_epoch_same_content_history b ops1 ops2 lim a v v' :
  Forall (op_wf epoch_inv) ops1 -> restore_free ops2 ->
  view_proxy lim (run (init_store b) ops1) a = Some (Some v) ->
  view_proxy lim (run (init_store b) (ops1 ++ ops2)) a = Some (Some v') ->
  vp_epoch v = vp_epoch v' -> v = v'.
Proof.
  intros H1 H2. rewrite run_app. apply same_epoch_same_content_free; [apply epoch_inv_run; exact H1|exact H2].
Qed.

(* an address that was not registered at some point in between comes back at a strictly larger epoch *)
Lemma reappear_lemma s ops1 ops2 lim lim0 a v v' :
  epoch_inv s -> ok_ops s ops1 -> ok_ops (run s ops1) ops2 ->
  view_proxy lim s a = Some (Some v) ->
  view_proxy lim0 (run s ops1) a = None ->
  view_proxy lim (run (run s ops1) ops2) a = Some (Some v') ->
  vp_epoch v < vp_epoch v'.
Proof.
  intros Hinv Hok1 Hok2 Hv Hmid Hv'.
  destruct (run_good ops1 s Hok1) as [M1 G1]. destruct (G1 Hinv) as [_ Hinv1].
  destruct (run_good ops2 _ Hok2) as [M2 G2]. destruct (G2 Hinv1) as [[_ R2] _].
  pose proof (view_epoch_le _ _ _ _ Hinv Hv) as Hle.
  rewrite view_proxy_served in Hmid, Hv'.
  destruct (served (run s ops1) a) as [x|] eqn:Emid; [discriminate|].
  destruct (served (run (run s ops1) ops2) a) as [x'|] eqn:Eend; [|discriminate].
  inversion Hv' as [Hv1']. rewrite (view_of_epoch _ _ _ _ _ Hv1').
  destruct (R2 a) as [E|F].
  - rewrite Emid, Eend in E. discriminate.
  - rewrite Eend in F. lia.
Qed.

(* ---------- C13 ---------- *)
(* MemBrokerService::recover_epoch (service.rs) calls storage.recover_epoch(max_epoch + 1); MemoryStorage::recover_epoch
   (storage.rs) calls store.recover_epoch(existing_largest_epoch + 1): the store function receives max_epoch + 1 + 1. *)
Definition recover_service (s : store) (max_proxy_epoch : N) : store := recover_epoch s (max_proxy_epoch + 1 + 1).

Definition above (m : N) (s : store) : Prop :=
  m < st_epoch s /\ forall a x, served s a = Some x -> m < srv_epoch (st_epoch s) x.

Lemma above_recover s e m : m < e -> above m (recover_epoch s e).
Proof.
  intros He. unfold recover_epoch, set_all_cluster_epochs, above.
  cbn [st_epoch with_clusters with_epoch]. split; [lia|].
  intros a x. unfold served, srv_epoch. cbn [st_proxies st_clusters with_clusters with_epoch].
  destruct (alookup a (st_proxies s)) as [r|]; [|discriminate].
  intros H. inversion H. cbn [snd]. destruct (pr_cluster r) as [n|]; [|lia].
  rewrite (alookup_map (fun c => set_cl_epoch c (N.max e (st_epoch s + 1)))).
  destruct (alookup n (st_clusters s)); cbn [option_map cl_epoch set_cl_epoch]; lia.
Qed.

Lemma above_rel m s s' : above m s -> step_rel s s' -> above m s'.
Proof.
  intros [H1 H2] [Hmono Hrel]. split; [lia|]. intros a x Hx.
  destruct (Hrel a) as [E|F].
  - rewrite Hx in E. symmetry in E. specialize (H2 _ _ E).
    pose proof (srv_epoch_mono _ _ x Hmono). lia.
  - rewrite Hx in F. lia.
Qed.

Lemma above_view m s lim a v : above m s -> view_proxy lim s a = Some (Some v) -> m < vp_epoch v.
Proof.
  intros [H1 H2]. rewrite view_proxy_served. destruct (served s a) as [x|] eqn:Ex; [|discriminate].
  intros Hv. inversion Hv as [Hv1]. rewrite (view_of_epoch _ _ _ _ _ Hv1). eauto.
Qed.

Lemma recovered_epoch_general s e m :
  m < e ->
  let s' := recover_epoch s e in
  (forall lim a v, view_proxy lim s' a = Some (Some v) -> m < vp_epoch v) /\ m < st_epoch s'.
Proof.
  intros He s'. pose proof (above_recover s e m He) as Ha. split; [|exact (proj1 Ha)].
  intros lim a v. apply above_view. exact Ha.
Qed.

Lemma recovered_epoch_service s m :
  let s' := recover_service s m in
  (forall lim a v, view_proxy lim s' a = Some (Some v) -> m < vp_epoch v) /\ m < st_epoch s'.
Proof. unfold recover_service. apply recovered_epoch_general. lia. Qed.

Lemma stays_above_general s e m ops :
  epoch_inv s -> m < e -> ok_ops (recover_epoch s e) ops ->
  let s'' := run (recover_epoch s e) ops in
  (forall lim a v, view_proxy lim s'' a = Some (Some v) -> m < vp_epoch v) /\ m < st_epoch s''.
Proof.
  intros Hinv He Hok s''.
  pose proof (proj2 (proj2 (good_recover s e) Hinv)) as Hinv'.
  pose proof (proj1 (proj2 (run_good ops _ Hok) Hinv')) as Hrel.
  pose proof (above_rel _ _ _ (above_recover s e m He) Hrel) as Ha.
  split; [|exact (proj1 Ha)]. intros lim a v. apply above_view. exact Ha.
Qed.

Lemma stays_above_service s m ops :
  epoch_inv s -> restore_free ops ->
  let s'' := run (recover_service s m) ops in
  (forall lim a v, view_proxy lim s'' a = Some (Some v) -> m < vp_epoch v) /\ m < st_epoch s''.
Proof.
  intros Hinv Hf. unfold recover_service. apply stays_above_general; [exact Hinv|lia|apply restore_free_ok; exact Hf].
Qed.
