(* Forward simulation of the migration model to the one-register specification; final state; expiry (property C03). *)
From UM Require Import Base.BytesDef Base.RespT Model.Ttl Model.Migrate Proofs.TtlProofs Proofs.MigrateProofsBase
  Proofs.MigrateProofsInv Proofs.MigrateProofsFrame Proofs.MigrateProofsStep.

Definition wf_init (s0 : option entry) : Prop :=
  forall raw t, s0 = Some (raw, t) -> bytes_eqb t PTTL_KEY_NOT_FOUND = false.

(* ---------- runs ---------- *)
Lemma all_steps_cons : forall f s e r, all_steps f s (e :: r) = true ->
  f s e = true /\ forall s', step s e = Some s' -> all_steps f s' r = true.
Proof.
  intros f s e r H. cbn in H. apply andb_true_iff in H. destruct H as [H1 H2]. split; auto.
  intros s' Hs. rewrite Hs in H2. exact H2.
Qed.

Definition premises (s : state) (evs : list event) : Prop :=
  c11_ok s evs = true /\ commit_ok s evs = true /\ classified_ok s evs = true /\ ensured_ok s evs = true.

Lemma premises_cons : forall s e r, premises s (e :: r) ->
  step_ok s e = true /\ forall s', step s e = Some s' -> premises s' r.
Proof.
  intros s e r (H1 & H2 & H3 & H4).
  apply all_steps_cons in H1. apply all_steps_cons in H2. apply all_steps_cons in H3. apply all_steps_cons in H4.
  destruct H1 as [A1 B1]. destruct H2 as [A2 B2]. destruct H3 as [A3 B3]. destruct H4 as [A4 B4].
  split.
  - unfold step_ok. rewrite A1, A2, A3, A4. reflexivity.
  - intros s' Hs. repeat split; auto.
Qed.

Lemma run_inv : forall evs s s', Inv s -> premises s evs -> run s evs = Some s' -> Inv s'.
Proof.
  induction evs as [|e r IH]; intros s s' I P H; cbn in H.
  - inversion H; subst; auto.
  - destruct (step s e) as [s1|] eqn:Es; [|discriminate].
    apply premises_cons in P. destruct P as [Ok P]. apply (IH s1 s'); auto. eapply step_inv; eauto.
Qed.

Theorem reachable_inv : forall s0 evs s, wf_init s0 -> premises (init s0) evs -> run (init s0) evs = Some s -> Inv s.
Proof. intros s0 evs s W P H. eapply run_inv; eauto. apply inv_init. exact W. Qed.

(* ---------- how a step changes the two copies ---------- *)
Definition touches_data (e : event) : bool :=
  match e with
  | EvExecSrc _ | EvExecDst _ | EvRestoreExec _ | EvFastRestore _ | EvSlowRestore _ | EvScanRestore
  | EvPullDel _ | EvFastDel _ | EvSlowDel _ | EvScanDel => true
  | _ => false
  end.

Ltac break_if :=
  repeat match goal with
         | H : context [if ?b then _ else _] |- _ => destruct b
         | H : context [match ?x with Entry _ _ => _ | Skip => _ | InvalidReply => _ end] |- _ => destruct x
         end.

Lemma op_step_data_same : forall g i o e g' o', touches_data e = false ->
  op_step g i o e = Some (g', o') -> src g' = src g /\ dst g' = dst g.
Proof.
  intros g i [c p cl] e g' o' T H. unfold op_step in H. cbn [opc ocmd ocl] in H.
  destruct e; try discriminate; destruct p; try discriminate; break_if; inversion H; subst; auto.
Qed.

Lemma cl_step_data_same : forall g o e g' o', touches_data e = false ->
  cl_step g o e = Some (g', o') -> src g' = src g /\ dst g' = dst g.
Proof.
  intros g [c p cl] e g' o' T H. unfold cl_step in H. cbn [ocl] in H.
  destruct e; try discriminate; destruct cl; inversion H; subst; auto.
Qed.

Lemma glob_step_data_same : forall g l e g', touches_data e = false ->
  glob_step g l e = Some g' -> src g' = src g /\ dst g' = dst g.
Proof.
  intros g l e g' T H. destruct e; cbn [glob_step] in H; try discriminate;
    try (destruct (scan g)); try discriminate; break_if; inversion H; subst; auto.
Qed.

Lemma step_data_same : forall s e s', touches_data e = false -> step s e = Some s' ->
  src (gl s') = src (gl s) /\ dst (gl s') = dst (gl s).
Proof.
  intros s e s' T H. unfold step in H.
  destruct (ev_op e) as [i|] eqn:Eo.
  - assert (Hs' : match nth_error (ops s) i with
                  | Some o => match (if is_cl_event e then cl_step (gl s) o e else op_step (gl s) i o e) with
                              | Some (g', o') => Some (mkState g' (upd i o' (ops s)))
                              | None => None
                              end
                  | None => None
                  end = Some s').
    { destruct e; try exact H; discriminate. }
    clear H. destruct (nth_error (ops s) i) as [o|]; [|discriminate].
    destruct (is_cl_event e).
    + destruct (cl_step (gl s) o e) as [[g' o']|] eqn:E; inversion Hs'; subst. eapply cl_step_data_same; eauto.
    + destruct (op_step (gl s) i o e) as [[g' o']|] eqn:E; inversion Hs'; subst. eapply op_step_data_same; eauto.
  - destruct e; cbn in Eo; try discriminate;
      try (destruct (glob_step (gl s) (ops s) _) as [g'|] eqn:E; inversion H; subst; eapply glob_step_data_same; eauto; fail).
    inversion H; subst. auto.
Qed.

Lemma L_same : forall g g', src g' = src g -> dst g' = dst g -> L g' = L g.
Proof. intros g g' H1 H2. unfold L. rewrite H1, H2. reflexivity. Qed.

(* a transfer's RESTORE: the logical register does not change, and the copy carries ttl_restore of the source's PTTL *)
Lemma restore_L : forall g raw t,
  (dst g = None -> val (src g) = Some raw /\ rttl (src g) = Some t) ->
  L (set_dst g (redis_restore (dst g) raw t)) = L g /\
  match dst g with
  | Some _ => redis_restore (dst g) raw t = dst g
  | None => exists p, src g = Some (raw, p) /\ redis_restore (dst g) raw t = Some (raw, ttl_restore p)
  end.
Proof.
  intros g raw t H. unfold L. simp_g. destruct (dst g) as [[v tv]|] eqn:Ed; cbn.
  - split; reflexivity.
  - destruct (H eq_refl) as [H1 H2]. destruct (src g) as [[r p]|]; cbn in *; try discriminate.
    inversion H1; inversion H2; subst. split; auto. exists p. auto.
Qed.

Lemma del_L : forall g, (is_none (src g) = false -> is_none (dst g) = false) -> L (set_src g None) = L g.
Proof.
  intros g H. unfold L. simp_g. destruct (dst g) as [[v tv]|] eqn:Ed; auto.
  destruct (src g); auto. specialize (H eq_refl). discriminate.
Qed.

Definition is_transfer (e : event) : bool :=
  match e with EvRestoreExec _ | EvFastRestore _ | EvSlowRestore _ | EvScanRestore => true | _ => false end.
Definition lin_point (e : event) : option nat :=
  match e with EvExecSrc i | EvExecDst i => Some i | _ => None end.

(* the per-step simulation lemma *)
Theorem step_simulation : forall s e s', Inv s -> step_ok s e = true -> step s e = Some s' ->
  match lin_point e with
  | Some i => exists o, nth_error (ops s) i = Some o /\
                hist_step s e = [HLin i (ckind (ocmd o)) (L (gl s))] /\
                L (gl s') = apply_kind (ckind (ocmd o)) (L (gl s)) /\
                nth_error (ops s') i = Some (mkOp (ocmd o) (PDone (ROk (L (gl s)))) (ocl o))
  | None => L (gl s') = L (gl s) /\ (forall i k r, ~ In (HLin i k r) (hist_step s e))
  end.
Proof.
  intros s e s' I Ok Hs. destruct (touches_data e) eqn:T.
  2:{ assert (lin_point e = None) by (destruct e; cbn in *; congruence). rewrite H.
      destruct (step_data_same _ _ _ T Hs) as [H1 H2]. split.
      - apply L_same; auto.
      - intros i0 k r Hin. destruct e; cbn in T; try discriminate; cbn in Hin; try contradiction.
        + destruct Hin as [X|[]]; discriminate.
        + destruct (nth_error (ops s) i) as [o|]; [destruct (opc o)|]; cbn in Hin; try contradiction;
            destruct Hin as [X|[]]; discriminate. }
  unfold step_ok in Ok. apply andb_true_iff in Ok. destruct Ok as [Ok C4]. apply andb3 in Ok. destruct Ok as (C1 & C2 & C3).
  pose proof (i_glob _ I) as G.
  destruct e; cbn in T; try discriminate; cbn [lin_point]; unfold step in Hs; cbn [ev_op is_cl_event] in Hs.
  - (* EvExecSrc *)
    destruct (nth_error (ops s) i) as [[c p cl]|] eqn:Hn; [|discriminate].
    unfold op_step in Hs. cbn [opc ocmd ocl] in Hs. destruct p; try discriminate. inversion Hs; subst; clear Hs.
    cbn in C1. assert (F : frozen (gl s) = false) by (unfold frozen; rewrite C1; reflexivity).
    pose proof (g_dst0 _ G F) as D.
    assert (EL : L (gl s) = val (src (gl s))) by (unfold L; rewrite D; reflexivity).
    exists (mkOp c PSrcHanded cl). repeat split.
    + cbn. rewrite Hn. cbn. rewrite EL. reflexivity.
    + cbn [gl ocmd]. unfold L. simp_g. rewrite D. destruct (ckind c); cbn; auto.
    + cbn [ops]. erewrite nth_error_upd_eq by eauto. rewrite EL. reflexivity.
  - (* EvRestoreExec *)
    destruct (nth_error (ops s) i) as [[c p cl]|] eqn:Hn; [|discriminate].
    unfold op_step in Hs. cbn [opc ocmd ocl] in Hs. destruct p; try discriminate. inversion Hs; subst; clear Hs.
    pose proof (i_loc _ I _ _ Hn) as Lo. split.
    + cbn [gl]. apply restore_L. apply (l_held _ _ _ Lo). reflexivity.
    + cbn. intros; auto.
  - (* EvPullDel *)
    destruct (nth_error (ops s) i) as [[c p cl]|] eqn:Hn; [|discriminate].
    unfold cl_step in Hs. cbn [ocl] in Hs. destruct cl; try discriminate. inversion Hs; subst; clear Hs.
    pose proof (i_loc _ I _ _ Hn) as Lo. split.
    + cbn [gl]. apply del_L. apply (l_delp _ _ _ Lo). reflexivity.
    + cbn. intros; auto.
  - (* EvFastRestore *)
    destruct (nth_error (ops s) i) as [[c p cl]|] eqn:Hn; [|discriminate].
    unfold op_step in Hs. cbn [opc ocmd ocl] in Hs. destruct p; try discriminate. inversion Hs; subst; clear Hs.
    pose proof (i_loc _ I _ _ Hn) as Lo. split.
    + cbn [gl]. apply restore_L. apply (l_held _ _ _ Lo). reflexivity.
    + cbn. intros; auto.
  - (* EvFastDel *)
    destruct (nth_error (ops s) i) as [[c p cl]|] eqn:Hn; [|discriminate].
    unfold op_step in Hs. cbn [opc ocmd ocl] in Hs. destruct p; try discriminate. inversion Hs; subst; clear Hs.
    pose proof (i_loc _ I _ _ Hn) as Lo. split.
    + cbn [gl]. rewrite <- (del_L (gl s)); [|apply (l_delp _ _ _ Lo); unfold del_pending; cbn; apply orb_true_r]. unfold L. simp_g. reflexivity.
    + cbn. intros; auto.
  - (* EvSlowRestore *)
    destruct (nth_error (ops s) i) as [[c p cl]|] eqn:Hn; [|discriminate].
    unfold op_step in Hs. cbn [opc ocmd ocl] in Hs. destruct p; try discriminate. inversion Hs; subst; clear Hs.
    pose proof (i_loc _ I _ _ Hn) as Lo. split.
    + cbn [gl]. apply restore_L. apply (l_held _ _ _ Lo). reflexivity.
    + cbn. intros; auto.
  - (* EvSlowDel *)
    destruct (nth_error (ops s) i) as [[c p cl]|] eqn:Hn; [|discriminate].
    unfold op_step in Hs. cbn [opc ocmd ocl] in Hs. destruct p; try discriminate. inversion Hs; subst; clear Hs.
    pose proof (i_loc _ I _ _ Hn) as Lo. split.
    + cbn [gl]. apply del_L. apply (l_delp _ _ _ Lo). unfold del_pending; cbn; apply orb_true_r.
    + cbn. intros; auto.
  - (* EvExecDst *)
    destruct (nth_error (ops s) i) as [[c p cl]|] eqn:Hn; [|discriminate].
    unfold op_step in Hs. cbn [opc ocmd ocl] in Hs. destruct p; try discriminate. inversion Hs; subst; clear Hs.
    pose proof (i_loc _ I _ _ Hn) as Lo.
    assert (EL : L (gl s) = val (dst (gl s))).
    { unfold L. destruct (dst (gl s)) as [[v tv]|] eqn:Ed; auto.
      rewrite (l_fwd _ _ _ Lo eq_refl Ed). reflexivity. }
    exists (mkOp c PFwd cl). repeat split.
    + cbn. rewrite Hn. cbn. rewrite EL. reflexivity.
    + cbn [gl ocmd]. destruct (ckind c) eqn:Ek; cbn [exec_kind apply_kind].
      * rewrite set_dst_same. reflexivity.
      * unfold L. simp_g. reflexivity.
      * assert (S : src (gl s) = None).
        { apply (l_none _ _ _ Lo). unfold saw_none, is_delete. cbn. rewrite Ek. reflexivity. }
        unfold L. simp_g. rewrite S. reflexivity.
    + cbn [ops]. erewrite nth_error_upd_eq by eauto. rewrite EL. reflexivity.
  - (* EvScanRestore *)
    cbn [glob_step] in Hs. destruct (scan (gl s)) eqn:Es; try discriminate. inversion Hs; subst; clear Hs. split.
    + cbn [gl]. rewrite <- (proj1 (restore_L (gl s) raw t (g_srestore _ G _ _ Es))). unfold L. simp_g. reflexivity.
    + cbn. intros; auto.
  - (* EvScanDel *)
    cbn [glob_step] in Hs. destruct (scan (gl s)) eqn:Es; try discriminate. inversion Hs; subst; clear Hs. split.
    + cbn [gl]. rewrite <- (del_L (gl s) (g_sdel _ G Es)). unfold L. simp_g. reflexivity.
    + cbn. intros; auto.
Qed.

(* ---------- the run satisfies the one-register specification ---------- *)
Lemma register_spec_skip : forall h1 h2 l, (forall i k r, ~ In (HLin i k r) h1) ->
  register_spec l (h1 ++ h2) = register_spec l h2.
Proof.
  induction h1 as [|x h1 IH]; intros h2 l H; cbn; auto.
  destruct x; try (apply IH; intros i0 k0 r0 Hin; eapply H; right; eauto).
  exfalso. eapply H. left. reflexivity.
Qed.

Lemma register_spec_lin : forall i k l h, register_spec l (HLin i k l :: h) = register_spec (apply_kind k l) h.
Proof. intros i k [a|] h; cbn; auto. rewrite bytes_eqb_refl. reflexivity. Qed.

Lemma history_cons : forall s e r s1, step s e = Some s1 -> history s (e :: r) = hist_step s e ++ history s1 r.
Proof. intros s e r s1 H. cbn. rewrite H. reflexivity. Qed.

Theorem run_register_spec : forall evs s s', Inv s -> premises s evs -> run s evs = Some s' ->
  register_spec (L (gl s)) (history s evs) = Some (L (gl s')).
Proof.
  induction evs as [|e r IH]; intros s s' I P H; cbn in H.
  - inversion H; subst. reflexivity.
  - destruct (step s e) as [s1|] eqn:Es; [|discriminate].
    apply premises_cons in P. destruct P as [Ok P].
    rewrite (history_cons _ _ _ _ Es).
    pose proof (step_simulation _ _ _ I Ok Es) as Sim.
    pose proof (step_inv _ _ _ I Ok Es) as I1.
    destruct (lin_point e) as [i|].
    + destruct Sim as (o & Hn & Hh & HL & _). rewrite Hh. cbn [app]. rewrite register_spec_lin, <- HL. apply IH; auto.
    + destruct Sim as (HL & Hno). rewrite register_spec_skip by exact Hno. rewrite <- HL. apply IH; auto.
Qed.

(* ---------- the marked history is well bracketed ---------- *)
Definition stat_of (o : opst) : ostat :=
  match opc o with
  | PDone (ROk r) => OLin r
  | PReplied _ => ORep
  | _ => OInv (ckind (ocmd o))
  end.

Lemma upd_same : forall A (l : list A) i x, nth_error l i = Some x -> upd i x l = l.
Proof. induction l as [|a l IH]; intros [|i] x H; cbn in *; try discriminate; [congruence|]. f_equal. auto. Qed.

Lemma map_upd : forall A B (f : A -> B) l i x, map f (upd i x l) = upd i (f x) (map f l).
Proof. induction l as [|a l IH]; intros [|i] x; cbn; auto. f_equal. auto. Qed.

Lemma kind_eqb_refl : forall k, kind_eqb k k = true.
Proof. intros [|v|]; cbn; auto. apply bytes_eqb_refl. Qed.
Lemma obytes_eqb_refl : forall r, obytes_eqb r r = true.
Proof. intros [a|]; cbn; auto. apply bytes_eqb_refl. Qed.

Definition is_hist_event (e : event) : bool :=
  match e with EvInvoke _ _ | EvExecSrc _ | EvExecDst _ | EvReply _ => true | _ => false end.

Lemma op_step_stat_same : forall g i o e g' o', is_hist_event e = false ->
  op_step g i o e = Some (g', o') -> stat_of o' = stat_of o.
Proof.
  intros g i [c p cl] e g' o' T H. unfold op_step in H. cbn [opc ocmd ocl] in H.
  destruct e; try discriminate; destruct p; try discriminate; break_if; inversion H; subst; reflexivity.
Qed.

Lemma cl_step_stat_same : forall g o e g' o', cl_step g o e = Some (g', o') -> stat_of o' = stat_of o.
Proof.
  intros g [c p cl] e g' o' H. unfold cl_step in H. cbn [ocl] in H.
  destruct e; try discriminate; destruct cl; inversion H; subst; reflexivity.
Qed.

Lemma step_stat_same : forall s e s', is_hist_event e = false -> step s e = Some s' ->
  map stat_of (ops s') = map stat_of (ops s) /\ hist_step s e = [].
Proof.
  intros s e s' T H. split; [|destruct e; cbn in *; congruence]. unfold step in H.
  destruct (ev_op e) as [i|] eqn:Eo.
  - assert (Hs' : match nth_error (ops s) i with
                  | Some o => match (if is_cl_event e then cl_step (gl s) o e else op_step (gl s) i o e) with
                              | Some (g', o') => Some (mkState g' (upd i o' (ops s)))
                              | None => None
                              end
                  | None => None
                  end = Some s').
    { destruct e; try exact H; discriminate. }
    clear H. destruct (nth_error (ops s) i) as [o|] eqn:Hn; [|discriminate].
    assert (X : forall o', stat_of o' = stat_of o -> map stat_of (upd i o' (ops s)) = map stat_of (ops s)).
    { intros o' E. rewrite map_upd, E. apply upd_same. rewrite nth_error_map, Hn. reflexivity. }
    destruct (is_cl_event e).
    + destruct (cl_step (gl s) o e) as [[g' o']|] eqn:E; inversion Hs'; subst. cbn [ops]. apply X.
      eapply cl_step_stat_same; eauto.
    + destruct (op_step (gl s) i o e) as [[g' o']|] eqn:E; inversion Hs'; subst. cbn [ops]. apply X.
      eapply op_step_stat_same; eauto.
  - destruct e; cbn in Eo, T; try discriminate;
      destruct (glob_step (gl s) (ops s) _) as [g'|] eqn:E; inversion H; subst; reflexivity.
Qed.

Theorem run_bracketed : forall evs s s', run s evs = Some s' ->
  bracketed (map stat_of (ops s)) (history s evs) = true.
Proof.
  induction evs as [|e r IH]; intros s s' H; cbn in H; [reflexivity|].
  destruct (step s e) as [s1|] eqn:Es; [|discriminate].
  rewrite (history_cons _ _ _ _ Es). specialize (IH _ _ H).
  destruct (is_hist_event e) eqn:T.
  2:{ destruct (step_stat_same _ _ _ T Es) as [E1 E2]. rewrite E2, <- E1. exact IH. }
  destruct e; cbn in T; try discriminate; unfold step in Es; cbn [ev_op is_cl_event] in Es.
  - (* invoke *)
    inversion Es; subst; clear Es. cbn [hist_step app bracketed]. rewrite map_length, Nat.eqb_refl. cbn [andb].
    cbn [ops] in IH. rewrite map_app in IH. cbn in IH. destruct atsrc; exact IH.
  - (* exec at source *)
    destruct (nth_error (ops s) i) as [[c p cl]|] eqn:Hn; [|discriminate].
    unfold op_step in Es. cbn [opc ocmd ocl] in Es. destruct p; try discriminate. inversion Es; subst; clear Es.
    cbn [hist_step]. rewrite Hn. cbn [app bracketed ocmd].
    rewrite nth_error_map, Hn. cbn. rewrite kind_eqb_refl. cbn [andb].
    cbn [ops] in IH. rewrite map_upd in IH. exact IH.
  - (* exec at destination *)
    destruct (nth_error (ops s) i) as [[c p cl]|] eqn:Hn; [|discriminate].
    unfold op_step in Es. cbn [opc ocmd ocl] in Es. destruct p; try discriminate. inversion Es; subst; clear Es.
    cbn [hist_step]. rewrite Hn. cbn [app bracketed ocmd].
    rewrite nth_error_map, Hn. cbn. rewrite kind_eqb_refl. cbn [andb].
    cbn [ops] in IH. rewrite map_upd in IH. exact IH.
  - (* reply *)
    destruct (nth_error (ops s) i) as [[c p cl]|] eqn:Hn; [|discriminate].
    unfold op_step in Es. cbn [opc ocmd ocl] in Es. destruct p; try discriminate. inversion Es; subst; clear Es.
    cbn [hist_step]. rewrite Hn. cbn [opc app].
    cbn [ops] in IH. rewrite map_upd in IH. destruct r0 as [v|]; cbn [bracketed].
    + rewrite nth_error_map, Hn. cbn. rewrite obytes_eqb_refl. exact IH.
    + rewrite nth_error_map, Hn. cbn. exact IH.
Qed.

(* ---------- every linearized operation of a quiescent state has been acknowledged with the reply computed at its
   linearization point ---------- *)
Definition Coh (s : state) (h : list hevent) : Prop :=
  forall i k r, In (HLin i k r) h ->
    exists o, nth_error (ops s) i = Some o /\
      (opc o = PDone (ROk r) \/ (opc o = PReplied (ROk r) /\ In (HRep i (ROk r)) h)).

Lemma op_step_done : forall g i o e g' o' r0, op_step g i o e = Some (g', o') ->
  (opc o = PDone r0 -> (exists j, e = EvReply j) /\ opc o' = PReplied r0) /\ (opc o = PReplied r0 -> False).
Proof.
  intros g i [c p cl] e g' o' r0 H. unfold op_step in H. cbn [opc ocmd ocl] in *.
  split; intros E; subst p; destruct e; try discriminate; inversion H; subst; cbn; eauto.
Qed.

Lemma cl_step_pc : forall g o e g' o', cl_step g o e = Some (g', o') -> opc o' = opc o.
Proof.
  intros g [c p cl] e g' o' H. unfold cl_step in H. cbn [ocl] in H.
  destruct e; try discriminate; destruct cl; inversion H; subst; reflexivity.
Qed.

Lemma coh_step : forall s e s1 h, Coh s h -> step s e = Some s1 -> Coh s1 (h ++ hist_step s e).
Proof.
  intros s e s1 h C Hs i k r Hin. apply in_app_or in Hin. destruct Hin as [Hin|Hin].
  - (* an older linearization point *)
    destruct (C _ _ _ Hin) as (o & Hn & Ho).
    unfold step in Hs. destruct (ev_op e) as [j|] eqn:Eo.
    + assert (Hs' : match nth_error (ops s) j with
                    | Some o => match (if is_cl_event e then cl_step (gl s) o e else op_step (gl s) j o e) with
                                | Some (g', o') => Some (mkState g' (upd j o' (ops s)))
                                | None => None
                                end
                    | None => None
                    end = Some s1).
      { destruct e; try exact Hs; discriminate. }
      clear Hs. destruct (nth_error (ops s) j) as [oj|] eqn:Hj; [|discriminate].
      destruct (Nat.eq_dec j i) as [->|N].
      * assert (oj = o) by congruence. subst oj.
        destruct (is_cl_event e) eqn:Ec.
        -- destruct (cl_step (gl s) o e) as [[g' o']|] eqn:E; inversion Hs'; subst. cbn [ops].
           exists o'. split; [eapply nth_error_upd_eq; eauto|]. rewrite (cl_step_pc _ _ _ _ _ E).
           destruct Ho as [Ho|[Ho1 Ho2]]; [left; auto|right; split; auto; apply in_or_app; auto].
        -- destruct (op_step (gl s) i o e) as [[g' o']|] eqn:E; inversion Hs'; subst. cbn [ops].
           exists o'. split; [eapply nth_error_upd_eq; eauto|].
           destruct Ho as [Ho|[Ho1 Ho2]].
           ++ destruct (op_step_done _ _ _ _ _ _ (ROk r) E) as [X _]. destruct (X Ho) as [[j Ej] Ep]. subst e.
              cbn in Eo. inversion Eo; subst j. right. split; auto. apply in_or_app. right.
              cbn. rewrite Hn, Ho. left. reflexivity.
           ++ destruct (op_step_done _ _ _ _ _ _ (ROk r) E) as [_ X]. destruct (X Ho1).
      * exists o. split.
        -- destruct (if is_cl_event e then cl_step (gl s) oj e else op_step (gl s) j oj e) as [[g' o']|]; inversion Hs'; subst.
           cbn [ops]. rewrite nth_error_upd_neq; auto.
        -- destruct Ho as [Ho|[Ho1 Ho2]]; [left; auto|right; split; auto; apply in_or_app; auto].
    + exists o. split.
      * destruct e; cbn in Eo; try discriminate;
          try (destruct (glob_step (gl s) (ops s) _) as [g'|]; inversion Hs; subst; exact Hn; fail).
        inversion Hs; subst. cbn [ops]. rewrite nth_error_app1; auto. apply nth_error_Some. congruence.
      * destruct Ho as [Ho|[Ho1 Ho2]]; [left; auto|right; split; auto; apply in_or_app; auto].
  - (* the linearization point of this very step *)
    destruct e; cbn in Hin; try contradiction.
    + destruct Hin as [X|[]]; discriminate.
    + unfold step in Hs. cbn [ev_op is_cl_event] in Hs.
      destruct (nth_error (ops s) i0) as [[c p cl]|] eqn:Hn; [|contradiction].
      cbn in Hin. destruct Hin as [X|[]]. inversion X; subst.
      unfold op_step in Hs. cbn [opc ocmd ocl] in Hs. destruct p; try discriminate. inversion Hs; subst. cbn [ops].
      eexists. split; [eapply nth_error_upd_eq; eauto|]. left. reflexivity.
    + unfold step in Hs. cbn [ev_op is_cl_event] in Hs.
      destruct (nth_error (ops s) i0) as [[c p cl]|] eqn:Hn; [|contradiction].
      cbn in Hin. destruct Hin as [X|[]]. inversion X; subst.
      unfold op_step in Hs. cbn [opc ocmd ocl] in Hs. destruct p; try discriminate. inversion Hs; subst. cbn [ops].
      eexists. split; [eapply nth_error_upd_eq; eauto|]. left. reflexivity.
    + destruct (nth_error (ops s) i0) as [o|]; [destruct (opc o)|]; cbn in Hin; try contradiction;
        destruct Hin as [X|[]]; discriminate.
Qed.

Lemma coh_run : forall evs s s' h0, Coh s h0 -> run s evs = Some s' -> Coh s' (h0 ++ history s evs).
Proof.
  induction evs as [|e r IH]; intros s s' h0 C H; cbn in H.
  - inversion H; subst. cbn. rewrite app_nil_r. exact C.
  - destruct (step s e) as [s1|] eqn:Es; [|discriminate].
    rewrite (history_cons _ _ _ _ Es), app_assoc. apply IH; auto. apply coh_step; auto.
Qed.

Theorem acknowledged : forall s0 evs st, run (init s0) evs = Some st -> quiescent st = true ->
  forall i k r, In (HLin i k r) (history (init s0) evs) -> In (HRep i (ROk r)) (history (init s0) evs).
Proof.
  intros s0 evs st R Q i k r Hin.
  assert (C : Coh st ([] ++ history (init s0) evs)).
  { apply coh_run; auto. intros a b c []. }
  cbn [app] in C. destruct (C _ _ _ Hin) as (o & Hn & [Ho|[_ Ho]]); auto.
  unfold quiescent in Q. eapply forallb_nth in Q; eauto. cbn in Q. rewrite Ho in Q. discriminate.
Qed.

(* ---------- the three statements ---------- *)
Theorem linearizable : forall s0 evs st,
  wf_init s0 -> run (init s0) evs = Some st ->
  c11_ok (init s0) evs = true -> commit_ok (init s0) evs = true -> classified_ok (init s0) evs = true ->
  ensured_ok (init s0) evs = true ->
  exists lin, is_linearization lin (client_history (history (init s0) evs)) /\
              register_spec (val s0) lin = Some (L (gl st)).
Proof.
  intros s0 evs st W R P1 P2 P3 P4. exists (history (init s0) evs). split.
  - split; [reflexivity|]. apply (run_bracketed evs (init s0) st R).
  - assert (E : val s0 = L (gl (init s0))) by reflexivity. rewrite E.
    apply run_register_spec; auto. apply inv_init; auto. repeat split; auto.
Qed.

Definition final_value (l : option bytes) (h : list hevent) : option bytes :=
  fold_left (fun l x => match x with HLin _ k _ => apply_kind k l | _ => l end) h l.

Lemma register_spec_final : forall h l v, register_spec l h = Some v -> v = final_value l h.
Proof.
  induction h as [|x h IH]; intros l v H.
  - cbn in *. congruence.
  - unfold final_value. cbn [fold_left]. fold (final_value (match x with HLin _ k _ => apply_kind k l | _ => l end) h).
    destruct x as [i c|i k r|i r]; cbn [register_spec] in H.
    + apply IH; exact H.
    + destruct l as [a|], r as [b|]; try discriminate.
      * destruct (bytes_eqb a b); try discriminate. apply IH; exact H.
      * apply IH; exact H.
    + apply IH; exact H.
Qed.

Theorem final_state : forall s0 evs st,
  wf_init s0 -> run (init s0) evs = Some st ->
  c11_ok (init s0) evs = true -> commit_ok (init s0) evs = true -> classified_ok (init s0) evs = true ->
  ensured_ok (init s0) evs = true ->
  is_passed (scan (gl st)) = true -> committed (gl st) = true -> quiescent st = true ->
  src (gl st) = None /\
  register_spec (val s0) (history (init s0) evs) = Some (val (dst (gl st))) /\
  val (dst (gl st)) = final_value (val s0) (history (init s0) evs) /\
  (forall i k r, In (HLin i k r) (history (init s0) evs) -> In (HRep i (ROk r)) (history (init s0) evs)).
Proof.
  intros s0 evs st W R P1 P2 P3 P4 Hp Hc Hq.
  assert (I : Inv st) by (eapply reachable_inv; eauto; repeat split; auto).
  assert (S : src (gl st) = None).
  { apply (g_spassed _ (i_glob _ I)). destruct (scan (gl st)); cbn in Hp; congruence. }
  assert (EL : L (gl st) = val (dst (gl st))).
  { unfold L. rewrite S. destruct (dst (gl st)) as [[v t]|]; reflexivity. }
  assert (RS : register_spec (val s0) (history (init s0) evs) = Some (val (dst (gl st)))).
  { rewrite <- EL. assert (E : val s0 = L (gl (init s0))) by reflexivity. rewrite E.
    apply run_register_spec; auto. apply inv_init; auto. repeat split; auto. }
  split; auto. split; auto. split; [apply register_spec_final; auto|]. eapply acknowledged; eauto.
Qed.

Theorem ttl_preserved : forall s0 evs s e s',
  wf_init s0 -> run (init s0) evs = Some s ->
  c11_ok (init s0) evs = true -> commit_ok (init s0) evs = true -> classified_ok (init s0) evs = true ->
  ensured_ok (init s0) evs = true ->
  is_transfer e = true -> step s e = Some s' ->
  match dst (gl s) with
  | Some _ => dst (gl s') = dst (gl s)
  | None => exists raw p, src (gl s) = Some (raw, p) /\ dst (gl s') = Some (raw, ttl_restore p) /\
                          forall key, restore_cmd key (Entry p raw) = Some [RESTORE; key; ttl_restore p; raw]
  end.
Proof.
  intros s0 evs s e s' W R P1 P2 P3 P4 T Hs.
  assert (I : Inv s) by (eapply reachable_inv; eauto; repeat split; auto).
  pose proof (i_glob _ I) as G.
  assert (K : forall raw t,
            (dst (gl s) = None -> val (src (gl s)) = Some raw /\ rttl (src (gl s)) = Some t) ->
            dst (gl s') = redis_restore (dst (gl s)) raw t ->
            match dst (gl s) with
            | Some _ => dst (gl s') = dst (gl s)
            | None => exists raw p, src (gl s) = Some (raw, p) /\ dst (gl s') = Some (raw, ttl_restore p) /\
                                    forall key, restore_cmd key (Entry p raw) = Some [RESTORE; key; ttl_restore p; raw]
            end).
  { intros raw t H E. destruct (restore_L (gl s) raw t H) as [_ X]. rewrite E.
    destruct (dst (gl s)); auto. destruct X as (p & X1 & X2). exists raw, p. repeat split; auto. }
  destruct e; cbn in T; try discriminate; unfold step in Hs; cbn [ev_op is_cl_event] in Hs.
  - destruct (nth_error (ops s) i) as [[c p cl]|] eqn:Hn; [|discriminate].
    unfold op_step in Hs. cbn [opc ocmd ocl] in Hs. destruct p; try discriminate. inversion Hs; subst; clear Hs.
    apply (K raw t); [|reflexivity]. apply (l_held _ _ _ (i_loc _ I _ _ Hn)). reflexivity.
  - destruct (nth_error (ops s) i) as [[c p cl]|] eqn:Hn; [|discriminate].
    unfold op_step in Hs. cbn [opc ocmd ocl] in Hs. destruct p; try discriminate. inversion Hs; subst; clear Hs.
    apply (K raw t); [|reflexivity]. apply (l_held _ _ _ (i_loc _ I _ _ Hn)). reflexivity.
  - destruct (nth_error (ops s) i) as [[c p cl]|] eqn:Hn; [|discriminate].
    unfold op_step in Hs. cbn [opc ocmd ocl] in Hs. destruct p; try discriminate. inversion Hs; subst; clear Hs.
    apply (K raw t); [|reflexivity]. apply (l_held _ _ _ (i_loc _ I _ _ Hn)). reflexivity.
  - cbn [glob_step] in Hs. destruct (scan (gl s)) eqn:Es; try discriminate. inversion Hs; subst; clear Hs.
    apply (K raw t); [|reflexivity]. apply (g_srestore _ G _ _ Es).
Qed.

(* the run-level form of the per-step simulation: every step of a run that satisfies the premises *)
Theorem run_step_simulation : forall s0 evs1 e s s',
  wf_init s0 -> run (init s0) evs1 = Some s -> step s e = Some s' ->
  c11_ok (init s0) (evs1 ++ [e]) = true -> commit_ok (init s0) (evs1 ++ [e]) = true ->
  classified_ok (init s0) (evs1 ++ [e]) = true -> ensured_ok (init s0) (evs1 ++ [e]) = true ->
  match lin_point e with
  | Some i => exists o, nth_error (ops s) i = Some o /\
                hist_step s e = [HLin i (ckind (ocmd o)) (L (gl s))] /\
                L (gl s') = apply_kind (ckind (ocmd o)) (L (gl s)) /\
                nth_error (ops s') i = Some (mkOp (ocmd o) (PDone (ROk (L (gl s)))) (ocl o))
  | None => L (gl s') = L (gl s) /\ (forall i k r, ~ In (HLin i k r) (hist_step s e))
  end.
Proof.
  intros s0 evs1 e s s' W R Hs P1 P2 P3 P4.
  assert (X : forall evs a b, run a evs = Some b -> premises a (evs ++ [e]) -> premises a evs /\ step_ok b e = true).
  { induction evs as [|x r IH]; intros a b Hr P; cbn in Hr.
    - inversion Hr; subst. cbn [app] in P. apply premises_cons in P. destruct P as [Ok _]. split; auto.
      repeat split; reflexivity.
    - destruct (step a x) as [a1|] eqn:Ea; [|discriminate]. cbn [app] in P. apply premises_cons in P.
      destruct P as [Ok P]. destruct (IH _ _ Hr (P _ Ea)) as [Q1 Q2]. split; auto.
      unfold step_ok in Ok. apply andb_true_iff in Ok. destruct Ok as [Ok A4]. apply andb3 in Ok.
      destruct Ok as (A1 & A2 & A3). destruct Q1 as (B1 & B2 & B3 & B4).
      repeat split; cbn; rewrite Ea; rewrite ?A1, ?A2, ?A3, ?A4; auto. }
  destruct (X _ _ _ R (conj P1 (conj P2 (conj P3 P4)))) as [Q1 Q2].
  apply step_simulation; auto. eapply reachable_inv; eauto.
Qed.
