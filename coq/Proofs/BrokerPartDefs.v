(* Definitions for the slot-partition invariant of a cluster store (properties C01 and C10).
   Only definitions and a few immediate facts; the preservation lemmas live in BrokerPart*.v files. *)
From UM Require Import Base.BytesDef Model.Ranges Model.Broker Proofs.BrokerPartRanges.
From Coq Require Import ZifyBool ZifyNat ZifyN.

Definition opt_ranges (o : option rangelist) : rangelist := match o with Some r => r | None => [] end.

(* ranges a chunk owns: stable slots of both parts and the ranges of its migrating-OUT entries *)
Definition out_ranges (l : list mig_store) : rangelist := flat_map ms_ranges (filter ms_out l).
Definition in_ranges (l : list mig_store) : rangelist := flat_map ms_ranges (filter (fun e => negb (ms_out e)) l).

Definition chunk_owned (c : chunk) : rangelist :=
  opt_ranges (ck_stable0 c) ++ opt_ranges (ck_stable1 c) ++ out_ranges (ck_mig0 c) ++ out_ranges (ck_mig1 c).
Definition chunk_out (c : chunk) : rangelist := out_ranges (ck_mig0 c) ++ out_ranges (ck_mig1 c).
Definition chunk_in (c : chunk) : rangelist := in_ranges (ck_mig0 c) ++ in_ranges (ck_mig1 c).

Definition owned (chunks : list chunk) : rangelist := flat_map chunk_owned chunks.
Definition all_out (chunks : list chunk) : rangelist := flat_map chunk_out chunks.
Definition all_in (chunks : list chunk) : rangelist := flat_map chunk_in chunks.

(* every slot below SLOT_NUM is contained in exactly one range of l, every other slot in none *)
Definition covers_once (l : rangelist) : Prop :=
  forall s, cnt s l = if N.ltb s SLOT_NUM then 1%nat else 0%nat.

Definition entries_at (chunks : list chunk) (pos : nat * bool) : list mig_store :=
  match nth_error chunks (fst pos) with Some c => ck_mig c (snd pos) | None => [] end.

Definition src_pos (e : mig_store) : nat * bool := (mm_src_idx (ms_meta e), mm_src_part (ms_meta e)).
Definition dst_pos (e : mig_store) : nat * bool := (mm_dst_idx (ms_meta e), mm_dst_part (ms_meta e)).
Definition own_pos (e : mig_store) : nat * bool := if ms_out e then src_pos e else dst_pos e.
Definition twin_pos (e : mig_store) : nat * bool := if ms_out e then dst_pos e else src_pos e.
Definition twin (e : mig_store) : mig_store := mkMig (ms_ranges e) (negb (ms_out e)) (ms_meta e).

(* all ranges anywhere in the chunk list *)
Definition chunk_all_ranges (c : chunk) : rangelist :=
  opt_ranges (ck_stable0 c) ++ opt_ranges (ck_stable1 c) ++ flat_map ms_ranges (ck_mig0 c) ++ flat_map ms_ranges (ck_mig1 c).

Record part_inv (chunks : list chunk) : Prop := mkPartInv {
  (* S *) pi_size : 2 * N.of_nat (length chunks) <= SLOT_NUM;     (* never more masters than slots *)
  (* W *) pi_wf : Forall wf_range (flat_map chunk_all_ranges chunks);
  (* N *) pi_nonempty : forall pos e, In e (entries_at chunks pos) -> ms_ranges e <> [];
  (* C *) pi_cover : covers_once (owned chunks);
  (* B *) pi_in_out : forall s, cnt s (all_in chunks) = cnt s (all_out chunks);
  (* T *) pi_twin : forall pos e, In e (entries_at chunks pos) ->
            own_pos e = pos /\ (fst (twin_pos e) < length chunks)%nat /\ In (twin e) (entries_at chunks (twin_pos e))
}.

Definition cluster_inv (cl : cluster) : Prop := part_inv (cl_chunks cl).
Definition store_part_inv (s : store) : Prop := forall name cl, In (name, cl) (st_clusters s) -> cluster_inv cl.

(* reachable stores: any operation sequence whose steps do not panic; a Restore installs a snapshot that is itself reachable *)
Inductive reachable : store -> Prop :=
| reach_init : forall o, reachable (init_store o)
| reach_step : forall s o, reachable s -> (forall snap, o = ORestore snap -> reachable snap) ->
               snd (step s o) <> RPanic -> reachable (fst (step s o)).

(* ---------- view-level statement ---------- *)
Definition is_importing (t : vtag) : bool := match t with VImporting _ => true | _ => false end.
Definition is_migrating (t : vtag) : bool := match t with VMigrating _ => true | _ => false end.

(* ranges the masters of a node list own: Stable and Migrating entries *)
Definition node_owned (n : vnode) : rangelist :=
  if vn_master n then flat_map (fun sl => if is_importing (snd sl) then [] else fst sl) (vn_slots n) else [].
Definition view_owned (ns : list vnode) : rangelist := flat_map node_owned ns.

Definition vmeta_eqb (a b : vmeta) : bool :=
  N.eqb (vm_epoch a) (vm_epoch b) && N.eqb (vm_src_proxy a) (vm_src_proxy b) && N.eqb (vm_src_node a) (vm_src_node b)
  && N.eqb (vm_dst_proxy a) (vm_dst_proxy b) && N.eqb (vm_dst_node a) (vm_dst_node b).

(* (node address, proxy address, ranges, meta) of every importing / migrating entry *)
Definition tagged (imp : bool) (ns : list vnode) : list (N * N * rangelist * vmeta) :=
  flat_map (fun n => flat_map (fun sl => match snd sl with
                                         | VImporting m => if imp then [(vn_addr n, vn_proxy n, fst sl, m)] else []
                                         | VMigrating m => if imp then [] else [(vn_addr n, vn_proxy n, fst sl, m)]
                                         | VNone => []
                                         end) (vn_slots n)) ns.

Definition same_mig (a b : N * N * rangelist * vmeta) : bool :=
  rangelist_eqb (snd (fst a)) (snd (fst b)) && vmeta_eqb (snd a) (snd b).

Record partition_ok (ns : list vnode) : Prop := mkPartOk {
  po_cover : covers_once (view_owned ns);
  po_replicas : forall n, In n ns -> vn_master n = false -> vn_slots n = [];
  po_out_twin : forall x, In x (tagged false ns) ->
      (* exactly one importing twin, sitting on the destination master *)
      exists y, filter (same_mig x) (tagged true ns) = [y] /\
                fst (fst (fst y)) = vm_dst_node (snd x) /\ snd (fst (fst y)) = vm_dst_proxy (snd x)
                /\ fst (fst (fst x)) = vm_src_node (snd x) /\ snd (fst (fst x)) = vm_src_proxy (snd x);
  po_in_twin : forall y, In y (tagged true ns) -> exists x, In x (tagged false ns) /\ same_mig x y = true
}.
