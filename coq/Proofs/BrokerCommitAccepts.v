(* C17, broker half: the descriptor a proxy reports for a finished migration is accepted by the broker as naming that
   migration.  commit_migration is called with (cluster name, range list, tag, epoch) of the reported task.
   1. commit_accepts_stored : for every pending out entry e of a stored cluster (under the partition invariant) the call
      with (ms_ranges e, epoch of e) and either tag succeeds, removes exactly e and its twin, keeps every other migration,
      moves the ranges of e into the stable slots of the destination position and bumps the cluster epoch.
   2. commit_accepts_visible : every Migrating / Importing slot entry visible in a served view (view_cluster under any
      migration limit; local nodes of view_proxy) carries the ranges and epoch of a stored out entry, hence is accepted.
   3. commit_stale_rejected : a descriptor matching no stored out entry is refused and the store is unchanged; in particular
      repeating an accepted commit is refused (commit_twice_rejected). *)
From UM Require Import Base.BytesDef Model.Ranges Model.Broker Proofs.BrokerBase Proofs.BrokerPartRanges Proofs.BrokerPartDefs
  Proofs.BrokerPartViewBase Proofs.BrokerPartViewLimit Proofs.BrokerPartMain Proofs.BrokerTotal
  Proofs.BrokerPartOpsFrame Proofs.BrokerPartOpsCompact Proofs.BrokerPartOpsCommit.
From Coq Require Import ZifyBool ZifyNat ZifyN.

(* ---------- small facts ---------- *)
Lemma out_entries_iff l e : In e (out_entries l) <-> ms_out e = true /\ exists pos, In e (entries_at l pos).
Proof.
  split.
  - intros H. destruct (out_entries_in _ _ H) as (c & p & Hc & He & Ho). split; [exact Ho|].
    destruct (In_entries_at l c Hc) as [i Hi]. exists (i, p). rewrite Hi. exact He.
  - intros (Ho & pos & He). apply entries_at_In in He. destruct He as (c & Hc & He).
    unfold out_entries. apply in_flat_map. exists c. split; [exact Hc|]. rewrite in_app_iff, !filter_In.
    destruct (snd pos); cbn [ck_mig] in He; auto.
Qed.

Lemma mig_eta e : e = mkMig (ms_ranges e) (ms_out e) (ms_meta e).
Proof. destruct e as [r o m]. reflexivity. Qed.

Lemma in_rangelist_cnt s l : in_rangelist s l = true <-> (1 <= cnt s l)%nat.
Proof.
  unfold in_rangelist, cnt. induction l as [|r l IH]; cbn [existsb filter length]; [split; [discriminate|lia]|].
  destruct (in_range s r); cbn [orb length]; [split; [lia|reflexivity]|exact IH].
Qed.

Lemma commit_tag_irrelevant s name rl ep :
  commit_migration s name rl TagMigrating ep = commit_migration s name rl TagImporting ep.
Proof. reflexivity. Qed.

Lemma find_entry_complete : forall chunks idx rl ep out,
  (exists pos e, In e (entries_at chunks pos) /\ ms_ranges e = rl /\ mm_epoch (ms_meta e) = ep /\ ms_out e = out) ->
  exists r, find_entry_chunks idx chunks rl ep out = Some r.
Proof.
  induction chunks as [|c rest IH]; intros idx rl ep out ([i p] & e & He & Hr & Hep & Ho).
  - unfold entries_at in He. cbn [fst] in He. destruct i; destruct He.
  - cbn [find_entry_chunks].
    match goal with |- context[existsb ?m _] => set (mf := m) end.
    assert (Hm : mf e = true).
    { subst mf. cbv beta. rewrite Hr, Hep, Ho, rangelist_eqb_refl, N.eqb_refl, eqb_reflx. reflexivity. }
    destruct (existsb mf (ck_mig0 c)) eqn:E0; [eauto|]. destruct (existsb mf (ck_mig1 c)) eqn:E1; [eauto|].
    apply IH. destruct i as [|i].
    + exfalso. unfold entries_at in He. cbn [fst snd nth_error] in He.
      assert (existsb mf (ck_mig c p) = true) by (apply existsb_exists; eauto).
      destruct p; cbn [ck_mig] in H; congruence.
    + exists (i, p), e. rewrite entries_at_cons_S in He. auto.
Qed.

Lemma find_entry_none chunks rl ep out :
  (forall pos e, In e (entries_at chunks pos) -> ms_out e = out -> ~ (ms_ranges e = rl /\ mm_epoch (ms_meta e) = ep)) ->
  find_entry_chunks 0 chunks rl ep out = None.
Proof.
  intros H. destruct (find_entry_chunks 0 chunks rl ep out) as [[i p]|] eqn:E; [exfalso|reflexivity].
  apply find_entry_spec in E. destruct E as (_ & e & He & Hr & Hep & Ho). eapply H; eauto.
Qed.

(* two different out entries of a cluster under the invariant never share a slot *)
Lemma other_out_disjoint chunks p1 p2 a b s : part_inv chunks ->
  In a (entries_at chunks p1) -> In b (entries_at chunks p2) -> ms_out a = true -> ms_out b = true -> a <> b ->
  (cnt s (ms_ranges a) + cnt s (ms_ranges b) <= 1)%nat.
Proof.
  intros H Ha Hb Hoa Hob Hne.
  pose proof (two_out _ a b s (entries_at_all _ _ _ Ha) (entries_at_all _ _ _ Hb) Hne Hoa Hob) as H2.
  rewrite <- all_out_entries in H2. pose proof (owned_split chunks s). pose proof (covers_once_le _ s (pi_cover _ H)). lia.
Qed.

(* ---------- the two lookups of commit_migration succeed on a pending out entry and rebuild its meta ---------- *)
Lemma commit_finds chunks e : part_inv chunks -> In e (out_entries chunks) ->
  exists si sp di dp,
    find_entry_chunks 0 chunks (ms_ranges e) (mm_epoch (ms_meta e)) true = Some (si, sp)
    /\ find_entry_chunks 0 chunks (ms_ranges e) (mm_epoch (ms_meta e)) false = Some (di, dp)
    /\ mkMeta (mm_epoch (ms_meta e)) si sp di dp = ms_meta e.
Proof.
  intros H He. apply out_entries_iff in He. destruct He as (Ho & pos0 & He0).
  destruct (pi_twin _ H _ _ He0) as (_ & _ & T3). unfold twin_pos in T3. rewrite Ho in T3.
  destruct (find_entry_complete chunks 0 (ms_ranges e) (mm_epoch (ms_meta e)) true) as [[si sp] Efo].
  { exists pos0, e. auto. }
  destruct (find_entry_complete chunks 0 (ms_ranges e) (mm_epoch (ms_meta e)) false) as [[di dp] Efi].
  { exists (dst_pos e), (twin e). split; [exact T3|]. cbn [twin ms_ranges ms_meta ms_out]. rewrite Ho. auto. }
  exists si, sp, di, dp. split; [exact Efo|]. split; [exact Efi|].
  apply find_entry_spec in Efo. destruct Efo as (_ & x0 & Hx0 & Hxr & _ & Hxo). rewrite Nat.sub_0_r in Hx0.
  apply find_entry_spec in Efi. destruct Efi as (_ & y0 & Hy0 & Hyr & _ & Hyo). rewrite Nat.sub_0_r in Hy0.
  assert (Ex : x0 = e) by (eapply out_unique; eauto). subst x0.
  destruct (pi_twin _ H _ _ Hx0) as (Tx & _ & _). unfold own_pos in Tx. rewrite Ho in Tx.
  destruct (pi_twin _ H _ _ Hy0) as (Ty & _ & Ty3). unfold own_pos in Ty. unfold twin_pos in Ty3. rewrite Hyo in Ty, Ty3.
  assert (Ey : twin y0 = e).
  { eapply out_unique; [exact H|exact Ty3|exact He0| |exact Ho|exact Hyr]. cbn [twin ms_out]. rewrite Hyo. reflexivity. }
  assert (Hd : dst_pos e = (di, dp)) by (rewrite <- Ey; exact Ty).
  clear - Tx Hd. destruct e as [r o [a b c d f]]. unfold src_pos, dst_pos in *.
  cbn [ms_meta mm_epoch mm_src_idx mm_src_part mm_dst_idx mm_dst_part] in *. inversion Tx; inversion Hd; subst. reflexivity.
Qed.

Lemma commit_migration_found s name cl rl tag ep si sp di dp :
  alookup name (st_clusters s) = Some cl -> tag <> TagNone ->
  find_entry_chunks 0 (cl_chunks cl) rl ep true = Some (si, sp) ->
  find_entry_chunks 0 (cl_chunks cl) rl ep false = Some (di, dp) ->
  commit_migration s name rl tag ep =
  (bump (with_clusters s (ainsert name
     (mkCluster (st_epoch s + 1)
        (compact_slots (commit_in (map (Fk rl (mkMeta ep si sp di dp)) (cl_chunks cl)) rl (mkMeta ep si sp di dp)))
        (cl_config cl)) (st_clusters s))), Done tt).
Proof.
  intros El Ht Efo Efi. unfold commit_migration. rewrite El, Efo, Efi. destruct tag; [congruence|reflexivity|reflexivity].
Qed.

(* ---------- what the two rewriting passes do to the chunk list ---------- *)
Lemma commit_chunks_result chunks e : part_inv chunks -> In e (out_entries chunks) ->
  let chunks2 := commit_in (map (Fk (ms_ranges e) (ms_meta e)) chunks) (ms_ranges e) (ms_meta e) in
  part_inv chunks2
  /\ length chunks2 = length chunks
  /\ (forall pos e2, In e2 (entries_at chunks2 pos) -> In e2 (entries_at chunks pos) /\ e2 <> e /\ e2 <> twin e)
  /\ (forall pos e2, In e2 (entries_at chunks pos) -> e2 <> e -> e2 <> twin e -> In e2 (entries_at chunks2 pos))
  /\ (exists c', nth_error chunks2 (mm_dst_idx (ms_meta e)) = Some c'
        /\ forall s, (cnt s (ms_ranges e) <= cnt s (opt_ranges (ck_stable c' (mm_dst_part (ms_meta e)))))%nat).
Proof.
  intros H He. cbv zeta.
  destruct (commit_finds chunks e H He) as (si & sp & di & dp & Efo & Efi & Hmeta).
  pose proof (commit_chunks_part_inv chunks _ _ si sp di dp H Efo Efi) as HI2. rewrite Hmeta in HI2.
  apply out_entries_iff in He. destruct He as (Ho & pos0 & He0).
  set (rl := ms_ranges e) in *. set (meta := ms_meta e) in *.
  assert (Ex : e = mkMig rl true meta) by (rewrite (mig_eta e), Ho; reflexivity).
  assert (Ey : twin e = mkMig rl false meta) by (unfold twin; rewrite Ho; reflexivity).
  set (y := twin e) in *.
  destruct (pi_twin _ H _ _ He0) as (_ & _ & T3). unfold twin_pos in T3. rewrite Ho in T3. fold y in T3.
  set (chunks1 := map (Fk rl meta) chunks) in *.
  assert (L1 : forall pos, entries_at chunks1 pos = filter (keepf rl meta) (entries_at chunks pos)) by (intros; apply entries_at_Fk).
  assert (Hkeep : forall e2, keepf rl meta e2 = true <-> e2 <> e).
  { intros e2. split.
    - intros Hk ->. assert (keepf rl meta e = false) by (apply keepf_false; exact Ex). congruence.
    - intros Hne. destruct (keepf rl meta e2) eqn:Hk; [reflexivity|]. apply keepf_false in Hk. congruence. }
  destruct (commit_in_spec rl meta chunks1) as [Hno|(pre & c & c' & post & E1 & E2 & part & l1 & l2 & Ec & Ec')].
  { exfalso. assert (Hy1 : In y (entries_at chunks1 (dst_pos e))).
    { rewrite L1. apply filter_In. split; [exact T3|]. apply keepf_in. rewrite Ey. reflexivity. }
    apply entries_at_In in Hy1. destruct Hy1 as (c & Hc & Hy1). specialize (Hno c Hc _ _ Hy1).
    assert (inm rl meta y = true) by (apply inm_true; exact Ey). congruence. }
  rewrite <- Ey in Ec. rewrite E2 in *.
  assert (M1 : ck_mig c' part = l1 ++ l2) by (rewrite Ec', ck_mig_merge_into, ck_mig_set_same; reflexivity).
  assert (M2 : ck_mig c' (negb part) = ck_mig c (negb part)) by (rewrite Ec', ck_mig_merge_into, ck_mig_set_other; reflexivity).
  assert (Hsub : forall p e2, In e2 (ck_mig c' p) -> In e2 (ck_mig c p)).
  { intros p e2 He2. destruct (Bool.bool_dec p part) as [->|Hp].
    - rewrite M1 in He2. rewrite Ec. rewrite in_app_iff in *. cbn [In]. tauto.
    - assert (p = negb part) by (destruct p, part; cbn [negb]; congruence). subst p. rewrite M2 in He2. exact He2. }
  assert (Hsup : forall p e2, In e2 (ck_mig c p) -> e2 <> y -> In e2 (ck_mig c' p)).
  { intros p e2 He2 Hney. destruct (Bool.bool_dec p part) as [->|Hp].
    - rewrite M1. rewrite Ec in He2. rewrite in_app_iff in *. cbn [In] in He2. destruct He2 as [He2|[He2|He2]]; auto. congruence.
    - assert (p = negb part) by (destruct p, part; cbn [negb]; congruence). subst p. rewrite M2. exact He2. }
  assert (P1 : forall pos e2, In e2 (entries_at (pre ++ c' :: post) pos) -> In e2 (entries_at chunks1 pos)).
  { intros pos e2 He2. rewrite E1. rewrite (entries_at_change pre c c' post pos) in He2.
    rewrite (entries_at_change pre c c post pos). destruct (Nat.eqb (fst pos) (length pre)); [apply Hsub|]; exact He2. }
  assert (P2 : forall pos e2, In e2 (entries_at chunks1 pos) -> e2 <> y -> In e2 (entries_at (pre ++ c' :: post) pos)).
  { intros pos e2 He2 Hney. rewrite E1 in He2. rewrite (entries_at_change pre c c' post pos).
    rewrite (entries_at_change pre c c post pos) in He2. destruct (Nat.eqb (fst pos) (length pre)); [apply Hsup|]; assumption. }
  assert (FA0 : forall pos e2, In e2 (entries_at (pre ++ c' :: post) pos) -> In e2 (entries_at chunks pos) /\ e2 <> e).
  { intros pos e2 He2. apply P1 in He2. rewrite L1 in He2. apply filter_In in He2. destruct He2 as [He2 Hk].
    split; [exact He2|]. apply Hkeep. exact Hk. }
  (* the chunk that changed is the destination of e *)
  assert (Hpos : (length pre, part) = dst_pos e).
  { assert (Hy1 : In y (entries_at chunks1 (length pre, part))).
    { rewrite E1, (entries_at_change pre c c post). cbn [fst snd]. rewrite Nat.eqb_refl, Ec. apply in_elt. }
    rewrite L1 in Hy1. apply filter_In in Hy1. destruct Hy1 as [Hy1 _].
    destruct (pi_twin _ H _ _ Hy1) as (Ty & _ & _). unfold own_pos in Ty. rewrite Ey in Ty. cbn [ms_out] in Ty.
    rewrite <- Ty. unfold dst_pos. cbn [ms_meta]. reflexivity. }
  unfold dst_pos in Hpos. fold meta in Hpos. inversion Hpos as [[Hidx Hpart]].
  split; [exact HI2|]. split; [|split; [|split; [|]]].
  - transitivity (length chunks1); [rewrite E1, !app_length; reflexivity|]. unfold chunks1. apply map_length.
  - intros pos e2 He2. destruct (FA0 pos e2 He2) as [Hin Hne]. split; [exact Hin|]. split; [exact Hne|].
    intros ->. destruct (pi_twin _ HI2 _ _ He2) as (_ & _ & Tt). unfold y in Tt. rewrite twin_twin in Tt.
    destruct (FA0 _ _ Tt) as [_ Hc]. congruence.
  - intros pos e2 He2 Hne Hney. apply P2; [|exact Hney]. rewrite L1. apply filter_In. split; [exact He2|]. apply Hkeep. exact Hne.
  - exists c'. rewrite <- ?Hidx, <- ?Hpart. split; [rewrite nth_error_app2, Nat.sub_diag by lia; reflexivity|].
    intros s.
    assert (S1 : ck_stable c' part = Some (match ck_stable c part with Some st => rl_merge_another st rl | None => rl end)).
    { rewrite Ec', ck_stable_merge_same, ck_stable_set_mig. reflexivity. }
    rewrite S1. cbn [opt_ranges]. destruct (ck_stable c part) as [st|] eqn:Est; [|lia].
    assert (Hc1 : In c chunks1) by (rewrite E1; apply in_elt).
    unfold chunks1 in Hc1. apply in_map_iff in Hc1. destruct Hc1 as (c0 & <- & Hc0).
    unfold Fk in Est. rewrite !ck_stable_set_mig in Est.
    assert (Hok : ok_rl (st ++ rl)).
    { destruct (stable_ok _ _ _ _ H Hc0 Est) as [Hwst _]. split.
      - apply Forall_app. split; [exact Hwst|]. exact (entry_wf _ _ _ H He0).
      - intros x. rewrite cnt_app.
        pose proof (cnt_chunk_stab c0 part x) as Hs. rewrite Est in Hs. cbn [opt_ranges] in Hs.
        pose proof (cnt_flat_map_In chunk_stab chunks c0 x Hc0) as Hs2. fold (stabs chunks) in Hs2.
        pose proof (cnt_out_In e _ x (entries_at_all _ _ _ He0) Ho) as Hs3. rewrite <- all_out_entries in Hs3.
        pose proof (owned_split chunks x). pose proof (covers_once_le _ x (pi_cover _ H)). fold rl in Hs3. lia. }
    unfold rl_merge_another. rewrite (compact_ok_cnt _ s Hok), cnt_app. lia.
Qed.

(* ---------- 1. a pending out entry is accepted ---------- *)
Definition commit_effect (s : store) (name : N) (cl : cluster) (e : mig_store) (s' : store) : Prop :=
  st_epoch s' = st_epoch s + 1
  /\ (forall other, other <> name -> alookup other (st_clusters s') = alookup other (st_clusters s))
  /\ exists cl',
       alookup name (st_clusters s') = Some cl'
       /\ cl_epoch cl' = st_epoch s + 1 /\ cl_config cl' = cl_config cl
       /\ length (cl_chunks cl') = length (cl_chunks cl)
       /\ cluster_inv cl'
       (* the committed migration is gone: e itself, and any entry (Migrating or Importing) with its ranges *)
       /\ ~ In e (out_entries (cl_chunks cl'))
       /\ (forall pos e2, In e2 (entries_at (cl_chunks cl') pos) -> ms_ranges e2 <> ms_ranges e)
       (* every other pending migration is still pending, in place, with both of its sides *)
       /\ (forall e', In e' (out_entries (cl_chunks cl)) -> e' <> e ->
             In (compact_mig e') (out_entries (cl_chunks cl'))
             /\ In (compact_mig e') (entries_at (cl_chunks cl') (src_pos e'))
             /\ In (compact_mig (twin e')) (entries_at (cl_chunks cl') (dst_pos e')))
       (* nothing new appears *)
       /\ (forall pos e2, In e2 (entries_at (cl_chunks cl') pos) ->
             exists e0, In e0 (entries_at (cl_chunks cl) pos) /\ e2 = compact_mig e0 /\ e0 <> e /\ e0 <> twin e)
       (* the slots of e are now stable slots of the destination part *)
       /\ exists c', nth_error (cl_chunks cl') (mm_dst_idx (ms_meta e)) = Some c'
            /\ forall x, in_rangelist x (ms_ranges e) = true ->
                 in_rangelist x (opt_ranges (ck_stable c' (mm_dst_part (ms_meta e)))) = true.

Theorem commit_accepts_stored s name cl e tag :
  store_part_inv s -> alookup name (st_clusters s) = Some cl -> In e (out_entries (cl_chunks cl)) -> tag <> TagNone ->
  snd (commit_migration s name (ms_ranges e) tag (mm_epoch (ms_meta e))) = Done tt
  /\ commit_effect s name cl e (fst (commit_migration s name (ms_ranges e) tag (mm_epoch (ms_meta e)))).
Proof.
  intros Hs El He Ht.
  assert (H : part_inv (cl_chunks cl)) by (eapply store_inv_lookup; eassumption).
  destruct (commit_finds _ e H He) as (si & sp & di & dp & Efo & Efi & Hmeta).
  rewrite (commit_migration_found s name cl _ tag _ si sp di dp El Ht Efo Efi), Hmeta. cbn [fst snd].
  split; [reflexivity|].
  destruct (commit_chunks_result _ e H He) as (HI2 & Hlen & FA & FB & c' & Hc' & Hcov).
  set (chunks2 := commit_in (map (Fk (ms_ranges e) (ms_meta e)) (cl_chunks cl)) (ms_ranges e) (ms_meta e)) in *.
  pose proof (part_inv_compact _ HI2) as HI3.
  pose proof He as He'. apply out_entries_iff in He'. destruct He' as (Ho & pos0 & He0).
  assert (Hother : forall pos e0, In e0 (entries_at (cl_chunks cl) pos) -> e0 <> e -> e0 <> twin e ->
                   compact (ms_ranges e0) <> ms_ranges e).
  { intros pos e0 He0' Hne Hnt Heq.
    destruct (hit_slot (ms_ranges e)) as [x Hx]; [exact (pi_nonempty _ H _ _ He0)|exact (entry_wf _ _ _ H He0)|].
    pose proof (entry_ok _ _ _ H He0') as Hok0. rewrite <- Heq, (compact_ok_cnt _ x Hok0) in Hx.
    destruct (ms_out e0) eqn:Ho0.
    - pose proof (other_out_disjoint _ _ _ e0 e x H He0' He0 Ho0 Ho Hne) as Hd.
      rewrite <- Heq in Hd. rewrite (compact_ok_cnt _ x Hok0) in Hd. lia.
    - destruct (pi_twin _ H _ _ He0') as (_ & _ & Tt).
      assert (Hne2 : twin e0 <> e) by (intros E; apply Hnt; rewrite <- E, twin_twin; reflexivity).
      assert (Hot : ms_out (twin e0) = true) by (cbn [twin ms_out]; rewrite Ho0; reflexivity).
      pose proof (other_out_disjoint _ _ _ (twin e0) e x H Tt He0 Hot Ho Hne2) as Hd.
      cbn [twin ms_ranges] in Hd. rewrite <- Heq in Hd. rewrite (compact_ok_cnt _ x Hok0) in Hd. lia. }
  assert (Hgone : forall pos e2, In e2 (entries_at (compact_slots chunks2) pos) -> ms_ranges e2 <> ms_ranges e).
  { intros pos e2 He2. unfold compact_slots in He2. rewrite entries_at_compact in He2. apply in_map_iff in He2.
    destruct He2 as (e0 & <- & He2). destruct (FA _ _ He2) as (Hin & Hne & Hnt). cbn [compact_mig ms_ranges]. eauto. }
  split; [reflexivity|]. split; [intros other Hne; cbn [st_clusters bump with_clusters with_epoch]; apply alookup_ainsert_other; exact Hne|].
  eexists. split; [cbn [st_clusters bump with_clusters with_epoch]; apply alookup_ainsert_same|].
  cbn [cl_epoch cl_config cl_chunks]. split; [reflexivity|]. split; [reflexivity|].
  split; [unfold compact_slots; rewrite map_length; exact Hlen|]. split; [exact HI3|].
  split; [|split; [exact Hgone|split; [|split]]].
  - intros Hin. apply out_entries_iff in Hin. destruct Hin as (_ & pos & Hin). apply (Hgone _ _ Hin). reflexivity.
  - intros e' He1 Hne. apply out_entries_iff in He1. destruct He1 as (Ho' & pos & He1).
    destruct (pi_twin _ H _ _ He1) as (T1 & _ & T3). unfold own_pos in T1. unfold twin_pos in T3. rewrite Ho' in T1, T3.
    assert (Hnt : e' <> twin e) by (intros ->; cbn [twin ms_out] in Ho'; rewrite Ho in Ho'; discriminate).
    assert (Hnt2 : twin e' <> e) by (intros E; rewrite <- E in Ho; cbn [twin ms_out] in Ho; rewrite Ho' in Ho; discriminate).
    assert (Hnt3 : twin e' <> twin e) by (intros E; apply Hne; rewrite <- (twin_twin e'), E, twin_twin; reflexivity).
    assert (A1 : In (compact_mig e') (entries_at (compact_slots chunks2) (src_pos e'))).
    { unfold compact_slots. rewrite entries_at_compact. apply in_map. rewrite T1. apply FB; assumption. }
    split; [|split; [exact A1|]].
    + apply out_entries_iff. split; [exact Ho'|]. eauto.
    + unfold compact_slots. rewrite entries_at_compact. apply in_map. apply FB; assumption.
  - intros pos e2 He2. unfold compact_slots in He2. rewrite entries_at_compact in He2. apply in_map_iff in He2.
    destruct He2 as (e0 & <- & He2). destruct (FA _ _ He2) as (Hin & Hne & Hnt). eauto.
  - exists (compact_chunk c'). split; [unfold compact_slots; rewrite nth_error_map, Hc'; reflexivity|].
    intros x Hx. apply in_rangelist_cnt in Hx. apply in_rangelist_cnt.
    assert (Hst : ck_stable (compact_chunk c') (mm_dst_part (ms_meta e)) = option_map compact (ck_stable c' (mm_dst_part (ms_meta e))))
      by (destruct (mm_dst_part (ms_meta e)); reflexivity).
    rewrite Hst. specialize (Hcov x).
    destruct (ck_stable c' (mm_dst_part (ms_meta e))) as [st|] eqn:Est; cbn [option_map opt_ranges] in *; [|rewrite cnt_nil in Hcov; lia].
    assert (Hc2 : In c' chunks2) by (eapply nth_error_In; exact Hc').
    rewrite (compact_ok_cnt _ x (stable_ok _ _ _ _ HI2 Hc2 Est)). lia.
Qed.

(* ---------- 3. a descriptor that names no pending migration is refused and nothing changes ---------- *)
Theorem commit_stale_rejected s name rl tag ep :
  match alookup name (st_clusters s) with
  | None => commit_migration s name rl tag ep = (s, Fail E_ClusterNotFound)
  | Some cl =>
      (tag = TagNone -> commit_migration s name rl tag ep = (s, Fail E_InvalidMigrationTask))
      /\ (tag <> TagNone ->
          (forall e, In e (out_entries (cl_chunks cl)) -> ~ (ms_ranges e = rl /\ mm_epoch (ms_meta e) = ep)) ->
          commit_migration s name rl tag ep = (s, Fail E_MigrationTaskNotFound))
  end.
Proof.
  unfold commit_migration. destruct (alookup name (st_clusters s)) as [cl|]; [|reflexivity].
  split; [intros ->; reflexivity|]. intros Ht Hno.
  rewrite (find_entry_none (cl_chunks cl) rl ep true).
  - destruct tag; [congruence|reflexivity|reflexivity].
  - intros pos e He Ho. apply Hno. apply out_entries_iff. eauto.
Qed.

(* committed exactly once: the same report (either side) is refused afterwards, and the store is left as it is *)
Theorem commit_twice_rejected s name cl e tag tag2 :
  store_part_inv s -> alookup name (st_clusters s) = Some cl -> In e (out_entries (cl_chunks cl)) -> tag <> TagNone -> tag2 <> TagNone ->
  let s' := fst (commit_migration s name (ms_ranges e) tag (mm_epoch (ms_meta e))) in
  commit_migration s' name (ms_ranges e) tag2 (mm_epoch (ms_meta e)) = (s', Fail E_MigrationTaskNotFound).
Proof.
  intros Hs El He Ht Ht2 s'.
  destruct (commit_accepts_stored s name cl e tag Hs El He Ht) as (_ & _ & _ & cl' & El' & _ & _ & _ & _ & _ & Hgone & _).
  fold s' in El'. pose proof (commit_stale_rejected s' name (ms_ranges e) tag2 (mm_epoch (ms_meta e))) as Hr.
  rewrite El' in Hr. destruct Hr as [_ Hr]. apply Hr; [exact Ht2|].
  intros e2 He2 [Hr2 _]. apply out_entries_iff in He2. destruct He2 as (_ & pos & He2). exact (Hgone _ _ He2 Hr2).
Qed.

(* ---------- 2. every migration entry visible in a served view names a stored out entry ---------- *)
Lemma entries_at_clear chunks pos : entries_at (map clear_migs chunks) pos = [].
Proof.
  unfold entries_at. rewrite nth_error_map. destruct (nth_error chunks (fst pos)); cbn [option_map]; [|reflexivity].
  destruct (snd pos); reflexivity.
Qed.

(* limit_loop only ever inserts the out entries it is given and their reconstructed twins *)
Lemma limit_loop_entries lim : forall R C num outs C', limit_loop lim R C num outs = Some C' ->
  forall pos e2, In e2 (entries_at C' pos) ->
    In e2 (entries_at C pos) \/ exists e, In e R /\ (e2 = e \/ e2 = mkMig (ms_ranges e) false (ms_meta e)).
Proof.
  induction R as [|e R IH]; intros C num outs C' HL pos e2 He2; cbn [limit_loop] in HL.
  - inversion HL; subst. left. exact He2.
  - destruct (Nat.ltb (mm_src_idx (ms_meta e)) (length C)) eqn:Es; [|discriminate]. apply Nat.ltb_lt in Es.
    destruct (N.leb lim num || pos_mem (mm_src_idx (ms_meta e), mm_src_part (ms_meta e)) outs).
    + destruct (IH _ _ _ _ HL pos e2 He2) as [Hc|(e' & He' & Hc)].
      * left. change (In e2 (entries_at (update_nth (mm_src_idx (ms_meta e)) (defer_fun e) C) pos)) in Hc.
        rewrite entries_at_defer in Hc. exact Hc.
      * right. exists e'. split; [right; exact He'|exact Hc].
    + destruct (Nat.ltb (mm_dst_idx (ms_meta e)) (length C)) eqn:Ed; [|discriminate]. apply Nat.ltb_lt in Ed.
      destruct (IH _ _ _ _ HL pos e2 He2) as [Hc|(e' & He' & Hc)].
      * change (In e2 (entries_at (push_at (push_at C (mm_src_idx (ms_meta e)) (mm_src_part (ms_meta e)) e)
                                            (mm_dst_idx (ms_meta e)) (mm_dst_part (ms_meta e))
                                            (mkMig (ms_ranges e) false (ms_meta e))) pos)) in Hc.
        apply entries_at_push in Hc; [|rewrite length_push_at; exact Ed].
        destruct Hc as [Hc|[_ ->]]; [|right; exists e; split; [left; reflexivity|right; reflexivity]].
        apply entries_at_push in Hc; [|exact Es].
        destruct Hc as [Hc|[_ ->]]; [left; exact Hc|right; exists e; split; [left; reflexivity|left; reflexivity]].
      * right. exists e'. split; [right; exact He'|exact Hc].
Qed.

Lemma limited_entry_stored lim cl cl2 pos e2 :
  cluster_inv cl -> limit_migration lim cl = Some cl2 -> In e2 (entries_at (cl_chunks cl2) pos) ->
  exists e, In e (out_entries (cl_chunks cl)) /\ ms_ranges e = ms_ranges e2 /\ ms_meta e = ms_meta e2.
Proof.
  intros H HL He2. unfold limit_migration in HL. destruct (N.eqb lim 0).
  - inversion HL; subst cl2. destruct (ms_out e2) eqn:Ho.
    + exists e2. split; [apply out_entries_iff; eauto|auto].
    + destruct (pi_twin _ H _ _ He2) as (_ & _ & Tt). exists (twin e2). split; [|auto].
      apply out_entries_iff. split; [cbn [twin ms_out]; rewrite Ho; reflexivity|eauto].
  - destruct (limit_loop lim (out_entries (cl_chunks cl)) (map clear_migs (cl_chunks cl)) 0 []) as [C'|] eqn:E; [|discriminate].
    inversion HL; subst cl2. cbn [cl_chunks] in He2.
    destruct (limit_loop_entries lim _ _ _ _ _ E pos e2 He2) as [Hc|(e & He & [->| ->])].
    + rewrite entries_at_clear in Hc. destruct Hc.
    + exists e. auto.
    + exists e. auto.
Qed.

Lemma nodes_of_slot chunks c n sl : In n (nodes_of chunks c) -> In sl (vn_slots n) -> exists p, In sl (part_slots chunks c p).
Proof.
  unfold nodes_of. cbv zeta. intros [<-|[<-|[<-|[<-|[]]]]]; cbn [vn_slots]; intros Hs; apply in_app_or in Hs;
    destruct Hs as [Hs|Hs]; destruct (ck_role c); cbn [Nat.eqb] in Hs; try destruct Hs; eauto.
Qed.

Lemma part_slots_mig chunks c p rl t : In (rl, t) (part_slots chunks c p) -> t <> VNone ->
  exists e2, In e2 (ck_mig c p) /\ ms_ranges e2 = rl
             /\ t = (if ms_out e2 then VMigrating (vmeta_of chunks (ms_meta e2)) else VImporting (vmeta_of chunks (ms_meta e2))).
Proof.
  unfold part_slots. intros H Ht. apply in_app_or in H. destruct H as [H|H].
  - destruct (ck_stable c p); [|destruct H]. destruct H as [H|[]]. inversion H. congruence.
  - apply in_map_iff in H. destruct H as (e2 & E & He2). unfold vslot_of in E. inversion E. eauto.
Qed.

(* the nodes of a served cluster view: any Migrating / Importing slot entry carries ranges and epoch of a stored out entry *)
Lemma limited_nodes_entry_stored lim cl cl2 n rl t m :
  cluster_inv cl -> limit_migration lim cl = Some cl2 -> cluster_inv cl2 ->
  In n (flat_map (nodes_of (cl_chunks cl2)) (cl_chunks cl2)) -> In (rl, t) (vn_slots n) ->
  t = VMigrating m \/ t = VImporting m ->
  exists e, In e (out_entries (cl_chunks cl)) /\ ms_ranges e = rl /\ mm_epoch (ms_meta e) = vm_epoch m.
Proof.
  intros H HL H2 Hn Hsl Ht. apply in_flat_map in Hn. destruct Hn as (c & Hc & Hn).
  destruct (nodes_of_slot _ _ _ _ Hn Hsl) as [p Hp].
  destruct (part_slots_mig _ _ _ _ _ Hp) as (e2 & He2 & Hr & Et); [destruct Ht; subst t; discriminate|].
  destruct (In_entries_at _ _ Hc) as [i Hi]. rewrite <- (Hi p) in He2.
  destruct (limited_entry_stored lim cl cl2 _ _ H HL He2) as (e & He & Hre & Hme).
  exists e. split; [exact He|]. split; [congruence|]. rewrite Hme.
  destruct (ms_out e2); destruct Ht as [->| ->]; inversion Et; reflexivity.
Qed.

Lemma visible_entry_stored s lim name v n rl t m :
  store_part_inv s -> view_cluster lim s name = Some (Some v) -> In n (vc_nodes v) -> In (rl, t) (vn_slots n) ->
  t = VMigrating m \/ t = VImporting m ->
  exists cl e, alookup name (st_clusters s) = Some cl /\ In e (out_entries (cl_chunks cl))
               /\ ms_ranges e = rl /\ mm_epoch (ms_meta e) = vm_epoch m.
Proof.
  intros Hs Hv Hn Hsl Ht. unfold view_cluster in Hv.
  destruct (alookup name (st_clusters s)) as [cl|] eqn:El; [|discriminate].
  assert (H : cluster_inv cl) by (eapply store_inv_lookup; eassumption).
  destruct (limit_migration_part_inv_main lim cl H) as (cl2 & EL & H2 & _). rewrite EL in Hv.
  rewrite (cluster_nodes_total cl2 H2) in Hv. inversion Hv; subst v. cbn [vc_nodes] in Hn.
  destruct (limited_nodes_entry_stored lim cl cl2 n rl t m H EL H2 Hn Hsl Ht) as (e & He & Hr & Hm).
  exists cl, e. auto.
Qed.

Theorem commit_accepts_visible s lim name v n rl t m tag :
  store_part_inv s -> view_cluster lim s name = Some (Some v) -> In n (vc_nodes v) -> In (rl, t) (vn_slots n) ->
  t = VMigrating m \/ t = VImporting m -> tag <> TagNone ->
  exists cl e, alookup name (st_clusters s) = Some cl /\ In e (out_entries (cl_chunks cl))
               /\ ms_ranges e = rl /\ mm_epoch (ms_meta e) = vm_epoch m
               /\ snd (commit_migration s name rl tag (vm_epoch m)) = Done tt
               /\ commit_effect s name cl e (fst (commit_migration s name rl tag (vm_epoch m))).
Proof.
  intros Hs Hv Hn Hsl Ht Htag.
  destruct (visible_entry_stored s lim name v n rl t m Hs Hv Hn Hsl Ht) as (cl & e & El & He & Hr & Hm).
  exists cl, e. split; [exact El|]. split; [exact He|]. split; [exact Hr|]. split; [exact Hm|].
  rewrite <- Hr, <- Hm. apply commit_accepts_stored; assumption.
Qed.

(* the same for the local nodes of a per-proxy view (what the proxy itself migrates or imports) *)
Theorem commit_accepts_visible_proxy s lim a pv n rl t m tag :
  store_part_inv s -> view_proxy lim s a = Some (Some pv) -> In n (vp_nodes pv) -> In (rl, t) (vn_slots n) ->
  t = VMigrating m \/ t = VImporting m -> tag <> TagNone ->
  exists name cl e, vp_cluster pv = Some name /\ alookup name (st_clusters s) = Some cl /\ In e (out_entries (cl_chunks cl))
               /\ ms_ranges e = rl /\ mm_epoch (ms_meta e) = vm_epoch m
               /\ snd (commit_migration s name rl tag (vm_epoch m)) = Done tt
               /\ commit_effect s name cl e (fst (commit_migration s name rl tag (vm_epoch m))).
Proof.
  intros Hs Hv Hn Hsl Ht Htag. unfold view_proxy in Hv.
  destruct (alookup a (st_proxies s)) as [r|]; [|discriminate].
  destruct (pr_cluster r) as [name|];
    [|exfalso; inversion Hv; subst pv; cbn [vp_nodes] in Hn; destruct Hn as [<-|[<-|[]]]; destruct Hsl].
  destruct (alookup name (st_clusters s)) as [cl|] eqn:El;
    [|exfalso; inversion Hv; subst pv; cbn [vp_nodes] in Hn; destruct Hn as [<-|[<-|[]]]; destruct Hsl].
  assert (H : cluster_inv cl) by (eapply store_inv_lookup; eassumption).
  destruct (limit_migration_part_inv_main lim cl H) as (cl2 & EL & H2 & _). rewrite EL in Hv.
  rewrite (cluster_nodes_total cl2 H2) in Hv. inversion Hv; subst pv. cbn [vp_nodes vp_cluster] in *.
  apply filter_In in Hn. destruct Hn as [Hn _].
  destruct (limited_nodes_entry_stored lim cl cl2 n rl t m H EL H2 Hn Hsl Ht) as (e & He & Hr & Hm).
  exists name, cl, e. split; [reflexivity|]. split; [exact El|]. split; [exact He|]. split; [exact Hr|]. split; [exact Hm|].
  rewrite <- Hr, <- Hm. apply commit_accepts_stored; assumption.
Qed.

(* ---------- Example: two pending migrations, the second one is committed first ---------- *)
Definition ca_ops : list op :=
  [OAddProxy 1 (Some 1) None; OAddProxy 2 (Some 2) None; OAddProxy 3 (Some 3) None; OAddProxy 4 (Some 4) None;
   OAddCluster 7 4 0 [(1, 2)]; OAutoAddNodes 7 4 [(3, 4)]; OMigrateSlots 7].
Definition ca_store : store := run (init_store false) ca_ops.
Definition ca_e1 : mig_store := mkMig [(4096, 8191)] true (mkMeta 7 0 false 1 false).
Definition ca_e2 : mig_store := mkMig [(12288, 16383)] true (mkMeta 7 0 true 1 true).

Example ca_store_part_inv : store_part_inv ca_store.
Proof.
  apply reachable_keeps_partition, reachable_any_reachable, run_reachable.
  intros snap Hin. cbn [ca_ops In] in Hin. repeat (destruct Hin as [Hin|Hin]; [discriminate|]). destruct Hin.
Qed.

Example ca_pending : exists cl, alookup 7 (st_clusters ca_store) = Some cl /\ out_entries (cl_chunks cl) = [ca_e1; ca_e2].
Proof. eexists. split; vm_compute; reflexivity. Qed.

(* the theorem applies to the second migration, reported by its importing side *)
Example ca_commit_second_first :
  snd (commit_migration ca_store 7 (ms_ranges ca_e2) TagImporting 7) = Done tt
  /\ exists cl, alookup 7 (st_clusters ca_store) = Some cl
       /\ commit_effect ca_store 7 cl ca_e2 (fst (commit_migration ca_store 7 (ms_ranges ca_e2) TagImporting 7)).
Proof.
  destruct ca_pending as (cl & El & Eo).
  destruct (commit_accepts_stored ca_store 7 cl ca_e2 TagImporting ca_store_part_inv El) as [H1 H2];
    [rewrite Eo; right; left; reflexivity|discriminate|].
  split; [exact H1|]. exists cl. split; [exact El|exact H2].
Qed.

Definition ca_store1 : store := fst (commit_migration ca_store 7 (ms_ranges ca_e2) TagImporting 7).

(* concretely: the first migration is still pending on both sides, the slots of the second are stable at (1, part 1) *)
Example ca_store1_slots :
  option_map (fun cl => (cl_epoch cl, map (fun c => (ck_stable0 c, ck_stable1 c, ck_mig0 c, ck_mig1 c)) (cl_chunks cl)))
             (alookup 7 (st_clusters ca_store1))
  = Some (8, [(Some [(0, 4095)], Some [(8192, 12287)], [ca_e1], []);
              (None, Some [(12288, 16383)], [twin ca_e1], [])]).
Proof. vm_compute. reflexivity. Qed.

(* a duplicate report of the second migration (from the other side) is refused and changes nothing *)
Example ca_duplicate_refused :
  commit_migration ca_store1 7 (ms_ranges ca_e2) TagMigrating 7 = (ca_store1, Fail E_MigrationTaskNotFound).
Proof.
  destruct ca_pending as (cl & El & Eo).
  apply (commit_twice_rejected ca_store 7 cl ca_e2 TagImporting TagMigrating ca_store_part_inv El);
    [rewrite Eo; right; left; reflexivity|discriminate|discriminate].
Qed.

(* a report with a stale epoch is refused *)
Example ca_stale_epoch_refused :
  commit_migration ca_store 7 (ms_ranges ca_e1) TagMigrating 6 = (ca_store, Fail E_MigrationTaskNotFound).
Proof. vm_compute. reflexivity. Qed.

(* then the first migration commits; nothing is pending afterwards *)
Example ca_commit_first_after :
  snd (commit_migration ca_store1 7 (ms_ranges ca_e1) TagMigrating 7) = Done tt
  /\ option_map (fun cl => out_entries (cl_chunks cl))
       (alookup 7 (st_clusters (fst (commit_migration ca_store1 7 (ms_ranges ca_e1) TagMigrating 7)))) = Some [].
Proof. split; vm_compute; reflexivity. Qed.

(* under migration limit 1 only the first migration is served; its Migrating and Importing slot entries are visible and
   commit_accepts_visible applies to both *)
Example ca_visible :
  exists v n1 n2 m,
    view_cluster 1 ca_store 7 = Some (Some v) /\ In n1 (vc_nodes v) /\ In n2 (vc_nodes v)
    /\ In ([(4096, 8191)], VMigrating m) (vn_slots n1) /\ In ([(4096, 8191)], VImporting m) (vn_slots n2) /\ vm_epoch m = 7
    /\ snd (commit_migration ca_store 7 [(4096, 8191)] TagMigrating (vm_epoch m)) = Done tt
    /\ snd (commit_migration ca_store 7 [(4096, 8191)] TagImporting (vm_epoch m)) = Done tt.
Proof.
  destruct (view_cluster 1 ca_store 7) as [[v|]|] eqn:Ev; [|vm_compute in Ev; discriminate|vm_compute in Ev; discriminate].
  assert (Ev2 := Ev). vm_compute in Ev2. inversion Ev2 as [Hv]. clear Ev2.
  eexists v, _, _, _.
  split; [first [exact Ev|reflexivity]|].
  assert (Hn1 : In (nth 0 (vc_nodes v) (mkVNode 0 0 false [] 0 0)) (vc_nodes v)) by (rewrite <- Hv; left; reflexivity).
  assert (Hn2 : In (nth 4 (vc_nodes v) (mkVNode 0 0 false [] 0 0)) (vc_nodes v)) by (rewrite <- Hv; do 4 right; left; reflexivity).
  split; [exact Hn1|]. split; [exact Hn2|].
  assert (Hs1 : In ([(4096, 8191)], VMigrating (mkVMeta 7 1 2 3 6)) (vn_slots (nth 0 (vc_nodes v) (mkVNode 0 0 false [] 0 0))))
    by (rewrite <- Hv; right; left; reflexivity).
  assert (Hs2 : In ([(4096, 8191)], VImporting (mkVMeta 7 1 2 3 6)) (vn_slots (nth 4 (vc_nodes v) (mkVNode 0 0 false [] 0 0))))
    by (rewrite <- Hv; left; reflexivity).
  split; [exact Hs1|]. split; [exact Hs2|]. split; [reflexivity|]. split.
  - destruct (commit_accepts_visible ca_store 1 7 v _ _ _ _ TagMigrating ca_store_part_inv Ev Hn1 Hs1 (or_introl eq_refl))
      as (cl & e & _ & _ & _ & _ & Hd & _); [discriminate|exact Hd].
  - destruct (commit_accepts_visible ca_store 1 7 v _ _ _ _ TagImporting ca_store_part_inv Ev Hn2 Hs2 (or_intror eq_refl))
      as (cl & e & _ & _ & _ & _ & Hd & _); [discriminate|exact Hd].
Qed.
