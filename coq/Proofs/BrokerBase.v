(* Basic facts about the sorted association lists and sets of Model/Broker.v, shared by all broker proofs. *)
From UM Require Import Base.BytesDef Model.Ranges Model.Broker.
From Coq Require Import ZifyBool ZifyNat ZifyN.

Lemma alookup_ainsert_same {V} k (v : V) l : alookup k (ainsert k v l) = Some v.
Proof.
  induction l as [|[k' v'] l IH]; cbn [ainsert alookup].
  - rewrite N.eqb_refl. reflexivity.
  - destruct (N.eqb k k') eqn:E.
    + cbn [alookup]. rewrite N.eqb_refl. reflexivity.
    + destruct (N.ltb k k'); cbn [alookup]; rewrite ?N.eqb_refl, ?E; auto.
Qed.

Lemma alookup_ainsert_other {V} k k0 (v : V) l : k0 <> k -> alookup k0 (ainsert k v l) = alookup k0 l.
Proof.
  intros Hne. induction l as [|[k' v'] l IH]; cbn [ainsert alookup].
  - destruct (N.eqb k0 k) eqn:E; [apply N.eqb_eq in E; congruence|reflexivity].
  - destruct (N.eqb k k') eqn:E.
    + apply N.eqb_eq in E. subst k'. cbn [alookup].
      destruct (N.eqb k0 k) eqn:E2; [apply N.eqb_eq in E2; congruence|reflexivity].
    + destruct (N.ltb k k'); cbn [alookup].
      * destruct (N.eqb k0 k) eqn:E2; [apply N.eqb_eq in E2; congruence|reflexivity].
      * destruct (N.eqb k0 k'); auto.
Qed.

Lemma alookup_ainsert {V} k k0 (v : V) l :
  alookup k0 (ainsert k v l) = if N.eqb k0 k then Some v else alookup k0 l.
Proof.
  destruct (N.eqb k0 k) eqn:E.
  - apply N.eqb_eq in E. subst. apply alookup_ainsert_same.
  - apply alookup_ainsert_other. intros ->. rewrite N.eqb_refl in E. discriminate.
Qed.

Lemma alookup_aremove_other {V} k k0 (l : list (N * V)) : k0 <> k -> alookup k0 (aremove k l) = alookup k0 l.
Proof.
  intros Hne. induction l as [|[k' v'] l IH]; cbn [aremove alookup]; auto.
  destruct (N.eqb k k') eqn:E.
  - apply N.eqb_eq in E. subst k'. destruct (N.eqb k0 k) eqn:E2; [apply N.eqb_eq in E2; congruence|reflexivity].
  - cbn [alookup]. destruct (N.eqb k0 k'); auto.
Qed.

(* keys strictly increasing: the canonical form every reachable store keeps *)
Fixpoint keys_sorted {V} (l : list (N * V)) : Prop :=
  match l with
  | [] => True
  | (k, _) :: l' => (forall k' v', In (k', v') l' -> k < k') /\ keys_sorted l'
  end.

Lemma alookup_In {V} k (v : V) l : alookup k l = Some v -> In (k, v) l.
Proof.
  induction l as [|[k' v'] l IH]; cbn [alookup]; [discriminate|].
  destruct (N.eqb k k') eqn:E.
  - intros H. inversion H; subst. apply N.eqb_eq in E. subst. left. reflexivity.
  - intros H. right. auto.
Qed.

Lemma In_alookup_sorted {V} k (v : V) l : keys_sorted l -> In (k, v) l -> alookup k l = Some v.
Proof.
  induction l as [|[k' v'] l IH]; cbn [keys_sorted alookup In]; [tauto|].
  intros [Hlt Hs] [Heq|Hin].
  - inversion Heq; subst. rewrite N.eqb_refl. reflexivity.
  - destruct (N.eqb k k') eqn:E.
    + apply N.eqb_eq in E. subst. specialize (Hlt _ _ Hin). lia.
    + auto.
Qed.

Lemma ainsert_In {V} k (v : V) l k0 v0 :
  In (k0, v0) (ainsert k v l) -> (k0 = k /\ v0 = v) \/ In (k0, v0) l.
Proof.
  induction l as [|[k' v'] l IH]; cbn [ainsert In].
  - intros [H|[]]. inversion H; auto.
  - destruct (N.eqb k k') eqn:E.
    + cbn [In]. intros [H|H]; [inversion H; auto|auto].
    + destruct (N.ltb k k'); cbn [In].
      * intros [H|[H|H]]; [inversion H; auto|auto|auto].
      * intros [H|H]; [auto|]. destruct (IH H); auto.
Qed.

Lemma ainsert_sorted {V} k (v : V) l : keys_sorted l -> keys_sorted (ainsert k v l).
Proof.
  induction l as [|[k' v'] l IH]; cbn [ainsert keys_sorted].
  - intros _. split; [intros ? ? []|exact I].
  - intros [Hlt Hs]. destruct (N.eqb k k') eqn:E.
    + apply N.eqb_eq in E. subst. cbn [keys_sorted]. split; auto.
    + destruct (N.ltb k k') eqn:E2; cbn [keys_sorted].
      * split; [|split; auto]. intros k2 v2 [H|H]; [inversion H; subst; lia|]. specialize (Hlt _ _ H). lia.
      * split; [|auto]. intros k2 v2 H. destruct (ainsert_In _ _ _ _ _ H) as [[-> ->]|H2]; [|eauto].
        assert (k <> k') by (intros ->; rewrite N.eqb_refl in E; discriminate). lia.
Qed.

Lemma aremove_In {V} k (l : list (N * V)) k0 v0 : In (k0, v0) (aremove k l) -> In (k0, v0) l.
Proof.
  induction l as [|[k' v'] l IH]; cbn [aremove In]; auto.
  destruct (N.eqb k k'); cbn [In]; intros H; [auto|]. destruct H; auto.
Qed.

Lemma aremove_sorted {V} k (l : list (N * V)) : keys_sorted l -> keys_sorted (aremove k l).
Proof.
  induction l as [|[k' v'] l IH]; cbn [aremove keys_sorted]; auto.
  intros [Hlt Hs]. destruct (N.eqb k k'); cbn [keys_sorted]; auto.
  split; auto. intros k2 v2 H. apply aremove_In in H. eauto.
Qed.

Lemma alookup_aremove_same {V} k (l : list (N * V)) : keys_sorted l -> alookup k (aremove k l) = None.
Proof.
  induction l as [|[k' v'] l IH]; cbn [aremove keys_sorted alookup]; auto.
  intros [Hlt Hs]. destruct (N.eqb k k') eqn:E.
  - apply N.eqb_eq in E. subst. destruct (alookup k' l) eqn:El; auto.
    apply alookup_In in El. specialize (Hlt _ _ El). lia.
  - cbn [alookup]. rewrite E. auto.
Qed.

Lemma smem_sinsert k k0 l : smem k0 (sinsert k l) = N.eqb k0 k || smem k0 l.
Proof.
  unfold smem. induction l as [|k' l IH]; cbn [sinsert existsb].
  - reflexivity.
  - destruct (N.eqb k k') eqn:E.
    + apply N.eqb_eq in E. subst. cbn [existsb]. destruct (N.eqb k0 k'); reflexivity.
    + destruct (N.ltb k k'); cbn [existsb]; [reflexivity|]. rewrite IH.
      destruct (N.eqb k0 k'), (N.eqb k0 k); reflexivity.
Qed.

Lemma amem_alookup {V} k (l : list (N * V)) : amem k l = true <-> exists v, alookup k l = Some v.
Proof. unfold amem. destruct (alookup k l); split; intros H; eauto; try discriminate. destruct H; discriminate. Qed.

(* the epoch of a store after the bookkeeping setters *)
Lemma st_epoch_bump s : st_epoch (bump s) = st_epoch s + 1.
Proof. reflexivity. Qed.
