(* C06, parts 2-4 and 6 at the level of takeover_master: what the first loop (takeover_first) and the second loop
   (reepoch_peers) of update.rs takeover_master do to every chunk of the cluster. *)
From UM Require Import Base.BytesDef Model.Ranges Model.Broker Proofs.BrokerBase Proofs.BrokerFailoverStruct.

(* ---------- vocabulary ---------- *)

(* chunk i (value c) is the first chunk of the list having f as proxy; pos = false: f is proxy 0, pos = true: proxy 1.
   This is the chunk both loops of the Rust code stop at (`break`). *)
Definition first_at (chunks : list chunk) (f : N) (i : nat) (c : chunk) (pos : bool) : Prop :=
  nth_error chunks i = Some c
  /\ ck_proxy c pos = f
  /\ (pos = true -> ck_proxy0 c <> f)
  /\ (forall j cj, (j < i)%nat -> nth_error chunks j = Some cj -> ck_proxy0 cj <> f /\ ck_proxy1 cj <> f).

(* role position after proxy `pos` of the chunk failed: all masters on the other proxy *)
Definition new_role (pos : bool) : role_pos := if pos then RFirst else RSecond.

(* part `part` of chunk c has its master on proxy position pos, so that master is lost when that proxy fails *)
Definition moved (c : chunk) (pos part : bool) : bool := Bool.eqb (part_proxy_index part (ck_role c)) pos.

(* the peer_position set of the Rust code: source and destination positions of all entries of the moved parts *)
Definition moved_positions (c : chunk) (pos : bool) : list (nat * bool) :=
  mig_positions (ck_mig c pos) ++ (if moved c pos (negb pos) then mig_positions (ck_mig c (negb pos)) else []).

(* the failing chunk after the first loop *)
Definition takeover_chunk (pos : bool) (e : N) (c : chunk) : chunk :=
  let c1 := set_mig (set_role c (new_role pos)) pos (map (set_mig_epoch e) (ck_mig c pos)) in
  if moved c pos (negb pos) then set_mig c1 (negb pos) (map (set_mig_epoch e) (ck_mig c (negb pos))) else c1.

(* the second loop on one chunk *)
Definition reepoch_chunk (ps : list (nat * bool)) (e : N) (c : chunk) : chunk :=
  set_mig (set_mig c false (map (reepoch_peers ps e) (ck_mig0 c))) true (map (reepoch_peers ps e) (ck_mig1 c)).

(* two entries equal except possibly for the migration epoch *)
Definition same_but_epoch (m m' : mig_store) : Prop :=
  ms_ranges m' = ms_ranges m /\ ms_out m' = ms_out m
  /\ mm_src_idx (ms_meta m') = mm_src_idx (ms_meta m) /\ mm_src_part (ms_meta m') = mm_src_part (ms_meta m)
  /\ mm_dst_idx (ms_meta m') = mm_dst_idx (ms_meta m) /\ mm_dst_part (ms_meta m') = mm_dst_part (ms_meta m).

Definition src_pos (m : mig_store) : nat * bool := (mm_src_idx (ms_meta m), mm_src_part (ms_meta m)).
Definition dst_pos (m : mig_store) : nat * bool := (mm_dst_idx (ms_meta m), mm_dst_part (ms_meta m)).

(* well-formed placement of migration entries (what assign_dst_slots establishes): an out-entry sits in the list of its
   source position, an in-entry in the list of its destination position, and each has a twin of the other direction with
   equal ranges and equal meta at the other end *)
Definition mig_wf (chunks : list chunk) : Prop :=
  forall j cj p m, nth_error chunks j = Some cj -> In m (ck_mig cj p) ->
    (if ms_out m then src_pos m else dst_pos m) = (j, p)
    /\ exists ct m2, nth_error chunks (fst (if ms_out m then dst_pos m else src_pos m)) = Some ct
         /\ In m2 (ck_mig ct (snd (if ms_out m then dst_pos m else src_pos m)))
         /\ ms_out m2 = negb (ms_out m) /\ ms_ranges m2 = ms_ranges m /\ ms_meta m2 = ms_meta m.

(* every migration epoch of the cluster is at most E *)
Definition epochs_le (chunks : list chunk) (E : N) : Prop :=
  forall j cj p m, nth_error chunks j = Some cj -> In m (ck_mig cj p) -> mm_epoch (ms_meta m) <= E.

(* ---------- list helpers ---------- *)
Lemma nth_error_update_nth {A} (h : A -> A) l i j :
  nth_error (update_nth i h l) j = if Nat.eqb j i then option_map h (nth_error l j) else nth_error l j.
Proof.
  revert i j. induction l as [|x l IH]; intros i j.
  - destruct i; cbn [update_nth]; destruct j; cbn [nth_error option_map]; destruct (Nat.eqb _ _); reflexivity.
  - destruct i as [|i]; cbn [update_nth].
    + destruct j; cbn [nth_error Nat.eqb option_map]; reflexivity.
    + destruct j; cbn [nth_error Nat.eqb]; [reflexivity|]. apply IH.
Qed.

Lemma length_update_nth {A} (h : A -> A) l i : length (update_nth i h l) = length l.
Proof. revert i. induction l as [|x l IH]; intros [|i]; cbn [update_nth length]; auto. Qed.

(* ---------- simple projections ---------- *)
Lemma ck_mig_reepoch_chunk ps e c p : ck_mig (reepoch_chunk ps e c) p = map (reepoch_peers ps e) (ck_mig c p).
Proof. destruct p; reflexivity. Qed.

Lemma ck_stable_reepoch_chunk ps e c p : ck_stable (reepoch_chunk ps e c) p = ck_stable c p.
Proof. destruct p; reflexivity. Qed.

Lemma set_mig_epoch_idem e m : set_mig_epoch e (set_mig_epoch e m) = set_mig_epoch e m.
Proof. reflexivity. Qed.

Lemma set_mig_epoch_own m : set_mig_epoch (mm_epoch (ms_meta m)) m = m.
Proof. destruct m as [r o [e a b c d]]. reflexivity. Qed.

Lemma same_but_epoch_set e m : same_but_epoch m (set_mig_epoch e m).
Proof. unfold same_but_epoch. cbn. repeat split. Qed.

Lemma same_but_epoch_refl m : same_but_epoch m m.
Proof. unfold same_but_epoch. repeat split. Qed.

Lemma reepoch_cases ps e m :
  (reepoch_peers ps e m = set_mig_epoch e m /\ (pos_mem (src_pos m) ps || pos_mem (dst_pos m) ps = true))
  \/ (reepoch_peers ps e m = m /\ (pos_mem (src_pos m) ps || pos_mem (dst_pos m) ps = false)).
Proof.
  unfold reepoch_peers, src_pos, dst_pos.
  destruct (pos_mem _ ps || pos_mem _ ps); [left|right]; split; reflexivity.
Qed.

Lemma same_but_epoch_reepoch ps e m : same_but_epoch m (reepoch_peers ps e m).
Proof.
  destruct (reepoch_cases ps e m) as [[-> _]|[-> _]]; [apply same_but_epoch_set|apply same_but_epoch_refl].
Qed.

Lemma ms_meta_reepoch_eq ps e m m2 :
  ms_meta m2 = ms_meta m -> ms_meta (reepoch_peers ps e m2) = ms_meta (reepoch_peers ps e m).
Proof.
  intros H. unfold reepoch_peers. rewrite H.
  destruct (pos_mem _ ps || pos_mem _ ps); [|exact H]. cbn. rewrite H. reflexivity.
Qed.

Lemma pos_eqb_refl x : pos_eqb x x = true.
Proof. unfold pos_eqb. rewrite Nat.eqb_refl, Bool.eqb_reflx. reflexivity. Qed.

Lemma pos_eqb_eq x y : pos_eqb x y = true <-> x = y.
Proof.
  destruct x as [a b], y as [a' b']. unfold pos_eqb. cbn [fst snd]. split.
  - intros H. apply andb_true_iff in H. destruct H as [H1 H2].
    apply Nat.eqb_eq in H1. apply Bool.eqb_prop in H2. congruence.
  - intros H. inversion H. rewrite Nat.eqb_refl, Bool.eqb_reflx. reflexivity.
Qed.

Lemma pos_mem_In x l : pos_mem x l = true <-> In x l.
Proof.
  unfold pos_mem. rewrite existsb_exists. split.
  - intros (y & Hy & E). apply pos_eqb_eq in E. subst. exact Hy.
  - intros H. exists x. split; [exact H|apply pos_eqb_refl].
Qed.

Lemma In_mig_positions x l : In x (mig_positions l) <-> exists m, In m l /\ (x = src_pos m \/ x = dst_pos m).
Proof.
  unfold mig_positions. rewrite in_flat_map. split.
  - intros (m & Hm & Hx). exists m. split; [exact Hm|]. cbn [In] in Hx. unfold src_pos, dst_pos.
    destruct Hx as [Hx|[Hx|[]]]; auto.
  - intros (m & Hm & Hx). exists m. split; [exact Hm|]. cbn [In]. unfold src_pos, dst_pos in Hx.
    destruct Hx as [Hx|Hx]; auto.
Qed.

(* unless the early return is taken, the part normally served by the failing proxy position is moved *)
Lemma moved_pos_part c pos : role_eqb (ck_role c) (new_role pos) = false -> moved c pos pos = true.
Proof. unfold moved. destruct pos, (ck_role c); cbn; intros H; try reflexivity; discriminate. Qed.

(* the positions collected from the moved parts *)
Lemma In_moved_positions x c pos :
  role_eqb (ck_role c) (new_role pos) = false ->
  (In x (moved_positions c pos) <->
   exists q m, moved c pos q = true /\ In m (ck_mig c q) /\ (x = src_pos m \/ x = dst_pos m)).
Proof.
  intros Hr. unfold moved_positions. rewrite in_app_iff. split.
  - intros [H|H].
    + apply In_mig_positions in H. destruct H as (m & Hm & Hx). exists pos, m. split; [|auto].
      apply moved_pos_part. exact Hr.
    + destruct (moved c pos (negb pos)) eqn:E; [|destruct H].
      apply In_mig_positions in H. destruct H as (m & Hm & Hx). exists (negb pos), m. auto.
  - intros (q & m & Hq & Hm & Hx).
    destruct (Bool.eqb q pos) eqn:E.
    + apply Bool.eqb_prop in E. subst q. left. apply In_mig_positions. eauto.
    + assert (q = negb pos) by (destruct q, pos; cbn in E; congruence). subst q. right. rewrite Hq.
      apply In_mig_positions. eauto.
Qed.

(* ---------- the first loop ---------- *)
Lemma takeover_first_spec : forall chunks f e i c pos,
  first_at chunks f i c pos ->
  takeover_first chunks f e =
  if role_eqb (ck_role c) (new_role pos) then None
  else Some (update_nth i (takeover_chunk pos e) chunks, moved_positions c pos).
Proof.
  induction chunks as [|c0 rest IH]; intros f e i c pos (Hn & Hp & Hp0 & Hb).
  - destruct i; discriminate.
  - destruct i as [|i].
    + cbn [nth_error] in Hn. inversion Hn; subst c0; clear Hn.
      cbn [takeover_first update_nth]. destruct pos; cbn [ck_proxy] in Hp.
      * assert (E0 : N.eqb (ck_proxy0 c) f = false).
        { apply N.eqb_neq. apply Hp0. reflexivity. }
        rewrite E0. subst f. rewrite N.eqb_refl.
        unfold takeover_chunk, moved_positions, moved, new_role.
        destruct (ck_role c); cbn; rewrite ?app_nil_r; reflexivity.
      * subst f. rewrite N.eqb_refl.
        unfold takeover_chunk, moved_positions, moved, new_role.
        destruct (ck_role c); cbn; rewrite ?app_nil_r; reflexivity.
    + cbn [nth_error] in Hn. cbn [takeover_first update_nth].
      destruct (Hb 0%nat c0 ltac:(lia) eq_refl) as [H0 H1].
      apply N.eqb_neq in H0. apply N.eqb_neq in H1. rewrite H0, H1.
      rewrite (IH f e i c pos).
      * destruct (role_eqb (ck_role c) (new_role pos)); reflexivity.
      * repeat split; auto; intros j cj Hj Hcj; apply (Hb (S j) cj); [lia|exact Hcj|lia|exact Hcj].
Qed.

Lemma takeover_first_absent : forall chunks f e,
  (forall j cj, nth_error chunks j = Some cj -> ck_proxy0 cj <> f /\ ck_proxy1 cj <> f) ->
  takeover_first chunks f e = Some (chunks, []).
Proof.
  induction chunks as [|c0 rest IH]; intros f e H; [reflexivity|].
  cbn [takeover_first]. destruct (H 0%nat c0 eq_refl) as [H0 H1].
  apply N.eqb_neq in H0. apply N.eqb_neq in H1. rewrite H0, H1.
  rewrite IH; [reflexivity|]. intros j cj Hj. apply (H (S j) cj Hj).
Qed.

(* ---------- both loops: the chunk at every index afterwards ---------- *)
Lemma reepoch_after_set ps e l :
  (forall m, In m l -> In (src_pos m) ps) ->
  map (reepoch_peers ps e) (map (set_mig_epoch e) l) = map (reepoch_peers ps e) l.
Proof.
  intros H. rewrite map_map. apply map_ext_in. intros m Hm.
  assert (Hs : pos_mem (src_pos m) ps = true) by (apply pos_mem_In; auto).
  unfold reepoch_peers. unfold src_pos in Hs. cbn [set_mig_epoch ms_meta mm_src_idx mm_src_part mm_dst_idx mm_dst_part].
  rewrite Hs. cbn [orb]. reflexivity.
Qed.

Lemma reepoch_takeover_chunk c pos e :
  role_eqb (ck_role c) (new_role pos) = false ->
  reepoch_chunk (moved_positions c pos) e (takeover_chunk pos e c)
  = reepoch_chunk (moved_positions c pos) e (set_role c (new_role pos)).
Proof.
  intros Hr.
  assert (Hin : forall q m, moved c pos q = true -> In m (ck_mig c q) -> In (src_pos m) (moved_positions c pos)).
  { intros q m Hq Hm. apply In_moved_positions; [exact Hr|]. exists q, m. auto. }
  assert (Hpos := moved_pos_part c pos Hr).
  unfold takeover_chunk. unfold reepoch_chunk.
  destruct (moved c pos (negb pos)) eqn:Eo.
  - destruct pos; cbn [negb] in *; cbn [set_mig set_role ck_mig ck_mig0 ck_mig1 ck_role ck_stable0 ck_stable1
      ck_proxy0 ck_proxy1 ck_host0 ck_host1 ck_n0 ck_n1 ck_n2 ck_n3];
      rewrite !reepoch_after_set; try reflexivity; intros m Hm;
      first [apply (Hin true m Hpos Hm) | apply (Hin false m Hpos Hm) | apply (Hin true m Eo Hm) | apply (Hin false m Eo Hm)].
  - destruct pos; cbn [negb] in *; cbn [set_mig set_role ck_mig ck_mig0 ck_mig1 ck_role ck_stable0 ck_stable1
      ck_proxy0 ck_proxy1 ck_host0 ck_host1 ck_n0 ck_n1 ck_n2 ck_n3];
      rewrite !reepoch_after_set; try reflexivity; intros m Hm;
      first [apply (Hin true m Hpos Hm) | apply (Hin false m Hpos Hm)].
Qed.

(* MAIN characterisation: when the early return is not taken, chunk j afterwards is chunk j before with every
   migration entry passed through reepoch_peers (moved_positions c pos) e, and the role replaced at index i only *)
Lemma takeover_nth : forall cl f e i c pos,
  first_at (cl_chunks cl) f i c pos -> role_eqb (ck_role c) (new_role pos) = false ->
  cl_epoch (takeover_master cl f e) = e
  /\ cl_config (takeover_master cl f e) = cl_config cl
  /\ length (cl_chunks (takeover_master cl f e)) = length (cl_chunks cl)
  /\ forall j, nth_error (cl_chunks (takeover_master cl f e)) j =
       option_map (fun cj => reepoch_chunk (moved_positions c pos) e
                               (if Nat.eqb j i then set_role cj (new_role pos) else cj))
                  (nth_error (cl_chunks cl) j).
Proof.
  intros cl f e i c pos Hf Hr. unfold takeover_master.
  rewrite (takeover_first_spec _ f e i c pos Hf), Hr.
  fold (reepoch_chunk (moved_positions c pos) e).
  change (fun c0 : chunk => set_mig (set_mig c0 false (map (reepoch_peers (moved_positions c pos) e) (ck_mig0 c0))) true
                                   (map (reepoch_peers (moved_positions c pos) e) (ck_mig1 c0)))
    with (reepoch_chunk (moved_positions c pos) e).
  cbn [cl_epoch cl_config cl_chunks].
  split; [reflexivity|]. split; [reflexivity|].
  split; [rewrite map_length, length_update_nth; reflexivity|].
  intros j. rewrite nth_error_map, nth_error_update_nth.
  destruct (Nat.eqb j i) eqn:E.
  - apply Nat.eqb_eq in E. subst j. destruct Hf as (Hn & _). rewrite Hn. cbn [option_map].
    rewrite reepoch_takeover_chunk; auto.
  - reflexivity.
Qed.

Lemma takeover_early : forall cl f e i c pos,
  first_at (cl_chunks cl) f i c pos -> role_eqb (ck_role c) (new_role pos) = true ->
  takeover_master cl f e = cl.
Proof.
  intros cl f e i c pos Hf Hr. unfold takeover_master.
  rewrite (takeover_first_spec _ f e i c pos Hf), Hr. reflexivity.
Qed.
