(* C06, parts 2-4 and 6 at the level of takeover_master: what the first loop (takeover_first) and the second loop
   (reepoch_peers) of update.rs takeover_master do to every chunk of the cluster. *)
From UM Require Import Base.BytesDef Model.Ranges Model.Broker Proofs.BrokerBase Proofs.BrokerFailoverStruct.

(* ---------- vocabulary ---------- *)

(* chunk i (value c) is the first chunk of the list having f as proxy; pos = false: f is proxy 0, pos = true: proxy 1.
   This is the chunk both loops of the Rust code stop at (`break`). *)
Definition first_at (chunks : list chunk) (f : N) (i : nat) (c : chunk) (pos : bool) : Prop :=
  nth_error chunks i = Some c
  /\ ck_proxy c pos = f
  /\ (pos = true -> ck_proxy0 c <> f)
  /\ (forall j cj, (j < i)%nat -> nth_error chunks j = Some cj -> ck_proxy0 cj <> f /\ ck_proxy1 cj <> f).

(* role position after proxy `pos` of the chunk failed: all masters on the other proxy *)
Definition new_role (pos : bool) : role_pos := if pos then RFirst else RSecond.

(* part `part` of chunk c has its master on proxy position pos, so that master is lost when that proxy fails *)
Definition moved (c : chunk) (pos part : bool) : bool := Bool.eqb (part_proxy_index part (ck_role c)) pos.

(* the peer_position set of the Rust code: source and destination positions of all entries of the moved parts *)
Definition moved_positions (c : chunk) (pos : bool) : list (nat * bool) :=
  mig_positions (ck_mig c pos) ++ (if moved c pos (negb pos) then mig_positions (ck_mig c (negb pos)) else []).

(* the failing chunk after the first loop *)
Definition takeover_chunk (pos : bool) (e : N) (c : chunk) : chunk :=
  let c1 := set_mig (set_role c (new_role pos)) pos (map (set_mig_epoch e) (ck_mig c pos)) in
  if moved c pos (negb pos) then set_mig c1 (negb pos) (map (set_mig_epoch e) (ck_mig c (negb pos))) else c1.

(* the second loop on one chunk *)
Definition reepoch_chunk (ps : list (nat * bool)) (e : N) (c : chunk) : chunk :=
  set_mig (set_mig c false (map (reepoch_peers ps e) (ck_mig0 c))) true (map (reepoch_peers ps e) (ck_mig1 c)).

(* two entries equal except possibly for the migration epoch *)
Definition same_but_epoch (m m' : mig_store) : Prop :=
  ms_ranges m' = ms_ranges m /\ ms_out m' = ms_out m
  /\ mm_src_idx (ms_meta m') = mm_src_idx (ms_meta m) /\ mm_src_part (ms_meta m') = mm_src_part (ms_meta m)
  /\ mm_dst_idx (ms_meta m') = mm_dst_idx (ms_meta m) /\ mm_dst_part (ms_meta m') = mm_dst_part (ms_meta m).

Definition src_pos (m : mig_store) : nat * bool := (mm_src_idx (ms_meta m), mm_src_part (ms_meta m)).
Definition dst_pos (m : mig_store) : nat * bool := (mm_dst_idx (ms_meta m), mm_dst_part (ms_meta m)).

(* well-formed placement of migration entries (what assign_dst_slots establishes): an out-entry sits in the list of its
   source position, an in-entry in the list of its destination position, and each has a twin of the other direction with
   equal ranges and equal meta at the other end *)
Definition mig_wf (chunks : list chunk) : Prop :=
  forall j cj p m, nth_error chunks j = Some cj -> In m (ck_mig cj p) ->
    (if ms_out m then src_pos m else dst_pos m) = (j, p)
    /\ exists ct m2, nth_error chunks (fst (if ms_out m then dst_pos m else src_pos m)) = Some ct
         /\ In m2 (ck_mig ct (snd (if ms_out m then dst_pos m else src_pos m)))
         /\ ms_out m2 = negb (ms_out m) /\ ms_ranges m2 = ms_ranges m /\ ms_meta m2 = ms_meta m.

(* every migration epoch of the cluster is at most E *)
Definition epochs_le (chunks : list chunk) (E : N) : Prop :=
  forall j cj p m, nth_error chunks j = Some cj -> In m (ck_mig cj p) -> mm_epoch (ms_meta m) <= E.

(* ---------- list helpers ---------- *)
Lemma nth_error_update_nth {A} (h : A -> A) l i j :
  nth_error (update_nth i h l) j = if Nat.eqb j i then option_map h (nth_error l j) else nth_error l j.
Proof.
  revert i j. induction l as [|x l IH]; intros i j.
  - destruct i; cbn [update_nth]; destruct j; cbn [nth_error option_map]; destruct (Nat.eqb _ _); reflexivity.
  - destruct i as [|i]; cbn [update_nth].
    + destruct j; cbn [nth_error Nat.eqb option_map]; reflexivity.
    + destruct j; cbn [nth_error Nat.eqb]; [reflexivity|]. apply IH.
Qed.

Lemma length_update_nth {A} (h : A -> A) l i : length (update_nth i h l) = length l.
Proof. revert i. induction l as [|x l IH]; intros [|i]; cbn [update_nth length]; auto. Qed.

(* ---------- simple projections ---------- *)
Lemma ck_mig_reepoch_chunk ps e c p : ck_mig (reepoch_chunk ps e c) p = map (reepoch_peers ps e) (ck_mig c p).
Proof. destruct p; reflexivity. Qed.

Lemma ck_stable_reepoch_chunk ps e c p : ck_stable (reepoch_chunk ps e c) p = ck_stable c p.
Proof. destruct p; reflexivity. Qed.

Lemma set_mig_epoch_idem e m : set_mig_epoch e (set_mig_epoch e m) = set_mig_epoch e m.
Proof. reflexivity. Qed.

Lemma set_mig_epoch_own m : set_mig_epoch (mm_epoch (ms_meta m)) m = m.
Proof. destruct m as [r o [e a b c d]]. reflexivity. Qed.

Lemma same_but_epoch_set e m : same_but_epoch m (set_mig_epoch e m).
Proof. unfold same_but_epoch. cbn. repeat split. Qed.

Lemma same_but_epoch_refl m : same_but_epoch m m.
Proof. unfold same_but_epoch. repeat split. Qed.

Lemma reepoch_cases ps e m :
  (reepoch_peers ps e m = set_mig_epoch e m /\ (pos_mem (src_pos m) ps || pos_mem (dst_pos m) ps = true))
  \/ (reepoch_peers ps e m = m /\ (pos_mem (src_pos m) ps || pos_mem (dst_pos m) ps = false)).
Proof.
  unfold reepoch_peers, src_pos, dst_pos.
  destruct (pos_mem _ ps || pos_mem _ ps); [left|right]; split; reflexivity.
Qed.

Lemma same_but_epoch_reepoch ps e m : same_but_epoch m (reepoch_peers ps e m).
Proof.
  destruct (reepoch_cases ps e m) as [[-> _]|[-> _]]; [apply same_but_epoch_set|apply same_but_epoch_refl].
Qed.

Lemma ms_meta_reepoch_eq ps e m m2 :
  ms_meta m2 = ms_meta m -> ms_meta (reepoch_peers ps e m2) = ms_meta (reepoch_peers ps e m).
Proof.
  intros H. unfold reepoch_peers. rewrite H.
  destruct (pos_mem _ ps || pos_mem _ ps); [|exact H]. cbn. rewrite H. reflexivity.
Qed.

Lemma pos_eqb_refl x : pos_eqb x x = true.
Proof. unfold pos_eqb. rewrite Nat.eqb_refl, Bool.eqb_reflx. reflexivity. Qed.

Lemma pos_eqb_eq x y : pos_eqb x y = true <-> x = y.
Proof.
  destruct x as [a b], y as [a' b']. unfold pos_eqb. cbn [fst snd]. split.
  - intros H. apply andb_true_iff in H. destruct H as [H1 H2].
    apply Nat.eqb_eq in H1. apply Bool.eqb_prop in H2. congruence.
  - intros H. inversion H. rewrite Nat.eqb_refl, Bool.eqb_reflx. reflexivity.
Qed.

Lemma pos_mem_In x l : pos_mem x l = true <-> In x l.
Proof.
  unfold pos_mem. rewrite existsb_exists. split.
  - intros (y & Hy & E). apply pos_eqb_eq in E. subst. exact Hy.
  - intros H. exists x. split; [exact H|apply pos_eqb_refl].
Qed.

Lemma In_mig_positions x l : In x (mig_positions l) <-> exists m, In m l /\ (x = src_pos m \/ x = dst_pos m).
Proof.
  unfold mig_positions. rewrite in_flat_map. split.
  - intros (m & Hm & Hx). exists m. split; [exact Hm|]. cbn [In] in Hx. unfold src_pos, dst_pos.
    destruct Hx as [Hx|[Hx|[]]]; auto.
  - intros (m & Hm & Hx). exists m. split; [exact Hm|]. cbn [In]. unfold src_pos, dst_pos in Hx.
    destruct Hx as [Hx|Hx]; auto.
Qed.

(* unless the early return is taken, the part normally served by the failing proxy position is moved *)
Lemma moved_pos_part c pos : role_eqb (ck_role c) (new_role pos) = false -> moved c pos pos = true.
Proof. unfold moved. destruct pos, (ck_role c); cbn; intros H; try reflexivity; discriminate. Qed.

(* the positions collected from the moved parts *)
Lemma In_moved_positions x c pos :
  role_eqb (ck_role c) (new_role pos) = false ->
  (In x (moved_positions c pos) <->
   exists q m, moved c pos q = true /\ In m (ck_mig c q) /\ (x = src_pos m \/ x = dst_pos m)).
Proof.
  intros Hr. unfold moved_positions. rewrite in_app_iff. split.
  - intros [H|H].
    + apply In_mig_positions in H. destruct H as (m & Hm & Hx). exists pos, m. split; [|auto].
      apply moved_pos_part. exact Hr.
    + destruct (moved c pos (negb pos)) eqn:E; [|destruct H].
      apply In_mig_positions in H. destruct H as (m & Hm & Hx). exists (negb pos), m. auto.
  - intros (q & m & Hq & Hm & Hx).
    destruct (Bool.eqb q pos) eqn:E.
    + apply Bool.eqb_prop in E. subst q. left. apply In_mig_positions. eauto.
    + assert (q = negb pos) by (destruct q, pos; cbn in E |- *; congruence). subst q. right. rewrite Hq.
      apply In_mig_positions. eauto.
Qed.

(* ---------- the first loop ---------- *)
Lemma takeover_first_spec : forall chunks f e i c pos,
  first_at chunks f i c pos ->
  takeover_first chunks f e =
  if role_eqb (ck_role c) (new_role pos) then None
  else Some (update_nth i (takeover_chunk pos e) chunks, moved_positions c pos).
Proof.
  induction chunks as [|c0 rest IH]; intros f e i c pos (Hn & Hp & Hp0 & Hb).
  - destruct i; discriminate.
  - destruct i as [|i].
    + cbn [nth_error] in Hn. inversion Hn; subst c0; clear Hn.
      cbn [takeover_first update_nth]. destruct pos; cbn [ck_proxy] in Hp.
      * assert (E0 : N.eqb (ck_proxy0 c) f = false).
        { apply N.eqb_neq. apply Hp0. reflexivity. }
        rewrite E0. subst f. rewrite N.eqb_refl.
        unfold takeover_chunk, moved_positions, moved, new_role.
        destruct (ck_role c); cbn; rewrite ?app_nil_r; reflexivity.
      * subst f. rewrite N.eqb_refl.
        unfold takeover_chunk, moved_positions, moved, new_role.
        destruct (ck_role c); cbn; rewrite ?app_nil_r; reflexivity.
    + cbn [nth_error] in Hn. cbn [takeover_first update_nth].
      destruct (Hb 0%nat c0 ltac:(lia) eq_refl) as [H0 H1].
      apply N.eqb_neq in H0. apply N.eqb_neq in H1. rewrite H0, H1.
      rewrite (IH f e i c pos).
      * destruct (role_eqb (ck_role c) (new_role pos)); reflexivity.
      * split; [exact Hn|]. split; [exact Hp|]. split; [exact Hp0|].
        intros j cj Hj Hcj. apply (Hb (S j) cj); [lia|exact Hcj].
Qed.

Lemma takeover_first_absent : forall chunks f e,
  (forall j cj, nth_error chunks j = Some cj -> ck_proxy0 cj <> f /\ ck_proxy1 cj <> f) ->
  takeover_first chunks f e = Some (chunks, []).
Proof.
  induction chunks as [|c0 rest IH]; intros f e H; [reflexivity|].
  cbn [takeover_first]. destruct (H 0%nat c0 eq_refl) as [H0 H1].
  apply N.eqb_neq in H0. apply N.eqb_neq in H1. rewrite H0, H1.
  rewrite IH; [reflexivity|]. intros j cj Hj. apply (H (S j) cj Hj).
Qed.

(* ---------- both loops: the chunk at every index afterwards ---------- *)
Lemma reepoch_after_set ps e l :
  (forall m, In m l -> In (src_pos m) ps) ->
  map (reepoch_peers ps e) (map (set_mig_epoch e) l) = map (reepoch_peers ps e) l.
Proof.
  intros H. rewrite map_map. apply map_ext_in. intros m Hm.
  assert (Hs : pos_mem (src_pos m) ps = true) by (apply pos_mem_In; auto).
  unfold reepoch_peers. unfold src_pos in Hs. cbn [set_mig_epoch ms_meta mm_src_idx mm_src_part mm_dst_idx mm_dst_part].
  rewrite Hs. cbn [orb]. reflexivity.
Qed.

Lemma reepoch_takeover_chunk c pos e :
  role_eqb (ck_role c) (new_role pos) = false ->
  reepoch_chunk (moved_positions c pos) e (takeover_chunk pos e c)
  = reepoch_chunk (moved_positions c pos) e (set_role c (new_role pos)).
Proof.
  intros Hr.
  assert (Hin : forall q m, moved c pos q = true -> In m (ck_mig c q) -> In (src_pos m) (moved_positions c pos)).
  { intros q m Hq Hm. apply In_moved_positions; [exact Hr|]. exists q, m. auto. }
  assert (Hpos := moved_pos_part c pos Hr).
  unfold takeover_chunk. unfold reepoch_chunk.
  destruct (moved c pos (negb pos)) eqn:Eo.
  - destruct pos; cbn [negb] in *; cbn [set_mig set_role ck_mig ck_mig0 ck_mig1 ck_role ck_stable0 ck_stable1
      ck_proxy0 ck_proxy1 ck_host0 ck_host1 ck_n0 ck_n1 ck_n2 ck_n3];
      rewrite !reepoch_after_set; try reflexivity; intros m Hm;
      first [apply (Hin true m Hpos Hm) | apply (Hin false m Hpos Hm) | apply (Hin true m Eo Hm) | apply (Hin false m Eo Hm)].
  - destruct pos; cbn [negb] in *; cbn [set_mig set_role ck_mig ck_mig0 ck_mig1 ck_role ck_stable0 ck_stable1
      ck_proxy0 ck_proxy1 ck_host0 ck_host1 ck_n0 ck_n1 ck_n2 ck_n3];
      rewrite !reepoch_after_set; try reflexivity; intros m Hm;
      first [apply (Hin true m Hpos Hm) | apply (Hin false m Hpos Hm)].
Qed.

(* MAIN characterisation: when the early return is not taken, chunk j afterwards is chunk j before with every
   migration entry passed through reepoch_peers (moved_positions c pos) e, and the role replaced at index i only *)
Lemma takeover_nth : forall cl f e i c pos,
  first_at (cl_chunks cl) f i c pos -> role_eqb (ck_role c) (new_role pos) = false ->
  cl_epoch (takeover_master cl f e) = e
  /\ cl_config (takeover_master cl f e) = cl_config cl
  /\ length (cl_chunks (takeover_master cl f e)) = length (cl_chunks cl)
  /\ forall j, nth_error (cl_chunks (takeover_master cl f e)) j =
       option_map (fun cj => reepoch_chunk (moved_positions c pos) e
                               (if Nat.eqb j i then set_role cj (new_role pos) else cj))
                  (nth_error (cl_chunks cl) j).
Proof.
  intros cl f e i c pos Hf Hr. unfold takeover_master.
  rewrite (takeover_first_spec _ f e i c pos Hf), Hr.
  fold (reepoch_chunk (moved_positions c pos) e).
  change (fun c0 : chunk => set_mig (set_mig c0 false (map (reepoch_peers (moved_positions c pos) e) (ck_mig0 c0))) true
                                   (map (reepoch_peers (moved_positions c pos) e) (ck_mig1 c0)))
    with (reepoch_chunk (moved_positions c pos) e).
  cbn [cl_epoch cl_config cl_chunks].
  split; [reflexivity|]. split; [reflexivity|].
  split; [rewrite map_length, length_update_nth; reflexivity|].
  intros j. rewrite nth_error_map, nth_error_update_nth.
  destruct (Nat.eqb j i) eqn:E.
  - apply Nat.eqb_eq in E. subst j. destruct Hf as (Hn & _). rewrite Hn. cbn [option_map].
    rewrite reepoch_takeover_chunk; auto.
  - reflexivity.
Qed.

Lemma takeover_early : forall cl f e i c pos,
  first_at (cl_chunks cl) f i c pos -> role_eqb (ck_role c) (new_role pos) = true ->
  takeover_master cl f e = cl.
Proof.
  intros cl f e i c pos Hf Hr. unfold takeover_master.
  rewrite (takeover_first_spec _ f e i c pos Hf), Hr. reflexivity.
Qed.

(* f is a proxy of some chunk (then there is a first such chunk) or of none *)
Lemma first_at_dec : forall chunks f,
  (exists i c pos, first_at chunks f i c pos)
  \/ (forall j cj, nth_error chunks j = Some cj -> ck_proxy0 cj <> f /\ ck_proxy1 cj <> f).
Proof.
  induction chunks as [|c0 rest IH]; intros f.
  - right. intros [|j] cj H; discriminate.
  - destruct (N.eqb (ck_proxy0 c0) f) eqn:E0.
    + left. exists 0%nat, c0, false. apply N.eqb_eq in E0.
      split; [reflexivity|]. split; [exact E0|]. split; [discriminate|]. intros j cj Hj. lia.
    + destruct (N.eqb (ck_proxy1 c0) f) eqn:E1.
      * left. exists 0%nat, c0, true. apply N.eqb_eq in E1. apply N.eqb_neq in E0.
        split; [reflexivity|]. split; [exact E1|]. split; [intros _; exact E0|]. intros j cj Hj. lia.
      * apply N.eqb_neq in E0. apply N.eqb_neq in E1.
        destruct (IH f) as [(i & c & pos & Hn & Hp & Hp0 & Hb)|Hab].
        -- left. exists (S i), c, pos. split; [exact Hn|]. split; [exact Hp|]. split; [exact Hp0|].
           intros [|j] cj Hj Hcj.
           ++ cbn in Hcj. inversion Hcj; subst. auto.
           ++ apply (Hb j cj); [lia|exact Hcj].
        -- right. intros [|j] cj Hcj.
           ++ cbn in Hcj. inversion Hcj; subst. auto.
           ++ apply (Hab j cj Hcj).
Qed.

Lemma reepoch_nil e m : reepoch_peers [] e m = m.
Proof. reflexivity. Qed.

Lemma reepoch_chunk_nil e c : reepoch_chunk [] e c = c.
Proof.
  unfold reepoch_chunk. destruct c. cbn.
  rewrite !(map_ext _ (fun m => m) (reepoch_nil e)), !map_id. reflexivity.
Qed.

Lemma takeover_absent : forall cl f e,
  (forall j cj, nth_error (cl_chunks cl) j = Some cj -> ck_proxy0 cj <> f /\ ck_proxy1 cj <> f) ->
  takeover_master cl f e = mkCluster e (cl_chunks cl) (cl_config cl).
Proof.
  intros cl f e H. unfold takeover_master. rewrite (takeover_first_absent _ f e H).
  f_equal. erewrite map_ext; [apply map_id|]. intros c. apply (reepoch_chunk_nil e c).
Qed.

(* ---------- entries before / after ---------- *)
Lemma ck_mig_set_role c r p : ck_mig (set_role c r) p = ck_mig c p.
Proof. destruct p; reflexivity. Qed.
Lemma ck_stable_set_role c r p : ck_stable (set_role c r) p = ck_stable c p.
Proof. destruct p; reflexivity. Qed.

(* exact effect of the takeover on the chunk at index j (no early return) *)
Lemma takeover_chunk_at : forall cl f e i c pos j cj,
  first_at (cl_chunks cl) f i c pos -> role_eqb (ck_role c) (new_role pos) = false ->
  nth_error (cl_chunks cl) j = Some cj ->
  exists cj', nth_error (cl_chunks (takeover_master cl f e)) j = Some cj'
    /\ (forall p, ck_mig cj' p = map (reepoch_peers (moved_positions c pos) e) (ck_mig cj p))
    /\ (forall p, ck_stable cj' p = ck_stable cj p)
    /\ ck_role cj' = (if Nat.eqb j i then new_role pos else ck_role cj)
    /\ ck_proxy0 cj' = ck_proxy0 cj /\ ck_proxy1 cj' = ck_proxy1 cj
    /\ ck_host0 cj' = ck_host0 cj /\ ck_host1 cj' = ck_host1 cj
    /\ ck_n0 cj' = ck_n0 cj /\ ck_n1 cj' = ck_n1 cj /\ ck_n2 cj' = ck_n2 cj /\ ck_n3 cj' = ck_n3 cj.
Proof.
  intros cl f e i c pos j cj Hf Hr Hj.
  destruct (takeover_nth cl f e i c pos Hf Hr) as (_ & _ & _ & Hnth).
  eexists. split; [rewrite Hnth, Hj; reflexivity|].
  split; [intros p; rewrite ck_mig_reepoch_chunk; destruct (Nat.eqb j i); rewrite ?ck_mig_set_role; reflexivity|].
  split; [intros p; rewrite ck_stable_reepoch_chunk; destruct (Nat.eqb j i); rewrite ?ck_stable_set_role; reflexivity|].
  destruct (Nat.eqb j i); cbn; repeat split; reflexivity.
Qed.

Lemma takeover_chunk_at_inv : forall cl f e i c pos j cj',
  first_at (cl_chunks cl) f i c pos -> role_eqb (ck_role c) (new_role pos) = false ->
  nth_error (cl_chunks (takeover_master cl f e)) j = Some cj' ->
  exists cj, nth_error (cl_chunks cl) j = Some cj.
Proof.
  intros cl f e i c pos j cj' Hf Hr Hj.
  destruct (takeover_nth cl f e i c pos Hf Hr) as (_ & _ & _ & Hnth).
  rewrite Hnth in Hj. destruct (nth_error (cl_chunks cl) j) as [cj|]; [eauto|discriminate].
Qed.

Lemma Forall2_same_but_epoch_map ps e l : Forall2 same_but_epoch l (map (reepoch_peers ps e) l).
Proof. induction l; cbn [map]; constructor; auto. apply same_but_epoch_reepoch. Qed.

Lemma Forall2_same_but_epoch_refl l : Forall2 same_but_epoch l l.
Proof. induction l; constructor; auto. apply same_but_epoch_refl. Qed.

Lemma role_eqb_eq a b : role_eqb a b = true <-> a = b.
Proof. destruct a, b; cbn; split; intros H; try reflexivity; discriminate. Qed.

(* ---------- 2. ownership ---------- *)
Lemma takeover_ownership : forall cl f e i c pos,
  first_at (cl_chunks cl) f i c pos ->
  length (cl_chunks (takeover_master cl f e)) = length (cl_chunks cl)
  /\ (forall j cj, nth_error (cl_chunks cl) j = Some cj ->
        exists cj', nth_error (cl_chunks (takeover_master cl f e)) j = Some cj'
          /\ (forall p, ck_stable cj' p = ck_stable cj p)
          /\ (forall p, Forall2 same_but_epoch (ck_mig cj p) (ck_mig cj' p))
          /\ (forall k, ck_node cj' k = ck_node cj k) /\ (forall b, ck_proxy cj' b = ck_proxy cj b)
          /\ ck_role cj' = (if Nat.eqb j i then new_role pos else ck_role cj))
  /\ (forall p, part_proxy_index p (new_role pos) = negb pos)
  /\ (forall p, part_proxy_index p (ck_role c) = pos ->
        part_node_index p (new_role pos) = peer_idx (part_node_index p (ck_role c)))
  /\ (forall p, part_proxy_index p (ck_role c) = negb pos ->
        part_node_index p (new_role pos) = part_node_index p (ck_role c))
  /\ (forall k, Nat.leb 2 k = pos -> role_replica (new_role pos) k = true).
Proof.
  intros cl f e i c pos Hf.
  assert (Htab : (forall p, part_proxy_index p (new_role pos) = negb pos)
    /\ (forall p, part_proxy_index p (ck_role c) = pos ->
          part_node_index p (new_role pos) = peer_idx (part_node_index p (ck_role c)))
    /\ (forall p, part_proxy_index p (ck_role c) = negb pos ->
          part_node_index p (new_role pos) = part_node_index p (ck_role c))
    /\ (forall k, Nat.leb 2 k = pos -> role_replica (new_role pos) k = true)).
  { split; [intros p; destruct p, pos; reflexivity|].
    split; [intros p; destruct p, pos, (ck_role c); cbn; intros H; try reflexivity; discriminate|].
    split; [intros p; destruct p, pos, (ck_role c); cbn; intros H; try reflexivity; discriminate|].
    intros k Hk. destruct pos; cbn [new_role role_replica]; [exact Hk|].
    destruct k as [|[|k]]; [reflexivity|reflexivity|discriminate]. }
  destruct (role_eqb (ck_role c) (new_role pos)) eqn:Hr.
  - rewrite (takeover_early cl f e i c pos Hf Hr).
    split; [reflexivity|]. split; [|exact Htab].
    intros j cj Hj. exists cj. split; [exact Hj|]. split; [reflexivity|].
    split; [intros p; apply Forall2_same_but_epoch_refl|]. split; [reflexivity|]. split; [reflexivity|].
    destruct (Nat.eqb j i) eqn:E; [|reflexivity]. apply Nat.eqb_eq in E. subst j.
    destruct Hf as (Hn & _). rewrite Hn in Hj. inversion Hj; subst cj. apply role_eqb_eq. exact Hr.
  - destruct (takeover_nth cl f e i c pos Hf Hr) as (_ & _ & Hlen & _).
    split; [exact Hlen|]. split; [|exact Htab].
    intros j cj Hj.
    destruct (takeover_chunk_at cl f e i c pos j cj Hf Hr Hj)
      as (cj' & Hj' & Hm & Hs & Hro & Hp0 & Hp1 & _ & _ & H0 & H1 & H2 & H3).
    exists cj'. split; [exact Hj'|]. split; [exact Hs|].
    split; [intros p; rewrite Hm; apply Forall2_same_but_epoch_map|].
    split; [intros k; unfold ck_node; destruct k as [|[|[|k]]]; assumption|].
    split; [intros b; destruct b; cbn [ck_proxy]; assumption|]. exact Hro.
Qed.

(* ---------- 3. re-issue ---------- *)
Lemma reepoch_epoch_e ps e m : In (src_pos m) ps \/ In (dst_pos m) ps -> mm_epoch (ms_meta (reepoch_peers ps e m)) = e.
Proof.
  intros H. destruct (reepoch_cases ps e m) as [[-> _]|[_ Hn]]; [reflexivity|].
  apply orb_false_iff in Hn. destruct Hn as [H1 H2].
  destruct H as [H|H]; apply pos_mem_In in H; congruence.
Qed.

Lemma reepoch_pos ps e m :
  src_pos (reepoch_peers ps e m) = src_pos m /\ dst_pos (reepoch_peers ps e m) = dst_pos m
  /\ ms_out (reepoch_peers ps e m) = ms_out m /\ ms_ranges (reepoch_peers ps e m) = ms_ranges m.
Proof. destruct (reepoch_cases ps e m) as [[-> _]|[-> _]]; repeat split; reflexivity. Qed.

(* entry m' of chunk j part p afterwards comes from an entry m of the same list before *)
Lemma takeover_entry_inv : forall cl f e i c pos j cj' p m',
  first_at (cl_chunks cl) f i c pos -> role_eqb (ck_role c) (new_role pos) = false ->
  nth_error (cl_chunks (takeover_master cl f e)) j = Some cj' -> In m' (ck_mig cj' p) ->
  exists cj m, nth_error (cl_chunks cl) j = Some cj /\ In m (ck_mig cj p)
               /\ m' = reepoch_peers (moved_positions c pos) e m.
Proof.
  intros cl f e i c pos j cj' p m' Hf Hr Hj' Hm'.
  destruct (takeover_chunk_at_inv cl f e i c pos j cj' Hf Hr Hj') as (cj & Hj).
  destruct (takeover_chunk_at cl f e i c pos j cj Hf Hr Hj) as (cj2 & Hj2 & Hm & _).
  rewrite Hj2 in Hj'. inversion Hj'; subst cj2. rewrite Hm in Hm'.
  apply in_map_iff in Hm'. destruct Hm' as (m & <- & Hin). eauto.
Qed.

Lemma takeover_entry_fwd : forall cl f e i c pos j cj p m,
  first_at (cl_chunks cl) f i c pos -> role_eqb (ck_role c) (new_role pos) = false ->
  nth_error (cl_chunks cl) j = Some cj -> In m (ck_mig cj p) ->
  exists cj', nth_error (cl_chunks (takeover_master cl f e)) j = Some cj'
              /\ In (reepoch_peers (moved_positions c pos) e m) (ck_mig cj' p).
Proof.
  intros cl f e i c pos j cj p m Hf Hr Hj Hm.
  destruct (takeover_chunk_at cl f e i c pos j cj Hf Hr Hj) as (cj' & Hj' & Hmig & _).
  exists cj'. split; [exact Hj'|]. rewrite Hmig. apply in_map. exact Hm.
Qed.

Lemma takeover_preserves_wf : forall cl f e, mig_wf (cl_chunks cl) -> mig_wf (cl_chunks (takeover_master cl f e)).
Proof.
  intros cl f e Hwf.
  destruct (first_at_dec (cl_chunks cl) f) as [(i & c & pos & Hf)|Hab].
  2:{ rewrite (takeover_absent cl f e Hab). exact Hwf. }
  destruct (role_eqb (ck_role c) (new_role pos)) eqn:Hr.
  { rewrite (takeover_early cl f e i c pos Hf Hr). exact Hwf. }
  intros j cj' p m' Hj' Hm'.
  destruct (takeover_entry_inv cl f e i c pos j cj' p m' Hf Hr Hj' Hm') as (cj & m & Hj & Hm & ->).
  destruct (Hwf j cj p m Hj Hm) as (Hplace & ct & m2 & Hct & Hm2 & Ho & Hrl & Hmeta).
  destruct (reepoch_pos (moved_positions c pos) e m) as (Hs & Hd & Hout & Hrng).
  rewrite Hout, Hs, Hd. split; [exact Hplace|].
  destruct (takeover_entry_fwd cl f e i c pos _ ct _ m2 Hf Hr Hct Hm2) as (ct' & Hct' & Hin2).
  exists ct', (reepoch_peers (moved_positions c pos) e m2). split; [exact Hct'|]. split; [exact Hin2|].
  destruct (reepoch_pos (moved_positions c pos) e m2) as (_ & _ & Hout2 & Hrng2).
  rewrite Hout2, Hrng2, Hrng. split; [exact Ho|]. split; [exact Hrl|]. apply ms_meta_reepoch_eq. exact Hmeta.
Qed.

Lemma takeover_reissue : forall cl f e i c pos,
  first_at (cl_chunks cl) f i c pos -> ck_role c <> new_role pos ->
  (* exact effect on every list of entries: this is what reepoch_peers does *)
  (forall j cj, nth_error (cl_chunks cl) j = Some cj ->
     exists cj', nth_error (cl_chunks (takeover_master cl f e)) j = Some cj'
       /\ forall p, ck_mig cj' p = map (reepoch_peers (moved_positions c pos) e) (ck_mig cj p))
  (* the entries of every moved part of the failing chunk carry the new epoch *)
  /\ (forall c' p m, nth_error (cl_chunks (takeover_master cl f e)) i = Some c' ->
        part_proxy_index p (ck_role c) = pos -> In m (ck_mig c' p) -> mm_epoch (ms_meta m) = e)
  (* the chunk had both masters on the failing proxy (earlier failover of the partner): both parts are re-issued *)
  /\ (ck_role c = new_role (negb pos) ->
      forall c' p m, nth_error (cl_chunks (takeover_master cl f e)) i = Some c' -> In m (ck_mig c' p) ->
                     mm_epoch (ms_meta m) = e)
  (* with well-placed twin entries: every entry anywhere whose source or destination is a moved part is re-issued *)
  /\ (mig_wf (cl_chunks cl) ->
      forall j cj' p m' q, nth_error (cl_chunks (takeover_master cl f e)) j = Some cj' -> In m' (ck_mig cj' p) ->
        part_proxy_index q (ck_role c) = pos -> (src_pos m' = (i, q) \/ dst_pos m' = (i, q)) ->
        mm_epoch (ms_meta m') = e)
  (* twin consistency is preserved *)
  /\ (mig_wf (cl_chunks cl) -> mig_wf (cl_chunks (takeover_master cl f e))).
Proof.
  intros cl f e i c pos Hf Hne.
  assert (Hr : role_eqb (ck_role c) (new_role pos) = false).
  { destruct (role_eqb (ck_role c) (new_role pos)) eqn:E; [|reflexivity]. apply role_eqb_eq in E. contradiction. }
  assert (Hmoved : forall j cj' p m', nth_error (cl_chunks (takeover_master cl f e)) j = Some cj' -> In m' (ck_mig cj' p) ->
            forall q m0, moved c pos q = true -> In m0 (ck_mig c q) ->
              (src_pos m' = src_pos m0 \/ src_pos m' = dst_pos m0 \/ dst_pos m' = src_pos m0 \/ dst_pos m' = dst_pos m0) ->
              mm_epoch (ms_meta m') = e).
  { intros j cj' p m' Hj' Hm' q m0 Hq Hm0 Hshare.
    destruct (takeover_entry_inv cl f e i c pos j cj' p m' Hf Hr Hj' Hm') as (cj & m & Hj & Hm & ->).
    destruct (reepoch_pos (moved_positions c pos) e m) as (Hs & Hd & _ & _). rewrite Hs, Hd in Hshare.
    apply reepoch_epoch_e.
    destruct Hshare as [H|[H|[H|H]]]; [left|left|right|right]; rewrite H;
      apply In_moved_positions; try exact Hr; exists q, m0; auto. }
  split.
  { intros j cj Hj. destruct (takeover_chunk_at cl f e i c pos j cj Hf Hr Hj) as (cj' & Hj' & Hm & _). eauto. }
  assert (Hpart : forall c' p m, nth_error (cl_chunks (takeover_master cl f e)) i = Some c' ->
        part_proxy_index p (ck_role c) = pos -> In m (ck_mig c' p) -> mm_epoch (ms_meta m) = e).
  { intros c' p m' Hc' Hp Hm'.
    destruct (takeover_entry_inv cl f e i c pos i c' p m' Hf Hr Hc' Hm') as (cj & m & Hj & Hm & ->).
    destruct Hf as (Hn & _). rewrite Hn in Hj. inversion Hj; subst cj.
    apply reepoch_epoch_e. left. apply In_moved_positions; [exact Hr|]. exists p, m.
    split; [unfold moved; rewrite Hp; apply Bool.eqb_reflx|]. auto. }
  split; [exact Hpart|].
  split.
  { intros Hboth c' p m Hc' Hm. apply (Hpart c' p m Hc'); [|exact Hm].
    rewrite Hboth. destruct p, pos; reflexivity. }
  split; [|apply takeover_preserves_wf].
  intros Hwf j cj' p m' q Hj' Hm' Hq Htouch.
  destruct (takeover_entry_inv cl f e i c pos j cj' p m' Hf Hr Hj' Hm') as (cj & m & Hj & Hm & ->).
  destruct (reepoch_pos (moved_positions c pos) e m) as (Hs & Hd & _ & _). rewrite Hs, Hd in Htouch.
  assert (Hmq : moved c pos q = true) by (unfold moved; rewrite Hq; apply Bool.eqb_reflx).
  destruct (Hwf j cj p m Hj Hm) as (Hplace & ct & m2 & Hct & Hm2 & Ho & Hrl & Hmeta).
  assert (Hci : nth_error (cl_chunks cl) i = Some c) by (destruct Hf; assumption).
  apply reepoch_epoch_e.
  (* either m itself or its twin m2 sits in the list of the moved part (i, q) *)
  destruct (ms_out m) eqn:Eo.
  - (* out entry: stored at its source; twin at its destination *)
    destruct Htouch as [Ht|Ht].
    + left. apply In_moved_positions; [exact Hr|]. exists q, m. split; [exact Hmq|]. split; [|auto].
      rewrite Ht in Hplace. inversion Hplace; subst j p. rewrite Hci in Hj. inversion Hj; subst cj. exact Hm.
    + right. apply In_moved_positions; [exact Hr|]. exists q, m2. split; [exact Hmq|].
      rewrite Ht in Hct, Hm2. cbn [fst snd] in Hct, Hm2. rewrite Hci in Hct. inversion Hct; subst ct.
      split; [exact Hm2|]. right. unfold dst_pos. rewrite Hmeta. reflexivity.
  - destruct Htouch as [Ht|Ht].
    + left. apply In_moved_positions; [exact Hr|]. exists q, m2. split; [exact Hmq|].
      rewrite Ht in Hct, Hm2. cbn [fst snd] in Hct, Hm2. rewrite Hci in Hct. inversion Hct; subst ct.
      split; [exact Hm2|]. left. unfold src_pos. rewrite Hmeta. reflexivity.
    + right. apply In_moved_positions; [exact Hr|]. exists q, m. split; [exact Hmq|]. split; [|auto].
      rewrite Ht in Hplace. inversion Hplace; subst j p. rewrite Hci in Hj. inversion Hj; subst cj. exact Hm.
Qed.

(* ---------- 4. idempotence ---------- *)
Lemma first_at_after : forall cl f e i c pos,
  first_at (cl_chunks cl) f i c pos -> role_eqb (ck_role c) (new_role pos) = false ->
  exists c', first_at (cl_chunks (takeover_master cl f e)) f i c' pos /\ ck_role c' = new_role pos.
Proof.
  intros cl f e i c pos Hf Hr. pose proof Hf as (Hn & Hp & Hp0 & Hb).
  destruct (takeover_chunk_at cl f e i c pos i c Hf Hr Hn) as (c' & Hc' & _ & _ & Hro & Hq0 & Hq1 & _).
  exists c'. rewrite Nat.eqb_refl in Hro. split; [|exact Hro].
  split; [exact Hc'|]. split; [destruct pos; cbn [ck_proxy] in *; congruence|].
  split; [intros Hpos; rewrite Hq0; auto|].
  intros j cj' Hj Hcj'.
  destruct (takeover_chunk_at_inv cl f e i c pos j cj' Hf Hr Hcj') as (cj & Hcj).
  destruct (takeover_chunk_at cl f e i c pos j cj Hf Hr Hcj) as (cj2 & Hcj2 & _ & _ & _ & Hr0 & Hr1 & _).
  rewrite Hcj2 in Hcj'. inversion Hcj'; subst cj2. rewrite Hr0, Hr1. apply (Hb j cj Hj Hcj).
Qed.

Lemma takeover_idempotent : forall cl f e e2 i c pos,
  first_at (cl_chunks cl) f i c pos ->
  takeover_master (takeover_master cl f e) f e2 = takeover_master cl f e.
Proof.
  intros cl f e e2 i c pos Hf.
  destruct (role_eqb (ck_role c) (new_role pos)) eqn:Hr.
  - rewrite (takeover_early cl f e i c pos Hf Hr). apply (takeover_early cl f e2 i c pos Hf Hr).
  - destruct (first_at_after cl f e i c pos Hf Hr) as (c' & Hf' & Hro).
    apply (takeover_early _ f e2 i c' pos Hf'). apply role_eqb_eq. exact Hro.
Qed.

(* for an arbitrary address (chunk proxy or not) the chunks are not changed by a second call *)
Lemma takeover_idempotent_chunks : forall cl f e e2,
  cl_chunks (takeover_master (takeover_master cl f e) f e2) = cl_chunks (takeover_master cl f e).
Proof.
  intros cl f e e2.
  destruct (first_at_dec (cl_chunks cl) f) as [(i & c & pos & Hf)|Hab].
  - rewrite (takeover_idempotent cl f e e2 i c pos Hf). reflexivity.
  - rewrite (takeover_absent cl f e Hab). rewrite takeover_absent; [reflexivity|exact Hab].
Qed.

(* ---------- 6. migration epochs ---------- *)
Lemma takeover_epochs : forall cl f e E,
  epochs_le (cl_chunks cl) E -> E < e ->
  epochs_le (cl_chunks (takeover_master cl f e)) e
  /\ (forall j cj cj' p, nth_error (cl_chunks cl) j = Some cj ->
        nth_error (cl_chunks (takeover_master cl f e)) j = Some cj' ->
        Forall2 (fun m m' => m' = m \/ (mm_epoch (ms_meta m') = e /\ mm_epoch (ms_meta m) < mm_epoch (ms_meta m')))
                (ck_mig cj p) (ck_mig cj' p)).
Proof.
  intros cl f e E HE Hlt.
  assert (Hweak : epochs_le (cl_chunks cl) e).
  { intros j cj p m Hj Hm. specialize (HE j cj p m Hj Hm). lia. }
  assert (Hrefl : forall l : list mig_store,
             Forall2 (fun m m' => m' = m \/ (mm_epoch (ms_meta m') = e /\ mm_epoch (ms_meta m) < mm_epoch (ms_meta m'))) l l).
  { induction l; constructor; auto. }
  destruct (first_at_dec (cl_chunks cl) f) as [(i & c & pos & Hf)|Hab].
  2:{ rewrite (takeover_absent cl f e Hab). cbn [cl_chunks]. split; [exact Hweak|].
      intros j cj cj' p Hj Hj'. rewrite Hj in Hj'. inversion Hj'; subst. apply Hrefl. }
  destruct (role_eqb (ck_role c) (new_role pos)) eqn:Hr.
  { rewrite (takeover_early cl f e i c pos Hf Hr). split; [exact Hweak|].
    intros j cj cj' p Hj Hj'. rewrite Hj in Hj'. inversion Hj'; subst. apply Hrefl. }
  split.
  - intros j cj' p m' Hj' Hm'.
    destruct (takeover_entry_inv cl f e i c pos j cj' p m' Hf Hr Hj' Hm') as (cj & m & Hj & Hm & ->).
    destruct (reepoch_cases (moved_positions c pos) e m) as [[-> _]|[-> _]].
    + cbn. lia.
    + apply (Hweak j cj p m Hj Hm).
  - intros j cj cj' p Hj Hj'.
    destruct (takeover_chunk_at cl f e i c pos j cj Hf Hr Hj) as (cj2 & Hj2 & Hm & _).
    rewrite Hj2 in Hj'. inversion Hj'; subst cj2. rewrite Hm.
    assert (Hall : forall m, In m (ck_mig cj p) -> mm_epoch (ms_meta m) <= E) by (intros m Hin; apply (HE j cj p m Hj Hin)).
    induction (ck_mig cj p) as [|m l IH]; cbn [map]; constructor.
    + destruct (reepoch_cases (moved_positions c pos) e m) as [[-> _]|[-> _]]; [right|left; reflexivity].
      cbn. specialize (Hall m (or_introl eq_refl)). split; [reflexivity|lia].
    + apply IH. intros m0 H0. apply Hall. right. exact H0.
Qed.
